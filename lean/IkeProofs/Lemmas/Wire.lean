import IkeProofs.Lemmas.RoundTrip
import IkeProofs.Lemmas.Eap
import IkeModel.Spec.Wire

/-! Lemmas for C05: the independent RFC 7296 encoder `Spec.encode` (IkeModel/Spec/Wire.lean)
against the model of the Go codec.

* canonical liberties: the spec encoder produces what the model's `marshal…` functions produce;
* any liberties: the model's `unmarshal…` functions recover the fields (the `rt_*` lemmas of
  `Lemmas/RoundTrip.lean` are the special case "all reserved octets zero, canonical order"). -/

set_option linter.unusedSimpArgs false
set_option linter.unusedVariables false

namespace Ike
open Spec

/-! ### transform attribute, transform -/

theorem encodeAttr_eq (t : Transform) (hd : t.Dom) : encodeAttr t = marshalAttr t := by
  unfold encodeAttr marshalAttr
  rcases hd with ⟨h1, h2, h3, h4, h5⟩ | ⟨h1, h2, h3, h5⟩ | ⟨h1, h2, h3, h4, h5⟩
  · simp [h1]
  · have hw : UInt16.ofNat (32768 + t.atype.toNat) = (0x8000 : UInt16) ||| t.atype := by
      apply UInt16.toNat_inj.mp
      rw [u16_or_8000 _ h3, ofNat_toNat_u16 _ (by omega)]
    have hft := ft_tv t.atype
    simp only [h1, h2, Bool.not_true, Bool.false_eq_true, if_false]
    rw [if_neg (by omega), if_pos trivial, if_neg (by decide), hw, hft]
  · have hft := ft_tlv t.atype
    have hne : ¬ t.vval.length = 0 := fun hc => h5 (List.eq_nil_of_length_eq_zero hc)
    simp only [h1, h2, Bool.not_true, Bool.false_eq_true, if_false]
    rw [if_neg (by omega), if_neg (by decide : ¬ (0 : UInt8) = 1), if_pos (by decide : ((0 : UInt8) == 0) = true),
      hft, if_neg hne]
    simp

theorem encodeTransform_canonical (t : Transform) (last : Bool) (hd : t.Dom) :
    encodeTransform {} last t = marshalTransform last t := by
  unfold encodeTransform marshalTransform
  rw [encodeAttr_eq t hd]

theorem tbuf_bytes2 (x0 x1 tt x5 : UInt8) (v tid : UInt16) (a rest : Bytes) (i : Nat) :
    byteAt ([x0, x1] ++ put16 v ++ [tt, x5] ++ put16 tid ++ a ++ rest) (8 + i) = byteAt (a ++ rest) i := by
  have := byteAt_append_right ([x0, x1] ++ put16 v ++ [tt, x5] ++ put16 tid) (a ++ rest) i
  simp only [List.append_assoc] at this ⊢
  simpa using this

/-- a transform written with any two reserved octets parses back to itself -/
theorem parseTransform_spec (ℓ : TLib) (t : Transform) (last : Bool) (h rest : Bytes) (hd : t.Dom)
    (hm : encodeTransform ℓ last t = .ok h) :
    parseTransform (h ++ rest) = .ok (t, h.length) ∧ 8 ≤ h.length := by
  unfold encodeTransform at hm
  rw [encodeAttr_eq t hd] at hm
  obtain ⟨r1, r2⟩ := ℓ
  simp only at hm
  cases ha : marshalAttr t with
  | err => simp [ha] at hm
  | fault => simp [ha] at hm
  | ok a =>
    simp only [ha, Res.bind_ok] at hm
    split at hm
    · simp at hm
    · rename_i hlen
      simp only [Res.ok.injEq] at hm
      subst hm
      have hl : (UInt16.ofNat (8 + a.length)).toNat = 8 + a.length := ofNat_toNat_u16 _ (by omega)
      generalize hv : UInt16.ofNat (8 + a.length) = v at *
      have e8 : (8 : UInt16).toNat = 8 := rfl
      have e12 : (12 : UInt16).toNat = 12 := rfl
      refine ⟨?_, by len_omega⟩
      unfold parseTransform
      go_steps
      have htl : be16 (byteAt ([if last = true then 0 else 3, r1] ++ put16 v ++ [t.ttype, r2] ++ put16 t.tid ++ a ++ rest) 2)
                      (byteAt ([if last = true then 0 else 3, r1] ++ put16 v ++ [t.ttype, r2] ++ put16 t.tid ++ a ++ rest) 3) = v := by
        simp [put16, be16_put]
      rw [htl]
      rw [if_neg (by simp only [UInt16.lt_iff_toNat_lt, hl, e8]; omega), hl, if_neg (by len_omega)]
      go_steps
      have htt : byteAt ([if last = true then 0 else 3, r1] ++ put16 v ++ [t.ttype, r2] ++ put16 t.tid ++ a ++ rest) 4 = t.ttype := by
        simp [put16]
      have htid : be16 (byteAt ([if last = true then 0 else 3, r1] ++ put16 v ++ [t.ttype, r2] ++ put16 t.tid ++ a ++ rest) 6)
                       (byteAt ([if last = true then 0 else 3, r1] ++ put16 v ++ [t.ttype, r2] ++ put16 t.tid ++ a ++ rest) 7) = t.tid := by
        simp [put16, be16_put]
      rw [htt, htid]
      unfold marshalAttr at ha
      rcases hd with ⟨h1, h2, h3, h4, h5⟩ | ⟨h1, h2, h3, h5⟩ | ⟨h1, h2, h3, h4, h5⟩
      · -- no attribute
        simp [h1] at ha
        subst ha
        simp at hl
        rw [if_neg (by simp only [gt_iff_lt, UInt16.lt_iff_toNat_lt, hl, e8]; omega)]
        cases t; simp_all
      · -- TV
        simp [h1, h2] at ha
        subst ha
        simp at hl
        rw [if_pos (by simp only [gt_iff_lt, UInt16.lt_iff_toNat_lt, hl, e8]; omega)]
        rw [if_neg (by simp only [UInt16.lt_iff_toNat_lt, hl, e12]; omega)]
        go_steps
        have w := attr_word_tv t.atype h3
        have hw15 : (1 : UInt16) <<< 15 = 0x8000 := rfl
        rw [hw15] at *
        have b8 := tbuf_bytes2 (if last = true then 0 else 3) r1 t.ttype r2 v t.tid (put16 (32768 ||| t.atype) ++ put16 t.aval) rest 0
        have b9 := tbuf_bytes2 (if last = true then 0 else 3) r1 t.ttype r2 v t.tid (put16 (32768 ||| t.atype) ++ put16 t.aval) rest 1
        have b10 := tbuf_bytes2 (if last = true then 0 else 3) r1 t.ttype r2 v t.tid (put16 (32768 ||| t.atype) ++ put16 t.aval) rest 2
        have b11 := tbuf_bytes2 (if last = true then 0 else 3) r1 t.ttype r2 v t.tid (put16 (32768 ||| t.atype) ++ put16 t.aval) rest 3
        simp only [Nat.add_zero, Nat.reduceAdd] at b8 b9 b10 b11
        rw [b8, b9, b10, b11]
        simp only [put16, List.cons_append, List.nil_append, byteAt_cons_zero, byteAt_cons_succ]
        rw [w.1, be16_put, be16_put, w.2]
        cases t; simp_all
      · -- TLV
        have hne : ¬ t.vval.length = 0 := by
          intro hc; exact h5 (List.eq_nil_of_length_eq_zero hc)
        simp [h1, h2, hne] at ha
        split at ha
        · simp at ha
        · rename_i hvl
          simp at ha
          subst ha
          have hal : (UInt16.ofNat t.vval.length).toNat = t.vval.length := ofNat_toNat_u16 _ (by omega)
          generalize hq : UInt16.ofNat t.vval.length = q at *
          simp at hl hlen
          have hpos : 0 < t.vval.length := by omega
          rw [if_pos (by simp only [gt_iff_lt, UInt16.lt_iff_toNat_lt, hl, e8]; omega)]
          rw [if_neg (by simp only [UInt16.lt_iff_toNat_lt, hl, e12]; omega)]
          go_steps
          have w := attr_word_tlv t.atype h3
          have b8 := tbuf_bytes2 (if last = true then 0 else 3) r1 t.ttype r2 v t.tid (put16 t.atype ++ (put16 q ++ t.vval)) rest 0
          have b9 := tbuf_bytes2 (if last = true then 0 else 3) r1 t.ttype r2 v t.tid (put16 t.atype ++ (put16 q ++ t.vval)) rest 1
          have b10 := tbuf_bytes2 (if last = true then 0 else 3) r1 t.ttype r2 v t.tid (put16 t.atype ++ (put16 q ++ t.vval)) rest 2
          have b11 := tbuf_bytes2 (if last = true then 0 else 3) r1 t.ttype r2 v t.tid (put16 t.atype ++ (put16 q ++ t.vval)) rest 3
          simp only [Nat.add_zero, Nat.reduceAdd] at b8 b9 b10 b11
          rw [b8, b9, b10, b11]
          simp only [put16, List.cons_append, List.nil_append, byteAt_cons_zero, byteAt_cons_succ]
          rw [w, be16_put, be16_put, u16_and_7fff_of_lt _ h3]
          have hsum : (12 + q != v) = false := by
            simp only [bne_eq_false_iff_eq]
            apply UInt16.toNat_inj.mp
            simp only [UInt16.toNat_add, hal, hl, e12]
            omega
          simp only [hsum]
          simp only [List.length_cons]
          rw [show 8 + (t.vval.length + 1 + 1 + 1 + 1) = t.vval.length + 12 from by omega]
          cases t
          simp_all [List.take_succ_cons]

/-! ### transform lists: any order, any reserved octets -/

theorem encodeTransforms_canonical (ts : List Transform) (hd : ∀ t ∈ ts, t.Dom) :
    encodeTransforms (ts.map (fun t => (({} : TLib), t))) = marshalTransforms ts := by
  induction ts with
  | nil => rfl
  | cons t rest ih =>
    simp only [List.map_cons, encodeTransforms, marshalTransforms]
    rw [ih (fun x hx => hd x (by simp [hx])), encodeTransform_canonical t _ (hd t (by simp))]
    simp

/-- decoding the spec encoding of any emitted transform list files exactly those transforms, in
the emitted order, whatever the reserved octets -/
theorem unmarshalTransforms_spec (em : List (TLib × Transform)) (bs : Bytes) (p : Proposal)
    (hd : ∀ e ∈ em, e.2.Dom) (hm : encodeTransforms em = .ok bs) :
    unmarshalTransforms bs p = .ok ((em.map (·.2)).foldl Proposal.file p) := by
  induction em generalizing bs p with
  | nil =>
    simp [encodeTransforms] at hm; subst hm
    unfold unmarshalTransforms; simp
  | cons e rest ih =>
    obtain ⟨ℓ, t⟩ := e
    simp only [encodeTransforms] at hm
    cases hh : encodeTransform ℓ rest.isEmpty t with
    | err => simp [hh] at hm
    | fault => simp [hh] at hm
    | ok h =>
      cases hr : encodeTransforms rest with
      | err => simp [hh, hr] at hm
      | fault => simp [hh, hr] at hm
      | ok tl =>
        simp [hh, hr] at hm
        subst hm
        obtain ⟨hp, h8⟩ := parseTransform_spec ℓ t rest.isEmpty h tl (hd (ℓ, t) (by simp)) hh
        unfold unmarshalTransforms
        rw [dif_neg (by len_omega), if_neg (by len_omega), hp]
        simp only
        rw [dif_pos (by len_omega)]
        simp only [List.drop_left, List.map_cons, List.foldl_cons]
        exact ih tl (p.file t) (fun x hx => hd x (by simp [hx])) hr

/-- **the key fact about transform order**: filing an interleaving of five lists whose
members carry the type of their list appends each list to its own container, in its own order -/
theorem foldl_file_interleaves {l e p i d s : List Transform} (h : Interleaves l e p i d s)
    (he : ∀ t ∈ e, t.ttype = Facts.ttEncr) (hp : ∀ t ∈ p, t.ttype = Facts.ttPrf)
    (hi : ∀ t ∈ i, t.ttype = Facts.ttInteg) (hdh : ∀ t ∈ d, t.ttype = Facts.ttDh)
    (hs : ∀ t ∈ s, t.ttype = Facts.ttEsn) (q : Proposal) :
    l.foldl Proposal.file q =
      { q with encr := q.encr ++ e, prf := q.prf ++ p, integ := q.integ ++ i, dh := q.dh ++ d, esn := q.esn ++ s } := by
  induction h generalizing q with
  | nil => cases q; simp
  | encr t _ ih =>
    simp only [List.foldl_cons]
    rw [ih (fun x hx => he x (by simp [hx])) hp hi hdh hs]
    have ht := he t (by simp)
    simp [Proposal.file, ht]
  | prf t _ ih =>
    simp only [List.foldl_cons]
    rw [ih he (fun x hx => hp x (by simp [hx])) hi hdh hs]
    have ht := hp t (by simp)
    have h1 : (Facts.ttPrf == Facts.ttEncr) = false := by decide
    simp [Proposal.file, ht, h1]
  | integ t _ ih =>
    simp only [List.foldl_cons]
    rw [ih he hp (fun x hx => hi x (by simp [hx])) hdh hs]
    have ht := hi t (by simp)
    have h1 : (Facts.ttInteg == Facts.ttEncr) = false := by decide
    have h2 : (Facts.ttInteg == Facts.ttPrf) = false := by decide
    simp [Proposal.file, ht, h1, h2]
  | dh t _ ih =>
    simp only [List.foldl_cons]
    rw [ih he hp hi (fun x hx => hdh x (by simp [hx])) hs]
    have ht := hdh t (by simp)
    have h1 : (Facts.ttDh == Facts.ttEncr) = false := by decide
    have h2 : (Facts.ttDh == Facts.ttPrf) = false := by decide
    have h3 : (Facts.ttDh == Facts.ttInteg) = false := by decide
    simp [Proposal.file, ht, h1, h2, h3]
  | esn t _ ih =>
    simp only [List.foldl_cons]
    rw [ih he hp hi hdh (fun x hx => hs x (by simp [hx]))]
    have ht := hs t (by simp)
    have h1 : (Facts.ttEsn == Facts.ttEncr) = false := by decide
    have h2 : (Facts.ttEsn == Facts.ttPrf) = false := by decide
    have h3 : (Facts.ttEsn == Facts.ttInteg) = false := by decide
    have h4 : (Facts.ttEsn == Facts.ttDh) = false := by decide
    simp [Proposal.file, ht, h1, h2, h3, h4]

/-- membership in an interleaving = membership in one of the five lists -/
theorem mem_of_interleaves {l e p i d s : List Transform} (h : Interleaves l e p i d s) (t : Transform) :
    t ∈ l ↔ t ∈ e ∨ t ∈ p ∨ t ∈ i ∨ t ∈ d ∨ t ∈ s := by
  induction h with
  | nil => simp
  | encr x _ ih => simp only [List.mem_cons, ih, or_assoc, or_left_comm]
  | prf x _ ih => simp only [List.mem_cons, ih, or_assoc, or_left_comm]
  | integ x _ ih => simp only [List.mem_cons, ih, or_assoc, or_left_comm]
  | dh x _ ih => simp only [List.mem_cons, ih, or_assoc, or_left_comm]
  | esn x _ ih => simp only [List.mem_cons, ih, or_assoc, or_left_comm]

/-- the canonical order is an interleaving -/
theorem interleaves_canonical (e p i d s : List Transform) : Interleaves (e ++ p ++ i ++ d ++ s) e p i d s := by
  induction e with
  | cons t rest ih => simpa using Interleaves.encr t ih
  | nil =>
    induction p with
    | cons t rest ih => simpa using Interleaves.prf t ih
    | nil =>
      induction i with
      | cons t rest ih => simpa using Interleaves.integ t ih
      | nil =>
        induction d with
        | cons t rest ih => simpa using Interleaves.dh t ih
        | nil =>
          induction s with
          | cons t rest ih => simpa using Interleaves.esn t ih
          | nil => exact Interleaves.nil

/-- an admissible emitted order, filed by type, gives back the proposal -/
theorem file_interleaving (p : Proposal) (l : List Transform) (hd : p.Dom)
    (h : Interleaves l p.encr p.prf p.integ p.dh p.esn) :
    l.foldl Proposal.file ⟨p.num, p.proto, p.spi, [], [], [], [], []⟩ = p := by
  obtain ⟨h1, h2, h3, h4, h5⟩ := hd
  rw [foldl_file_interleaves h (fun t ht => (h1 t ht).1) (fun t ht => (h2 t ht).1) (fun t ht => (h3 t ht).1)
    (fun t ht => (h4 t ht).1) (fun t ht => (h5 t ht).1)]
  cases p; simp

/-! ### proposals -/

theorem emitted_dom (ℓ : PLib) (p : Proposal) (hd : p.Dom) (ha : ℓ.Admissible p) : ∀ e ∈ ℓ.emitted, e.2.Dom := by
  intro e he
  have hm : e.2 ∈ ℓ.emitted.map (·.2) := List.mem_map_of_mem he
  obtain ⟨d1, d2, d3, d4, d5⟩ := hd
  rcases (mem_of_interleaves ha e.2).mp hm with h | h | h | h | h
  · exact (d1 _ h).2
  · exact (d2 _ h).2
  · exact (d3 _ h).2
  · exact (d4 _ h).2
  · exact (d5 _ h).2

theorem canonical_admissible (p : Proposal) : (PLib.canonical p).Admissible p := by
  unfold PLib.Admissible PLib.canonical
  simp only [List.map_map]
  have : ((fun (x : TLib × Transform) => x.2) ∘ fun t => (({} : TLib), t)) = id := by funext t; rfl
  rw [this, List.map_id]
  exact interleaves_canonical _ _ _ _ _

/-- a proposal written with any reserved octet, its transforms in any admissible order with any
reserved octets, parses back to itself -/
theorem parseProposal_spec (ℓ : PLib) (p : Proposal) (last : Bool) (h rest : Bytes) (hd : p.Dom)
    (hadm : ℓ.Admissible p) (hm : encodeProposal ℓ last p = .ok h) :
    parseProposal (h ++ rest) = .ok (p, h.length) ∧ 8 ≤ h.length := by
  unfold encodeProposal at hm
  split at hm
  · simp at hm
  · rename_i hspi
    split at hm
    · simp at hm
    · split at hm
      · simp at hm
      · rename_i hne h255
        cases hts : encodeTransforms ℓ.emitted with
        | err => simp [hts] at hm
        | fault => simp [hts] at hm
        | ok td =>
          simp only [hts, Res.bind_ok] at hm
          split at hm
          · simp at hm
          · rename_i hlen
            simp only [Res.ok.injEq] at hm
            subst hm
            have hl : (UInt16.ofNat (8 + p.spi.length + td.length)).toNat = 8 + p.spi.length + td.length :=
              ofNat_toNat_u16 _ (by omega)
            generalize hv : UInt16.ofNat (8 + p.spi.length + td.length) = v at *
            have hs : (UInt8.ofNat p.spi.length).toNat = p.spi.length := ofNat_toNat_u8 _ (by omega)
            generalize hsv : UInt8.ofNat p.spi.length = sv at *
            generalize hnt : UInt8.ofNat ℓ.emitted.length = nt at *
            generalize hr0 : ℓ.reserved = r0 at *
            have e8 : (8 : UInt16).toNat = 8 := rfl
            refine ⟨?_, by len_omega⟩
            unfold parseProposal
            go_steps
            have hpl : be16 (byteAt ([if last = true then 0 else 2, r0] ++ put16 v ++ [p.num, p.proto, sv, nt] ++ p.spi ++ td ++ rest) 2)
                            (byteAt ([if last = true then 0 else 2, r0] ++ put16 v ++ [p.num, p.proto, sv, nt] ++ p.spi ++ td ++ rest) 3) = v := by
              simp [put16, be16_put]
            rw [hpl]
            rw [if_neg (by simp only [UInt16.lt_iff_toNat_lt, hl, e8]; omega), hl, if_neg (by len_omega)]
            go_steps
            have h4 : byteAt ([if last = true then 0 else 2, r0] ++ put16 v ++ [p.num, p.proto, sv, nt] ++ p.spi ++ td ++ rest) 4 = p.num := by simp [put16]
            have h5 : byteAt ([if last = true then 0 else 2, r0] ++ put16 v ++ [p.num, p.proto, sv, nt] ++ p.spi ++ td ++ rest) 5 = p.proto := by simp [put16]
            have h6 : byteAt ([if last = true then 0 else 2, r0] ++ put16 v ++ [p.num, p.proto, sv, nt] ++ p.spi ++ td ++ rest) 6 = sv := by simp [put16]
            rw [h4, h5, h6, hs]
            have hut := unmarshalTransforms_spec ℓ.emitted td ⟨p.num, p.proto, p.spi, [], [], [], [], []⟩
              (emitted_dom ℓ p hd hadm) hts
            rw [file_interleaving p _ hd hadm] at hut
            have htd : List.drop (8 + p.spi.length) (List.take (8 + p.spi.length + td.length)
                ([if last = true then 0 else 2, r0] ++ put16 v ++ [p.num, p.proto, sv, nt] ++ p.spi ++ td ++ rest)) = td := by
              have := drop_take_mid ([if last = true then 0 else 2, r0] ++ put16 v ++ [p.num, p.proto, sv, nt] ++ p.spi) td rest
                (8 + p.spi.length) (8 + p.spi.length + td.length) (by simp; omega) (by simp; omega)
              simpa [List.append_assoc] using this
            by_cases hz : p.spi.length > 0
            · rw [if_pos hz, if_neg (by omega)]
              go_steps
              have hsp : List.drop 8 (List.take (8 + p.spi.length)
                  ([if last = true then 0 else 2, r0] ++ put16 v ++ [p.num, p.proto, sv, nt] ++ p.spi ++ td ++ rest)) = p.spi := by
                have := drop_take_mid ([if last = true then 0 else 2, r0] ++ put16 v ++ [p.num, p.proto, sv, nt]) p.spi (td ++ rest)
                  8 (8 + p.spi.length) (by simp) (by simp)
                simpa [List.append_assoc] using this
              rw [hsp, htd, hut]
              simp
              omega
            · rw [if_neg hz]
              have hz0 : p.spi.length = 0 := by omega
              have hnil : p.spi = [] := List.eq_nil_of_length_eq_zero hz0
              go_steps
              rw [htd]
              rw [hnil] at hut ⊢
              rw [hut]
              simp [hnil]
              try omega

theorem encodeProposal_canonical (p : Proposal) (last : Bool) (hd : p.Dom) :
    encodeProposal (PLib.canonical p) last p = marshalProposal last p := by
  have hts : ∀ t ∈ p.transforms, t.Dom := by
    intro t ht
    obtain ⟨d1, d2, d3, d4, d5⟩ := hd
    simp only [Proposal.transforms, List.mem_append] at ht
    rcases ht with (((ht | ht) | ht) | ht) | ht
    · exact (d1 t ht).2
    · exact (d2 t ht).2
    · exact (d3 t ht).2
    · exact (d4 t ht).2
    · exact (d5 t ht).2
  have hem : (PLib.canonical p).emitted = p.transforms.map (fun t => (({} : TLib), t)) := rfl
  have hlen : (PLib.canonical p).emitted.length = p.transforms.length := by rw [hem]; simp
  have hres : (PLib.canonical p).reserved = 0 := rfl
  unfold encodeProposal marshalProposal
  rw [hlen, hres, hem, encodeTransforms_canonical p.transforms hts]

/-- proposal lists: the `i`-th proposal under the `i`-th choice (canonical when there is none) -/
theorem unmarshalProposals_spec (ls : List PLib) (ps : List Proposal) (bs : Bytes) (hd : ∀ p ∈ ps, p.Dom)
    (hadm : PropsAdmissible ls ps) (hm : encodeProposals ls ps = .ok bs) : unmarshalProposals bs = .ok ps := by
  induction ps generalizing ls bs with
  | nil =>
    simp [encodeProposals] at hm; subst hm
    unfold unmarshalProposals; simp
  | cons p rest ih =>
    simp only [encodeProposals] at hm
    cases hh : encodeProposal (ls.headD (PLib.canonical p)) rest.isEmpty p with
    | err => rw [hh] at hm; simp at hm
    | fault => rw [hh] at hm; simp at hm
    | ok h =>
      cases hr : encodeProposals ls.tail rest with
      | err => rw [hh, hr] at hm; simp at hm
      | fault => rw [hh, hr] at hm; simp at hm
      | ok tl =>
        rw [hh, hr] at hm
        simp only [Res.bind_ok, Res.ok.injEq] at hm
        subst hm
        have hadm1 : (ls.headD (PLib.canonical p)).Admissible p ∧ PropsAdmissible ls.tail rest := by
          cases ls with
          | nil =>
            refine ⟨canonical_admissible p, ?_⟩
            cases rest <;> simp [PropsAdmissible]
          | cons ℓ ls' => exact hadm
        obtain ⟨hp, h8⟩ := parseProposal_spec _ p rest.isEmpty h tl (hd p (by simp)) hadm1.1 hh
        unfold unmarshalProposals
        rw [dif_neg (by len_omega), if_neg (by len_omega), hp]
        simp only
        rw [dif_pos (by len_omega)]
        simp only [List.drop_left]
        rw [ih ls.tail tl (fun x hx => hd x (by simp [hx])) hadm1.2 hr]

theorem encodeProposals_canonical (ps : List Proposal) (hd : ∀ p ∈ ps, p.Dom) :
    encodeProposals [] ps = marshalProposals ps := by
  induction ps with
  | nil => rfl
  | cons p rest ih =>
    simp only [encodeProposals, marshalProposals, List.headD_nil, List.tail_nil]
    rw [ih (fun x hx => hd x (by simp [hx])), encodeProposal_canonical p _ (hd p (by simp))]

/-! ### flat payload bodies -/

theorem unmarshalKE_spec (r0 r1 : UInt8) (g : UInt16) (d : Bytes) (hd : 1 ≤ d.length) :
    unmarshalKE (encodeKE r0 r1 g d) = .ok (.ke g d) := by
  unfold encodeKE unmarshalKE
  rw [if_neg (by len_omega)]
  go_steps
  simp [put16, be16_put]

theorem unmarshalT4_spec (mk : UInt8 → Bytes → Payload) (r0 r1 r2 t : UInt8) (d : Bytes) (hd : 1 ≤ d.length) :
    unmarshalT4 mk (encodeTypeRes3 r0 r1 r2 t d) = .ok (mk t d) := by
  unfold encodeTypeRes3 unmarshalT4
  rw [if_neg (by len_omega)]
  go_steps
  simp

theorem marshalKE_spec (g : UInt16) (d : Bytes) : marshalKE g d = .ok (encodeKE 0 0 g d) := rfl
theorem marshalT4_spec (t : UInt8) (d : Bytes) : marshalT4 t d = .ok (encodeTypeRes3 0 0 0 t d) := rfl
theorem marshalT1_spec (t : UInt8) (d : Bytes) : marshalT1 t d = .ok (encodeCert t d) := rfl
theorem marshalNotify_spec (p : UInt8) (t : UInt16) (s d : Bytes) : marshalNotify p t s d = encodeNotify p t s d := rfl

theorem marshalDeleteSPIs4 (spis : List UInt32) : marshalDeleteSPIs 4 spis = .ok (spis.map put32).flatten := by
  induction spis with
  | nil => rfl
  | cons v rest ih =>
    simp only [marshalDeleteSPIs]
    rw [if_neg (by omega), ih]
    simp [zeros]

theorem marshalDelete_spec (proto spiSize : UInt8) (num : UInt16) (spis : List UInt32)
    (hdom : (spiSize = 0 ∧ spis = []) ∨ spiSize = 4) :
    marshalDelete proto spiSize num spis = encodeDelete proto spiSize num spis := by
  unfold marshalDelete encodeDelete
  by_cases hn : spis.length = num.toNat
  · rw [if_neg (show ¬ spis.length ≠ num.toNat by omega), if_neg (show ¬ num.toNat ≠ spis.length by omega)]
    rcases hdom with ⟨h0, hnil⟩ | h4
    · subst hnil
      have : ¬ num.toNat > 0 := by simp at hn; omega
      simp [this]
    · subst h4
      have e4 : (4 : UInt8).toNat = 4 := rfl
      rw [e4, marshalDeleteSPIs4]
      by_cases hz : num.toNat > 0
      · simp [hz]
      · have : spis = [] := List.eq_nil_of_length_eq_zero (by omega)
        subst this
        simp [hz]
  · rw [if_pos hn, if_pos (show num.toNat ≠ spis.length by omega)]

theorem encodeSelector_eq (t : TSel) : encodeSelector t = marshalTSel t := by
  unfold encodeSelector marshalTSel
  have e7 : Facts.tsIPv4 = 7 := rfl
  have e8 : Facts.tsIPv6 = 8 := rfl
  rw [e7, e8]
  by_cases h7 : t.tstype = 7
  · by_cases hs : t.saddr.length = 4 <;> by_cases he : t.eaddr.length = 4 <;> simp [h7, hs, he]
  · by_cases h8 : t.tstype = 8
    · have h78 : ¬ (8 : UInt8) = 7 := by decide
      by_cases hs : t.saddr.length = 16 <;> by_cases he : t.eaddr.length = 16 <;> simp [h8, h78, hs, he]
    · simp [h7, h8]

theorem encodeSelectors_eq (l : List TSel) : encodeSelectors l = marshalTSels l := by
  induction l with
  | nil => rfl
  | cons t rest ih => simp only [encodeSelectors, marshalTSels, ih, encodeSelector_eq]

theorem encodeTS_canonical (l : List TSel) : encodeTS 0 0 0 l = marshalTS l := by
  unfold encodeTS marshalTS
  rw [encodeSelectors_eq]

/-- a TS payload with any three reserved octets decodes to its selectors -/
theorem unmarshalTS_spec (mk : List TSel → Payload) (r0 r1 r2 : UInt8) (l : List TSel) (bs : Bytes)
    (h : encodeTS r0 r1 r2 l = .ok bs) : unmarshalTS mk bs = .ok (mk l) := by
  unfold encodeTS at h
  rw [encodeSelectors_eq] at h
  split at h
  · simp at h
  · split at h
    · simp at h
    · rename_i h0 h255
      cases hm : marshalTSels l with
      | ok body =>
        simp [hm] at h
        subst h
        have hn : (UInt8.ofNat l.length).toNat = l.length := ofNat_toNat_u8 _ (by omega)
        unfold unmarshalTS
        rw [if_neg (by len_omega), if_neg (by len_omega)]
        go_steps
        simp only [byteAt_cons_zero, hn]
        have := rt_TSels l body hm []
        simp at this
        simp [this]
      | err => simp [hm] at h
      | fault => simp [hm] at h

/-! ### Configuration: the R bit of an attribute is ignored -/

theorem cp_type_word (r : Bool) (a : UInt16) (h : a.toNat < 32768) :
    UInt16.ofNat ((if r then 32768 else 0) + a.toNat) &&& 0x7fff = a := by
  cases r with
  | true =>
    have hw : UInt16.ofNat (32768 + a.toNat) = (0x8000 : UInt16) ||| a := by
      apply UInt16.toNat_inj.mp
      rw [u16_or_8000 _ h, ofNat_toNat_u16 _ (by omega)]
    simp only [if_true]
    rw [hw]
    exact (attr_word_tv a h).2
  | false =>
    simp only [Bool.false_eq_true, if_false, Nat.zero_add, UInt16.ofNat_toNat]
    exact u16_and_7fff_of_lt a h

/-- one attribute in front of anything, written with any leading bit, parses back to itself -/
theorem parseCPAttr_spec (r : Bool) (a : CPAttr) (rest : Bytes) (hv : a.value.length ≤ 0xFFFF) (ht : a.atype.toNat < 32768) :
    parseCPAttr (put16 (UInt16.ofNat ((if r then 32768 else 0) + a.atype.toNat)) ++ put16 (UInt16.ofNat a.value.length) ++ a.value ++ rest)
      = .ok (a, 4 + a.value.length) := by
  have hw := cp_type_word r a.atype ht
  generalize UInt16.ofNat ((if r then 32768 else 0) + a.atype.toNat) = w at *
  have hl : (UInt16.ofNat a.value.length).toNat = a.value.length := ofNat_toNat_u16 _ (by omega)
  generalize UInt16.ofNat a.value.length = v at *
  unfold parseCPAttr
  go_steps
  have hlen : be16 (byteAt (put16 w ++ put16 v ++ a.value ++ rest) 2)
                   (byteAt (put16 w ++ put16 v ++ a.value ++ rest) 3) = v := by
    simp [put16, be16_put]
  rw [hlen, hl]
  rw [if_neg (by len_omega)]
  go_steps
  simp [put16, be16_put, take_add_cons4, hw]

theorem unmarshalCPAttrs_spec (rs : List Bool) (attrs : List CPAttr) (bs : Bytes)
    (h : encodeCPAttrs rs attrs = .ok bs) : unmarshalCPAttrs bs = .ok attrs := by
  induction attrs generalizing rs bs with
  | nil => simp [encodeCPAttrs] at h; subst h; unfold unmarshalCPAttrs; simp
  | cons a rest ih =>
    simp only [encodeCPAttrs] at h
    split at h
    · simp at h
    · rename_i hta
      split at h
      · simp at h
      · rename_i hv
        cases hr : encodeCPAttrs rs.tail rest with
        | ok tl =>
          rw [hr] at h
          simp only [Res.bind_ok, Res.ok.injEq] at h
          subst h
          have ihr := ih rs.tail tl hr
          have hp := parseCPAttr_spec (rs.headD false) a tl (by omega) (by omega)
          unfold unmarshalCPAttrs
          rw [dif_neg (by len_omega), if_neg (by len_omega)]
          simp only [List.append_assoc] at hp ⊢
          rw [hp]
          simp only
          rw [dif_pos (by len_omega)]
          have hd : List.drop (4 + a.value.length)
              (put16 (UInt16.ofNat ((if rs.headD false = true then 32768 else 0) + a.atype.toNat)) ++
                (put16 (UInt16.ofNat a.value.length) ++ (a.value ++ tl))) = tl := by
            simp [put16, drop_add_cons4]
          rw [hd, ihr]
        | err => rw [hr] at h; simp at h
        | fault => rw [hr] at h; simp at h

theorem encodeCPAttrs_nonempty (rs : List Bool) (a : CPAttr) (rest : List CPAttr) (bs : Bytes)
    (h : encodeCPAttrs rs (a :: rest) = .ok bs) : 1 ≤ bs.length := by
  simp only [encodeCPAttrs] at h
  split at h
  · simp at h
  · split at h
    · simp at h
    · cases hr : encodeCPAttrs rs.tail rest with
      | ok tl => rw [hr] at h; simp only [Res.bind_ok, Res.ok.injEq] at h; subst h; simp [put16]
      | err => rw [hr] at h; simp at h
      | fault => rw [hr] at h; simp at h

/-- a CP payload with any three reserved octets and any R bits decodes to its attributes -/
theorem unmarshalCP_spec (r0 r1 r2 : UInt8) (rs : List Bool) (ct : UInt8) (attrs : List CPAttr) (bs : Bytes)
    (hne : attrs ≠ []) (h : encodeCP r0 r1 r2 rs ct attrs = .ok bs) : unmarshalCP bs = .ok (.cp ct attrs) := by
  unfold encodeCP at h
  cases hm : encodeCPAttrs rs attrs with
  | ok body =>
    simp [hm] at h
    subst h
    have hb : 1 ≤ body.length := by
      cases attrs with
      | nil => exact absurd rfl hne
      | cons a rest => exact encodeCPAttrs_nonempty rs a rest body hm
    unfold unmarshalCP
    rw [if_neg (by len_omega)]
    go_steps
    simp [unmarshalCPAttrs_spec rs attrs body hm]
  | err => simp [hm] at h
  | fault => simp [hm] at h

theorem encodeCPAttrs_canonical (attrs : List CPAttr) (ht : ∀ a ∈ attrs, a.atype.toNat < 32768) :
    encodeCPAttrs [] attrs = marshalCPAttrs attrs := by
  induction attrs with
  | nil => rfl
  | cons a rest ih =>
    have hta := ht a (by simp)
    simp only [encodeCPAttrs, marshalCPAttrs, List.tail_nil, List.headD_nil]
    rw [ih (fun x hx => ht x (by simp [hx])), if_neg (by omega), u16_and_7fff_of_lt _ hta]
    simp

theorem encodeCP_canonical (ct : UInt8) (attrs : List CPAttr) (ht : ∀ a ∈ attrs, a.atype.toNat < 32768) :
    encodeCP 0 0 0 [] ct attrs = marshalCP ct attrs := by
  unfold encodeCP marshalCP
  rw [encodeCPAttrs_canonical attrs ht]

/-! ### generic payload header and IKE header -/

theorem payloadType_eq (p : Payload) : payloadType p = p.typeCode := by cases p <;> rfl

theorem firstPayloadType_eq (ps : List Payload) : firstPayloadType ps = firstType ps := by
  cases ps with
  | nil => rfl
  | cons p _ => exact payloadType_eq p

/-- the container walk on one framed payload of an implemented type other than SK: the flag
octet `fl` (critical bit, reserved bits) has no influence, the body is handed to the payload's
`Unmarshal` -/
theorem chainStep_body (t : UInt8) (p : Payload) (fl : UInt8) (body tl : Bytes) (nx : UInt8)
    (hk : knownType t = true) (hsk : (t == Facts.typeSK) = false)
    (hu : unmarshalPayload t nx body = .ok p) (hlen : 4 + body.length ≤ 0xFFFF) :
    chainStep t ([nx, fl] ++ put16 (UInt16.ofNat (4 + body.length)) ++ body ++ tl)
      = .ok (some p, nx, 4 + body.length) := by
  have hl : (UInt16.ofNat (4 + body.length)).toNat = 4 + body.length := ofNat_toNat_u16 _ (by omega)
  generalize UInt16.ofNat (4 + body.length) = v at *
  unfold chainStep
  rw [if_neg (by len_omega)]
  go_steps
  have hpl : be16 (byteAt ([nx, fl] ++ put16 v ++ body ++ tl) 2) (byteAt ([nx, fl] ++ put16 v ++ body ++ tl) 3) = v := by
    simp [put16, be16_put]
  rw [hpl]
  have h4 : ¬ v < 4 := by
    simp only [UInt16.lt_iff_toNat_lt, hl]
    have : (4 : UInt16).toNat = 4 := rfl
    omega
  rw [if_neg h4, hl, if_neg (by len_omega)]
  go_steps
  rw [if_pos hk]
  rw [hsk]
  simp only [Bool.false_and, Bool.false_eq_true, if_false]
  go_steps
  have hbody : List.drop 4 (List.take (4 + body.length) ([nx, fl] ++ put16 v ++ body ++ tl)) = body := by
    simp only [put16, List.cons_append, List.nil_append, List.append_assoc]
    rw [take_add_cons4]; simp
  have hnx : byteAt ([nx, fl] ++ put16 v ++ body ++ tl) 0 = nx := by simp
  rw [hbody, hnx, hu]
  simp

theorem version_octet : ∀ a b : Fin 16,
    ((UInt8.ofNat a.val) <<< 4) ||| ((UInt8.ofNat b.val) &&& 0x0F) = UInt8.ofNat (16 * a.val + b.val) := by
  decide

theorem version_octet' (a b : UInt8) (ha : a.toNat < 16) (hb : b.toNat < 16) :
    (a <<< 4) ||| (b &&& 0x0F) = UInt8.ofNat (16 * a.toNat + b.toNat) := by
  have := version_octet ⟨a.toNat, ha⟩ ⟨b.toNat, hb⟩
  simpa using this

/-- `IKEHeader.Marshal` = the RFC header followed by the payload octets (versions < 16) -/
theorem marshalHeader_spec (h : Header) (hmaj : h.major.toNat < 16) (hmin : h.minor.toNat < 16) :
    marshalHeader h = (do let hb ← encodeHeader h h.next h.payloadBytes.length; .ok (hb ++ h.payloadBytes)) := by
  unfold marshalHeader encodeHeader
  have e : Facts.ikeHeaderLen = 28 := rfl
  rw [e, if_neg (show ¬ h.major.toNat ≥ 16 by omega), if_neg (show ¬ h.minor.toNat ≥ 16 by omega)]
  dsimp only
  by_cases hbig : 28 + h.payloadBytes.length > 4294967295
  · rw [if_pos hbig, if_pos (show 28 + h.payloadBytes.length ≥ 4294967296 by omega)]
    rfl
  · rw [if_neg hbig, if_neg (show ¬ 28 + h.payloadBytes.length ≥ 4294967296 by omega), version_octet' _ _ hmaj hmin]
    simp

/-! ### well-formedness of the independent encoder's output, by independent walks -/

theorem len16 (n : Nat) (h : n ≤ 65535) :
    (UInt8.ofNat (n / 256)).toNat * 256 + (UInt8.ofNat (n % 256)).toNat = n := by
  simp only [UInt8.toNat_ofNat']
  omega

theorem put16_ofNat (n : Nat) (h : n ≤ 65535) :
    put16 (UInt16.ofNat n) = [UInt8.ofNat (n / 256), UInt8.ofNat (n % 256)] := by
  simp only [put16, ofNat_toNat_u16 n h]

theorem payloadType_ne_zero (p : Payload) : payloadType p ≠ 0 := by cases p <;> (simp only [payloadType]; decide)

theorem walkChain_nil (fuel : Nat) (t : UInt8) : walkChain fuel t [] = if t = 0 then some [] else none := by
  cases fuel <;> rfl

/-- walking the independent encoder's chain along its length fields visits exactly the payloads:
each under the type announced by its predecessor, with its flag octet and its body, and the
chain ends with Next Payload = 0 -/
theorem walkChain_encodePayloads (ls : List Lib) (ps : List Payload) (bs : Bytes)
    (h : encodePayloads ls ps = .ok bs) (fuel : Nat) (hf : bs.length ≤ fuel) :
    ∃ l, chainView ls ps = .ok l ∧ walkChain fuel (firstPayloadType ps) bs = some l := by
  induction ps generalizing ls bs fuel with
  | nil =>
    simp [encodePayloads] at h; subst h
    exact ⟨[], rfl, by rw [walkChain_nil]; rfl⟩
  | cons p rest ih =>
    simp only [encodePayloads] at h
    cases hb : encodeBody (ls.headD {}) p with
    | err => rw [hb] at h; simp at h
    | fault => rw [hb] at h; simp at h
    | ok body =>
      rw [hb] at h
      simp only [Res.bind_ok] at h
      split at h
      · simp at h
      · rename_i hlen
        cases hr : encodePayloads ls.tail rest with
        | err => rw [hr] at h; simp at h
        | fault => rw [hr] at h; simp at h
        | ok tl =>
          rw [hr] at h
          simp only [Res.bind_ok, Res.ok.injEq] at h
          subst h
          rw [put16_ofNat _ (by omega)]
          have hlen16 := len16 (4 + body.length) (by omega)
          obtain ⟨f, rfl⟩ : ∃ f, fuel = f + 1 := ⟨fuel - 1, by len_omega⟩
          obtain ⟨l, hv, hw⟩ := ih ls.tail tl hr f (by len_omega)
          refine ⟨(payloadType p, (ls.headD {}).flags, body) :: l, ?_, ?_⟩
          · simp only [chainView]
            rw [hb, hv]
            rfl
          · show walkChain (f + 1) (payloadType p) _ = _
            simp only [List.cons_append, List.nil_append, walkChain, byteAt_cons_zero, byteAt_cons_succ]
            rw [if_neg (payloadType_ne_zero p), if_neg (by len_omega)]
            simp only [hlen16]
            rw [if_neg (by omega), if_neg (by len_omega)]
            rw [drop_add_cons4, take_add_cons4, List.drop_left, hw]
            simp

theorem walkSubs_nil (more : UInt8) (fuel : Nat) : walkSubs more fuel [] = some [] := by
  cases fuel <;> rfl

/-- one substructure `h` in front of the remaining ones `tl`: when the length field of `h` is its
extent and its first octet is 0 exactly when nothing follows (`more` otherwise), the walk takes
`h` off and continues on `tl` -/
theorem walkSubs_step (more : UInt8) (h tl : Bytes) (fuel : Nat) (h4 : 4 ≤ h.length)
    (hlen : (byteAt h 2).toNat * 256 + (byteAt h 3).toNat = h.length)
    (hmark : byteAt h 0 = if tl = [] then 0 else more) :
    walkSubs more (fuel + 1) (h ++ tl) =
      match walkSubs more fuel tl with
      | some r => some (h :: r)
      | none => none := by
  have b0 : byteAt (h ++ tl) 0 = byteAt h 0 := byteAt_append_left h tl 0 (by omega)
  have b2 : byteAt (h ++ tl) 2 = byteAt h 2 := byteAt_append_left h tl 2 (by omega)
  have b3 : byteAt (h ++ tl) 3 = byteAt h 3 := byteAt_append_left h tl 3 (by omega)
  cases h with
  | nil => simp at h4
  | cons x xs =>
    have hb : (x :: xs) ++ tl = x :: (xs ++ tl) := rfl
    rw [hb]
    simp only [walkSubs]
    rw [← hb, b0, b2, b3, hlen]
    rw [if_neg (by len_omega), if_neg (by omega), if_neg (by len_omega)]
    have hm2 : (if (x :: xs).length = ((x :: xs) ++ tl).length then (0 : UInt8) else more) = byteAt (x :: xs) 0 := by
      rw [hmark]
      by_cases ht : tl = []
      · subst ht; simp
      · have : ¬ (x :: xs).length = ((x :: xs) ++ tl).length := by
          intro he; apply ht; apply List.eq_nil_of_length_eq_zero; len_omega
        rw [if_neg this, if_neg ht]
    rw [hm2, if_neg (by simp)]
    simp only [List.drop_left, List.take_left]
    cases walkSubs more fuel tl <;> rfl

/-- §3.3.5: the octets of an attribute — none when absent; AF bit, 15-bit type and the 16-bit
value for TV; AF bit clear, type, length field = extent of the value, then the value for TLV -/
theorem wf_attr (t : Transform) (a : Bytes) (h : encodeAttr t = .ok a) :
    (t.present = false → a = []) ∧
    (t.present = true → t.fmt = 1 →
      a.length = 4 ∧ (byteAt a 0).toNat * 256 + (byteAt a 1).toNat = 32768 + t.atype.toNat ∧
      (byteAt a 2).toNat * 256 + (byteAt a 3).toNat = t.aval.toNat) ∧
    (t.present = true → t.fmt ≠ 1 →
      a.length = 4 + t.vval.length ∧ (byteAt a 0).toNat * 256 + (byteAt a 1).toNat = t.atype.toNat ∧
      (byteAt a 2).toNat * 256 + (byteAt a 3).toNat = t.vval.length ∧ a.drop 4 = t.vval) := by
  unfold encodeAttr at h
  by_cases hp : t.present = true
  · simp only [hp, Bool.not_true, Bool.false_eq_true, if_false] at h
    split at h
    · simp at h
    · rename_i hty
      by_cases hf : t.fmt = 1
      · rw [if_pos hf] at h
        simp only [Res.ok.injEq] at h
        subst h
        rw [put16_ofNat _ (by omega)]
        refine ⟨by simp [hp], fun _ _ => ⟨by simp, ?_, ?_⟩, fun _ hn => absurd hf hn⟩
        · simpa using len16 (32768 + t.atype.toNat) (by omega)
        · have := len16 t.aval.toNat (by have := t.aval.toNat_lt; omega)
          simpa [put16] using this
      · rw [if_neg hf] at h
        split at h
        · simp at h
        · rename_i hv
          simp only [Res.ok.injEq] at h
          subst h
          rw [put16_ofNat _ (by omega), put16_ofNat _ (by omega)]
          refine ⟨by simp [hp], fun _ hy => absurd hy hf, fun _ _ => ⟨by simp; omega, ?_, ?_, by simp⟩⟩
          · simpa using len16 t.atype.toNat (by omega)
          · simpa using len16 t.vval.length (by omega)
  · have hp' : t.present = false := by simpa using hp
    simp only [hp', Bool.not_false, if_true, Res.ok.injEq] at h
    subst h
    exact ⟨fun _ => rfl, fun hc => by simp [hp'] at hc, fun hc => by simp [hp'] at hc⟩

/-- §3.3.2: the fixed fields of a transform substructure at their octet positions; the length
field is the extent of the substructure; the attribute octets follow at offset 8 -/
theorem wf_transform (ℓ : TLib) (last : Bool) (t : Transform) (h : Bytes) (hm : encodeTransform ℓ last t = .ok h) :
    8 ≤ h.length ∧ byteAt h 0 = (if last then 0 else 3) ∧ byteAt h 1 = ℓ.res1 ∧
    (byteAt h 2).toNat * 256 + (byteAt h 3).toNat = h.length ∧
    byteAt h 4 = t.ttype ∧ byteAt h 5 = ℓ.res2 ∧
    (byteAt h 6).toNat * 256 + (byteAt h 7).toNat = t.tid.toNat ∧ encodeAttr t = .ok (h.drop 8) := by
  unfold encodeTransform at hm
  cases ha : encodeAttr t with
  | err => simp [ha] at hm
  | fault => simp [ha] at hm
  | ok a =>
    simp only [ha, Res.bind_ok] at hm
    split at hm
    · simp at hm
    · rename_i hlen
      simp only [Res.ok.injEq] at hm
      subst hm
      rw [put16_ofNat _ (by omega)]
      have h1 := len16 (8 + a.length) (by omega)
      have h2 := len16 t.tid.toNat (by have := t.tid.toNat_lt; omega)
      refine ⟨by simp, by simp, by simp, ?_, by simp, by simp, ?_, by simp [put16]⟩
      · simp only [List.cons_append, List.nil_append, byteAt_cons_zero, byteAt_cons_succ, h1, List.length_cons,
          List.length_append, put16_length]
        omega
      · simpa [put16] using h2

theorem encodeTransforms_nonempty (e : TLib × Transform) (rest : List (TLib × Transform)) (bs : Bytes)
    (h : encodeTransforms (e :: rest) = .ok bs) : bs ≠ [] := by
  obtain ⟨ℓ, t⟩ := e
  simp only [encodeTransforms] at h
  cases hh : encodeTransform ℓ rest.isEmpty t with
  | err => simp [hh] at h
  | fault => simp [hh] at h
  | ok hd =>
    cases hr : encodeTransforms rest with
    | err => simp [hh, hr] at h
    | fault => simp [hh, hr] at h
    | ok tl =>
      simp [hh, hr] at h
      subst h
      have := (wf_transform ℓ _ t hd hh).1
      intro hc
      have : (hd ++ tl).length = 0 := by rw [hc]; rfl
      len_omega

/-- walking the transform octets of a proposal along the length fields visits exactly the
transforms; the first octet of each is 3 except for the last, where it is 0 -/
theorem walkSubs_transforms (em : List (TLib × Transform)) (bs : Bytes) (h : encodeTransforms em = .ok bs)
    (fuel : Nat) (hf : bs.length ≤ fuel) :
    ∃ l, transformView em = .ok l ∧ walkSubs 3 fuel bs = some l := by
  induction em generalizing bs fuel with
  | nil =>
    simp [encodeTransforms] at h; subst h
    exact ⟨[], rfl, walkSubs_nil _ _⟩
  | cons e rest ih =>
    obtain ⟨ℓ, t⟩ := e
    simp only [encodeTransforms] at h
    cases hh : encodeTransform ℓ rest.isEmpty t with
    | err => simp [hh] at h
    | fault => simp [hh] at h
    | ok hd =>
      cases hr : encodeTransforms rest with
      | err => simp [hh, hr] at h
      | fault => simp [hh, hr] at h
      | ok tl =>
        simp [hh, hr] at h
        subst h
        obtain ⟨w8, w0, _, wl, _⟩ := wf_transform ℓ _ t hd hh
        obtain ⟨f, rfl⟩ : ∃ f, fuel = f + 1 := ⟨fuel - 1, by len_omega⟩
        obtain ⟨l, hv, hw⟩ := ih tl hr f (by len_omega)
        refine ⟨hd :: l, by simp only [transformView]; rw [hh, hv]; rfl, ?_⟩
        have hmark : byteAt hd 0 = if tl = [] then 0 else 3 := by
          rw [w0]
          cases rest with
          | nil => simp [encodeTransforms] at hr; subst hr; simp
          | cons e' rest' =>
            have := encodeTransforms_nonempty e' rest' tl hr
            simp [this]
        rw [walkSubs_step 3 hd tl f (by omega) wl hmark, hw]

/-- §3.3.1: the fixed fields of a proposal substructure at their octet positions; the length
field is the extent of the substructure; SPI size and transform count are the real ones; the
SPI and then the transform substructures follow at offset 8 -/
theorem wf_proposal (ℓ : PLib) (last : Bool) (p : Proposal) (h : Bytes) (hm : encodeProposal ℓ last p = .ok h) :
    ∃ td, encodeTransforms ℓ.emitted = .ok td ∧
      h.length = 8 + p.spi.length + td.length ∧
      byteAt h 0 = (if last then 0 else 2) ∧ byteAt h 1 = ℓ.reserved ∧
      (byteAt h 2).toNat * 256 + (byteAt h 3).toNat = h.length ∧
      byteAt h 4 = p.num ∧ byteAt h 5 = p.proto ∧
      (byteAt h 6).toNat = p.spi.length ∧ (byteAt h 7).toNat = ℓ.emitted.length ∧
      (h.drop 8).take p.spi.length = p.spi ∧ h.drop (8 + p.spi.length) = td := by
  unfold encodeProposal at hm
  split at hm
  · simp at hm
  · rename_i hspi
    split at hm
    · simp at hm
    · split at hm
      · simp at hm
      · rename_i hne h255
        cases hts : encodeTransforms ℓ.emitted with
        | err => simp [hts] at hm
        | fault => simp [hts] at hm
        | ok td =>
          simp only [hts, Res.bind_ok] at hm
          split at hm
          · simp at hm
          · rename_i hlen
            simp only [Res.ok.injEq] at hm
            subst hm
            rw [put16_ofNat _ (by omega)]
            have h1 := len16 (8 + p.spi.length + td.length) (by omega)
            refine ⟨td, rfl, by simp; omega, by simp, by simp, ?_, by simp, by simp, ?_, ?_, by simp, ?_⟩
            · simp only [List.cons_append, List.nil_append, byteAt_cons_zero, byteAt_cons_succ, h1, List.length_cons,
                List.length_append]
              omega
            · simpa using ofNat_toNat_u8 p.spi.length (by omega)
            · simpa using ofNat_toNat_u8 ℓ.emitted.length (by omega)
            · simp only [List.cons_append, List.nil_append, List.append_assoc]
              rw [drop_add_cons8]
              simp

theorem encodeProposals_nonempty (ls : List PLib) (p : Proposal) (rest : List Proposal) (bs : Bytes)
    (h : encodeProposals ls (p :: rest) = .ok bs) : bs ≠ [] := by
  simp only [encodeProposals] at h
  cases hh : encodeProposal (ls.headD (PLib.canonical p)) rest.isEmpty p with
  | err => rw [hh] at h; simp at h
  | fault => rw [hh] at h; simp at h
  | ok hd =>
    cases hr : encodeProposals ls.tail rest with
    | err => rw [hh, hr] at h; simp at h
    | fault => rw [hh, hr] at h; simp at h
    | ok tl =>
      rw [hh, hr] at h
      simp only [Res.bind_ok, Res.ok.injEq] at h
      subst h
      obtain ⟨td, _, hl, _⟩ := wf_proposal _ _ p hd hh
      intro hc
      have : (hd ++ tl).length = 0 := by rw [hc]; rfl
      len_omega

/-- walking an SA body along the length fields visits exactly the proposals; the first octet of
each is 2 except for the last, where it is 0 -/
theorem walkSubs_proposals (ls : List PLib) (ps : List Proposal) (bs : Bytes) (h : encodeProposals ls ps = .ok bs)
    (fuel : Nat) (hf : bs.length ≤ fuel) :
    ∃ l, proposalView ls ps = .ok l ∧ walkSubs 2 fuel bs = some l := by
  induction ps generalizing ls bs fuel with
  | nil =>
    simp [encodeProposals] at h; subst h
    exact ⟨[], rfl, walkSubs_nil _ _⟩
  | cons p rest ih =>
    simp only [encodeProposals] at h
    cases hh : encodeProposal (ls.headD (PLib.canonical p)) rest.isEmpty p with
    | err => rw [hh] at h; simp at h
    | fault => rw [hh] at h; simp at h
    | ok hd =>
      cases hr : encodeProposals ls.tail rest with
      | err => rw [hh, hr] at h; simp at h
      | fault => rw [hh, hr] at h; simp at h
      | ok tl =>
        rw [hh, hr] at h
        simp only [Res.bind_ok, Res.ok.injEq] at h
        subst h
        obtain ⟨td, _, wlen, w0, _, wl, _⟩ := wf_proposal _ _ p hd hh
        obtain ⟨f, rfl⟩ : ∃ f, fuel = f + 1 := ⟨fuel - 1, by len_omega⟩
        obtain ⟨l, hv, hw⟩ := ih ls.tail tl hr f (by len_omega)
        refine ⟨hd :: l, by simp only [proposalView]; rw [hh, hv]; rfl, ?_⟩
        have hmark : byteAt hd 0 = if tl = [] then 0 else 2 := by
          rw [w0]
          cases rest with
          | nil => simp [encodeProposals] at hr; subst hr; simp
          | cons p' rest' =>
            have := encodeProposals_nonempty ls.tail p' rest' tl hr
            simp [this]
        rw [walkSubs_step 2 hd tl f (by omega) wl hmark, hw]

/-- §3.13.1: selector length field = extent of the selector; ports and addresses at their places -/
theorem wf_selector (t : TSel) (h : Bytes) (hm : encodeSelector t = .ok h) :
    h.length = 8 + t.saddr.length + t.eaddr.length ∧ byteAt h 0 = t.tstype ∧ byteAt h 1 = t.proto ∧
    (byteAt h 2).toNat * 256 + (byteAt h 3).toNat = h.length ∧
    (byteAt h 4).toNat * 256 + (byteAt h 5).toNat = t.sport.toNat ∧
    (byteAt h 6).toNat * 256 + (byteAt h 7).toNat = t.eport.toNat ∧
    (h.drop 8).take t.saddr.length = t.saddr ∧ h.drop (8 + t.saddr.length) = t.eaddr ∧
    ((t.tstype = 7 ∧ t.saddr.length = 4 ∧ t.eaddr.length = 4) ∨ (t.tstype = 8 ∧ t.saddr.length = 16 ∧ t.eaddr.length = 16)) := by
  rw [encodeSelector_eq] at hm
  unfold marshalTSel at hm
  have e7 : Facts.tsIPv4 = 7 := rfl
  have e8 : Facts.tsIPv6 = 8 := rfl
  have h2 := len16 t.sport.toNat (by have := t.sport.toNat_lt; omega)
  have h3 := len16 t.eport.toNat (by have := t.eport.toNat_lt; omega)
  split at hm
  · rename_i h7
    split at hm
    · simp at hm
    · split at hm
      · simp at hm
      · rename_i hs he
        simp only [Res.ok.injEq] at hm
        subst hm
        simp at hs he
        have hty : t.tstype = 7 := by simpa [e7] using h7
        refine ⟨by simp [hs, he], by simp, by simp, ?_, by simpa [put16] using h2, by simpa [put16] using h3,
          by simp [put16], ?_, Or.inl ⟨hty, hs, he⟩⟩
        · simp [put16, hs, he]
        · simp only [put16, List.cons_append, List.nil_append, List.append_assoc]
          rw [drop_add_cons8]
          simp
  · split at hm
    · rename_i h7 h8
      split at hm
      · simp at hm
      · split at hm
        · simp at hm
        · rename_i hs he
          simp only [Res.ok.injEq] at hm
          subst hm
          simp at hs he
          have hty : t.tstype = 8 := by simpa [e8] using h8
          refine ⟨by simp [hs, he], by simp, by simp, ?_, by simpa [put16] using h2, by simpa [put16] using h3,
            by simp [put16], ?_, Or.inr ⟨hty, hs, he⟩⟩
          · simp [put16, hs, he]
          · simp only [put16, List.cons_append, List.nil_append, List.append_assoc]
            rw [drop_add_cons8]
            simp
    · simp at hm

/-- §3.15.1: the first attribute of a configuration body: R bit, 15-bit type, length field =
extent of the value, value, then the remaining attributes -/
theorem wf_cpattr (rs : List Bool) (a : CPAttr) (rest : List CPAttr) (bs : Bytes)
    (h : encodeCPAttrs rs (a :: rest) = .ok bs) :
    ∃ tl, encodeCPAttrs rs.tail rest = .ok tl ∧ bs.length = 4 + a.value.length + tl.length ∧
      (byteAt bs 0).toNat * 256 + (byteAt bs 1).toNat = (if rs.headD false then 32768 else 0) + a.atype.toNat ∧
      a.atype.toNat < 32768 ∧
      (byteAt bs 2).toNat * 256 + (byteAt bs 3).toNat = a.value.length ∧
      (bs.drop 4).take a.value.length = a.value ∧ bs.drop (4 + a.value.length) = tl := by
  simp only [encodeCPAttrs] at h
  split at h
  · simp at h
  · rename_i hta
    split at h
    · simp at h
    · rename_i hv
      cases hr : encodeCPAttrs rs.tail rest with
      | err => rw [hr] at h; simp at h
      | fault => rw [hr] at h; simp at h
      | ok tl =>
        rw [hr] at h
        simp only [Res.bind_ok, Res.ok.injEq] at h
        subst h
        have hw : (if rs.headD false = true then 32768 else 0) + a.atype.toNat ≤ 65535 := by
          split <;> omega
        rw [put16_ofNat _ hw, put16_ofNat _ (by omega)]
        have h1 := len16 _ hw
        have h2 := len16 a.value.length (by omega)
        refine ⟨tl, rfl, by simp; omega, by simpa using h1, by omega, by simpa using h2, by simp, ?_⟩
        simp only [List.cons_append, List.nil_append, List.append_assoc]
        rw [drop_add_cons4]
        simp
