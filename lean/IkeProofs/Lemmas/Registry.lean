import IkeProofs.Lemmas.RoundTrip

/-! Lemmas about the algorithm registry model (`Ike.Registry`): what the
transforms built by the `ToTransform` functions look like on the wire, and the
generic facts about table search the property theorems of C11 rest on.
Nothing here inspects the contents of the generated tables. -/

set_option linter.unusedSimpArgs false
set_option linter.unusedVariables false

namespace Ike
namespace Registry

/-- the transform is in the encodable domain, `marshalTransform` accepts it in
either position, and `parseTransform` reads it back unchanged whatever octets
follow it -/
def SurvivesWire (t : Transform) : Prop :=
  t.Dom ∧ ∀ (last : Bool) (rest : Bytes),
    ∃ h, marshalTransform last t = .ok h ∧ parseTransform (h ++ rest) = .ok (t, h.length)

theorem survives_of_marshal (t : Transform) (hd : t.Dom)
    (hm : ∀ last, ∃ h, marshalTransform last t = .ok h) : SurvivesWire t := by
  refine ⟨hd, fun last rest => ?_⟩
  obtain ⟨h, hh⟩ := hm last
  exact ⟨h, hh, (parseTransform_marshal t last h rest hd hh).1⟩

/-! ### transforms without attribute -/

theorem mk_noAttr (tt : UInt8) (tid : UInt16) :
    mkTransform tt tid noAttr = ⟨tt, tid, false, 0, 0, 0, []⟩ := by
  simp [mkTransform, noAttr]

theorem marshal_noAttr (last : Bool) (tt : UInt8) (tid : UInt16) :
    marshalTransform last (mkTransform tt tid noAttr)
      = .ok ([if last then 0 else 3, 0] ++ put16 8 ++ [tt, 0] ++ put16 tid) := by
  rw [mk_noAttr]
  simp [marshalTransform, marshalAttr]

theorem dom_plain (tt : UInt8) (tid : UInt16) : Transform.Dom ⟨tt, tid, false, 0, 0, 0, []⟩ := by
  left; simp

theorem dom_noAttr (tt : UInt8) (tid : UInt16) : (mkTransform tt tid noAttr).Dom := by
  rw [mk_noAttr]; left; simp

theorem survives_noAttr (tt : UInt8) (tid : UInt16) : SurvivesWire (mkTransform tt tid noAttr) :=
  survives_of_marshal _ (dom_noAttr tt tid) (fun last => ⟨_, marshal_noAttr last tt tid⟩)

/-! ### transforms with a fixed-length (TV) attribute -/

theorem mk_tv (tt : UInt8) (tid aty av : UInt16) :
    mkTransform tt tid (true, aty, av, none) = ⟨tt, tid, true, 1, aty, av, []⟩ := by
  simp [mkTransform, Facts.attrFormatTV]

theorem marshal_tv (last : Bool) (tt : UInt8) (tid aty av : UInt16) :
    marshalTransform last (mkTransform tt tid (true, aty, av, none))
      = .ok ([if last then 0 else 3, 0] ++ put16 12 ++ [tt, 0] ++ put16 tid ++
             (put16 ((0x8000 : UInt16) ||| aty) ++ put16 av)) := by
  rw [mk_tv]
  have h1 : ((1 : UInt8) == 0) = false := by decide
  simp [marshalTransform, marshalAttr, h1, ft_tv]
  rfl

theorem dom_tv (tt : UInt8) (tid aty av : UInt16) (h : aty.toNat < 32768) :
    (mkTransform tt tid (true, aty, av, none)).Dom := by
  rw [mk_tv]; right; left; simp [h]

theorem survives_tv (tt : UInt8) (tid aty av : UInt16) (h : aty.toNat < 32768) :
    SurvivesWire (mkTransform tt tid (true, aty, av, none)) :=
  survives_of_marshal _ (dom_tv tt tid aty av h) (fun last => ⟨_, marshal_tv last tt tid aty av⟩)

/-! ### what `parseTransform` can return -/

/-- a transform read from the wire whose format bit says "variable length"
(or that has no attribute at all) carries the fixed-length value 0; without an
attribute the attribute type is 0 as well -/
theorem parse_shape (td : Bytes) (t : Transform) (n : Nat) (h : parseTransform td = .ok (t, n)) :
    (t.fmt = 0 → t.aval = 0) ∧ (t.present = false → t.atype = 0 ∧ t.aval = 0) := by
  unfold parseTransform at h
  cases h1 : goU16 td 2 with
  | err => simp [h1] at h
  | fault => simp [h1] at h
  | ok tl =>
    simp only [h1, Res.bind_ok] at h
    split at h
    · simp at h
    split at h
    · simp at h
    cases h2 : goIndex td 4 with
    | err => simp [h2] at h
    | fault => simp [h2] at h
    | ok tt =>
    simp only [h2, Res.bind_ok] at h
    cases h3 : goU16 td 6 with
    | err => simp [h3] at h
    | fault => simp [h3] at h
    | ok tid =>
    simp only [h3, Res.bind_ok] at h
    split at h
    · split at h
      · simp at h
      cases h4 : goIndex td 8 with
      | err => simp [h4] at h
      | fault => simp [h4] at h
      | ok b8 =>
      simp only [h4, Res.bind_ok] at h
      cases h5 : goU16 td 8 with
      | err => simp [h5] at h
      | fault => simp [h5] at h
      | ok ft =>
      simp only [h5, Res.bind_ok] at h
      split at h
      · cases h6 : goU16 td 10 with
        | err => simp [h6] at h
        | fault => simp [h6] at h
        | ok al =>
        simp only [h6, Res.bind_ok] at h
        split at h
        · simp at h
        cases h7 : goSlice td 12 tl.toNat with
        | err => simp [h7] at h
        | fault => simp [h7] at h
        | ok v =>
        simp only [h7, Res.bind_ok, Res.ok.injEq, Prod.mk.injEq] at h
        obtain ⟨ht, _⟩ := h
        subst ht
        simp
      · rename_i hf
        cases h6 : goU16 td 10 with
        | err => simp [h6] at h
        | fault => simp [h6] at h
        | ok av =>
        simp only [h6, Res.bind_ok, Res.ok.injEq, Prod.mk.injEq] at h
        obtain ⟨ht, _⟩ := h
        subst ht
        simp only [beq_iff_eq] at hf
        simp [hf]
    · simp only [Res.ok.injEq, Prod.mk.injEq] at h
      obtain ⟨ht, _⟩ := h
      subst ht
      simp

/-! ### table search -/

theorem findId_some {tbl : List (UInt16 × Nat × Nat × Nat)} {id : UInt16} {r : UInt16 × Nat × Nat × Nat}
    (h : findId tbl id = some r) : r.1 = id ∧ r ∈ tbl := by
  unfold findId at h
  have h1 := List.find?_some h
  have h2 := List.mem_of_find?_eq_some h
  simp only [beq_iff_eq] at h1
  exact ⟨h1, h2⟩

theorem findId_none {tbl : List (UInt16 × Nat × Nat × Nat)} {id : UInt16} :
    findId tbl id = none ↔ ∀ r ∈ tbl, r.1 ≠ id := by
  unfold findId
  simp [List.find?_eq_none]

theorem aesCbcRow_some {tbl : List (UInt16 × Nat)} {aty av : UInt16} {r : UInt16 × Nat}
    (h : aesCbcRow tbl aty av = some r) :
    aty = Facts.attrTypeKeyLength ∧ r.2 * 8 = av.toNat ∧ r ∈ tbl := by
  unfold aesCbcRow at h
  split at h
  · rename_i hty
    have h1 := List.find?_some h
    have h2 := List.mem_of_find?_eq_some h
    simp only [beq_iff_eq] at h1 hty
    exact ⟨hty, h1, h2⟩
  · simp at h

theorem decodeEncrRow_some {tbl : List (UInt16 × Nat)} {t : Transform} {r : UInt16 × Nat}
    (h : decodeEncrRow tbl t = some r) :
    t.tid = Facts.encrAesCbcId ∧ t.atype = Facts.attrTypeKeyLength ∧ r.2 * 8 = t.aval.toNat ∧ r ∈ tbl := by
  unfold decodeEncrRow at h
  split at h
  · rename_i hid
    simp only [beq_iff_eq] at hid
    exact ⟨hid, aesCbcRow_some h⟩
  · simp at h

theorem decodeEncrRow_none {tbl : List (UInt16 × Nat)} {t : Transform} :
    decodeEncrRow tbl t = none ↔
      t.tid ≠ Facts.encrAesCbcId ∨ t.atype ≠ Facts.attrTypeKeyLength ∨ ∀ r ∈ tbl, r.2 * 8 ≠ t.aval.toNat := by
  unfold decodeEncrRow aesCbcRow
  by_cases h1 : t.tid = Facts.encrAesCbcId
  · by_cases h2 : t.atype = Facts.attrTypeKeyLength
    · simp [h1, h2, List.find?_eq_none]
    · simp [h1, h2]
  · simp [h1]

end Registry
end Ike
