import IkeProofs.Lemmas.Bytes
import IkeProofs.Lemmas.NoFault
import IkeModel.Spec.Eap
import IkeModel.EapMac

/-! EAP / EAP-AKA' lemmas for C14 and C15: the setter `akaMkAttr`, the sorted
association list kept by `akaInsert`, `parseAkaBody ∘ marshalAkaAttr`, the
attribute loop, and the round trip of the whole EAP packet. -/

set_option linter.unusedSimpArgs false
set_option linter.unusedVariables false

namespace Ike

/-! ### the domain: what the setter accepts, built attributes, built packets -/

/-- the seven attribute types `SetAttr` knows -/
def akaSettable (t : UInt8) : Prop :=
  t = Facts.atRand ∨ t = Facts.atAutn ∨ t = Facts.atRes ∨ t = Facts.atMac ∨
  t = Facts.atKdfInput ∨ t = Facts.atKdf ∨ t = Facts.atCheckcode

instance (t : UInt8) : Decidable (akaSettable t) := by unfold akaSettable; exact inferInstance

/-- `SetAttr(t, v)` is accepted, and `v` is short enough for the 8-bit length field (in
4-octet words) to be exact: AT_KDF_INPUT ≤ 1016 octets; AT_CHECKCODE a multiple of 4 octets
(the library emits no padding for it) and ≤ 1016 octets.  The other sizes are the setter's
own rules: RAND / AUTN / MAC 16 octets, RES 4..16 octets, KDF 2 octets. -/
def AkaValOk (t : UInt8) (v : Bytes) : Prop :=
  ((t = Facts.atRand ∨ t = Facts.atAutn ∨ t = Facts.atMac) ∧ v.length = 16) ∨
  (t = Facts.atRes ∧ 4 ≤ v.length ∧ v.length ≤ 16) ∨
  (t = Facts.atKdfInput ∧ v.length ≤ 1016) ∨
  (t = Facts.atKdf ∧ v.length = 2) ∨
  (t = Facts.atCheckcode ∧ v.length % 4 = 0 ∧ v.length ≤ 1016)

instance (t : UInt8) (v : Bytes) : Decidable (AkaValOk t v) := by unfold AkaValOk; exact inferInstance

/-- an attribute as `SetAttr` stores it for an accepted value -/
def AkaAttrBuilt (x : AkaAttr) : Prop :=
  AkaValOk x.atype x.value ∧ akaMkAttr x.atype x.value = .ok x

instance (x : AkaAttr) : Decidable (AkaAttrBuilt x) := by unfold AkaAttrBuilt; exact inferInstance

/-- strictly ascending by attribute type (hence unique keys) -/
def AkaSorted (l : List AkaAttr) : Prop := l.Pairwise (fun x y => x.atype < y.atype)

instance (l : List AkaAttr) : Decidable (AkaSorted l) := by unfold AkaSorted; exact inferInstance

/-- structural characterisation of the packets reachable through `SetAttr` from a fresh
`EapAkaPrime{subType}`: reserved = 0, attributes sorted by type with unique keys, each entry
what the setter stores for an accepted value -/
def AkaBuilt (a : Aka) : Prop :=
  a.reserved = 0 ∧ AkaSorted a.attrs ∧ ∀ x ∈ a.attrs, AkaAttrBuilt x

instance (a : Aka) : Decidable (AkaBuilt a) := by unfold AkaBuilt; exact inferInstance

/-- reachability through the API: a fresh packet, then any sequence of successful `SetAttr`
calls with values in the exact-length range -/
inductive AkaReach : Aka → Prop where
  | fresh (st : UInt8) : AkaReach ⟨st, 0, []⟩
  | set {a a' : Aka} (t : UInt8) (v : Bytes) :
      AkaReach a → AkaValOk t v → akaSetAttr a t v = .ok a' → AkaReach a'

/-! ### the setter -/

theorem akaMkAttr_fixed16 (t : UInt8) (v : Bytes)
    (ht : t = Facts.atRand ∨ t = Facts.atAutn ∨ t = Facts.atMac) (hv : v.length = 16) :
    akaMkAttr t v = .ok ⟨t, 5, 0, v⟩ := by
  rcases ht with rfl | rfl | rfl <;> simp [akaMkAttr, hv, Facts.atRand, Facts.atAutn, Facts.atMac] <;> rfl

/-- number of 4-octet words of a padded attribute with a 4-octet header -/
def akaWords (n : Nat) : Nat := (4 + n + (4 - (4 + n) % 4) % 4) / 4

theorem akaWords_eq (n : Nat) : akaWords n = (n + 7) / 4 := by unfold akaWords; omega

theorem akaMkAttr_res (v : Bytes) (h1 : 4 ≤ v.length) (h2 : v.length ≤ 16) :
    akaMkAttr Facts.atRes v = .ok ⟨Facts.atRes, UInt8.ofNat (akaWords v.length), UInt16.ofNat (v.length * 8), v⟩ := by
  have c1 : ¬ (v.length * 8 > 128) := by omega
  have c2 : ¬ (v.length * 8 < 32) := by omega
  simp [akaMkAttr, Facts.atRand, Facts.atAutn, Facts.atMac, Facts.atRes, Facts.atKdfInput, c1, c2, akaWords]

theorem akaMkAttr_kdfInput (v : Bytes) :
    akaMkAttr Facts.atKdfInput v =
      .ok ⟨Facts.atKdfInput, UInt8.ofNat (akaWords v.length), UInt16.ofNat (v.length * 8), v⟩ := by
  simp [akaMkAttr, Facts.atRand, Facts.atAutn, Facts.atMac, Facts.atRes, Facts.atKdfInput, akaWords]

theorem akaMkAttr_kdf (v : Bytes) (hv : v.length = 2) :
    akaMkAttr Facts.atKdf v = .ok ⟨Facts.atKdf, 1, 0, v⟩ := by
  simp [akaMkAttr, Facts.atRand, Facts.atAutn, Facts.atMac, Facts.atRes, Facts.atKdfInput, Facts.atKdf, hv]

theorem akaMkAttr_checkcode (v : Bytes) :
    akaMkAttr Facts.atCheckcode v = .ok ⟨Facts.atCheckcode, UInt8.ofNat ((4 + v.length) / 4), 0, v⟩ := by
  simp [akaMkAttr, Facts.atRand, Facts.atAutn, Facts.atMac, Facts.atRes, Facts.atKdfInput, Facts.atKdf,
    Facts.atCheckcode]

/-- what `akaMkAttr` returns on success carries the requested type and exactly the value
offered (no padding inside the value) -/
theorem akaMkAttr_ok_fields {t : UInt8} {v : Bytes} {x : AkaAttr} (h : akaMkAttr t v = .ok x) :
    x.atype = t ∧ x.value = v := by
  unfold akaMkAttr at h
  by_cases c1 : (t == Facts.atMac || t == Facts.atRand || t == Facts.atAutn) = true
  · rw [if_pos c1] at h
    split at h
    · simp at h
    · simp only [Res.ok.injEq] at h; subst h; exact ⟨rfl, rfl⟩
  · rw [if_neg c1] at h
    by_cases c2 : (t == Facts.atKdfInput || t == Facts.atRes) = true
    · rw [if_pos c2] at h
      dsimp only at h
      split at h
      · simp at h
      · simp only [Res.ok.injEq] at h; subst h; exact ⟨rfl, rfl⟩
    · rw [if_neg c2] at h
      by_cases c3 : (t == Facts.atKdf) = true
      · rw [if_pos c3] at h
        split at h
        · simp at h
        · simp only [Res.ok.injEq] at h; subst h; exact ⟨rfl, rfl⟩
      · rw [if_neg c3] at h
        split at h
        · simp only [Res.ok.injEq] at h; subst h; exact ⟨rfl, rfl⟩
        · simp at h

theorem akaMkAttr_ne_fault (t : UInt8) (v : Bytes) : akaMkAttr t v ≠ .fault := by
  unfold akaMkAttr
  repeat (first | split | simp)

/-- the setter refuses exactly: RAND / AUTN / MAC of a size other than 16, KDF other than 2,
RES outside 4..16 octets, and every type that is not one of the seven settable ones -/
theorem akaMkAttr_err_iff (t : UInt8) (v : Bytes) :
    akaMkAttr t v = .err ↔
      ((t = Facts.atRand ∨ t = Facts.atAutn ∨ t = Facts.atMac) ∧ v.length ≠ 16) ∨
      (t = Facts.atKdf ∧ v.length ≠ 2) ∨
      (t = Facts.atRes ∧ (v.length < 4 ∨ 16 < v.length)) ∨
      ¬ akaSettable t := by
  by_cases h1 : t = Facts.atRand ∨ t = Facts.atAutn ∨ t = Facts.atMac
  · by_cases hv : v.length = 16
    · rw [akaMkAttr_fixed16 t v h1 hv]
      rcases h1 with rfl | rfl | rfl <;> simp [hv, akaSettable, Facts.atRand, Facts.atAutn, Facts.atMac,
        Facts.atKdf, Facts.atRes]
    · have : akaMkAttr t v = .err := by
        rcases h1 with rfl | rfl | rfl <;> simp [akaMkAttr, hv, Facts.atRand, Facts.atAutn, Facts.atMac]
      rw [this]; simp [h1, hv]
  · by_cases h2 : t = Facts.atRes
    · subst h2
      by_cases hv : 4 ≤ v.length ∧ v.length ≤ 16
      · rw [akaMkAttr_res v hv.1 hv.2]
        simp [akaSettable, Facts.atRand, Facts.atAutn, Facts.atMac, Facts.atKdf, Facts.atRes]
        omega
      · have : akaMkAttr Facts.atRes v = .err := by
          have : v.length * 8 > 128 ∨ v.length * 8 < 32 := by omega
          simp [akaMkAttr, Facts.atRand, Facts.atAutn, Facts.atMac, Facts.atRes, Facts.atKdfInput, this]
        rw [this]
        have : v.length < 4 ∨ 16 < v.length := by omega
        simp [this]
    · by_cases h3 : t = Facts.atKdfInput
      · subst h3
        rw [akaMkAttr_kdfInput]
        simp [akaSettable, Facts.atRand, Facts.atAutn, Facts.atMac, Facts.atKdf, Facts.atRes, Facts.atKdfInput]
      · by_cases h4 : t = Facts.atKdf
        · subst h4
          by_cases hv : v.length = 2
          · rw [akaMkAttr_kdf v hv]
            simp [akaSettable, hv, Facts.atRand, Facts.atAutn, Facts.atMac, Facts.atKdf, Facts.atRes]
          · have : akaMkAttr Facts.atKdf v = .err := by
              simp [akaMkAttr, Facts.atRand, Facts.atAutn, Facts.atMac, Facts.atRes, Facts.atKdfInput, Facts.atKdf, hv]
            rw [this]; simp [hv]
        · by_cases h5 : t = Facts.atCheckcode
          · subst h5
            rw [akaMkAttr_checkcode]
            simp [akaSettable, Facts.atRand, Facts.atAutn, Facts.atMac, Facts.atKdf, Facts.atRes, Facts.atCheckcode]
          · have hns : ¬ akaSettable t := by
              unfold akaSettable; simp only [not_or] at h1 ⊢; exact ⟨h1.1, h1.2.1, h2, h1.2.2, h3, h4, h5⟩
            have : akaMkAttr t v = .err := by
              simp only [not_or] at h1
              simp [akaMkAttr, h1.1, h1.2.1, h1.2.2, h2, h3, h4, h5]
            rw [this]; simp [hns]

/-- on an accepted value the setter succeeds -/
theorem akaMkAttr_ok_of_valOk {t : UInt8} {v : Bytes} (h : AkaValOk t v) : ∃ x, akaMkAttr t v = .ok x := by
  rcases h with ⟨ht, hv⟩ | ⟨rfl, h1, h2⟩ | ⟨rfl, _⟩ | ⟨rfl, hv⟩ | ⟨rfl, _⟩
  · exact ⟨_, akaMkAttr_fixed16 t v ht hv⟩
  · exact ⟨_, akaMkAttr_res v h1 h2⟩
  · exact ⟨_, akaMkAttr_kdfInput v⟩
  · exact ⟨_, akaMkAttr_kdf v hv⟩
  · exact ⟨_, akaMkAttr_checkcode v⟩

theorem akaAttrBuilt_of_mk {t : UInt8} {v : Bytes} {x : AkaAttr} (hv : AkaValOk t v) (h : akaMkAttr t v = .ok x) :
    AkaAttrBuilt x := by
  obtain ⟨h1, h2⟩ := akaMkAttr_ok_fields h
  unfold AkaAttrBuilt
  rw [h1, h2]
  exact ⟨hv, h⟩

/-! ### the association list: lookup / insert -/

theorem akaLookup_insert_same (l : List AkaAttr) (a : AkaAttr) : akaLookup (akaInsert l a) a.atype = some a := by
  induction l with
  | nil => simp [akaInsert, akaLookup]
  | cons x rest ih =>
    unfold akaInsert
    by_cases c1 : a.atype < x.atype
    · rw [if_pos c1]; simp [akaLookup]
    · rw [if_neg c1]
      by_cases c2 : (a.atype == x.atype) = true
      · rw [if_pos c2]; simp [akaLookup]
      · rw [if_neg c2]
        have : ¬ (x.atype = a.atype) := by intro h; simp [h] at c2
        simp [akaLookup, this, ih]

theorem akaLookup_insert_other (l : List AkaAttr) (a : AkaAttr) (t : UInt8) (ht : t ≠ a.atype) :
    akaLookup (akaInsert l a) t = akaLookup l t := by
  have hne : ¬ (a.atype = t) := fun h => ht h.symm
  induction l with
  | nil => simp [akaInsert, akaLookup, hne]
  | cons x rest ih =>
    unfold akaInsert
    by_cases c1 : a.atype < x.atype
    · rw [if_pos c1]; simp [akaLookup, hne]
    · rw [if_neg c1]
      by_cases c2 : (a.atype == x.atype) = true
      · rw [if_pos c2]
        have hx : x.atype = a.atype := by have : a.atype = x.atype := by simpa using c2
                                          exact this.symm
        simp [akaLookup, hne, hx]
      · rw [if_neg c2]
        simp [akaLookup, ih]

theorem akaInsert_mem {l : List AkaAttr} {a y : AkaAttr} (h : y ∈ akaInsert l a) : y = a ∨ y ∈ l := by
  induction l with
  | nil => simp [akaInsert] at h; exact Or.inl h
  | cons x rest ih =>
    unfold akaInsert at h
    by_cases c1 : a.atype < x.atype
    · rw [if_pos c1] at h; simpa using h
    · rw [if_neg c1] at h
      by_cases c2 : (a.atype == x.atype) = true
      · rw [if_pos c2] at h
        simp at h
        rcases h with h | h
        · exact Or.inl h
        · exact Or.inr (by simp [h])
      · rw [if_neg c2] at h
        simp at h
        rcases h with h | h
        · exact Or.inr (by simp [h])
        · rcases ih h with h | h
          · exact Or.inl h
          · exact Or.inr (by simp [h])

/-- `akaInsert` keeps the list strictly ascending by type (the model's counterpart of Go's
sort over the map keys in `Marshal`) -/
theorem akaInsert_sorted (l : List AkaAttr) (a : AkaAttr) (h : AkaSorted l) : AkaSorted (akaInsert l a) := by
  unfold AkaSorted at *
  induction l with
  | nil => simp [akaInsert]
  | cons x rest ih =>
    rw [List.pairwise_cons] at h
    obtain ⟨hx, hrest⟩ := h
    unfold akaInsert
    by_cases c1 : a.atype < x.atype
    · rw [if_pos c1]
      rw [List.pairwise_cons]
      refine ⟨?_, List.pairwise_cons.mpr ⟨hx, hrest⟩⟩
      intro y hy
      simp at hy
      rcases hy with rfl | hy
      · exact c1
      · exact UInt8.lt_trans c1 (hx y hy)
    · rw [if_neg c1]
      by_cases c2 : (a.atype == x.atype) = true
      · rw [if_pos c2]
        have hax : a.atype = x.atype := by simpa using c2
        rw [List.pairwise_cons]
        exact ⟨fun y hy => hax ▸ hx y hy, hrest⟩
      · rw [if_neg c2]
        rw [List.pairwise_cons]
        refine ⟨?_, ih hrest⟩
        intro y hy
        rcases akaInsert_mem hy with rfl | hy
        · have hne : ¬ (y.atype = x.atype) := by simpa using c2
          rw [UInt8.lt_iff_toNat_lt] at c1 ⊢
          have : y.atype.toNat ≠ x.atype.toNat := fun h => hne (UInt8.toNat_inj.mp h)
          omega
        · exact hx y hy

/-- inserting a key larger than every key present appends at the end -/
theorem akaInsert_append (l : List AkaAttr) (a : AkaAttr) (h : ∀ y ∈ l, y.atype < a.atype) :
    akaInsert l a = l ++ [a] := by
  induction l with
  | nil => simp [akaInsert]
  | cons x rest ih =>
    have hx := h x (by simp)
    unfold akaInsert
    have c1 : ¬ a.atype < x.atype := by rw [UInt8.lt_iff_toNat_lt] at hx ⊢; omega
    have c2 : ¬ (a.atype == x.atype) = true := by
      intro hh
      have : a.atype = x.atype := by simpa using hh
      rw [this, UInt8.lt_iff_toNat_lt] at hx; omega
    rw [if_neg c1, if_neg c2, ih (fun y hy => h y (by simp [hy]))]
    simp

/-- inserting a key smaller than every key present puts it in front -/
theorem akaInsert_front (l : List AkaAttr) (a : AkaAttr) (h : ∀ y ∈ l, a.atype < y.atype) :
    akaInsert l a = a :: l := by
  cases l with
  | nil => simp [akaInsert]
  | cons x rest =>
    unfold akaInsert
    rw [if_pos (h x (by simp))]

/-- a second store under the same key overwrites the first -/
theorem akaInsert_insert_same (l : List AkaAttr) (x y : AkaAttr) (h : x.atype = y.atype) :
    akaInsert (akaInsert l x) y = akaInsert l y := by
  induction l with
  | nil => simp [akaInsert, h]
  | cons z rest ih =>
    by_cases c1 : x.atype < z.atype
    · have c1' : y.atype < z.atype := h ▸ c1
      have e1 : akaInsert (z :: rest) x = x :: z :: rest := by unfold akaInsert; rw [if_pos c1]
      have e2 : akaInsert (z :: rest) y = y :: z :: rest := by unfold akaInsert; rw [if_pos c1']
      rw [e1, e2]
      unfold akaInsert
      have : ¬ y.atype < x.atype := by rw [h, UInt8.lt_iff_toNat_lt]; omega
      rw [if_neg this, if_pos (by simp [h])]
    · have c1' : ¬ y.atype < z.atype := h ▸ c1
      by_cases c2 : (x.atype == z.atype) = true
      · have c2' : (y.atype == z.atype) = true := h ▸ c2
        have e1 : akaInsert (z :: rest) x = x :: rest := by unfold akaInsert; rw [if_neg c1, if_pos c2]
        have e2 : akaInsert (z :: rest) y = y :: rest := by unfold akaInsert; rw [if_neg c1', if_pos c2']
        rw [e1, e2]
        unfold akaInsert
        have : ¬ y.atype < x.atype := by rw [h, UInt8.lt_iff_toNat_lt]; omega
        rw [if_neg this, if_pos (by simp [h])]
      · have c2' : ¬ (y.atype == z.atype) = true := h ▸ c2
        have e1 : akaInsert (z :: rest) x = z :: akaInsert rest x := by rw [akaInsert, if_neg c1, if_neg c2]
        have e2 : akaInsert (z :: rest) y = z :: akaInsert rest y := by rw [akaInsert, if_neg c1', if_neg c2']
        rw [e1, e2, akaInsert, if_neg c1', if_neg c2', ih]

/-! ### one attribute: `parseAkaBody ∘ marshalAkaAttr` -/

theorem readN_append (a r : Bytes) (n : Nat) (h : n = a.length) : readN (a ++ r) n = some (a, r) := by
  subst h
  unfold readN
  rw [if_pos (by simp)]
  simp

theorem be16_put16 (v : UInt16) : be16 (byteAt (put16 v) 0) (byteAt (put16 v) 1) = v := by
  simp [put16, be16_put]

theorem parse_marshal_fixed16 (t : UInt8) (v rest : Bytes)
    (ht : t = Facts.atRand ∨ t = Facts.atAutn ∨ t = Facts.atMac) (hv : v.length = 16) :
    marshalAkaAttr ⟨t, 5, 0, v⟩ = t :: 5 :: (put16 0 ++ v) ∧
    parseAkaBody t 5 ((put16 0 ++ v) ++ rest) = .ok (⟨t, 5, 0, v⟩, (put16 0 ++ v).length) := by
  constructor
  · rcases ht with rfl | rfl | rfl <;>
      simp [marshalAkaAttr, Facts.atRand, Facts.atAutn, Facts.atMac, Facts.atKdf, Facts.atRes, Facts.atKdfInput]
  · have c1 : (t == Facts.atMac || t == Facts.atRand || t == Facts.atAutn) = true := by
      rcases ht with rfl | rfl | rfl <;> decide
    unfold parseAkaBody
    rw [if_pos c1, if_neg (by decide), List.append_assoc, readN_append _ _ 2 rfl]
    dsimp only
    rw [readN_append _ _ 16 hv.symm]
    simp [hv]

theorem parse_marshal_kdf (v rest : Bytes) (hv : v.length = 2) :
    marshalAkaAttr ⟨Facts.atKdf, 1, 0, v⟩ = Facts.atKdf :: 1 :: v ∧
    parseAkaBody Facts.atKdf 1 (v ++ rest) = .ok (⟨Facts.atKdf, 1, 0, v⟩, v.length) := by
  constructor
  · simp [marshalAkaAttr, Facts.atKdf, Facts.atRes, Facts.atKdfInput]
  · unfold parseAkaBody
    rw [if_neg (by decide), if_neg (by decide), if_pos (by decide)]
    have : ((4 : UInt8) * 1 - 1 - 1).toNat = 2 := by decide
    dsimp only
    rw [this, readN_append _ _ 2 hv.symm]
    simp [hv]

theorem parse_marshal_checkcode (v rest : Bytes) (h4 : v.length % 4 = 0) (hv : v.length ≤ 1016) :
    marshalAkaAttr ⟨Facts.atCheckcode, UInt8.ofNat ((4 + v.length) / 4), 0, v⟩ =
      Facts.atCheckcode :: UInt8.ofNat ((4 + v.length) / 4) :: (put16 0 ++ v) ∧
    parseAkaBody Facts.atCheckcode (UInt8.ofNat ((4 + v.length) / 4)) ((put16 0 ++ v) ++ rest) =
      .ok (⟨Facts.atCheckcode, UInt8.ofNat ((4 + v.length) / 4), 0, v⟩, (put16 0 ++ v).length) := by
  have hL : (UInt8.ofNat ((4 + v.length) / 4)).toNat = (4 + v.length) / 4 := ofNat_toNat_u8 _ (by omega)
  generalize UInt8.ofNat ((4 + v.length) / 4) = L at *
  constructor
  · simp [marshalAkaAttr, Facts.atKdf, Facts.atRes, Facts.atKdfInput, Facts.atCheckcode]
  · unfold parseAkaBody
    rw [if_neg (by decide), if_neg (by decide), if_neg (by decide)]
    have hne : ¬ (L == 0) = true := by
      intro h
      have : L = 0 := by simpa using h
      rw [this] at hL
      have h0 : (0 : UInt8).toNat = 0 := rfl
      omega
    rw [if_neg hne, List.append_assoc, readN_append _ _ 2 rfl]
    dsimp only
    rw [readN_append _ _ (4 * L.toNat - 4) (by omega)]
    simp [be16_put16]
    omega

/-- AT_RES / AT_KDF_INPUT: bit-length field, value, zero padding to a word -/
theorem parse_marshal_padded (t : UInt8) (v rest : Bytes)
    (ht : t = Facts.atRes ∨ t = Facts.atKdfInput) (hv : v.length ≤ 1016) :
    marshalAkaAttr ⟨t, UInt8.ofNat (akaWords v.length), UInt16.ofNat (v.length * 8), v⟩ =
      t :: UInt8.ofNat (akaWords v.length) ::
        (put16 (UInt16.ofNat (v.length * 8)) ++ v ++ zeros (4 * akaWords v.length - 4 - v.length)) ∧
    parseAkaBody t (UInt8.ofNat (akaWords v.length))
        ((put16 (UInt16.ofNat (v.length * 8)) ++ v ++ zeros (4 * akaWords v.length - 4 - v.length)) ++ rest) =
      .ok (⟨t, UInt8.ofNat (akaWords v.length), UInt16.ofNat (v.length * 8), v⟩,
           (put16 (UInt16.ofNat (v.length * 8)) ++ v ++ zeros (4 * akaWords v.length - 4 - v.length)).length) := by
  have hW := akaWords_eq v.length
  have hL : (UInt8.ofNat (akaWords v.length)).toNat = akaWords v.length := ofNat_toNat_u8 _ (by omega)
  have hR : (UInt16.ofNat (v.length * 8)).toNat = v.length * 8 := ofNat_toNat_u16 _ (by omega)
  generalize UInt8.ofNat (akaWords v.length) = L at *
  generalize UInt16.ofNat (v.length * 8) = R at *
  generalize akaWords v.length = W at *
  constructor
  · rcases ht with rfl | rfl <;>
      simp [marshalAkaAttr, Facts.atKdf, Facts.atRes, Facts.atKdfInput, hL]
  · have c1 : ¬ (t == Facts.atMac || t == Facts.atRand || t == Facts.atAutn) = true := by
      rcases ht with rfl | rfl <;> decide
    have c2 : (t == Facts.atKdfInput || t == Facts.atRes) = true := by
      rcases ht with rfl | rfl <;> decide
    unfold parseAkaBody
    rw [if_neg c1, if_pos c2, List.append_assoc, List.append_assoc, readN_append _ _ 2 rfl]
    dsimp only
    rw [be16_put16]
    have hvl : (R / 8).toNat = v.length := by
      rw [UInt16.toNat_div, hR]; simp
    have htot : (L.toUInt16 * 4).toNat = W * 4 := by
      rw [UInt16.toNat_mul, UInt8.toNat_toUInt16, hL]
      have : (4 : UInt16).toNat = 4 := rfl
      rw [this]; omega
    have hv4 : (R / 8 + 4).toNat = v.length + 4 := by
      rw [UInt16.toNat_add, hvl]
      have : (4 : UInt16).toNat = 4 := rfl
      rw [this]; omega
    have hnlt : ¬ (L.toUInt16 * 4 < R / 8 + 4) := by
      rw [UInt16.lt_iff_toNat_lt, htot, hv4]; omega
    rw [if_neg hnlt]
    have hpad : (L.toUInt16 * 4 - R / 8 - 4).toNat = 4 * W - 4 - v.length := by
      rw [UInt16.toNat_sub, UInt16.toNat_sub, htot, hvl]
      have : (4 : UInt16).toNat = 4 := rfl
      rw [this]; omega
    rw [hvl, readN_append _ _ v.length rfl]
    dsimp only
    by_cases hp : L.toUInt16 * 4 - R / 8 - 4 > 0
    · rw [if_pos hp, hpad, readN_append _ _ _ (by simp)]
      simp
      omega
    · rw [if_neg hp]
      have : 4 * W - 4 - v.length = 0 := by
        have : ¬ (0 < (L.toUInt16 * 4 - R / 8 - 4).toNat) := by
          intro h; apply hp; rw [gt_iff_lt, UInt16.lt_iff_toNat_lt]; simpa using h
        omega
      simp [this]

/-- every built attribute is emitted as `type ‖ length ‖ body` and the reader, given the two
header octets, reads `body` back to the same attribute, consuming exactly `body` -/
theorem parseAkaBody_marshal (x : AkaAttr) (hb : AkaAttrBuilt x) :
    ∃ body, marshalAkaAttr x = x.atype :: x.length :: body ∧
      ∀ rest, parseAkaBody x.atype x.length (body ++ rest) = .ok (x, body.length) := by
  obtain ⟨hv, hm⟩ := hb
  rcases hv with ⟨ht, hv⟩ | ⟨ht, h1, h2⟩ | ⟨ht, hv⟩ | ⟨ht, hv⟩ | ⟨ht, h4, hv⟩
  · rw [akaMkAttr_fixed16 _ _ ht hv] at hm
    simp only [Res.ok.injEq] at hm
    rw [← hm]
    exact ⟨_, (parse_marshal_fixed16 _ _ [] ht hv).1, fun rest => (parse_marshal_fixed16 _ _ rest ht hv).2⟩
  · rw [ht, akaMkAttr_res _ h1 h2] at hm
    simp only [Res.ok.injEq] at hm
    rw [← hm]
    exact ⟨_, (parse_marshal_padded _ _ [] (Or.inl rfl) (by omega)).1,
      fun rest => (parse_marshal_padded _ _ rest (Or.inl rfl) (by omega)).2⟩
  · rw [ht, akaMkAttr_kdfInput] at hm
    simp only [Res.ok.injEq] at hm
    rw [← hm]
    exact ⟨_, (parse_marshal_padded _ _ [] (Or.inr rfl) hv).1,
      fun rest => (parse_marshal_padded _ _ rest (Or.inr rfl) hv).2⟩
  · rw [ht, akaMkAttr_kdf _ hv] at hm
    simp only [Res.ok.injEq] at hm
    rw [← hm]
    exact ⟨_, (parse_marshal_kdf _ [] hv).1, fun rest => (parse_marshal_kdf _ rest hv).2⟩
  · rw [ht, akaMkAttr_checkcode] at hm
    simp only [Res.ok.injEq] at hm
    rw [← hm]
    exact ⟨_, (parse_marshal_checkcode _ [] h4 hv).1, fun rest => (parse_marshal_checkcode _ rest h4 hv).2⟩

/-! ### the attribute loop -/

theorem unmarshalAkaAttrs_cons (t len : UInt8) (body : Bytes) (acc : List AkaAttr) (a : AkaAttr) (n : Nat)
    (hp : parseAkaBody t len body = .ok (a, n)) (hn : n ≤ body.length) :
    unmarshalAkaAttrs (t :: len :: body) acc = unmarshalAkaAttrs (body.drop n) (akaInsert acc a) := by
  rw [unmarshalAkaAttrs]
  simp only [hp]
  rw [dif_pos hn]

/-- decoding the emission of a sorted list of built attributes into an accumulator that only
holds smaller keys appends the list -/
theorem unmarshalAkaAttrs_marshal (l : List AkaAttr) (acc : List AkaAttr)
    (hs : AkaSorted l) (hb : ∀ x ∈ l, AkaAttrBuilt x)
    (hacc : ∀ y ∈ acc, ∀ x ∈ l, y.atype < x.atype) :
    unmarshalAkaAttrs (marshalAkaAttrs l) acc = .ok (acc ++ l) := by
  induction l generalizing acc with
  | nil => simp [marshalAkaAttrs, unmarshalAkaAttrs]
  | cons x rest ih =>
    unfold AkaSorted at hs
    rw [List.pairwise_cons] at hs
    obtain ⟨hx, hrest⟩ := hs
    obtain ⟨body, hm, hp⟩ := parseAkaBody_marshal x (hb x (by simp))
    rw [marshalAkaAttrs, hm]
    simp only [List.cons_append]
    rw [unmarshalAkaAttrs_cons _ _ _ _ _ _ (hp _) (by simp)]
    rw [List.drop_left, akaInsert_append _ _ (fun y hy => hacc y hy x (by simp))]
    rw [ih (acc ++ [x]) hrest (fun z hz => hb z (by simp [hz]))]
    · simp
    · intro y hy z hz
      simp at hy
      rcases hy with hy | rfl
      · exact hacc y hy z (by simp [hz])
      · exact hx z hz

/-- `EapAkaPrime.Unmarshal ∘ Marshal` on built packets (any reserved word) -/
theorem rt_aka (a : Aka) (bs : Bytes) (hs : AkaSorted a.attrs) (hb : ∀ x ∈ a.attrs, AkaAttrBuilt x)
    (h : marshalAka a = .ok bs) : unmarshalAka bs = .ok a := by
  unfold marshalAka at h
  simp only [Res.ok.injEq] at h
  subst h
  unfold unmarshalAka
  rw [if_neg (by len_omega)]
  go_steps
  have h0 : byteAt ([Facts.eapTypeAkaPrime, a.subtype] ++ put16 a.reserved ++ marshalAkaAttrs a.attrs) 0
      = Facts.eapTypeAkaPrime := by simp
  rw [h0, if_neg (by decide)]
  go_steps
  have hd : List.drop 4 ([Facts.eapTypeAkaPrime, a.subtype] ++ put16 a.reserved ++ marshalAkaAttrs a.attrs)
      = marshalAkaAttrs a.attrs := by simp [put16]
  rw [hd, unmarshalAkaAttrs_marshal a.attrs [] hs hb (by simp)]
  simp [put16, be16_put]

/-! ### the EAP packet -/

/-- size in octets of the type-data a method marshals to -/
def eapDataSize : EapData → Nat
  | .none => 0
  | .identity d => 1 + d.length
  | .notification d => 1 + d.length
  | .nak d => 1 + d.length
  | .expanded _ _ d => 8 + d.length
  | .aka a => 4 + (marshalAkaAttrs a.attrs).length

/-- method data the property quantifies over: no data; Identity / Notification / Nak with at
least one octet; Expanded with a 24-bit vendor id; EAP-AKA' built through the setter -/
def DomEapData : EapData → Prop
  | .none => True
  | .identity d => 1 ≤ d.length
  | .notification d => 1 ≤ d.length
  | .nak d => 1 ≤ d.length
  | .expanded vid _ _ => vid.toNat < 16777216
  | .aka a => AkaBuilt a

instance (d : EapData) : Decidable (DomEapData d) := by
  cases d <;> unfold DomEapData <;> exact inferInstance

/-- the packets of property C14: any code and identifier; Success / Failure (codes 3, 4)
carry no data; method data in `DomEapData`; the whole packet fits the 16-bit length field -/
def DomEap (e : Eap) : Prop :=
  ((e.code = Facts.eapCodeSuccess ∨ e.code = Facts.eapCodeFailure) → e.data = .none) ∧
  DomEapData e.data ∧ 4 + eapDataSize e.data ≤ 65535

instance (e : Eap) : Decidable (DomEap e) := by unfold DomEap; exact inferInstance

theorem marshalEapData_size (d : EapData) (td : Bytes) (h : marshalEapData d = .ok td) :
    td.length = eapDataSize d := by
  cases d with
  | none => simp [marshalEapData] at h; subst h; rfl
  | identity d =>
    simp only [marshalEapData] at h
    split at h
    · simp at h
    · simp only [Res.ok.injEq] at h; subst h; simp [eapDataSize]; omega
  | notification d =>
    simp only [marshalEapData] at h
    split at h
    · simp at h
    · simp only [Res.ok.injEq] at h; subst h; simp [eapDataSize]; omega
  | nak d =>
    simp only [marshalEapData] at h
    split at h
    · simp at h
    · simp only [Res.ok.injEq] at h; subst h; simp [eapDataSize]; omega
  | expanded vid vt d =>
    simp only [marshalEapData, Res.ok.injEq] at h; subst h; simp [eapDataSize]; omega
  | aka a =>
    simp only [marshalEapData, marshalAka, Res.ok.injEq] at h; subst h; simp [eapDataSize]; omega

theorem marshalEap_eq (e : Eap) (bs : Bytes) (h : marshalEap e = .ok bs) :
    ∃ td, marshalEapData e.data = .ok td ∧
      bs = [e.code, e.ident] ++ put16 (UInt16.ofNat (4 + td.length)) ++ td := by
  unfold marshalEap at h
  cases hm : marshalEapData e.data with
  | ok td => rw [hm] at h; simp only [Res.bind_ok, Res.ok.injEq] at h; exact ⟨td, rfl, h.symm⟩
  | err => rw [hm] at h; simp at h
  | fault => rw [hm] at h; simp at h

/-- the expanded-type word: `254 ‖ vendor id (24 bits)` -/
theorem expanded_word (vid : UInt32) :
    ((Facts.eapTypeExpanded.toUInt32 <<< 24) ||| (vid &&& 0x00ffffff)).toNat = 254 * 16777216 + vid.toNat % 16777216 := by
  have h1 : (Facts.eapTypeExpanded.toUInt32 <<< 24 : UInt32).toNat = 2 ^ 24 * 254 := by decide
  have h2 : (vid &&& 0x00ffffff).toNat = vid.toNat % 2 ^ 24 := by
    rw [UInt32.toNat_and]
    have : (0x00ffffff : UInt32).toNat = 2 ^ 24 - 1 := rfl
    rw [this, Nat.and_two_pow_sub_one_eq_mod]
  rw [UInt32.toNat_or, h1, h2]
  have := Nat.two_pow_add_eq_or_of_lt (i := 24) (b := vid.toNat % 2 ^ 24) (Nat.mod_lt _ (by decide)) 254
  omega

theorem u32_and_ffffff (x : UInt32) : (x &&& 0x00ffffff).toNat = x.toNat % 16777216 := by
  rw [UInt32.toNat_and]
  have : (0x00ffffff : UInt32).toNat = 2 ^ 24 - 1 := rfl
  rw [this, Nat.and_two_pow_sub_one_eq_mod]

theorem rt_eapData_expanded (vid vt : UInt32) (d : Bytes) (hv : vid.toNat < 16777216) :
    byteAt (put32 ((Facts.eapTypeExpanded.toUInt32 <<< 24) ||| (vid &&& 0x00ffffff)) ++ put32 vt ++ d) 0
      = Facts.eapTypeExpanded ∧
    unmarshalExpanded (put32 ((Facts.eapTypeExpanded.toUInt32 <<< 24) ||| (vid &&& 0x00ffffff)) ++ put32 vt ++ d)
      = .ok (.expanded vid vt d) := by
  have hw := expanded_word vid
  generalize (Facts.eapTypeExpanded.toUInt32 <<< 24) ||| (vid &&& 0x00ffffff) = w at *
  constructor
  · simp only [put32, List.cons_append, byteAt_cons_zero]
    rw [hw]
    have : (254 * 16777216 + vid.toNat % 16777216) / 16777216 = 254 := by omega
    rw [this]; rfl
  · unfold unmarshalExpanded
    rw [if_neg (by len_omega), if_neg (by len_omega)]
    go_steps
    have e1 : be32 (byteAt (put32 w ++ put32 vt ++ d) 0) (byteAt (put32 w ++ put32 vt ++ d) 1)
        (byteAt (put32 w ++ put32 vt ++ d) 2) (byteAt (put32 w ++ put32 vt ++ d) 3) = w := by
      simp [put32, be32_put]
    have e2 : be32 (byteAt (put32 w ++ put32 vt ++ d) 4) (byteAt (put32 w ++ put32 vt ++ d) 5)
        (byteAt (put32 w ++ put32 vt ++ d) 6) (byteAt (put32 w ++ put32 vt ++ d) 7) = vt := by
      simp [put32, be32_put]
    rw [e1, e2]
    have e3 : w &&& 0x00ffffff = vid := by
      apply UInt32.toNat_inj.mp
      rw [u32_and_ffffff, hw]; omega
    rw [e3]
    by_cases hd : (put32 w ++ put32 vt ++ d).length > 8
    · rw [if_pos hd]
      go_steps
      simp [put32]
    · rw [if_neg hd]
      have : d = [] := by
        cases d with
        | nil => rfl
        | cons x xs => exfalso; apply hd; simp; omega
      subst this
      simp

theorem rt_unmarshalSimple (code : UInt8) (mk : Bytes → EapData) (d : Bytes) (hd : 1 ≤ d.length) :
    unmarshalSimple code mk ([code] ++ d) = .ok (mk d) := by
  unfold unmarshalSimple
  rw [if_pos (by len_omega)]
  go_steps
  simp

/-- EAP round trip for every code octet: only the method data and the total size matter -/
theorem rt_eap_anycode (e : Eap) (bs : Bytes) (hdd : DomEapData e.data) (hsz : 4 + eapDataSize e.data ≤ 65535)
    (h : marshalEap e = .ok bs) : unmarshalEap bs = .ok e := by
  obtain ⟨td, hm, rfl⟩ := marshalEap_eq e bs h
  have hsize := marshalEapData_size _ _ hm
  have hl : (UInt16.ofNat (4 + td.length)).toNat = 4 + td.length := ofNat_toNat_u16 _ (by omega)
  obtain ⟨code, ident, data⟩ := e
  dsimp only at *
  generalize UInt16.ofNat (4 + td.length) = pl at *
  unfold unmarshalEap
  rw [if_neg (by len_omega), if_neg (by len_omega)]
  go_steps
  have hpl : be16 (byteAt ([code, ident] ++ put16 pl ++ td) 2) (byteAt ([code, ident] ++ put16 pl ++ td) (2 + 1)) = pl := by
    simp [put16, be16_put]
  rw [hpl]
  have c1 : ¬ pl < 4 := by
    rw [UInt16.lt_iff_toNat_lt, hl]
    have : (4 : UInt16).toNat = 4 := rfl
    omega
  rw [if_neg c1, if_neg (by rw [hl]; len_omega)]
  go_steps
  have hb0 : byteAt ([code, ident] ++ put16 pl ++ td) 0 = code := by simp
  have hb1 : byteAt ([code, ident] ++ put16 pl ++ td) 1 = ident := by simp
  rw [hb0, hb1]
  by_cases htd : td = []
  · subst htd
    have : pl = 4 := by apply UInt16.toNat_inj.mp; rw [hl]; rfl
    rw [if_pos (by simp [this])]
    cases data with
    | none => rfl
    | identity d => simp [marshalEapData] at hm; split at hm <;> simp at hm
    | notification d => simp [marshalEapData] at hm; split at hm <;> simp at hm
    | nak d => simp [marshalEapData] at hm; split at hm <;> simp at hm
    | expanded vid vt d => simp [marshalEapData, put32] at hm
    | aka a => simp [marshalEapData, marshalAka] at hm
  · have htl : 1 ≤ td.length := by
      cases td with
      | nil => exact absurd rfl htd
      | cons x xs => simp
    have c2 : ¬ (pl == 4) = true := by
      intro hh
      have : pl = 4 := by simpa using hh
      rw [this] at hl
      have : (4 : UInt16).toNat = 4 := rfl
      omega
    rw [if_neg c2]
    go_steps
    have hb4 : byteAt ([code, ident] ++ put16 pl ++ td) 4 = byteAt td 0 := by simp [put16]
    have hdrop : List.drop 4 ([code, ident] ++ put16 pl ++ td) = td := by simp [put16]
    rw [hb4, hdrop]
    cases data with
    | none => simp [marshalEapData] at hm; exact absurd hm htd
    | identity d =>
      simp only [marshalEapData] at hm
      split at hm
      · simp at hm
      · simp only [Res.ok.injEq] at hm; subst hm
        have : byteAt ([Facts.eapTypeIdentity] ++ d) 0 = Facts.eapTypeIdentity := by simp
        rw [this, if_pos (by decide), rt_unmarshalSimple _ _ _ hdd]
        rfl
    | notification d =>
      simp only [marshalEapData] at hm
      split at hm
      · simp at hm
      · simp only [Res.ok.injEq] at hm; subst hm
        have : byteAt ([Facts.eapTypeNotification] ++ d) 0 = Facts.eapTypeNotification := by simp
        rw [this, if_neg (by decide), if_pos (by decide), rt_unmarshalSimple _ _ _ hdd]
        rfl
    | nak d =>
      simp only [marshalEapData] at hm
      split at hm
      · simp at hm
      · simp only [Res.ok.injEq] at hm; subst hm
        have : byteAt ([Facts.eapTypeNak] ++ d) 0 = Facts.eapTypeNak := by simp
        rw [this, if_neg (by decide), if_neg (by decide), if_pos (by decide), rt_unmarshalSimple _ _ _ hdd]
        rfl
    | expanded vid vt d =>
      simp only [marshalEapData, Res.ok.injEq] at hm; subst hm
      obtain ⟨hty, hu⟩ := rt_eapData_expanded vid vt d hdd
      rw [hty, if_neg (by decide), if_neg (by decide), if_neg (by decide), if_neg (by decide),
        if_pos (by decide), hu]
      rfl
    | aka a =>
      simp only [marshalEapData] at hm
      have hu := rt_aka a td hdd.2.1 hdd.2.2 hm
      have hty : byteAt td 0 = Facts.eapTypeAkaPrime := by
        unfold marshalAka at hm
        simp only [Res.ok.injEq] at hm; subst hm; simp
      rw [hty, if_neg (by decide), if_neg (by decide), if_neg (by decide), if_pos (by decide), hu]
      rfl

/-- **EAP round trip** (the form the message-level proof uses) -/
theorem rt_eap_payload (e : Eap) (bs : Bytes) (hd : DomEap e) (h : marshalEap e = .ok bs) :
    unmarshalEap bs = .ok e :=
  rt_eap_anycode e bs hd.2.1 hd.2.2 h

/-- whatever the attribute loop returns is sorted when the accumulator was -/
theorem unmarshalAkaAttrs_sorted (r : Bytes) (acc l : List AkaAttr) (hs : AkaSorted acc)
    (h : unmarshalAkaAttrs r acc = .ok l) : AkaSorted l := by
  fun_induction unmarshalAkaAttrs r acc with
  | case1 acc => simp only [Res.ok.injEq] at h; exact h ▸ hs
  | case2 acc _ => simp only [Res.ok.injEq] at h; exact h ▸ hs
  | case3 acc t len body a n hp hn ih => exact ih (akaInsert_sorted _ _ hs) h
  | case4 => simp at h
  | case5 => simp at h
  | case6 => simp at h

/-- a decoded EAP-AKA' packet keeps its attributes sorted by type with unique keys -/
theorem unmarshalAka_sorted (raw : Bytes) (a : Aka) (h : unmarshalAka raw = .ok a) : AkaSorted a.attrs := by
  unfold unmarshalAka at h
  split at h
  · simp at h
  · obtain ⟨c, _, h⟩ := Res.bind_eq_ok h
    split at h
    · simp at h
    · obtain ⟨st, _, h⟩ := Res.bind_eq_ok h
      obtain ⟨rs, _, h⟩ := Res.bind_eq_ok h
      obtain ⟨rest, _, h⟩ := Res.bind_eq_ok h
      obtain ⟨attrs, ha, h⟩ := Res.bind_eq_ok h
      simp only [Res.ok.injEq] at h
      subst h
      exact unmarshalAkaAttrs_sorted _ _ _ List.Pairwise.nil ha

/-! ### shape of a built attribute; reachability; automatic size bound -/

/-- the five shapes `SetAttr` stores -/
theorem akaAttrBuilt_cases {x : AkaAttr} (hb : AkaAttrBuilt x) :
    (∃ t v, (t = Facts.atRand ∨ t = Facts.atAutn ∨ t = Facts.atMac) ∧ v.length = 16 ∧ x = ⟨t, 5, 0, v⟩) ∨
    (∃ t v, (t = Facts.atRes ∨ t = Facts.atKdfInput) ∧ v.length ≤ 1016 ∧ (t = Facts.atRes → 4 ≤ v.length ∧ v.length ≤ 16) ∧
      x = ⟨t, UInt8.ofNat (akaWords v.length), UInt16.ofNat (v.length * 8), v⟩) ∨
    (∃ v, v.length = 2 ∧ x = ⟨Facts.atKdf, 1, 0, v⟩) ∨
    (∃ v, v.length % 4 = 0 ∧ v.length ≤ 1016 ∧ x = ⟨Facts.atCheckcode, UInt8.ofNat ((4 + v.length) / 4), 0, v⟩) := by
  obtain ⟨hv, hm⟩ := hb
  rcases hv with ⟨ht, hv⟩ | ⟨ht, h1, h2⟩ | ⟨ht, hv⟩ | ⟨ht, hv⟩ | ⟨ht, h4, hv⟩
  · rw [akaMkAttr_fixed16 _ _ ht hv] at hm
    simp only [Res.ok.injEq] at hm
    exact Or.inl ⟨_, _, ht, hv, hm.symm⟩
  · rw [ht, akaMkAttr_res _ h1 h2] at hm
    simp only [Res.ok.injEq] at hm
    exact Or.inr (Or.inl ⟨_, _, Or.inl rfl, by omega, fun _ => ⟨h1, h2⟩, hm.symm⟩)
  · rw [ht, akaMkAttr_kdfInput] at hm
    simp only [Res.ok.injEq] at hm
    exact Or.inr (Or.inl ⟨_, _, Or.inr rfl, hv, fun h => absurd h (by decide), hm.symm⟩)
  · rw [ht, akaMkAttr_kdf _ hv] at hm
    simp only [Res.ok.injEq] at hm
    exact Or.inr (Or.inr (Or.inl ⟨_, hv, hm.symm⟩))
  · rw [ht, akaMkAttr_checkcode] at hm
    simp only [Res.ok.injEq] at hm
    exact Or.inr (Or.inr (Or.inr ⟨_, h4, hv, hm.symm⟩))

theorem akaAttrBuilt_settable {x : AkaAttr} (hb : AkaAttrBuilt x) : akaSettable x.atype := by
  unfold akaSettable
  rcases akaAttrBuilt_cases hb with ⟨t, v, ht, _, rfl⟩ | ⟨t, v, ht, _, _, rfl⟩ | ⟨v, _, rfl⟩ | ⟨v, _, _, rfl⟩
  · rcases ht with rfl | rfl | rfl <;> simp
  · rcases ht with rfl | rfl <;> simp
  · simp
  · simp

/-- a built attribute occupies exactly `4 · length` octets, `1 ≤ length` -/
theorem marshalAkaAttr_length {x : AkaAttr} (hb : AkaAttrBuilt x) :
    (marshalAkaAttr x).length = 4 * x.length.toNat ∧ 1 ≤ x.length.toNat := by
  rcases akaAttrBuilt_cases hb with ⟨t, v, ht, hv, rfl⟩ | ⟨t, v, ht, hv, _, rfl⟩ | ⟨v, hv, rfl⟩ | ⟨v, h4, hv, rfl⟩
  · rw [(parse_marshal_fixed16 t v [] ht hv).1]
    have : (5 : UInt8).toNat = 5 := rfl
    simp [hv, this]
  · rw [(parse_marshal_padded t v [] ht hv).1]
    have hW := akaWords_eq v.length
    have hL : (UInt8.ofNat (akaWords v.length)).toNat = akaWords v.length := ofNat_toNat_u8 _ (by omega)
    dsimp only
    rw [hL]
    simp
    omega
  · rw [(parse_marshal_kdf v [] hv).1]
    have : (1 : UInt8).toNat = 1 := rfl
    simp [hv, this]
  · rw [(parse_marshal_checkcode v [] h4 hv).1]
    have hL : (UInt8.ofNat ((4 + v.length) / 4)).toNat = (4 + v.length) / 4 := ofNat_toNat_u8 _ (by omega)
    dsimp only
    rw [hL]
    simp
    omega

theorem akaSetAttr_ok_iff (a a' : Aka) (t : UInt8) (v : Bytes) :
    akaSetAttr a t v = .ok a' ↔ ∃ na, akaMkAttr t v = .ok na ∧ a' = { a with attrs := akaInsert a.attrs na } := by
  unfold akaSetAttr
  cases h : akaMkAttr t v with
  | ok na => simp [eq_comm]
  | err => simp
  | fault => simp

/-- `SetAttr` keeps a built packet built -/
theorem akaBuilt_set {a a' : Aka} {t : UInt8} {v : Bytes} (hb : AkaBuilt a) (hv : AkaValOk t v)
    (h : akaSetAttr a t v = .ok a') : AkaBuilt a' := by
  obtain ⟨na, hm, rfl⟩ := (akaSetAttr_ok_iff _ _ _ _).mp h
  obtain ⟨h0, hs, hall⟩ := hb
  refine ⟨h0, akaInsert_sorted _ _ hs, ?_⟩
  intro x hx
  rcases akaInsert_mem hx with rfl | hx
  · exact akaAttrBuilt_of_mk hv hm
  · exact hall x hx

/-- reachable through the API ⇔ the structural (decidable) characterisation -/
theorem akaReach_iff_built (a : Aka) : AkaReach a ↔ AkaBuilt a := by
  constructor
  · intro h
    induction h with
    | fresh st => exact ⟨rfl, List.Pairwise.nil, by simp⟩
    | set t v _ hv hs ih => exact akaBuilt_set ih hv hs
  · intro h
    obtain ⟨st, rs, attrs⟩ := a
    obtain ⟨h0, hs, hall⟩ := h
    dsimp only at h0 hs hall
    subst h0
    induction attrs with
    | nil => exact AkaReach.fresh st
    | cons x rest ih =>
      unfold AkaSorted at hs
      rw [List.pairwise_cons] at hs
      have hr := ih hs.2 (fun y hy => hall y (by simp [hy]))
      have hx := hall x (by simp)
      refine AkaReach.set x.atype x.value hr hx.1 ?_
      rw [akaSetAttr_ok_iff]
      refine ⟨x, hx.2, ?_⟩
      rw [akaInsert_front _ _ hs.1]

/-- how many settable types are `≥ k` -/
def akaPot (k : Nat) : Nat :=
  if k ≤ 1 then 7 else if k ≤ 2 then 6 else if k ≤ 3 then 5 else if k ≤ 11 then 4 else
  if k ≤ 23 then 3 else if k ≤ 24 then 2 else if k ≤ 134 then 1 else 0

theorem akaPot_step (k t : Nat) (h : k ≤ t)
    (ht : t = 1 ∨ t = 2 ∨ t = 3 ∨ t = 11 ∨ t = 23 ∨ t = 24 ∨ t = 134) : akaPot (t + 1) + 1 ≤ akaPot k := by
  unfold akaPot
  rcases ht with rfl | rfl | rfl | rfl | rfl | rfl | rfl <;>
    simp only [Nat.reduceLeDiff, if_true, if_false, Nat.reduceAdd] <;> (repeat' split) <;> omega

theorem akaPot_le (k : Nat) : akaPot k ≤ 7 := by unfold akaPot; (repeat' split) <;> omega

theorem akaSettable_toNat {t : UInt8} (h : akaSettable t) :
    t.toNat = 1 ∨ t.toNat = 2 ∨ t.toNat = 3 ∨ t.toNat = 11 ∨ t.toNat = 23 ∨ t.toNat = 24 ∨ t.toNat = 134 := by
  rcases h with rfl | rfl | rfl | rfl | rfl | rfl | rfl <;> decide

theorem marshalAkaAttrs_bound (l : List AkaAttr) (hs : AkaSorted l) (hb : ∀ x ∈ l, AkaAttrBuilt x)
    (k : Nat) (hk : ∀ x ∈ l, k ≤ x.atype.toNat) : (marshalAkaAttrs l).length ≤ 1020 * akaPot k := by
  induction l generalizing k with
  | nil => simp [marshalAkaAttrs]
  | cons x rest ih =>
    unfold AkaSorted at hs
    rw [List.pairwise_cons] at hs
    have hx := hb x (by simp)
    have hlen := marshalAkaAttr_length hx
    have h255 := x.length.toNat_lt
    have hrest := ih hs.2 (fun y hy => hb y (by simp [hy])) (x.atype.toNat + 1)
      (fun y hy => by have := hs.1 y hy; rw [UInt8.lt_iff_toNat_lt] at this; omega)
    have hstep := akaPot_step k x.atype.toNat (hk x (by simp)) (akaSettable_toNat (akaAttrBuilt_settable hx))
    rw [marshalAkaAttrs, List.length_append]
    omega

/-- a packet built through the setter always fits the 16-bit EAP length field
(at most seven attributes of at most 1020 octets) -/
theorem akaBuilt_size {a : Aka} (hb : AkaBuilt a) : 4 + eapDataSize (.aka a) ≤ 7148 := by
  have := marshalAkaAttrs_bound a.attrs hb.2.1 hb.2.2 0 (by simp)
  have := akaPot_le 0
  simp only [eapDataSize]
  omega

theorem domEap_aka (code ident : UInt8) (a : Aka) (hc : code ≠ Facts.eapCodeSuccess ∧ code ≠ Facts.eapCodeFailure)
    (hb : AkaBuilt a) : DomEap ⟨code, ident, .aka a⟩ := by
  refine ⟨?_, hb, ?_⟩
  · intro h; rcases h with h | h
    · exact absurd h hc.1
    · exact absurd h hc.2
  · have := akaBuilt_size hb; dsimp only; omega

/-! ### byte equality with the independent RFC encoder -/

theorem marshalAkaAttr_eq_spec {x : AkaAttr} (hb : AkaAttrBuilt x) :
    marshalAkaAttr x = Spec.encodeAkaAttr x.atype x.value := by
  rcases akaAttrBuilt_cases hb with ⟨t, v, ht, hv, rfl⟩ | ⟨t, v, ht, hv, _, rfl⟩ | ⟨v, hv, rfl⟩ | ⟨v, h4, hv, rfl⟩
  · rw [(parse_marshal_fixed16 t v [] ht hv).1]
    rcases ht with rfl | rfl | rfl <;> simp [Spec.encodeAkaAttr, Facts.atRand, Facts.atAutn, Facts.atMac, put16]
  · rw [(parse_marshal_padded t v [] ht hv).1]
    have hW : akaWords v.length = Spec.wordsFor v.length := by rw [akaWords_eq]; unfold Spec.wordsFor; omega
    rcases ht with rfl | rfl <;>
      simp [Spec.encodeAkaAttr, Facts.atRes, Facts.atKdfInput, hW, Spec.kdfInputLenUnit, Nat.mul_comm]
  · rw [(parse_marshal_kdf v [] hv).1]
    simp [Spec.encodeAkaAttr, Facts.atKdf]
  · rw [(parse_marshal_checkcode v [] h4 hv).1]
    have hW : Spec.wordsFor v.length = (4 + v.length) / 4 := by unfold Spec.wordsFor; omega
    have hz : 4 * ((4 + v.length) / 4) - 4 - v.length = 0 := by omega
    simp [Spec.encodeAkaAttr, Facts.atCheckcode, hW, hz, put16, zeros]
    omega

theorem marshalAkaAttrs_eq_spec (l : List AkaAttr) (hb : ∀ x ∈ l, AkaAttrBuilt x) :
    marshalAkaAttrs l = Spec.encodeAkaAttrs (l.map (fun x => (x.atype, x.value))) := by
  induction l with
  | nil => rfl
  | cons x rest ih =>
    simp only [marshalAkaAttrs, List.map_cons, Spec.encodeAkaAttrs]
    rw [marshalAkaAttr_eq_spec (hb x (by simp)), ih (fun y hy => hb y (by simp [hy]))]

/-- whole packet = RFC 3748 frame around the RFC 4187/5448 type-data -/
theorem marshalEap_aka_eq_spec (code ident : UInt8) (a : Aka) (hb : AkaBuilt a) :
    marshalEap ⟨code, ident, .aka a⟩ =
      .ok (Spec.encodeEapAka code ident a.subtype (a.attrs.map (fun x => (x.atype, x.value)))) := by
  obtain ⟨h0, _, hall⟩ := hb
  unfold marshalEap
  simp only [marshalEapData, marshalAka, Res.bind_ok, h0]
  rw [marshalAkaAttrs_eq_spec _ hall]
  simp [Spec.encodeEapAka, Spec.encodeEapFrame, Spec.encodeAka, put16, Facts.eapTypeAkaPrime]

/-! ### AT_MAC (C15) -/

/-- AT_MAC as `initMAC` stores it: 16 zero octets -/
def akaZeroMacAttr : AkaAttr := ⟨Facts.atMac, 5, 0, zeros 16⟩

/-- the packet with AT_MAC := 0¹⁶ (inserted if absent, overwritten if present) -/
def akaZeroMac (a : Aka) : Aka := { a with attrs := akaInsert a.attrs akaZeroMacAttr }

theorem akaInitMac_eq (a : Aka) : akaInitMac a = .ok (akaZeroMac a) := by
  unfold akaInitMac akaSetAttr
  rw [akaMkAttr_fixed16 _ _ (Or.inr (Or.inr rfl)) (by simp)]
  rfl

theorem akaValOk_mac (m : Bytes) (h : m.length = 16) : AkaValOk Facts.atMac m :=
  Or.inl ⟨Or.inr (Or.inr rfl), h⟩

theorem akaZeroMac_built {a : Aka} (hb : AkaBuilt a) : AkaBuilt (akaZeroMac a) :=
  akaBuilt_set hb (akaValOk_mac (zeros 16) (by simp)) (akaInitMac_eq a)

/-- wire form of an EAP-AKA' packet (what `EAP.Marshal` returns; it cannot fail) -/
def eapAkaWire (code ident : UInt8) (a : Aka) : Bytes :=
  [code, ident] ++ put16 (UInt16.ofNat (4 + (4 + (marshalAkaAttrs a.attrs).length))) ++
    ([Facts.eapTypeAkaPrime, a.subtype] ++ put16 a.reserved ++ marshalAkaAttrs a.attrs)

theorem marshalEap_aka (code ident : UInt8) (a : Aka) :
    marshalEap ⟨code, ident, .aka a⟩ = .ok (eapAkaWire code ident a) := by
  unfold marshalEap eapAkaWire
  simp only [marshalEapData, marshalAka, Res.bind_ok]
  have : ([Facts.eapTypeAkaPrime, a.subtype] ++ put16 a.reserved ++ marshalAkaAttrs a.attrs).length
      = 4 + (marshalAkaAttrs a.attrs).length := by simp; omega
  rw [this]

/-- `CalcEapAkaPrimeAtMAC` on an EAP-AKA' packet, in closed form -/
theorem calcEapAkaPrimeAtMAC_aka (P : Prims) (code ident : UInt8) (a : Aka) (key : Bytes) :
    calcEapAkaPrimeAtMAC P ⟨code, ident, .aka a⟩ key =
      (⟨code, ident, .aka (akaZeroMac a)⟩,
       .ok ((P.mac 2 key (eapAkaWire code ident (akaZeroMac a))).take 16)) := by
  unfold calcEapAkaPrimeAtMAC
  simp only [akaInitMac_eq, marshalEap_aka]

/-- storing any AT_MAC first does not change the zero-MAC packet -/
theorem akaZeroMac_setMac (a : Aka) (x : AkaAttr) (hx : x.atype = Facts.atMac) :
    akaZeroMac { a with attrs := akaInsert a.attrs x } = akaZeroMac a := by
  unfold akaZeroMac
  simp only
  rw [akaInsert_insert_same _ _ _ (by rw [hx]; rfl)]

/-- `marshalEap` is injective on the domain (it has a left inverse) -/
theorem marshalEap_inj {e1 e2 : Eap} {bs : Bytes} (h1 : DomEap e1) (h2 : DomEap e2)
    (m1 : marshalEap e1 = .ok bs) (m2 : marshalEap e2 = .ok bs) : e1 = e2 := by
  have r1 := rt_eap_payload e1 bs h1 m1
  have r2 := rt_eap_payload e2 bs h2 m2
  rw [r1] at r2
  simpa using r2

/-! #### the RFC 5448 §3.4 input (`Spec.zeroMac`) of the wire form of a built packet -/

def akaZeroIfMac (x : AkaAttr) : AkaAttr :=
  if x.atype == Facts.atMac then { x with value := zeros 16 } else x

theorem akaZeroIfMac_mac {x : AkaAttr} (hb : AkaAttrBuilt x) (ht : x.atype = Facts.atMac) :
    akaZeroIfMac x = akaZeroMacAttr ∧ ∃ v, v.length = 16 ∧ x = ⟨Facts.atMac, 5, 0, v⟩ := by
  rcases akaAttrBuilt_cases hb with ⟨t, v, _, hv, rfl⟩ | ⟨t, v, ht', _, _, rfl⟩ | ⟨v, _, rfl⟩ | ⟨v, _, _, rfl⟩
  · dsimp only at ht; subst ht
    exact ⟨by simp [akaZeroIfMac, akaZeroMacAttr], v, hv, rfl⟩
  · dsimp only at ht; subst ht; rcases ht' with h | h <;> exact absurd h (by decide)
  · dsimp only at ht; exact absurd ht (by decide)
  · dsimp only at ht; exact absurd ht (by decide)

theorem akaZeroIfMac_other {x : AkaAttr} (ht : x.atype ≠ Facts.atMac) : akaZeroIfMac x = x := by
  unfold akaZeroIfMac
  rw [if_neg (by simpa using ht)]

theorem akaZeroIfMac_map_other (l : List AkaAttr) (h : ∀ x ∈ l, x.atype ≠ Facts.atMac) :
    l.map akaZeroIfMac = l := by
  induction l with
  | nil => rfl
  | cons x rest ih =>
    rw [List.map_cons, akaZeroIfMac_other (h x (by simp)), ih (fun y hy => h y (by simp [hy]))]

/-- in a built list that carries AT_MAC, zeroing the MAC value in place is the same as
`initMAC` (store 0¹⁶ under the key) -/
theorem akaZeroIfMac_map_eq_insert (l : List AkaAttr) (hs : AkaSorted l) (hb : ∀ x ∈ l, AkaAttrBuilt x)
    (hm : ∃ x ∈ l, x.atype = Facts.atMac) : l.map akaZeroIfMac = akaInsert l akaZeroMacAttr := by
  induction l with
  | nil => obtain ⟨x, hx, _⟩ := hm; simp at hx
  | cons h rest ih =>
    unfold AkaSorted at hs
    rw [List.pairwise_cons] at hs
    by_cases hh : h.atype = Facts.atMac
    · have hz := (akaZeroIfMac_mac (hb h (by simp)) hh).1
      have hrest : rest.map akaZeroIfMac = rest := by
        apply akaZeroIfMac_map_other
        intro y hy hy'
        have := hs.1 y hy
        rw [hh, hy', UInt8.lt_iff_toNat_lt] at this
        omega
      rw [List.map_cons, hz, hrest, akaInsert]
      have c1 : ¬ akaZeroMacAttr.atype < h.atype := by
        rw [hh]; show ¬ Facts.atMac < Facts.atMac; decide
      have c2 : (akaZeroMacAttr.atype == h.atype) = true := by rw [hh]; rfl
      rw [if_neg c1, if_pos c2]
    · obtain ⟨x, hx, hxm⟩ := hm
      have hxr : x ∈ rest := by
        simp at hx
        rcases hx with rfl | hx
        · exact absurd hxm hh
        · exact hx
      have hlt := hs.1 x hxr
      rw [hxm] at hlt
      have c1 : ¬ akaZeroMacAttr.atype < h.atype := by
        show ¬ Facts.atMac < h.atype
        rw [UInt8.lt_iff_toNat_lt] at hlt ⊢; omega
      have c2 : ¬ (akaZeroMacAttr.atype == h.atype) = true := by
        intro hc
        have : akaZeroMacAttr.atype = h.atype := by simpa using hc
        exact hh this.symm
      rw [List.map_cons, akaZeroIfMac_other hh, akaInsert, if_neg c1, if_neg c2,
        ih hs.2 (fun y hy => hb y (by simp [hy])) ⟨x, hxr, hxm⟩]

theorem akaLookup_some_mem {l : List AkaAttr} {t : UInt8} {x : AkaAttr} (h : akaLookup l t = some x) :
    x ∈ l ∧ x.atype = t := by
  induction l with
  | nil => simp [akaLookup] at h
  | cons y rest ih =>
    unfold akaLookup at h
    by_cases c : (y.atype == t) = true
    · rw [if_pos c] at h
      simp only [Option.some.injEq] at h; subst h
      exact ⟨by simp, by simpa using c⟩
    · rw [if_neg c] at h
      obtain ⟨h1, h2⟩ := ih h
      exact ⟨by simp [h1], h2⟩

theorem marshalAkaAttr_zeroIfMac_length {x : AkaAttr} (hb : AkaAttrBuilt x) :
    (marshalAkaAttr (akaZeroIfMac x)).length = (marshalAkaAttr x).length := by
  by_cases ht : x.atype = Facts.atMac
  · obtain ⟨hz, v, hv, rfl⟩ := akaZeroIfMac_mac hb ht
    rw [hz]
    simp [marshalAkaAttr, akaZeroMacAttr, Facts.atMac, Facts.atKdf, Facts.atRes, Facts.atKdfInput, hv]
  · rw [akaZeroIfMac_other ht]

theorem marshalAkaAttrs_zeroIfMac_length (l : List AkaAttr) (hb : ∀ x ∈ l, AkaAttrBuilt x) :
    (marshalAkaAttrs (l.map akaZeroIfMac)).length = (marshalAkaAttrs l).length := by
  induction l with
  | nil => rfl
  | cons x rest ih =>
    simp only [List.map_cons, marshalAkaAttrs, List.length_append]
    rw [marshalAkaAttr_zeroIfMac_length (hb x (by simp)), ih (fun y hy => hb y (by simp [hy]))]

theorem marshalAkaAttrs_length_ge (l : List AkaAttr) (hb : ∀ x ∈ l, AkaAttrBuilt x) :
    l.length ≤ (marshalAkaAttrs l).length := by
  induction l with
  | nil => simp
  | cons x rest ih =>
    have := marshalAkaAttr_length (hb x (by simp))
    have := ih (fun y hy => hb y (by simp [hy]))
    simp only [marshalAkaAttrs, List.length_append, List.length_cons]
    omega

/-- the RFC attribute walk over the emission of built attributes (any order) zeroes exactly
the MAC values and reports whether AT_MAC occurred -/
theorem zeroMacAttrs_marshal (l : List AkaAttr) (hb : ∀ x ∈ l, AkaAttrBuilt x) (fuel : Nat)
    (hf : l.length < fuel) :
    Spec.zeroMacAttrs fuel (marshalAkaAttrs l) =
      some (marshalAkaAttrs (l.map akaZeroIfMac), l.any (fun x => x.atype == Facts.atMac)) := by
  induction l generalizing fuel with
  | nil =>
    cases fuel with
    | zero => simp at hf
    | succ f => simp [marshalAkaAttrs, Spec.zeroMacAttrs]
  | cons x rest ih =>
    cases fuel with
    | zero => simp at hf
    | succ f =>
      have hx := hb x (by simp)
      obtain ⟨body, hm, _⟩ := parseAkaBody_marshal x hx
      obtain ⟨hlen, hw1⟩ := marshalAkaAttr_length hx
      have hbl : body.length = 4 * x.length.toNat - 2 := by
        rw [hm] at hlen; simp at hlen; omega
      have ihr := ih (fun y hy => hb y (by simp [hy])) f (by simp at hf; omega)
      rw [marshalAkaAttrs, hm]
      simp only [List.cons_append]
      rw [Spec.zeroMacAttrs]
      have hw0 : ¬ (x.length == 0) = true := by
        intro h
        have : x.length = 0 := by simpa using h
        rw [this] at hw1
        have : (0 : UInt8).toNat = 0 := rfl
        omega
      have c0 : ¬ ((x.length == 0 || decide (4 * x.length.toNat - 2 > (body ++ marshalAkaAttrs rest).length)) = true) := by
        simp only [Bool.or_eq_true, decide_eq_true_eq, not_or]
        exact ⟨hw0, by rw [List.length_append]; omega⟩
      rw [if_neg c0, ← hbl, List.drop_left, ihr]
      dsimp only
      by_cases ht : x.atype = Facts.atMac
      · obtain ⟨hz, v, hv, rfl⟩ := akaZeroIfMac_mac hx ht
        have hbody : body = put16 0 ++ v := by
          have := (parse_marshal_fixed16 Facts.atMac v [] (Or.inr (Or.inr rfl)) hv).1
          rw [this] at hm
          simpa using hm.symm
        subst hbody
        dsimp only
        rw [if_pos (by decide), if_neg (by decide)]
        rw [List.map_cons, hz, marshalAkaAttrs]
        simp [akaZeroMacAttr, marshalAkaAttr, Facts.atMac, Facts.atKdf, Facts.atRes, Facts.atKdfInput, put16]
      · have c1 : ¬ (x.atype == 11) = true := by
          intro h; apply ht; simpa [Facts.atMac] using h
        rw [if_neg c1, List.take_left, List.map_cons, akaZeroIfMac_other ht, marshalAkaAttrs, hm]
        have : (x.atype == Facts.atMac) = false := by simpa using ht
        simp [this]

/-- `Spec.zeroMac` of the wire form of a built packet that carries AT_MAC is the wire form of
the packet with AT_MAC := 0¹⁶ -/
theorem zeroMac_wire (code ident : UInt8) (a : Aka) (hb : AkaBuilt a)
    (hm : ∃ x ∈ a.attrs, x.atype = Facts.atMac) :
    Spec.zeroMac (eapAkaWire code ident a) = some (eapAkaWire code ident (akaZeroMac a)) := by
  obtain ⟨h0, hs, hall⟩ := hb
  have hsz := akaBuilt_size ⟨h0, hs, hall⟩
  simp only [eapDataSize] at hsz
  have hmap := akaZeroIfMac_map_eq_insert a.attrs hs hall hm
  have hlen := marshalAkaAttrs_zeroIfMac_length a.attrs hall
  have hge := marshalAkaAttrs_length_ge a.attrs hall
  have hany : a.attrs.any (fun x => x.atype == Facts.atMac) = true := by
    obtain ⟨x, hx, hxm⟩ := hm
    rw [List.any_eq_true]
    exact ⟨x, hx, by simpa using hxm⟩
  have hl : (UInt16.ofNat (4 + (4 + (marshalAkaAttrs a.attrs).length))).toNat
      = 4 + (4 + (marshalAkaAttrs a.attrs).length) := ofNat_toNat_u16 _ (by omega)
  unfold akaZeroMac
  unfold eapAkaWire
  dsimp only
  rw [← hmap, hlen]
  generalize UInt16.ofNat (4 + (4 + (marshalAkaAttrs a.attrs).length)) = pl at *
  have hwl : ([code, ident] ++ put16 pl ++ ([Facts.eapTypeAkaPrime, a.subtype] ++ put16 a.reserved ++
      marshalAkaAttrs a.attrs)).length = 8 + (marshalAkaAttrs a.attrs).length := by simp; omega
  unfold Spec.zeroMac
  rw [if_neg (by rw [hwl]; omega)]
  have hb2 : (byteAt ([code, ident] ++ put16 pl ++ ([Facts.eapTypeAkaPrime, a.subtype] ++ put16 a.reserved ++
      marshalAkaAttrs a.attrs)) 2).toNat * 256 + (byteAt ([code, ident] ++ put16 pl ++
      ([Facts.eapTypeAkaPrime, a.subtype] ++ put16 a.reserved ++ marshalAkaAttrs a.attrs)) 3).toNat =
      pl.toNat := by
    have := pl.toNat_lt
    simp [put16, UInt8.toNat_ofNat']
    omega
  rw [hb2, hwl, if_neg (by omega)]
  have hb4 : byteAt ([code, ident] ++ put16 pl ++ ([Facts.eapTypeAkaPrime, a.subtype] ++ put16 a.reserved ++
      marshalAkaAttrs a.attrs)) 4 = 50 := by simp [put16, Facts.eapTypeAkaPrime]
  rw [if_neg (by rw [hb4]; simp)]
  have hdrop : List.drop 8 ([code, ident] ++ put16 pl ++ ([Facts.eapTypeAkaPrime, a.subtype] ++ put16 a.reserved ++
      marshalAkaAttrs a.attrs)) = marshalAkaAttrs a.attrs := by simp [put16]
  have htake : List.take 8 ([code, ident] ++ put16 pl ++ ([Facts.eapTypeAkaPrime, a.subtype] ++ put16 a.reserved ++
      marshalAkaAttrs a.attrs)) = [code, ident] ++ put16 pl ++ ([Facts.eapTypeAkaPrime, a.subtype] ++ put16 a.reserved) := by
    simp [put16]
  rw [hdrop, htake, zeroMacAttrs_marshal _ hall _ (by omega), hany]
  simp

end Ike
