import IkeProofs.Lemmas.NoFault

/-!
# Iteration counters for every loop of the decoders

The model's decoders are total functions, so each of them terminates; this file
makes the *amount* of work explicit.  For every recursion of the model that
stands for a loop of the Go code there is a counter with the same recursion
structure and the same guards as the decoder; it counts **executions of the loop
body that are started** (an iteration that ends in `return err` is counted, the
final test of the loop condition that leaves the loop is not).

| counter          | model recursion        | Go loop                                                            |
|------------------|------------------------|--------------------------------------------------------------------|
| `chainIters`     | `decodeChain`          | `message.go` `IKEPayloadContainer.Decode`: `for len(b) > 0`          |
| `propIters`      | `unmarshalProposals`   | `payload_securityassociation.go` `Unmarshal`: `for len(b) > 0`       |
| `transIters`     | `unmarshalTransforms`  | same file, inner `for len(transformData) > 0`                      |
| `cpIters`        | `unmarshalCPAttrs`     | `payload_configuration.go`: `for len(configurationAttributeData) > 0` |
| `tsIters`        | `unmarshalTSels`       | `payload_trafficselector*.go`: `for ; numberOfSPI > 0; numberOfSPI--` |
| `deleteIters`    | `deleteSPIs`           | `payload_delete.go`: `for i := 0; i < 4*int(numberOfSPI); i += 4`     |
| `akaIters`       | `unmarshalAkaAttrs`    | `eap_aka_prime.go` `Unmarshal`: `for { ReadByte … }`                  |
| `cbcBlocks`      | `cbcDec`               | `CryptBlocks` called by `encr_aes_cbc.go` `Decrypt`                  |
| `lastSKIters`    | `lastSK`               | `ike.go` `decryptMsg`: `for _, ikePayload := range ikeMsg.Payloads`   |

`saWork`, `payloadIters`, `chainWork`, `msgWork`, `decryptWork`, `unprotectWork`
add the nested loops to the loop that contains them.

Each counter is tied to its decoder by a lemma `…_tie`: when the decoder
succeeds the counter equals (or bounds from above) the number of items decoded,
so a counter cannot be smaller than the output it accounts for.

Loops that are *not* counted: per-octet work inside one iteration (`copy`,
`append`, `xorBytes`, the big-endian reads — all on a sub-slice of the octets the
iteration consumes), the hash over the datagram inside `calcIntegrity` and the
block function inside one CBC block (both are the opaque primitives `P`), and
`akaInsert`, which stands for one Go map assignment.
-/

set_option linter.unusedVariables false

namespace Ike

/-! ## definitions -/

/-- CP attribute loop: same guards as `unmarshalCPAttrs` -/
def cpIters (d : Bytes) : Nat :=
  if h0 : d.length = 0 then 0 else
  if d.length < 4 then 1 else
  match parseCPAttr d with
  | .ok (a, n) => if hn : 0 < n ∧ n ≤ d.length then 1 + cpIters (d.drop n) else 1
  | .err => 1
  | .fault => 1
termination_by d.length
decreasing_by simp only [List.length_drop]; omega

/-- loops inside `unmarshalCP b` -/
def cpBodyIters (b : Bytes) : Nat :=
  if b.length ≤ 4 then 0 else cpIters (b.drop 4)

/-- traffic-selector loop: same guards as `unmarshalTSels` -/
def tsIters : Nat → Bytes → Nat
  | 0, _ => 0
  | n + 1, b =>
    if b.length < 4 then 1 else
    match parseTSel b with
    | .ok (t, k) => if k ≤ b.length then 1 + tsIters n (b.drop k) else 1
    | .err => 1
    | .fault => 1

/-- loops inside `unmarshalTS mk b` -/
def tsBodyIters (b : Bytes) : Nat :=
  if b.length = 0 then 0 else
  if b.length < 4 then 0 else tsIters (byteAt b 0).toNat (b.drop 4)

/-- Delete SPI loop: same patterns as `deleteSPIs` -/
def deleteIters : Nat → Bytes → Nat
  | 0, _ => 0
  | n + 1, b0 :: b1 :: b2 :: b3 :: rest => 1 + deleteIters n rest
  | _ + 1, _ => 1

/-- loops inside `unmarshalDelete b` (same guards) -/
def deleteBodyIters (b : Bytes) : Nat :=
  if b.length = 0 then 0 else
  if b.length ≤ 3 then 0 else
  let spiSize := byteAt b 1
  let num := be16 (byteAt b 2) (byteAt b 3)
  if b.length < 4 + spiSize.toNat * num.toNat then 0 else
  if num.toNat > 0 && spiSize != 4 then 0 else deleteIters num.toNat (b.drop 4)

/-- transform loop: same guards as `unmarshalTransforms` -/
def transIters (td : Bytes) : Nat :=
  if h0 : td.length = 0 then 0 else
  if td.length < 8 then 1 else
  match parseTransform td with
  | .ok (t, n) => if hn : 0 < n ∧ n ≤ td.length then 1 + transIters (td.drop n) else 1
  | .err => 1
  | .fault => 1
termination_by td.length
decreasing_by simp only [List.length_drop]; omega

/-- the transform data `parseProposal b` hands to `unmarshalTransforms`
(`none` when one of its guards returns before that) -/
def proposalTd (b : Bytes) : Option Bytes :=
  let pl := be16 (byteAt b 2) (byteAt b 3)
  if pl < 8 then none else
  if b.length < pl.toNat then none else
  let spiSize := (byteAt b 6).toNat
  if spiSize > 0 ∧ pl.toNat < 8 + spiSize then none
  else some ((b.take pl.toNat).drop (8 + spiSize))

/-- iterations of the transform loop run by one `parseProposal b` (`b` ≥ 8 octets) -/
def propNested (b : Bytes) : Nat :=
  match proposalTd b with
  | some td => transIters td
  | none => 0

/-- proposal loop, same guards as `unmarshalProposals`; every iteration that
reaches `parseProposal` is charged `1 + w b` (`w` = cost of what is nested in it) -/
def propCount (w : Bytes → Nat) (b : Bytes) : Nat :=
  if h0 : b.length = 0 then 0 else
  if b.length < 8 then 1 else
  match parseProposal b with
  | .ok (p, n) => if hn : 0 < n ∧ n ≤ b.length then 1 + w b + propCount w (b.drop n) else 1 + w b
  | .err => 1 + w b
  | .fault => 1 + w b
termination_by b.length
decreasing_by simp only [List.length_drop]; omega

/-- iterations of the proposal loop alone -/
def propIters (b : Bytes) : Nat := propCount (fun _ => 0) b

/-- all loop iterations inside `unmarshalSA b`: proposal loop plus every transform loop -/
def saWork (b : Bytes) : Nat := propCount propNested b

/-- EAP-AKA' attribute loop: same patterns and guards as `unmarshalAkaAttrs` -/
def akaIters (r : Bytes) : Nat :=
  match h : r with
  | [] => 0
  | [_] => 0
  | t :: len :: body =>
    match parseAkaBody t len body with
    | .ok (a, n) => if hn : n ≤ body.length then 1 + akaIters (body.drop n) else 1
    | .err => 1
    | .fault => 1
termination_by r.length
decreasing_by subst h; simp only [List.length_drop, List.length_cons]; omega

/-- loops inside `unmarshalAka raw` -/
def akaBodyIters (raw : Bytes) : Nat :=
  if raw.length < 4 then 0 else
  if byteAt raw 0 != Facts.eapTypeAkaPrime then 0 else akaIters (raw.drop 4)

/-- loops inside `unmarshalEap b` (same guards and dispatch order) -/
def eapBodyIters (b : Bytes) : Nat :=
  if b.length = 0 then 0 else
  if b.length < 4 then 0 else
  let pl := be16 (byteAt b 2) (byteAt b 3)
  if pl < 4 then 0 else
  if b.length ≠ pl.toNat then 0 else
  if pl == 4 then 0 else
  let ty := byteAt b 4
  if ty == Facts.eapTypeIdentity then 0
  else if ty == Facts.eapTypeNotification then 0
  else if ty == Facts.eapTypeNak then 0
  else if ty == Facts.eapTypeAkaPrime then akaBodyIters (b.drop 4)
  else 0

/-- all loop iterations inside `unmarshalPayload t nx body` (dispatch in the same order) -/
def payloadIters (t : UInt8) (body : Bytes) : Nat :=
  if t == Facts.typeSA then saWork body
  else if t == Facts.typeKE then 0
  else if t == Facts.typeIDi then 0
  else if t == Facts.typeIDr then 0
  else if t == Facts.typeCERT then 0
  else if t == Facts.typeCERTreq then 0
  else if t == Facts.typeAUTH then 0
  else if t == Facts.typeNiNr then 0
  else if t == Facts.typeN then 0
  else if t == Facts.typeD then deleteBodyIters body
  else if t == Facts.typeV then 0
  else if t == Facts.typeTSi then tsBodyIters body
  else if t == Facts.typeTSr then tsBodyIters body
  else if t == Facts.typeSK then 0
  else if t == Facts.typeCP then cpBodyIters body
  else if t == Facts.typeEAP then eapBodyIters body
  else 0

/-- the payload body `chainStep t b` hands to `unmarshalPayload`
(`none` when one of its guards returns before that, or the type is skipped) -/
def chainBody (t : UInt8) (b : Bytes) : Option Bytes :=
  if b.length < 4 then none else
  let pl := be16 (byteAt b 2) (byteAt b 3)
  if pl < 4 then none else
  if b.length < pl.toNat then none else
  if knownType t then
    if t == Facts.typeSK && b.length ≠ pl.toNat then none
    else some ((b.take pl.toNat).drop 4)
  else none

/-- nested loop iterations run by one `chainStep t b` -/
def chainNested (t : UInt8) (b : Bytes) : Nat :=
  match chainBody t b with
  | some body => payloadIters t body
  | none => 0

/-- payload-chain loop, same guards as `decodeChain`; every iteration is charged
`1 + w t b` -/
def chainCount (w : UInt8 → Bytes → Nat) (t : UInt8) (b : Bytes) : Nat :=
  if h0 : b.length = 0 then 0 else
  match chainStep t b with
  | .ok (op, next, n) =>
    if hn : 0 < n ∧ n ≤ b.length then 1 + w t b + chainCount w next (b.drop n) else 1 + w t b
  | .err => 1 + w t b
  | .fault => 1 + w t b
termination_by b.length
decreasing_by simp only [List.length_drop]; omega

/-- iterations of the payload-chain loop alone -/
def chainIters (t : UInt8) (b : Bytes) : Nat := chainCount (fun _ _ => 0) t b

/-- all loop iterations of `decodeChain t b`: the chain loop and every loop nested in a payload body -/
def chainWork (t : UInt8) (b : Bytes) : Nat := chainCount chainNested t b

/-- all loop iterations of `decodeMsg b` (`parseHeader` has no loop) -/
def msgWork (b : Bytes) : Nat :=
  match parseHeader b with
  | .ok h => chainWork h.next h.payloadBytes
  | .err => 0
  | .fault => 0

/-- CBC blocks: same recursion as `cbcDec` -/
def cbcBlocks (ct : Bytes) : Nat :=
  if _h : ct.length < 16 then 0 else 1 + cbcBlocks (ct.drop 16)
termination_by ct.length
decreasing_by simp only [List.length_drop]; omega

/-- block iterations of `cbcDecrypt P c ct` (same guards) -/
def cbcDecryptBlocks (ct : Bytes) : Nat :=
  if ct.length < 16 then 0 else
  let em := ct.drop 16
  if em.length = 0 || em.length % 16 ≠ 0 then 0 else cbcBlocks em

/-- payload scan of `decryptMsg`: same patterns as `lastSK` -/
def lastSKIters : List Payload → Nat
  | [] => 0
  | .sk _ _ :: rest => 1 + lastSKIters rest
  | _ :: _ => 1

/-- all loop iterations of `decryptMsg P sa role msg m` (same guards): payload scan,
CBC blocks, and decoding of the decrypted chain -/
def decryptWork (P : Prims) (sa : SAKey) (role : Bool) (msg : Bytes) (m : Msg) : Nat :=
  lastSKIters m.payloads +
  match lastSK m.payloads none with
  | .err => 0
  | .fault => 0
  | .ok none => 0
  | .ok (some (next, encData)) =>
    let cl := sa.integInfo.outLen
    if encData.length < cl then 0 else
    if msg.length < cl then 0 else
    let checksum := encData.drop (encData.length - cl)
    let signed := msg.take (msg.length - cl)
    match calcIntegrity P sa (!role) signed with
    | (sa1, .err) => 0
    | (sa1, .fault) => 0
    | (sa1, .ok expect) =>
      if !(bytesEq checksum expect) then 0 else
      let ct := encData.take (encData.length - cl)
      cbcDecryptBlocks ct +
      match decryptPayload P sa1 role ct with
      | .err => 0
      | .fault => 0
      | .ok plain => chainWork next plain

/-- the message `unprotect` decodes first and the loop iterations spent on it -/
def unprotectPhase1 (hdr : Option Header) (msg : Bytes) : Res Msg × Nat :=
  match hdr with
  | none => (decodeMsg msg, msgWork msg)
  | some h =>
    match goFrom msg Facts.ikeHeaderLen with
    | .ok body => ((do let ps ← decodeChain h.next body; .ok ⟨h, ps⟩), chainWork h.next body)
    | .err => (.err, 0)
    | .fault => (.fault, 0)

/-- all loop iterations of `unprotect P sa role hdr msg` (same case analysis) -/
def unprotectWork (P : Prims) (sa : Option SAKey) (role : Bool) (hdr : Option Header) (msg : Bytes) : Nat :=
  let (decoded, w) := unprotectPhase1 hdr msg
  match decoded with
  | .err => w
  | .fault => w
  | .ok m =>
    match m.payloads with
    | [] => w
    | p :: _ =>
      if p.typeCode == Facts.typeSK then
        match sa with
        | none => w
        | some k => w + decryptWork P k role msg m
      else w

/-! ## Configuration attributes -/

theorem steps_parseCPAttr_len (d : Bytes) (h : 4 ≤ d.length) (a : CPAttr) (n : Nat)
    (hp : parseCPAttr d = .ok (a, n)) : 4 ≤ n ∧ n ≤ d.length := by
  unfold parseCPAttr at hp
  revert hp
  go_steps
  split
  · simp
  · go_steps
    intro hp
    simp at hp
    omega

/-- every started iteration of the attribute loop needs at least one octet, every
completed one consumes at least the 4-octet attribute header -/
theorem cpIters_le (d : Bytes) : 4 * cpIters d ≤ d.length + 3 := by
  fun_induction cpIters d with
  | case1 d h0 => omega
  | case2 d h0 h4 => omega
  | case3 d h0 h4 a n hp hn ih =>
    have := steps_parseCPAttr_len d (by omega) a n hp
    simp only [List.length_drop] at ih
    omega
  | case4 d h0 h4 a n hp hn => omega
  | case5 d h0 h4 hp => omega
  | case6 d h0 h4 hp => omega

/-- tie: on success the loop ran exactly once per decoded attribute -/
theorem cpIters_tie (d : Bytes) (l : List CPAttr) (h : unmarshalCPAttrs d = .ok l) :
    cpIters d = l.length := by
  fun_induction unmarshalCPAttrs d generalizing l with
  | case1 d h0 => unfold cpIters; simp at h; subst h; simp [h0]
  | case2 d h0 h4 => simp at h
  | case3 d h0 h4 a n hp hn rest hrest ih =>
    unfold cpIters
    simp at h; subst h
    simp only [h0, h4, hp, hn, dite_true, dite_false, if_false, and_self, ih rest hrest, List.length_cons]
    omega
  | case4 => simp at h
  | case5 => simp at h
  | case6 => simp at h
  | case7 => simp at h
  | case8 => simp at h

theorem cpBodyIters_le (b : Bytes) : 4 * cpBodyIters b ≤ b.length := by
  unfold cpBodyIters
  split
  · omega
  · have := cpIters_le (b.drop 4)
    simp only [List.length_drop] at this
    omega

/-! ## Traffic selectors -/

theorem steps_parseTSel_len (b : Bytes) (h : 4 ≤ b.length) (t : TSel) (k : Nat)
    (hp : parseTSel b = .ok (t, k)) : 16 ≤ k ∧ k ≤ b.length := by
  unfold parseTSel at hp
  revert hp
  go_steps
  split
  · go_steps
    split
    · simp
    · split
      · simp
      · rename_i h1 h2
        simp at h1
        have : (16 : UInt16).toNat = 16 := rfl
        rw [h1] at h2
        go_steps
        intro hp; simp at hp; omega
  · split
    · go_steps
      split
      · simp
      · split
        · simp
        · rename_i h1 h2
          simp at h1
          have : (40 : UInt16).toNat = 40 := rfl
          rw [h1] at h2
          go_steps
          intro hp; simp at hp; omega
    · simp

/-- the selector loop runs at most `n` times (its counter) … -/
theorem tsIters_le_n (n : Nat) (b : Bytes) : tsIters n b ≤ n := by
  induction n generalizing b with
  | zero => simp [tsIters]
  | succ n ih =>
    unfold tsIters
    split
    · omega
    · split
      · split
        · have := ih (List.drop ‹Nat› b); omega
        · omega
      · omega
      · omega

/-- … and every completed iteration consumes at least 16 octets (the `+ 16`: with a
positive count the body is entered once even when no octet is left, and returns an error) -/
theorem tsIters_le (n : Nat) (b : Bytes) : 16 * tsIters n b ≤ b.length + 16 := by
  induction n generalizing b with
  | zero => simp [tsIters]
  | succ n ih =>
    unfold tsIters
    split
    · omega
    · rename_i h4
      split
      · rename_i t k hp
        have hk := steps_parseTSel_len b (by omega) t k hp
        split
        · have := ih (List.drop k b)
          simp only [List.length_drop] at this
          omega
        · omega
      · omega
      · omega

/-- tie: on success the loop ran exactly once per decoded selector -/
theorem tsIters_tie (n : Nat) (b : Bytes) (l : List TSel) (h : unmarshalTSels n b = .ok l) :
    tsIters n b = l.length := by
  induction n generalizing b l with
  | zero => simp [unmarshalTSels] at h; subst h; simp [tsIters]
  | succ n ih =>
    unfold unmarshalTSels at h
    unfold tsIters
    split at h
    · simp at h
    · rename_i h4
      rw [if_neg h4]
      cases hp : parseTSel b with
      | ok tk =>
        obtain ⟨t, k⟩ := tk
        rw [hp] at h
        simp only at h ⊢
        split at h
        · rename_i hk
          rw [if_pos hk]
          cases hr : unmarshalTSels n (List.drop k b) with
          | ok rest =>
            rw [hr] at h; simp at h; subst h
            rw [ih _ _ hr]; simp; omega
          | err => rw [hr] at h; simp at h
          | fault => rw [hr] at h; simp at h
        · simp at h
      | err => rw [hp] at h; simp at h
      | fault => rw [hp] at h; simp at h

theorem tsBodyIters_le (b : Bytes) : 16 * tsBodyIters b ≤ b.length + 12 ∧ tsBodyIters b ≤ 255 := by
  unfold tsBodyIters
  split
  · omega
  · split
    · omega
    · have h1 := tsIters_le (byteAt b 0).toNat (b.drop 4)
      have h2 := tsIters_le_n (byteAt b 0).toNat (b.drop 4)
      have h3 := (byteAt b 0).toNat_lt
      simp only [List.length_drop] at h1
      omega

/-! ## Delete -/

theorem deleteIters_le_n (n : Nat) (b : Bytes) : deleteIters n b ≤ n := by
  fun_induction deleteIters n b with
  | case1 => omega
  | case2 n b0 b1 b2 b3 rest ih => omega
  | case3 => omega

/-- every completed iteration of the SPI loop reads 4 further octets -/
theorem deleteIters_le (n : Nat) (b : Bytes) : 4 * deleteIters n b ≤ b.length + 4 := by
  fun_induction deleteIters n b with
  | case1 => omega
  | case2 n b0 b1 b2 b3 rest ih => simp only [List.length_cons]; omega
  | case3 => omega

/-- tie: on success the loop ran exactly once per decoded SPI -/
theorem deleteIters_tie (n : Nat) (b : Bytes) (l : List UInt32) (h : deleteSPIs n b = .ok l) :
    deleteIters n b = l.length := by
  fun_induction deleteSPIs n b generalizing l with
  | case1 => simp at h; subst h; simp [deleteIters]
  | case2 n b0 b1 b2 b3 rest l' hl ih =>
    simp at h; subst h
    simp [deleteIters, ih l' hl]; omega
  | case3 => simp at h
  | case4 => simp at h
  | case5 => simp at h

theorem deleteBodyIters_le (b : Bytes) : 4 * deleteBodyIters b + 4 ≤ b.length ∨ deleteBodyIters b = 0 := by
  unfold deleteBodyIters
  split
  · simp
  · split
    · simp
    · simp only
      split
      · simp
      · rename_i hlen
        split
        · simp
        · rename_i hs
          have hn := deleteIters_le_n (be16 (byteAt b 2) (byteAt b 3)).toNat (b.drop 4)
          by_cases h0 : (be16 (byteAt b 2) (byteAt b 3)).toNat = 0
          · right; rw [h0]; simp [deleteIters]
          · left
            simp at hs
            have h4 := hs (by omega)
            have e4 : (4 : UInt8).toNat = 4 := rfl
            rw [h4, e4] at hlen
            omega

/-! ## Security Association: transforms and proposals -/

theorem steps_parseTransform_len (td : Bytes) (h : 8 ≤ td.length) (t : Transform) (n : Nat)
    (hp : parseTransform td = .ok (t, n)) : 8 ≤ n ∧ n ≤ td.length := by
  unfold parseTransform at hp
  revert hp
  go_steps
  split
  · simp
  · rename_i h8
    have h8' := u16_lt_toNat h8
    have e8 : (8 : UInt16).toNat = 8 := rfl
    split
    · simp
    · rename_i hl
      go_steps
      split
      · split
        · simp
        · rename_i h12
          have h12' := u16_lt_toNat h12
          have e12 : (12 : UInt16).toNat = 12 := rfl
          go_steps
          split
          · go_steps
            split
            · simp
            · go_steps; intro hp; simp at hp; omega
          · go_steps; intro hp; simp at hp; omega
      · intro hp; simp at hp; omega

/-- every started iteration of the transform loop needs at least one octet, every
completed one consumes at least the 8-octet transform header -/
theorem transIters_le (td : Bytes) : 8 * transIters td ≤ td.length + 7 := by
  fun_induction transIters td with
  | case1 td h0 => omega
  | case2 td h0 h8 => omega
  | case3 td h0 h8 t n hp hn ih =>
    have := steps_parseTransform_len td (by omega) t n hp
    simp only [List.length_drop] at ih
    omega
  | case4 td h0 h8 t n hp hn => omega
  | case5 td h0 h8 hp => omega
  | case6 td h0 h8 hp => omega

theorem steps_file_transforms_length (p : Proposal) (t : Transform) :
    (p.file t).transforms.length ≤ p.transforms.length + 1 := by
  unfold Proposal.file Proposal.transforms
  repeat' split
  all_goals simp only [List.length_append, List.length_cons, List.length_nil]
  all_goals omega

/-- tie: on success every transform filed in the proposal was produced by one iteration
(transforms of a type outside 1..5 are decoded and dropped, hence `≤`) -/
theorem transIters_tie (td : Bytes) (p q : Proposal) (h : unmarshalTransforms td p = .ok q) :
    q.transforms.length ≤ p.transforms.length + transIters td := by
  fun_induction unmarshalTransforms td p with
  | case1 td p h0 => simp at h; subst h; omega
  | case2 td p h0 h8 => simp at h
  | case3 td p h0 h8 t n hp hn ih =>
    have := ih h
    have hf := steps_file_transforms_length p t
    rw [transIters]
    simp only [h0, h8, hp, hn, dite_true, dite_false, if_false, and_self]
    omega
  | case4 td p h0 h8 t n hp hn => simp at h
  | case5 => simp at h
  | case6 => simp at h

/-- what a successful `parseProposal` did: it consumed the declared length `n ≥ 8`, and ran
the transform loop on `proposalTd b`, starting from a proposal without transforms -/
theorem steps_parseProposal_td (b : Bytes) (h : 8 ≤ b.length) (p : Proposal) (n : Nat)
    (hp : parseProposal b = .ok (p, n)) :
    n = (be16 (byteAt b 2) (byteAt b 3)).toNat ∧ 8 ≤ n ∧ n ≤ b.length ∧
    ∃ td p0, proposalTd b = some td ∧ p0.transforms = [] ∧ unmarshalTransforms td p0 = .ok p := by
  unfold parseProposal at hp
  revert hp
  go_steps
  split
  · simp
  · rename_i h8
    have h8' := u16_lt_toNat h8
    have e8 : (8 : UInt16).toNat = 8 := rfl
    split
    · simp
    · rename_i hl
      go_steps
      split
      · rename_i hs
        split
        · simp
        · rename_i hspi
          go_steps
          cases hu : unmarshalTransforms _ _ with
          | ok p' =>
            simp only [Res.bind_ok, Res.ok.injEq, Prod.mk.injEq]
            rintro ⟨rfl, rfl⟩
            refine ⟨rfl, by omega, by omega, _, _, ?_, ?_, hu⟩
            · unfold proposalTd
              simp only [h8, hl, if_false]
              rw [if_neg (by omega)]
            · rfl
          | err => simp
          | fault => simp
      · rename_i hs
        have hz : (byteAt b 6).toNat = 0 := by omega
        simp only [hz, Nat.add_zero]
        go_steps
        cases hu : unmarshalTransforms _ _ with
        | ok p' =>
          simp only [Res.bind_ok, Res.ok.injEq, Prod.mk.injEq]
          rintro ⟨rfl, rfl⟩
          refine ⟨rfl, by omega, by omega, _, _, ?_, ?_, hu⟩
          · unfold proposalTd
            simp only [h8, hl, if_false, hz]
            rw [if_neg (by omega)]
          · rfl
        | err => simp
        | fault => simp

/-- the transform loop nested in one proposal iteration works on fewer than `pl - 8` octets,
`pl` being the declared proposal length, itself at most the remaining length -/
theorem propNested_le (b : Bytes) :
    propNested b = 0 ∨
    (8 * propNested b + 1 ≤ (be16 (byteAt b 2) (byteAt b 3)).toNat ∧
     (be16 (byteAt b 2) (byteAt b 3)).toNat ≤ b.length) := by
  unfold propNested proposalTd
  simp only
  split
  · rename_i td htd
    split at htd
    · simp at htd
    · rename_i h8
      have h8' := u16_lt_toNat h8
      have e8 : (8 : UInt16).toNat = 8 := rfl
      split at htd
      · simp at htd
      · rename_i hl
        split at htd
        · simp at htd
        · simp only [Option.some.injEq] at htd
          subst htd
          have := transIters_le (List.drop (8 + (byteAt b 6).toNat) (List.take (be16 (byteAt b 2) (byteAt b 3)).toNat b))
          simp only [List.length_drop, List.length_take] at this
          right
          omega
  · simp

/-- proposal loop alone: every completed iteration consumes at least 8 octets -/
theorem propIters_le (b : Bytes) : 8 * propIters b ≤ b.length + 7 := by
  unfold propIters
  fun_induction propCount (fun _ => 0) b with
  | case1 b h0 => omega
  | case2 b h0 h8 => omega
  | case3 b h0 h8 p n hp hn ih =>
    have := steps_parseProposal_td b (by omega) p n hp
    simp only [List.length_drop] at ih
    omega
  | case4 b h0 h8 p n hp hn => omega
  | case5 b h0 h8 hp => omega
  | case6 b h0 h8 hp => omega

/-- proposal loop plus all nested transform loops -/
theorem saWork_le (b : Bytes) : 4 * saWork b ≤ b.length + 3 := by
  unfold saWork
  fun_induction propCount propNested b with
  | case1 b h0 => omega
  | case2 b h0 h8 => omega
  | case3 b h0 h8 p n hp hn ih =>
    have := steps_parseProposal_td b (by omega) p n hp
    have hw := propNested_le b
    simp only [List.length_drop] at ih
    omega
  | case4 b h0 h8 p n hp hn => have hw := propNested_le b; omega
  | case5 b h0 h8 hp => have hw := propNested_le b; omega
  | case6 b h0 h8 hp => have hw := propNested_le b; omega

/-- tie: on success the proposal loop ran exactly once per decoded proposal -/
theorem propIters_tie (b : Bytes) (ps : List Proposal) (h : unmarshalProposals b = .ok ps) :
    propIters b = ps.length := by
  unfold propIters
  fun_induction unmarshalProposals b generalizing ps with
  | case1 b h0 => unfold propCount; simp at h; subst h; simp [h0]
  | case2 b h0 h8 => simp at h
  | case3 b h0 h8 p n hp hn rest hrest ih =>
    unfold propCount
    simp at h; subst h
    simp only [h0, h8, hp, hn, dite_true, dite_false, if_false, and_self, ih rest hrest, List.length_cons]
    omega
  | case4 => simp at h
  | case5 => simp at h
  | case6 => simp at h
  | case7 => simp at h
  | case8 => simp at h

/-- tie: on success `saWork` accounts for every proposal and every transform in the result -/
theorem saWork_tie (b : Bytes) (ps : List Proposal) (h : unmarshalProposals b = .ok ps) :
    ps.length + (ps.map (fun p => p.transforms.length)).sum ≤ saWork b := by
  unfold saWork
  fun_induction unmarshalProposals b generalizing ps with
  | case1 b h0 => simp at h; subst h; simp
  | case2 b h0 h8 => simp at h
  | case3 b h0 h8 p n hp hn rest hrest ih =>
    unfold propCount
    simp at h; subst h
    have ihr := ih rest hrest
    obtain ⟨_, _, _, td, p0, htd, hp0, hu⟩ := steps_parseProposal_td b (by omega) p n hp
    have ht := transIters_tie td p0 p hu
    have hn' : propNested b = transIters td := by unfold propNested; rw [htd]
    simp only [h0, h8, hp, hn, dite_true, dite_false, if_false, and_self, List.length_cons, List.map_cons,
      List.sum_cons]
    rw [hp0] at ht
    simp only [List.length_nil] at ht
    omega
  | case4 => simp at h
  | case5 => simp at h
  | case6 => simp at h
  | case7 => simp at h
  | case8 => simp at h

/-! ## EAP-AKA' attributes -/

theorem steps_parseAkaBody_len (t len : UInt8) (r : Bytes) (a : AkaAttr) (n : Nat)
    (hp : parseAkaBody t len r = .ok (a, n)) : 2 ≤ n ∧ n ≤ r.length := by
  unfold parseAkaBody at hp
  split at hp
  · split at hp
    · simp at hp
    · split at hp
      · simp at hp
      · rename_i rs r1 h1
        split at hp
        · simp at hp
        · rename_i v r2 h2
          have l1 := readN_len h1
          have l2 := readN_len h2
          simp at hp
          obtain ⟨_, rfl⟩ := hp
          obtain ⟨a1, a2, _⟩ := l1
          obtain ⟨b1, _, _⟩ := l2
          subst a2
          simp at b1
          omega
  · split at hp
    · split at hp
      · simp at hp
      · rename_i rs r1 h1
        have l1 := readN_len h1
        obtain ⟨a1, a2, _⟩ := l1
        subst a2
        simp only at hp
        split at hp
        · simp at hp
        · split at hp
          · simp at hp
          · rename_i v r2 h2
            have l2 := readN_len h2
            obtain ⟨b1, b2, _⟩ := l2
            subst b2
            simp at b1
            split at hp
            · split at hp
              · simp at hp
              · rename_i x h3
                obtain ⟨c1, _, _⟩ := readN_len h3
                simp at c1
                simp at hp
                obtain ⟨_, rfl⟩ := hp
                omega
            · simp at hp
              obtain ⟨_, rfl⟩ := hp
              omega
    · split at hp
      · dsimp only at hp
        split at hp
        · simp at hp
        · rename_i v r1 h1
          obtain ⟨a1, _, _⟩ := readN_len h1
          simp at hp
          obtain ⟨_, rfl⟩ := hp
          have hk : 2 ≤ (4 * len - 1 - 1).toNat := by
            have hl := len.toNat_lt
            simp only [UInt8.toNat_sub, UInt8.toNat_mul, UInt8.toNat_ofNat]
            omega
          omega
      · split at hp
        · simp at hp
        · split at hp
          · simp at hp
          · rename_i rs r1 h1
            obtain ⟨a1, a2, _⟩ := readN_len h1
            subst a2
            dsimp only at hp
            split at hp
            · simp at hp
            · rename_i v r2 h2
              obtain ⟨b1, _, _⟩ := readN_len h2
              simp at b1
              simp at hp
              obtain ⟨_, rfl⟩ := hp
              omega


theorem steps_akaInsert_length (l : List AkaAttr) (a : AkaAttr) : (akaInsert l a).length ≤ l.length + 1 := by
  induction l with
  | nil => simp [akaInsert]
  | cons x rest ih =>
    unfold akaInsert
    split
    · simp
    · split
      · simp
      · simp only [List.length_cons]; omega

/-- the loop stops when fewer than 2 octets remain; every completed iteration consumes the
type and length octets and at least 2 more -/
theorem akaIters_le (r : Bytes) : 4 * akaIters r ≤ r.length + 2 := by
  fun_induction akaIters r with
  | case1 => simp
  | case2 => simp
  | case3 t len body a n hp hn ih =>
    have := steps_parseAkaBody_len t len body a n hp
    simp only [List.length_drop, List.length_cons] at ih ⊢
    omega
  | case4 t len body a n hp hn => simp only [List.length_cons]; omega
  | case5 t len body hp => simp only [List.length_cons]; omega
  | case6 t len body hp => simp only [List.length_cons]; omega

/-- tie: on success every attribute in the map was stored by one iteration
(a repeated attribute type overwrites the earlier entry, hence `≤`) -/
theorem akaIters_tie (r : Bytes) (acc l : List AkaAttr) (h : unmarshalAkaAttrs r acc = .ok l) :
    l.length ≤ acc.length + akaIters r := by
  fun_induction unmarshalAkaAttrs r acc with
  | case1 acc => simp at h; subst h; omega
  | case2 acc x => simp at h; subst h; omega
  | case3 acc t len body a n hp hn ih =>
    have := ih h
    have hi := steps_akaInsert_length acc a
    rw [akaIters]
    simp only [hp, hn, dite_true]
    omega
  | case4 acc t len body a n hp hn => simp at h
  | case5 => simp at h
  | case6 => simp at h

theorem akaBodyIters_le (raw : Bytes) : 4 * akaBodyIters raw + 2 ≤ raw.length ∨ akaBodyIters raw = 0 := by
  unfold akaBodyIters
  split
  · simp
  · split
    · simp
    · have := akaIters_le (raw.drop 4)
      simp only [List.length_drop] at this
      left; omega

theorem eapBodyIters_le (b : Bytes) : 4 * eapBodyIters b + 6 ≤ b.length ∨ eapBodyIters b = 0 := by
  unfold eapBodyIters
  simp only
  repeat' split
  all_goals first
    | (right; rfl)
    | (have := akaBodyIters_le (b.drop 4)
       simp only [List.length_drop] at this
       omega)

/-! ## CBC -/

/-- the number of block iterations is exactly the number of whole 16-octet blocks -/
theorem cbcBlocks_eq (ct : Bytes) : cbcBlocks ct = ct.length / 16 := by
  fun_induction cbcBlocks ct with
  | case1 ct h => omega
  | case2 ct h ih => simp only [List.length_drop] at ih; omega

/-- tie: every block iteration emits one 16-octet block of output (for a block function
with 16-octet output, which `P.Lawful` provides) -/
theorem cbcBlocks_tie (D : Bytes → Bytes) (hD : ∀ b, b.length = 16 → (D b).length = 16)
    (prev ct : Bytes) (hp : prev.length = 16) :
    (cbcDec D prev ct).length = 16 * cbcBlocks ct := by
  fun_induction cbcDec D prev ct with
  | case1 prev ct h => unfold cbcBlocks; simp [h]
  | case2 prev ct h c ih =>
    have hc16 : c.length = 16 := by simp [c]; omega
    rw [cbcBlocks, dif_neg h, List.length_append, xorBytes_length, hD c hc16, ih hc16, hp]
    simp; omega

/-- without any assumption on the block function: the output is never longer than the input -/
theorem steps_cbcDec_length_le (D : Bytes → Bytes) (prev ct : Bytes) (hp : prev.length ≤ 16) :
    (cbcDec D prev ct).length ≤ ct.length := by
  fun_induction cbcDec D prev ct with
  | case1 prev ct h => simp
  | case2 prev ct h c ih =>
    have hc16 : c.length ≤ 16 := by simp [c]; omega
    have := ih hc16
    rw [List.length_append, xorBytes_length]
    simp only [List.length_drop] at this
    omega

theorem cbcDecryptBlocks_le (ct : Bytes) : 16 * cbcDecryptBlocks ct + 16 ≤ ct.length ∨ cbcDecryptBlocks ct = 0 := by
  unfold cbcDecryptBlocks
  split
  · simp
  · simp only
    split
    · simp
    · rw [cbcBlocks_eq]; simp only [List.length_drop]; left; omega

/-- the plaintext `cbcDecrypt` returns is shorter than the ciphertext by at least the IV -/
theorem steps_cbcDecrypt_length_le (P : Prims) (c : CipherObj) (ct pt : Bytes) (h : cbcDecrypt P c ct = .ok pt) :
    pt.length + 16 ≤ ct.length := by
  unfold cbcDecrypt at h
  revert h
  split
  · simp
  · go_steps
    split
    · simp
    · have hl := steps_cbcDec_length_le (P.dec c.key) (List.take 16 ct) (List.drop 16 ct) (by simp; omega)
      cases hi : goIndex _ _ with
      | ok last =>
        simp only [Res.bind_ok]
        split
        · simp
        · rename_i hpad
          rw [goTo_ok (by omega)]
          intro h; simp only [Res.ok.injEq] at h; subst h
          simp only [List.length_take, List.length_drop] at hl ⊢
          omega
      | err => simp
      | fault => simp

/-! ## payload bodies -/

/-- dispatch of `payloadIters` agrees with the dispatch of `unmarshalPayload` -/
theorem payloadIters_dispatch (nx : UInt8) (body : Bytes) :
    (unmarshalPayload Facts.typeSA nx body = unmarshalSA body ∧ payloadIters Facts.typeSA body = saWork body) ∧
    (unmarshalPayload Facts.typeD nx body = unmarshalDelete body ∧
      payloadIters Facts.typeD body = deleteBodyIters body) ∧
    (unmarshalPayload Facts.typeTSi nx body = unmarshalTS .tsi body ∧
      payloadIters Facts.typeTSi body = tsBodyIters body) ∧
    (unmarshalPayload Facts.typeTSr nx body = unmarshalTS .tsr body ∧
      payloadIters Facts.typeTSr body = tsBodyIters body) ∧
    (unmarshalPayload Facts.typeCP nx body = unmarshalCP body ∧ payloadIters Facts.typeCP body = cpBodyIters body) ∧
    (unmarshalPayload Facts.typeEAP nx body = (do let e ← unmarshalEap body; .ok (.eap e)) ∧
      payloadIters Facts.typeEAP body = eapBodyIters body) :=
  ⟨⟨rfl, rfl⟩, ⟨rfl, rfl⟩, ⟨rfl, rfl⟩, ⟨rfl, rfl⟩, ⟨rfl, rfl⟩, ⟨rfl, rfl⟩⟩

/-- the loops nested in any one payload body: at most one iteration per 4 octets of body
(the Security Association payload, with its two nesting levels, is the worst case) -/
theorem payloadIters_le (t : UInt8) (body : Bytes) : 4 * payloadIters t body ≤ body.length + 3 := by
  unfold payloadIters
  have h1 := saWork_le body
  have h2 := deleteBodyIters_le body
  have h3 := tsBodyIters_le body
  have h4 := cpBodyIters_le body
  have h5 := eapBodyIters_le body
  by_cases c0 : (t == Facts.typeSA) = true
  · rw [if_pos c0]; omega
  rw [if_neg c0]
  by_cases c1 : (t == Facts.typeKE) = true
  · rw [if_pos c1]; omega
  rw [if_neg c1]
  by_cases c2 : (t == Facts.typeIDi) = true
  · rw [if_pos c2]; omega
  rw [if_neg c2]
  by_cases c3 : (t == Facts.typeIDr) = true
  · rw [if_pos c3]; omega
  rw [if_neg c3]
  by_cases c4 : (t == Facts.typeCERT) = true
  · rw [if_pos c4]; omega
  rw [if_neg c4]
  by_cases c5 : (t == Facts.typeCERTreq) = true
  · rw [if_pos c5]; omega
  rw [if_neg c5]
  by_cases c6 : (t == Facts.typeAUTH) = true
  · rw [if_pos c6]; omega
  rw [if_neg c6]
  by_cases c7 : (t == Facts.typeNiNr) = true
  · rw [if_pos c7]; omega
  rw [if_neg c7]
  by_cases c8 : (t == Facts.typeN) = true
  · rw [if_pos c8]; omega
  rw [if_neg c8]
  by_cases c9 : (t == Facts.typeD) = true
  · rw [if_pos c9]; omega
  rw [if_neg c9]
  by_cases c10 : (t == Facts.typeV) = true
  · rw [if_pos c10]; omega
  rw [if_neg c10]
  by_cases c11 : (t == Facts.typeTSi) = true
  · rw [if_pos c11]; omega
  rw [if_neg c11]
  by_cases c12 : (t == Facts.typeTSr) = true
  · rw [if_pos c12]; omega
  rw [if_neg c12]
  by_cases c13 : (t == Facts.typeSK) = true
  · rw [if_pos c13]; omega
  rw [if_neg c13]
  by_cases c14 : (t == Facts.typeCP) = true
  · rw [if_pos c14]; omega
  rw [if_neg c14]
  by_cases c15 : (t == Facts.typeEAP) = true
  · rw [if_pos c15]; omega
  rw [if_neg c15]
  omega

/-! ## payload chain -/

/-- what a successful `chainStep` did: it consumed the declared payload length `n ≥ 4`, and
when it produced a payload it ran `unmarshalPayload` on `chainBody t b` (`n - 4` octets) -/
theorem steps_chainStep_body (t : UInt8) (b : Bytes) (op : Option Payload) (nx : UInt8) (n : Nat)
    (hp : chainStep t b = .ok (op, nx, n)) :
    n = (be16 (byteAt b 2) (byteAt b 3)).toNat ∧ 4 ≤ n ∧ n ≤ b.length ∧
    ∀ p, op = some p → ∃ body, chainBody t b = some body ∧ body.length + 4 = n ∧
      unmarshalPayload t nx body = .ok p := by
  unfold chainStep at hp
  revert hp
  split
  · simp
  · rename_i hlen
    go_steps
    split
    · simp
    · rename_i h4
      have h4' := u16_lt_toNat h4
      have e4 : (4 : UInt16).toNat = 4 := rfl
      split
      · simp
      · rename_i hl
        go_steps
        split
        · rename_i hk
          split
          · simp
          · rename_i hsk
            go_steps
            cases h : unmarshalPayload _ _ _ with
            | ok p =>
              simp only [Res.bind_ok, Res.ok.injEq, Prod.mk.injEq]
              rintro ⟨rfl, rfl, rfl⟩
              refine ⟨rfl, by omega, by omega, ?_⟩
              intro p' hp'
              simp only [Option.some.injEq] at hp'
              subst hp'
              refine ⟨_, ?_, ?_, h⟩
              · unfold chainBody
                simp only [hlen, h4, hl, hk, if_false, if_true]
                rw [if_neg hsk]
              · simp only [List.length_drop, List.length_take]; omega
            | err => simp
            | fault => simp
        · split
          · simp only [Res.ok.injEq, Prod.mk.injEq]
            rintro ⟨rfl, rfl, rfl⟩
            exact ⟨rfl, by omega, by omega, by simp⟩
          · simp

/-- the loops nested in one chain iteration work on `pl - 4` octets, `pl ≥ 4` being the
declared payload length, itself at most the remaining length -/
theorem chainNested_le (t : UInt8) (b : Bytes) :
    chainNested t b = 0 ∨
    (4 * chainNested t b + 1 ≤ (be16 (byteAt b 2) (byteAt b 3)).toNat ∧
     (be16 (byteAt b 2) (byteAt b 3)).toNat ≤ b.length) := by
  unfold chainNested
  split
  · rename_i body hb
    unfold chainBody at hb
    simp only at hb
    split at hb
    · simp at hb
    · split at hb
      · simp at hb
      · rename_i h4
        have h4' := u16_lt_toNat h4
        have e4 : (4 : UInt16).toNat = 4 := rfl
        split at hb
        · simp at hb
        · split at hb
          · split at hb
            · simp at hb
            · simp only [Option.some.injEq] at hb
              subst hb
              have := payloadIters_le t (List.drop 4 (List.take (be16 (byteAt b 2) (byteAt b 3)).toNat b))
              simp only [List.length_drop, List.length_take] at this
              right; omega
          · simp at hb
  · simp

/-- chain loop alone: every started iteration needs at least one octet, every completed
one consumes at least the 4-octet generic payload header -/
theorem chainIters_le (t : UInt8) (b : Bytes) : 4 * chainIters t b ≤ b.length + 3 := by
  unfold chainIters
  fun_induction chainCount (fun _ _ => 0) t b with
  | case1 t b h0 => omega
  | case2 t b h0 op nx n hp hn ih =>
    have := steps_chainStep_body t b op nx n hp
    simp only [List.length_drop] at ih
    omega
  | case3 t b h0 op nx n hp hn => omega
  | case4 t b h0 hp => omega
  | case5 t b h0 hp => omega

/-- chain loop plus everything nested in the payload bodies: at most one iteration per two octets -/
theorem chainWork_le (t : UInt8) (b : Bytes) : 2 * chainWork t b ≤ b.length + 1 := by
  unfold chainWork
  fun_induction chainCount chainNested t b with
  | case1 t b h0 => omega
  | case2 t b h0 op nx n hp hn ih =>
    have := steps_chainStep_body t b op nx n hp
    have hw := chainNested_le t b
    simp only [List.length_drop] at ih
    omega
  | case3 t b h0 op nx n hp hn => have hw := chainNested_le t b; omega
  | case4 t b h0 hp => have hw := chainNested_le t b; omega
  | case5 t b h0 hp => have hw := chainNested_le t b; omega

theorem chainCount_mono (w1 w2 : UInt8 → Bytes → Nat) (hw : ∀ t b, w1 t b ≤ w2 t b) (t : UInt8) (b : Bytes) :
    chainCount w1 t b ≤ chainCount w2 t b := by
  fun_induction chainCount w1 t b with
  | case1 t b h0 => omega
  | case2 t b h0 op nx n hp hn ih =>
    conv => rhs; rw [chainCount]
    simp only [h0, hp, hn, dite_true, dite_false, and_self]
    have := hw t b; omega
  | case3 t b h0 op nx n hp hn =>
    conv => rhs; rw [chainCount]
    simp only [h0, hp, hn, dite_false]
    have := hw t b; omega
  | case4 t b h0 hp =>
    conv => rhs; rw [chainCount]
    simp only [h0, hp, dite_false]
    have := hw t b; omega
  | case5 t b h0 hp =>
    conv => rhs; rw [chainCount]
    simp only [h0, hp, dite_false]
    have := hw t b; omega

theorem chainIters_le_chainWork (t : UInt8) (b : Bytes) : chainIters t b ≤ chainWork t b :=
  chainCount_mono _ _ (fun _ _ => Nat.zero_le _) t b

/-- tie: on success every payload in the result was produced by one iteration
(payloads of an unknown, non-critical type are skipped by an iteration, hence `≤`);
and then all iterations were completed ones, so the bound has no rounding -/
theorem chainIters_tie (t : UInt8) (b : Bytes) (ps : List Payload) (h : decodeChain t b = .ok ps) :
    ps.length ≤ chainIters t b ∧ 4 * chainIters t b ≤ b.length := by
  unfold chainIters
  fun_induction decodeChain t b generalizing ps with
  | case1 t b h0 => simp at h; subst h; unfold chainCount; simp [h0]
  | case2 t b h0 op nx n hp hn rest hrest ih =>
    simp at h; subst h
    have ihr := ih rest hrest
    have hb := steps_chainStep_body t b op nx n hp
    rw [chainCount]
    simp only [h0, hp, hn, dite_true, dite_false, and_self]
    simp only [List.length_drop] at ihr
    cases op with
    | none => simp only; omega
    | some p => simp only [List.length_cons]; omega
  | case3 => simp at h
  | case4 => simp at h
  | case5 => simp at h
  | case6 => simp at h
  | case7 => simp at h

/-- whole message: header (no loop) plus payload chain with everything nested -/
theorem msgWork_le (b : Bytes) : 2 * msgWork b ≤ b.length - 27 := by
  unfold msgWork
  cases hh : parseHeader b with
  | ok h =>
    simp only
    obtain ⟨e1, e2⟩ := parseHeader_payloadBytes _ _ hh
    have := chainWork_le h.next h.payloadBytes
    rw [e1] at this
    simp only [List.length_drop] at this
    rw [e1]
    omega
  | err => simp
  | fault => simp

/-! ## unprotection -/

theorem lastSKIters_le (ps : List Payload) : lastSKIters ps ≤ ps.length := by
  fun_induction lastSKIters ps with
  | case1 => simp
  | case2 n d rest ih => simp only [List.length_cons]; omega
  | case3 => simp only [List.length_cons]; omega

theorem steps_decryptPayload_length_le (P : Prims) (sa : SAKey) (role : Bool) (ct pt : Bytes)
    (h : decryptPayload P sa role ct = .ok pt) : pt.length + 16 ≤ ct.length := by
  unfold decryptPayload at h
  split at h <;> exact steps_cbcDecrypt_length_le P _ _ _ h

/-- loops of `decryptMsg`, when every Encrypted payload of `m` has at most `L - 4` octets of data:
the scan visits each payload once, CBC runs once per 16 octets of ciphertext, and the decrypted
chain (shorter than the ciphertext) costs at most one iteration per two octets -/
theorem decryptWork_le (P : Prims) (sa : SAKey) (role : Bool) (msg : Bytes) (m : Msg) (L : Nat)
    (hlen : ∀ k d, Payload.sk k d ∈ m.payloads → d.length + 4 ≤ L) :
    16 * decryptWork P sa role msg m ≤ 16 * m.payloads.length + 9 * L := by
  unfold decryptWork
  have hs := lastSKIters_le m.payloads
  cases hl : lastSK m.payloads none with
  | err => simp only; omega
  | fault => simp only; omega
  | ok o =>
    cases o with
    | none => simp only; omega
    | some x =>
      obtain ⟨next, encData⟩ := x
      simp only
      have hmem : Payload.sk next encData ∈ m.payloads := by
        cases lastSK_mem _ _ _ _ hl with
        | inl h => exact h
        | inr h => simp at h
      have hL := hlen _ _ hmem
      split
      · omega
      · split
        · omega
        · cases hc : calcIntegrity P sa (!role) (List.take (msg.length - sa.integInfo.outLen) msg) with
          | mk sa1 r =>
            cases r with
            | err => simp only; omega
            | fault => simp only; omega
            | ok expect =>
              simp only
              split
              · omega
              · have hb := cbcDecryptBlocks_le (List.take (encData.length - sa.integInfo.outLen) encData)
                simp only [List.length_take] at hb
                cases hd : decryptPayload P sa1 role (List.take (encData.length - sa.integInfo.outLen) encData) with
                | err => simp only; omega
                | fault => simp only; omega
                | ok plain =>
                  simp only
                  have hp := steps_decryptPayload_length_le P _ _ _ _ hd
                  simp only [List.length_take] at hp
                  have hw := chainWork_le next plain
                  omega

/-- tie: when `decryptMsg` succeeds, every payload of the message it returns was produced by
one of the counted iterations -/
theorem decryptWork_tie (P : Prims) (sa : SAKey) (role : Bool) (msg : Bytes) (m m' : Msg)
    (h : (decryptMsg P sa role msg m).2.2 = .ok m') : m'.payloads.length ≤ decryptWork P sa role msg m := by
  unfold decryptMsg at h
  unfold decryptWork
  cases hl : lastSK m.payloads none with
  | err => rw [hl] at h; simp at h
  | fault => rw [hl] at h; simp at h
  | ok o =>
    rw [hl] at h
    cases o with
    | none => simp at h
    | some x =>
      obtain ⟨next, encData⟩ := x
      simp only at h ⊢
      split at h
      · simp at h
      · rename_i h1
        rw [if_neg h1]
        split at h
        · simp at h
        · rename_i h2
          rw [if_neg h2]
          cases hc : calcIntegrity P sa (!role) (List.take (msg.length - sa.integInfo.outLen) msg) with
          | mk sa1 r =>
            rw [hc] at h
            cases r with
            | err => simp at h
            | fault => simp at h
            | ok expect =>
              simp only at h ⊢
              split at h
              · simp at h
              · rename_i h3
                rw [if_neg h3]
                cases hd : decryptPayload P sa1 role (List.take (encData.length - sa.integInfo.outLen) encData) with
                | err => rw [hd] at h; simp at h
                | fault => rw [hd] at h; simp at h
                | ok plain =>
                  rw [hd] at h
                  simp only at h ⊢
                  cases hch : decodeChain next plain with
                  | err => rw [hch] at h; simp at h
                  | fault => rw [hch] at h; simp at h
                  | ok ps =>
                    rw [hch] at h
                    simp only [Res.ok.injEq] at h
                    subst h
                    have := (chainIters_tie next plain ps hch).1
                    have := chainIters_le_chainWork next plain
                    simp only
                    omega

/-- tie: the first component is the message `unprotect` decodes before looking for an Encrypted payload -/
theorem unprotectDecoded_fst (hdr : Option Header) (msg : Bytes) :
    (unprotectPhase1 hdr msg).1 =
      (match hdr with
       | none => decodeMsg msg
       | some h => do
         let body ← goFrom msg Facts.ikeHeaderLen
         let ps ← decodeChain h.next body
         .ok ⟨h, ps⟩) := by
  unfold unprotectPhase1
  cases hdr with
  | none => rfl
  | some h => simp only; cases goFrom msg Facts.ikeHeaderLen <;> rfl

/-- first phase of `unprotect`: what it costs and what it guarantees about the decoded message -/
theorem unprotectDecoded_le (hdr : Option Header) (msg : Bytes) :
    2 * (unprotectPhase1 hdr msg).2 ≤ msg.length - 27 ∧
    ∀ m, (unprotectPhase1 hdr msg).1 = .ok m →
      4 * m.payloads.length ≤ msg.length - 28 ∧
      ∀ k d, Payload.sk k d ∈ m.payloads → d.length + 4 ≤ msg.length - 28 := by
  unfold unprotectPhase1
  cases hdr with
  | none =>
    simp only
    refine ⟨msgWork_le msg, ?_⟩
    intro m hd
    unfold decodeMsg at hd
    cases hh : parseHeader msg with
    | err => simp [hh] at hd
    | fault => simp [hh] at hd
    | ok h =>
      simp [hh] at hd
      cases hc : decodeChain h.next h.payloadBytes with
      | err => simp [hc] at hd
      | fault => simp [hc] at hd
      | ok ps =>
        simp [hc] at hd
        subst hd
        obtain ⟨e1, e2⟩ := parseHeader_payloadBytes _ _ hh
        have ht := chainIters_tie _ _ _ hc
        rw [e1] at ht
        simp only [List.length_drop] at ht
        refine ⟨by simp only; omega, ?_⟩
        intro k d hm
        have := decodeChain_sk_len _ _ _ hc k d hm
        rw [e1] at this
        simp only [List.length_drop] at this
        omega
  | some h =>
    simp only
    have e : Facts.ikeHeaderLen = 28 := rfl
    rw [e]
    by_cases h28 : 28 ≤ msg.length
    · rw [goFrom_ok h28]
      simp only
      have hw := chainWork_le h.next (List.drop 28 msg)
      simp only [List.length_drop] at hw
      refine ⟨by omega, ?_⟩
      intro m hd
      cases hc : decodeChain h.next (List.drop 28 msg) with
      | err => simp [hc] at hd
      | fault => simp [hc] at hd
      | ok ps =>
        simp [hc] at hd
        subst hd
        have ht := chainIters_tie _ _ _ hc
        simp only [List.length_drop] at ht
        refine ⟨by simp only; omega, ?_⟩
        intro k d hm
        have := decodeChain_sk_len _ _ _ hc k d hm
        simp only [List.length_drop] at this
        omega
    · have : goFrom msg 28 = .fault := by simp [goFrom, h28]
      rw [this]
      simp

/-- all loops of `unprotect`: decoding the datagram, scanning its payloads, CBC blocks,
decoding the decrypted chain -/
theorem unprotectWork_le (P : Prims) (sa : Option SAKey) (role : Bool) (hdr : Option Header) (msg : Bytes) :
    16 * unprotectWork P sa role hdr msg ≤ 21 * msg.length := by
  unfold unprotectWork
  obtain ⟨hw, hm⟩ := unprotectDecoded_le hdr msg
  cases hd : unprotectPhase1 hdr msg with
  | mk decoded w =>
    rw [hd] at hw hm
    simp only at hw hm ⊢
    cases decoded with
    | err => simp only; omega
    | fault => simp only; omega
    | ok m =>
      simp only
      obtain ⟨h1, h2⟩ := hm m rfl
      cases hps : m.payloads with
      | nil => simp only; omega
      | cons p rest =>
        simp only
        split
        · cases sa with
          | none => simp only; omega
          | some k =>
            simp only
            have := decryptWork_le P k role msg m (msg.length - 28) h2
            have hne : 1 ≤ m.payloads.length := by rw [hps]; simp
            omega
        · omega

/-! ## ties of the per-body counters (guards in front of the loops) -/

/-- tie: `cpBodyIters` follows the guards of `unmarshalCP` -/
theorem cpBodyIters_tie (b : Bytes) (ct : UInt8) (attrs : List CPAttr) (h : unmarshalCP b = .ok (.cp ct attrs)) :
    cpBodyIters b = attrs.length := by
  unfold unmarshalCP at h
  unfold cpBodyIters
  split at h
  · simp at h
  · rename_i h4
    rw [if_neg h4]
    revert h
    go_steps
    cases hu : unmarshalCPAttrs (List.drop 4 b) with
    | ok l =>
      simp only [Res.bind_ok, Res.ok.injEq, Payload.cp.injEq]
      rintro ⟨_, rfl⟩
      exact cpIters_tie _ _ hu
    | err => simp
    | fault => simp

/-- tie: `tsBodyIters` follows the guards of `unmarshalTS` -/
theorem tsBodyIters_tie (b : Bytes) (l : List TSel) (h : unmarshalTS .tsi b = .ok (.tsi l)) :
    tsBodyIters b = l.length := by
  unfold unmarshalTS at h
  unfold tsBodyIters
  split at h
  · rename_i h0
    simp only [Res.ok.injEq, Payload.tsi.injEq] at h
    subst h
    simp [h0]
  · rename_i h0
    rw [if_neg h0]
    split at h
    · simp at h
    · rename_i h4
      rw [if_neg h4]
      revert h
      go_steps
      cases hu : unmarshalTSels (byteAt b 0).toNat (List.drop 4 b) with
      | ok l' =>
        simp only [Res.bind_ok, Res.ok.injEq, Payload.tsi.injEq]
        rintro rfl
        exact tsIters_tie _ _ _ hu
      | err => simp
      | fault => simp

/-- tie: `deleteBodyIters` follows the guards of `unmarshalDelete` -/
theorem deleteBodyIters_tie (b : Bytes) (proto spiSize : UInt8) (num : UInt16) (spis : List UInt32)
    (h : unmarshalDelete b = .ok (.delete proto spiSize num spis)) : deleteBodyIters b = spis.length := by
  unfold unmarshalDelete at h
  unfold deleteBodyIters
  split at h
  · rename_i h0
    simp only [Res.ok.injEq, Payload.delete.injEq] at h
    obtain ⟨_, _, _, rfl⟩ := h
    simp [h0]
  · rename_i h0
    rw [if_neg h0]
    split at h
    · simp at h
    · rename_i h3
      rw [if_neg h3]
      revert h
      go_steps
      split
      · simp
      · split
        · simp
        · go_steps
          cases hu : deleteSPIs _ (List.drop 4 b) with
          | ok l' =>
            simp only [Res.bind_ok, Res.ok.injEq, Payload.delete.injEq]
            rintro ⟨_, _, _, rfl⟩
            exact deleteIters_tie _ _ _ hu
          | err => simp
          | fault => simp

end Ike
