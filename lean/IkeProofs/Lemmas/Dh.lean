import IkeProofs.Lemmas.Bytes
import IkeModel.Security.Dh
import IkeModel.Spec.Keys

/-! Lemmas for C09: square-and-multiply = modular power, minimal and
fixed-width big-endian encodings, left padding, and a total model of the
exponent-drawing loop `security.GenerateRandomNumber`. -/

namespace Ike

/-! ### `modPow` -/

/-- `big.Int.Exp` (right-to-left square-and-multiply) is the modular power, for
every base, exponent and modulus (for `m = 0` both sides are `b ^ e`, Lean's
`x % 0 = x`; Go's `Exp` with `m = 0` also returns `b ^ e`). -/
theorem modPow_eq (b e m : Nat) : modPow b e m = b ^ e % m := by
  fun_induction modPow b e m with
  | case1 b => simp
  | case2 b e h half hodd ih =>
    simp only [half] at *
    rw [ih, ← Nat.pow_mod]
    have he : e = 2 * (e / 2) + 1 := by omega
    conv => rhs; rw [he, Nat.pow_succ, Nat.pow_mul, Nat.mul_comm]
    rw [Nat.mul_mod_mod, Nat.mod_mul_mod, Nat.pow_two]
  | case3 b e h half hodd ih =>
    simp only [half] at *
    rw [ih, ← Nat.pow_mod]
    have he : e = 2 * (e / 2) := by omega
    conv => rhs; rw [he, Nat.pow_mul]
    rw [Nat.pow_two]

/-! ### big-endian encodings -/

theorem beNat_cons (x : UInt8) (v : Bytes) : beNat (x :: v) = x.toNat * 256 ^ v.length + beNat v := by
  have := beNat_append [x] v
  simpa [beNat] using this

theorem beNat_zeros (k : Nat) : beNat (zeros k) = 0 := by
  induction k with
  | zero => rfl
  | succ k ih =>
    have : zeros (k + 1) = (0 : UInt8) :: zeros k := by simp [zeros, List.replicate_succ]
    rw [this, beNat_cons, ih]; simp

theorem beNat_zeros_append (k : Nat) (v : Bytes) : beNat (zeros k ++ v) = beNat v := by
  rw [beNat_append, beNat_zeros]; simp

theorem beNat_lt (v : Bytes) : beNat v < 256 ^ v.length := by
  induction v with
  | nil => simp [beNat]
  | cons x xs ih =>
    rw [beNat_cons, List.length_cons, Nat.pow_succ]
    have hx := x.toNat_lt
    have : x.toNat * 256 ^ xs.length ≤ 255 * 256 ^ xs.length := Nat.mul_le_mul_right _ (by omega)
    omega

/-- big-endian decoding is injective on strings of one length -/
theorem beNat_inj (a b : Bytes) (hl : a.length = b.length) (h : beNat a = beNat b) : a = b := by
  induction a generalizing b with
  | nil => cases b with
    | nil => rfl
    | cons y ys => simp at hl
  | cons x xs ih =>
    cases b with
    | nil => simp at hl
    | cons y ys =>
      simp only [List.length_cons, Nat.add_right_cancel_iff] at hl
      rw [beNat_cons, beNat_cons, hl] at h
      have h1 := beNat_lt xs
      have h2 := beNat_lt ys
      rw [hl] at h1
      have hpos : 0 < 256 ^ ys.length := Nat.pow_pos (by omega)
      generalize 256 ^ ys.length = M at *
      have hxy : x.toNat = y.toNat := by
        have e1 : (x.toNat * M + beNat xs) / M = x.toNat := by
          rw [Nat.mul_comm, Nat.mul_add_div hpos, Nat.div_eq_of_lt h1]; simp
        have e2 : (y.toNat * M + beNat ys) / M = y.toNat := by
          rw [Nat.mul_comm, Nat.mul_add_div hpos, Nat.div_eq_of_lt h2]; simp
        rw [← e1, ← e2, h]
      rw [hxy] at h
      have hrest : beNat xs = beNat ys := by omega
      rw [UInt8.toNat_inj.mp hxy, ih ys hl hrest]

theorem natToBytes_length (L n : Nat) : (natToBytes L n).length = L := by simp [natToBytes]

theorem natToBytes_succ (L n : Nat) :
    natToBytes (L + 1) n = natToBytes L (n / 256) ++ [UInt8.ofNat (n % 256)] := by
  unfold natToBytes
  rw [List.range_succ, List.map_append]
  congr 1
  · apply List.map_congr_left
    intro i hi
    have hi' : i < L := List.mem_range.mp hi
    have : L + 1 - 1 - i = (L - 1 - i) + 1 := by omega
    rw [this, Nat.pow_succ, Nat.mul_comm, Nat.div_div_eq_div_mul]
  · simp

/-- the fixed-width encoder keeps exactly the low `L` octets -/
theorem beNat_natToBytes (L n : Nat) : beNat (natToBytes L n) = n % 256 ^ L := by
  induction L generalizing n with
  | zero => simp [natToBytes, beNat, Nat.mod_one]
  | succ L ih =>
    rw [natToBytes_succ, beNat_append, ih, Nat.pow_succ', Nat.mod_mul]
    simp only [List.length_cons, List.length_nil, beNat, List.foldl, UInt8.toNat_ofNat']
    omega

theorem natBytesMin_go_spec (fuel n : Nat) (acc : Bytes) (h : n < fuel) :
    beNat (natBytesMin.go fuel n acc) = n * 256 ^ acc.length + beNat acc ∧
    ∀ k, n < 256 ^ k → (natBytesMin.go fuel n acc).length ≤ k + acc.length := by
  induction fuel generalizing n acc with
  | zero => omega
  | succ fuel ih =>
    unfold natBytesMin.go
    by_cases h0 : n = 0
    · rw [if_pos h0]; subst h0; simp
    · rw [if_neg h0]
      have hlt : n / 256 < fuel := by omega
      obtain ⟨ih1, ih2⟩ := ih (n / 256) (UInt8.ofNat (n % 256) :: acc) hlt
      constructor
      · rw [ih1, beNat_cons, List.length_cons, Nat.pow_succ, UInt8.toNat_ofNat']
        have : n % 256 % 2 ^ 8 = n % 256 := by omega
        rw [this]
        generalize 256 ^ acc.length = M
        have hn : n = 256 * (n / 256) + n % 256 := (Nat.div_add_mod n 256).symm
        conv => rhs; rw [hn]
        rw [Nat.add_mul, Nat.mul_comm M 256, ← Nat.mul_assoc, Nat.mul_comm (n / 256) 256, Nat.add_assoc]
      · intro k hk
        cases k with
        | zero => simp at hk; omega
        | succ k =>
          have := ih2 k (by rw [Nat.pow_succ] at hk; omega)
          simp only [List.length_cons] at this
          omega

/-- `big.Int.Bytes()` decodes back to the number -/
theorem beNat_natBytesMin (n : Nat) : beNat (natBytesMin n) = n := by
  have := (natBytesMin_go_spec (n + 1) n [] (by omega)).1
  simpa [natBytesMin, beNat] using this

/-- `big.Int.Bytes()` of a number below `256^L` has at most `L` octets -/
theorem natBytesMin_length_le (n L : Nat) (h : n < 256 ^ L) : (natBytesMin n).length ≤ L := by
  have := (natBytesMin_go_spec (n + 1) n [] (by omega)).2 L h
  simpa [natBytesMin] using this

/-- `append(make([]byte, L-len(v)), v...)` with `v = n.Bytes()` is the
`L`-octet big-endian encoding of `n`, whenever `n < 256^L` -/
theorem leftPad_natBytesMin (L n : Nat) (h : n < 256 ^ L) :
    leftPad L (natBytesMin n) = .ok (natToBytes L n) := by
  have hl := natBytesMin_length_le n L h
  unfold leftPad
  rw [if_pos hl]
  congr 1
  apply beNat_inj
  · rw [natToBytes_length, List.length_append, zeros_length]; omega
  · rw [beNat_zeros_append, beNat_natBytesMin, beNat_natToBytes, Nat.mod_eq_of_lt h]

/-- conversely the padding faults (negative `make`) exactly when the value does not fit -/
theorem leftPad_ne_fault_iff (L : Nat) (v : Bytes) : leftPad L v ≠ .fault ↔ v.length ≤ L := by
  unfold leftPad
  by_cases h : v.length ≤ L
  · rw [if_pos h]; simp [h]
  · rw [if_neg h]; simp [h]

/-! ### the exponent-drawing loop `security.GenerateRandomNumber`

```go
for {
    number, err = rand.Int(rand.Reader, &randomNumberMaximum)
    if err != nil { return nil, errors.Errorf(...) }
    else if number.Cmp(&randomNumberMinimum) == 1 { break }
}
return number, nil
```

The loop is modelled over an explicit list of outcomes of the successive
`rand.Int` calls: `none` = the call returned an error, `some v` = it returned
the number `v`.  `rand.Int` itself (rejection sampling on octets read from
`rand.Reader`, result uniformly in `[0, max)`) is TRUSTED: it is standard
library code, not modelled; its contract `v < max` appears as the hypothesis
`hInt` where needed.  The Go loop has no iteration bound, so a finite list of
outcomes can be exhausted with the loop still running: that is the outer
`none`. -/

/-- `randomNumberMinimum` = 32 hex digits `F` (security.go:35) -/
def randMin : Nat := 2 ^ 128 - 1
/-- `randomNumberMaximum` = 512 hex digits `F` (security.go:34) -/
def randMax : Nat := 2 ^ 2048 - 1

/-- `GenerateRandomNumber()` over the outcomes of its `rand.Int` calls; `none`
= still looping after all listed outcomes were consumed. -/
def genRandom (min : Nat) : List (Option Nat) → Option (Res Nat)
  | [] => none
  | none :: _ => some .err
  | some v :: rest => if v > min then some (.ok v) else genRandom min rest

/-- number of `rand.Int` calls the loop made -/
def genRandomDraws (min : Nat) : List (Option Nat) → Nat
  | [] => 0
  | none :: _ => 1
  | some v :: rest => if v > min then 1 else 1 + genRandomDraws min rest

theorem genRandom_ok_iff (min : Nat) (ds : List (Option Nat)) (r : Nat) :
    genRandom min ds = some (.ok r) ↔
      ∃ (pre : List Nat) (post : List (Option Nat)), ds = pre.map some ++ some r :: post ∧ (∀ v ∈ pre, v ≤ min) ∧ min < r := by
  induction ds with
  | nil => simp [genRandom]
  | cons d rest ih =>
    cases d with
    | none =>
      simp only [genRandom]
      constructor
      · intro h; simp at h
      · rintro ⟨pre, post, h, _, _⟩
        cases pre with
        | nil => simp at h
        | cons p ps => simp at h
    | some v =>
      simp only [genRandom]
      by_cases hv : v > min
      · rw [if_pos hv]
        constructor
        · intro h
          simp only [Option.some.injEq, Res.ok.injEq] at h
          subst h
          exact ⟨[], rest, by simp, by simp, hv⟩
        · rintro ⟨pre, post, h, hpre, hr⟩
          cases pre with
          | nil => simp at h; rw [h.1]
          | cons p ps =>
            simp at h
            have := hpre p (by simp)
            omega
      · rw [if_neg hv, ih]
        constructor
        · rintro ⟨pre, post, h, hpre, hr⟩
          refine ⟨v :: pre, post, by simp [h], ?_, hr⟩
          intro w hw
          simp at hw
          rcases hw with hw | hw
          · omega
          · exact hpre w hw
        · rintro ⟨pre, post, h, hpre, hr⟩
          cases pre with
          | nil => simp at h; omega
          | cons p ps =>
            simp at h
            exact ⟨ps, post, h.2, fun w hw => hpre w (by simp [hw]), hr⟩

theorem genRandom_err_iff (min : Nat) (ds : List (Option Nat)) :
    genRandom min ds = some .err ↔
      ∃ (pre : List Nat) (post : List (Option Nat)), ds = pre.map some ++ none :: post ∧ (∀ v ∈ pre, v ≤ min) := by
  induction ds with
  | nil => simp [genRandom]
  | cons d rest ih =>
    cases d with
    | none =>
      simp only [genRandom]
      constructor
      · intro _; exact ⟨[], rest, by simp, by simp⟩
      · intro _; trivial
    | some v =>
      simp only [genRandom]
      by_cases hv : v > min
      · rw [if_pos hv]
        constructor
        · intro h; simp at h
        · rintro ⟨pre, post, h, hpre⟩
          cases pre with
          | nil => simp at h
          | cons p ps =>
            simp at h
            have := hpre p (by simp)
            omega
      · rw [if_neg hv, ih]
        constructor
        · rintro ⟨pre, post, h, hpre⟩
          refine ⟨v :: pre, post, by simp [h], ?_⟩
          intro w hw
          simp at hw
          rcases hw with hw | hw
          · omega
          · exact hpre w hw
        · rintro ⟨pre, post, h, hpre⟩
          cases pre with
          | nil => simp at h
          | cons p ps =>
            simp at h
            exact ⟨ps, post, h.2, fun w hw => hpre w (by simp [hw])⟩

theorem genRandom_ne_fault (min : Nat) (ds : List (Option Nat)) : genRandom min ds ≠ some .fault := by
  induction ds with
  | nil => simp [genRandom]
  | cons d rest ih =>
    cases d with
    | none => simp [genRandom]
    | some v =>
      simp only [genRandom]
      by_cases hv : v > min
      · rw [if_pos hv]; simp
      · rw [if_neg hv]; exact ih

/-- the result depends only on the outcomes the loop consumed -/
theorem genRandom_prefix (min : Nat) (ds extra : List (Option Nat)) (x : Res Nat)
    (h : genRandom min ds = some x) : genRandom min (ds ++ extra) = some x := by
  induction ds with
  | nil => simp [genRandom] at h
  | cons d rest ih =>
    cases d with
    | none => simpa [genRandom] using h
    | some v =>
      simp only [genRandom, List.cons_append] at *
      by_cases hv : v > min
      · rw [if_pos hv] at *; exact h
      · rw [if_neg hv] at *; exact ih h

end Ike
