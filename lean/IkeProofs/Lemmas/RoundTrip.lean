import IkeProofs.Lemmas.Bytes

/-! Round trips `unmarshal (marshal p) = p` per payload kind (C03), stated on the
encodable domain of each kind. -/

set_option linter.unusedSimpArgs false
set_option linter.unusedVariables false

namespace Ike


theorem rt_KE (g : UInt16) (d bs : Bytes) (hd : 1 ≤ d.length) (h : marshalKE g d = .ok bs) :
    unmarshalKE bs = .ok (.ke g d) := by
  unfold marshalKE at h
  simp only [Res.ok.injEq] at h; subst h
  unfold unmarshalKE
  rw [if_neg (by len_omega)]
  go_steps
  simp [put16, be16_put]

theorem rt_T4 (mk : UInt8 → Bytes → Payload) (t : UInt8) (d bs : Bytes) (hd : 1 ≤ d.length)
    (h : marshalT4 t d = .ok bs) : unmarshalT4 mk bs = .ok (mk t d) := by
  unfold marshalT4 at h
  simp only [Res.ok.injEq] at h; subst h
  unfold unmarshalT4
  rw [if_neg (by len_omega)]
  go_steps
  simp

theorem rt_T1 (mk : UInt8 → Bytes → Payload) (t : UInt8) (d bs : Bytes) (hd : 1 ≤ d.length)
    (h : marshalT1 t d = .ok bs) : unmarshalT1 mk bs = .ok (mk t d) := by
  unfold marshalT1 at h
  simp only [Res.ok.injEq] at h; subst h
  unfold unmarshalT1
  rw [if_neg (by len_omega)]
  go_steps
  simp

theorem rt_notify (proto : UInt8) (nt : UInt16) (spi d bs : Bytes)
    (h : marshalNotify proto nt spi d = .ok bs) : unmarshalNotify bs = .ok (.notify proto nt spi d) := by
  unfold marshalNotify at h
  split at h
  · simp at h
  · rename_i hs
    simp only [Res.ok.injEq] at h
    subst h
    unfold unmarshalNotify
    have hl : (UInt8.ofNat spi.length).toNat = spi.length := ofNat_toNat_u8 _ (by omega)
    have hb1 : byteAt ([proto, UInt8.ofNat spi.length] ++ put16 nt ++ spi ++ d) 1 = UInt8.ofNat spi.length := by
      simp [put16]
    rw [if_neg (by len_omega), if_neg (by len_omega)]
    go_steps
    rw [hb1, hl]
    rw [if_neg (by len_omega)]
    go_steps
    simp [put16, be16_put, hl, take_add_cons4, drop_add_cons4]



theorem u16_and_7fff (a : UInt16) : (a &&& 0x7fff) &&& 0x7fff = a &&& 0x7fff := by
  apply UInt16.toNat_inj.mp
  simp only [UInt16.toNat_and]
  rw [Nat.and_assoc]; simp


theorem deleteSPIs_marshal (spis : List UInt32) (bs : Bytes) (h : marshalDeleteSPIs 4 spis = .ok bs) :
    deleteSPIs spis.length bs = .ok spis ∧ bs.length = 4 * spis.length := by
  induction spis generalizing bs with
  | nil => simp [marshalDeleteSPIs] at h; subst h; simp [deleteSPIs]
  | cons v rest ih =>
    simp only [marshalDeleteSPIs] at h
    rw [if_neg (by omega)] at h
    cases hr : marshalDeleteSPIs 4 rest with
    | ok tl =>
      simp [hr] at h
      subst h
      obtain ⟨i1, i2⟩ := ih tl hr
      simp [put32, zeros, deleteSPIs, i1, be32_put, i2]
      omega
    | err => simp [hr] at h
    | fault => simp [hr] at h

/-- Delete in the encodable domain: (SPI size 0, no SPIs) or (SPI size 4, count = number of SPIs) -/
theorem rt_delete (proto spiSize : UInt8) (num : UInt16) (spis : List UInt32) (bs : Bytes)
    (hdom : (spiSize = 0 ∧ spis = []) ∨ spiSize = 4)
    (h : marshalDelete proto spiSize num spis = .ok bs) :
    unmarshalDelete bs = .ok (.delete proto spiSize num spis) := by
  unfold marshalDelete at h
  split at h
  · simp at h
  · rename_i hn
    simp at hn
    cases hdom with
    | inl h0 =>
      obtain ⟨rfl, rfl⟩ := h0
      simp at hn
      have : num = 0 := UInt16.toNat_inj.mp (by rw [← hn]; rfl)
      subst this
      simp at h
      subst h
      unfold unmarshalDelete
      simp [goIndex, goU16, goFrom, be16, put16, deleteSPIs]
    | inr h4 =>
      subst h4
      have e4 : (4 : UInt8).toNat = 4 := rfl
      rw [e4] at h
      by_cases hz : num.toNat > 0
      · rw [if_pos hz] at h
        cases hm : marshalDeleteSPIs 4 spis with
        | ok body =>
          simp [hm] at h
          subst h
          obtain ⟨d1, d2⟩ := deleteSPIs_marshal spis body hm
          unfold unmarshalDelete
          rw [if_neg (by len_omega), if_neg (by len_omega)]
          go_steps
          have hb1 : byteAt (proto :: 4 :: (put16 num ++ body)) 1 = 4 := by simp
          have hnum : be16 (byteAt (proto :: 4 :: (put16 num ++ body)) 2) (byteAt (proto :: 4 :: (put16 num ++ body)) 3) = num := by
            simp [put16, be16_put]
          rw [hb1, hnum, e4]
          rw [if_neg (by len_omega), if_neg (by simp)]
          go_steps
          have hd : List.drop 4 (proto :: 4 :: (put16 num ++ body)) = body := by simp [put16]
          rw [hd, ← hn, d1]
          simp
        | err => simp [hm] at h
        | fault => simp [hm] at h
      · rw [if_neg hz] at h
        have hn0 : num.toNat = 0 := by omega
        have : num = 0 := UInt16.toNat_inj.mp (by rw [hn0]; rfl)
        subst this
        have : spis = [] := by
          cases spis with
          | nil => rfl
          | cons _ _ => simp at hn
        subst this
        simp at h
        subst h
        unfold unmarshalDelete
        simp [goIndex, goU16, goFrom, be16, put16, deleteSPIs]

/-- one attribute in front of anything parses back to itself -/
theorem parseCPAttr_marshal (a : CPAttr) (rest : Bytes) (hv : a.value.length ≤ 0xFFFF) (ht : a.atype.toNat < 32768) :
    parseCPAttr (put16 (a.atype &&& 0x7fff) ++ put16 (UInt16.ofNat a.value.length) ++ a.value ++ rest)
      = .ok (a, 4 + a.value.length) := by
  have hl : (UInt16.ofNat a.value.length).toNat = a.value.length := ofNat_toNat_u16 _ (by omega)
  generalize UInt16.ofNat a.value.length = v at *
  unfold parseCPAttr
  go_steps
  have hlen : be16 (byteAt (put16 (a.atype &&& 0x7fff) ++ put16 v ++ a.value ++ rest) 2)
                   (byteAt (put16 (a.atype &&& 0x7fff) ++ put16 v ++ a.value ++ rest) 3) = v := by
    simp [put16, be16_put]
  rw [hlen, hl]
  rw [if_neg (by len_omega)]
  go_steps
  simp [put16, be16_put, take_add_cons4, u16_and_7fff_of_lt _ ht]

theorem rt_CPAttrs (attrs : List CPAttr) (bs : Bytes) (ht : ∀ a ∈ attrs, a.atype.toNat < 32768)
    (h : marshalCPAttrs attrs = .ok bs) : unmarshalCPAttrs bs = .ok attrs := by
  induction attrs generalizing bs with
  | nil => simp [marshalCPAttrs] at h; subst h; unfold unmarshalCPAttrs; simp
  | cons a rest ih =>
    simp only [marshalCPAttrs] at h
    split at h
    · simp at h
    · rename_i hv
      cases hr : marshalCPAttrs rest with
      | ok tl =>
        simp [hr] at h
        subst h
        have hta := ht a (by simp)
        have ihr := ih tl (fun x hx => ht x (by simp [hx])) hr
        have hp := parseCPAttr_marshal a tl (by omega) hta
        unfold unmarshalCPAttrs
        rw [dif_neg (by len_omega), if_neg (by len_omega)]
        simp only [List.append_assoc] at hp ⊢
        rw [hp]
        simp only
        rw [dif_pos (by len_omega)]
        have hd : List.drop (4 + a.value.length) (put16 (a.atype &&& 32767) ++ (put16 (UInt16.ofNat a.value.length) ++ (a.value ++ tl))) = tl := by
          simp [put16, drop_add_cons4]
        rw [hd, ihr]
      | err => simp [hr] at h
      | fault => simp [hr] at h

theorem rt_CP (ct : UInt8) (attrs : List CPAttr) (bs : Bytes) (hne : attrs ≠ [])
    (ht : ∀ a ∈ attrs, a.atype.toNat < 32768) (h : marshalCP ct attrs = .ok bs) :
    unmarshalCP bs = .ok (.cp ct attrs) := by
  unfold marshalCP at h
  cases hm : marshalCPAttrs attrs with
  | ok body =>
    simp [hm] at h
    subst h
    have hb : 1 ≤ body.length := by
      cases attrs with
      | nil => exact absurd rfl hne
      | cons a rest =>
        simp only [marshalCPAttrs] at hm
        split at hm
        · simp at hm
        · cases hr : marshalCPAttrs rest with
          | ok tl => simp [hr] at hm; subst hm; simp [put16]
          | err => simp [hr] at hm
          | fault => simp [hr] at hm
    unfold unmarshalCP
    rw [if_neg (by len_omega)]
    go_steps
    simp [rt_CPAttrs attrs body ht hm]
  | err => simp [hm] at h
  | fault => simp [hm] at h



theorem parseTSel_marshal (t : TSel) (h : Bytes) (rest : Bytes) (hm : marshalTSel t = .ok h) :
    parseTSel (h ++ rest) = .ok (t, h.length) ∧ 4 ≤ h.length := by
  unfold marshalTSel at hm
  have e7 : Facts.tsIPv4 = 7 := rfl
  have e8 : Facts.tsIPv6 = 8 := rfl
  split at hm
  · rename_i h7
    split at hm
    · simp at hm
    · split at hm
      · simp at hm
      · rename_i hs he
        simp only [Res.ok.injEq] at hm
        subst hm
        simp at hs he
        have hty : t.tstype = 7 := by simpa [e7] using h7
        unfold parseTSel
        go_steps
        have b0 : byteAt ([t.tstype, t.proto] ++ put16 16 ++ put16 t.sport ++ put16 t.eport ++ t.saddr ++ t.eaddr ++ rest) 0 = t.tstype := by simp
        rw [b0, if_pos (by simp [hty, e7])]
        go_steps
        have bl : be16 (byteAt ([t.tstype, t.proto] ++ put16 16 ++ put16 t.sport ++ put16 t.eport ++ t.saddr ++ t.eaddr ++ rest) 2)
                       (byteAt ([t.tstype, t.proto] ++ put16 16 ++ put16 t.sport ++ put16 t.eport ++ t.saddr ++ t.eaddr ++ rest) 3) = 16 := by
          simp [put16]; decide
        rw [bl]
        have e16 : (16 : UInt16).toNat = 16 := rfl
        rw [if_neg (by decide), e16, if_neg (by len_omega)]
        go_steps
        refine ⟨?_, by len_omega⟩
        cases t
        simp_all [put16, be16_put]
        exact drop_take_mid _ _ _ _ _ (by omega) (by omega)
  · split at hm
    · rename_i h7 h8
      split at hm
      · simp at hm
      · split at hm
        · simp at hm
        · rename_i hs he
          simp only [Res.ok.injEq] at hm
          subst hm
          simp at hs he
          have hty : t.tstype = 8 := by simpa [e8] using h8
          unfold parseTSel
          go_steps
          have b0 : byteAt ([t.tstype, t.proto] ++ put16 40 ++ put16 t.sport ++ put16 t.eport ++ t.saddr ++ t.eaddr ++ rest) 0 = t.tstype := by simp
          rw [b0, if_neg (by simp [hty, e7]), if_pos (by simp [hty, e8])]
          go_steps
          have bl : be16 (byteAt ([t.tstype, t.proto] ++ put16 40 ++ put16 t.sport ++ put16 t.eport ++ t.saddr ++ t.eaddr ++ rest) 2)
                         (byteAt ([t.tstype, t.proto] ++ put16 40 ++ put16 t.sport ++ put16 t.eport ++ t.saddr ++ t.eaddr ++ rest) 3) = 40 := by
            simp [put16]; decide
          rw [bl]
          have e40 : (40 : UInt16).toNat = 40 := rfl
          rw [if_neg (by decide), e40, if_neg (by len_omega)]
          go_steps
          refine ⟨?_, by len_omega⟩
          cases t
          simp_all [put16, be16_put]
          exact drop_take_mid _ _ _ _ _ (by omega) (by omega)
    · simp at hm

theorem rt_TSels (l : List TSel) (bs : Bytes) (h : marshalTSels l = .ok bs) (rest : Bytes) :
    unmarshalTSels l.length (bs ++ rest) = .ok l := by
  induction l generalizing bs with
  | nil => simp [unmarshalTSels]
  | cons t tl ih =>
    simp only [marshalTSels] at h
    cases hm : marshalTSel t with
    | ok hd =>
      cases hr : marshalTSels tl with
      | ok tb =>
        simp [hm, hr] at h
        subst h
        obtain ⟨hp, h4⟩ := parseTSel_marshal t hd (tb ++ rest) hm
        simp only [List.length_cons, unmarshalTSels, List.append_assoc]
        rw [if_neg (by len_omega), hp]
        simp only
        rw [if_pos (by len_omega)]
        simp [ih tb hr]
      | err => simp [hm, hr] at h
      | fault => simp [hm, hr] at h
    | err => simp [hm] at h
    | fault => simp [hm] at h

theorem rt_TS (mk : List TSel → Payload) (l : List TSel) (bs : Bytes) (h : marshalTS l = .ok bs) :
    unmarshalTS mk bs = .ok (mk l) := by
  unfold marshalTS at h
  split at h
  · simp at h
  · split at h
    · simp at h
    · rename_i h0 h255
      cases hm : marshalTSels l with
      | ok body =>
        simp [hm] at h
        subst h
        have hn : (UInt8.ofNat l.length).toNat = l.length := ofNat_toNat_u8 _ (by omega)
        unfold unmarshalTS
        rw [if_neg (by len_omega), if_neg (by len_omega)]
        go_steps
        simp only [byteAt_cons_zero, hn]
        have := rt_TSels l body hm []
        simp at this
        simp [this]
      | err => simp [hm] at h
      | fault => simp [hm] at h




/-- header round trip: all fields incl. the two derived ones -/
theorem rt_header (h : Header) (bs : Bytes) (hmaj : h.major.toNat < 16) (hmin : h.minor.toNat < 16)
    (hm : marshalHeader h = .ok bs) : parseHeader bs = .ok h := by
  unfold marshalHeader at hm
  have e : Facts.ikeHeaderLen = 28 := rfl
  rw [e] at hm
  dsimp only at hm
  split at hm
  · simp at hm
  · rename_i htot
    simp only [Res.ok.injEq] at hm
    subst hm
    have htl : (UInt32.ofNat (28 + h.payloadBytes.length)).toNat = 28 + h.payloadBytes.length :=
      ofNat_toNat_u32 _ (by omega)
    generalize UInt32.ofNat (28 + h.payloadBytes.length) = tot at *
    unfold parseHeader
    rw [e, if_neg (by len_omega)]
    go_steps
    have htotal : be32 (byteAt (put64 h.ispi ++ put64 h.rspi ++ [h.next, h.major <<< 4 ||| h.minor &&& 15, h.exch, h.flags] ++ put32 h.mid ++ put32 tot ++ h.payloadBytes) 24)
        (byteAt (put64 h.ispi ++ put64 h.rspi ++ [h.next, h.major <<< 4 ||| h.minor &&& 15, h.exch, h.flags] ++ put32 h.mid ++ put32 tot ++ h.payloadBytes) 25)
        (byteAt (put64 h.ispi ++ put64 h.rspi ++ [h.next, h.major <<< 4 ||| h.minor &&& 15, h.exch, h.flags] ++ put32 h.mid ++ put32 tot ++ h.payloadBytes) 26)
        (byteAt (put64 h.ispi ++ put64 h.rspi ++ [h.next, h.major <<< 4 ||| h.minor &&& 15, h.exch, h.flags] ++ put32 h.mid ++ put32 tot ++ h.payloadBytes) 27) = tot := by
      simp [put64, put32, be32_put]
    rw [htotal]
    have hge : ¬ tot < UInt32.ofNat 28 := by
      simp only [UInt32.lt_iff_toNat_lt, htl]
      have : (UInt32.ofNat 28).toNat = 28 := rfl
      omega
    rw [if_neg hge]
    go_steps
    obtain ⟨v1, v2⟩ := version_rt' h.major h.minor hmaj hmin
    have hi : be64 (List.drop 0 (put64 h.ispi ++ put64 h.rspi ++ [h.next, h.major <<< 4 ||| h.minor &&& 15, h.exch, h.flags] ++ put32 h.mid ++ put32 tot ++ h.payloadBytes)) = h.ispi := by
      simp only [List.drop_zero, List.append_assoc]; exact be64_put64 _ _
    have hr : be64 (List.drop 8 (put64 h.ispi ++ put64 h.rspi ++ [h.next, h.major <<< 4 ||| h.minor &&& 15, h.exch, h.flags] ++ put32 h.mid ++ put32 tot ++ h.payloadBytes)) = h.rspi := by
      simp only [List.append_assoc]
      rw [drop_prefix_eq _ _ 8 (by simp)]; exact be64_put64 _ _
    rw [hi, hr]
    cases h
    simp_all [put64, put32, be32_put]


/-! ### payload chain -/


/-- the payload decodes back from its own body, whatever the generic header's next field -/
def PayloadRT (p : Payload) : Prop :=
  ∀ bs nx, marshalPayload p = .ok bs → unmarshalPayload p.typeCode nx bs = .ok p

def Payload.isSK : Payload → Bool
  | .sk _ _ => true
  | _ => false

theorem knownType_typeCode (p : Payload) : knownType p.typeCode = true := by
  cases p <;> (simp only [Payload.typeCode]; decide)

theorem typeCode_ne_sk (p : Payload) (h : p.isSK = false) : (p.typeCode == Facts.typeSK) = false := by
  cases p <;> first | (simp only [Payload.typeCode]; decide) | (simp [Payload.isSK] at h)

theorem chainStep_encoded (p : Payload) (data tl : Bytes) (nx : UInt8) (hrt : PayloadRT p) (hsk : p.isSK = false)
    (hm : marshalPayload p = .ok data) (hlen : 4 + data.length ≤ 0xFFFF) :
    chainStep p.typeCode ([nx, 0] ++ put16 (UInt16.ofNat (4 + data.length)) ++ data ++ tl)
      = .ok (some p, nx, 4 + data.length) := by
  have hl : (UInt16.ofNat (4 + data.length)).toNat = 4 + data.length := ofNat_toNat_u16 _ (by omega)
  generalize UInt16.ofNat (4 + data.length) = v at *
  unfold chainStep
  rw [if_neg (by len_omega)]
  go_steps
  have hpl : be16 (byteAt ([nx, 0] ++ put16 v ++ data ++ tl) 2) (byteAt ([nx, 0] ++ put16 v ++ data ++ tl) 3) = v := by
    simp [put16, be16_put]
  rw [hpl]
  have h4 : ¬ v < 4 := by
    simp only [UInt16.lt_iff_toNat_lt, hl]
    have : (4 : UInt16).toNat = 4 := rfl
    omega
  rw [if_neg h4, hl, if_neg (by len_omega)]
  go_steps
  rw [if_pos (knownType_typeCode p)]
  rw [typeCode_ne_sk p hsk]
  simp only [Bool.false_and, Bool.false_eq_true, if_false]
  go_steps
  have hbody : List.drop 4 (List.take (4 + data.length) ([nx, 0] ++ put16 v ++ data ++ tl)) = data := by
    simp only [put16, List.cons_append, List.nil_append, List.append_assoc]
    rw [take_add_cons4]; simp
  have hnx : byteAt ([nx, 0] ++ put16 v ++ data ++ tl) 0 = nx := by simp
  rw [hbody, hnx, hrt data nx hm]
  simp

theorem rt_chain (ps : List Payload) (bs : Bytes)
    (hrt : ∀ p ∈ ps, PayloadRT p ∧ p.isSK = false)
    (h : encodeChain ps = .ok bs) : decodeChain (firstType ps) bs = .ok ps := by
  induction ps generalizing bs with
  | nil =>
    simp [encodeChain] at h; subst h
    unfold decodeChain; simp
  | cons p rest ih =>
    obtain ⟨hp, hsk⟩ := hrt p (by simp)
    simp only [encodeChain] at h
    cases hm : marshalPayload p with
    | err => simp [hm] at h
    | fault => simp [hm] at h
    | ok data =>
      simp only [hm, Res.bind_ok] at h
      split at h
      · simp at h
      · rename_i hlen
        cases hr : encodeChain rest with
        | err => simp [hr] at h
        | fault => simp [hr] at h
        | ok tl =>
          simp only [hr, Res.bind_ok, Res.ok.injEq] at h
          subst h
          have hnext : nextField p rest = firstType rest := by
            cases rest with
            | cons q _ => rfl
            | nil => cases p <;> first | rfl | (simp [Payload.isSK] at hsk)
          rw [hnext]
          have hstep := chainStep_encoded p data tl (firstType rest) hp hsk hm (by omega)
          show decodeChain p.typeCode _ = _
          rw [decodeChain]
          rw [dif_neg (by len_omega)]
          rw [hstep]
          simp only
          rw [dif_pos (by len_omega)]
          have hd : List.drop (4 + data.length) ([firstType rest, 0] ++ put16 (UInt16.ofNat (4 + data.length)) ++ data ++ tl) = tl := by
            simp only [put16, List.cons_append, List.nil_append, List.append_assoc]
            rw [drop_add_cons4]; simp
          rw [hd, ih tl (fun q hq => hrt q (by simp [hq])) hr]


/-! ### message -/


/-- message round trip from the chain and header round trips -/
theorem rt_msg (m : Msg) (bs : Bytes) (h' : Header)
    (hmaj : m.hdr.major.toNat < 16) (hmin : m.hdr.minor.toNat < 16)
    (hrt : ∀ p ∈ m.payloads, PayloadRT p ∧ p.isSK = false)
    (h : encodeMsg m = .ok (bs, h')) :
    ∃ m', decodeMsg bs = .ok m' ∧ m'.payloads = m.payloads ∧
      m'.hdr.ispi = m.hdr.ispi ∧ m'.hdr.rspi = m.hdr.rspi ∧ m'.hdr.major = m.hdr.major ∧
      m'.hdr.minor = m.hdr.minor ∧ m'.hdr.exch = m.hdr.exch ∧ m'.hdr.flags = m.hdr.flags ∧
      m'.hdr.mid = m.hdr.mid := by
  unfold encodeMsg at h
  cases hc : encodeChain m.payloads with
  | err => simp [hc] at h
  | fault => simp [hc] at h
  | ok pb =>
    simp only [hc, Res.bind_ok] at h
    cases hm : marshalHeader { m.hdr with next := firstType m.payloads, payloadBytes := pb } with
    | err =>
      simp [hm] at h
    | fault =>
      simp [hm] at h
    | ok out =>
      simp [hm] at h
      obtain ⟨rfl, rfl⟩ := h
      have hp := rt_header _ _ (by simpa using hmaj) (by simpa using hmin) hm
      refine ⟨⟨{ m.hdr with next := firstType m.payloads, payloadBytes := pb }, m.payloads⟩, ?_, rfl, rfl, rfl, rfl, rfl, rfl, rfl, rfl⟩
      unfold decodeMsg
      rw [hp]
      simp only [Res.bind_ok]
      rw [rt_chain m.payloads pb hrt hc]
      simp


/-! ### Security Association -/


/-- transforms of the encodable domain: no attribute, a TV attribute, or a TLV attribute with a non-empty value; attribute type < 2^15 -/
def Transform.Dom (t : Transform) : Prop :=
  (t.present = false ∧ t.fmt = 0 ∧ t.atype = 0 ∧ t.aval = 0 ∧ t.vval = []) ∨
  (t.present = true ∧ t.fmt = 1 ∧ t.atype.toNat < 32768 ∧ t.vval = []) ∨
  (t.present = true ∧ t.fmt = 0 ∧ t.atype.toNat < 32768 ∧ t.aval = 0 ∧ t.vval ≠ [])

theorem parseTransform_marshal (t : Transform) (last : Bool) (h rest : Bytes) (hd : t.Dom)
    (hm : marshalTransform last t = .ok h) :
    parseTransform (h ++ rest) = .ok (t, h.length) ∧ 8 ≤ h.length := by
  unfold marshalTransform at hm
  cases ha : marshalAttr t with
  | err => simp [ha] at hm
  | fault => simp [ha] at hm
  | ok a =>
    simp only [ha, Res.bind_ok] at hm
    split at hm
    · simp at hm
    · rename_i hlen
      simp only [Res.ok.injEq] at hm
      subst hm
      have hl : (UInt16.ofNat (8 + a.length)).toNat = 8 + a.length := ofNat_toNat_u16 _ (by omega)
      generalize hv : UInt16.ofNat (8 + a.length) = v at *
      have e8 : (8 : UInt16).toNat = 8 := rfl
      have e12 : (12 : UInt16).toNat = 12 := rfl
      refine ⟨?_, by len_omega⟩
      unfold parseTransform
      go_steps
      have htl : be16 (byteAt ([if last = true then 0 else 3, 0] ++ put16 v ++ [t.ttype, 0] ++ put16 t.tid ++ a ++ rest) 2)
                      (byteAt ([if last = true then 0 else 3, 0] ++ put16 v ++ [t.ttype, 0] ++ put16 t.tid ++ a ++ rest) 3) = v := by
        simp [put16, be16_put]
      rw [htl]
      rw [if_neg (by simp only [UInt16.lt_iff_toNat_lt, hl, e8]; omega), hl, if_neg (by len_omega)]
      go_steps
      have htt : byteAt ([if last = true then 0 else 3, 0] ++ put16 v ++ [t.ttype, 0] ++ put16 t.tid ++ a ++ rest) 4 = t.ttype := by
        simp [put16]
      have htid : be16 (byteAt ([if last = true then 0 else 3, 0] ++ put16 v ++ [t.ttype, 0] ++ put16 t.tid ++ a ++ rest) 6)
                       (byteAt ([if last = true then 0 else 3, 0] ++ put16 v ++ [t.ttype, 0] ++ put16 t.tid ++ a ++ rest) 7) = t.tid := by
        simp [put16, be16_put]
      rw [htt, htid]
      unfold marshalAttr at ha
      rcases hd with ⟨h1, h2, h3, h4, h5⟩ | ⟨h1, h2, h3, h5⟩ | ⟨h1, h2, h3, h4, h5⟩
      · -- no attribute
        simp [h1] at ha
        subst ha
        simp at hl
        rw [if_neg (by simp only [gt_iff_lt, UInt16.lt_iff_toNat_lt, hl, e8]; omega)]
        cases t; simp_all
      · -- TV
        simp [h1, h2] at ha
        subst ha
        simp at hl
        rw [if_pos (by simp only [gt_iff_lt, UInt16.lt_iff_toNat_lt, hl, e8]; omega)]
        rw [if_neg (by simp only [UInt16.lt_iff_toNat_lt, hl, e12]; omega)]
        go_steps
        have w := attr_word_tv t.atype h3
        have hw15 : (1 : UInt16) <<< 15 = 0x8000 := rfl
        rw [hw15] at *
        have b8 := tbuf_bytes (if last = true then 0 else 3) 0 t.ttype v t.tid (put16 (32768 ||| t.atype) ++ put16 t.aval) rest 0
        have b9 := tbuf_bytes (if last = true then 0 else 3) 0 t.ttype v t.tid (put16 (32768 ||| t.atype) ++ put16 t.aval) rest 1
        have b10 := tbuf_bytes (if last = true then 0 else 3) 0 t.ttype v t.tid (put16 (32768 ||| t.atype) ++ put16 t.aval) rest 2
        have b11 := tbuf_bytes (if last = true then 0 else 3) 0 t.ttype v t.tid (put16 (32768 ||| t.atype) ++ put16 t.aval) rest 3
        simp only [Nat.add_zero, Nat.reduceAdd] at b8 b9 b10 b11
        rw [b8, b9, b10, b11]
        simp only [put16, List.cons_append, List.nil_append, byteAt_cons_zero, byteAt_cons_succ]
        rw [w.1, be16_put, be16_put, w.2]
        cases t; simp_all
      · -- TLV
        have hne : ¬ t.vval.length = 0 := by
          intro hc; exact h5 (List.eq_nil_of_length_eq_zero hc)
        simp [h1, h2, hne] at ha
        split at ha
        · simp at ha
        · rename_i hvl
          simp at ha
          subst ha
          have hal : (UInt16.ofNat t.vval.length).toNat = t.vval.length := ofNat_toNat_u16 _ (by omega)
          generalize hq : UInt16.ofNat t.vval.length = q at *
          simp at hl hlen
          have hpos : 0 < t.vval.length := by omega
          rw [if_pos (by simp only [gt_iff_lt, UInt16.lt_iff_toNat_lt, hl, e8]; omega)]
          rw [if_neg (by simp only [UInt16.lt_iff_toNat_lt, hl, e12]; omega)]
          go_steps
          have w := attr_word_tlv t.atype h3
          have b8 := tbuf_bytes (if last = true then 0 else 3) 0 t.ttype v t.tid (put16 t.atype ++ (put16 q ++ t.vval)) rest 0
          have b9 := tbuf_bytes (if last = true then 0 else 3) 0 t.ttype v t.tid (put16 t.atype ++ (put16 q ++ t.vval)) rest 1
          have b10 := tbuf_bytes (if last = true then 0 else 3) 0 t.ttype v t.tid (put16 t.atype ++ (put16 q ++ t.vval)) rest 2
          have b11 := tbuf_bytes (if last = true then 0 else 3) 0 t.ttype v t.tid (put16 t.atype ++ (put16 q ++ t.vval)) rest 3
          simp only [Nat.add_zero, Nat.reduceAdd] at b8 b9 b10 b11
          rw [b8, b9, b10, b11]
          simp only [put16, List.cons_append, List.nil_append, byteAt_cons_zero, byteAt_cons_succ]
          rw [w, be16_put, be16_put, u16_and_7fff_of_lt _ h3]
          have hsum : (12 + q != v) = false := by
            simp only [bne_eq_false_iff_eq]
            apply UInt16.toNat_inj.mp
            simp only [UInt16.toNat_add, hal, hl, e12]
            omega
          simp only [hsum]
          simp only [List.length_cons]
          rw [show 8 + (t.vval.length + 1 + 1 + 1 + 1) = t.vval.length + 12 from by omega]
          cases t
          simp_all [List.take_succ_cons]




/-- decoding the encoding of a transform list files exactly those transforms, in order -/
theorem unmarshalTransforms_marshal (ts : List Transform) (bs : Bytes) (p : Proposal)
    (hd : ∀ t ∈ ts, t.Dom) (hm : marshalTransforms ts = .ok bs) :
    unmarshalTransforms bs p = .ok (ts.foldl Proposal.file p) := by
  induction ts generalizing bs p with
  | nil =>
    simp [marshalTransforms] at hm; subst hm
    unfold unmarshalTransforms; simp
  | cons t rest ih =>
    simp only [marshalTransforms] at hm
    cases hh : marshalTransform rest.isEmpty t with
    | err => simp [hh] at hm
    | fault => simp [hh] at hm
    | ok h =>
      cases hr : marshalTransforms rest with
      | err => simp [hh, hr] at hm
      | fault => simp [hh, hr] at hm
      | ok tl =>
        simp [hh, hr] at hm
        subst hm
        obtain ⟨hp, h8⟩ := parseTransform_marshal t rest.isEmpty h tl (hd t (by simp)) hh
        unfold unmarshalTransforms
        rw [dif_neg (by len_omega), if_neg (by len_omega), hp]
        simp only
        rw [dif_pos (by len_omega)]
        simp only [List.drop_left, List.foldl_cons]
        exact ih tl (p.file t) (fun x hx => hd x (by simp [hx])) hr

/-- filing a list whose transforms all carry type `k` appends it to container `k` -/
theorem foldl_file_encr (l : List Transform) (p : Proposal) (h : ∀ t ∈ l, t.ttype = Facts.ttEncr) :
    l.foldl Proposal.file p = { p with encr := p.encr ++ l } := by
  induction l generalizing p with
  | nil => simp
  | cons t rest ih =>
    have ht := h t (by simp)
    simp only [List.foldl_cons]
    rw [ih _ (fun x hx => h x (by simp [hx]))]
    simp [Proposal.file, ht]

theorem foldl_file_prf (l : List Transform) (p : Proposal) (h : ∀ t ∈ l, t.ttype = Facts.ttPrf) :
    l.foldl Proposal.file p = { p with prf := p.prf ++ l } := by
  induction l generalizing p with
  | nil => simp
  | cons t rest ih =>
    have ht := h t (by simp)
    simp only [List.foldl_cons]
    rw [ih _ (fun x hx => h x (by simp [hx]))]
    have : (Facts.ttPrf == Facts.ttEncr) = false := by decide
    simp [Proposal.file, ht, this]

theorem foldl_file_integ (l : List Transform) (p : Proposal) (h : ∀ t ∈ l, t.ttype = Facts.ttInteg) :
    l.foldl Proposal.file p = { p with integ := p.integ ++ l } := by
  induction l generalizing p with
  | nil => simp
  | cons t rest ih =>
    have ht := h t (by simp)
    simp only [List.foldl_cons]
    rw [ih _ (fun x hx => h x (by simp [hx]))]
    have h1 : (Facts.ttInteg == Facts.ttEncr) = false := by decide
    have h2 : (Facts.ttInteg == Facts.ttPrf) = false := by decide
    simp [Proposal.file, ht, h1, h2]

theorem foldl_file_dh (l : List Transform) (p : Proposal) (h : ∀ t ∈ l, t.ttype = Facts.ttDh) :
    l.foldl Proposal.file p = { p with dh := p.dh ++ l } := by
  induction l generalizing p with
  | nil => simp
  | cons t rest ih =>
    have ht := h t (by simp)
    simp only [List.foldl_cons]
    rw [ih _ (fun x hx => h x (by simp [hx]))]
    have h1 : (Facts.ttDh == Facts.ttEncr) = false := by decide
    have h2 : (Facts.ttDh == Facts.ttPrf) = false := by decide
    have h3 : (Facts.ttDh == Facts.ttInteg) = false := by decide
    simp [Proposal.file, ht, h1, h2, h3]

theorem foldl_file_esn (l : List Transform) (p : Proposal) (h : ∀ t ∈ l, t.ttype = Facts.ttEsn) :
    l.foldl Proposal.file p = { p with esn := p.esn ++ l } := by
  induction l generalizing p with
  | nil => simp
  | cons t rest ih =>
    have ht := h t (by simp)
    simp only [List.foldl_cons]
    rw [ih _ (fun x hx => h x (by simp [hx]))]
    have h1 : (Facts.ttEsn == Facts.ttEncr) = false := by decide
    have h2 : (Facts.ttEsn == Facts.ttPrf) = false := by decide
    have h3 : (Facts.ttEsn == Facts.ttInteg) = false := by decide
    have h4 : (Facts.ttEsn == Facts.ttDh) = false := by decide
    simp [Proposal.file, ht, h1, h2, h3, h4]

/-- proposals of the encodable domain -/
def Proposal.Dom (p : Proposal) : Prop :=
  (∀ t ∈ p.encr, t.ttype = Facts.ttEncr ∧ t.Dom) ∧ (∀ t ∈ p.prf, t.ttype = Facts.ttPrf ∧ t.Dom) ∧
  (∀ t ∈ p.integ, t.ttype = Facts.ttInteg ∧ t.Dom) ∧ (∀ t ∈ p.dh, t.ttype = Facts.ttDh ∧ t.Dom) ∧
  (∀ t ∈ p.esn, t.ttype = Facts.ttEsn ∧ t.Dom)

theorem file_all (p : Proposal) (hd : p.Dom) :
    p.transforms.foldl Proposal.file ⟨p.num, p.proto, p.spi, [], [], [], [], []⟩ = p := by
  obtain ⟨h1, h2, h3, h4, h5⟩ := hd
  unfold Proposal.transforms
  simp only [List.foldl_append]
  rw [foldl_file_encr _ _ (fun t ht => (h1 t ht).1)]
  rw [foldl_file_prf _ _ (fun t ht => (h2 t ht).1)]
  rw [foldl_file_integ _ _ (fun t ht => (h3 t ht).1)]
  rw [foldl_file_dh _ _ (fun t ht => (h4 t ht).1)]
  rw [foldl_file_esn _ _ (fun t ht => (h5 t ht).1)]
  cases p; simp





theorem parseProposal_marshal (p : Proposal) (last : Bool) (h rest : Bytes) (hd : p.Dom)
    (hm : marshalProposal last p = .ok h) :
    parseProposal (h ++ rest) = .ok (p, h.length) ∧ 8 ≤ h.length := by
  unfold marshalProposal at hm
  split at hm
  · simp at hm
  · rename_i hspi
    dsimp only at hm
    split at hm
    · simp at hm
    · split at hm
      · simp at hm
      · rename_i hne h255
        cases hts : marshalTransforms p.transforms with
        | err => simp [hts] at hm
        | fault => simp [hts] at hm
        | ok td =>
          simp only [hts, Res.bind_ok] at hm
          split at hm
          · simp at hm
          · rename_i hlen
            simp only [Res.ok.injEq] at hm
            subst hm
            have hl : (UInt16.ofNat (8 + p.spi.length + td.length)).toNat = 8 + p.spi.length + td.length :=
              ofNat_toNat_u16 _ (by omega)
            generalize hv : UInt16.ofNat (8 + p.spi.length + td.length) = v at *
            have hs : (UInt8.ofNat p.spi.length).toNat = p.spi.length := ofNat_toNat_u8 _ (by omega)
            generalize hsv : UInt8.ofNat p.spi.length = sv at *
            have e8 : (8 : UInt16).toNat = 8 := rfl
            refine ⟨?_, by len_omega⟩
            unfold parseProposal
            go_steps
            have hpl : be16 (byteAt ([if last = true then 0 else 2, 0] ++ put16 v ++ [p.num, p.proto, sv, UInt8.ofNat p.transforms.length] ++ p.spi ++ td ++ rest) 2)
                            (byteAt ([if last = true then 0 else 2, 0] ++ put16 v ++ [p.num, p.proto, sv, UInt8.ofNat p.transforms.length] ++ p.spi ++ td ++ rest) 3) = v := by
              simp [put16, be16_put]
            rw [hpl]
            rw [if_neg (by simp only [UInt16.lt_iff_toNat_lt, hl, e8]; omega), hl, if_neg (by len_omega)]
            go_steps
            have h4 : byteAt ([if last = true then 0 else 2, 0] ++ put16 v ++ [p.num, p.proto, sv, UInt8.ofNat p.transforms.length] ++ p.spi ++ td ++ rest) 4 = p.num := by simp [put16]
            have h5 : byteAt ([if last = true then 0 else 2, 0] ++ put16 v ++ [p.num, p.proto, sv, UInt8.ofNat p.transforms.length] ++ p.spi ++ td ++ rest) 5 = p.proto := by simp [put16]
            have h6 : byteAt ([if last = true then 0 else 2, 0] ++ put16 v ++ [p.num, p.proto, sv, UInt8.ofNat p.transforms.length] ++ p.spi ++ td ++ rest) 6 = sv := by simp [put16]
            rw [h4, h5, h6, hs]
            have hut := unmarshalTransforms_marshal p.transforms td ⟨p.num, p.proto, p.spi, [], [], [], [], []⟩
              (by
                intro t ht
                obtain ⟨d1, d2, d3, d4, d5⟩ := hd
                simp only [Proposal.transforms, List.mem_append] at ht
                rcases ht with (((ht | ht) | ht) | ht) | ht
                · exact (d1 t ht).2
                · exact (d2 t ht).2
                · exact (d3 t ht).2
                · exact (d4 t ht).2
                · exact (d5 t ht).2) hts
            rw [file_all p hd] at hut
            have htd : List.drop (8 + p.spi.length) (List.take (8 + p.spi.length + td.length)
                ([if last = true then 0 else 2, 0] ++ put16 v ++ [p.num, p.proto, sv, UInt8.ofNat p.transforms.length] ++ p.spi ++ td ++ rest)) = td := by
              have := drop_take_mid ([if last = true then 0 else 2, 0] ++ put16 v ++ [p.num, p.proto, sv, UInt8.ofNat p.transforms.length] ++ p.spi) td rest
                (8 + p.spi.length) (8 + p.spi.length + td.length) (by simp; omega) (by simp; omega)
              simpa [List.append_assoc] using this
            by_cases hz : p.spi.length > 0
            · rw [if_pos hz, if_neg (by omega)]
              go_steps
              have hsp : List.drop 8 (List.take (8 + p.spi.length)
                  ([if last = true then 0 else 2, 0] ++ put16 v ++ [p.num, p.proto, sv, UInt8.ofNat p.transforms.length] ++ p.spi ++ td ++ rest)) = p.spi := by
                have := drop_take_mid ([if last = true then 0 else 2, 0] ++ put16 v ++ [p.num, p.proto, sv, UInt8.ofNat p.transforms.length]) p.spi (td ++ rest)
                  8 (8 + p.spi.length) (by simp) (by simp)
                simpa [List.append_assoc] using this
              rw [hsp, htd, hut]
              simp
              omega
            · rw [if_neg hz]
              have hz0 : p.spi.length = 0 := by omega
              have hnil : p.spi = [] := List.eq_nil_of_length_eq_zero hz0
              go_steps
              rw [htd]
              rw [hnil] at hut ⊢
              rw [hut]
              simp [hnil]
              try omega




theorem rt_proposals (ps : List Proposal) (bs : Bytes) (hd : ∀ p ∈ ps, p.Dom)
    (hm : marshalProposals ps = .ok bs) : unmarshalProposals bs = .ok ps := by
  induction ps generalizing bs with
  | nil =>
    simp [marshalProposals] at hm; subst hm
    unfold unmarshalProposals; simp
  | cons p rest ih =>
    simp only [marshalProposals] at hm
    cases hh : marshalProposal rest.isEmpty p with
    | err => simp [hh] at hm
    | fault => simp [hh] at hm
    | ok h =>
      cases hr : marshalProposals rest with
      | err => simp [hh, hr] at hm
      | fault => simp [hh, hr] at hm
      | ok tl =>
        simp [hh, hr] at hm
        subst hm
        obtain ⟨hp, h8⟩ := parseProposal_marshal p rest.isEmpty h tl (hd p (by simp)) hh
        unfold unmarshalProposals
        rw [dif_neg (by len_omega), if_neg (by len_omega), hp]
        simp only
        rw [dif_pos (by len_omega)]
        simp only [List.drop_left]
        rw [ih tl (fun x hx => hd x (by simp [hx])) hr]

theorem rt_SA (ps : List Proposal) (bs : Bytes) (hd : ∀ p ∈ ps, p.Dom)
    (hm : marshalSA ps = .ok bs) : unmarshalSA bs = .ok (.sa ps) := by
  unfold marshalSA at hm
  unfold unmarshalSA
  rw [rt_proposals ps bs hd hm]
  simp


end Ike
