import IkeProofs.Lemmas.Tactics

/-! Octet-string lemmas: big-endian round trips, framing (`take`/`drop` across a
known prefix). -/

set_option linter.unusedSimpArgs false

namespace Ike

theorem be16_put (v : UInt16) : be16 (UInt8.ofNat (v.toNat / 256)) (UInt8.ofNat (v.toNat % 256)) = v := by
  apply UInt16.toNat_inj.mp
  have := v.toNat_lt
  simp only [be16, UInt8.toNat_ofNat', UInt16.toNat_ofNat']
  omega

theorem be32_put (v : UInt32) :
    be32 (UInt8.ofNat (v.toNat / 16777216)) (UInt8.ofNat (v.toNat / 65536 % 256))
         (UInt8.ofNat (v.toNat / 256 % 256)) (UInt8.ofNat (v.toNat % 256)) = v := by
  apply UInt32.toNat_inj.mp
  have := v.toNat_lt
  simp only [be32, UInt8.toNat_ofNat', UInt32.toNat_ofNat']
  omega


@[simp] theorem byteAt_cons_zero (x : UInt8) (xs : Bytes) : byteAt (x :: xs) 0 = x := by simp [byteAt]
@[simp] theorem byteAt_cons_succ (x : UInt8) (xs : Bytes) (n : Nat) : byteAt (x :: xs) (n + 1) = byteAt xs n := by
  simp [byteAt]

theorem byteAt_append_left (p r : Bytes) (i : Nat) (h : i < p.length) : byteAt (p ++ r) i = byteAt p i := by
  simp [byteAt, List.getD_eq_getElem?_getD, List.getElem?_append_left h]

theorem byteAt_append_right (p r : Bytes) (i : Nat) : byteAt (p ++ r) (p.length + i) = byteAt r i := by
  simp [byteAt, List.getD_eq_getElem?_getD, List.getElem?_append_right]

theorem ofNat_toNat_u8 (n : Nat) (h : n ≤ 255) : (UInt8.ofNat n).toNat = n := by
  simp [UInt8.toNat_ofNat']; omega

theorem ofNat_toNat_u16 (n : Nat) (h : n ≤ 65535) : (UInt16.ofNat n).toNat = n := by
  simp [UInt16.toNat_ofNat']; omega

theorem ofNat_toNat_u32 (n : Nat) (h : n ≤ 4294967295) : (UInt32.ofNat n).toNat = n := by
  simp [UInt32.toNat_ofNat']; omega

theorem u16_not_lt_toNat {a b : UInt16} (h : ¬ a < b) : b.toNat ≤ a.toNat := by
  simp only [UInt16.lt_iff_toNat_lt] at h; omega

/-! ### framing across a known prefix -/

theorem take_add_append (p r : Bytes) (n : Nat) : List.take (p.length + n) (p ++ r) = p ++ List.take n r := by
  rw [List.take_append, List.take_of_length_le (by omega)]; simp

theorem drop_add_append (p r : Bytes) (n : Nat) : List.drop (p.length + n) (p ++ r) = List.drop n r := by
  simp [List.drop_append]

theorem take_len_append (p r : Bytes) : List.take p.length (p ++ r) = p := by simp
theorem drop_len_append (p r : Bytes) : List.drop p.length (p ++ r) = r := by simp

theorem take_add_cons1 (a : UInt8) (r : Bytes) (n : Nat) : List.take (1 + n) (a :: r) = a :: List.take n r :=
  take_add_append [a] r n
theorem drop_add_cons1 (a : UInt8) (r : Bytes) (n : Nat) : List.drop (1 + n) (a :: r) = List.drop n r :=
  drop_add_append [a] r n

theorem take_add_cons4 (a b c d : UInt8) (r : Bytes) (n : Nat) :
    List.take (4 + n) (a :: b :: c :: d :: r) = a :: b :: c :: d :: List.take n r :=
  take_add_append [a, b, c, d] r n
theorem drop_add_cons4 (a b c d : UInt8) (r : Bytes) (n : Nat) :
    List.drop (4 + n) (a :: b :: c :: d :: r) = List.drop n r :=
  drop_add_append [a, b, c, d] r n

theorem take_add_cons8 (a b c d e f g h : UInt8) (r : Bytes) (n : Nat) :
    List.take (8 + n) (a :: b :: c :: d :: e :: f :: g :: h :: r) = a :: b :: c :: d :: e :: f :: g :: h :: List.take n r :=
  take_add_append [a, b, c, d, e, f, g, h] r n
theorem drop_add_cons8 (a b c d e f g h : UInt8) (r : Bytes) (n : Nat) :
    List.drop (8 + n) (a :: b :: c :: d :: e :: f :: g :: h :: r) = List.drop n r :=
  drop_add_append [a, b, c, d, e, f, g, h] r n

theorem take_len_left (x r : Bytes) : List.take x.length (x ++ r) = x := by simp
theorem drop_len_left (x r : Bytes) : List.drop x.length (x ++ r) = r := by simp

end Ike

namespace Ike

theorem drop_take_mid (p x r : Bytes) (n m : Nat) (hn : n = p.length) (hm : m = p.length + x.length) :
    List.drop n (List.take m (p ++ (x ++ r))) = x := by
  subst hn hm
  rw [← List.append_assoc, show p.length + x.length = (p ++ x).length by simp, List.take_left']
  · simp
  · rfl

theorem take_prefix_eq (p r : Bytes) (n : Nat) (hn : n = p.length) : List.take n (p ++ r) = p := by
  subst hn; simp

theorem drop_prefix_eq (p r : Bytes) (n : Nat) (hn : n = p.length) : List.drop n (p ++ r) = r := by
  subst hn; simp

theorem u16_and_7fff_of_lt (a : UInt16) (h : a.toNat < 32768) : a &&& 0x7fff = a := by
  apply UInt16.toNat_inj.mp
  simp only [UInt16.toNat_and]
  have : (0x7fff : UInt16).toNat = 2^15 - 1 := rfl
  rw [this, Nat.and_two_pow_sub_one_eq_mod]
  omega

end Ike

namespace Ike


theorem beNat_put32 (v : UInt32) : beNat (put32 v) = v.toNat := by
  have := v.toNat_lt
  simp only [put32, beNat, List.foldl, UInt8.toNat_ofNat']
  omega

theorem beNat_foldl (b : Bytes) (acc : Nat) :
    List.foldl (fun acc x => acc * 256 + x.toNat) acc b = acc * 256 ^ b.length + beNat b := by
  unfold beNat
  induction b generalizing acc with
  | nil => simp
  | cons x xs ih =>
    simp only [List.foldl_cons, List.length_cons]
    rw [ih, ih (0 * 256 + x.toNat), Nat.pow_succ]
    simp [Nat.add_mul, Nat.mul_assoc, Nat.mul_comm 256]
    omega

theorem beNat_append (a b : Bytes) : beNat (a ++ b) = beNat a * 256 ^ b.length + beNat b := by
  show List.foldl _ 0 (a ++ b) = _
  rw [List.foldl_append, beNat_foldl]
  rfl

theorem be64_put64 (v : UInt64) (r : Bytes) : be64 (put64 v ++ r) = v := by
  apply UInt64.toNat_inj.mp
  have hv := v.toNat_lt
  unfold be64
  rw [take_prefix_eq _ _ _ (by simp)]
  unfold put64
  rw [beNat_append, beNat_put32, beNat_put32]
  simp only [put32_length, UInt32.toNat_ofNat', UInt64.toNat_ofNat']
  omega

theorem version_rt : ∀ a b : Fin 16,
    ((((UInt8.ofNat a.val) <<< 4) ||| ((UInt8.ofNat b.val) &&& 0x0F)) >>> 4 = UInt8.ofNat a.val) ∧
    ((((UInt8.ofNat a.val) <<< 4) ||| ((UInt8.ofNat b.val) &&& 0x0F)) &&& 0x0F = UInt8.ofNat b.val) := by
  decide

theorem version_rt' (a b : UInt8) (ha : a.toNat < 16) (hb : b.toNat < 16) :
    (((a <<< 4) ||| (b &&& 0x0F)) >>> 4 = a) ∧ (((a <<< 4) ||| (b &&& 0x0F)) &&& 0x0F = b) := by
  have := version_rt ⟨a.toNat, ha⟩ ⟨b.toNat, hb⟩
  simpa using this


end Ike

namespace Ike


set_option maxRecDepth 100000 in
theorem u8_bit7 : ∀ x : Fin 256, ((UInt8.ofNat x.val &&& 0x80) >>> 7) = UInt8.ofNat (x.val / 128) := by decide

theorem u8_bit7' (x : UInt8) : ((x &&& 0x80) >>> 7) = UInt8.ofNat (x.toNat / 128) := by
  have := u8_bit7 ⟨x.toNat, x.toNat_lt⟩
  simpa using this

theorem u16_or_8000 (a : UInt16) (h : a.toNat < 32768) : ((0x8000 : UInt16) ||| a).toNat = 32768 + a.toNat := by
  simp only [UInt16.toNat_or]
  have : (0x8000 : UInt16).toNat = 2^15 := rfl
  rw [this]
  have := Nat.two_pow_add_eq_or_of_lt (i := 15) (b := a.toNat) (by simpa using h) 1
  simp only [Nat.mul_one] at this
  omega

/-- the format/type word of an attribute: `((fmt & 1) << 15) | type` -/
theorem ft_tv (a : UInt16) : (((1 : UInt8).toUInt16 &&& 1) <<< 15) ||| a = (0x8000 : UInt16) ||| a := by
  rfl

theorem ft_tlv (a : UInt16) : (((0 : UInt8).toUInt16 &&& 1) <<< 15) ||| a = a := by
  apply UInt16.toNat_inj.mp
  simp


end Ike

namespace Ike


theorem attr_word_tv (a : UInt16) (h : a.toNat < 32768) :
    ((UInt8.ofNat (((0x8000 : UInt16) ||| a).toNat / 256) &&& 0x80) >>> 7 = 1) ∧
    (((0x8000 : UInt16) ||| a) &&& 0x7fff = a) := by
  have hw := u16_or_8000 a h
  constructor
  · rw [u8_bit7']
    simp only [UInt8.toNat_ofNat', hw]
    have : (32768 + a.toNat) / 256 % 256 / 128 = 1 := by omega
    rw [this]; rfl
  · apply UInt16.toNat_inj.mp
    simp only [UInt16.toNat_and, hw]
    have : (0x7fff : UInt16).toNat = 2^15 - 1 := rfl
    rw [this, Nat.and_two_pow_sub_one_eq_mod]
    omega

theorem attr_word_tlv (a : UInt16) (h : a.toNat < 32768) :
    ((UInt8.ofNat (a.toNat / 256) &&& 0x80) >>> 7 = 0) := by
  rw [u8_bit7']
  simp only [UInt8.toNat_ofNat']
  have : a.toNat / 256 % 256 / 128 = 0 := by omega
  rw [this]; rfl

theorem tbuf_bytes (x0 x1 tt : UInt8) (v tid : UInt16) (a rest : Bytes) (i : Nat) :
    byteAt ([x0, x1] ++ put16 v ++ [tt, 0] ++ put16 tid ++ a ++ rest) (8 + i) = byteAt (a ++ rest) i := by
  have := byteAt_append_right ([x0, x1] ++ put16 v ++ [tt, 0] ++ put16 tid) (a ++ rest) i
  simp only [List.append_assoc] at this ⊢
  simpa using this


end Ike
