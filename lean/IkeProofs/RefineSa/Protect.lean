import IkeProofs.Refine.Basic
import IkeProofs.Refine.Glue
import IkeProofs.Refine.Build
import IkeModel.GenAbsSa
import IkeProofs.RefineReg.Registries
import IkeProofs.RefineReg.Cbc

/-! The sending side of `ike.go` as translated (`Gen.ike.calculateIntegrity`, `encryptPayload`, `encryptMsg`,
`EncodeEncrypt`) ⊑ the hand-written `calcIntegrity`, `encryptPayload`, `protect`, `encodePlain`.

Hypotheses: `SaWF k` (descriptors and objects non-nil, cipher objects without test IV / padding), `P.Lawful` (only
`enc_len`, through `Encrypt_refines`) and `0 ≤ outLenI k.IntegInfo`: the integrity descriptor's `outputLength` (a Go
`int`) is not negative.  The last one is needed (`calculateIntegrity_needs_outLen`, `EncodeEncrypt_needs_outLen`):
with a negative length the translated code panics (`make`, slice bound) where the model, whose lengths are `Nat`,
carries on with length 0.  It holds of the three registered descriptors (`outLenI_registered`).

The view `sk` of the container element written through `sk.EncryptedData[len-cl:]` (`Go.copyInto` on the window,
`Go.splice` back, `Go.setAt` into the container) is the model's `setTail` inside the single SK payload
(`splice_setTail`, `sealBody_eq`). -/

set_option linter.unusedSimpArgs false
set_option linter.unusedVariables false

namespace Ike.RefineSa.Enc
open Ike Ike.GenAbsSa Ike.Gen.message Ike.Refine Ike.RefineReg

/-! ### the integrity descriptor's output length -/

/-- what the translated `INTEGType.GetOutputLength` returns (0 for the nil descriptor, on which it faults) -/
def outLenI : Gen.integ.INTEGType → Int
  | .nil_ => 0
  | .AuthHmacMd5_95 v => v.outputLength
  | .AuthHmacSha1_96 v => v.outputLength
  | .AuthHmacSha2_256_128 v => v.outputLength

theorem GetOutputLength_eq (i : Gen.integ.INTEGType) (hi : i ≠ .nil_) :
    Gen.integ.INTEGType.GetOutputLength i = .ok (outLenI i) := by
  cases i with
  | nil_ => exact absurd rfl hi
  | AuthHmacMd5_95 v => rfl
  | AuthHmacSha1_96 v => rfl
  | AuthHmacSha2_256_128 v => rfl

theorem absIntegInfo_outLen (i : Gen.integ.INTEGType) : (absIntegInfo i).outLen = (outLenI i).toNat := by
  cases i <;> rfl

theorem absSa_outLen (k : Gen.security.IKESAKey) : (absSa k).integInfo.outLen = (outLenI k.IntegInfo).toNat :=
  absIntegInfo_outLen k.IntegInfo

/-- the three descriptors package `integ` registers have a non-negative output length -/
theorem outLenI_registered (i : Gen.integ.INTEGType)
    (h : i = .AuthHmacMd5_95 ⟨16, 12⟩ ∨ i = .AuthHmacSha1_96 ⟨20, 12⟩ ∨ i = .AuthHmacSha2_256_128 ⟨32, 16⟩) :
    i ≠ .nil_ ∧ 0 ≤ outLenI i := by
  rcases h with rfl | rfl | rfl <;> exact ⟨(by intro h; cases h), (by decide)⟩

/-! ### `calculateIntegrity` -/

theorem sliceTo_eq_goTo (b : Bytes) (n : Int) (hn : 0 ≤ n) : Go.sliceTo b n = goTo b n.toNat := by
  unfold Go.sliceTo goTo
  by_cases h : n.toNat ≤ b.length
  · rw [if_pos ⟨hn, by omega⟩, if_pos h]
  · rw [if_neg (by omega), if_neg h]

/-- closed form of the translated `calculateIntegrity` -/
theorem calculateIntegrity_eq (P : Prims) (k : Gen.security.IKESAKey) (hi : k.IntegInfo ≠ .nil_)
    (role : Bool) (d : Bytes) :
    Gen.ike.calculateIntegrity P k role d =
      if role = true then
        (if Go.Mac.isNil k.Integ_i = true then .err else
          (Go.sliceTo (Go.Mac.sum P (Go.Mac.write (Go.Mac.reset k.Integ_i) d) []) (outLenI k.IntegInfo)) >>= fun c =>
            .ok ({ k with Integ_i := Go.Mac.write (Go.Mac.reset k.Integ_i) d }, c))
      else
        (if Go.Mac.isNil k.Integ_r = true then .err else
          (Go.sliceTo (Go.Mac.sum P (Go.Mac.write (Go.Mac.reset k.Integ_r) d) []) (outLenI k.IntegInfo)) >>= fun c =>
            .ok ({ k with Integ_r := Go.Mac.write (Go.Mac.reset k.Integ_r) d }, c)) := by
  unfold Gen.ike.calculateIntegrity
  rw [GetOutputLength_eq _ hi]
  simp only [Res.bind_ok, Bool.false_eq_true, if_false]

theorem calculateIntegrity_refines (P : Prims) (k : Gen.security.IKESAKey) (hi : k.IntegInfo ≠ .nil_)
    (hol : 0 ≤ outLenI k.IntegInfo)
    (hni : Go.Mac.isNil k.Integ_i = false) (hnr : Go.Mac.isNil k.Integ_r = false) (role : Bool) (d : Bytes) :
    (Gen.ike.calculateIntegrity P k role d).map (fun x => (absSa x.1, x.2)) =
      (match calcIntegrity P (absSa k) role d with
       | (sa', .ok c) => .ok (sa', c) | (_, .err) => .err | (_, .fault) => .fault) := by
  rw [calculateIntegrity_eq P k hi, sliceTo_eq_goTo _ _ hol, sliceTo_eq_goTo _ _ hol]
  unfold calcIntegrity
  rw [absSa_outLen]
  cases role with
  | true =>
    simp only [if_true, hni, Bool.false_eq_true, if_false]
    have e : HashObj.sum P ((absSa k).integ_i.reset.write d) [] =
        Go.Mac.sum P (Go.Mac.write (Go.Mac.reset k.Integ_i) d) [] := rfl
    rw [e]
    cases goTo (Go.Mac.sum P (Go.Mac.write (Go.Mac.reset k.Integ_i) d) []) (outLenI k.IntegInfo).toNat <;> rfl
  | false =>
    simp only [Bool.false_eq_true, if_false, hnr]
    have e : HashObj.sum P ((absSa k).integ_r.reset.write d) [] =
        Go.Mac.sum P (Go.Mac.write (Go.Mac.reset k.Integ_r) d) [] := rfl
    rw [e]
    cases goTo (Go.Mac.sum P (Go.Mac.write (Go.Mac.reset k.Integ_r) d) []) (outLenI k.IntegInfo).toNat <;> rfl


/-- the object `calculateIntegrity` leaves behind: `k` with the hash object of the chosen direction reset and fed `d` -/
def macFed (k : Gen.security.IKESAKey) (role : Bool) (d : Bytes) : Gen.security.IKESAKey :=
  if role = true then { k with Integ_i := Go.Mac.write (Go.Mac.reset k.Integ_i) d }
  else { k with Integ_r := Go.Mac.write (Go.Mac.reset k.Integ_r) d }

/-- frame: the returned object is `k` except for the hash object of the chosen direction, whose `h` and `key`
are unchanged (`Go.Mac.write (Go.Mac.reset m) d = { m with buf := d }`) -/
theorem calculateIntegrity_frame (P : Prims) (k k' : Gen.security.IKESAKey) (role : Bool) (d c : Bytes)
    (h : Gen.ike.calculateIntegrity P k role d = .ok (k', c)) : k' = macFed k role d := by
  by_cases hi : k.IntegInfo = .nil_
  · unfold Gen.ike.calculateIntegrity at h
    rw [hi] at h
    cases h
  · rw [calculateIntegrity_eq P k hi] at h
    unfold macFed
    cases role with
    | true =>
      simp only [if_true] at h ⊢
      split at h
      · cases h
      · cases hs : Go.sliceTo (Go.Mac.sum P (Go.Mac.write (Go.Mac.reset k.Integ_i) d) []) (outLenI k.IntegInfo) <;>
          rw [hs] at h <;> cases h
        rfl
    | false =>
      simp only [Bool.false_eq_true, if_false] at h ⊢
      split at h
      · cases h
      · cases hs : Go.sliceTo (Go.Mac.sum P (Go.Mac.write (Go.Mac.reset k.Integ_r) d) []) (outLenI k.IntegInfo) <;>
          rw [hs] at h <;> cases h
        rfl

theorem macFed_fields (k : Gen.security.IKESAKey) (role : Bool) (d : Bytes) :
    (macFed k role d).DhInfo = k.DhInfo ∧ (macFed k role d).EncrInfo = k.EncrInfo ∧
    (macFed k role d).IntegInfo = k.IntegInfo ∧ (macFed k role d).PrfInfo = k.PrfInfo ∧
    (macFed k role d).Prf_d = k.Prf_d ∧ (macFed k role d).Prf_i = k.Prf_i ∧ (macFed k role d).Prf_r = k.Prf_r ∧
    (macFed k role d).Encr_i = k.Encr_i ∧ (macFed k role d).Encr_r = k.Encr_r ∧
    (macFed k role d).SK_d = k.SK_d ∧ (macFed k role d).SK_ai = k.SK_ai ∧ (macFed k role d).SK_ar = k.SK_ar ∧
    (macFed k role d).SK_ei = k.SK_ei ∧ (macFed k role d).SK_er = k.SK_er ∧
    (macFed k role d).SK_pi = k.SK_pi ∧ (macFed k role d).SK_pr = k.SK_pr ∧
    (macFed k role d).Integ_i.h = k.Integ_i.h ∧ (macFed k role d).Integ_i.key = k.Integ_i.key ∧
    (macFed k role d).Integ_r.h = k.Integ_r.h ∧ (macFed k role d).Integ_r.key = k.Integ_r.key ∧
    (role = false → (macFed k role d).Integ_i = k.Integ_i) ∧ (role = true → (macFed k role d).Integ_r = k.Integ_r) := by
  cases role <;> simp [macFed, Go.Mac.write, Go.Mac.reset]

theorem macFed_SaWF (k : Gen.security.IKESAKey) (hk : SaWF k) (role : Bool) (d : Bytes) : SaWF (macFed k role d) := by
  cases role
  · exact ⟨hk.encr, hk.integ, hk.prf, hk.integ_i, hk.integ_r, hk.prf_d, hk.encr_i, hk.encr_r⟩
  · exact ⟨hk.encr, hk.integ, hk.prf, hk.integ_i, hk.integ_r, hk.prf_d, hk.encr_i, hk.encr_r⟩

/-- `absSa` of the object left behind is the SA `calcIntegrity` returns -/
theorem absSa_macFed (P : Prims) (k : Gen.security.IKESAKey) (role : Bool) (d : Bytes) :
    absSa (macFed k role d) = (calcIntegrity P (absSa k) role d).1 := by
  cases role <;> rfl

/-! ### `encryptPayload` -/

theorem encryptPayload_refines (P : Prims) (hP : P.Lawful) (k : Gen.security.IKESAKey) (hk : SaWF k) (role : Bool)
    (r : Rand) (plain : Bytes) :
    Gen.ike.encryptPayload P r plain k role =
      (match encryptPayload P (absSa k) role r plain with
       | (r', .ok b) => .ok (r', b) | (_, .err) => .err | (_, .fault) => .fault) := by
  unfold Gen.ike.encryptPayload encryptPayload
  cases role with
  | true =>
    simp only [if_true]
    rw [Encrypt_refines P hP r k.Encr_i hk.encr_i.2.1 hk.encr_i.2.2]
    have e : (absSa k).encr_i = ⟨k.Encr_i.Block⟩ := rfl
    rw [e]
    rcases cbcEncrypt P ⟨k.Encr_i.Block⟩ r plain with ⟨r', (b | _ | _)⟩ <;> rfl
  | false =>
    simp only [Bool.false_eq_true, if_false]
    rw [Encrypt_refines P hP r k.Encr_r hk.encr_r.2.1 hk.encr_r.2.2]
    have e : (absSa k).encr_r = ⟨k.Encr_r.Block⟩ := rfl
    rw [e]
    rcases cbcEncrypt P ⟨k.Encr_r.Block⟩ r plain with ⟨r', (b | _ | _)⟩ <;> rfl


/-! ### `IKEMessage.Encode`: the message it returns -/

private theorem bind_pair_eq (x : Res Bytes) (h : Header) (gm : IKEMessage) (ps : List Payload)
    (hm : gm = GenAbs.repMsg ⟨h, ps⟩) :
    (x >>= fun t2 => Res.ok (gm, t2)) =
      ((x >>= fun bs => Res.ok (bs, h)) >>= fun x => Res.ok (GenAbs.repMsg ⟨x.2, ps⟩, x.1)) := by
  cases x <;> simp [hm]

/-- `IKEMessage.Encode` only rewrites the header (NextPayload, PayloadBytes): the returned message is the input's
payload list under the header `encodeMsg` returns -/
theorem Encode_rep (m : Msg) :
    IKEMessage.Encode (GenAbs.repMsg m) =
      (encodeMsg m) >>= fun x => Res.ok (GenAbs.repMsg ⟨x.2, m.payloads⟩, x.1) := by
  unfold IKEMessage.Encode encodeMsg GenAbs.repMsg
  simp only [Gen_Encode_chain, headerRefines.marshal]
  cases hps : m.payloads with
  | nil =>
    simp only [List.map_nil, List.length_nil, Nat.lt_irrefl, gt_iff_lt, if_false, firstType]
    cases encodeChain [] with
    | ok pb =>
      simp only [Res.bind_ok]
      exact bind_pair_eq _ { m.hdr with next := Facts.typeNoNext, payloadBytes := pb } _ [] rfl
    | err => rfl
    | fault => rfl
  | cons p ps =>
    have hlen : (List.map GenAbs.repPayload (p :: ps)).length > 0 := by simp
    have hidx : Go.indexN (List.map GenAbs.repPayload (p :: ps)) 0 = Res.ok (GenAbs.repPayload p) := by
      simp [Go.indexN]
    simp only [hlen, if_true, hidx, Res.bind_ok, IKEPayload_Type_rep, firstType]
    cases encodeChain (p :: ps) with
    | ok pb =>
      simp only [Res.bind_ok]
      exact bind_pair_eq _ { m.hdr with next := p.typeCode, payloadBytes := pb } _ (p :: ps) rfl
    | err => rfl
    | fault => rfl


/-! ### `encryptMsg` -/

/-- the join point `jp13` of the translated `encryptMsg` (text copied from `Gen_ike.lean`; `encryptMsg_unfold`
checks by `rfl` that it is the same term): build the SK payload, encode, MAC, write the checksum through the view -/
def sealBody (P : Prims) (ikesaKey : Gen.security.IKESAKey) (role : Bool) (checksumLength : Int)
    (ikeMsg : IKEMessage) (encryptedData : Bytes) (rnd_ : Rand) (encrNextPayloadType : UInt8) :
    Res (Rand × IKEMessage × Gen.security.IKESAKey) :=
  (IKEPayloadContainer.BuildEncrypted ikeMsg.Payloads encrNextPayloadType encryptedData) >>= fun t6 =>
  let ikeMsg : IKEMessage := { ikeMsg with Payloads := t6.1 };
  let sk : Encrypted := t6.2;
  let ix7 : Nat := (ikeMsg.Payloads.length - 1);
  (IKEMessage.Encode ikeMsg) >>= fun t8 =>
  let ikeMsg : IKEMessage := t8.1;
  let ikeMsgData : Bytes := t8.2;
  (Go.sliceTo ikeMsgData ((ikeMsgData.length : Int) - checksumLength)) >>= fun t9 =>
  (Gen.ike.calculateIntegrity P ikesaKey role t9) >>= fun t10 =>
  let ikesaKey : Gen.security.IKESAKey := t10.1;
  let checksumOfMessage : Bytes := t10.2;
  let sk : Encrypted := (match (ikeMsg.Payloads)[ix7]? with | some (IKEPayload.Encrypted w_) => w_ | _ => sk);
  (Go.sliceFrom sk.EncryptedData ((sk.EncryptedData.length : Int) - checksumLength)) >>= fun t11 =>
  let checksumField : Bytes := t11;
  (Go.copyInto checksumField 0 checksumField.length checksumOfMessage) >>= fun t12 =>
  let checksumField : Bytes := t12.1;
  let sk : Encrypted := (match (ikeMsg.Payloads)[ix7]? with | some (IKEPayload.Encrypted w_) => w_ | _ => sk);
  let sk : Encrypted := { sk with EncryptedData := (Go.splice sk.EncryptedData (((sk.EncryptedData.length : Int) - checksumLength)).toNat checksumField) };
  let ikeMsg : IKEMessage := { ikeMsg with Payloads := (Go.setAt ikeMsg.Payloads ix7 (IKEPayload.Encrypted sk)) };
  Res.ok (rnd_, ikeMsg, ikesaKey)

theorem Block_beq_nil (c : Gen.encr.EncrAesCbcCrypto) (h : c.Block ≠ []) : (c.Block == []) = false := by
  cases hb : c.Block with
  | nil => exact absurd hb h
  | cons a l => rfl

/-- the translated `encryptMsg` once the four refusals are passed -/
theorem encryptMsg_unfold (P : Prims) (k : Gen.security.IKESAKey) (hk : SaWF k) (role : Bool) (r : Rand)
    (gm : IKEMessage) :
    Gen.ike.encryptMsg P r (some gm) (some k) role =
      (IKEPayloadContainer.Encode gm.Payloads) >>= fun t2 =>
      (Gen.ike.encryptPayload P r t2 k role) >>= fun t3 =>
      (Go.make (α := UInt8) (outLenI k.IntegInfo)) >>= fun t4 =>
      if gm.Payloads.length = 0 then
        sealBody P k role (outLenI k.IntegInfo) { gm with Payloads := [] } (t3.2 ++ t4) t3.1 0
      else
        (Go.indexN gm.Payloads 0) >>= fun t14 =>
        (IKEPayload.Type_ t14) >>= fun t15 =>
        sealBody P k role (outLenI k.IntegInfo) { gm with Payloads := [] } (t3.2 ++ t4) t3.1 t15 := by
  unfold Gen.ike.encryptMsg
  simp only [Option.isNone_some, Option.getD_some, Bool.false_eq_true, if_false, hk.integ, hk.encr, hk.integ_r,
    Block_beq_nil _ hk.encr_r.1, GetOutputLength_eq _ hk.integ, Res.bind_ok, IKEPayloadContainer_Reset_eq]
  rfl


theorem sliceFrom_tail (d : Bytes) (cl : Int) (hcl : 0 ≤ cl) (hlen : cl.toNat ≤ d.length) :
    Go.sliceFrom d ((d.length : Int) - cl) = .ok (d.drop (d.length - cl.toNat)) := by
  unfold Go.sliceFrom
  rw [if_pos (by omega)]
  have : ((d.length : Int) - cl).toNat = d.length - cl.toNat := by omega
  rw [this]

theorem copyInto_tail (f c : Bytes) :
    Go.copyInto f 0 f.length c =
      .ok (c.take (min f.length c.length) ++ f.drop (min f.length c.length), min f.length c.length) := by
  simp [Go.copyInto]

/-- writing the checksum through the window `d[len-n:]` (`copy` into the window, the window spliced back) is the
model's `setTail` -/
theorem splice_setTail (d c : Bytes) (n : Nat) (hn : n ≤ d.length) :
    Go.splice d (d.length - n) (c.take (min n c.length) ++ (d.drop (d.length - n)).drop (min n c.length)) =
      setTail d n c := by
  unfold Go.splice setTail
  have h1 : (c.take (min n c.length) ++ (d.drop (d.length - n)).drop (min n c.length)).length = n := by
    simp only [List.length_append, List.length_take, List.length_drop]
    have := Nat.min_le_left n c.length
    have := Nat.min_le_right n c.length
    omega
  have h2 : c.take (min n c.length) = c.take n := by
    by_cases h : n ≤ c.length
    · rw [Nat.min_eq_left h]
    · rw [Nat.min_eq_right (by omega), List.take_of_length_le (by omega), List.take_of_length_le (by omega)]
  have h3 : (c.take n).length = min n c.length := by simp
  rw [h1, h2, h3, List.drop_of_length_le (show d.length ≤ d.length - n + n by omega)]
  simp

theorem sealBody_eq (P : Prims) (k : Gen.security.IKESAKey) (role : Bool) (cl : Int) (hcl : 0 ≤ cl)
    (hdr : Header) (encData : Bytes) (hlen : cl.toNat ≤ encData.length) (r1 : Rand) (next : UInt8) :
    sealBody P k role cl { IKEHeader := GenAbs.repHeader hdr, Payloads := [] } encData r1 next =
      (encodeMsg ⟨hdr, [.sk next encData]⟩) >>= fun x =>
      (Go.sliceTo x.1 ((x.1.length : Int) - cl)) >>= fun signed =>
      (Gen.ike.calculateIntegrity P k role signed) >>= fun t10 =>
      Res.ok (r1, GenAbs.repMsg ⟨x.2, [.sk next (setTail encData cl.toNat t10.2)]⟩, t10.1) := by
  unfold sealBody
  simp only [BuildEncrypted_eq, Res.bind_ok, List.nil_append, List.length_singleton, Nat.sub_self]
  have hE : IKEMessage.Encode ({ IKEHeader := GenAbs.repHeader hdr, Payloads := [IKEPayload.Encrypted { NextPayload := next, EncryptedData := encData }] } : IKEMessage) = _ :=
    Encode_rep ⟨hdr, [.sk next encData]⟩
  rw [hE]
  cases encodeMsg ⟨hdr, [.sk next encData]⟩ with
  | err => rfl
  | fault => rfl
  | ok x =>
    simp only [Res.bind_ok, GenAbs.repMsg, List.map_cons, List.map_nil, GenAbs.repPayload, List.getElem?_cons_zero]
    cases Go.sliceTo x.1 ((x.1.length : Int) - cl) with
    | err => rfl
    | fault => rfl
    | ok signed =>
      simp only [Res.bind_ok]
      cases Gen.ike.calculateIntegrity P k role signed with
      | err => rfl
      | fault => rfl
      | ok t10 =>
        simp only [Res.bind_ok, sliceFrom_tail encData cl hcl hlen]
        have hfl : (List.drop (encData.length - cl.toNat) encData).length = cl.toNat := by
          rw [List.length_drop]; omega
        have hoff : ((encData.length : Int) - cl).toNat = encData.length - cl.toNat := by omega
        rw [copyInto_tail, hfl, hoff]
        simp only [Res.bind_ok, Go.setAt, List.set_cons_zero, splice_setTail encData t10.2 cl.toNat hlen]


/-- the model of `encryptMsg`: `protect` up to (not including) its last `encodeMsg` -/
def sealMsg (P : Prims) (sa : SAKey) (role : Bool) (r : Rand) (m : Msg) : SAKey × Rand × Res Msg :=
  let cl := sa.integInfo.outLen
  match encodeChain m.payloads with
  | .err => (sa, r, .err)
  | .fault => (sa, r, .fault)
  | .ok plain =>
    match encryptPayload P sa role r plain with
    | (r1, .err) => (sa, r1, .err)
    | (r1, .fault) => (sa, r1, .fault)
    | (r1, .ok ct) =>
      let encData := ct ++ zeros cl
      let next : UInt8 := firstType m.payloads
      match encodeMsg ⟨m.hdr, [.sk next encData]⟩ with
      | .err => (sa, r1, .err)
      | .fault => (sa, r1, .fault)
      | .ok (data, h1) =>
        if data.length < cl then (sa, r1, .fault) else
        match calcIntegrity P sa role (data.take (data.length - cl)) with
        | (sa1, .err) => (sa1, r1, .err)
        | (sa1, .fault) => (sa1, r1, .fault)
        | (sa1, .ok checksum) => (sa1, r1, .ok ⟨h1, [.sk next (setTail encData cl checksum)]⟩)

theorem protect_eq_sealMsg (P : Prims) (sa : SAKey) (role : Bool) (r : Rand) (m : Msg) :
    protect P sa role r m =
      (match sealMsg P sa role r m with
       | (sa1, r1, .ok m2) =>
         (match encodeMsg m2 with
          | .err => (sa1, r1, .err)
          | .fault => (sa1, r1, .fault)
          | .ok (out, h2) => (sa1, r1, .ok (out, ⟨h2, m2.payloads⟩)))
       | (sa1, r1, .err) => (sa1, r1, .err)
       | (sa1, r1, .fault) => (sa1, r1, .fault)) := by
  unfold protect sealMsg
  cases encodeChain m.payloads with
  | err => rfl
  | fault => rfl
  | ok plain =>
    simp only []
    rcases encryptPayload P sa role r plain with ⟨r1, (ct | _ | _)⟩
    · simp only []
      rcases encodeMsg ⟨m.hdr, [.sk (firstType m.payloads) (ct ++ zeros sa.integInfo.outLen)]⟩ with (⟨data, h1⟩ | _ | _)
      · simp only []
        by_cases hl : data.length < sa.integInfo.outLen
        · simp only [hl, if_true]
        · simp only [hl, if_false]
          rcases calcIntegrity P sa role (data.take (data.length - sa.integInfo.outLen)) with ⟨sa1, (c | _ | _)⟩
          · rfl
          · rfl
          · rfl
      · rfl
      · rfl
    · rfl
    · rfl

theorem make_zeros (n : Int) (hn : 0 ≤ n) : Go.make (α := UInt8) n = .ok (zeros n.toNat) := by
  unfold Go.make
  rw [if_pos hn]
  rfl

theorem firstType_dispatch {β : Type} (ps : List Payload) (f : UInt8 → Res β) :
    (if (ps.map GenAbs.repPayload).length = 0 then f 0 else
       (Go.indexN (ps.map GenAbs.repPayload) 0) >>= fun t14 => (IKEPayload.Type_ t14) >>= fun t15 => f t15) =
      f (firstType ps) := by
  cases ps with
  | nil => rfl
  | cons p ps =>
    have hidx : Go.indexN (List.map GenAbs.repPayload (p :: ps)) 0 = Res.ok (GenAbs.repPayload p) := by
      simp [Go.indexN]
    rw [if_neg (by simp), hidx]
    simp only [Res.bind_ok, IKEPayload_Type_rep, firstType]

theorem sliceTo_tail (d : Bytes) (cl : Int) (hcl : 0 ≤ cl) :
    Go.sliceTo d ((d.length : Int) - cl) =
      if d.length < cl.toNat then .fault else .ok (d.take (d.length - cl.toNat)) := by
  unfold Go.sliceTo
  by_cases h : d.length < cl.toNat
  · rw [if_neg (by omega), if_pos h]
  · rw [if_pos (by omega), if_neg h]
    have : ((d.length : Int) - cl).toNat = d.length - cl.toNat := by omega
    rw [this]

/-- `encryptMsg` ⊑ `sealMsg`; the message returned is exactly the representation of the model's -/
theorem encryptMsg_refines (P : Prims) (hP : P.Lawful) (k : Gen.security.IKESAKey) (hk : SaWF k)
    (hol : 0 ≤ outLenI k.IntegInfo) (role : Bool) (r : Rand) (m : Msg) :
    (Gen.ike.encryptMsg P r (some (GenAbs.repMsg m)) (some k) role).map (fun x => (x.1, x.2.1, absSa x.2.2)) =
      (match sealMsg P (absSa k) role r m with
       | (sa', r', .ok m2) => .ok (r', GenAbs.repMsg m2, sa')
       | (_, _, .err) => .err | (_, _, .fault) => .fault) := by
  rw [encryptMsg_unfold P k hk]
  unfold sealMsg
  rw [show (GenAbs.repMsg m).Payloads = m.payloads.map GenAbs.repPayload from rfl,
    show (GenAbs.repMsg m).IKEHeader = GenAbs.repHeader m.hdr from rfl]
  simp only [Gen_Encode_chain, make_zeros _ hol, Res.bind_ok, absSa_outLen]
  cases encodeChain m.payloads with
  | err => rfl
  | fault => rfl
  | ok plain =>
    simp only [Res.bind_ok, encryptPayload_refines P hP k hk]
    rcases encryptPayload P (absSa k) role r plain with ⟨r1, (ct | _ | _)⟩
    · simp only [Res.bind_ok]
      rw [firstType_dispatch m.payloads (sealBody P k role (outLenI k.IntegInfo) { IKEHeader := GenAbs.repHeader m.hdr }
        (ct ++ zeros (outLenI k.IntegInfo).toNat) r1)]
      rw [sealBody_eq P k role _ hol m.hdr _ (by simp) r1]
      rcases encodeMsg ⟨m.hdr, [.sk (firstType m.payloads) (ct ++ zeros (outLenI k.IntegInfo).toNat)]⟩ with (⟨data, h1⟩ | _ | _)
      · simp only [Res.bind_ok, sliceTo_tail _ _ hol]
        by_cases hl : data.length < (outLenI k.IntegInfo).toNat
        · simp only [hl, if_true]
          rfl
        · simp only [hl, if_false, Res.bind_ok]
          have hc := calculateIntegrity_refines P k hk.integ hol hk.integ_i hk.integ_r role
            (data.take (data.length - (outLenI k.IntegInfo).toNat))
          rcases hm : calcIntegrity P (absSa k) role (data.take (data.length - (outLenI k.IntegInfo).toNat)) with ⟨sa1, (c | _ | _)⟩ <;>
            rw [hm] at hc <;> simp only [] at hc
          · cases hg : Gen.ike.calculateIntegrity P k role (data.take (data.length - (outLenI k.IntegInfo).toNat)) with
            | ok t10 =>
              rw [hg] at hc
              simp only [map_ok', Res.ok.injEq, Prod.mk.injEq] at hc
              obtain ⟨h1', h2'⟩ := hc
              simp only [Res.bind_ok, map_ok', h1', h2', GenAbs.repMsg, List.map_cons, List.map_nil]
            | err => rw [hg] at hc; cases hc
            | fault => rw [hg] at hc; cases hc
          · cases hg : Gen.ike.calculateIntegrity P k role (data.take (data.length - (outLenI k.IntegInfo).toNat)) with
            | ok t10 => rw [hg] at hc; cases hc
            | err => rfl
            | fault => rw [hg] at hc; cases hc
          · cases hg : Gen.ike.calculateIntegrity P k role (data.take (data.length - (outLenI k.IntegInfo).toNat)) with
            | ok t10 => rw [hg] at hc; cases hc
            | err => rw [hg] at hc; cases hc
            | fault => rfl
      · rfl
      · rfl
    · rfl
    · rfl


theorem bind_ok_inv {α β : Type} {x : Res α} {f : α → Res β} {y : β} (h : (x >>= f) = .ok y) :
    ∃ a, x = .ok a ∧ f a = .ok y := by
  cases x with
  | ok a => exact ⟨a, rfl, h⟩
  | err => cases h
  | fault => cases h

theorem sealBody_frame (P : Prims) (k : Gen.security.IKESAKey) (role : Bool) (cl : Int) (gm : IKEMessage)
    (ed : Bytes) (r1 : Rand) (nx : UInt8) (r' : Rand) (gm' : IKEMessage) (k' : Gen.security.IKESAKey)
    (h : sealBody P k role cl gm ed r1 nx = .ok (r', gm', k')) : ∃ d, k' = macFed k role d := by
  unfold sealBody at h
  obtain ⟨t6, _, h⟩ := bind_ok_inv h
  obtain ⟨t8, _, h⟩ := bind_ok_inv h
  obtain ⟨t9, _, h⟩ := bind_ok_inv h
  obtain ⟨t10, h10, h⟩ := bind_ok_inv h
  obtain ⟨t11, _, h⟩ := bind_ok_inv h
  obtain ⟨t12, _, h⟩ := bind_ok_inv h
  simp only [Res.ok.injEq, Prod.mk.injEq] at h
  obtain ⟨t10a, t10b⟩ := t10
  exact ⟨t9, by rw [← h.2.2]; exact calculateIntegrity_frame P k _ role t9 _ h10⟩

/-- frame of `encryptMsg`: the key object returned is `k` with one hash object reset and fed -/
theorem encryptMsg_frame (P : Prims) (k : Gen.security.IKESAKey) (hk : SaWF k) (role : Bool) (r : Rand)
    (gm : IKEMessage) (r' : Rand) (gm' : IKEMessage) (k' : Gen.security.IKESAKey)
    (h : Gen.ike.encryptMsg P r (some gm) (some k) role = .ok (r', gm', k')) : ∃ d, k' = macFed k role d := by
  rw [encryptMsg_unfold P k hk] at h
  obtain ⟨t2, _, h⟩ := bind_ok_inv h
  obtain ⟨t3, _, h⟩ := bind_ok_inv h
  obtain ⟨t4, _, h⟩ := bind_ok_inv h
  split at h
  · exact sealBody_frame _ _ _ _ _ _ _ _ _ _ _ h
  · obtain ⟨t14, _, h⟩ := bind_ok_inv h
    obtain ⟨t15, _, h⟩ := bind_ok_inv h
    exact sealBody_frame _ _ _ _ _ _ _ _ _ _ _ h

/-! ### `EncodeEncrypt` -/

theorem catchErr_bind {α β : Type} [Inhabited α] (x : Res α) (f : α → Res β) :
    ((Go.catchErr x) >>= fun t1 => if t1.2 = true then Res.err else f t1.1) = x >>= f := by
  cases x <;> rfl

/-- `EncodeEncrypt` with a key object: `encryptMsg`, then `Encode` -/
theorem EncodeEncrypt_some (P : Prims) (r : Rand) (gm : IKEMessage) (k : Gen.security.IKESAKey) (role : Bool) :
    Gen.ike.EncodeEncrypt P r gm (some k) role =
      (Gen.ike.encryptMsg P r (some gm) (some k) role) >>= fun t3 =>
      (IKEMessage.Encode t3.2.1) >>= fun t1 => Res.ok (t3.1, t1.1, t3.2.2, t1.2) := by
  unfold Gen.ike.EncodeEncrypt
  simp only [Option.isNone_some, Option.getD_some, if_true, Bool.false_eq_true, if_false]
  congr 1
  funext t3
  exact catchErr_bind (IKEMessage.Encode t3.2.1) (fun t1 => Res.ok (t3.1, t1.1, t3.2.2, t1.2))

/-- `EncodeEncrypt` with a nil key object: `Encode` only; the random source and the (zero) key object pass through -/
theorem EncodeEncrypt_none (P : Prims) (r : Rand) (gm : IKEMessage) (role : Bool) :
    Gen.ike.EncodeEncrypt P r gm none role =
      (IKEMessage.Encode gm) >>= fun t1 => Res.ok (r, t1.1, ({} : Gen.security.IKESAKey), t1.2) := by
  unfold Gen.ike.EncodeEncrypt
  simp only [Option.isNone_none, Option.getD_none, Bool.true_eq_false, if_false]
  exact catchErr_bind (IKEMessage.Encode gm) (fun t1 => Res.ok (r, t1.1, ({} : Gen.security.IKESAKey), t1.2))


theorem absMsg_rep (m : Msg) : GenAbs.absMsg (GenAbs.repMsg m) = some m := by
  unfold GenAbs.absMsg GenAbs.repMsg
  simp only [absPayloads_rep, Option.map_some, absHeader_rep]

theorem EncodeEncrypt_refines (P : Prims) (hP : P.Lawful) (k : Gen.security.IKESAKey) (hk : SaWF k)
    (hol : 0 ≤ outLenI k.IntegInfo) (role : Bool) (r : Rand) (m : Msg) :
    (Gen.ike.EncodeEncrypt P r (GenAbs.repMsg m) (some k) role).map
        (fun x => (x.1, GenAbs.absMsg x.2.1, absSa x.2.2.1, x.2.2.2)) =
      (match protect P (absSa k) role r m with
       | (sa', r', .ok (out, m')) => .ok (r', some m', sa', out)
       | (_, _, .err) => .err | (_, _, .fault) => .fault) := by
  rw [EncodeEncrypt_some, protect_eq_sealMsg]
  have he := encryptMsg_refines P hP k hk hol role r m
  rcases hs : sealMsg P (absSa k) role r m with ⟨sa1, r1, (m2 | _ | _)⟩ <;> rw [hs] at he <;> simp only [] at he
  · cases hg : Gen.ike.encryptMsg P r (some (GenAbs.repMsg m)) (some k) role with
    | ok t3 =>
      rw [hg] at he
      simp only [map_ok', Res.ok.injEq, Prod.mk.injEq] at he
      obtain ⟨e1, e2, e3⟩ := he
      simp only [Res.bind_ok, e1, e2, e3, Encode_rep]
      rcases encodeMsg m2 with (⟨out, h2⟩ | _ | _)
      · simp only [Res.bind_ok, map_ok', absMsg_rep, e3]
      · rfl
      · rfl
    | err => rw [hg] at he; cases he
    | fault => rw [hg] at he; cases he
  · cases hg : Gen.ike.encryptMsg P r (some (GenAbs.repMsg m)) (some k) role with
    | ok t3 => rw [hg] at he; cases he
    | err => rfl
    | fault => rw [hg] at he; cases he
  · cases hg : Gen.ike.encryptMsg P r (some (GenAbs.repMsg m)) (some k) role with
    | ok t3 => rw [hg] at he; cases he
    | err => rw [hg] at he; cases he
    | fault => rfl


/-- frame of `EncodeEncrypt` (strong form): the key object returned is `k` with one hash object reset and fed -/
theorem EncodeEncrypt_frame_macFed (P : Prims) (k : Gen.security.IKESAKey) (hk : SaWF k) (role : Bool) (r : Rand)
    (gm : IKEMessage) (r' : Rand) (gm' : IKEMessage) (k' : Gen.security.IKESAKey) (out : Bytes)
    (h : Gen.ike.EncodeEncrypt P r gm (some k) role = .ok (r', gm', k', out)) : ∃ d, k' = macFed k role d := by
  rw [EncodeEncrypt_some] at h
  obtain ⟨t3, h3, h⟩ := bind_ok_inv h
  obtain ⟨t1, _, h⟩ := bind_ok_inv h
  simp only [Res.ok.injEq, Prod.mk.injEq] at h
  obtain ⟨t3a, t3b, t3c⟩ := t3
  rw [← h.2.2.1]
  exact encryptMsg_frame P k hk role r gm _ _ _ h3

/-- frame of `EncodeEncrypt`: on success the key object is well formed again and has the descriptors, cipher
objects, PRF objects and keys of `k`; of the two integrity hash objects only the buffers may differ -/
theorem EncodeEncrypt_frame (P : Prims) (k : Gen.security.IKESAKey) (hk : SaWF k) (role : Bool) (r : Rand)
    (gm : IKEMessage) (r' : Rand) (gm' : IKEMessage) (k' : Gen.security.IKESAKey) (out : Bytes)
    (h : Gen.ike.EncodeEncrypt P r gm (some k) role = .ok (r', gm', k', out)) :
    SaWF k' ∧
    k'.DhInfo = k.DhInfo ∧ k'.EncrInfo = k.EncrInfo ∧ k'.IntegInfo = k.IntegInfo ∧ k'.PrfInfo = k.PrfInfo ∧
    k'.Prf_d = k.Prf_d ∧ k'.Prf_i = k.Prf_i ∧ k'.Prf_r = k.Prf_r ∧
    k'.Encr_i = k.Encr_i ∧ k'.Encr_r = k.Encr_r ∧
    k'.SK_d = k.SK_d ∧ k'.SK_ai = k.SK_ai ∧ k'.SK_ar = k.SK_ar ∧ k'.SK_ei = k.SK_ei ∧ k'.SK_er = k.SK_er ∧
    k'.SK_pi = k.SK_pi ∧ k'.SK_pr = k.SK_pr ∧
    k'.Integ_i.h = k.Integ_i.h ∧ k'.Integ_i.key = k.Integ_i.key ∧
    k'.Integ_r.h = k.Integ_r.h ∧ k'.Integ_r.key = k.Integ_r.key ∧
    (role = false → k'.Integ_i = k.Integ_i) ∧ (role = true → k'.Integ_r = k.Integ_r) := by
  obtain ⟨d, rfl⟩ := EncodeEncrypt_frame_macFed P k hk role r gm r' gm' k' out h
  exact ⟨macFed_SaWF k hk role d, macFed_fields k role d⟩

/-! ### nil key object -/

/-- with a nil key object `EncodeEncrypt` is `Encode`: the random source comes back unchanged, the key object
returned is the zero value the translation substitutes for the nil pointer -/
theorem EncodeEncrypt_nil_key_full (r : Rand) (m : Msg) (role : Bool) (P : Prims) :
    (Gen.ike.EncodeEncrypt P r (GenAbs.repMsg m) none role).map
        (fun x => (x.1, x.2.2.2, GenAbs.absMsg x.2.1, x.2.2.1)) =
      (encodePlain m).map (fun y => (r, y.1, some y.2, ({} : Gen.security.IKESAKey))) := by
  rw [EncodeEncrypt_none, Encode_rep]
  unfold encodePlain
  rcases encodeMsg m with (⟨bs, h⟩ | _ | _)
  · simp only [Res.bind_ok, map_ok', absMsg_rep]
  · rfl
  · rfl

theorem EncodeEncrypt_nil_key (r : Rand) (m : Msg) (role : Bool) (P : Prims) :
    (Gen.ike.EncodeEncrypt P r (GenAbs.repMsg m) none role).map (fun x => (x.2.2.2, GenAbs.absMsg x.2.1)) =
      (encodePlain m).map (fun y => (y.1, some y.2)) := by
  have h := EncodeEncrypt_nil_key_full r m role P
  cases hg : Gen.ike.EncodeEncrypt P r (GenAbs.repMsg m) none role <;>
    cases hm : encodePlain m <;> rw [hg, hm] at h <;> simp only [map_ok', map_err', map_fault'] at h ⊢ <;>
    first | rfl | cases h | skip
  simp only [Res.ok.injEq, Prod.mk.injEq] at h ⊢
  exact ⟨h.2.1, h.2.2.1⟩

/-- the random source comes back unchanged when the key object is nil -/
theorem EncodeEncrypt_nil_key_rand (r r' : Rand) (gm gm' : IKEMessage) (k' : Gen.security.IKESAKey) (out : Bytes)
    (role : Bool) (P : Prims) (h : Gen.ike.EncodeEncrypt P r gm none role = .ok (r', gm', k', out)) : r' = r := by
  rw [EncodeEncrypt_none] at h
  obtain ⟨t1, _, h⟩ := bind_ok_inv h
  simp only [Res.ok.injEq, Prod.mk.injEq] at h
  exact h.1.symm

/-! ### the refusals -/

theorem encryptMsg_refuses (P : Prims) (k : Gen.security.IKESAKey) (role : Bool) (r : Rand) (gm : IKEMessage)
    (h : k.IntegInfo = .nil_ ∨ k.EncrInfo = .nil_ ∨ Go.Mac.isNil k.Integ_r = true ∨ k.Encr_r.Block = []) :
    Gen.ike.encryptMsg P r (some gm) (some k) role = .err := by
  unfold Gen.ike.encryptMsg
  simp only [Option.isNone_some, Option.getD_some, Bool.false_eq_true, if_false]
  by_cases h1 : k.IntegInfo = .nil_
  · rw [if_pos h1]
  · rw [if_neg h1]
    by_cases h2 : k.EncrInfo = .nil_
    · rw [if_pos h2]
    · rw [if_neg h2]
      by_cases h3 : Go.Mac.isNil k.Integ_r = true
      · rw [if_pos h3]
      · rw [if_neg h3]
        have h4 : k.Encr_r.Block = [] := by
          rcases h with h | h | h | h
          · exact absurd h h1
          · exact absurd h h2
          · exact absurd h h3
          · exact h
        rw [if_pos (by rw [h4]; rfl)]

theorem EncodeEncrypt_refuses (P : Prims) (k : Gen.security.IKESAKey) (role : Bool) (r : Rand) (gm : IKEMessage)
    (h : k.IntegInfo = .nil_ ∨ k.EncrInfo = .nil_ ∨ Go.Mac.isNil k.Integ_r = true ∨ k.Encr_r.Block = []) :
    Gen.ike.EncodeEncrypt P r gm (some k) role = .err := by
  rw [EncodeEncrypt_some, encryptMsg_refuses P k role r gm h]
  rfl


/-! ### the hypothesis `0 ≤ outLenI k.IntegInfo` is needed

A descriptor object with a negative `outputLength` (none is registered; the field is a plain Go `int`) makes the
translated code panic (`make([]byte, n)` / a slice expression with a negative bound) where the hand-written model,
whose lengths are natural numbers (`Int.toNat` of a negative number is 0), carries on. -/

theorem calculateIntegrity_needs_outLen (P : Prims) (k : Gen.security.IKESAKey) (hi : k.IntegInfo ≠ .nil_)
    (hneg : outLenI k.IntegInfo < 0) (hni : Go.Mac.isNil k.Integ_i = false) (d : Bytes) :
    Gen.ike.calculateIntegrity P k true d = .fault ∧ (calcIntegrity P (absSa k) true d).2 = .ok [] := by
  constructor
  · rw [calculateIntegrity_eq P k hi]
    simp only [if_true, hni, Bool.false_eq_true, if_false]
    unfold Go.sliceTo
    rw [if_neg (by omega)]
    rfl
  · unfold calcIntegrity
    simp only [if_true, absSa_outLen]
    have : (outLenI k.IntegInfo).toNat = 0 := by omega
    rw [this]
    simp [goTo]

theorem encodeMsg_again (hdr h1 : Header) (ps : List Payload) (data : Bytes)
    (h : encodeMsg ⟨hdr, ps⟩ = .ok (data, h1)) : encodeMsg ⟨h1, ps⟩ = .ok (data, h1) := by
  unfold encodeMsg at h ⊢
  cases hc : encodeChain ps with
  | err => rw [hc] at h; cases h
  | fault => rw [hc] at h; cases h
  | ok pb =>
    rw [hc] at h
    simp only [Res.bind_ok] at h ⊢
    cases hm : marshalHeader { hdr with next := firstType ps, payloadBytes := pb } with
    | err => rw [hm] at h; cases h
    | fault => rw [hm] at h; cases h
    | ok bs =>
      rw [hm] at h
      simp only [Res.bind_ok, Res.ok.injEq, Prod.mk.injEq] at h
      obtain ⟨rfl, rfl⟩ := h
      simp only [hm, Res.bind_ok]

theorem setTail_zero (d : Bytes) : setTail d 0 [] = d := by
  simp [setTail]

/-- with a negative output length the translated `EncodeEncrypt` panics at `make([]byte, checksumLength)` as soon as
the payloads encode and encrypt, while the model (checksum length 0) returns a datagram -/
theorem EncodeEncrypt_needs_outLen (P : Prims) (hP : P.Lawful) (k : Gen.security.IKESAKey) (hk : SaWF k)
    (hneg : outLenI k.IntegInfo < 0) (role : Bool) (r r1 : Rand) (m : Msg) (plain ct data : Bytes) (h1 : Header)
    (hc : encodeChain m.payloads = .ok plain) (he : encryptPayload P (absSa k) role r plain = (r1, .ok ct))
    (hm : encodeMsg ⟨m.hdr, [.sk (firstType m.payloads) ct]⟩ = .ok (data, h1)) :
    Gen.ike.EncodeEncrypt P r (GenAbs.repMsg m) (some k) role = .fault ∧
    (protect P (absSa k) role r m).2 = (r1, .ok (data, ⟨h1, [.sk (firstType m.payloads) ct]⟩)) := by
  constructor
  · rw [EncodeEncrypt_some, encryptMsg_unfold P k hk,
      show (GenAbs.repMsg m).Payloads = m.payloads.map GenAbs.repPayload from rfl, Gen_Encode_chain, hc]
    simp only [Res.bind_ok, encryptPayload_refines P hP k hk, he]
    unfold Go.make
    rw [if_neg (by omega)]
    rfl
  · unfold protect
    have h0 : (absSa k).integInfo.outLen = 0 := by rw [absSa_outLen]; omega
    simp only [hc, he, h0, zeros, List.replicate_zero, List.append_nil, hm, Nat.not_lt_zero, if_false, Nat.sub_zero]
    unfold calcIntegrity
    cases role <;>
      simp only [h0, goTo, Nat.zero_le, if_true, List.take_zero, Bool.false_eq_true, if_false, setTail_zero,
        encodeMsg_again _ _ _ _ hm]


/-! ### corollaries: registered descriptors; generated messages given by their abstraction -/

/-- `EncodeEncrypt_refines` for the three integrity descriptors package `integ` registers -/
theorem EncodeEncrypt_refines_registered (P : Prims) (hP : P.Lawful) (k : Gen.security.IKESAKey) (hk : SaWF k)
    (hi : k.IntegInfo = .AuthHmacMd5_95 ⟨16, 12⟩ ∨ k.IntegInfo = .AuthHmacSha1_96 ⟨20, 12⟩ ∨
      k.IntegInfo = .AuthHmacSha2_256_128 ⟨32, 16⟩) (role : Bool) (r : Rand) (m : Msg) :
    (Gen.ike.EncodeEncrypt P r (GenAbs.repMsg m) (some k) role).map
        (fun x => (x.1, GenAbs.absMsg x.2.1, absSa x.2.2.1, x.2.2.2)) =
      (match protect P (absSa k) role r m with
       | (sa', r', .ok (out, m')) => .ok (r', some m', sa', out)
       | (_, _, .err) => .err | (_, _, .fault) => .fault) :=
  EncodeEncrypt_refines P hP k hk (outLenI_registered _ hi).2 role r m

private theorem map_rep_abs {α β : Type} (f : α → β) (g : β → α) (h : ∀ x, g (f x) = x) (l : List α) :
    (l.map f).map g = l := by
  induction l with
  | nil => rfl
  | cons a l ih => simp [h a, ih]

theorem repProposal_abs (p : Gen.message.Proposal) : GenAbs.repProposal (GenAbs.absProposal p) = p := by
  cases p
  simp [GenAbs.absProposal, GenAbs.repProposal, map_rep_abs GenAbs.absTransform GenAbs.repTransform (fun _ => rfl)]

/-- a generated payload is the representation of its abstraction -/
theorem repPayload_of_abs (g : IKEPayload) (p : Payload) (h : GenAbs.absPayload g = some p) :
    GenAbs.repPayload p = g := by
  cases g
  case nil_ => simp [GenAbs.absPayload] at h
  all_goals
    simp only [GenAbs.absPayload, Option.some.injEq] at h
    subst h
    first
    | rfl
    | simp [GenAbs.repPayload, map_rep_abs _ _ repProposal_abs,
        map_rep_abs GenAbs.absTSel GenAbs.repTSel (fun _ => rfl),
        map_rep_abs GenAbs.absCPAttr GenAbs.repCPAttr (fun _ => rfl)]

theorem repPayloads_of_abs (gs : List IKEPayload) (ps : List Payload) (h : GenAbs.absPayloads gs = some ps) :
    ps.map GenAbs.repPayload = gs := by
  unfold GenAbs.absPayloads at h
  induction gs generalizing ps with
  | nil => simp at h; subst h; rfl
  | cons g gs ih =>
    simp only [List.mapM_cons, Option.bind_eq_bind] at h
    cases hg : GenAbs.absPayload g with
    | none => rw [hg] at h; simp at h
    | some p =>
      rw [hg] at h
      cases hgs : List.mapM GenAbs.absPayload gs with
      | none => rw [hgs] at h; simp at h
      | some ps' =>
        rw [hgs] at h
        simp at h
        subst h
        simp [repPayload_of_abs g p hg, ih ps' hgs]

/-- a generated message without nil payloads is the representation of its abstraction -/
theorem repMsg_of_absMsg (gm : IKEMessage) (m : Msg) (h : GenAbs.absMsg gm = some m) : GenAbs.repMsg m = gm := by
  unfold GenAbs.absMsg at h
  cases hp : GenAbs.absPayloads gm.Payloads with
  | none => rw [hp] at h; cases h
  | some ps =>
    rw [hp] at h
    simp only [Option.map_some, Option.some.injEq] at h
    subst h
    unfold GenAbs.repMsg
    simp only [repPayloads_of_abs _ _ hp]
    rfl

/-- the same statement for an arbitrary generated message given by its abstraction -/
theorem EncodeEncrypt_refines_abs (P : Prims) (hP : P.Lawful) (k : Gen.security.IKESAKey) (hk : SaWF k)
    (hol : 0 ≤ outLenI k.IntegInfo) (role : Bool) (r : Rand) (gm : IKEMessage) (m : Msg)
    (hm : GenAbs.absMsg gm = some m) :
    (Gen.ike.EncodeEncrypt P r gm (some k) role).map
        (fun x => (x.1, GenAbs.absMsg x.2.1, absSa x.2.2.1, x.2.2.2)) =
      (match protect P (absSa k) role r m with
       | (sa', r', .ok (out, m')) => .ok (r', some m', sa', out)
       | (_, _, .err) => .err | (_, _, .fault) => .fault) := by
  rw [← repMsg_of_absMsg gm m hm]
  exact EncodeEncrypt_refines P hP k hk hol role r m


end Ike.RefineSa.Enc
