import IkeProofs.RefineSa.RandNum
import IkeProofs.Theorems.C11

/-! The remaining translated functions of `security/security.go` (`Gen_security.lean`) ⊑ the hand-written
model `IkeModel/Security/Registry.lean`: `NewChildSAKeyByProposal` ⊑ `selectChild`, the two `ToProposal` ⊑
`ikeToProposal` / `childToProposal`, the selection part of `NewIKESAKey` ⊑ `selectIke`, and closed forms of
`CompareRootCertificate`, `GenerateRandomUint8`. -/

set_option linter.unusedSimpArgs false
set_option linter.unusedVariables false
set_option maxRecDepth 8192

namespace Ike.RefineSa
open Ike Ike.GenAbsSa

/-! ### what the decoders of the initialised registries return -/

private theorem map_ok_inv {α β : Type} {r : Res α} {f : α → β} {y : β} (h : r.map f = .ok y) :
    ∃ x, r = .ok x ∧ f x = y := by
  cases r with
  | ok x => exact ⟨x, rfl, by simpa [Res.map] using h⟩
  | err => cases h
  | fault => cases h

theorem absDh_none_iff (d : Gen.dh.DHType) : RefineReg.absDh d = none ↔ d = .nil_ := by
  cases d <;> simp [RefineReg.absDh]
theorem absEncr_none_iff (d : Gen.encr.ENCRType) : RefineReg.absEncr d = none ↔ d = .nil_ := by
  cases d <;> simp [RefineReg.absEncr]
theorem absEncrK_none_iff (d : Gen.encr.ENCRKType) : RefineReg.absEncrK d = none ↔ d = .nil_ := by
  cases d <;> simp [RefineReg.absEncrK]
theorem absInteg_none_iff (d : Gen.integ.INTEGType) : RefineReg.absInteg d = none ↔ d = .nil_ := by
  cases d <;> simp [RefineReg.absInteg]
theorem absIntegK_none_iff (d : Gen.integ.INTEGKType) : RefineReg.absIntegK d = none ↔ d = .nil_ := by
  cases d <;> simp [RefineReg.absIntegK]
theorem absPrf_none_iff (d : Gen.prf.PRFType) : RefineReg.absPrf d = none ↔ d = .nil_ := by
  cases d <;> simp [RefineReg.absPrf]

theorem dh_decoded (t : Transform) :
    ∃ d, Gen.dh.DecodeTransform RefineReg.dhG t = .ok d ∧ RefineReg.absDh d = Registry.decodeDh t :=
  map_ok_inv (RefineReg.dh_DecodeTransform_refines t)
theorem encrK_decoded (t : Transform) :
    ∃ d, Gen.encr.DecodeTransformChildSA RefineReg.encrG t = .ok d ∧
      RefineReg.absEncrK d = Registry.decodeEncrChild t :=
  map_ok_inv (RefineReg.encr_DecodeTransformChildSA_refines t)
theorem integK_decoded (t : Transform) :
    ∃ d, Gen.integ.DecodeTransformChildSA RefineReg.integG t = .ok d ∧
      RefineReg.absIntegK d = Registry.decodeIntegChild t :=
  map_ok_inv (RefineReg.integ_DecodeTransformChildSA_refines t)

/-! ### 1. `NewChildSAKeyByProposal` -/

/-- the descriptors of a generated Child SA object as the model's `ChildSuite`; `none` when the (mandatory)
encryption descriptor is nil -/
def absChildSuite (c : Gen.security.ChildSAKey) : Option Registry.ChildSuite :=
  match RefineReg.absEncrK c.EncrKInfo with
  | none => none
  | some e => some ⟨RefineReg.absDh c.DhInfo, e, RefineReg.absIntegK c.IntegKInfo, RefineReg.absEsn c.EsnInfo⟩

/-- the key fields and the SPI of a Child SA object are still the zero values -/
def ChildFresh (c : Gen.security.ChildSAKey) : Prop :=
  c.SPI = 0 ∧ c.InitiatorToResponderEncryptionKey = [] ∧ c.ResponderToInitiatorEncryptionKey = [] ∧
  c.InitiatorToResponderIntegrityKey = [] ∧ c.ResponderToInitiatorIntegrityKey = []

/-- the DH choice of the translated `NewChildSAKeyByProposal`: decoded only when there is exactly ONE DH transform
(an unsupported one is refused); otherwise the descriptor stays nil -/
def childDhG (l : List Transform) : Res Gen.dh.DHType :=
  match l with
  | [d] => Gen.dh.DecodeTransform RefineReg.dhG d >>= fun x => if x = .nil_ then .err else .ok x
  | _ => .ok .nil_

/-- the integrity choice: decoded only when there is exactly ONE integrity transform (`i` the first, `ir` the rest) -/
def childIntegG (i : Transform) (ir : List Transform) : Res Gen.integ.INTEGKType :=
  match ir with
  | [] => Gen.integ.DecodeTransformChildSA RefineReg.integG i >>= fun x => if x = .nil_ then .err else .ok x
  | _ => .ok .nil_

/-- closed form of the translated function on the initialised registries: the checks and decodes in source order -/
theorem NewChildSAKeyByProposal_eq (p : Proposal) (e i n : Transform) (er ir nr : List Transform)
    (he : p.encr = e :: er) (hi : p.integ = i :: ir) (hn : p.esn = n :: nr) :
    Gen.security.NewChildSAKeyByProposal RefineReg.dhG RefineReg.encrG RefineReg.esnG RefineReg.integG (some p) =
      (childDhG p.dh >>= fun dh =>
       Gen.encr.DecodeTransformChildSA RefineReg.encrG e >>= fun en =>
       if en = .nil_ then .err else
       childIntegG i ir >>= fun ig =>
       Gen.esn.DecodeTransform RefineReg.esnG n >>= fun es =>
       .ok { DhInfo := dh, EncrKInfo := en, IntegKInfo := ig, EsnInfo := es }) := by
  unfold Gen.security.NewChildSAKeyByProposal childDhG childIntegG
  simp only [Option.isNone_some, Option.getD_some, Bool.false_eq_true, if_false, he, hi, hn, List.length_cons,
    Nat.add_one_ne_zero, Go.indexN, Nat.zero_lt_succ, if_true, List.getD_cons_zero, Res.bind_ok]
  have tail : ∀ c : Gen.security.ChildSAKey,
      (Gen.encr.DecodeTransformChildSA RefineReg.encrG e >>= fun t2 =>
        if ({ c with EncrKInfo := t2 } : Gen.security.ChildSAKey).EncrKInfo = .nil_ then Res.err
        else if ir.length + 1 = 1 then
          Gen.integ.DecodeTransformChildSA RefineReg.integG i >>= fun t7 =>
            if ({ c with EncrKInfo := t2, IntegKInfo := t7 } : Gen.security.ChildSAKey).IntegKInfo = .nil_ then Res.err
            else Gen.esn.DecodeTransform RefineReg.esnG n >>= fun t4 =>
              Res.ok ({ c with EncrKInfo := t2, IntegKInfo := t7, EsnInfo := t4 } : Gen.security.ChildSAKey)
        else Gen.esn.DecodeTransform RefineReg.esnG n >>= fun t4 =>
          Res.ok ({ c with EncrKInfo := t2, EsnInfo := t4 } : Gen.security.ChildSAKey)) =
      (Gen.encr.DecodeTransformChildSA RefineReg.encrG e >>= fun en =>
       if en = .nil_ then .err else
       (match ir with
        | [] => Gen.integ.DecodeTransformChildSA RefineReg.integG i >>= fun x => if x = .nil_ then .err else .ok x
        | _ => .ok c.IntegKInfo) >>= fun ig =>
       Gen.esn.DecodeTransform RefineReg.esnG n >>= fun es =>
       .ok { c with EncrKInfo := en, IntegKInfo := ig, EsnInfo := es }) := by
    intro c
    cases Gen.encr.DecodeTransformChildSA RefineReg.encrG e with
    | err => rfl
    | fault => rfl
    | ok en =>
      simp only [Res.bind_ok]
      by_cases hen : en = .nil_
      · rw [if_pos hen, if_pos hen]
      rw [if_neg hen, if_neg hen]
      cases ir with
      | nil =>
        simp only [List.length_nil, Nat.zero_add, if_true]
        cases Gen.integ.DecodeTransformChildSA RefineReg.integG i with
        | err => rfl
        | fault => rfl
        | ok ig =>
          simp only [Res.bind_ok]
          by_cases hig : ig = .nil_
          · rw [if_pos hig, if_pos hig]; rfl
          rw [if_neg hig, if_neg hig]
          rfl
      | cons i2 ir2 =>
        have : ¬ (i2 :: ir2).length + 1 = 1 := by simp
        rw [if_neg this]
        rfl
  cases hd : p.dh with
  | nil =>
    simp only [List.length_nil, Nat.zero_ne_one, if_false, Res.bind_ok]
    exact tail {}
  | cons d dr =>
    cases dr with
    | nil =>
      simp only [List.length_cons, List.length_nil, Nat.zero_add, if_true, List.getD_cons_zero, Res.bind_ok,
        Nat.zero_lt_one, Nat.lt_add_one]
      cases Gen.dh.DecodeTransform RefineReg.dhG d with
      | err => rfl
      | fault => rfl
      | ok x =>
        simp only [Res.bind_ok]
        by_cases hx : x = .nil_
        · rw [if_pos hx, if_pos hx]; rfl
        rw [if_neg hx, if_neg hx]
        simp only [Res.bind_ok]
        exact tail { DhInfo := x }
    | cons d2 dr2 =>
      have : ¬ (d :: d2 :: dr2).length = 1 := by simp
      rw [if_neg this]
      simp only [Res.bind_ok]
      exact tail {}

theorem NewChildSAKeyByProposal_refines (po : Option Proposal) :
    (Gen.security.NewChildSAKeyByProposal RefineReg.dhG RefineReg.encrG RefineReg.esnG RefineReg.integG po).map
        absChildSuite = (Registry.selectChild po).map some := by
  cases po with
  | none => rfl
  | some p =>
  cases he : p.encr with
  | nil =>
    unfold Gen.security.NewChildSAKeyByProposal Registry.selectChild
    simp [he]
  | cons e er =>
  cases hi : p.integ with
  | nil =>
    unfold Gen.security.NewChildSAKeyByProposal Registry.selectChild
    simp [he, hi]
  | cons i ir =>
  cases hn : p.esn with
  | nil =>
    unfold Gen.security.NewChildSAKeyByProposal Registry.selectChild
    simp [he, hi, hn]
  | cons n nr =>
  rw [NewChildSAKeyByProposal_eq p e i n er ir nr he hi hn]
  unfold Registry.selectChild childDhG childIntegG
  simp only [he, hi, hn]
  clear he hi hn
  obtain ⟨en, hen, aen⟩ := encrK_decoded e
  obtain ⟨ig, hig, aig⟩ := integK_decoded i
  have hes := RefineReg.esn_DecodeTransform_refines n
  rw [hen, ← aen, ← hes]
  -- everything after the DH group, for every DH descriptor already stored
  have tail : ∀ dh : Gen.dh.DHType,
      Res.map absChildSuite
        ((if en = .nil_ then Res.err else
          (match ir with
            | [] => Gen.integ.DecodeTransformChildSA RefineReg.integG i >>= fun x =>
                if x = .nil_ then Res.err else Res.ok x
            | _ => Res.ok .nil_) >>= fun ig =>
          Gen.esn.DecodeTransform RefineReg.esnG n >>= fun es =>
          Res.ok ({ DhInfo := dh, EncrKInfo := en, IntegKInfo := ig, EsnInfo := es } : Gen.security.ChildSAKey))) =
      Res.map some
        (match RefineReg.absEncrK en with
        | none => Res.err
        | some en' =>
          match
            (match ir with
            | [] =>
              (match Registry.decodeIntegChild i with
              | none => Res.err
              | some x => Res.ok (some x))
            | _ => Res.ok none : Res (Option Registry.IntegKInfo)) with
          | Res.err => Res.err
          | Res.fault => Res.fault
          | Res.ok ig' =>
            match Res.map RefineReg.absEsn (Gen.esn.DecodeTransform RefineReg.esnG n) with
            | Res.ok es => Res.ok { dh := RefineReg.absDh dh, encr := en', integ := ig', esn := es }
            | Res.err => Res.err
            | Res.fault => Res.fault) := by
    intro dh
    cases en with
    | nil_ => rfl
    | EncrAesCbc v =>
      simp only [RefineReg.absEncrK, reduceCtorEq, if_false]
      cases ir with
      | nil =>
        simp only [hig, ← aig, Res.bind_ok]
        cases ig <;> simp only [RefineReg.absIntegK, reduceCtorEq, if_false, if_true, Res.bind_ok, Res.bind_err,
          Res.map] <;> cases Gen.esn.DecodeTransform RefineReg.esnG n <;> rfl
      | cons i2 ir2 =>
        simp only [Res.bind_ok]
        cases Gen.esn.DecodeTransform RefineReg.esnG n <;> rfl
  cases hd : p.dh with
  | nil => simp only [Res.bind_ok]; exact tail .nil_
  | cons d dr =>
    cases dr with
    | nil =>
      obtain ⟨x, hx, ax⟩ := dh_decoded d
      simp only [hx, ← ax, Res.bind_ok]
      cases x with
      | nil_ => rfl
      | Dh1024BitModp v => simp only [reduceCtorEq, if_false, Res.bind_ok, RefineReg.absDh]; exact tail _
      | DH2048BitModp v => simp only [reduceCtorEq, if_false, Res.bind_ok, RefineReg.absDh]; exact tail _
    | cons d2 dr2 => simp only [Res.bind_ok]; exact tail .nil_

/-! #### what a returned Child SA object looks like -/

private theorem bind_ok_inv {α β : Type} {r : Res α} {f : α → Res β} {y : β} (h : (r >>= f) = .ok y) :
    ∃ x, r = .ok x ∧ f x = .ok y := by
  cases r with
  | ok x => exact ⟨x, rfl, h⟩
  | err => cases h
  | fault => cases h

theorem childDhG_ok (l : List Transform) (x : Gen.dh.DHType) (h : childDhG l = .ok x) :
    (∃ d, l = [d] ∧ Gen.dh.DecodeTransform RefineReg.dhG d = .ok x ∧ x ≠ .nil_) ∨ (l.length ≠ 1 ∧ x = .nil_) := by
  unfold childDhG at h
  rcases l with _ | ⟨d, _ | ⟨d2, dr⟩⟩
  · simp only [Res.ok.injEq] at h
    exact Or.inr ⟨by simp, h.symm⟩
  · simp only at h
    obtain ⟨y, hy, h2⟩ := bind_ok_inv h
    by_cases hn : y = .nil_
    · rw [if_pos hn] at h2; cases h2
    · rw [if_neg hn] at h2
      simp only [Res.ok.injEq] at h2
      subst h2
      exact Or.inl ⟨d, rfl, hy, hn⟩
  · simp only [Res.ok.injEq] at h
    exact Or.inr ⟨by simp, h.symm⟩

theorem childIntegG_ok (i : Transform) (ir : List Transform) (x : Gen.integ.INTEGKType)
    (h : childIntegG i ir = .ok x) :
    (ir = [] ∧ Gen.integ.DecodeTransformChildSA RefineReg.integG i = .ok x ∧ x ≠ .nil_) ∨
      (ir ≠ [] ∧ x = .nil_) := by
  unfold childIntegG at h
  rcases ir with _ | ⟨i2, ir2⟩
  · simp only at h
    obtain ⟨y, hy, h2⟩ := bind_ok_inv h
    by_cases hn : y = .nil_
    · rw [if_pos hn] at h2; cases h2
    · rw [if_neg hn] at h2
      simp only [Res.ok.injEq] at h2
      subst h2
      exact Or.inl ⟨rfl, hy, hn⟩
  · simp only [Res.ok.injEq] at h
    exact Or.inr ⟨by simp, h.symm⟩

/-- every refusal of the translated function is an error, never a panic (on the initialised registries) -/
theorem NewChildSAKeyByProposal_ne_fault (po : Option Proposal) :
    Gen.security.NewChildSAKeyByProposal RefineReg.dhG RefineReg.encrG RefineReg.esnG RefineReg.integG po ≠ .fault := by
  intro h
  have hr := NewChildSAKeyByProposal_refines po
  rw [h] at hr
  cases hs : Registry.selectChild po with
  | ok s => rw [hs] at hr; cases hr
  | err => rw [hs] at hr; cases hr
  | fault =>
    cases po with
    | none => cases hs
    | some p => exact (C11_sa_child_iff p default).2.1 hs

/-- the exact shape of a returned object: which transform each descriptor was decoded from, which descriptors stay
nil, and that nothing else is set -/
theorem NewChildSAKeyByProposal_ok (po : Option Proposal) (c : Gen.security.ChildSAKey)
    (h : Gen.security.NewChildSAKeyByProposal RefineReg.dhG RefineReg.encrG RefineReg.esnG RefineReg.integG po
      = .ok c) :
    ∃ (p : Proposal) (e i n : Transform) (er ir nr : List Transform),
      po = some p ∧ p.encr = e :: er ∧ p.integ = i :: ir ∧ p.esn = n :: nr ∧
      ((∃ d, p.dh = [d] ∧ Gen.dh.DecodeTransform RefineReg.dhG d = .ok c.DhInfo ∧ c.DhInfo ≠ .nil_) ∨
        (p.dh.length ≠ 1 ∧ c.DhInfo = .nil_)) ∧
      Gen.encr.DecodeTransformChildSA RefineReg.encrG e = .ok c.EncrKInfo ∧ c.EncrKInfo ≠ .nil_ ∧
      ((ir = [] ∧ Gen.integ.DecodeTransformChildSA RefineReg.integG i = .ok c.IntegKInfo ∧ c.IntegKInfo ≠ .nil_) ∨
        (ir ≠ [] ∧ c.IntegKInfo = .nil_)) ∧
      Gen.esn.DecodeTransform RefineReg.esnG n = .ok c.EsnInfo ∧
      ChildFresh c := by
  cases po with
  | none => cases h
  | some p =>
  cases he : p.encr with
  | nil =>
    unfold Gen.security.NewChildSAKeyByProposal at h
    simp [he] at h
  | cons e er =>
  cases hi : p.integ with
  | nil =>
    unfold Gen.security.NewChildSAKeyByProposal at h
    simp [he, hi] at h
  | cons i ir =>
  cases hn : p.esn with
  | nil =>
    unfold Gen.security.NewChildSAKeyByProposal at h
    simp [he, hi, hn] at h
  | cons n nr =>
  rw [NewChildSAKeyByProposal_eq p e i n er ir nr he hi hn] at h
  obtain ⟨dh, hdh, h⟩ := bind_ok_inv h
  obtain ⟨en, hen, h⟩ := bind_ok_inv h
  by_cases henn : en = .nil_
  · rw [if_pos henn] at h; cases h
  rw [if_neg henn] at h
  obtain ⟨ig, hig, h⟩ := bind_ok_inv h
  obtain ⟨es, hes, h⟩ := bind_ok_inv h
  simp only [Res.ok.injEq] at h
  subst h
  exact ⟨p, e, i, n, er, ir, nr, rfl, he, hi, hn, childDhG_ok _ _ hdh, hen, henn, childIntegG_ok _ _ _ hig, hes,
    rfl, rfl, rfl, rfl, rfl⟩

/-- non-vacuity: a proposal without DH group; one with two integrity transforms (accepted, `IntegKInfo` stays nil);
an unsupported ESN transform identifier (error) -/
example :
    Gen.security.NewChildSAKeyByProposal RefineReg.dhG RefineReg.encrG RefineReg.esnG RefineReg.integG
      (some ⟨1, 3, [1, 2, 3, 4], [⟨1, 12, true, 1, 14, 256, []⟩], [], [⟨3, 2, false, 0, 0, 0, []⟩], [],
        [⟨5, 0, false, 0, 0, 0, []⟩]⟩) =
      .ok { EncrKInfo := .EncrAesCbc ⟨32⟩, IntegKInfo := .AuthHmacSha1_96 ⟨20, 12⟩, EsnInfo := ⟨false⟩ } ∧
    Gen.security.NewChildSAKeyByProposal RefineReg.dhG RefineReg.encrG RefineReg.esnG RefineReg.integG
      (some ⟨1, 3, [1, 2, 3, 4], [⟨1, 12, true, 1, 14, 128, []⟩], [],
        [⟨3, 2, false, 0, 0, 0, []⟩, ⟨3, 12, false, 0, 0, 0, []⟩], [], [⟨5, 1, false, 0, 0, 0, []⟩]⟩) =
      .ok { EncrKInfo := .EncrAesCbc ⟨16⟩, EsnInfo := ⟨true⟩ } ∧
    Gen.security.NewChildSAKeyByProposal RefineReg.dhG RefineReg.encrG RefineReg.esnG RefineReg.integG
      (some ⟨1, 3, [1, 2, 3, 4], [⟨1, 12, true, 1, 14, 256, []⟩], [], [⟨3, 2, false, 0, 0, 0, []⟩], [],
        [⟨5, 2, false, 0, 0, 0, []⟩]⟩) = .err := by
  decide

/-- on success the four key fields are `[]` and `SPI = 0`: only descriptors are set -/
theorem NewChildSAKeyByProposal_fresh (po : Option Proposal) (c : Gen.security.ChildSAKey)
    (h : Gen.security.NewChildSAKeyByProposal RefineReg.dhG RefineReg.encrG RefineReg.esnG RefineReg.integG po
      = .ok c) :
    c.SPI = 0 ∧ c.InitiatorToResponderEncryptionKey = [] ∧ c.ResponderToInitiatorEncryptionKey = [] ∧
    c.InitiatorToResponderIntegrityKey = [] ∧ c.ResponderToInitiatorIntegrityKey = [] := by
  obtain ⟨_, _, _, _, _, _, _, _, _, _, _, _, _, _, _, _, hf⟩ := NewChildSAKeyByProposal_ok po c h
  exact hf

/-! ### 2. `IKESAKey.ToProposal` -/

/-- the DH descriptor as the registry model's `DhInfo` (total version of `RefineReg.absDh`) -/
def absDhInfo : Gen.dh.DHType → Registry.DhInfo
  | .nil_ => ⟨0, 0, 0, 0⟩
  | .Dh1024BitModp v => RefineReg.absInfo1024 v
  | .DH2048BitModp v => RefineReg.absInfo2048 v

/-- key length not negative (true of every descriptor the registries register; the model's length is a `Nat`) -/
def EncrNonneg : Gen.encr.ENCRType → Prop
  | .nil_ => True
  | .EncrAesCbc v => 0 ≤ v.keyLength

def EncrKNonneg : Gen.encr.ENCRKType → Prop
  | .nil_ => True
  | .EncrAesCbc v => 0 ≤ v.keyLength

theorem absDh_eq_some {d : Gen.dh.DHType} (h : d ≠ .nil_) : RefineReg.absDh d = some (absDhInfo d) := by
  cases d <;> first | exact absurd rfl h | rfl
theorem absEncr_eq_some {d : Gen.encr.ENCRType} (h : d ≠ .nil_) : RefineReg.absEncr d = some (absEncrInfo d) := by
  cases d <;> first | exact absurd rfl h | rfl
theorem absInteg_eq_some {d : Gen.integ.INTEGType} (h : d ≠ .nil_) :
    RefineReg.absInteg d = some (absIntegInfo d) := by
  cases d <;> first | exact absurd rfl h | rfl
theorem absPrf_eq_some {d : Gen.prf.PRFType} (h : d ≠ .nil_) : RefineReg.absPrf d = some (absPrfInfo d) := by
  cases d <;> first | exact absurd rfl h | rfl

theorem dh_ToTransform_ok {d : Gen.dh.DHType} (h : d ≠ .nil_) :
    Gen.dh.ToTransform d = .ok (Registry.dhToTransform (absDhInfo d)) := by
  rw [RefineReg.dh_ToTransform_refines, absDh_eq_some h]

theorem encr_ToTransform_ok {d : Gen.encr.ENCRType} (h : d ≠ .nil_) (hl : EncrNonneg d) :
    Gen.encr.ToTransform d = Registry.encrToTransform (absEncrInfo d) := by
  cases d with
  | nil_ => exact absurd rfl h
  | EncrAesCbc v => exact RefineReg.encr_ToTransform_refines v hl

/-- the translated `IKESAKey.ToProposal` is the model's `ikeToProposal` on the abstracted descriptors, for every SA
object whose four descriptors are non-nil and whose key length is not negative (the other fields are not read) -/
theorem IKESAKey_ToProposal_refines_of_nonnil (k : Gen.security.IKESAKey)
    (hd : k.DhInfo ≠ .nil_) (he : k.EncrInfo ≠ .nil_) (hi : k.IntegInfo ≠ .nil_) (hp : k.PrfInfo ≠ .nil_)
    (hl : EncrNonneg k.EncrInfo) :
    Gen.security.IKESAKey.ToProposal k =
      Registry.ikeToProposal ⟨absDhInfo k.DhInfo, absEncrInfo k.EncrInfo, absIntegInfo k.IntegInfo,
        absPrfInfo k.PrfInfo⟩ := by
  unfold Gen.security.IKESAKey.ToProposal Registry.ikeToProposal
  rw [dh_ToTransform_ok hd, RefineReg.prf_ToTransform_refines _ _ (absPrf_eq_some hp), encr_ToTransform_ok he hl,
    RefineReg.integ_ToTransform_refines _ _ (absInteg_eq_some hi)]
  simp only [Res.bind_ok]
  show (Registry.encrToTransform (absEncrInfo k.EncrInfo) >>= fun t3 => _) =
    (Registry.encrToTransform (absEncrInfo k.EncrInfo) >>= fun e => _)
  cases Registry.encrToTransform (absEncrInfo k.EncrInfo) with
  | err => rfl
  | fault => rfl
  | ok t => rfl

theorem SaRegistered.encrNonneg {k : Gen.security.IKESAKey} (h : SaRegistered k) : EncrNonneg k.EncrInfo := by
  rcases h.encr with e | e | e <;> rw [e] <;> simp [EncrNonneg]

/-- the target statement: registered descriptors (`hdh` is not needed: `SaRegistered` already asks for a non-nil
DH descriptor, and `dh.ToTransform` reads nothing but the constant `TransformID()`) -/
theorem IKESAKey_ToProposal_refines (k : Gen.security.IKESAKey) (hk : SaRegistered k)
    (hdh : DhRegistered k.DhInfo) :
    Gen.security.IKESAKey.ToProposal k =
      Registry.ikeToProposal ⟨absDhInfo k.DhInfo, absEncrInfo k.EncrInfo, absIntegInfo k.IntegInfo,
        absPrfInfo k.PrfInfo⟩ :=
  IKESAKey_ToProposal_refines_of_nonnil k hk.dh
    (by rcases hk.encr with e | e | e <;> rw [e] <;> exact fun h => by cases h)
    (by rcases hk.integ with e | e | e <;> rw [e] <;> exact fun h => by cases h)
    (by rcases hk.prf with e | e | e <;> rw [e] <;> exact fun h => by cases h) hk.encrNonneg

/-- a nil DH, PRF or encryption descriptor: the method call on the nil interface value panics -/
theorem IKESAKey_ToProposal_nil (k : Gen.security.IKESAKey)
    (h : k.DhInfo = .nil_ ∨ k.PrfInfo = .nil_ ∨ k.EncrInfo = .nil_) :
    Gen.security.IKESAKey.ToProposal k = .fault := by
  unfold Gen.security.IKESAKey.ToProposal
  by_cases hd : k.DhInfo = .nil_
  · rw [hd]; rfl
  rw [dh_ToTransform_ok hd]
  by_cases hp : k.PrfInfo = .nil_
  · rw [hp]; rfl
  rw [RefineReg.prf_ToTransform_refines _ _ (absPrf_eq_some hp)]
  rcases h with h | h | h
  · exact absurd h hd
  · exact absurd h hp
  · rw [h]; rfl

/-- … and a nil integrity descriptor panics once the encryption transform is built -/
theorem IKESAKey_ToProposal_nil_integ (k : Gen.security.IKESAKey) (hi : k.IntegInfo = .nil_) (p : Proposal) :
    Gen.security.IKESAKey.ToProposal k ≠ .ok p := by
  unfold Gen.security.IKESAKey.ToProposal
  intro h
  obtain ⟨_, _, h⟩ := bind_ok_inv h
  obtain ⟨_, _, h⟩ := bind_ok_inv h
  obtain ⟨_, _, h⟩ := bind_ok_inv h
  rw [hi] at h
  cases h

/-- the hypothesis on the key length is needed: with a (never registered) negative key length the Go code returns
an error where the model, whose length is a `Nat`, builds a transform with key-length attribute 0 -/
theorem IKESAKey_ToProposal_needs_nonneg :
    Gen.security.IKESAKey.ToProposal
      { DhInfo := .Dh1024BitModp RefineReg.desc1024, EncrInfo := .EncrAesCbc ⟨-1⟩,
        IntegInfo := .AuthHmacSha1_96 ⟨20, 12⟩, PrfInfo := .PrfHmacSha1 ⟨20, 20⟩ } = .err ∧
    ∃ p, Registry.ikeToProposal ⟨absDhInfo (.Dh1024BitModp RefineReg.desc1024), absEncrInfo (.EncrAesCbc ⟨-1⟩),
      absIntegInfo (.AuthHmacSha1_96 ⟨20, 12⟩), absPrfInfo (.PrfHmacSha1 ⟨20, 20⟩)⟩ = .ok p := by
  constructor
  · unfold Gen.security.IKESAKey.ToProposal
    rw [dh_ToTransform_ok (by intro h; cases h), (RefineReg.aesCbc_getAttribute_negative ⟨-1⟩ (by decide)).1]
    rfl
  · exact ⟨_, rfl⟩

/-! ### 3. `ChildSAKey.ToProposal` -/

/-- both outcomes of `integ.ToTransformChildSA` (a nil `INTEGKType` makes it panic) -/
theorem integK_ToTransform_eq (d : Gen.integ.INTEGKType) :
    Gen.integ.ToTransformChildSA d = match RefineReg.absIntegK d with
      | some i => .ok (Registry.integChildToTransform i)
      | none => .fault := by
  cases d <;> rfl

theorem ChildSAKey_ToProposal_refines (c : Gen.security.ChildSAKey) (s : Registry.ChildSuite)
    (h : absChildSuite c = some s) (hl : EncrKNonneg c.EncrKInfo) :
    Gen.security.ChildSAKey.ToProposal c = Registry.childToProposal s := by
  obtain ⟨spi, dh, en, ig, es, k1, k2, k3, k4⟩ := c
  unfold absChildSuite at h
  cases en with
  | nil_ => simp [RefineReg.absEncrK] at h
  | EncrAesCbc v =>
    simp only [RefineReg.absEncrK, Option.some.injEq] at h
    subst h
    unfold Gen.security.ChildSAKey.ToProposal Registry.childToProposal
    simp only [RefineReg.encr_ToTransformChildSA_refines v hl, RefineReg.esn_ToTransform_refines, Res.bind_ok]
    cases Registry.encrChildToTransform ⟨12, v.keyLength.toNat⟩ with
    | err => cases dh <;> simp [RefineReg.dh_ToTransform_refines_1024, RefineReg.dh_ToTransform_refines_2048]
    | fault => cases dh <;> simp [RefineReg.dh_ToTransform_refines_1024, RefineReg.dh_ToTransform_refines_2048]
    | ok t =>
      cases dh <;> cases ig <;>
        simp [RefineReg.dh_ToTransform_refines_1024, RefineReg.dh_ToTransform_refines_2048, RefineReg.absDh,
          RefineReg.absIntegK, integK_ToTransform_eq, GenExt.Proposal_zero,
          Facts.protoESP]

/-- a nil encryption descriptor (the object `absChildSuite` maps to `none`): the method call panics -/
theorem ChildSAKey_ToProposal_nil (c : Gen.security.ChildSAKey) (h : c.EncrKInfo = .nil_) :
    Gen.security.ChildSAKey.ToProposal c = .fault := by
  obtain ⟨spi, dh, en, ig, es, k1, k2, k3, k4⟩ := c
  simp only at h
  subst h
  unfold Gen.security.ChildSAKey.ToProposal
  cases dh <;> simp [RefineReg.dh_ToTransform_refines_1024, RefineReg.dh_ToTransform_refines_2048,
    RefineReg.encr_ToTransformChildSA_nil]

/-- the hypothesis on the key length is needed (same reason as for the IKE SA) -/
theorem ChildSAKey_ToProposal_needs_nonneg :
    Gen.security.ChildSAKey.ToProposal { EncrKInfo := .EncrAesCbc ⟨-1⟩ } = .err ∧
    ∃ s p, absChildSuite { EncrKInfo := .EncrAesCbc ⟨-1⟩ } = some s ∧ Registry.childToProposal s = .ok p := by
  constructor
  · decide
  · exact ⟨_, _, rfl, rfl⟩

/-! ### 5. `CompareRootCertificate` -/

/-- 4 = `message.X509CertificateSignature`: `true` exactly for that encoding, a non-empty CA value and equal octets
(`bytes.Equal`); the function is total (its only result is the `bool`) -/
theorem CompareRootCertificate_spec (ca : Bytes) (enc : UInt8) (h : Bytes) :
    Gen.security.CompareRootCertificate ca enc h = .ok (decide (enc = 4 ∧ ca ≠ [] ∧ ca = h)) := by
  unfold Gen.security.CompareRootCertificate
  by_cases he : enc = 4
  · subst he
    cases ca with
    | nil => simp
    | cons b bs =>
      simp only [List.length_cons, Nat.add_one_ne_zero, if_false, ne_eq, reduceCtorEq, not_false_eq_true, true_and,
        Res.ok.injEq, Ne, not_true_eq_false]
      by_cases hh : b :: bs = h
      · simp [hh]
      · simp [hh]
  · simp [he]

/-! ### 6. `GenerateRandomUint8` -/

/-- one read of ONE octet from the source; a failing read is an error; the octet is the next one of the stream -/
theorem GenerateRandomUint8_spec (r : Rand) :
    Gen.security.GenerateRandomUint8 r =
      (match r.draw 1 with
       | (r', .ok [b]) => .ok (r', b)
       | (_, .ok _) => .fault
       | (_, .err) => .err
       | (_, .fault) => .fault) := by
  unfold Gen.security.GenerateRandomUint8 Go.randFill Rand.draw
  by_cases hf : r.failAt = some r.reads
  · simp [hf, zeros]
  · simp [hf, zeros, cyc, goIndex, byteAt]

/-- explicit form -/
theorem GenerateRandomUint8_eq (r : Rand) :
    Gen.security.GenerateRandomUint8 r =
      (if r.failAt = some r.reads then .err
       else .ok ({ r with reads := r.reads + 1, pos := r.pos + 1 }, byteAt r.buf (r.pos % r.buf.length))) := by
  rw [GenerateRandomUint8_spec]
  unfold Rand.draw
  by_cases hf : r.failAt = some r.reads
  · simp [hf]
  · simp [hf, cyc]

/-! ### 7. the selection part of `NewIKESAKey` -/

/-- the closed forms of the translated decoders (`decDh` …) abstract to the model's decoders -/
theorem absDh_decDh (t : Transform) : RefineReg.absDh (decDh t) = Registry.decodeDh t := by
  have h := RefineReg.dh_DecodeTransform_refines t
  rw [dh_DecodeTransform_eval] at h
  simpa [Res.map] using h
theorem absEncr_decEncr (t : Transform) : RefineReg.absEncr (decEncr t) = Registry.decodeEncr t := by
  have h := RefineReg.encr_DecodeTransform_refines t
  rw [encr_DecodeTransform_eval'] at h
  simpa [Res.map] using h
theorem absInteg_decInteg (t : Transform) : RefineReg.absInteg (decInteg t) = Registry.decodeInteg t := by
  have h := RefineReg.integ_DecodeTransform_refines t
  rw [integ_DecodeTransform_eval'] at h
  simpa [Res.map] using h
theorem absPrf_decPrf (t : Transform) : RefineReg.absPrf (decPrf t) = Registry.decodePrf t := by
  have h := RefineReg.prf_DecodeTransform_refines t
  rw [prf_DecodeTransform_eval'] at h
  simpa [Res.map] using h

/-- the four descriptors of an IKE SA object as the model's `IkeAlgs` (the integrity descriptor may be nil there:
`NewIKESAKey` does not refuse it); `none` when the DH, encryption or PRF descriptor is nil -/
def absIkeAlgs (k : Gen.security.IKESAKey) : Option Registry.IkeAlgs :=
  match RefineReg.absDh k.DhInfo, RefineReg.absEncr k.EncrInfo, RefineReg.absPrf k.PrfInfo with
  | some d, some e, some f => some ⟨d, e, RefineReg.absInteg k.IntegInfo, f⟩
  | _, _, _ => none

/-- what `NewIKESAKey` does once the descriptors are stored in `k` -/
def ikeAfterSelect (P : Prims) (r : Rand) (k : Gen.security.IKESAKey) (ke nonce : Bytes) (si sr : UInt64) :
    Res (Rand × Gen.security.IKESAKey × Bytes) :=
  Gen.security.CalculateDiffieHellmanMaterials secG r k ke >>= fun m =>
  Gen.security.IKESAKey.GenerateKeyForIKESA P (some k) nonce m.2.2 si sr >>= fun k' => .ok (m.1, k', m.2.1)

/-- the selection part of the translated `NewIKESAKey` (initialised registries) against the model's `selectIke`:
* the model refuses ⇒ the translated function returns an error, for every random source and every other argument,
  without touching the source;
* the model selects `a` ⇒ the translated function goes on to `CalculateDiffieHellmanMaterials` and
  `GenerateKeyForIKESA` on an object that holds nothing but four descriptors abstracting to `a`
  (`a.integ = none` ⇔ `IntegInfo` nil: the source's nil test after `integ.DecodeTransform` looks at `EncrInfo`),
  all of them registered ones;
* the model never panics here. -/
theorem NewIKESAKey_select_refines (po : Option Proposal) :
    match Registry.selectIke po with
    | .err => ∀ (P : Prims) (r : Rand) (ke nonce : Bytes) (si sr : UInt64),
        Gen.security.NewIKESAKey P secG RefineReg.dhG RefineReg.encrG RefineReg.integG RefineReg.prfG r po
          ke nonce si sr = .err
    | .fault => False
    | .ok a => ∃ k : Gen.security.IKESAKey,
        absIkeAlgs k = some a ∧
        k = { DhInfo := k.DhInfo, EncrInfo := k.EncrInfo, IntegInfo := k.IntegInfo, PrfInfo := k.PrfInfo } ∧
        (a.integ = none ↔ k.IntegInfo = .nil_) ∧
        DhRegistered k.DhInfo ∧ (k.IntegInfo ≠ .nil_ → SaRegistered k) ∧
        ∀ (P : Prims) (r : Rand) (ke nonce : Bytes) (si sr : UInt64),
          Gen.security.NewIKESAKey P secG RefineReg.dhG RefineReg.encrG RefineReg.integG RefineReg.prfG r po
            ke nonce si sr = ikeAfterSelect P r k ke nonce si sr := by
  cases po with
  | none =>
    show ∀ (P : Prims) (r : Rand) (ke nonce : Bytes) (si sr : UInt64), _
    intro P r ke nonce si sr
    exact NewIKESAKey_refuses P _ _ _ _ _ r none ke nonce si sr (Or.inl rfl)
  | some p =>
  have refuse : (p.dh = [] ∨ p.encr = [] ∨ p.integ = [] ∨ p.prf = []) →
      ∀ (P : Prims) (r : Rand) (ke nonce : Bytes) (si sr : UInt64),
        Gen.security.NewIKESAKey P secG RefineReg.dhG RefineReg.encrG RefineReg.integG RefineReg.prfG r (some p)
          ke nonce si sr = .err := fun h P r ke nonce si sr =>
    NewIKESAKey_refuses P _ _ _ _ _ r (some p) ke nonce si sr (Or.inr ⟨p, rfl, h⟩)
  unfold Registry.selectIke
  dsimp only
  cases hd : p.dh with
  | nil => exact refuse (Or.inl hd)
  | cons td dr =>
  cases he : p.encr with
  | nil => exact refuse (Or.inr (Or.inl he))
  | cons te er =>
  cases hi : p.integ with
  | nil => exact refuse (Or.inr (Or.inr (Or.inl hi)))
  | cons ti ir =>
  cases hp : p.prf with
  | nil => exact refuse (Or.inr (Or.inr (Or.inr hp)))
  | cons tp pr =>
  have hd' : p.dh.head? = some td := by rw [hd]; rfl
  have he' : p.encr.head? = some te := by rw [he]; rfl
  have hi' : p.integ.head? = some ti := by rw [hi]; rfl
  have hp' : p.prf.head? = some tp := by rw [hp]; rfl
  have heq := fun (P : Prims) (r : Rand) (ke nonce : Bytes) (si sr : UInt64) =>
    NewIKESAKey_init_eq P r p td te ti tp hd' he' hi' hp' ke nonce si sr
  simp only [← absDh_decDh, ← absEncr_decEncr, ← absInteg_decInteg, ← absPrf_decPrf]
  by_cases hdn : decDh td = .nil_
  · simp only [hdn, RefineReg.absDh]
    intro P r ke nonce si sr
    rw [heq, if_pos hdn]
  rw [absDh_eq_some hdn]
  by_cases hen : decEncr te = .nil_
  · simp only [hen, RefineReg.absEncr]
    intro P r ke nonce si sr
    rw [heq, if_neg hdn, if_pos hen]
  rw [absEncr_eq_some hen]
  by_cases hpn : decPrf tp = .nil_
  · simp only [hpn, RefineReg.absPrf]
    intro P r ke nonce si sr
    rw [heq, if_neg hdn, if_neg hen, if_pos hpn]
  rw [absPrf_eq_some hpn]
  refine ⟨saOfTransforms td te ti tp, ?_, rfl, ?_, decDh_registered td hdn, ?_, ?_⟩
  · simp only [absIkeAlgs, saOfTransforms, absDh_eq_some hdn, absEncr_eq_some hen, absPrf_eq_some hpn]
  · exact absInteg_none_iff _
  · intro hin
    exact ⟨decEncr_registered te hen, decInteg_registered ti hin, decPrf_registered tp hpn, hdn⟩
  · intro P r ke nonce si sr
    rw [heq, if_neg hdn, if_neg hen, if_neg hpn]
    rfl

theorem NewIKESAKey_select_err (po : Option Proposal) (h : Registry.selectIke po = .err)
    (P : Prims) (r : Rand) (ke nonce : Bytes) (si sr : UInt64) :
    Gen.security.NewIKESAKey P secG RefineReg.dhG RefineReg.encrG RefineReg.integG RefineReg.prfG r po
      ke nonce si sr = .err := by
  have hs := NewIKESAKey_select_refines po
  rw [h] at hs
  exact hs P r ke nonce si sr

theorem NewIKESAKey_select_ok (po : Option Proposal) (a : Registry.IkeAlgs) (h : Registry.selectIke po = .ok a) :
    ∃ k : Gen.security.IKESAKey,
      absIkeAlgs k = some a ∧
      k = { DhInfo := k.DhInfo, EncrInfo := k.EncrInfo, IntegInfo := k.IntegInfo, PrfInfo := k.PrfInfo } ∧
      (a.integ = none ↔ k.IntegInfo = .nil_) ∧
      DhRegistered k.DhInfo ∧ (k.IntegInfo ≠ .nil_ → SaRegistered k) ∧
      ∀ (P : Prims) (r : Rand) (ke nonce : Bytes) (si sr : UInt64),
        Gen.security.NewIKESAKey P secG RefineReg.dhG RefineReg.encrG RefineReg.integG RefineReg.prfG r po
          ke nonce si sr = ikeAfterSelect P r k ke nonce si sr := by
  have hs := NewIKESAKey_select_refines po
  rw [h] at hs
  exact hs

/-- the refusal direction as an equivalence: the translated function refuses WITHOUT reading the random source
exactly when the model's selection refuses (`ikeAfterSelect` starts with `GenerateRandomNumber`) -/
theorem NewIKESAKey_select_cases (po : Option Proposal) :
    (Registry.selectIke po = .err ∧ ∀ (P : Prims) (r : Rand) (ke nonce : Bytes) (si sr : UInt64),
        Gen.security.NewIKESAKey P secG RefineReg.dhG RefineReg.encrG RefineReg.integG RefineReg.prfG r po
          ke nonce si sr = .err) ∨
    (∃ a k, Registry.selectIke po = .ok a ∧ absIkeAlgs k = some a ∧
      ∀ (P : Prims) (r : Rand) (ke nonce : Bytes) (si sr : UInt64),
        Gen.security.NewIKESAKey P secG RefineReg.dhG RefineReg.encrG RefineReg.integG RefineReg.prfG r po
          ke nonce si sr = ikeAfterSelect P r k ke nonce si sr) := by
  cases h : Registry.selectIke po with
  | err => exact Or.inl ⟨rfl, NewIKESAKey_select_err po h⟩
  | fault => exact absurd h (selectIke_ne_fault po)
  | ok a =>
    obtain ⟨k, h1, _, _, _, _, h6⟩ := NewIKESAKey_select_ok po a h
    exact Or.inr ⟨a, k, rfl, h1, h6⟩

theorem absIkeAlgs_eq (k : Gen.security.IKESAKey) (hd : k.DhInfo ≠ .nil_) (he : k.EncrInfo ≠ .nil_)
    (hp : k.PrfInfo ≠ .nil_) :
    absIkeAlgs k = some ⟨absDhInfo k.DhInfo, absEncrInfo k.EncrInfo, RefineReg.absInteg k.IntegInfo,
      absPrfInfo k.PrfInfo⟩ := by
  simp only [absIkeAlgs, absDh_eq_some hd, absEncr_eq_some he, absPrf_eq_some hp]

theorem DhRegistered.len_ne_zero {d : Gen.dh.DHType} (h : DhRegistered d) : (absDhInfo d).len ≠ 0 := by
  rcases h with h | h <;> subst h <;> decide

theorem SaRegistered.ne_nil {k : Gen.security.IKESAKey} (h : SaRegistered k) :
    k.EncrInfo ≠ .nil_ ∧ k.IntegInfo ≠ .nil_ ∧ k.PrfInfo ≠ .nil_ := by
  refine ⟨?_, ?_, ?_⟩
  · rcases h.encr with e | e | e <;> rw [e] <;> exact fun h => by cases h
  · rcases h.integ with e | e | e <;> rw [e] <;> exact fun h => by cases h
  · rcases h.prf with e | e | e <;> rw [e] <;> exact fun h => by cases h

/-- whatever SA object the translated `NewIKESAKey` returns holds exactly the suite the model's
`newIkeSaKeyAlgs` (selection + the parameter checks of `GenerateKeyForIKESA`) computes for the same proposal and
nonce; all its descriptors are registered ones -/
theorem NewIKESAKey_ok_suite (P : Prims) (r r' : Rand) (po : Option Proposal) (ke nonce : Bytes) (si sr : UInt64)
    (k' : Gen.security.IKESAKey) (pub : Bytes)
    (h : Gen.security.NewIKESAKey P secG RefineReg.dhG RefineReg.encrG RefineReg.integG RefineReg.prfG r po
      ke nonce si sr = .ok (r', k', pub)) :
    Registry.newIkeSaKeyAlgs po nonce = .ok ⟨absDhInfo k'.DhInfo, absEncrInfo k'.EncrInfo, absIntegInfo k'.IntegInfo,
      absPrfInfo k'.PrfInfo⟩ ∧ SaRegistered k' ∧ DhRegistered k'.DhInfo := by
  cases hs : Registry.selectIke po with
  | err => rw [NewIKESAKey_select_err po hs] at h; cases h
  | fault => exact absurd hs (selectIke_ne_fault po)
  | ok a =>
    obtain ⟨k, habs, _, _, hdr, hreg, heq⟩ := NewIKESAKey_select_ok po a hs
    rw [heq] at h
    unfold ikeAfterSelect at h
    obtain ⟨m, _, h⟩ := bind_ok_inv h
    obtain ⟨k1, hgen, h⟩ := bind_ok_inv h
    simp only [Res.ok.injEq, Prod.mk.injEq] at h
    obtain ⟨_, hk1, _⟩ := h
    subst hk1
    have hin : k.IntegInfo ≠ .nil_ := by
      intro e
      rw [GenerateKeyForIKESA_noInteg P k e] at hgen
      cases hgen
    have hsr := hreg hin
    obtain ⟨_, e1, e2, e3, e4⟩ := GenerateKeyForIKESA_wf P k hsr nonce _ si sr k1 hgen
    have hn : nonce.length ≠ 0 := by
      intro e
      rw [GenerateKeyForIKESA_empty P (some k) nonce _ (Or.inl (List.eq_nil_of_length_eq_zero e))] at hgen
      cases hgen
    refine ⟨?_, GenerateKeyForIKESA_registered P k hsr nonce _ si sr k1 hgen, e4 ▸ hdr⟩
    rw [absIkeAlgs_eq k hdr.ne_nil hsr.ne_nil.1 hsr.ne_nil.2.2, Option.some.injEq] at habs
    subst habs
    unfold Registry.newIkeSaKeyAlgs
    rw [hs]
    simp only [Res.bind_ok, Registry.keyGenChecks, absInteg_eq_some hin, if_neg hn]
    have hz : (zeros (absDhInfo k.DhInfo).len).length ≠ 0 := by
      rw [zeros_length]; exact hdr.len_ne_zero
    rw [if_neg hz, e1, e2, e3, e4]

/-! ### 4. round trips over the translated code -/

/-- the descriptors of a Child SA object are ones the translated registries register (DH group and integrity
algorithm optional) -/
structure ChildRegistered (c : Gen.security.ChildSAKey) : Prop where
  dh : c.DhInfo = .nil_ ∨ DhRegistered c.DhInfo
  encr : c.EncrKInfo = .EncrAesCbc ⟨16⟩ ∨ c.EncrKInfo = .EncrAesCbc ⟨24⟩ ∨ c.EncrKInfo = .EncrAesCbc ⟨32⟩
  integ : c.IntegKInfo = .nil_ ∨ c.IntegKInfo = .AuthHmacMd5_95 ⟨16, 12⟩ ∨ c.IntegKInfo = .AuthHmacSha1_96 ⟨20, 12⟩ ∨
    c.IntegKInfo = .AuthHmacSha2_256_128 ⟨32, 16⟩

theorem encrK_decoded_registered (t : Transform) (x : Gen.encr.ENCRKType)
    (h : Gen.encr.DecodeTransformChildSA RefineReg.encrG t = .ok x) (hx : x ≠ .nil_) :
    x = .EncrAesCbc ⟨16⟩ ∨ x = .EncrAesCbc ⟨24⟩ ∨ x = .EncrAesCbc ⟨32⟩ := by
  rw [RefineReg.encr_DecodeTransformChildSA_eval, Res.ok.injEq] at h
  subst h
  by_cases h12 : t.tid = 12 <;> by_cases h14 : t.atype = 14 <;> by_cases a1 : t.aval = 128 <;>
    by_cases a2 : t.aval = 192 <;> by_cases a3 : t.aval = 256 <;> simp_all

theorem integK_decoded_registered (t : Transform) (x : Gen.integ.INTEGKType)
    (h : Gen.integ.DecodeTransformChildSA RefineReg.integG t = .ok x) (hx : x ≠ .nil_) :
    x = .AuthHmacMd5_95 ⟨16, 12⟩ ∨ x = .AuthHmacSha1_96 ⟨20, 12⟩ ∨ x = .AuthHmacSha2_256_128 ⟨32, 16⟩ := by
  rw [RefineReg.integ_DecodeTransformChildSA_eval, Res.ok.injEq] at h
  subst h
  by_cases h1 : t.tid = 1 <;> by_cases h2 : t.tid = 2 <;> by_cases h3 : t.tid = 12 <;> simp_all

/-- whatever `NewChildSAKeyByProposal` returns holds registered descriptors only -/
theorem NewChildSAKeyByProposal_registered (po : Option Proposal) (c : Gen.security.ChildSAKey)
    (h : Gen.security.NewChildSAKeyByProposal RefineReg.dhG RefineReg.encrG RefineReg.esnG RefineReg.integG po
      = .ok c) : ChildRegistered c := by
  obtain ⟨p, e, i, n, er, ir, nr, _, _, _, _, hdh, hen, henn, hig, _, _⟩ := NewChildSAKeyByProposal_ok po c h
  refine ⟨?_, encrK_decoded_registered e _ hen henn, ?_⟩
  · rcases hdh with ⟨d, _, hd, hdn⟩ | ⟨_, hd⟩
    · rw [dh_DecodeTransform_eval, Res.ok.injEq] at hd
      rw [← hd] at hdn ⊢
      exact Or.inr (decDh_registered d hdn)
    · exact Or.inl hd
  · rcases hig with ⟨_, hi, hin⟩ | ⟨_, hi⟩
    · exact Or.inr (integK_decoded_registered i _ hi hin)
    · exact Or.inl hi

theorem ChildRegistered.encrNonneg {c : Gen.security.ChildSAKey} (h : ChildRegistered c) :
    EncrKNonneg c.EncrKInfo := by
  rcases h.encr with e | e | e <;> rw [e] <;> simp [EncrKNonneg]

/-- on registered descriptors the abstractions lose nothing -/
theorem absDh_inj_registered {d d' : Gen.dh.DHType} (h : d = .nil_ ∨ DhRegistered d)
    (h' : d' = .nil_ ∨ DhRegistered d') (e : RefineReg.absDh d = RefineReg.absDh d') : d = d' := by
  rcases h with h | h | h <;> rcases h' with h' | h' | h' <;> subst h <;> subst h' <;>
    first
      | rfl
      | (exfalso; simp [RefineReg.absDh, RefineReg.absInfo1024, RefineReg.absInfo2048] at e)

theorem absEncrK_inj_registered {d d' : Gen.encr.ENCRKType}
    (h : d = .EncrAesCbc ⟨16⟩ ∨ d = .EncrAesCbc ⟨24⟩ ∨ d = .EncrAesCbc ⟨32⟩)
    (h' : d' = .EncrAesCbc ⟨16⟩ ∨ d' = .EncrAesCbc ⟨24⟩ ∨ d' = .EncrAesCbc ⟨32⟩)
    (e : RefineReg.absEncrK d = RefineReg.absEncrK d') : d = d' := by
  rcases h with h | h | h <;> rcases h' with h' | h' | h' <;> subst h <;> subst h' <;>
    first | rfl | (exfalso; revert e; decide)

theorem absIntegK_inj_registered {d d' : Gen.integ.INTEGKType}
    (h : d = .nil_ ∨ d = .AuthHmacMd5_95 ⟨16, 12⟩ ∨ d = .AuthHmacSha1_96 ⟨20, 12⟩ ∨
      d = .AuthHmacSha2_256_128 ⟨32, 16⟩)
    (h' : d' = .nil_ ∨ d' = .AuthHmacMd5_95 ⟨16, 12⟩ ∨ d' = .AuthHmacSha1_96 ⟨20, 12⟩ ∨
      d' = .AuthHmacSha2_256_128 ⟨32, 16⟩)
    (e : RefineReg.absIntegK d = RefineReg.absIntegK d') : d = d' := by
  rcases h with h | h | h | h <;> rcases h' with h' | h' | h' | h' <;> subst h <;> subst h' <;>
    first | rfl | (exfalso; revert e; decide)

/-- two fresh Child SA objects with registered descriptors and the same abstraction are equal -/
theorem absChildSuite_inj (c c' : Gen.security.ChildSAKey) (hr : ChildRegistered c) (hr' : ChildRegistered c')
    (hf : ChildFresh c) (hf' : ChildFresh c') (e : absChildSuite c = absChildSuite c') : c = c' := by
  obtain ⟨spi, dh, en, ig, es, k1, k2, k3, k4⟩ := c
  obtain ⟨spi', dh', en', ig', es', k1', k2', k3', k4'⟩ := c'
  obtain ⟨f1, f2, f3, f4, f5⟩ := hf
  obtain ⟨f1', f2', f3', f4', f5'⟩ := hf'
  simp only at f1 f2 f3 f4 f5 f1' f2' f3' f4' f5'
  subst f1 f2 f3 f4 f5 f1' f2' f3' f4' f5'
  obtain ⟨r1, r2, r3⟩ := hr
  obtain ⟨r1', r2', r3'⟩ := hr'
  simp only at r1 r2 r3 r1' r2' r3'
  have hen : en ≠ .nil_ := by rcases r2 with e | e | e <;> rw [e] <;> exact fun h => by cases h
  have hen' : en' ≠ .nil_ := by rcases r2' with e | e | e <;> rw [e] <;> exact fun h => by cases h
  unfold absChildSuite at e
  cases h1 : RefineReg.absEncrK en with
  | none => exact absurd ((absEncrK_none_iff en).1 h1) hen
  | some a =>
    cases h2 : RefineReg.absEncrK en' with
    | none => exact absurd ((absEncrK_none_iff en').1 h2) hen'
    | some a' =>
      simp only [h1, h2, Option.some.injEq, Registry.ChildSuite.mk.injEq] at e
      obtain ⟨e1, e2, e3, e4⟩ := e
      have q1 := absDh_inj_registered r1 r1' e1
      have q2 := absEncrK_inj_registered r2 r2' (by rw [h1, h2, e2])
      have q3 := absIntegK_inj_registered r3 r3' e3
      have q4 : es = es' := by
        cases es; cases es'
        simpa [RefineReg.absEsn] using e4
      subst q1 q2 q3 q4
      rfl

/-- the abstract suite of a registered object is made of advertised algorithms -/
theorem ChildRegistered.advertised {c : Gen.security.ChildSAKey} (hr : ChildRegistered c)
    {s : Registry.ChildSuite} (hs : absChildSuite c = some s) :
    s.encr ∈ Registry.advertisedEncrChild ∧ (∀ i, s.integ = some i → i ∈ Registry.advertisedIntegChild) ∧
    (∀ d, s.dh = some d → d ∈ Registry.advertisedDh) ∧ (s.integ = none ↔ c.IntegKInfo = .nil_) := by
  obtain ⟨spi, dh, en, ig, es, k1, k2, k3, k4⟩ := c
  obtain ⟨r1, r2, r3⟩ := hr
  simp only at r1 r2 r3
  unfold absChildSuite at hs
  refine ⟨?_, ?_, ?_, ?_⟩
  · rcases r2 with e | e | e <;> subst e <;> simp only [RefineReg.absEncrK, Option.some.injEq] at hs <;>
      subst hs <;> dsimp only <;> decide
  · intro i hi
    rcases r2 with e | e | e <;> subst e <;> simp only [RefineReg.absEncrK, Option.some.injEq] at hs <;>
      subst hs <;> rcases r3 with e | e | e | e <;> subst e <;>
      simp only [RefineReg.absIntegK, Option.some.injEq, reduceCtorEq] at hi <;> subst hi <;> decide
  · intro d hd
    rcases r2 with e | e | e <;> subst e <;> simp only [RefineReg.absEncrK, Option.some.injEq] at hs <;>
      subst hs <;> rcases r1 with e | e | e <;> subst e <;>
      simp only [RefineReg.absDh, Option.some.injEq, reduceCtorEq, RefineReg.absInfo1024_desc,
        RefineReg.absInfo2048_desc] at hd <;> subst hd <;> simp [Registry.advertisedDh]
  · rcases r2 with e | e | e <;> subst e <;> simp only [RefineReg.absEncrK, Option.some.injEq] at hs <;>
      subst hs <;> exact absIntegK_none_iff _

/-- C11's "the mapping is invertible" for whole Child SA suites, over the translated code: for every object `c`
that `NewChildSAKeyByProposal` returns, `ToProposal` succeeds, and feeding its proposal back returns the very same
object when an integrity algorithm is set — and is REFUSED when none is (the function insists on at least one
integrity transform, yet leaves `IntegKInfo` nil when the peer offers several: the asymmetry the model has) -/
theorem ChildSA_roundtrip (po : Option Proposal) (c : Gen.security.ChildSAKey)
    (h : Gen.security.NewChildSAKeyByProposal RefineReg.dhG RefineReg.encrG RefineReg.esnG RefineReg.integG po
      = .ok c) :
    ∃ q s, Gen.security.ChildSAKey.ToProposal c = .ok q ∧ absChildSuite c = some s ∧
      Registry.selectChild po = .ok s ∧ Registry.childToProposal s = .ok q ∧
      (c.IntegKInfo ≠ .nil_ →
        Gen.security.NewChildSAKeyByProposal RefineReg.dhG RefineReg.encrG RefineReg.esnG RefineReg.integG (some q)
          = .ok c) ∧
      (c.IntegKInfo = .nil_ →
        Gen.security.NewChildSAKeyByProposal RefineReg.dhG RefineReg.encrG RefineReg.esnG RefineReg.integG (some q)
          = .err) := by
  have hreg := NewChildSAKeyByProposal_registered po c h
  have hfresh : ChildFresh c := NewChildSAKeyByProposal_fresh po c h
  have href := NewChildSAKeyByProposal_refines po
  rw [h] at href
  cases hsel : Registry.selectChild po with
  | err => rw [hsel] at href; cases href
  | fault => rw [hsel] at href; cases href
  | ok s =>
    rw [hsel] at href
    simp only [Res.map, Res.ok.injEq] at href
    obtain ⟨a1, a2, a3, a4⟩ := hreg.advertised href
    obtain ⟨q, hq, _, _, _, _, _, _, hsome, hnone, _⟩ := C11_proposal_roundtrip_child s a1 a2 a3
    have htp := ChildSAKey_ToProposal_refines c s href hreg.encrNonneg
    refine ⟨q, s, by rw [htp, hq], href, rfl, hq, ?_, ?_⟩
    · intro hin
      have hs : s.integ.isSome := by
        cases hi : s.integ with
        | none => exact absurd (a4.1 hi) hin
        | some _ => rfl
      have href2 := NewChildSAKeyByProposal_refines (some q)
      rw [hsome hs] at href2
      obtain ⟨c', hc', habs'⟩ := map_ok_inv href2
      rw [hc', absChildSuite_inj c' c (NewChildSAKeyByProposal_registered _ _ hc') hreg
        (NewChildSAKeyByProposal_fresh _ _ hc') hfresh (by rw [habs', href])]
    · intro hin
      have href2 := NewChildSAKeyByProposal_refines (some q)
      rw [hnone (a4.2 hin)] at href2
      cases hc : Gen.security.NewChildSAKeyByProposal RefineReg.dhG RefineReg.encrG RefineReg.esnG RefineReg.integG
          (some q) with
      | err => rfl
      | fault => rw [hc] at href2; cases href2
      | ok x => rw [hc] at href2; cases href2

theorem absDhInfo_inj_registered {d d' : Gen.dh.DHType} (h : DhRegistered d) (h' : DhRegistered d')
    (e : absDhInfo d = absDhInfo d') : d = d' := by
  rcases h with h | h <;> rcases h' with h' | h' <;> subst h <;> subst h' <;>
    first
      | rfl
      | (exfalso; simp [absDhInfo, RefineReg.absInfo1024, RefineReg.absInfo2048] at e)

theorem absEncrInfo_inj_registered {d d' : Gen.encr.ENCRType}
    (h : d = .EncrAesCbc ⟨16⟩ ∨ d = .EncrAesCbc ⟨24⟩ ∨ d = .EncrAesCbc ⟨32⟩)
    (h' : d' = .EncrAesCbc ⟨16⟩ ∨ d' = .EncrAesCbc ⟨24⟩ ∨ d' = .EncrAesCbc ⟨32⟩)
    (e : absEncrInfo d = absEncrInfo d') : d = d' := by
  rcases h with h | h | h <;> rcases h' with h' | h' | h' <;> subst h <;> subst h' <;>
    first | rfl | (exfalso; revert e; decide)

theorem absIntegInfo_inj_registered {d d' : Gen.integ.INTEGType}
    (h : d = .AuthHmacMd5_95 ⟨16, 12⟩ ∨ d = .AuthHmacSha1_96 ⟨20, 12⟩ ∨ d = .AuthHmacSha2_256_128 ⟨32, 16⟩)
    (h' : d' = .AuthHmacMd5_95 ⟨16, 12⟩ ∨ d' = .AuthHmacSha1_96 ⟨20, 12⟩ ∨ d' = .AuthHmacSha2_256_128 ⟨32, 16⟩)
    (e : absIntegInfo d = absIntegInfo d') : d = d' := by
  rcases h with h | h | h <;> rcases h' with h' | h' | h' <;> subst h <;> subst h' <;>
    first | rfl | (exfalso; revert e; decide)

theorem absPrfInfo_inj_registered {d d' : Gen.prf.PRFType}
    (h : d = .PrfHmacMd5 ⟨16, 16⟩ ∨ d = .PrfHmacSha1 ⟨20, 20⟩ ∨ d = .PrfHmacSha2_256 ⟨32, 32⟩)
    (h' : d' = .PrfHmacMd5 ⟨16, 16⟩ ∨ d' = .PrfHmacSha1 ⟨20, 20⟩ ∨ d' = .PrfHmacSha2_256 ⟨32, 32⟩)
    (e : absPrfInfo d = absPrfInfo d') : d = d' := by
  rcases h with h | h | h <;> rcases h' with h' | h' | h' <;> subst h <;> subst h' <;>
    first | rfl | (exfalso; revert e; decide)

/-- the abstract suite of an SA object with registered descriptors is made of advertised algorithms -/
theorem SaRegistered.advertised {k : Gen.security.IKESAKey} (hk : SaRegistered k) (hdh : DhRegistered k.DhInfo) :
    absDhInfo k.DhInfo ∈ Registry.advertisedDh ∧ absEncrInfo k.EncrInfo ∈ Registry.advertisedEncr ∧
    absIntegInfo k.IntegInfo ∈ Registry.advertisedInteg ∧ absPrfInfo k.PrfInfo ∈ Registry.advertisedPrf := by
  refine ⟨?_, ?_, ?_, ?_⟩
  · rcases hdh with e | e <;> rw [e]
    · show RefineReg.absInfo1024 RefineReg.desc1024 ∈ _
      rw [RefineReg.absInfo1024_desc]; simp [Registry.advertisedDh]
    · show RefineReg.absInfo2048 RefineReg.desc2048 ∈ _
      rw [RefineReg.absInfo2048_desc]; simp [Registry.advertisedDh]
  · rcases hk.encr with e | e | e <;> rw [e] <;> decide
  · rcases hk.integ with e | e | e <;> rw [e] <;> decide
  · rcases hk.prf with e | e | e <;> rw [e] <;> decide

/-- C11's "the mapping is invertible" for whole IKE suites, over the translated code: for every SA object with
registered descriptors (in particular every object `NewIKESAKey` returns, `NewIKESAKey_ok_suite`), `ToProposal`
succeeds, the model selects the same suite from its proposal, and the translated `NewIKESAKey` on that proposal
goes on with an object holding exactly the same four descriptors -/
theorem IKESA_roundtrip (k : Gen.security.IKESAKey) (hk : SaRegistered k) (hdh : DhRegistered k.DhInfo) :
    ∃ q, Gen.security.IKESAKey.ToProposal k = .ok q ∧
      Registry.selectIke (some q) = .ok ⟨absDhInfo k.DhInfo, absEncrInfo k.EncrInfo, some (absIntegInfo k.IntegInfo),
        absPrfInfo k.PrfInfo⟩ ∧
      ∀ (P : Prims) (r : Rand) (ke nonce : Bytes) (si sr : UInt64),
        Gen.security.NewIKESAKey P secG RefineReg.dhG RefineReg.encrG RefineReg.integG RefineReg.prfG r (some q)
          ke nonce si sr =
        ikeAfterSelect P r
          ({ DhInfo := k.DhInfo, EncrInfo := k.EncrInfo, IntegInfo := k.IntegInfo, PrfInfo := k.PrfInfo } :
            Gen.security.IKESAKey) ke nonce si sr := by
  obtain ⟨a1, a2, a3, a4⟩ := hk.advertised hdh
  obtain ⟨q, hq, _, _, _, _, _, _, hsel, _⟩ :=
    C11_proposal_roundtrip_ike ⟨absDhInfo k.DhInfo, absEncrInfo k.EncrInfo, absIntegInfo k.IntegInfo,
      absPrfInfo k.PrfInfo⟩ a1 a2 a3 a4
  refine ⟨q, by rw [IKESAKey_ToProposal_refines k hk hdh, hq], hsel, ?_⟩
  obtain ⟨k2, habs, hk2, hiff, hdr2, hreg2, heq⟩ := NewIKESAKey_select_ok (some q) _ hsel
  have hin2 : k2.IntegInfo ≠ .nil_ := fun e => by
    have := hiff.2 e
    cases this
  have hsr2 := hreg2 hin2
  rw [absIkeAlgs_eq k2 hdr2.ne_nil hsr2.ne_nil.1 hsr2.ne_nil.2.2, absInteg_eq_some hin2, Option.some.injEq,
    Registry.IkeAlgs.mk.injEq, Option.some.injEq] at habs
  obtain ⟨e1, e2, e3, e4⟩ := habs
  have q1 := absDhInfo_inj_registered hdr2 hdh e1
  have q2 := absEncrInfo_inj_registered hsr2.encr hk.encr e2
  have q3 := absIntegInfo_inj_registered hsr2.integ hk.integ e3
  have q4 := absPrfInfo_inj_registered hsr2.prf hk.prf e4
  intro P r ke nonce si sr
  rw [heq, hk2, q1, q2, q3, q4]

/-- … in particular for whatever `NewIKESAKey` returned -/
theorem NewIKESAKey_roundtrip (P : Prims) (r r' : Rand) (po : Option Proposal) (ke nonce : Bytes) (si sr : UInt64)
    (k' : Gen.security.IKESAKey) (pub : Bytes)
    (h : Gen.security.NewIKESAKey P secG RefineReg.dhG RefineReg.encrG RefineReg.integG RefineReg.prfG r po
      ke nonce si sr = .ok (r', k', pub)) :
    ∃ q, Gen.security.IKESAKey.ToProposal k' = .ok q ∧
      ∀ nonce2, nonce2 ≠ [] → Registry.newIkeSaKeyAlgs (some q) nonce2 = Registry.newIkeSaKeyAlgs po nonce := by
  obtain ⟨hs, hk, hdh⟩ := NewIKESAKey_ok_suite P r r' po ke nonce si sr k' pub h
  obtain ⟨a1, a2, a3, a4⟩ := hk.advertised hdh
  obtain ⟨q, hq, _, _, _, _, _, _, _, halg, _⟩ :=
    C11_proposal_roundtrip_ike ⟨absDhInfo k'.DhInfo, absEncrInfo k'.EncrInfo, absIntegInfo k'.IntegInfo,
      absPrfInfo k'.PrfInfo⟩ a1 a2 a3 a4
  exact ⟨q, by rw [IKESAKey_ToProposal_refines k' hk hdh, hq], fun n2 hn2 => by rw [halg n2 hn2, hs]⟩

end Ike.RefineSa
