import IkeProofs.Refine.Basic
import IkeProofs.Refine.Glue
import IkeProofs.Refine.ChainMsg
import IkeModel.GenAbsSa
import IkeProofs.RefineReg.Registries
import IkeProofs.RefineReg.Cbc

/-! The receiving side of `ike.go` as translated (`Gen.ike.calculateIntegrity`, `verifyIntegrity`,
`decryptPayload`, `decryptMsg`, `DecodeDecrypt`) ⊑ the hand-written model (`calcIntegrity`, `decryptPayload`,
`lastSK`, `decryptMsg`, `unprotect`). -/

set_option linter.unusedSimpArgs false
set_option linter.unusedVariables false

namespace Ike.RefineSa.Dec
open Ike Ike.GenAbsSa Ike.Gen.message Ike.Refine

/-! ### the integrity descriptor -/

/-- the integrity descriptor is not nil and its output length is not negative -/
def IntegOk (i : Gen.integ.INTEGType) : Prop :=
  ∃ n : Nat, Gen.integ.INTEGType.GetOutputLength i = .ok (n : Int)

theorem IntegOk_ne_nil {i : Gen.integ.INTEGType} (h : IntegOk i) : i ≠ .nil_ := by
  rintro rfl
  obtain ⟨n, hn⟩ := h
  simp [Gen.integ.INTEGType.GetOutputLength] at hn

theorem IntegOk_outLen {i : Gen.integ.INTEGType} (h : IntegOk i) :
    Gen.integ.INTEGType.GetOutputLength i = .ok (((absIntegInfo i).outLen : Nat) : Int) := by
  obtain ⟨n, hn⟩ := h
  cases i with
  | nil_ => simp [Gen.integ.INTEGType.GetOutputLength] at hn
  | AuthHmacMd5_95 v =>
    simp only [Gen.integ.INTEGType.GetOutputLength, Gen.integ.AuthHmacMd5_95.GetOutputLength, Res.bind_ok,
      Res.ok.injEq] at hn ⊢
    simp only [absIntegInfo]; omega
  | AuthHmacSha1_96 v =>
    simp only [Gen.integ.INTEGType.GetOutputLength, Gen.integ.AuthHmacSha1_96.GetOutputLength, Res.bind_ok,
      Res.ok.injEq] at hn ⊢
    simp only [absIntegInfo]; omega
  | AuthHmacSha2_256_128 v =>
    simp only [Gen.integ.INTEGType.GetOutputLength, Gen.integ.AuthHmacSha2_256_128.GetOutputLength, Res.bind_ok,
      Res.ok.injEq] at hn ⊢
    simp only [absIntegInfo]; omega

/-- the descriptors the registry of package `integ` registers are sane -/
theorem IntegOk_of_registered {i : Gen.integ.INTEGType}
    (hi : i = .AuthHmacMd5_95 ⟨16, 12⟩ ∨ i = .AuthHmacSha1_96 ⟨20, 12⟩ ∨ i = .AuthHmacSha2_256_128 ⟨32, 16⟩) :
    IntegOk i := by
  rcases hi with rfl | rfl | rfl
  · exact ⟨12, rfl⟩
  · exact ⟨12, rfl⟩
  · exact ⟨16, rfl⟩

/-- non-nil with a non-negative output length, spelled out -/
theorem IntegOk_iff (i : Gen.integ.INTEGType) :
    IntegOk i ↔ (match i with
      | .nil_ => False
      | .AuthHmacMd5_95 v => 0 ≤ v.outputLength
      | .AuthHmacSha1_96 v => 0 ≤ v.outputLength
      | .AuthHmacSha2_256_128 v => 0 ≤ v.outputLength) := by
  unfold IntegOk
  cases i with
  | nil_ => simp [Gen.integ.INTEGType.GetOutputLength]
  | AuthHmacMd5_95 v =>
    simp only [Gen.integ.INTEGType.GetOutputLength, Gen.integ.AuthHmacMd5_95.GetOutputLength, Res.bind_ok,
      Res.ok.injEq]
    constructor
    · rintro ⟨n, hn⟩; omega
    · intro h; exact ⟨v.outputLength.toNat, by omega⟩
  | AuthHmacSha1_96 v =>
    simp only [Gen.integ.INTEGType.GetOutputLength, Gen.integ.AuthHmacSha1_96.GetOutputLength, Res.bind_ok,
      Res.ok.injEq]
    constructor
    · rintro ⟨n, hn⟩; omega
    · intro h; exact ⟨v.outputLength.toNat, by omega⟩
  | AuthHmacSha2_256_128 v =>
    simp only [Gen.integ.INTEGType.GetOutputLength, Gen.integ.AuthHmacSha2_256_128.GetOutputLength, Res.bind_ok,
      Res.ok.injEq]
    constructor
    · rintro ⟨n, hn⟩; omega
    · intro h; exact ⟨v.outputLength.toNat, by omega⟩

/-! ### `calculateIntegrity` -/

theorem sliceTo_nat (b : Bytes) (n : Nat) : Go.sliceTo b (n : Int) = goTo b n := by
  unfold Go.sliceTo goTo
  by_cases h : n ≤ b.length
  · rw [if_pos (by omega), if_pos h]; simp
  · rw [if_neg (by omega), if_neg h]

theorem goTo_ne_err (b : Bytes) (n : Nat) : goTo b n ≠ .err := by
  unfold goTo; split <;> simp

/-- the object `calculateIntegrity` leaves: the hash object of the given direction holds the signed octets -/
def afterInteg (k : Gen.security.IKESAKey) (role : Bool) (d : Bytes) : Gen.security.IKESAKey :=
  if role then { k with Integ_i := { k.Integ_i with buf := d } }
  else { k with Integ_r := { k.Integ_r with buf := d } }

/-- closed form of the generated `calculateIntegrity` -/
theorem calculateIntegrity_eq (P : Prims) (k : Gen.security.IKESAKey) (hi : IntegOk k.IntegInfo)
    (hii : Go.Mac.isNil k.Integ_i = false) (hir : Go.Mac.isNil k.Integ_r = false) (role : Bool) (d : Bytes) :
    Gen.ike.calculateIntegrity P k role d =
      (goTo (P.mac (if role then k.Integ_i else k.Integ_r).h (if role then k.Integ_i else k.Integ_r).key d)
        (absIntegInfo k.IntegInfo).outLen) >>= fun c => .ok (afterInteg k role d, c) := by
  unfold Gen.ike.calculateIntegrity
  rw [IntegOk_outLen hi]
  simp only [Res.bind_ok, sliceTo_nat]
  cases role with
  | true =>
    simp only [if_true, hii, Bool.false_eq_true, if_false, Go.Mac.sum, Go.Mac.write, Go.Mac.reset,
      List.nil_append, afterInteg]
  | false =>
    simp only [Bool.false_eq_true, if_false, hir, Go.Mac.sum, Go.Mac.write, Go.Mac.reset,
      List.nil_append, afterInteg]

/-- frame: `calculateIntegrity` changes nothing but the buffer of the one hash object -/
theorem calculateIntegrity_frame (P : Prims) (k : Gen.security.IKESAKey) (hi : IntegOk k.IntegInfo)
    (hii : Go.Mac.isNil k.Integ_i = false) (hir : Go.Mac.isNil k.Integ_r = false) (role : Bool) (d : Bytes)
    (k' : Gen.security.IKESAKey) (c : Bytes) (h : Gen.ike.calculateIntegrity P k role d = .ok (k', c)) :
    k' = afterInteg k role d := by
  rw [calculateIntegrity_eq P k hi hii hir] at h
  cases hg : goTo (P.mac (if role then k.Integ_i else k.Integ_r).h (if role then k.Integ_i else k.Integ_r).key d)
      (absIntegInfo k.IntegInfo).outLen with
  | ok c' => rw [hg] at h; simp only [Res.bind_ok, Res.ok.injEq, Prod.mk.injEq] at h; exact h.1.symm
  | err => rw [hg] at h; simp at h
  | fault => rw [hg] at h; simp at h

theorem absSa_afterInteg (P : Prims) (k : Gen.security.IKESAKey) (role : Bool) (d : Bytes) :
    absSa (afterInteg k role d) = (calcIntegrity P (absSa k) role d).1 := by
  cases role <;> rfl

theorem calcIntegrity_snd (P : Prims) (k : Gen.security.IKESAKey) (role : Bool) (d : Bytes) :
    (calcIntegrity P (absSa k) role d).2 =
      goTo (P.mac (if role then k.Integ_i else k.Integ_r).h (if role then k.Integ_i else k.Integ_r).key d)
        (absIntegInfo k.IntegInfo).outLen := by
  cases role <;> simp [calcIntegrity, absSa, absMac, HashObj.reset, HashObj.write, HashObj.sum]

/-- the model's `calcIntegrity` never returns an error (only a checksum or the panic of `[:outputLen]`) -/
theorem calcIntegrity_ne_err (P : Prims) (sa : SAKey) (role : Bool) (d : Bytes) :
    (calcIntegrity P sa role d).2 ≠ .err := by
  cases role <;> simp only [calcIntegrity, Bool.false_eq_true, if_false, if_true] <;>
    exact goTo_ne_err _ _

theorem calculateIntegrity_refines (P : Prims) (k : Gen.security.IKESAKey) (hi : IntegOk k.IntegInfo)
    (hii : Go.Mac.isNil k.Integ_i = false) (hir : Go.Mac.isNil k.Integ_r = false) (role : Bool) (d : Bytes) :
    (Gen.ike.calculateIntegrity P k role d).map (fun x => (absSa x.1, x.2)) =
      (match calcIntegrity P (absSa k) role d with
       | (sa', .ok c) => .ok (sa', c)
       | (_, .err) => .err
       | (_, .fault) => .fault) := by
  rw [calculateIntegrity_eq P k hi hii hir]
  have h1 := absSa_afterInteg P k role d
  have h2 := calcIntegrity_snd P k role d
  generalize calcIntegrity P (absSa k) role d = r at h1 h2
  obtain ⟨sa', rc⟩ := r
  simp only at h1 h2
  rw [← h2]
  cases rc <;> simp [h1]

/-! ### `verifyIntegrity` -/

/-- closed form of the generated `verifyIntegrity` (hash objects non-nil: the calculation cannot err, so the
error branch that evaluates `IntegInfo.TransformID()` on the zero object `catchErr` supplies is not taken) -/
theorem verifyIntegrity_eq (P : Prims) (k : Gen.security.IKESAKey) (hi : IntegOk k.IntegInfo)
    (hii : Go.Mac.isNil k.Integ_i = false) (hir : Go.Mac.isNil k.Integ_r = false) (role : Bool)
    (data checksum : Bytes) :
    Gen.ike.verifyIntegrity P data checksum k role =
      (goTo (P.mac (if role then k.Integ_i else k.Integ_r).h (if role then k.Integ_i else k.Integ_r).key data)
        (absIntegInfo k.IntegInfo).outLen) >>= fun expect =>
        if checksum = expect then .ok (afterInteg k role data) else .err := by
  unfold Gen.ike.verifyIntegrity
  rw [calculateIntegrity_eq P k hi hii hir]
  have hne : ∀ r, goTo (P.mac (if role then k.Integ_i else k.Integ_r).h (if role then k.Integ_i else k.Integ_r).key data)
        (absIntegInfo k.IntegInfo).outLen = r → r ≠ .err := by
    intro r hr; subst hr; exact goTo_ne_err _ _
  cases hg : goTo (P.mac (if role then k.Integ_i else k.Integ_r).h (if role then k.Integ_i else k.Integ_r).key data)
      (absIntegInfo k.IntegInfo).outLen with
  | ok c =>
    simp only [Res.bind_ok, Go.catchErr, Bool.false_eq_true, if_false, beq_iff_eq]
    by_cases h : checksum = c <;> simp [h]
  | err => exact absurd rfl (hne _ hg)
  | fault => simp [Go.catchErr]

theorem verifyIntegrity_refines (P : Prims) (k : Gen.security.IKESAKey) (hi : IntegOk k.IntegInfo)
    (hii : Go.Mac.isNil k.Integ_i = false) (hir : Go.Mac.isNil k.Integ_r = false) (role : Bool)
    (data checksum : Bytes) :
    (Gen.ike.verifyIntegrity P data checksum k role).map absSa =
      (match calcIntegrity P (absSa k) role data with
       | (sa', .ok expect) => if bytesEq checksum expect = true then .ok sa' else .err
       | (_, .err) => .err
       | (_, .fault) => .fault) := by
  rw [verifyIntegrity_eq P k hi hii hir]
  have h1 := absSa_afterInteg P k role data
  have h2 := calcIntegrity_snd P k role data
  generalize calcIntegrity P (absSa k) role data = r at h1 h2
  obtain ⟨sa', rc⟩ := r
  simp only at h1 h2
  rw [← h2]
  cases rc with
  | ok c =>
    simp only [Res.bind_ok, bytesEq, beq_iff_eq]
    by_cases h : checksum = c <;> simp [h, h1]
  | err => rfl
  | fault => rfl

/-! ### `decryptPayload` -/

theorem decryptPayload_refines (P : Prims) (hP : P.Lawful) (k : Gen.security.IKESAKey) (hk : SaWF k) (role : Bool)
    (ct : Bytes) : Gen.ike.decryptPayload P ct k role = decryptPayload P (absSa k) role ct := by
  unfold Gen.ike.decryptPayload decryptPayload
  cases role with
  | true =>
    simp only [if_true, RefineReg.Decrypt_refines P hP _ hk.encr_r.2.1, bind_ok_id]
    rfl
  | false =>
    simp only [Bool.false_eq_true, if_false, RefineReg.Decrypt_refines P hP _ hk.encr_i.2.1, bind_ok_id]
    rfl

/-! ### the payload scan of `decryptMsg` -/

theorem IKEPayload_Type_abs (g : IKEPayload) (p : Payload) (h : GenAbs.absPayload g = some p) :
    IKEPayload.Type_ g = .ok p.typeCode := by
  cases g <;> simp only [GenAbs.absPayload, Option.some.injEq] at h <;> first | (subst h; rfl) | exact absurd h (by simp)

theorem absPayloads_cons_some (g : IKEPayload) (gps : List IKEPayload) (ps : List Payload)
    (h : GenAbs.absPayloads (g :: gps) = some ps) :
    ∃ p ps', ps = p :: ps' ∧ GenAbs.absPayload g = some p ∧ GenAbs.absPayloads gps = some ps' := by
  unfold GenAbs.absPayloads at *
  rw [List.mapM_cons] at h
  cases hg : GenAbs.absPayload g with
  | none => rw [hg] at h; simp at h
  | some p =>
    cases hr : List.mapM GenAbs.absPayload gps with
    | none => rw [hg, hr] at h; simp at h
    | some ps' =>
      rw [hg, hr] at h
      simp at h
      exact ⟨p, ps', h.symm, rfl, rfl⟩

theorem absPayloads_nil_some (ps : List Payload) (h : GenAbs.absPayloads [] = some ps) : ps = [] := by
  unfold GenAbs.absPayloads at h
  simp at h
  exact h

theorem absMsg_some {gm : IKEMessage} {m : Msg} (h : GenAbs.absMsg gm = some m) :
    GenAbs.absPayloads gm.Payloads = some m.payloads ∧ GenAbs.absHeader gm.IKEHeader = m.hdr := by
  unfold GenAbs.absMsg at h
  cases hp : GenAbs.absPayloads gm.Payloads with
  | none => rw [hp] at h; simp at h
  | some ps =>
    rw [hp] at h
    simp only [Option.map_some, Option.some.injEq] at h
    subst h
    exact ⟨rfl, rfl⟩

theorem typeCode_sk (p : Payload) (h : p.typeCode = 46) : ∃ n d, p = .sk n d := by
  cases p <;> first | exact ⟨_, _, rfl⟩ | (simp only [Payload.typeCode] at h; exact absurd h (by decide))

/-- on a non-empty list the scan does not depend on the accumulator -/
theorem lastSK_cons_acc (p : Payload) (ps : List Payload) (a b : Option (UInt8 × Bytes)) :
    lastSK (p :: ps) a = lastSK (p :: ps) b := by
  cases p <;> rfl

theorem lastSK_some_ne_none (ps : List Payload) : ∀ (x : UInt8 × Bytes), lastSK ps (some x) ≠ .ok none := by
  induction ps with
  | nil => intro x; simp [lastSK]
  | cons p ps ih =>
    intro x
    cases p <;> simp only [lastSK, ne_eq, reduceCtorEq, not_false_eq_true]
    exact ih _

theorem lastSK_cons_ne_none (p : Payload) (ps : List Payload) (a : Option (UInt8 × Bytes)) :
    lastSK (p :: ps) a ≠ .ok none := by
  cases p <;> simp only [lastSK, ne_eq, reduceCtorEq, not_false_eq_true]
  exact lastSK_some_ne_none _ _

/-- the model's scan never faults -/
theorem lastSK_ne_fault (ps : List Payload) : ∀ a, lastSK ps a ≠ .fault := by
  induction ps with
  | nil => intro a; simp [lastSK]
  | cons p ps ih =>
    intro a
    cases p <;> simp only [lastSK, ne_eq, reduceCtorEq, not_false_eq_true]
    exact ih _

/-- `decryptMsg.loop1` ⊑ `lastSK` -/
theorem loop1_refines (P : Prims) (gps : List IKEPayload) :
    ∀ (ps : List Payload), GenAbs.absPayloads gps = some ps → ∀ (idx : Nat) (acc : Encrypted),
      Gen.ike.decryptMsg.loop1 P gps idx acc =
        (match lastSK ps none with
         | .ok none => .ok acc
         | .ok (some (n, d)) => .ok { NextPayload := n, EncryptedData := d }
         | .err => .err
         | .fault => .fault) := by
  induction gps with
  | nil =>
    intro ps h idx acc
    rw [absPayloads_nil_some ps h]
    rfl
  | cons g gps ih =>
    intro ps h idx acc
    obtain ⟨p, ps', rfl, hg, hr⟩ := absPayloads_cons_some g gps ps h
    unfold Gen.ike.decryptMsg.loop1
    simp only [IKEPayload_Type_abs g p hg, Res.bind_ok]
    by_cases h46 : p.typeCode = 46
    · obtain ⟨n, d, rfl⟩ := typeCode_sk p h46
      simp only [h46, if_true]
      cases g <;> simp only [GenAbs.absPayload, Option.some.injEq, reduceCtorEq] at hg
      next v =>
        simp only [Res.bind_ok]
        rw [ih ps' hr]
        simp only [lastSK]
        cases ps' with
        | nil =>
          simp only [lastSK]
          cases v
          simp only [Payload.sk.injEq] at hg
          simp [hg.1, hg.2]
        | cons q qs =>
          rw [lastSK_cons_acc q qs (some (n, d)) none]
          cases hq : lastSK (q :: qs) none with
          | ok o =>
            cases o with
            | none => exact absurd hq (lastSK_cons_ne_none q qs none)
            | some x => rfl
          | err => rfl
          | fault => rfl
    · simp only [h46, if_false]
      cases p <;> first | rfl | exact absurd rfl h46

/-! ### `decryptMsg` -/

theorem sliceFrom_sub (b : Bytes) (n : Nat) (h : n ≤ b.length) :
    Go.sliceFrom b ((b.length : Int) - (n : Int)) = .ok (b.drop (b.length - n)) := by
  unfold Go.sliceFrom
  rw [if_pos (by omega)]
  have : ((b.length : Int) - (n : Int)).toNat = b.length - n := by omega
  rw [this]

theorem sliceTo_sub (b : Bytes) (n : Nat) :
    Go.sliceTo b ((b.length : Int) - (n : Int)) = if b.length < n then .fault else .ok (b.take (b.length - n)) := by
  unfold Go.sliceTo
  by_cases h : b.length < n
  · rw [if_neg (by omega), if_pos h]
  · rw [if_pos (by omega), if_neg h]
    have : ((b.length : Int) - (n : Int)).toNat = b.length - n := by omega
    rw [this]

theorem SaWF_afterInteg {k : Gen.security.IKESAKey} (hk : SaWF k) (role : Bool) (d : Bytes) :
    SaWF (afterInteg k role d) := by
  cases role
  · exact ⟨hk.encr, hk.integ, hk.prf, hk.integ_i, hk.integ_r, hk.prf_d, hk.encr_i, hk.encr_r⟩
  · exact ⟨hk.encr, hk.integ, hk.prf, hk.integ_i, hk.integ_r, hk.prf_d, hk.encr_i, hk.encr_r⟩

theorem Decode_chain_cases (t : UInt8) (b : Bytes) :
    (∃ l ps, IKEPayloadContainer.Decode [] t b = .ok l ∧ decodeChain t b = .ok ps ∧ GenAbs.absPayloads l = some ps) ∨
    (IKEPayloadContainer.Decode [] t b = .err ∧ decodeChain t b = .err) ∨
    (IKEPayloadContainer.Decode [] t b = .fault ∧ decodeChain t b = .fault) := by
  have hd := Gen_Decode_chain t b
  cases hg : IKEPayloadContainer.Decode [] t b with
  | ok l =>
    rw [hg] at hd
    cases hm : decodeChain t b with
    | ok ps => rw [hm] at hd; simp only [map_ok', Res.ok.injEq] at hd; exact Or.inl ⟨l, ps, rfl, rfl, hd⟩
    | err => rw [hm] at hd; simp at hd
    | fault => rw [hm] at hd; simp at hd
  | err =>
    rw [hg] at hd
    cases hm : decodeChain t b with
    | ok ps => rw [hm] at hd; simp at hd
    | err => exact Or.inr (Or.inl ⟨rfl, rfl⟩)
    | fault => rw [hm] at hd; simp at hd
  | fault =>
    rw [hg] at hd
    cases hm : decodeChain t b with
    | ok ps => rw [hm] at hd; simp at hd
    | err => rw [hm] at hd; simp at hd
    | fault => exact Or.inr (Or.inr ⟨rfl, rfl⟩)

theorem decide_not_role (role : Bool) : decide (¬ (role = true)) = !role := by cases role <;> rfl

theorem decryptMsg_refines (P : Prims) (hP : P.Lawful) (k : Gen.security.IKESAKey) (hk : SaWF k)
    (hi : IntegOk k.IntegInfo) (role : Bool) (bs : Bytes) (gm : Gen.message.IKEMessage) (m : Msg)
    (hm : GenAbs.absMsg gm = some m) (hne : m.payloads ≠ []) (hbs : bs ≠ []) :
    (Gen.ike.decryptMsg P bs (some gm) (some k) role).map (fun x => (absSa x.2.1, GenAbs.absMsg x.2.2)) =
      (match decryptMsg P (absSa k) role bs m with
       | (sa', _, .ok m') => .ok (sa', some m')
       | (_, _, .err) => .err
       | (_, _, .fault) => .fault) := by
  obtain ⟨hps, hhdr⟩ := absMsg_some hm
  unfold Gen.ike.decryptMsg decryptMsg
  simp only [Option.isNone_some, Option.getD_some, Bool.false_eq_true, if_false, hbs, hk.integ, hk.encr, hk.integ_i,
    beq_iff_eq, hk.encr_i.1]
  rw [loop1_refines P _ _ hps]
  cases hl : lastSK m.payloads none with
  | err => rfl
  | fault => rfl
  | ok o =>
    cases o with
    | none =>
      exfalso
      cases hmp : m.payloads with
      | nil => exact hne hmp
      | cons p ps => rw [hmp] at hl; exact lastSK_cons_ne_none p ps none hl
    | some nd =>
      obtain ⟨next, encData⟩ := nd
      simp only [Res.bind_ok, IntegOk_outLen hi]
      have e : (absSa k).integInfo.outLen = (absIntegInfo k.IntegInfo).outLen := rfl
      rw [e]
      by_cases h1 : encData.length < (absIntegInfo k.IntegInfo).outLen
      · rw [if_pos (by omega), if_pos h1]; rfl
      · rw [if_neg (by omega), if_neg h1, sliceFrom_sub _ _ (by omega), sliceTo_sub, sliceTo_sub]
        simp only [Res.bind_ok]
        by_cases h2 : bs.length < (absIntegInfo k.IntegInfo).outLen
        · rw [if_pos h2, if_pos h2]; rfl
        · rw [if_neg h2, if_neg h2, if_neg h1]
          simp only [Res.bind_ok, decide_not_role]
          rw [verifyIntegrity_eq P k hi hk.integ_i hk.integ_r]
          have h1' := absSa_afterInteg P k (!role) (bs.take (bs.length - (absIntegInfo k.IntegInfo).outLen))
          have h2' := calcIntegrity_snd P k (!role) (bs.take (bs.length - (absIntegInfo k.IntegInfo).outLen))
          have hdp := decryptPayload_refines P hP _
            (SaWF_afterInteg hk (!role) (bs.take (bs.length - (absIntegInfo k.IntegInfo).outLen))) role
            (encData.take (encData.length - (absIntegInfo k.IntegInfo).outLen))
          generalize afterInteg k (!role) (bs.take (bs.length - (absIntegInfo k.IntegInfo).outLen)) = k1 at *
          generalize calcIntegrity P (absSa k) (!role) (bs.take (bs.length - (absIntegInfo k.IntegInfo).outLen)) = r at *
          obtain ⟨sa1, rc⟩ := r
          simp only at h1' h2'
          subst h1'
          rw [← h2']
          cases rc with
          | err => rfl
          | fault => rfl
          | ok expect =>
            simp only [Res.bind_ok, bytesEq]
            by_cases hc : encData.drop (encData.length - (absIntegInfo k.IntegInfo).outLen) = expect
            · subst hc
              simp only [if_true, Res.bind_ok, hdp, beq_self_eq_true, Bool.not_true, Bool.false_eq_true, if_false]
              cases decryptPayload P (absSa k1) role (encData.take (encData.length - (absIntegInfo k.IntegInfo).outLen)) with
              | err => rfl
              | fault => rfl
              | ok plain =>
                simp only [Res.bind_ok, IKEPayloadContainer.Reset]
                rcases Decode_chain_cases next plain with ⟨l, ps, h1, h2, h3⟩ | ⟨h1, h2⟩ | ⟨h1, h2⟩
                · simp only [h1, h2, Res.bind_ok, map_ok', List.nil_append, GenAbs.absMsg, h3, Option.map_some, hhdr]
                · simp only [h1, h2, Res.bind_err, map_err']
                · simp only [h1, h2, Res.bind_fault, map_fault']
            · simp [hc]

/-- the first and the third component of the generated result are the same message -/
def SameMsg (r : Res (IKEMessage × Gen.security.IKESAKey × IKEMessage)) : Prop := ∀ x, r = .ok x → x.1 = x.2.2

theorem SameMsg_bind {α : Type} (a : Res α) (f : α → Res (IKEMessage × Gen.security.IKESAKey × IKEMessage))
    (h : ∀ v, SameMsg (f v)) : SameMsg (a >>= f) := by
  cases a with
  | ok v => simpa using h v
  | err => intro x hx; simp at hx
  | fault => intro x hx; simp at hx

theorem SameMsg_ite (c : Prop) [Decidable c] (a b : Res (IKEMessage × Gen.security.IKESAKey × IKEMessage))
    (ha : SameMsg a) (hb : SameMsg b) : SameMsg (if c then a else b) := by
  split <;> assumption

theorem SameMsg_err : SameMsg .err := by intro x hx; simp at hx
theorem SameMsg_ok (a : IKEMessage) (k : Gen.security.IKESAKey) : SameMsg (.ok (a, k, a)) := by
  intro x hx; simp only [Res.ok.injEq] at hx; subst hx; rfl

theorem decryptMsg_fst_eq (P : Prims) (bs : Bytes) (gm : Option IKEMessage) (k : Option Gen.security.IKESAKey)
    (role : Bool) (x : IKEMessage × Gen.security.IKESAKey × IKEMessage)
    (h : Gen.ike.decryptMsg P bs gm k role = .ok x) : x.1 = x.2.2 := by
  revert x h
  show SameMsg _
  unfold Gen.ike.decryptMsg
  dsimp only
  repeat (first
    | exact SameMsg_err
    | exact SameMsg_ok _ _
    | (apply SameMsg_ite)
    | (apply SameMsg_bind; intro _))

/-! ### `DecodeDecrypt` -/

/-- `IKEMessage.DecodePayload` on a message without payloads ⊑ `decodeChain` under the header's first type -/
theorem DecodePayload_refines (gh : IKEHeader) (b : Bytes) :
    (IKEMessage.DecodePayload { IKEHeader := gh, Payloads := [] } b).map GenAbs.absMsg =
      (decodeChain gh.NextPayload b).map (fun ps => some ⟨GenAbs.absHeader gh, ps⟩) := by
  unfold IKEMessage.DecodePayload
  rcases Decode_chain_cases gh.NextPayload b with ⟨l, ps, h1, h2, h3⟩ | ⟨h1, h2⟩ | ⟨h1, h2⟩
  · simp only [h1, h2, Res.bind_ok, map_ok', GenAbs.absMsg, h3, Option.map_some]
  · simp only [h1, h2, Res.bind_err, map_err']
  · simp only [h1, h2, Res.bind_fault, map_fault']

/-- what `DecodeDecrypt` does with the decoded outer message (generated code) -/
def tailG (P : Prims) (bs : Bytes) (ko : Option Gen.security.IKESAKey) (role : Bool) (gm : IKEMessage) :
    Res (Gen.security.IKESAKey × IKEMessage) :=
  if gm.Payloads.length = 0 then
    (if gm.IKEHeader.NextPayload = (46 : UInt8) then Res.err else Res.ok (ko.getD {}, gm))
  else
    (Go.indexN gm.Payloads 0) >>= fun t1 =>
    (IKEPayload.Type_ t1) >>= fun t2 =>
    if t2 = (46 : UInt8) then
      (if ko.isNone = true then Res.err
       else (Gen.ike.decryptMsg P bs (some gm) (if ko.isNone then none else some (ko.getD {})) role) >>= fun t3 =>
         Res.ok (t3.2.1, t3.2.2))
    else Res.ok (ko.getD {}, gm)

/-- the outer decoding step of the generated `DecodeDecrypt` -/
def decodedG (bs : Bytes) (ho : Option IKEHeader) : Res IKEMessage :=
  match ho with
  | none => IKEMessage.Decode {} bs
  | some gh => (goFrom bs 28) >>= fun b => IKEMessage.DecodePayload { IKEHeader := gh, Payloads := [] } b

theorem DecodeDecrypt_eq (P : Prims) (bs : Bytes) (ho : Option IKEHeader) (ko : Option Gen.security.IKESAKey)
    (role : Bool) :
    Gen.ike.DecodeDecrypt P bs ho ko role = (decodedG bs ho) >>= fun gm => tailG P bs ko role gm := by
  cases ho with
  | none => rfl
  | some gh =>
    unfold Gen.ike.DecodeDecrypt decodedG
    cases goFrom bs 28 <;> rfl

/-- what `unprotect` does with the decoded outer message (model) -/
def tailM (P : Prims) (sa : Option SAKey) (role : Bool) (msg : Bytes) (m : Msg) : Option SAKey × Nat × Res Msg :=
  match m.payloads with
  | [] => if m.hdr.next == Facts.typeSK then (sa, 0, .err) else (sa, 0, .ok m)
  | p :: _ =>
    if p.typeCode == Facts.typeSK then
      match sa with
      | none => (none, 0, .err)
      | some k =>
        let (k', n, r) := decryptMsg P k role msg m
        (some k', n, r)
    else (sa, 0, .ok m)

def decodedM (msg : Bytes) (hdr : Option Header) : Res Msg :=
  match hdr with
  | none => decodeMsg msg
  | some h => do
    let body ← goFrom msg Facts.ikeHeaderLen
    let ps ← decodeChain h.next body
    .ok ⟨h, ps⟩

theorem unprotect_eq (P : Prims) (sa : Option SAKey) (role : Bool) (hdr : Option Header) (msg : Bytes) :
    unprotect P sa role hdr msg =
      (match decodedM msg hdr with
       | .err => (sa, 0, .err)
       | .fault => (sa, 0, .fault)
       | .ok m => tailM P sa role msg m) := rfl

/-- the two outer decoding steps agree; a decoded message means the datagram is not empty -/
theorem decoded_cases (bs : Bytes) (h : Option Header) :
    (∃ gm m, decodedG bs (h.map GenAbs.repHeader) = .ok gm ∧ decodedM bs h = .ok m ∧ GenAbs.absMsg gm = some m ∧ bs ≠ []) ∨
    (decodedG bs (h.map GenAbs.repHeader) = .err ∧ decodedM bs h = .err) ∨
    (decodedG bs (h.map GenAbs.repHeader) = .fault ∧ decodedM bs h = .fault) := by
  cases h with
  | none =>
    simp only [Option.map_none, decodedG, decodedM]
    have hd := Gen_Decode_msg bs
    cases hg : IKEMessage.Decode {} bs with
    | ok gm =>
      rw [hg] at hd
      cases hmm : decodeMsg bs with
      | ok m =>
        rw [hmm] at hd; simp only [map_ok', Res.ok.injEq] at hd
        refine Or.inl ⟨gm, m, rfl, rfl, hd, ?_⟩
        rintro rfl
        simp [decodeMsg, parseHeader, Facts.ikeHeaderLen] at hmm
      | err => rw [hmm] at hd; simp at hd
      | fault => rw [hmm] at hd; simp at hd
    | err =>
      rw [hg] at hd
      cases hmm : decodeMsg bs with
      | ok m => rw [hmm] at hd; simp at hd
      | err => exact Or.inr (Or.inl ⟨rfl, rfl⟩)
      | fault => rw [hmm] at hd; simp at hd
    | fault =>
      rw [hg] at hd
      cases hmm : decodeMsg bs with
      | ok m => rw [hmm] at hd; simp at hd
      | err => rw [hmm] at hd; simp at hd
      | fault => exact Or.inr (Or.inr ⟨rfl, rfl⟩)
  | some hd =>
    simp only [Option.map_some, decodedG, decodedM, Facts.ikeHeaderLen]
    unfold goFrom
    by_cases hl : 28 ≤ bs.length
    · simp only [hl, if_true, Res.bind_ok]
      have hp := DecodePayload_refines (GenAbs.repHeader hd) (bs.drop 28)
      have e1 : (GenAbs.repHeader hd).NextPayload = hd.next := rfl
      have e2 : GenAbs.absHeader (GenAbs.repHeader hd) = hd := rfl
      rw [e1, e2] at hp
      have hbs : bs ≠ [] := by rintro rfl; simp at hl
      cases hg : IKEMessage.DecodePayload { IKEHeader := GenAbs.repHeader hd, Payloads := [] } (bs.drop 28) with
      | ok gm =>
        rw [hg] at hp
        cases hmm : decodeChain hd.next (bs.drop 28) with
        | ok ps =>
          rw [hmm] at hp; simp only [map_ok', Res.ok.injEq] at hp
          exact Or.inl ⟨gm, ⟨hd, ps⟩, rfl, rfl, hp, hbs⟩
        | err => rw [hmm] at hp; simp at hp
        | fault => rw [hmm] at hp; simp at hp
      | err =>
        rw [hg] at hp
        cases hmm : decodeChain hd.next (bs.drop 28) with
        | ok ps => rw [hmm] at hp; simp at hp
        | err => exact Or.inr (Or.inl ⟨rfl, rfl⟩)
        | fault => rw [hmm] at hp; simp at hp
      | fault =>
        rw [hg] at hp
        cases hmm : decodeChain hd.next (bs.drop 28) with
        | ok ps => rw [hmm] at hp; simp at hp
        | err => rw [hmm] at hp; simp at hp
        | fault => exact Or.inr (Or.inr ⟨rfl, rfl⟩)
    · simp only [hl, if_false]
      exact Or.inr (Or.inr ⟨rfl, rfl⟩)

theorem tail_refines (P : Prims) (hP : P.Lawful) (k : Gen.security.IKESAKey) (hk : SaWF k)
    (hi : IntegOk k.IntegInfo) (role : Bool) (bs : Bytes) (gm : IKEMessage) (m : Msg)
    (hm : GenAbs.absMsg gm = some m) (hbs : bs ≠ []) :
    (tailG P bs (some k) role gm).map (fun x => (absSa x.1, GenAbs.absMsg x.2)) =
      (match tailM P (some (absSa k)) role bs m with
       | (some sa', _, .ok m) => .ok (sa', some m)
       | (none, _, .ok m) => .ok (absSa k, some m)
       | (_, _, .err) => .err
       | (_, _, .fault) => .fault) := by
  obtain ⟨hps, hhdr⟩ := absMsg_some hm
  have hnext : gm.IKEHeader.NextPayload = m.hdr.next := by rw [← hhdr]; rfl
  unfold tailG tailM
  cases hgp : gm.Payloads with
  | nil =>
    rw [hgp] at hps
    rw [absPayloads_nil_some _ hps]
    simp only [List.length_nil, if_true, hnext, Facts.typeSK, beq_iff_eq, Option.getD_some]
    by_cases h46 : m.hdr.next = 46
    · simp [h46]
    · simp [h46, hm]
  | cons g gps =>
    rw [hgp] at hps
    obtain ⟨p, ps', hmp, hg, hr⟩ := absPayloads_cons_some g gps _ hps
    have hne : m.payloads ≠ [] := by rw [hmp]; simp
    have hidx : Go.indexN (g :: gps) 0 = .ok g := by simp [Go.indexN]
    rw [hmp]
    simp only [List.length_cons, Nat.add_one_ne_zero, if_false, hidx, Res.bind_ok, IKEPayload_Type_abs g p hg,
      Facts.typeSK, beq_iff_eq, Option.isNone_some, Bool.false_eq_true, Option.getD_some]
    by_cases h46 : p.typeCode = 46
    · simp only [h46, if_true]
      rw [map_bind_ok]
      have hd := decryptMsg_refines P hP k hk hi role bs gm m hm hne hbs
      rw [hd]
      generalize decryptMsg P (absSa k) role bs m = r
      obtain ⟨k', n, rr⟩ := r
      cases rr <;> rfl
    · simp [h46, hm]

theorem DecodeDecrypt_refines (P : Prims) (hP : P.Lawful) (k : Gen.security.IKESAKey) (hk : SaWF k)
    (hi : IntegOk k.IntegInfo) (role : Bool) (h : Option Header) (bs : Bytes) :
    (Gen.ike.DecodeDecrypt P bs (h.map GenAbs.repHeader) (some k) role).map
        (fun x => (absSa x.1, GenAbs.absMsg x.2)) =
      (match unprotect P (some (absSa k)) role h bs with
       | (some sa', _, .ok m) => .ok (sa', some m)
       | (none, _, .ok m) => .ok (absSa k, some m)
       | (_, _, .err) => .err
       | (_, _, .fault) => .fault) := by
  rw [DecodeDecrypt_eq, unprotect_eq]
  rcases decoded_cases bs h with ⟨gm, m, h1, h2, h3, h4⟩ | ⟨h1, h2⟩ | ⟨h1, h2⟩
  · rw [h1, h2]
    simp only [Res.bind_ok]
    exact tail_refines P hP k hk hi role bs gm m h3 h4
  · rw [h1, h2]; rfl
  · rw [h1, h2]; rfl

theorem tail_nil_key (P : Prims) (role : Bool) (bs : Bytes) (gm : IKEMessage) (m : Msg)
    (hm : GenAbs.absMsg gm = some m) :
    (tailG P bs none role gm).map (fun x => GenAbs.absMsg x.2) =
      (match tailM P none role bs m with
       | (_, _, .ok m) => .ok (some m)
       | (_, _, .err) => .err
       | (_, _, .fault) => .fault) := by
  obtain ⟨hps, hhdr⟩ := absMsg_some hm
  have hnext : gm.IKEHeader.NextPayload = m.hdr.next := by rw [← hhdr]; rfl
  unfold tailG tailM
  cases hgp : gm.Payloads with
  | nil =>
    rw [hgp] at hps
    rw [absPayloads_nil_some _ hps]
    simp only [List.length_nil, if_true, hnext, Facts.typeSK, beq_iff_eq]
    by_cases h46 : m.hdr.next = 46
    · simp [h46]
    · simp [h46, hm]
  | cons g gps =>
    rw [hgp] at hps
    obtain ⟨p, ps', hmp, hg, hr⟩ := absPayloads_cons_some g gps _ hps
    have hidx : Go.indexN (g :: gps) 0 = .ok g := by simp [Go.indexN]
    rw [hmp]
    simp only [List.length_cons, Nat.add_one_ne_zero, if_false, hidx, Res.bind_ok, IKEPayload_Type_abs g p hg,
      Facts.typeSK, beq_iff_eq, Option.isNone_none, if_true]
    by_cases h46 : p.typeCode = 46
    · simp [h46]
    · simp [h46, hm]

theorem DecodeDecrypt_nil_key (P : Prims) (role : Bool) (h : Option Header) (bs : Bytes) :
    (Gen.ike.DecodeDecrypt P bs (h.map GenAbs.repHeader) none role).map (fun x => GenAbs.absMsg x.2) =
      (match unprotect P none role h bs with
       | (_, _, .ok m) => .ok (some m)
       | (_, _, .err) => .err
       | (_, _, .fault) => .fault) := by
  rw [DecodeDecrypt_eq, unprotect_eq]
  rcases decoded_cases bs h with ⟨gm, m, h1, h2, h3, h4⟩ | ⟨h1, h2⟩ | ⟨h1, h2⟩
  · rw [h1, h2]
    simp only [Res.bind_ok]
    exact tail_nil_key P role bs gm m h3
  · rw [h1, h2]; rfl
  · rw [h1, h2]; rfl

/-! ### acceptance needs a valid checksum (over the generated code only) -/

/-- the trailing `outLen` octets of the SK payload's data are the truncated MAC, under the PEER's integrity key,
of the datagram without its trailing `outLen` octets -/
def ValidChecksum (P : Prims) (k : Gen.security.IKESAKey) (role : Bool) (bs encData : Bytes) : Prop :=
  let n := (absIntegInfo k.IntegInfo).outLen
  let mac := P.mac (if role then k.Integ_r else k.Integ_i).h (if role then k.Integ_r else k.Integ_i).key
    (bs.take (bs.length - n))
  n ≤ encData.length ∧ n ≤ bs.length ∧ n ≤ mac.length ∧ encData.drop (encData.length - n) = mac.take n

/-- the decoded outer message does not start with an SK payload -/
def NoSKFirst (gm : IKEMessage) : Prop :=
  match gm.Payloads with
  | [] => gm.IKEHeader.NextPayload ≠ 46
  | g :: _ => ∀ v, g ≠ .Encrypted v

theorem Type_cases (g : IKEPayload) :
    (∃ v, g = .Encrypted v ∧ IKEPayload.Type_ g = .ok 46) ∨ (IKEPayload.Type_ g = .fault) ∨
    ((∀ v, g ≠ .Encrypted v) ∧ ∃ c, IKEPayload.Type_ g = .ok c ∧ c ≠ 46) := by
  cases g <;> first
    | exact Or.inl ⟨_, rfl, rfl⟩
    | exact Or.inr (Or.inl rfl)
    | exact Or.inr (Or.inr ⟨fun v h => IKEPayload.noConfusion h, _, rfl, by decide⟩)

/-- the scan of the generated `decryptMsg` succeeds only on SK payloads and returns the last one -/
theorem loop1_ok_inv (P : Prims) (gps : List IKEPayload) :
    ∀ (idx : Nat) (acc e : Encrypted), Gen.ike.decryptMsg.loop1 P gps idx acc = .ok e →
      (∀ g ∈ gps, ∃ v, g = .Encrypted v) ∧
      ((gps = [] ∧ e = acc) ∨ gps.getLast? = some (.Encrypted e)) := by
  induction gps with
  | nil =>
    intro idx acc e h
    simp only [Gen.ike.decryptMsg.loop1, Res.ok.injEq] at h
    exact ⟨by simp, Or.inl ⟨rfl, h.symm⟩⟩
  | cons g gps ih =>
    intro idx acc e h
    unfold Gen.ike.decryptMsg.loop1 at h
    rcases Type_cases g with ⟨v, rfl, ht⟩ | ht | ⟨_, c, ht, hc⟩
    · simp only [ht, Res.bind_ok, if_true] at h
      obtain ⟨h1, h2⟩ := ih _ _ _ h
      refine ⟨?_, Or.inr ?_⟩
      · intro g hg
        rcases List.mem_cons.mp hg with rfl | hg
        · exact ⟨v, rfl⟩
        · exact h1 g hg
      · rcases h2 with ⟨rfl, rfl⟩ | h2
        · rfl
        · cases gps with
          | nil => simp at h2
          | cons q qs => simpa [List.getLast?_cons_cons] using h2
    · simp [ht] at h
    · simp [ht, hc] at h

/-- the generated `decryptMsg` returns a message only after the checksum comparison succeeded -/
theorem decryptMsg_ok_inv (P : Prims) (k : Gen.security.IKESAKey) (hk : SaWF k) (hi : IntegOk k.IntegInfo)
    (role : Bool) (bs : Bytes) (gm : IKEMessage) (x : IKEMessage × Gen.security.IKESAKey × IKEMessage)
    (h : Gen.ike.decryptMsg P bs (some gm) (some k) role = .ok x) :
    ∃ e, Gen.ike.decryptMsg.loop1 P gm.Payloads 0 {} = .ok e ∧ ValidChecksum P k role bs e.EncryptedData := by
  unfold Gen.ike.decryptMsg at h
  simp only [Option.isNone_some, Option.getD_some, Bool.false_eq_true, if_false, hk.integ, hk.encr, hk.integ_i,
    beq_iff_eq, hk.encr_i.1] at h
  by_cases hbs : bs = []
  · simp [hbs] at h
  · simp only [hbs, if_false] at h
    cases hl : Gen.ike.decryptMsg.loop1 P gm.Payloads 0 {} with
    | err => rw [hl] at h; simp at h
    | fault => rw [hl] at h; simp at h
    | ok e =>
      refine ⟨e, rfl, ?_⟩
      rw [hl] at h
      simp only [Res.bind_ok, IntegOk_outLen hi] at h
      by_cases h1 : e.EncryptedData.length < (absIntegInfo k.IntegInfo).outLen
      · rw [if_pos (by omega)] at h; simp at h
      · rw [if_neg (by omega), sliceFrom_sub _ _ (by omega), sliceTo_sub, sliceTo_sub] at h
        by_cases h2 : bs.length < (absIntegInfo k.IntegInfo).outLen
        · rw [if_pos h2] at h; simp at h
        · rw [if_neg h2, if_neg h1] at h
          simp only [Res.bind_ok, decide_not_role] at h
          rw [verifyIntegrity_eq P k hi hk.integ_i hk.integ_r] at h
          have hr : (if (!role) = true then k.Integ_i else k.Integ_r) = (if role then k.Integ_r else k.Integ_i) := by
            cases role <;> rfl
          rw [hr] at h
          unfold goTo at h
          unfold ValidChecksum
          simp only
          by_cases h3 : (absIntegInfo k.IntegInfo).outLen ≤ (P.mac (if role then k.Integ_r else k.Integ_i).h
              (if role then k.Integ_r else k.Integ_i).key (bs.take (bs.length - (absIntegInfo k.IntegInfo).outLen))).length
          · rw [if_pos h3] at h
            simp only [Res.bind_ok] at h
            by_cases h4 : e.EncryptedData.drop (e.EncryptedData.length - (absIntegInfo k.IntegInfo).outLen) =
                (P.mac (if role then k.Integ_r else k.Integ_i).h (if role then k.Integ_r else k.Integ_i).key
                  (bs.take (bs.length - (absIntegInfo k.IntegInfo).outLen))).take (absIntegInfo k.IntegInfo).outLen
            · exact ⟨by omega, by omega, h3, h4⟩
            · rw [if_neg h4] at h; simp at h
          · rw [if_neg h3] at h; simp at h

/-- `DecodeDecrypt` with an SA returns a message only if the decoded outer message does not start with an SK payload
(then it is returned as decoded, the SA untouched), or it consists of SK payloads only and the last one carries a valid
checksum of the datagram under the peer's integrity key -/
theorem DecodeDecrypt_accepts_only_valid (P : Prims) (hP : P.Lawful) (k : Gen.security.IKESAKey) (hk : SaWF k)
    (hi : IntegOk k.IntegInfo) (role : Bool) (h : Option Header) (bs : Bytes)
    (k' : Gen.security.IKESAKey) (gm' : IKEMessage)
    (hok : Gen.ike.DecodeDecrypt P bs (h.map GenAbs.repHeader) (some k) role = .ok (k', gm')) :
    ∃ gm, decodedG bs (h.map GenAbs.repHeader) = .ok gm ∧
      ((NoSKFirst gm ∧ k' = k ∧ gm' = gm) ∨
       (∃ e, (∀ g ∈ gm.Payloads, ∃ v, g = .Encrypted v) ∧ gm.Payloads.getLast? = some (.Encrypted e) ∧
          ValidChecksum P k role bs e.EncryptedData)) := by
  rw [DecodeDecrypt_eq] at hok
  cases hd : decodedG bs (h.map GenAbs.repHeader) with
  | err => rw [hd] at hok; simp at hok
  | fault => rw [hd] at hok; simp at hok
  | ok gm =>
    refine ⟨gm, rfl, ?_⟩
    rw [hd] at hok
    simp only [Res.bind_ok] at hok
    unfold tailG at hok
    unfold NoSKFirst
    cases hgp : gm.Payloads with
    | nil =>
      rw [hgp] at hok
      simp only [List.length_nil, if_true, Option.getD_some] at hok
      by_cases h46 : gm.IKEHeader.NextPayload = 46
      · simp [h46] at hok
      · simp only [h46, if_false, Res.ok.injEq, Prod.mk.injEq] at hok
        exact Or.inl ⟨h46, hok.1.symm, hok.2.symm⟩
    | cons g gps =>
      rw [hgp] at hok
      have hidx : Go.indexN (g :: gps) 0 = .ok g := by simp [Go.indexN]
      simp only [List.length_cons, Nat.add_one_ne_zero, if_false, hidx, Res.bind_ok, Option.isNone_some,
        Bool.false_eq_true, Option.getD_some] at hok
      rcases Type_cases g with ⟨v, rfl, ht⟩ | ht | ⟨hns, c, ht, hc⟩
      · simp only [ht, Res.bind_ok, if_true] at hok
        right
        cases hdm : Gen.ike.decryptMsg P bs (some gm) (some k) role with
        | err => rw [hdm] at hok; simp at hok
        | fault => rw [hdm] at hok; simp at hok
        | ok x =>
          obtain ⟨e, hl, hv⟩ := decryptMsg_ok_inv P k hk hi role bs gm x hdm
          obtain ⟨hall, hlast⟩ := loop1_ok_inv P gm.Payloads 0 {} e hl
          rw [hgp] at hall hlast
          refine ⟨e, hall, ?_, hv⟩
          rcases hlast with ⟨hnil, _⟩ | hlast
          · exact absurd hnil (by simp)
          · exact hlast
      · simp [ht] at hok
      · simp only [ht, Res.bind_ok, hc, if_false, Res.ok.injEq, Prod.mk.injEq] at hok
        exact Or.inl ⟨hns, hok.1.symm, hok.2.symm⟩

/-! ### the hypotheses are needed -/

/-- an SA object with every object in place; `ol` is the output length of its integrity descriptor -/
def exSa (ol : Int) : Gen.security.IKESAKey :=
  { DhInfo := someDh, EncrInfo := .EncrAesCbc ⟨32⟩, IntegInfo := .AuthHmacSha1_96 ⟨20, ol⟩, PrfInfo := .PrfHmacSha1 ⟨20, 20⟩,
    Prf_d := Go.Mac.new 1 [], Integ_i := Go.Mac.new 1 [], Integ_r := Go.Mac.new 1 [],
    Encr_i := { Block := [0] }, Encr_r := { Block := [0] }, Prf_i := Go.Mac.new 1 [], Prf_r := Go.Mac.new 1 [] }

theorem exSa_wf (ol : Int) : SaWF (exSa ol) :=
  ⟨by simp [exSa], by simp [exSa], by simp [exSa], rfl, rfl, rfl, ⟨by simp [exSa], rfl, rfl⟩, ⟨by simp [exSa], rfl, rfl⟩⟩

/-- a negative output length: Go's `calculatedChecksum[:outputLen]` panics (the translation faults), the model's
`Nat` length is 0 and it returns the empty checksum -/
theorem calculateIntegrity_needs_nonneg (P : Prims) :
    Gen.ike.calculateIntegrity P (exSa (-1)) true [] = .fault ∧
    (calcIntegrity P (absSa (exSa (-1))) true []).2 = .ok [] := by
  constructor
  · simp [Gen.ike.calculateIntegrity, exSa, Gen.integ.INTEGType.GetOutputLength,
      Gen.integ.AuthHmacSha1_96.GetOutputLength, Go.Mac.isNil, Go.Mac.new, Go.sliceTo]
  · simp [calcIntegrity, absSa, exSa, absIntegInfo, goTo]

/-- no payload at all: the translation (zero `Encrypted` struct instead of a nil pointer) reports an error, the
model the nil dereference of the Go code -/
theorem decryptMsg_needs_hne (P : Prims) :
    Gen.ike.decryptMsg P [0] (some {}) (some (exSa 12)) true = .err ∧
    (decryptMsg P (absSa (exSa 12)) true [0] ⟨GenAbs.absHeader {}, []⟩).2.2 = .fault := by
  constructor
  · simp [Gen.ike.decryptMsg, Gen.ike.decryptMsg.loop1, exSa, Gen.integ.INTEGType.GetOutputLength,
      Gen.integ.AuthHmacSha1_96.GetOutputLength, Go.Mac.isNil, Go.Mac.new]
  · simp [decryptMsg, lastSK]

/-- an empty datagram: the translation (nil and empty slices identified) reports `msg is nil`, the model panics at
`msg[:len(msg)-checksumLength]` as the Go code does for an empty non-nil slice -/
theorem decryptMsg_needs_hbs (P : Prims) :
    Gen.ike.decryptMsg P [] (some { Payloads := [.Encrypted { NextPayload := 0, EncryptedData := zeros 12 }] })
        (some (exSa 12)) true = .err ∧
    (decryptMsg P (absSa (exSa 12)) true [] ⟨GenAbs.absHeader {}, [.sk 0 (zeros 12)]⟩).2.2 = .fault := by
  constructor
  · simp [Gen.ike.decryptMsg]
  · simp [decryptMsg, lastSK, absSa, exSa, absIntegInfo, zeros]

/-- a nil hash object of the direction used: Go returns an error (`calculateIntegrity` tests the object; the message
of `verifyIntegrity` evaluates `ikesaKey.IntegInfo.TransformID()` on the caller's object); the translation evaluates it
on the zero object `catchErr` supplies for the failed call, whose descriptor is nil: a fault.  Not reachable under
`SaWF` (both hash objects non-nil). -/
theorem verifyIntegrity_nil_mac_fault (P : Prims) (k : Gen.security.IKESAKey) (hi : IntegOk k.IntegInfo)
    (hn : Go.Mac.isNil k.Integ_i = true) (data checksum : Bytes) :
    Gen.ike.verifyIntegrity P data checksum k true = .fault := by
  unfold Gen.ike.verifyIntegrity Gen.ike.calculateIntegrity
  rw [IntegOk_outLen hi]
  simp only [Res.bind_ok, if_true, hn, Go.catchErr]
  rfl

end Ike.RefineSa.Dec

