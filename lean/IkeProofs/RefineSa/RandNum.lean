import IkeProofs.RefineSa.Keys
import IkeProofs.RefineReg.Dh
import IkeProofs.RefineReg.Registries

/-! The random private exponent, the Diffie-Hellman materials and `NewIKESAKey` of package `security`, as
translated (`Gen_security.lean`): theorems stated directly about the generated code (there is no hand-written
model of these four functions). -/

set_option linter.unusedSimpArgs false
set_option linter.unusedVariables false
set_option maxRecDepth 8192

namespace Ike.RefineSa
open Ike Ike.GenAbsSa

/-! ### 1. `init`: the two bounds -/

/-- the package-level variables of `security` after `init` -/
def secG : Gen.security.Globals := match Gen.security.init_ {} with | .ok G => G | _ => {}

theorem security_init_ok : Gen.security.init_ {} = .ok secG := rfl

theorem secG_max : secG.randomNumberMaximum = 2 ^ 2048 - 1 := by decide +kernel
theorem secG_min : secG.randomNumberMinimum = 2 ^ 128 - 1 := by decide +kernel

theorem secG_bounds : secG.randomNumberMaximum = 2 ^ 2048 - 1 ∧ secG.randomNumberMinimum = 2 ^ 128 - 1 :=
  ⟨secG_max, secG_min⟩

theorem secG_eq : secG = { randomNumberMaximum := 2 ^ 2048 - 1, randomNumberMinimum := 2 ^ 128 - 1 } := by
  have h1 := secG_max
  have h2 := secG_min
  cases hG : secG with
  | mk a b => rw [hG] at h1 h2; simp only at h1 h2; rw [h1, h2]

/-! ### 2. `rand.Int` -/

/-- the first octet masked to `b` bits (what `crypto/rand.Int` does to every draw) -/
def maskTop (b : Nat) : Bytes → Bytes
  | [] => []
  | x :: rest => (x &&& UInt8.ofNat (2 ^ b - 1)) :: rest

theorem randIntLoop_succ (max k b fuel : Nat) (r : Rand) :
    Go.randIntLoop max k b (fuel + 1) r =
      (if r.failAt = some r.reads then .ok ({ r with reads := r.reads + 1 }, 0, .other)
       else if beNat (maskTop b (cyc r.buf r.pos k)) < max then
         .ok ({ r with reads := r.reads + 1, pos := r.pos + k }, beNat (maskTop b (cyc r.buf r.pos k)), .none)
       else Go.randIntLoop max k b fuel { r with reads := r.reads + 1, pos := r.pos + k }) := by
  rw [Go.randIntLoop]
  unfold Rand.draw
  by_cases hf : r.failAt = some r.reads
  · rw [if_pos hf, if_pos hf]
  · rw [if_neg hf, if_neg hf]
    show (if beNat (maskTop b (cyc r.buf r.pos k)) < max then _ else _) = _
    rfl

/-- everything one call of the sampling loop does to the random source -/
theorem randIntLoop_trace (max k b : Nat) (fuel : Nat) (r r' : Rand) (n : Nat) (e : Go.Err)
    (h : Go.randIntLoop max k b fuel r = .ok (r', n, e)) :
    r'.buf = r.buf ∧ r'.failAt = r.failAt ∧ r.reads < r'.reads ∧
    (∀ i, r.reads ≤ i → i + 1 < r'.reads → r.failAt ≠ some i) ∧
    (e = .none → r.failAt ≠ some (r'.reads - 1) ∧ n < max ∧ r'.pos = r.pos + k * (r'.reads - r.reads) ∧
        n = beNat (maskTop b (cyc r.buf (r'.pos - k) k))) ∧
    (e ≠ .none → r.failAt = some (r'.reads - 1) ∧ n = 0 ∧ e = .other ∧
        r'.pos = r.pos + k * (r'.reads - 1 - r.reads)) := by
  induction fuel generalizing r with
  | zero => simp [Go.randIntLoop] at h
  | succ fuel ih =>
    rw [randIntLoop_succ] at h
    by_cases hf : r.failAt = some r.reads
    · rw [if_pos hf] at h
      simp only [Res.ok.injEq, Prod.mk.injEq] at h
      obtain ⟨h1, h2, h3⟩ := h
      subst h1 h2 h3
      refine ⟨rfl, rfl, Nat.lt_succ_self _, ?_, ?_, ?_⟩
      · intro i h1 h2; simp only at h2; omega
      · intro h; cases h
      · intro _; refine ⟨?_, rfl, rfl, ?_⟩
        · simpa using hf
        · simp
    · rw [if_neg hf] at h
      by_cases hlt : beNat (maskTop b (cyc r.buf r.pos k)) < max
      · rw [if_pos hlt] at h
        simp only [Res.ok.injEq, Prod.mk.injEq] at h
        obtain ⟨h1, h2, h3⟩ := h
        subst h1 h2 h3
        refine ⟨rfl, rfl, Nat.lt_succ_self _, ?_, ?_, ?_⟩
        · intro i h1 h2; simp only at h2; omega
        · intro _
          refine ⟨?_, hlt, ?_, ?_⟩
          · simpa using hf
          · simp
          · simp
        · intro h; exact absurd rfl h
      · rw [if_neg hlt] at h
        obtain ⟨i1, i2, i3, i4, i5, i6⟩ := ih _ h
        simp only at i1 i2 i3 i4 i5 i6
        refine ⟨i1, i2, by omega, ?_, ?_, ?_⟩
        · intro i h1 h2
          by_cases hi : i = r.reads
          · subst hi; exact hf
          · exact i4 i (by omega) h2
        · intro he
          obtain ⟨j1, j2, j3, j4⟩ := i5 he
          refine ⟨j1, j2, ?_, j4⟩
          rw [j3]
          have : r'.reads - r.reads = (r'.reads - (r.reads + 1)) + 1 := by omega
          rw [this, Nat.mul_succ]; omega
        · intro he
          obtain ⟨j1, j2, j3, j4⟩ := i6 he
          refine ⟨j1, j2, j3, ?_⟩
          rw [j4]
          have : r'.reads - 1 - r.reads = (r'.reads - 1 - (r.reads + 1)) + 1 := by
            have : r.failAt = some (r'.reads - 1) := j1
            have : r'.reads - 1 ≠ r.reads := by
              intro hh; rw [hh] at this; exact hf this
            omega
          rw [this, Nat.mul_succ]; omega

theorem bitLen_pos (m : Nat) (h : 0 < m) : 0 < Go.bitLen m := by
  cases m with
  | zero => omega
  | succ m => simp [Go.bitLen]

theorem randInt_zero (r : Rand) : Go.randInt r 0 = .fault := rfl

/-- `rand.Int(rand.Reader, 1)` is `0` and reads nothing -/
theorem randInt_one (r : Rand) : Go.randInt r 1 = .ok (r, 0, .none) := rfl

/-- for `1 < max` a call of `rand.Int` is the sampling loop -/
theorem randInt_eq_loop (r : Rand) (max : Nat) (hmax : 1 < max) :
    Go.randInt r max =
      Go.randIntLoop max ((Go.bitLen (max - 1) + 7) / 8)
        (if Go.bitLen (max - 1) % 8 = 0 then 8 else Go.bitLen (max - 1) % 8) Go.unboundedLoopFuel r := by
  unfold Go.randInt
  have hb := bitLen_pos (max - 1) (by omega)
  rw [if_neg (by omega)]
  simp only []
  rw [if_neg (by omega)]

/-- a number `rand.Int` returns is below `max` -/
theorem randInt_lt (r r' : Rand) (max n : Nat) (h : Go.randInt r max = .ok (r', n, .none)) : n < max := by
  by_cases h0 : max = 0
  · subst h0; cases h
  by_cases h1 : max = 1
  · subst h1; rw [randInt_one] at h
    simp only [Res.ok.injEq, Prod.mk.injEq] at h
    omega
  rw [randInt_eq_loop r max (by omega)] at h
  exact ((randIntLoop_trace _ _ _ _ _ _ _ _ h).2.2.2.2.1 rfl).2.1

/-- an error of `rand.Int` arises exactly from a failing read: the read that failed is the last one, every read
before it succeeded, and no number is delivered -/
theorem randInt_err_state (r r' : Rand) (max n : Nat) (e : Go.Err) (h : Go.randInt r max = .ok (r', n, e))
    (he : e ≠ .none) :
    e = .other ∧ n = 0 ∧ r.reads < r'.reads ∧ r.failAt = some (r'.reads - 1) ∧
      (∀ i, r.reads ≤ i → i + 1 < r'.reads → r.failAt ≠ some i) ∧ r'.failAt = r.failAt ∧ r'.buf = r.buf := by
  by_cases h0 : max = 0
  · subst h0; cases h
  by_cases h1 : max = 1
  · subst h1; rw [randInt_one] at h
    simp only [Res.ok.injEq, Prod.mk.injEq] at h
    exact absurd h.2.2.symm he
  rw [randInt_eq_loop r max (by omega)] at h
  obtain ⟨i1, i2, i3, i4, _, i6⟩ := randIntLoop_trace _ _ _ _ _ _ _ _ h
  obtain ⟨j1, j2, j3, _⟩ := i6 he
  exact ⟨j3, j2, i3, j1, i4, i2, i1⟩

/-- conversely: without an error every read of the call succeeded (and for `1 < max` there was at least one);
the number is the last draw, masked -/
theorem randInt_ok_state (r r' : Rand) (max n : Nat) (hmax : 1 < max) (h : Go.randInt r max = .ok (r', n, .none)) :
    r.reads < r'.reads ∧ (∀ i, r.reads ≤ i → i < r'.reads → r.failAt ≠ some i) ∧ r'.failAt = r.failAt ∧
      r'.buf = r.buf ∧ n < max ∧
      r'.pos = r.pos + (Go.bitLen (max - 1) + 7) / 8 * (r'.reads - r.reads) ∧
      n = beNat (maskTop (if Go.bitLen (max - 1) % 8 = 0 then 8 else Go.bitLen (max - 1) % 8)
            (cyc r.buf (r'.pos - (Go.bitLen (max - 1) + 7) / 8) ((Go.bitLen (max - 1) + 7) / 8))) := by
  rw [randInt_eq_loop r max hmax] at h
  obtain ⟨i1, i2, i3, i4, i5, _⟩ := randIntLoop_trace _ _ _ _ _ _ _ _ h
  obtain ⟨j1, j2, j3, j4⟩ := i5 rfl
  refine ⟨i3, ?_, i2, i1, j2, j3, j4⟩
  intro i h1 h2
  by_cases hi : i + 1 < r'.reads
  · exact i4 i h1 hi
  · have : i = r'.reads - 1 := by omega
    subst this; exact j1

/-- `rand.Int` never returns the error value of the translation's own error channel: its error is a result -/
theorem randInt_ne_err (r : Rand) (max : Nat) : Go.randInt r max ≠ .err := by
  have hl : ∀ k b fuel r, Go.randIntLoop max k b fuel r ≠ .err := by
    intro k b fuel
    induction fuel with
    | zero => intro r h; cases h
    | succ fuel ih =>
      intro r
      rw [randIntLoop_succ]
      split
      · intro h; cases h
      · split
        · intro h; cases h
        · exact ih _
  unfold Go.randInt
  split
  · intro h; cases h
  · simp only []
    split
    · intro h; cases h
    · exact hl _ _ _ _

/-- a source that fails at the next read: `rand.Int` reports the error (for `1 < max`) -/
theorem randInt_fail (r : Rand) (max : Nat) (hmax : 1 < max) (hf : r.failAt = some r.reads) :
    Go.randInt r max = .ok ({ r with reads := r.reads + 1 }, 0, .other) := by
  rw [randInt_eq_loop r max hmax]
  show Go.randIntLoop _ _ _ (63 + 1) r = _
  rw [randIntLoop_succ, if_pos hf]

/-- the first draw, when it is below `max`, is the result -/
theorem randInt_first (r : Rand) (max : Nat) (hmax : 1 < max) (hnf : r.failAt ≠ some r.reads)
    (hlt : beNat (maskTop (if Go.bitLen (max - 1) % 8 = 0 then 8 else Go.bitLen (max - 1) % 8)
            (cyc r.buf r.pos ((Go.bitLen (max - 1) + 7) / 8))) < max) :
    Go.randInt r max =
      .ok ({ r with reads := r.reads + 1, pos := r.pos + (Go.bitLen (max - 1) + 7) / 8 },
           beNat (maskTop (if Go.bitLen (max - 1) % 8 = 0 then 8 else Go.bitLen (max - 1) % 8)
            (cyc r.buf r.pos ((Go.bitLen (max - 1) + 7) / 8))), .none) := by
  rw [randInt_eq_loop r max hmax]
  show Go.randIntLoop _ _ _ (63 + 1) r = _
  rw [randIntLoop_succ, if_neg hnf, if_pos hlt]

/-! ### 3.–5. `GenerateRandomNumber` -/

/-- one iteration of the loop of `GenerateRandomNumber` -/
theorem loop1_succ (G : Gen.security.Globals) (fuel : Nat) (r : Rand) (n0 : Nat) (e0 : Bool) :
    Gen.security.GenerateRandomNumber.loop1 G (fuel + 1) r n0 e0 =
      (Go.randInt r G.randomNumberMaximum >>= fun t =>
        if t.2.2 ≠ Go.Err.none then .err
        else if G.randomNumberMinimum < t.2.1 then .ok (t.1, t.2.1, false)
        else Gen.security.GenerateRandomNumber.loop1 G fuel t.1 t.2.1 false) := by
  rw [Gen.security.GenerateRandomNumber.loop1]
  rw [if_pos trivial]
  cases hri : Go.randInt r G.randomNumberMaximum with
  | err => rfl
  | fault => rfl
  | ok t =>
    obtain ⟨r1, n, e⟩ := t
    simp only [Res.bind_ok]
    by_cases he : e = Go.Err.none
    · subst he
      have hc : (Go.bigCmp n G.randomNumberMinimum = (1 : Int)) ↔ G.randomNumberMinimum < n := by
        unfold Go.bigCmp
        by_cases h1 : n < G.randomNumberMinimum
        · rw [if_pos h1]; constructor
          · intro h; cases h
          · intro h; omega
        · rw [if_neg h1]
          by_cases h2 : n = G.randomNumberMinimum
          · rw [if_pos h2]; constructor
            · intro h; cases h
            · intro h; omega
          · rw [if_neg h2]; constructor
            · intro _; omega
            · intro _; rfl
      simp only [ne_eq, not_true_eq_false, decide_false, Bool.false_eq_true, if_false, hc]
    · simp [he]

/-- everything the loop does: the number it returns is above the minimum and below the maximum, it is the last
draw, all reads succeeded -/
theorem loop1_trace (G : Gen.security.Globals) (hM : 1 < G.randomNumberMaximum) (fuel : Nat) (r r' : Rand)
    (n0 n : Nat) (e0 e : Bool)
    (h : Gen.security.GenerateRandomNumber.loop1 G fuel r n0 e0 = .ok (r', n, e)) :
    G.randomNumberMinimum < n ∧ n < G.randomNumberMaximum ∧ e = false ∧
    r.reads < r'.reads ∧ (∀ i, r.reads ≤ i → i < r'.reads → r.failAt ≠ some i) ∧ r'.failAt = r.failAt ∧
    r'.buf = r.buf ∧
    r'.pos = r.pos + (Go.bitLen (G.randomNumberMaximum - 1) + 7) / 8 * (r'.reads - r.reads) ∧
    n = beNat (maskTop (if Go.bitLen (G.randomNumberMaximum - 1) % 8 = 0 then 8
                        else Go.bitLen (G.randomNumberMaximum - 1) % 8)
          (cyc r.buf (r'.pos - (Go.bitLen (G.randomNumberMaximum - 1) + 7) / 8)
            ((Go.bitLen (G.randomNumberMaximum - 1) + 7) / 8))) := by
  induction fuel generalizing r n0 e0 with
  | zero => cases h
  | succ fuel ih =>
    rw [loop1_succ] at h
    cases hri : Go.randInt r G.randomNumberMaximum with
    | err => rw [hri] at h; cases h
    | fault => rw [hri] at h; cases h
    | ok t =>
      obtain ⟨r1, n1, e1⟩ := t
      rw [hri] at h
      simp only [Res.bind_ok] at h
      by_cases he : e1 = Go.Err.none
      · subst he
        obtain ⟨s1, s2, s3, s4, s5, s6, s7⟩ := randInt_ok_state r r1 _ n1 hM hri
        simp only [ne_eq, not_true_eq_false, if_false] at h
        by_cases hlt : G.randomNumberMinimum < n1
        · rw [if_pos hlt] at h
          simp only [Res.ok.injEq, Prod.mk.injEq] at h
          obtain ⟨h1, h2, h3⟩ := h
          subst h1 h2 h3
          exact ⟨hlt, s5, rfl, s1, s2, s3, s4, s6, s7⟩
        · rw [if_neg hlt] at h
          obtain ⟨i1, i2, i3, i4, i5, i6, i7, i8, i9⟩ := ih _ _ _ h
          refine ⟨i1, i2, i3, by omega, ?_, by rw [i6, s3], by rw [i7, s4], ?_, ?_⟩
          · intro i h1 h2
            by_cases hi : i < r1.reads
            · exact s2 i h1 hi
            · rw [← s3]; exact i5 i (by omega) h2
          · rw [i8, s6]
            have : r'.reads - r.reads = (r'.reads - r1.reads) + (r1.reads - r.reads) := by omega
            rw [this, Nat.mul_add]; omega
          · rw [i9, s4]
      · rw [if_pos he] at h; cases h

/-- the loop reports an error only if a read of the source failed -/
theorem loop1_err (G : Gen.security.Globals) (hM : 1 < G.randomNumberMaximum) (fuel : Nat) (r : Rand)
    (n0 : Nat) (e0 : Bool) (h : Gen.security.GenerateRandomNumber.loop1 G fuel r n0 e0 = .err) :
    ∃ i, r.reads ≤ i ∧ r.failAt = some i := by
  induction fuel generalizing r n0 e0 with
  | zero => cases h
  | succ fuel ih =>
    rw [loop1_succ] at h
    cases hri : Go.randInt r G.randomNumberMaximum with
    | err => exact absurd hri (randInt_ne_err _ _)
    | fault => rw [hri] at h; cases h
    | ok t =>
      obtain ⟨r1, n1, e1⟩ := t
      rw [hri] at h
      simp only [Res.bind_ok] at h
      by_cases he : e1 = Go.Err.none
      · subst he
        obtain ⟨s1, s2, s3, s4, s5, s6, s7⟩ := randInt_ok_state r r1 _ n1 hM hri
        simp only [ne_eq, not_true_eq_false, if_false] at h
        by_cases hlt : G.randomNumberMinimum < n1
        · rw [if_pos hlt] at h; cases h
        · rw [if_neg hlt] at h
          obtain ⟨i, h1, h2⟩ := ih _ _ _ h
          exact ⟨i, by omega, by rw [← s3]; exact h2⟩
      · obtain ⟨_, _, j3, j4, _⟩ := randInt_err_state r r1 _ n1 e1 hri he
        exact ⟨r1.reads - 1, by omega, j4⟩

theorem one_lt_max : 1 < secG.randomNumberMaximum := by rw [secG_max]; decide +kernel

/-- `BitLen` of the largest number `rand.Int` may return: 2048 bits, i.e. 256 whole octets, nothing masked -/
theorem bitLen_max : Go.bitLen (secG.randomNumberMaximum - 1) = 2048 := by rw [secG_max]; decide +kernel

theorem and_255 (x : UInt8) : x &&& UInt8.ofNat (2 ^ 8 - 1) = x := by
  apply UInt8.toNat_inj.mp
  rw [UInt8.toNat_and]
  show x.toNat &&& (2 ^ 8 - 1) = x.toNat
  rw [Nat.and_two_pow_sub_one_eq_mod]
  exact Nat.mod_eq_of_lt x.toNat_lt

theorem maskTop_8 (bs : Bytes) : maskTop 8 bs = bs := by
  cases bs with
  | nil => rfl
  | cons x rest => simp only [maskTop, and_255]

/-- 3. every exponent the translated code ever returns is in range, for every state of the random source -/
theorem GenerateRandomNumber_range (r r' : Rand) (n : Nat)
    (h : Gen.security.GenerateRandomNumber secG r = .ok (r', n)) : 2 ^ 128 ≤ n ∧ n < 2 ^ 2048 - 1 := by
  unfold Gen.security.GenerateRandomNumber at h
  simp only [] at h
  cases hl : Gen.security.GenerateRandomNumber.loop1 secG Go.unboundedLoopFuel r 0 false with
  | err => rw [hl] at h; cases h
  | fault => rw [hl] at h; cases h
  | ok t =>
    obtain ⟨r1, n1, e1⟩ := t
    rw [hl] at h
    simp only [Res.bind_ok, Res.ok.injEq, Prod.mk.injEq] at h
    obtain ⟨h1, h2⟩ := h
    subst h1 h2
    obtain ⟨i1, i2, _⟩ := loop1_trace secG one_lt_max _ _ _ _ _ _ _ hl
    rw [secG_min] at i1
    rw [secG_max] at i2
    exact ⟨by omega, i2⟩

/-- what a successful call did to the random source, and which octets the exponent is -/
theorem GenerateRandomNumber_ok_state (r r' : Rand) (n : Nat)
    (h : Gen.security.GenerateRandomNumber secG r = .ok (r', n)) :
    r.reads < r'.reads ∧ (∀ i, r.reads ≤ i → i < r'.reads → r.failAt ≠ some i) ∧
      r'.failAt = r.failAt ∧ r'.buf = r.buf ∧ r'.pos = r.pos + 256 * (r'.reads - r.reads) ∧
      n = beNat (cyc r.buf (r'.pos - 256) 256) := by
  unfold Gen.security.GenerateRandomNumber at h
  simp only [] at h
  cases hl : Gen.security.GenerateRandomNumber.loop1 secG Go.unboundedLoopFuel r 0 false with
  | err => rw [hl] at h; cases h
  | fault => rw [hl] at h; cases h
  | ok t =>
    obtain ⟨r1, n1, e1⟩ := t
    rw [hl] at h
    simp only [Res.bind_ok, Res.ok.injEq, Prod.mk.injEq] at h
    obtain ⟨h1, h2⟩ := h
    subst h1 h2
    obtain ⟨_, _, _, i4, i5, i6, i7, i8, i9⟩ := loop1_trace secG one_lt_max _ _ _ _ _ _ _ hl
    rw [bitLen_max] at i8 i9
    simp only [show (2048 + 7) / 8 = 256 from rfl, show 2048 % 8 = 0 from rfl, if_true, maskTop_8] at i8 i9
    exact ⟨i4, i5, i6, i7, i8, i9⟩

/-- 4. a number is returned only if no read failed -/
theorem GenerateRandomNumber_no_number_on_failure (r r' : Rand) (n : Nat)
    (h : Gen.security.GenerateRandomNumber secG r = .ok (r', n)) :
    r'.reads > r.reads ∧ ∀ i, r.reads ≤ i → i < r'.reads → r.failAt ≠ some i :=
  let s := GenerateRandomNumber_ok_state r r' n h
  ⟨s.1, s.2.1⟩

/-- 4. a source that fails at the first read: error, no number -/
theorem GenerateRandomNumber_fail (r : Rand) (h : r.failAt = some r.reads) :
    Gen.security.GenerateRandomNumber secG r = .err := by
  unfold Gen.security.GenerateRandomNumber
  simp only []
  show (Gen.security.GenerateRandomNumber.loop1 secG (63 + 1) r 0 false >>= _) = _
  rw [loop1_succ, randInt_fail r _ one_lt_max h]
  rfl

/-- an error of `GenerateRandomNumber` is a failure of the source (the only error there is) -/
theorem GenerateRandomNumber_err_source (r : Rand) (h : Gen.security.GenerateRandomNumber secG r = .err) :
    ∃ i, r.reads ≤ i ∧ r.failAt = some i := by
  unfold Gen.security.GenerateRandomNumber at h
  simp only [] at h
  cases hl : Gen.security.GenerateRandomNumber.loop1 secG Go.unboundedLoopFuel r 0 false with
  | err => exact loop1_err secG one_lt_max _ _ _ _ hl
  | fault => rw [hl] at h; cases h
  | ok t => rw [hl] at h; cases h

/-- 5. the exponent IS the first 256 octets the source delivers, when they are in range -/
theorem GenerateRandomNumber_first_draw (r : Rand) (hnf : r.failAt ≠ some r.reads) (d : Nat)
    (hd : d = beNat (cyc r.buf r.pos 256)) (hlo : 2 ^ 128 ≤ d) (hhi : d < 2 ^ 2048 - 1) :
    Gen.security.GenerateRandomNumber secG r = .ok ({ r with reads := r.reads + 1, pos := r.pos + 256 }, d) := by
  unfold Gen.security.GenerateRandomNumber
  simp only []
  show (Gen.security.GenerateRandomNumber.loop1 secG (63 + 1) r 0 false >>= _) = _
  have hfirst := randInt_first r secG.randomNumberMaximum one_lt_max hnf
  rw [bitLen_max] at hfirst
  simp only [show (2048 + 7) / 8 = 256 from rfl, show 2048 % 8 = 0 from rfl, if_true, maskTop_8, ← hd] at hfirst
  have hhi' : d < secG.randomNumberMaximum := by rw [secG_max]; exact hhi
  have hlo' : secG.randomNumberMinimum < d := by rw [secG_min]; omega
  rw [loop1_succ, hfirst hhi']
  simp only [Res.bind_ok, ne_eq, not_true_eq_false, if_false, if_pos hlo']

/-! ### the `j`-th draw (`j < 64`): the complete behaviour of `GenerateRandomNumber` on the first 64 reads -/

/-- the `i`-th block of 256 octets the source delivers from state `r` on, as a number -/
def drawAt (r : Rand) (i : Nat) : Nat := beNat (cyc r.buf (r.pos + 256 * i) 256)

/-- the source after `j` successful reads of 256 octets -/
def advance (r : Rand) (j : Nat) : Rand := { r with reads := r.reads + j, pos := r.pos + 256 * j }

/-- what the loop body does with the result of `rand.Int` -/
def afterInt (G : Gen.security.Globals) (fo : Nat) (t : Rand × Nat × Go.Err) : Res (Rand × Nat × Bool) :=
  if t.2.2 ≠ Go.Err.none then .err
  else if G.randomNumberMinimum < t.2.1 then .ok (t.1, t.2.1, false)
  else Gen.security.GenerateRandomNumber.loop1 G fo t.1 t.2.1 false

/-- the two nested sampling loops with their two fuels -/
def stepLoops (fi fo : Nat) (r : Rand) : Res (Rand × Nat × Bool) :=
  Go.randIntLoop secG.randomNumberMaximum 256 8 fi r >>= afterInt secG fo

theorem loop1_secG_succ (fo : Nat) (r : Rand) (n0 : Nat) (e0 : Bool) :
    Gen.security.GenerateRandomNumber.loop1 secG (fo + 1) r n0 e0 = stepLoops 64 fo r := by
  rw [loop1_succ, randInt_eq_loop r _ one_lt_max, bitLen_max]
  rfl

theorem advance_zero (r : Rand) : advance r 0 = r := by
  cases r; simp [advance]

theorem advance_succ (r : Rand) (j : Nat) :
    advance { r with reads := r.reads + 1, pos := r.pos + 256 } j = advance r (j + 1) := by
  simp only [advance]
  congr 1 <;> omega

theorem drawAt_succ (r : Rand) (i : Nat) :
    drawAt { r with reads := r.reads + 1, pos := r.pos + 256 } i = drawAt r (i + 1) := by
  simp only [drawAt]
  congr 2; omega

theorem drawAt_zero (r : Rand) : beNat (maskTop 8 (cyc r.buf r.pos 256)) = drawAt r 0 := by
  rw [maskTop_8]; rfl

/-- `j` successful reads whose numbers are all rejected (too large: by `rand.Int`; too small: by the loop of
`GenerateRandomNumber`) are skipped, as long as neither fuel runs out, which needs 64 draws -/
theorem stepLoops_skip (R : Res (Rand × Nat × Bool)) (j : Nat) : ∀ (fi fo : Nat) (r : Rand),
    j < fi → j ≤ fo → j < 64 →
    (∀ i, i < j → r.failAt ≠ some (r.reads + i)) →
    (∀ i, i < j → ¬ (secG.randomNumberMinimum < drawAt r i ∧ drawAt r i < secG.randomNumberMaximum)) →
    (∀ fi' fo', 0 < fi' → stepLoops fi' fo' (advance r j) = R) →
    stepLoops fi fo r = R := by
  induction j with
  | zero =>
    intro fi fo r h1 _ _ _ _ hfin
    have := hfin fi fo h1
    rwa [advance_zero] at this
  | succ j ih =>
    intro fi fo r h1 h2 h3 hnf hrej hfin
    obtain ⟨fi0, rfl⟩ : ∃ fi0, fi = fi0 + 1 := ⟨fi - 1, by omega⟩
    have hnf0 : r.failAt ≠ some r.reads := by simpa using hnf 0 (by omega)
    have hrej0 := hrej 0 (by omega)
    have hnf' : ∀ i, i < j →
        ({ r with reads := r.reads + 1, pos := r.pos + 256 } : Rand).failAt ≠
          some (({ r with reads := r.reads + 1, pos := r.pos + 256 } : Rand).reads + i) := by
      intro i hi
      have := hnf (i + 1) (by omega)
      simp only
      rwa [show r.reads + 1 + i = r.reads + (i + 1) by omega]
    have hrej' : ∀ i, i < j →
        ¬ (secG.randomNumberMinimum < drawAt { r with reads := r.reads + 1, pos := r.pos + 256 } i ∧
            drawAt { r with reads := r.reads + 1, pos := r.pos + 256 } i < secG.randomNumberMaximum) := by
      intro i hi
      rw [drawAt_succ]
      exact hrej (i + 1) (by omega)
    have hfin' : ∀ fi' fo', 0 < fi' →
        stepLoops fi' fo' (advance { r with reads := r.reads + 1, pos := r.pos + 256 } j) = R := by
      intro fi' fo' h
      rw [advance_succ]
      exact hfin fi' fo' h
    unfold stepLoops
    rw [randIntLoop_succ, if_neg hnf0, drawAt_zero]
    by_cases hlt : drawAt r 0 < secG.randomNumberMaximum
    · rw [if_pos hlt]
      have hmin : ¬ secG.randomNumberMinimum < drawAt r 0 := fun h => hrej0 ⟨h, hlt⟩
      obtain ⟨fo0, rfl⟩ : ∃ fo0, fo = fo0 + 1 := ⟨fo - 1, by omega⟩
      simp only [Res.bind_ok, afterInt, ne_eq, not_true_eq_false, if_false, if_neg hmin]
      rw [loop1_secG_succ]
      exact ih 64 fo0 _ (by omega) (by omega) (by omega) hnf' hrej' hfin'
    · rw [if_neg hlt]
      exact ih fi0 fo _ (by omega) (by omega) (by omega) hnf' hrej' hfin'

theorem GenerateRandomNumber_eq_stepLoops (r : Rand) :
    Gen.security.GenerateRandomNumber secG r = (stepLoops 64 63 r >>= fun s => .ok (s.1, s.2.1)) := by
  unfold Gen.security.GenerateRandomNumber
  simp only []
  show (Gen.security.GenerateRandomNumber.loop1 secG (63 + 1) r 0 false >>= _) = _
  rw [loop1_secG_succ]

/-- the first draw in range among the first 64 is the exponent (all earlier ones being rejected), provided the
reads up to it succeed: for `j = 0` this is `GenerateRandomNumber_first_draw` -/
theorem GenerateRandomNumber_nth_draw (r : Rand) (j : Nat) (hj : j < 64)
    (hnf : ∀ i, i ≤ j → r.failAt ≠ some (r.reads + i))
    (hrej : ∀ i, i < j → ¬ (2 ^ 128 ≤ drawAt r i ∧ drawAt r i < 2 ^ 2048 - 1))
    (hacc : 2 ^ 128 ≤ drawAt r j ∧ drawAt r j < 2 ^ 2048 - 1) :
    Gen.security.GenerateRandomNumber secG r =
      .ok ({ r with reads := r.reads + (j + 1), pos := r.pos + 256 * (j + 1) }, drawAt r j) := by
  rw [GenerateRandomNumber_eq_stepLoops]
  have hstep : stepLoops 64 63 r =
      .ok ({ r with reads := r.reads + (j + 1), pos := r.pos + 256 * (j + 1) }, drawAt r j, false) := by
    apply stepLoops_skip _ j 64 63 r hj (by omega) hj (fun i hi => hnf i (by omega))
    · intro i hi
      rw [secG_min, secG_max]
      intro h
      exact hrej i hi ⟨by omega, h.2⟩
    · intro fi' fo' hfi
      obtain ⟨fi0, rfl⟩ : ∃ fi0, fi' = fi0 + 1 := ⟨fi' - 1, by omega⟩
      have hnfj : (advance r j).failAt ≠ some (advance r j).reads := hnf j (Nat.le_refl _)
      have hd : drawAt (advance r j) 0 = drawAt r j := by simp [drawAt, advance]
      have hlt : drawAt r j < secG.randomNumberMaximum := by rw [secG_max]; exact hacc.2
      have hmin : secG.randomNumberMinimum < drawAt r j := by rw [secG_min]; have := hacc.1; omega
      unfold stepLoops
      rw [randIntLoop_succ, if_neg hnfj, drawAt_zero, hd, if_pos hlt]
      simp only [Res.bind_ok, afterInt, ne_eq, not_true_eq_false, if_false, if_pos hmin, advance]
      congr 3 <;> omega
  rw [hstep]
  rfl

/-- the source fails at its `j`-th read from now (`j < 64`), all earlier draws being rejected: an error, whatever
the octets -/
theorem GenerateRandomNumber_fail_at (r : Rand) (j : Nat) (hj : j < 64)
    (hf : r.failAt = some (r.reads + j))
    (hrej : ∀ i, i < j → ¬ (2 ^ 128 ≤ drawAt r i ∧ drawAt r i < 2 ^ 2048 - 1)) :
    Gen.security.GenerateRandomNumber secG r = .err := by
  rw [GenerateRandomNumber_eq_stepLoops]
  have hstep : stepLoops 64 63 r = .err := by
    apply stepLoops_skip _ j 64 63 r hj (by omega) hj
    · intro i hi h
      rw [hf] at h
      simp only [Option.some.injEq] at h
      omega
    · intro i hi
      rw [secG_min, secG_max]
      intro h
      exact hrej i hi ⟨by omega, h.2⟩
    · intro fi' fo' hfi
      obtain ⟨fi0, rfl⟩ : ∃ fi0, fi' = fi0 + 1 := ⟨fi' - 1, by omega⟩
      have hfj : (advance r j).failAt = some (advance r j).reads := hf
      unfold stepLoops
      rw [randIntLoop_succ, if_pos hfj]
      rfl
  rw [hstep]
  rfl

/-- the translation's bound of 64 iterations (`Go.unboundedLoopFuel`) is reached only if the first 64 reads all
succeed and all 64 numbers are out of range -/
theorem GenerateRandomNumber_fault (r : Rand) (h : Gen.security.GenerateRandomNumber secG r = .fault) :
    ∀ j, j < 64 → r.failAt ≠ some (r.reads + j) ∧ ¬ (2 ^ 128 ≤ drawAt r j ∧ drawAt r j < 2 ^ 2048 - 1) := by
  intro j
  induction j using Nat.strongRecOn with
  | _ j ih =>
    intro hj
    have hprev : ∀ i, i < j →
        r.failAt ≠ some (r.reads + i) ∧ ¬ (2 ^ 128 ≤ drawAt r i ∧ drawAt r i < 2 ^ 2048 - 1) :=
      fun i hi => ih i hi (by omega)
    have h1 : r.failAt ≠ some (r.reads + j) := by
      intro hf
      rw [GenerateRandomNumber_fail_at r j hj hf (fun i hi => (hprev i hi).2)] at h
      cases h
    refine ⟨h1, ?_⟩
    intro hacc
    have hnf : ∀ i, i ≤ j → r.failAt ≠ some (r.reads + i) := by
      intro i hi
      by_cases hij : i < j
      · exact (hprev i hij).1
      · have : i = j := by omega
        subst this; exact h1
    rw [GenerateRandomNumber_nth_draw r j hj hnf (fun i hi => (hprev i hi).2) hacc] at h
    cases h

/-! ### 6. `CalculateDiffieHellmanMaterials` -/

theorem CalculateDiffieHellmanMaterials_eq (r : Rand) (k : Gen.security.IKESAKey) (peer : Bytes) :
    Gen.security.CalculateDiffieHellmanMaterials secG r k peer =
      (Gen.security.GenerateRandomNumber secG r >>= fun x =>
        Gen.dh.DHType.GetPublicValue k.DhInfo x.2 >>= fun pub =>
        Gen.dh.DHType.GetSharedKey k.DhInfo x.2 (beNat peer) >>= fun sh => .ok (x.1, pub, sh)) := rfl

/-- the same for any globals -/
theorem CalculateDiffieHellmanMaterials_eq' (G : Gen.security.Globals) (r : Rand) (k : Gen.security.IKESAKey)
    (peer : Bytes) :
    Gen.security.CalculateDiffieHellmanMaterials G r k peer =
      (Gen.security.GenerateRandomNumber G r >>= fun x =>
        Gen.dh.DHType.GetPublicValue k.DhInfo x.2 >>= fun pub =>
        Gen.dh.DHType.GetSharedKey k.DhInfo x.2 (beNat peer) >>= fun sh => .ok (x.1, pub, sh)) := rfl

/-- with a group object that makes sense (`DhWF`: what `init` registers): the model's `dhPub` / `dhShared` -/
theorem CalculateDiffieHellmanMaterials_refines (r : Rand) (k : Gen.security.IKESAKey)
    (hk : RefineReg.DhWF k.DhInfo) (peer : Bytes) :
    Gen.security.CalculateDiffieHellmanMaterials secG r k peer =
      (Gen.security.GenerateRandomNumber secG r >>= fun x =>
        dhPub (RefineReg.absGroup k.DhInfo) x.2 >>= fun pub =>
        dhShared (RefineReg.absGroup k.DhInfo) x.2 (beNat peer) >>= fun sh => .ok (x.1, pub, sh)) := by
  rw [CalculateDiffieHellmanMaterials_eq]
  simp only [RefineReg.DHType_GetPublicValue_refines _ hk, RefineReg.DHType_GetSharedKey_refines _ hk]

/-- a nil group: no error from the random source first ⇒ the method call on nil panics -/
theorem CalculateDiffieHellmanMaterials_nil (r : Rand) (k : Gen.security.IKESAKey) (hk : k.DhInfo = .nil_)
    (peer : Bytes) :
    Gen.security.CalculateDiffieHellmanMaterials secG r k peer =
      (Gen.security.GenerateRandomNumber secG r >>= fun _ => .fault) := by
  rw [CalculateDiffieHellmanMaterials_eq, hk]
  rfl

/-- a group whose modulus is positive and fits its octet length: the padded values are the fixed-width ones,
never a fault -/
theorem dhPub_fixed (g : DhGroup) (hp : 0 < g.prime) (hl : g.prime ≤ 256 ^ g.len) (x : Nat) :
    dhPub g x = .ok (dhPubFixed g x) := by
  unfold dhPub dhPubFixed
  apply leftPad_natBytesMin
  rw [modPow_eq]
  exact Nat.lt_of_lt_of_le (Nat.mod_lt _ hp) hl

theorem dhShared_fixed (g : DhGroup) (hp : 0 < g.prime) (hl : g.prime ≤ 256 ^ g.len) (x peer : Nat) :
    dhShared g x peer = .ok (dhSharedFixed g x peer) := by
  unfold dhShared dhSharedFixed
  apply leftPad_natBytesMin
  rw [modPow_eq]
  exact Nat.lt_of_lt_of_le (Nat.mod_lt _ hp) hl

theorem dhGroup2_pos : 0 < dhGroup2.prime := by decide +kernel
theorem dhGroup2_fits : dhGroup2.prime ≤ 256 ^ dhGroup2.len := by decide +kernel
theorem dhGroup14_pos : 0 < dhGroup14.prime := by decide +kernel
theorem dhGroup14_fits : dhGroup14.prime ≤ 256 ^ dhGroup14.len := by decide +kernel

/-- the group of the object is one of the two `init` of package `dh` registers -/
def DhRegistered (d : Gen.dh.DHType) : Prop :=
  d = .Dh1024BitModp RefineReg.desc1024 ∨ d = .DH2048BitModp RefineReg.desc2048

theorem DhRegistered.wf {d : Gen.dh.DHType} (h : DhRegistered d) : RefineReg.DhWF d := by
  rcases h with h | h <;> subst h
  · exact RefineReg.desc1024_wf
  · exact RefineReg.desc2048_wf

theorem DhRegistered.ne_nil {d : Gen.dh.DHType} (h : DhRegistered d) : d ≠ .nil_ := by
  rcases h with h | h <;> subst h <;> intro e <;> cases e

/-- the model's group of a registered descriptor: RFC group 2 or 14 -/
theorem DhRegistered.group {d : Gen.dh.DHType} (h : DhRegistered d) :
    RefineReg.absGroup d = dhGroup2 ∨ RefineReg.absGroup d = dhGroup14 := by
  rcases h with h | h <;> subst h
  · exact Or.inl rfl
  · exact Or.inr rfl

theorem DhRegistered.pos {d : Gen.dh.DHType} (h : DhRegistered d) : 0 < (RefineReg.absGroup d).prime := by
  rcases h.group with e | e <;> rw [e]
  · exact dhGroup2_pos
  · exact dhGroup14_pos

theorem DhRegistered.fits {d : Gen.dh.DHType} (h : DhRegistered d) :
    (RefineReg.absGroup d).prime ≤ 256 ^ (RefineReg.absGroup d).len := by
  rcases h.group with e | e <;> rw [e]
  · exact dhGroup2_fits
  · exact dhGroup14_fits

/-- for the two registered groups: closed form, no fault from the group arithmetic -/
theorem CalculateDiffieHellmanMaterials_registered (r : Rand) (k : Gen.security.IKESAKey)
    (hk : DhRegistered k.DhInfo) (peer : Bytes) :
    Gen.security.CalculateDiffieHellmanMaterials secG r k peer =
      (Gen.security.GenerateRandomNumber secG r >>= fun x =>
        .ok (x.1, dhPubFixed (RefineReg.absGroup k.DhInfo) x.2,
              dhSharedFixed (RefineReg.absGroup k.DhInfo) x.2 (beNat peer))) := by
  rw [CalculateDiffieHellmanMaterials_refines r k hk.wf]
  simp only [dhPub_fixed _ hk.pos hk.fits, dhShared_fixed _ hk.pos hk.fits, Res.bind_ok]

/-- on success: the exponent was drawn by `GenerateRandomNumber`, is in range, and the two values are
`dhPub` / `dhShared` of the group for that exponent -/
theorem CalculateDiffieHellmanMaterials_ok (r r' : Rand) (k : Gen.security.IKESAKey)
    (hk : RefineReg.DhWF k.DhInfo) (peer pub sh : Bytes)
    (h : Gen.security.CalculateDiffieHellmanMaterials secG r k peer = .ok (r', pub, sh)) :
    ∃ x : Nat, Gen.security.GenerateRandomNumber secG r = .ok (r', x) ∧ 2 ^ 128 ≤ x ∧ x < 2 ^ 2048 - 1 ∧
      dhPub (RefineReg.absGroup k.DhInfo) x = .ok pub ∧
      dhShared (RefineReg.absGroup k.DhInfo) x (beNat peer) = .ok sh := by
  rw [CalculateDiffieHellmanMaterials_refines r k hk] at h
  cases hg : Gen.security.GenerateRandomNumber secG r with
  | err => rw [hg] at h; cases h
  | fault => rw [hg] at h; cases h
  | ok t =>
    obtain ⟨r1, x⟩ := t
    rw [hg] at h
    simp only [Res.bind_ok] at h
    cases hp : dhPub (RefineReg.absGroup k.DhInfo) x with
    | err => rw [hp] at h; cases h
    | fault => rw [hp] at h; cases h
    | ok p =>
      rw [hp] at h
      simp only [Res.bind_ok] at h
      cases hs : dhShared (RefineReg.absGroup k.DhInfo) x (beNat peer) with
      | err => rw [hs] at h; cases h
      | fault => rw [hs] at h; cases h
      | ok s =>
        rw [hs] at h
        simp only [Res.bind_ok, Res.ok.injEq, Prod.mk.injEq] at h
        obtain ⟨h1, h2, h3⟩ := h
        subst h1 h2 h3
        obtain ⟨q1, q2⟩ := GenerateRandomNumber_range r r1 x hg
        exact ⟨x, rfl, q1, q2, hp, hs⟩

/-- for the two registered groups -/
theorem CalculateDiffieHellmanMaterials_ok_1024 (r r' : Rand) (k : Gen.security.IKESAKey)
    (hk : k.DhInfo = .Dh1024BitModp RefineReg.desc1024) (peer pub sh : Bytes)
    (h : Gen.security.CalculateDiffieHellmanMaterials secG r k peer = .ok (r', pub, sh)) :
    ∃ x : Nat, Gen.security.GenerateRandomNumber secG r = .ok (r', x) ∧ 2 ^ 128 ≤ x ∧ x < 2 ^ 2048 - 1 ∧
      dhPub dhGroup2 x = .ok pub ∧ dhShared dhGroup2 x (beNat peer) = .ok sh := by
  have hw : RefineReg.DhWF k.DhInfo := by rw [hk]; exact RefineReg.desc1024_wf
  have := CalculateDiffieHellmanMaterials_ok r r' k hw peer pub sh h
  rw [hk] at this
  exact this

theorem CalculateDiffieHellmanMaterials_ok_2048 (r r' : Rand) (k : Gen.security.IKESAKey)
    (hk : k.DhInfo = .DH2048BitModp RefineReg.desc2048) (peer pub sh : Bytes)
    (h : Gen.security.CalculateDiffieHellmanMaterials secG r k peer = .ok (r', pub, sh)) :
    ∃ x : Nat, Gen.security.GenerateRandomNumber secG r = .ok (r', x) ∧ 2 ^ 128 ≤ x ∧ x < 2 ^ 2048 - 1 ∧
      dhPub dhGroup14 x = .ok pub ∧ dhShared dhGroup14 x (beNat peer) = .ok sh := by
  have hw : RefineReg.DhWF k.DhInfo := by rw [hk]; exact RefineReg.desc2048_wf
  have := CalculateDiffieHellmanMaterials_ok r r' k hw peer pub sh h
  rw [hk] at this
  exact this

/-- a failing source: error before any group arithmetic -/
theorem CalculateDiffieHellmanMaterials_fail (r : Rand) (hf : r.failAt = some r.reads)
    (k : Gen.security.IKESAKey) (peer : Bytes) :
    Gen.security.CalculateDiffieHellmanMaterials secG r k peer = .err := by
  rw [CalculateDiffieHellmanMaterials_eq, GenerateRandomNumber_fail r hf]
  rfl

/-! ### 7. `NewIKESAKey` -/

/-- (a) the refusals before anything is computed: a nil proposal, or one of the four transform lists empty -/
theorem NewIKESAKey_refuses (P : Prims) (G : Gen.security.Globals) (Gdh : Gen.dh.Globals) (Gencr : Gen.encr.Globals)
    (Ginteg : Gen.integ.Globals) (Gprf : Gen.prf.Globals) (r : Rand) (po : Option Proposal)
    (ke nonce : Bytes) (si sr : UInt64)
    (h : po = none ∨ ∃ p, po = some p ∧ (p.dh = [] ∨ p.encr = [] ∨ p.integ = [] ∨ p.prf = [])) :
    Gen.security.NewIKESAKey P G Gdh Gencr Ginteg Gprf r po ke nonce si sr = .err := by
  unfold Gen.security.NewIKESAKey
  rcases h with h | ⟨p, hp, h⟩
  · subst h; rfl
  · subst hp
    simp only [Option.isNone_some, Option.getD_some, Bool.false_eq_true, if_false]
    rcases h with h | h | h | h
    · rw [h]; rfl
    · rw [h]; simp only [List.length_nil, if_true]; split <;> rfl
    · rw [h]; simp only [List.length_nil, if_true]; split
      · rfl
      · split <;> rfl
    · rw [h]; simp only [List.length_nil, if_true]; split
      · rfl
      · split
        · rfl
        · split <;> rfl

theorem indexN_head {α : Type} [Inhabited α] (l : List α) (x : α) (h : l.head? = some x) :
    Go.indexN l 0 = .ok x ∧ l.length ≠ 0 := by
  cases l with
  | nil => cases h
  | cons y ys =>
    simp only [List.head?_cons, Option.some.injEq] at h
    subst h
    simp [Go.indexN]

/-- (b) closed form, for any globals: the FIRST transform of each list is decoded, in the order DH, encryption,
integrity, PRF; a nil DH, encryption or PRF descriptor is refused on the spot; the test after decoding the
integrity transform re-tests the ENCRYPTION descriptor (security.go:164, a slip of the source), so it never
fires and a nil integrity descriptor goes on -/
theorem NewIKESAKey_eq (P : Prims) (G : Gen.security.Globals) (Gdh : Gen.dh.Globals) (Gencr : Gen.encr.Globals)
    (Ginteg : Gen.integ.Globals) (Gprf : Gen.prf.Globals) (r : Rand) (p : Proposal)
    (td te ti tp : Transform) (hd : p.dh.head? = some td) (he : p.encr.head? = some te)
    (hi : p.integ.head? = some ti) (hp : p.prf.head? = some tp)
    (ke nonce : Bytes) (si sr : UInt64) :
    Gen.security.NewIKESAKey P G Gdh Gencr Ginteg Gprf r (some p) ke nonce si sr =
      (Gen.dh.DecodeTransform Gdh td >>= fun d =>
        if d = .nil_ then .err else
        Gen.encr.DecodeTransform Gencr te >>= fun e =>
        if e = .nil_ then .err else
        Gen.integ.DecodeTransform Ginteg ti >>= fun i =>
        Gen.prf.DecodeTransform Gprf tp >>= fun f =>
        if f = .nil_ then .err else
        Gen.security.CalculateDiffieHellmanMaterials G r
            { DhInfo := d, EncrInfo := e, IntegInfo := i, PrfInfo := f } ke >>= fun m =>
        Gen.security.IKESAKey.GenerateKeyForIKESA P
            (some { DhInfo := d, EncrInfo := e, IntegInfo := i, PrfInfo := f }) nonce m.2.2 si sr >>= fun k' =>
        .ok (m.1, k', m.2.1)) := by
  obtain ⟨d1, d2⟩ := indexN_head _ _ hd
  obtain ⟨e1, e2⟩ := indexN_head _ _ he
  obtain ⟨i1, i2⟩ := indexN_head _ _ hi
  obtain ⟨p1, p2⟩ := indexN_head _ _ hp
  unfold Gen.security.NewIKESAKey
  simp only [Option.isNone_some, Option.getD_some, Bool.false_eq_true, if_false, d1, d2, e1, e2, i1, i2, p1, p2,
    Res.bind_ok]
  cases Gen.dh.DecodeTransform Gdh td with
  | err => rfl
  | fault => rfl
  | ok d =>
    simp only [Res.bind_ok]
    by_cases hdn : d = .nil_
    · rw [if_pos hdn, if_pos hdn]
    rw [if_neg hdn, if_neg hdn]
    cases Gen.encr.DecodeTransform Gencr te with
    | err => rfl
    | fault => rfl
    | ok e =>
      simp only [Res.bind_ok]
      by_cases hen : e = .nil_
      · rw [if_pos hen, if_pos hen]
      rw [if_neg hen, if_neg hen]
      cases Gen.integ.DecodeTransform Ginteg ti with
      | err => rfl
      | fault => rfl
      | ok i =>
        simp only [Res.bind_ok, if_neg hen]

/-! the four decoders on the initialised registries, as total functions -/

def decDh (t : Transform) : Gen.dh.DHType :=
  if t.tid = 2 then .Dh1024BitModp RefineReg.desc1024
  else if t.tid = 14 then .DH2048BitModp RefineReg.desc2048 else .nil_

def decEncr (t : Transform) : Gen.encr.ENCRType :=
  if t.tid = 12 then if t.atype = 14 then
    (if t.aval = 128 then .EncrAesCbc ⟨16⟩ else if t.aval = 192 then .EncrAesCbc ⟨24⟩
     else if t.aval = 256 then .EncrAesCbc ⟨32⟩ else .nil_) else .nil_ else .nil_

def decInteg (t : Transform) : Gen.integ.INTEGType :=
  if t.tid = 1 then .AuthHmacMd5_95 ⟨16, 12⟩ else if t.tid = 2 then .AuthHmacSha1_96 ⟨20, 12⟩
  else if t.tid = 12 then .AuthHmacSha2_256_128 ⟨32, 16⟩ else .nil_

def decPrf (t : Transform) : Gen.prf.PRFType :=
  if t.tid = 1 then .PrfHmacMd5 ⟨16, 16⟩ else if t.tid = 2 then .PrfHmacSha1 ⟨20, 20⟩
  else if t.tid = 5 then .PrfHmacSha2_256 ⟨32, 32⟩ else .nil_

theorem dh_DecodeTransform_eval (t : Transform) : Gen.dh.DecodeTransform RefineReg.dhG t = .ok (decDh t) := by
  rw [RefineReg.dhG_eq]
  unfold Gen.dh.DecodeTransform RefineReg.dhGExplicit decDh
  simp only [Go.mapGet, Go.mapGetList]
  by_cases h2 : t.tid = 2
  · simp [h2, Gen.dh.toString_DH_1024_BIT_MODP, RefineReg.name1024, RefineReg.name2048]
  · have h2' : ¬ (2 : UInt16) = t.tid := fun h => h2 h.symm
    by_cases h14 : t.tid = 14
    · simp [h14, Gen.dh.toString_DH_2048_BIT_MODP, RefineReg.name1024, RefineReg.name2048]
    · have h14' : ¬ (14 : UInt16) = t.tid := fun h => h14 h.symm
      simp [h2, h14, h2', h14']

theorem encr_DecodeTransform_eval' (t : Transform) :
    Gen.encr.DecodeTransform RefineReg.encrG t = .ok (decEncr t) := RefineReg.encr_DecodeTransform_eval t
theorem integ_DecodeTransform_eval' (t : Transform) :
    Gen.integ.DecodeTransform RefineReg.integG t = .ok (decInteg t) := RefineReg.integ_DecodeTransform_eval t
theorem prf_DecodeTransform_eval' (t : Transform) :
    Gen.prf.DecodeTransform RefineReg.prfG t = .ok (decPrf t) := RefineReg.prf_DecodeTransform_eval t

/-- whatever the decoders return that is not nil is a registered descriptor -/
theorem decDh_registered (t : Transform) (h : decDh t ≠ .nil_) : DhRegistered (decDh t) := by
  unfold decDh at h ⊢
  unfold DhRegistered
  by_cases h2 : t.tid = 2
  · simp [h2]
  · by_cases h14 : t.tid = 14
    · simp [h2, h14]
    · simp [h2, h14] at h

theorem decEncr_registered (t : Transform) (h : decEncr t ≠ .nil_) :
    decEncr t = .EncrAesCbc ⟨16⟩ ∨ decEncr t = .EncrAesCbc ⟨24⟩ ∨ decEncr t = .EncrAesCbc ⟨32⟩ := by
  unfold decEncr at h ⊢
  by_cases h12 : t.tid = 12 <;> by_cases h14 : t.atype = 14 <;> by_cases a1 : t.aval = 128 <;>
    by_cases a2 : t.aval = 192 <;> by_cases a3 : t.aval = 256 <;> simp_all

theorem decInteg_registered (t : Transform) (h : decInteg t ≠ .nil_) :
    decInteg t = .AuthHmacMd5_95 ⟨16, 12⟩ ∨ decInteg t = .AuthHmacSha1_96 ⟨20, 12⟩ ∨
      decInteg t = .AuthHmacSha2_256_128 ⟨32, 16⟩ := by
  unfold decInteg at h ⊢
  by_cases h1 : t.tid = 1 <;> by_cases h2 : t.tid = 2 <;> by_cases h3 : t.tid = 12 <;> simp_all

theorem decPrf_registered (t : Transform) (h : decPrf t ≠ .nil_) :
    decPrf t = .PrfHmacMd5 ⟨16, 16⟩ ∨ decPrf t = .PrfHmacSha1 ⟨20, 20⟩ ∨ decPrf t = .PrfHmacSha2_256 ⟨32, 32⟩ := by
  unfold decPrf at h ⊢
  by_cases h1 : t.tid = 1 <;> by_cases h2 : t.tid = 2 <;> by_cases h3 : t.tid = 5 <;> simp_all

/-- the object `NewIKESAKey` hands to `GenerateKeyForIKESA`: the four decoded descriptors, nothing else -/
def saOfTransforms (td te ti tp : Transform) : Gen.security.IKESAKey :=
  { DhInfo := decDh td, EncrInfo := decEncr te, IntegInfo := decInteg ti, PrfInfo := decPrf tp }

/-- (b) on the initialised registries -/
theorem NewIKESAKey_init_eq (P : Prims) (r : Rand) (p : Proposal)
    (td te ti tp : Transform) (hd : p.dh.head? = some td) (he : p.encr.head? = some te)
    (hi : p.integ.head? = some ti) (hp : p.prf.head? = some tp)
    (ke nonce : Bytes) (si sr : UInt64) :
    Gen.security.NewIKESAKey P secG RefineReg.dhG RefineReg.encrG RefineReg.integG RefineReg.prfG r (some p)
        ke nonce si sr =
      (if decDh td = .nil_ then .err else
       if decEncr te = .nil_ then .err else
       if decPrf tp = .nil_ then .err else
        Gen.security.CalculateDiffieHellmanMaterials secG r (saOfTransforms td te ti tp) ke >>= fun m =>
        Gen.security.IKESAKey.GenerateKeyForIKESA P (some (saOfTransforms td te ti tp)) nonce m.2.2 si sr
          >>= fun k' => .ok (m.1, k', m.2.1)) := by
  rw [NewIKESAKey_eq P _ _ _ _ _ r p td te ti tp hd he hi hp, dh_DecodeTransform_eval,
    encr_DecodeTransform_eval', integ_DecodeTransform_eval', prf_DecodeTransform_eval']
  simp only [Res.bind_ok, saOfTransforms]

/-- an unsupported DH group, encryption or PRF transform (first of its list): refused, the random source untouched -/
theorem NewIKESAKey_unsupported (P : Prims) (r : Rand) (p : Proposal)
    (td te ti tp : Transform) (hd : p.dh.head? = some td) (he : p.encr.head? = some te)
    (hi : p.integ.head? = some ti) (hp : p.prf.head? = some tp)
    (h : decDh td = .nil_ ∨ decEncr te = .nil_ ∨ decPrf tp = .nil_)
    (ke nonce : Bytes) (si sr : UInt64) :
    Gen.security.NewIKESAKey P secG RefineReg.dhG RefineReg.encrG RefineReg.integG RefineReg.prfG r (some p)
        ke nonce si sr = .err := by
  rw [NewIKESAKey_init_eq P r p td te ti tp hd he hi hp]
  rcases h with h | h | h <;> simp only [h, if_true] <;> (repeat' split) <;> rfl

/-- an unsupported INTEGRITY transform with everything else supported is not refused by `NewIKESAKey`'s own test
(which looks at `EncrInfo` again): the private exponent is drawn and the two modular powers are computed first;
only then `GenerateKeyForIKESA` refuses the nil `IntegInfo`.  The result is an error all the same -/
theorem NewIKESAKey_unsupported_integ (P : Prims) (r : Rand) (p : Proposal)
    (td te ti tp : Transform) (hd : p.dh.head? = some td) (he : p.encr.head? = some te)
    (hi : p.integ.head? = some ti) (hp : p.prf.head? = some tp)
    (hdn : decDh td ≠ .nil_) (hen : decEncr te ≠ .nil_) (hpn : decPrf tp ≠ .nil_) (hin : decInteg ti = .nil_)
    (ke nonce : Bytes) (si sr : UInt64) :
    Gen.security.NewIKESAKey P secG RefineReg.dhG RefineReg.encrG RefineReg.integG RefineReg.prfG r (some p)
        ke nonce si sr =
      (Gen.security.GenerateRandomNumber secG r >>= fun _ => .err) := by
  rw [NewIKESAKey_init_eq P r p td te ti tp hd he hi hp, if_neg hdn, if_neg hen, if_neg hpn]
  have hreg : DhRegistered (saOfTransforms td te ti tp).DhInfo := decDh_registered td hdn
  rw [CalculateDiffieHellmanMaterials_registered r _ hreg]
  cases Gen.security.GenerateRandomNumber secG r with
  | err => rfl
  | fault => rfl
  | ok x =>
    simp only [Res.bind_ok]
    rw [GenerateKeyForIKESA_missing P _ (Or.inr (Or.inl hin))]
    rfl

/-- … hence never a key, and a fault only when the sampling loop gives up -/
theorem NewIKESAKey_unsupported_integ_not_ok (P : Prims) (r : Rand) (p : Proposal)
    (td te ti tp : Transform) (hd : p.dh.head? = some td) (he : p.encr.head? = some te)
    (hi : p.integ.head? = some ti) (hp : p.prf.head? = some tp)
    (hdn : decDh td ≠ .nil_) (hen : decEncr te ≠ .nil_) (hpn : decPrf tp ≠ .nil_) (hin : decInteg ti = .nil_)
    (ke nonce : Bytes) (si sr : UInt64) :
    (Gen.security.NewIKESAKey P secG RefineReg.dhG RefineReg.encrG RefineReg.integG RefineReg.prfG r (some p)
        ke nonce si sr = .err ∧ Gen.security.GenerateRandomNumber secG r ≠ .fault) ∨
    (Gen.security.NewIKESAKey P secG RefineReg.dhG RefineReg.encrG RefineReg.integG RefineReg.prfG r (some p)
        ke nonce si sr = .fault ∧ Gen.security.GenerateRandomNumber secG r = .fault) := by
  rw [NewIKESAKey_unsupported_integ P r p td te ti tp hd he hi hp hdn hen hpn hin]
  cases Gen.security.GenerateRandomNumber secG r with
  | err => exact Or.inl ⟨rfl, fun h => by cases h⟩
  | fault => exact Or.inr ⟨rfl, rfl⟩
  | ok x => exact Or.inl ⟨rfl, fun h => by cases h⟩

/-- (c) a key object `NewIKESAKey` returns: all four first transforms were supported, the exponent was drawn from
the source and is in range, the public value and the shared secret are those of the RFC group for that exponent,
the keys are those the model derives from that shared secret, and the object is well-formed -/
theorem NewIKESAKey_ok_wf (P : Prims) (hP : P.Lawful) (r r' : Rand) (p : Proposal)
    (td te ti tp : Transform) (hd : p.dh.head? = some td) (he : p.encr.head? = some te)
    (hi : p.integ.head? = some ti) (hp : p.prf.head? = some tp)
    (ke nonce : Bytes) (si sr : UInt64) (k' : Gen.security.IKESAKey) (pub : Bytes)
    (h : Gen.security.NewIKESAKey P secG RefineReg.dhG RefineReg.encrG RefineReg.integG RefineReg.prfG r (some p)
        ke nonce si sr = .ok (r', k', pub)) :
    SaRegistered (saOfTransforms td te ti tp) ∧ DhRegistered (decDh td) ∧
    SaWF k' ∧ SaRegistered k' ∧
    k'.DhInfo = decDh td ∧ k'.EncrInfo = decEncr te ∧ k'.IntegInfo = decInteg ti ∧ k'.PrfInfo = decPrf tp ∧
    ∃ x : Nat, Gen.security.GenerateRandomNumber secG r = .ok (r', x) ∧ 2 ^ 128 ≤ x ∧ x < 2 ^ 2048 - 1 ∧
      dhPub (RefineReg.absGroup (decDh td)) x = .ok pub ∧
      pub = dhPubFixed (RefineReg.absGroup (decDh td)) x ∧
      dhShared (RefineReg.absGroup (decDh td)) x (beNat ke) =
        .ok (dhSharedFixed (RefineReg.absGroup (decDh td)) x (beNat ke)) ∧
      Gen.security.IKESAKey.GenerateKeyForIKESA P (some (saOfTransforms td te ti tp)) nonce
        (dhSharedFixed (RefineReg.absGroup (decDh td)) x (beNat ke)) si sr = .ok k' ∧
      genKeyForIKESA P (absSa (saOfTransforms td te ti tp)) nonce
        (dhSharedFixed (RefineReg.absGroup (decDh td)) x (beNat ke)) si sr = (absSa k', .ok ()) := by
  rw [NewIKESAKey_init_eq P r p td te ti tp hd he hi hp] at h
  by_cases hdn : decDh td = .nil_
  · rw [if_pos hdn] at h; cases h
  rw [if_neg hdn] at h
  by_cases hen : decEncr te = .nil_
  · rw [if_pos hen] at h; cases h
  rw [if_neg hen] at h
  by_cases hpn : decPrf tp = .nil_
  · rw [if_pos hpn] at h; cases h
  rw [if_neg hpn] at h
  have hreg : DhRegistered (saOfTransforms td te ti tp).DhInfo := decDh_registered td hdn
  rw [CalculateDiffieHellmanMaterials_registered r _ hreg] at h
  cases hg : Gen.security.GenerateRandomNumber secG r with
  | err => rw [hg] at h; cases h
  | fault => rw [hg] at h; cases h
  | ok t =>
    obtain ⟨r1, x⟩ := t
    rw [hg] at h
    simp only [Res.bind_ok] at h
    by_cases hin : decInteg ti = .nil_
    · rw [GenerateKeyForIKESA_missing P _ (Or.inr (Or.inl hin))] at h; cases h
    have hsr : SaRegistered (saOfTransforms td te ti tp) :=
      ⟨decEncr_registered te hen, decInteg_registered ti hin, decPrf_registered tp hpn, hdn⟩
    cases hk : Gen.security.IKESAKey.GenerateKeyForIKESA P (some (saOfTransforms td te ti tp)) nonce
        (dhSharedFixed (RefineReg.absGroup (saOfTransforms td te ti tp).DhInfo) x (beNat ke)) si sr with
    | err => rw [hk] at h; cases h
    | fault => rw [hk] at h; cases h
    | ok k1 =>
      rw [hk] at h
      simp only [Res.bind_ok, Res.ok.injEq, Prod.mk.injEq] at h
      obtain ⟨h1, h2, h3⟩ := h
      subst h1 h2
      obtain ⟨w, e1, e2, e3, e4⟩ := GenerateKeyForIKESA_wf P _ hsr nonce _ si sr k1 hk
      have hrk := GenerateKeyForIKESA_registered P _ hsr nonce _ si sr k1 hk
      obtain ⟨q1, q2⟩ := GenerateRandomNumber_range r r1 x hg
      have href := GenerateKeyForIKESA_refines P hP _ hsr nonce
        (dhSharedFixed (RefineReg.absGroup (saOfTransforms td te ti tp).DhInfo) x (beNat ke)) si sr
      rw [hk] at href
      refine ⟨hsr, hreg, w, hrk, e4, e1, e2, e3, x, rfl, q1, q2, ?_, h3.symm, ?_, hk, ?_⟩
      · rw [← h3]; exact dhPub_fixed _ hreg.pos hreg.fits x
      · exact dhShared_fixed _ hreg.pos hreg.fits x _
      · revert href
        show _ → genKeyForIKESA P (absSa (saOfTransforms td te ti tp)) nonce
          (dhSharedFixed (RefineReg.absGroup (saOfTransforms td te ti tp).DhInfo) x (beNat ke)) si sr = _
        generalize genKeyForIKESA P (absSa (saOfTransforms td te ti tp)) nonce
          (dhSharedFixed (RefineReg.absGroup (saOfTransforms td te ti tp).DhInfo) x (beNat ke)) si sr = g
        intro href
        obtain ⟨sa', res⟩ := g
        cases res with
        | err => cases href
        | fault => cases href
        | ok u =>
          cases u
          simp only [Res.map, Res.ok.injEq] at href
          rw [href]

end Ike.RefineSa
