import IkeProofs.RefineSa.Keys
import IkeProofs.RefineSa.Protect
import IkeProofs.RefineSa.Unprotect

/-! From an outcome of the TRANSLATED `ike.EncodeEncrypt` / `ike.DecodeDecrypt` (`Gen_ike.lean`, regenerated from
/repo's `ike.go` on every run) to the outcome of the hand-written model's `protect` / `unprotect`, and back: the
two lemmas every `Theorems/CxxGen.lean` about the protected path goes through. -/

namespace Ike.RefineSa
open Ike Ike.GenAbsSa

/-- the integrity descriptor is one the translated registry registers -/
def IntegRegistered (i : Gen.integ.INTEGType) : Prop :=
  i = .AuthHmacMd5_95 ⟨16, 12⟩ ∨ i = .AuthHmacSha1_96 ⟨20, 12⟩ ∨ i = .AuthHmacSha2_256_128 ⟨32, 16⟩

theorem map_eq_ok {α β : Type} {x : Res α} {f : α → β} {b : β} (h : x.map f = .ok b) : ∃ a, x = .ok a ∧ f a = b := by
  cases x with
  | ok a => exact ⟨a, rfl, by simpa [Res.map] using h⟩
  | err => simp [Res.map] at h
  | fault => simp [Res.map] at h

/-- what the translated `EncodeEncrypt` returns IS what the model's `protect` returns -/
theorem gen_protect_ok (P : Prims) (hP : P.Lawful) (k : Gen.security.IKESAKey) (hk : SaWF k)
    (hi : IntegRegistered k.IntegInfo) (role : Bool) (r : Rand) (m : Msg)
    (r' : Rand) (gm' : Gen.message.IKEMessage) (k' : Gen.security.IKESAKey) (out : Bytes)
    (h : Gen.ike.EncodeEncrypt P r (GenAbs.repMsg m) (some k) role = .ok (r', gm', k', out)) :
    ∃ m', GenAbs.absMsg gm' = some m' ∧ protect P (absSa k) role r m = (absSa k', r', .ok (out, m')) := by
  have hr := Enc.EncodeEncrypt_refines_registered P hP k hk hi role r m
  rw [h] at hr
  generalize protect P (absSa k) role r m = pr at hr
  obtain ⟨sa', r1, res⟩ := pr
  cases res with
  | ok x =>
    obtain ⟨o, m'⟩ := x
    simp only [Res.map, Res.ok.injEq, Prod.mk.injEq] at hr
    obtain ⟨h1, h2, h3, h4⟩ := hr
    exact ⟨m', h2, by rw [h1, h3, h4]⟩
  | err => simp [Res.map] at hr
  | fault => simp [Res.map] at hr

/-- conversely: when the model's `protect` succeeds, so does the translated `EncodeEncrypt`, with that datagram -/
theorem gen_protect_of_model (P : Prims) (hP : P.Lawful) (k : Gen.security.IKESAKey) (hk : SaWF k)
    (hi : IntegRegistered k.IntegInfo) (role : Bool) (r : Rand) (m : Msg)
    (sa' : SAKey) (r' : Rand) (out : Bytes) (m' : Msg)
    (h : protect P (absSa k) role r m = (sa', r', .ok (out, m'))) :
    ∃ gm' k', Gen.ike.EncodeEncrypt P r (GenAbs.repMsg m) (some k) role = .ok (r', gm', k', out) ∧
      GenAbs.absMsg gm' = some m' ∧ absSa k' = sa' := by
  have hr := Enc.EncodeEncrypt_refines_registered P hP k hk hi role r m
  rw [h] at hr
  obtain ⟨x, hx, hf⟩ := map_eq_ok hr
  obtain ⟨r1, gm', k', o⟩ := x
  simp only [Prod.mk.injEq] at hf
  obtain ⟨h1, h2, h3, h4⟩ := hf
  exact ⟨gm', k', by rw [hx, h1, h4], h2, h3⟩

/-- what the translated `DecodeDecrypt` accepts IS what the model's `unprotect` accepts -/
theorem gen_unprotect_ok (P : Prims) (hP : P.Lawful) (k : Gen.security.IKESAKey) (hk : SaWF k)
    (hi : IntegRegistered k.IntegInfo) (role : Bool) (h : Option Header) (bs : Bytes)
    (k' : Gen.security.IKESAKey) (gm' : Gen.message.IKEMessage)
    (hok : Gen.ike.DecodeDecrypt P bs (h.map GenAbs.repHeader) (some k) role = .ok (k', gm')) :
    ∃ o n m, unprotect P (some (absSa k)) role h bs = (o, n, .ok m) ∧ GenAbs.absMsg gm' = some m := by
  have hr := Dec.DecodeDecrypt_refines P hP k hk (Dec.IntegOk_of_registered hi) role h bs
  rw [hok] at hr
  generalize unprotect P (some (absSa k)) role h bs = u at hr
  obtain ⟨o, n, res⟩ := u
  cases res with
  | ok m =>
    refine ⟨o, n, m, rfl, ?_⟩
    cases o with
    | some s => simp only [Res.map, Res.ok.injEq, Prod.mk.injEq] at hr; exact hr.2
    | none => simp only [Res.map, Res.ok.injEq, Prod.mk.injEq] at hr; exact hr.2
  | err => cases o <;> simp [Res.map] at hr
  | fault => cases o <;> simp [Res.map] at hr

/-- conversely: when the model's `unprotect` accepts, so does the translated `DecodeDecrypt`, with that message -/
theorem gen_unprotect_of_model (P : Prims) (hP : P.Lawful) (k : Gen.security.IKESAKey) (hk : SaWF k)
    (hi : IntegRegistered k.IntegInfo) (role : Bool) (h : Option Header) (bs : Bytes)
    (o : Option SAKey) (n : Nat) (m : Msg)
    (hu : unprotect P (some (absSa k)) role h bs = (o, n, .ok m)) :
    ∃ k' gm', Gen.ike.DecodeDecrypt P bs (h.map GenAbs.repHeader) (some k) role = .ok (k', gm') ∧
      GenAbs.absMsg gm' = some m := by
  have hr := Dec.DecodeDecrypt_refines P hP k hk (Dec.IntegOk_of_registered hi) role h bs
  rw [hu] at hr
  cases o with
  | some s =>
    obtain ⟨x, hx, hf⟩ := map_eq_ok hr
    simp only [Prod.mk.injEq] at hf
    exact ⟨x.1, x.2, hx, hf.2⟩
  | none =>
    obtain ⟨x, hx, hf⟩ := map_eq_ok hr
    simp only [Prod.mk.injEq] at hf
    exact ⟨x.1, x.2, hx, hf.2⟩

/-- the translated `DecodeDecrypt` does not accept what the model's `unprotect` does not accept -/
theorem gen_unprotect_not_ok (P : Prims) (hP : P.Lawful) (k : Gen.security.IKESAKey) (hk : SaWF k)
    (hi : IntegRegistered k.IntegInfo) (role : Bool) (h : Option Header) (bs : Bytes)
    (hno : ∀ m, (unprotect P (some (absSa k)) role h bs).2.2 ≠ .ok m) :
    ∀ x, Gen.ike.DecodeDecrypt P bs (h.map GenAbs.repHeader) (some k) role ≠ .ok x := by
  intro x hx
  obtain ⟨o, n, m, hu, _⟩ := gen_unprotect_ok P hP k hk hi role h bs x.1 x.2 hx
  exact hno m (by rw [hu])

end Ike.RefineSa
