import IkeProofs.Refine.Basic
import IkeModel.GenAbsSa
import IkeProofs.RefineReg.Registries
import IkeProofs.RefineReg.Cbc
import IkeProofs.RefineEap.Crypto
import IkeProofs.Lemmas.Keys

/-! Key derivation of package `security` as translated (`Gen.security.concatenateNonceAndSPI`,
`Gen.security.IKESAKey.GenerateKeyForIKESA`, `Gen.security.ChildSAKey.GenerateKeyForChildSA`) computes what the
hand-written model computes (`concatNonceSpi`, `genKeyForIKESA`, `genKeyForChildSA`), through the abstraction
`absSa` / `absChild`. -/

set_option linter.unusedSimpArgs false
set_option linter.unusedVariables false

namespace Ike.RefineSa
open Ike Ike.GenAbsSa Ike.Refine

/-! ### `concatenateNonceAndSPI` -/

/-- `binary.BigEndian.PutUint64(spi, v)` on an 8-octet slice -/
theorem putU64_full (d : Bytes) (hd : d.length = 8) (v : UInt64) :
    Go.putU64 d 0 d.length v = Res.ok (put64 v) := by
  unfold Go.putU64 Go.splice
  rw [if_pos (by omega)]
  have h8 : (put64 v).length = 8 := rfl
  have : d.drop (0 + (put64 v).length) = [] := by
    rw [h8]; exact List.drop_eq_nil_of_le (by omega)
  rw [this]
  simp

theorem concatenateNonceAndSPI_refines (n : Bytes) (a b : UInt64) :
    Gen.security.concatenateNonceAndSPI n a b = .ok (concatNonceSpi n a b) := by
  unfold Gen.security.concatenateNonceAndSPI concatNonceSpi
  simp only []
  rw [putU64_full (zeros 8) rfl a]
  simp only [Res.bind_ok]
  rw [putU64_full (put64 a) rfl b]
  simp only [Res.bind_ok, List.nil_append]

/-! ### the dispatchers of the descriptor interfaces on descriptors that make sense -/

/-- a PRF descriptor: not nil, key length not negative (all that key derivation reads of it) -/
def PrfOk : Gen.prf.PRFType → Prop
  | .nil_ => False
  | .PrfHmacMd5 v => 0 ≤ v.keyLength
  | .PrfHmacSha1 v => 0 ≤ v.keyLength
  | .PrfHmacSha2_256 v => 0 ≤ v.keyLength

/-- an integrity descriptor: not nil, and its `keyLength` field is the constant its `Init` compares with -/
def IntegOk : Gen.integ.INTEGType → Prop
  | .nil_ => False
  | .AuthHmacMd5_95 v => v.keyLength = 16
  | .AuthHmacSha1_96 v => v.keyLength = 20
  | .AuthHmacSha2_256_128 v => v.keyLength = 32

/-- an encryption descriptor: not nil, an AES key length -/
def EncrOk : Gen.encr.ENCRType → Prop
  | .nil_ => False
  | .EncrAesCbc v => v.keyLength = 16 ∨ v.keyLength = 24 ∨ v.keyLength = 32

theorem PrfOk.ne_nil {p : Gen.prf.PRFType} (h : PrfOk p) : p ≠ .nil_ := by
  intro e; subst e; exact h
theorem IntegOk.ne_nil {i : Gen.integ.INTEGType} (h : IntegOk i) : i ≠ .nil_ := by
  intro e; subst e; exact h
theorem EncrOk.ne_nil {e : Gen.encr.ENCRType} (h : EncrOk e) : e ≠ .nil_ := by
  intro e'; subst e'; exact h

theorem prf_GetKeyLength (p : Gen.prf.PRFType) (h : PrfOk p) :
    Gen.prf.PRFType.GetKeyLength p = .ok (((absPrfInfo p).keyLen : Nat) : Int) := by
  cases p with
  | nil_ => exact h.elim
  | PrfHmacMd5 v =>
    simp only [PrfOk] at h
    simp only [Gen.prf.PRFType.GetKeyLength, Gen.prf.PrfHmacMd5.GetKeyLength, Res.bind_ok, absPrfInfo,
      Int.toNat_of_nonneg h]
  | PrfHmacSha1 v =>
    simp only [PrfOk] at h
    simp only [Gen.prf.PRFType.GetKeyLength, Gen.prf.PrfHmacSha1.GetKeyLength, Res.bind_ok, absPrfInfo,
      Int.toNat_of_nonneg h]
  | PrfHmacSha2_256 v =>
    simp only [PrfOk] at h
    simp only [Gen.prf.PRFType.GetKeyLength, Gen.prf.PrfHmacSha2_256.GetKeyLength, Res.bind_ok, absPrfInfo,
      Int.toNat_of_nonneg h]

/-- `PRFType.Init(key)` = `hmac.New(h, key)` with the hash number of the abstraction -/
theorem prf_Init (p : Gen.prf.PRFType) (h : p ≠ .nil_) (key : Bytes) :
    Gen.prf.PRFType.Init p key = .ok (Go.Mac.new (absPrfInfo p).hash key) := by
  cases p with
  | nil_ => exact absurd rfl h
  | PrfHmacMd5 v => rfl
  | PrfHmacSha1 v => rfl
  | PrfHmacSha2_256 v => rfl

theorem prf_Init_abs (p : Gen.prf.PRFType) (h : p ≠ .nil_) (key : Bytes) :
    (Gen.prf.PRFType.Init p key).map absMac = .ok ((absPrfInfo p).init key) := by
  rw [prf_Init p h key]; rfl

theorem integ_GetKeyLength (i : Gen.integ.INTEGType) (h : IntegOk i) :
    Gen.integ.INTEGType.GetKeyLength i = .ok (((absIntegInfo i).keyLen : Nat) : Int) := by
  cases i with
  | nil_ => exact h.elim
  | AuthHmacMd5_95 v =>
    simp only [IntegOk] at h
    simp only [Gen.integ.INTEGType.GetKeyLength, Gen.integ.AuthHmacMd5_95.GetKeyLength, Res.bind_ok, absIntegInfo, h]
    rfl
  | AuthHmacSha1_96 v =>
    simp only [IntegOk] at h
    simp only [Gen.integ.INTEGType.GetKeyLength, Gen.integ.AuthHmacSha1_96.GetKeyLength, Res.bind_ok, absIntegInfo, h]
    rfl
  | AuthHmacSha2_256_128 v =>
    simp only [IntegOk] at h
    simp only [Gen.integ.INTEGType.GetKeyLength, Gen.integ.AuthHmacSha2_256_128.GetKeyLength, Res.bind_ok,
      absIntegInfo, h]
    rfl

/-- `INTEGType.Init(key)`: `hmac.New(h, key)` for a key of the descriptor's length, the nil `hash.Hash` otherwise -/
theorem integ_Init (i : Gen.integ.INTEGType) (h : IntegOk i) (key : Bytes) :
    Gen.integ.INTEGType.Init i key =
      .ok (if key.length = (absIntegInfo i).keyLen then Go.Mac.new (absIntegInfo i).hash key else Go.Mac.nil) := by
  cases i with
  | nil_ => exact h.elim
  | AuthHmacMd5_95 v =>
    simp only [IntegOk] at h
    simp only [Gen.integ.INTEGType.Init, Gen.integ.AuthHmacMd5_95.Init, absIntegInfo, h]
    by_cases c : key.length = 16 <;> simp [c]
  | AuthHmacSha1_96 v =>
    simp only [IntegOk] at h
    simp only [Gen.integ.INTEGType.Init, Gen.integ.AuthHmacSha1_96.Init, absIntegInfo, h]
    by_cases c : key.length = 20 <;> simp [c]
  | AuthHmacSha2_256_128 v =>
    simp only [IntegOk] at h
    simp only [Gen.integ.INTEGType.Init, Gen.integ.AuthHmacSha2_256_128.Init, absIntegInfo, h]
    by_cases c : key.length = 32 <;> simp [c]

theorem integ_Init_ok (i : Gen.integ.INTEGType) (h : IntegOk i) (key : Bytes)
    (hk : key.length = (absIntegInfo i).keyLen) :
    Gen.integ.INTEGType.Init i key = .ok (Go.Mac.new (absIntegInfo i).hash key) := by
  rw [integ_Init i h key, if_pos hk]

/-- the hash numbers of the abstraction are those of `hmac.New`, never the nil object's 255 -/
theorem integ_hash_lt (i : Gen.integ.INTEGType) : (absIntegInfo i).hash < 3 := by
  cases i <;> simp [absIntegInfo]
theorem prf_hash_lt (p : Gen.prf.PRFType) : (absPrfInfo p).hash < 3 := by
  cases p <;> simp [absPrfInfo]

theorem Mac_new_not_nil (h : Nat) (hh : h < 3) (key : Bytes) : Go.Mac.isNil (Go.Mac.new h key) = false := by
  simp only [Go.Mac.isNil, Go.Mac.new, beq_eq_false_iff_ne, ne_eq]
  omega

theorem encr_GetKeyLength (e : Gen.encr.ENCRType) (h : EncrOk e) :
    Gen.encr.ENCRType.GetKeyLength e = .ok (((absEncrInfo e).keyLen : Nat) : Int) := by
  cases e with
  | nil_ => exact h.elim
  | EncrAesCbc v =>
    simp only [EncrOk] at h
    have h0 : 0 ≤ v.keyLength := by omega
    simp only [Gen.encr.ENCRType.GetKeyLength, Gen.encr.EncrAesCbc.GetKeyLength, Res.bind_ok, absEncrInfo,
      Int.toNat_of_nonneg h0]

/-- `ENCRType.NewCrypto(key)` -/
theorem encr_NewCrypto (e : Gen.encr.ENCRType) (h : EncrOk e) (key : Bytes) :
    Gen.encr.ENCRType.NewCrypto e key =
      if key.length ≠ (absEncrInfo e).keyLen then .err else .ok { Block := key, Iv := [], Padding := [] } := by
  cases e with
  | nil_ => exact h.elim
  | EncrAesCbc v =>
    simp only [EncrOk] at h
    simp only [Gen.encr.ENCRType.NewCrypto, RefineReg.NewCrypto_eq v h key, absEncrInfo]
    by_cases c : key.length = v.keyLength.toNat <;> simp [c]

/-! ### `GenerateKeyForIKESA`: the nil tests -/

theorem GenerateKeyForIKESA_nil (P : Prims) (nonce secret : Bytes) (si sr : UInt64) :
    Gen.security.IKESAKey.GenerateKeyForIKESA P none nonce secret si sr = .err := rfl

theorem GenerateKeyForIKESA_noEncr (P : Prims) (k : Gen.security.IKESAKey) (h : k.EncrInfo = .nil_)
    (nonce secret : Bytes) (si sr : UInt64) :
    Gen.security.IKESAKey.GenerateKeyForIKESA P (some k) nonce secret si sr = .err := by
  unfold Gen.security.IKESAKey.GenerateKeyForIKESA
  simp only [Option.isNone_some, Option.getD_some, Bool.false_eq_true, if_false, h, if_true]

theorem GenerateKeyForIKESA_noInteg (P : Prims) (k : Gen.security.IKESAKey) (h : k.IntegInfo = .nil_)
    (nonce secret : Bytes) (si sr : UInt64) :
    Gen.security.IKESAKey.GenerateKeyForIKESA P (some k) nonce secret si sr = .err := by
  unfold Gen.security.IKESAKey.GenerateKeyForIKESA
  simp only [Option.isNone_some, Option.getD_some, Bool.false_eq_true, if_false, h, if_true]
  split <;> rfl

theorem GenerateKeyForIKESA_noPrf (P : Prims) (k : Gen.security.IKESAKey) (h : k.PrfInfo = .nil_)
    (nonce secret : Bytes) (si sr : UInt64) :
    Gen.security.IKESAKey.GenerateKeyForIKESA P (some k) nonce secret si sr = .err := by
  unfold Gen.security.IKESAKey.GenerateKeyForIKESA
  simp only [Option.isNone_some, Option.getD_some, Bool.false_eq_true, if_false, h, if_true]
  split
  · rfl
  · split <;> rfl

theorem GenerateKeyForIKESA_noDh (P : Prims) (k : Gen.security.IKESAKey) (h : k.DhInfo = .nil_)
    (nonce secret : Bytes) (si sr : UInt64) :
    Gen.security.IKESAKey.GenerateKeyForIKESA P (some k) nonce secret si sr = .err := by
  unfold Gen.security.IKESAKey.GenerateKeyForIKESA
  simp only [Option.isNone_some, Option.getD_some, Bool.false_eq_true, if_false, h, if_true]
  split
  · rfl
  · split
    · rfl
    · split <;> rfl

theorem GenerateKeyForIKESA_missing (P : Prims) (k : Gen.security.IKESAKey)
    (h : k.EncrInfo = .nil_ ∨ k.IntegInfo = .nil_ ∨ k.PrfInfo = .nil_ ∨ k.DhInfo = .nil_)
    (nonce secret : Bytes) (si sr : UInt64) :
    Gen.security.IKESAKey.GenerateKeyForIKESA P (some k) nonce secret si sr = .err := by
  rcases h with h | h | h | h
  · exact GenerateKeyForIKESA_noEncr P k h nonce secret si sr
  · exact GenerateKeyForIKESA_noInteg P k h nonce secret si sr
  · exact GenerateKeyForIKESA_noPrf P k h nonce secret si sr
  · exact GenerateKeyForIKESA_noDh P k h nonce secret si sr

/-- an empty nonce or an empty shared secret is an error as well (whatever the descriptors) -/
theorem GenerateKeyForIKESA_empty (P : Prims) (ko : Option Gen.security.IKESAKey) (nonce secret : Bytes)
    (h : nonce = [] ∨ secret = []) (si sr : UInt64) :
    Gen.security.IKESAKey.GenerateKeyForIKESA P ko nonce secret si sr = .err := by
  unfold Gen.security.IKESAKey.GenerateKeyForIKESA
  simp only []
  repeat' split
  all_goals first | rfl | skip
  all_goals (rcases h with h | h <;> subst h <;> simp_all)

/-! ### `GenerateKeyForIKESA`: closed form -/

/-- the descriptors are usable: non-nil, the key lengths non-negative and those the methods `Init` / `NewCrypto`
of the descriptor compare with -/
structure SaDescOk (k : Gen.security.IKESAKey) : Prop where
  encr : EncrOk k.EncrInfo
  integ : IntegOk k.IntegInfo
  prf : PrfOk k.PrfInfo
  dh : k.DhInfo ≠ .nil_

theorem sliceTo_nat (l : Bytes) (n : Nat) : Go.sliceTo l (n : Int) = goTo l n := by
  unfold Go.sliceTo goTo
  by_cases h : n ≤ l.length
  · rw [if_pos (by omega), if_pos h]; rfl
  · rw [if_neg (by omega), if_neg h]

theorem sliceFrom_nat (l : Bytes) (n : Nat) : Go.sliceFrom l (n : Int) = goFrom l n := by
  unfold Go.sliceFrom goFrom
  by_cases h : n ≤ l.length
  · rw [if_pos (by omega), if_pos h]; rfl
  · rw [if_neg (by omega), if_neg h]

theorem goTo_ok_length {b r : Bytes} {n : Nat} (h : goTo b n = .ok r) : r.length = n := by
  unfold goTo at h
  split at h
  · cases h; rw [List.length_take]; omega
  · cases h

/-- the SA object with the seven keys and the objects built from them stored -/
def ikeInstall (k : Gen.security.IKESAKey) (s : IkeKeySlices) : Gen.security.IKESAKey :=
  { k with
    SK_d := s.d, SK_ai := s.ai, SK_ar := s.ar, SK_ei := s.ei, SK_er := s.er, SK_pi := s.pi, SK_pr := s.pr,
    Prf_d := Go.Mac.new (absPrfInfo k.PrfInfo).hash s.d,
    Integ_i := Go.Mac.new (absIntegInfo k.IntegInfo).hash s.ai,
    Integ_r := Go.Mac.new (absIntegInfo k.IntegInfo).hash s.ar,
    Encr_i := { Block := s.ei, Iv := [], Padding := [] },
    Encr_r := { Block := s.er, Iv := [], Padding := [] },
    Prf_i := Go.Mac.new (absPrfInfo k.PrfInfo).hash s.pi,
    Prf_r := Go.Mac.new (absPrfInfo k.PrfInfo).hash s.pr }

/-- total length of the key stream of an IKE SA -/
def ikeTotal (lD lA lE : Nat) : Nat := lD + lA + lA + lE + lE + lD + lD

theorem GenerateKeyForIKESA_eq (P : Prims) (k : Gen.security.IKESAKey) (hk : SaDescOk k)
    (nonce secret : Bytes) (si sr : UInt64) :
    Gen.security.IKESAKey.GenerateKeyForIKESA P (some k) nonce secret si sr =
      if nonce.length = 0 then .err else if secret.length = 0 then .err else
      (Gen.lib.PrfPlus P (Go.Mac.new (absPrfInfo k.PrfInfo).hash
          (P.mac (absPrfInfo k.PrfInfo).hash nonce secret)) (concatNonceSpi nonce si sr)
          ((ikeTotal (absPrfInfo k.PrfInfo).keyLen (absIntegInfo k.IntegInfo).keyLen
            (absEncrInfo k.EncrInfo).keyLen : Nat) : Int)) >>= fun r =>
      if r.2 = [] then .err else
      (sliceIkeKeys r.2 (absPrfInfo k.PrfInfo).keyLen (absIntegInfo k.IntegInfo).keyLen
        (absEncrInfo k.EncrInfo).keyLen) >>= fun s => .ok (ikeInstall k s) := by
  obtain ⟨he, hi, hp, hd⟩ := hk
  unfold Gen.security.IKESAKey.GenerateKeyForIKESA
  simp only [Option.isNone_some, Option.getD_some, Bool.false_eq_true, if_false]
  rw [if_neg he.ne_nil, if_neg hi.ne_nil, if_neg hp.ne_nil, if_neg hd]
  by_cases hn : nonce.length = 0
  · rw [if_pos hn, if_pos hn]
  rw [if_neg hn, if_neg hn]
  by_cases hs : secret.length = 0
  · rw [if_pos hs, if_pos hs]
  rw [if_neg hs, if_neg hs]
  simp only [prf_GetKeyLength _ hp, integ_GetKeyLength _ hi, encr_GetKeyLength _ he, Res.bind_ok,
    prf_Init _ hp.ne_nil, concatenateNonceAndSPI_refines]
  have hsum : Go.Mac.sum P ((Go.Mac.new (absPrfInfo k.PrfInfo).hash nonce).write secret) [] =
      P.mac (absPrfInfo k.PrfInfo).hash nonce secret := by
    simp only [Go.Mac.sum, Go.Mac.write, Go.Mac.new, List.nil_append]
  rw [hsum]
  generalize (absPrfInfo k.PrfInfo).keyLen = lD
  generalize hlA : (absIntegInfo k.IntegInfo).keyLen = lA
  generalize hlE : (absEncrInfo k.EncrInfo).keyLen = lE
  have htot : ((lD : Int) + lA + lA + lE + lE + lD + lD) = ((ikeTotal lD lA lE : Nat) : Int) := by
    unfold ikeTotal; omega
  rw [htot]
  simp only [sliceTo_nat, sliceFrom_nat]
  cases Gen.lib.PrfPlus P (Go.Mac.new (absPrfInfo k.PrfInfo).hash (P.mac (absPrfInfo k.PrfInfo).hash nonce secret))
      (concatNonceSpi nonce si sr) ((ikeTotal lD lA lE : Nat) : Int) with
  | err => rfl
  | fault => rfl
  | ok r =>
    simp only [Res.bind_ok]
    by_cases hr : r.2 = []
    · rw [if_pos hr, if_pos hr]
    rw [if_neg hr, if_neg hr]
    unfold sliceIkeKeys
    generalize r.2 = ks
    cases h10 : goTo ks lD with
    | err => rfl
    | fault => rfl
    | ok t10 =>
    cases h11 : goFrom ks lD with
    | err => rfl
    | fault => rfl
    | ok t11 =>
    simp only [Res.bind_ok]
    cases h12 : goTo t11 lA with
    | err => rfl
    | fault => rfl
    | ok t12 =>
    cases h13 : goFrom t11 lA with
    | err => rfl
    | fault => rfl
    | ok t13 =>
    simp only [Res.bind_ok]
    cases h14 : goTo t13 lA with
    | err => rfl
    | fault => rfl
    | ok t14 =>
    cases h15 : goFrom t13 lA with
    | err => rfl
    | fault => rfl
    | ok t15 =>
    simp only [Res.bind_ok]
    cases h16 : goTo t15 lE with
    | err => rfl
    | fault => rfl
    | ok t16 =>
    cases h17 : goFrom t15 lE with
    | err => rfl
    | fault => rfl
    | ok t17 =>
    simp only [Res.bind_ok]
    cases h18 : goTo t17 lE with
    | err => rfl
    | fault => rfl
    | ok t18 =>
    cases h19 : goFrom t17 lE with
    | err => rfl
    | fault => rfl
    | ok t19 =>
    simp only [Res.bind_ok]
    cases h20 : goTo t19 lD with
    | err => rfl
    | fault => rfl
    | ok t20 =>
    cases h21 : goFrom t19 lD with
    | err => rfl
    | fault => rfl
    | ok t21 =>
    simp only [Res.bind_ok]
    cases h22 : goTo t21 lD with
    | err => rfl
    | fault => rfl
    | ok t22 =>
    simp only [Res.bind_ok, Res.pure_eq]
    rw [integ_Init_ok _ hi t12 (by rw [hlA]; exact goTo_ok_length h12),
      integ_Init_ok _ hi t14 (by rw [hlA]; exact goTo_ok_length h14),
      encr_NewCrypto _ he t16, encr_NewCrypto _ he t18,
      if_neg (by rw [hlE, goTo_ok_length h16]; simp), if_neg (by rw [hlE, goTo_ok_length h18]; simp)]
    rfl

/-! ### `genKeyForIKESA` (the model): closed form -/

theorem sliceIkeKeys_lengths {ks : Bytes} {lD lA lE : Nat} {s : IkeKeySlices}
    (h : sliceIkeKeys ks lD lA lE = .ok s) :
    s.d.length = lD ∧ s.ai.length = lA ∧ s.ar.length = lA ∧ s.ei.length = lE ∧ s.er.length = lE ∧
      s.pi.length = lD ∧ s.pr.length = lD := by
  unfold sliceIkeKeys at h
  cases h10 : goTo ks lD with
  | err => rw [h10] at h; cases h
  | fault => rw [h10] at h; cases h
  | ok t10 =>
  cases h11 : goFrom ks lD with
  | err => rw [h10, h11] at h; cases h
  | fault => rw [h10, h11] at h; cases h
  | ok t11 =>
  rw [h10, h11] at h
  simp only [Res.bind_ok] at h
  cases h12 : goTo t11 lA with
  | err => rw [h12] at h; cases h
  | fault => rw [h12] at h; cases h
  | ok t12 =>
  cases h13 : goFrom t11 lA with
  | err => rw [h12, h13] at h; cases h
  | fault => rw [h12, h13] at h; cases h
  | ok t13 =>
  rw [h12, h13] at h
  simp only [Res.bind_ok] at h
  cases h14 : goTo t13 lA with
  | err => rw [h14] at h; cases h
  | fault => rw [h14] at h; cases h
  | ok t14 =>
  cases h15 : goFrom t13 lA with
  | err => rw [h14, h15] at h; cases h
  | fault => rw [h14, h15] at h; cases h
  | ok t15 =>
  rw [h14, h15] at h
  simp only [Res.bind_ok] at h
  cases h16 : goTo t15 lE with
  | err => rw [h16] at h; cases h
  | fault => rw [h16] at h; cases h
  | ok t16 =>
  cases h17 : goFrom t15 lE with
  | err => rw [h16, h17] at h; cases h
  | fault => rw [h16, h17] at h; cases h
  | ok t17 =>
  rw [h16, h17] at h
  simp only [Res.bind_ok] at h
  cases h18 : goTo t17 lE with
  | err => rw [h18] at h; cases h
  | fault => rw [h18] at h; cases h
  | ok t18 =>
  cases h19 : goFrom t17 lE with
  | err => rw [h18, h19] at h; cases h
  | fault => rw [h18, h19] at h; cases h
  | ok t19 =>
  rw [h18, h19] at h
  simp only [Res.bind_ok] at h
  cases h20 : goTo t19 lD with
  | err => rw [h20] at h; cases h
  | fault => rw [h20] at h; cases h
  | ok t20 =>
  cases h21 : goFrom t19 lD with
  | err => rw [h20, h21] at h; cases h
  | fault => rw [h20, h21] at h; cases h
  | ok t21 =>
  rw [h20, h21] at h
  simp only [Res.bind_ok] at h
  cases h22 : goTo t21 lD with
  | err => rw [h22] at h; cases h
  | fault => rw [h22] at h; cases h
  | ok t22 =>
  rw [h22] at h
  simp only [Res.bind_ok, Res.pure_eq, Res.ok.injEq] at h
  subst h
  exact ⟨goTo_ok_length h10, goTo_ok_length h12, goTo_ok_length h14, goTo_ok_length h16, goTo_ok_length h18,
    goTo_ok_length h20, goTo_ok_length h22⟩

/-- the model's SA object with the seven keys and the objects built from them stored -/
def saInstall (sa : SAKey) (s : IkeKeySlices) : SAKey :=
  { sa with
    sk_d := s.d, sk_ai := s.ai, sk_ar := s.ar, sk_ei := s.ei, sk_er := s.er, sk_pi := s.pi, sk_pr := s.pr,
    prf_d := sa.prfInfo.init s.d,
    integ_i := ⟨sa.integInfo.hash, s.ai, []⟩, integ_r := ⟨sa.integInfo.hash, s.ar, []⟩,
    encr_i := ⟨s.ei⟩, encr_r := ⟨s.er⟩,
    prf_i := sa.prfInfo.init s.pi, prf_r := sa.prfInfo.init s.pr }

/-- the outcome of the model's `genKeyForIKESA` (the SA object is dropped unless the call succeeds) in closed
form: the key stream, its seven slices, the objects.  The `fault` the model reports for a nil `Integ_i` / `Integ_r`
and the errors of `NewCrypto` cannot arise, because the slices have the descriptors' lengths. -/
theorem genKeyForIKESA_eq (P : Prims) (sa : SAKey) (nonce secret : Bytes) (si sr : UInt64) :
    (match genKeyForIKESA P sa nonce secret si sr with
      | (sa', .ok ()) => Res.ok sa' | (_, .err) => .err | (_, .fault) => .fault) =
      if nonce.length = 0 then .err else if secret.length = 0 then .err else
      (match prfPlus P (sa.prfInfo.init (HashObj.sum P ((sa.prfInfo.init nonce).write secret) []))
          (concatNonceSpi nonce si sr)
          (sa.prfInfo.keyLen + sa.integInfo.keyLen + sa.integInfo.keyLen + sa.encrInfo.keyLen + sa.encrInfo.keyLen +
            sa.prfInfo.keyLen + sa.prfInfo.keyLen) with
        | (h, .ok b) => Res.ok (h, b) | (_, .err) => .err | (_, .fault) => .fault) >>= fun r =>
      if r.2 = [] then .err else
      (sliceIkeKeys r.2 sa.prfInfo.keyLen sa.integInfo.keyLen sa.encrInfo.keyLen) >>= fun s =>
      .ok (saInstall sa s) := by
  unfold genKeyForIKESA
  by_cases hn : nonce.length = 0
  · rw [if_pos hn, if_pos hn]
  rw [if_neg hn, if_neg hn]
  by_cases hs : secret.length = 0
  · rw [if_pos hs, if_pos hs]
  rw [if_neg hs, if_neg hs]
  simp only []
  generalize prfPlus P (sa.prfInfo.init (HashObj.sum P ((sa.prfInfo.init nonce).write secret) []))
          (concatNonceSpi nonce si sr)
          (sa.prfInfo.keyLen + sa.integInfo.keyLen + sa.integInfo.keyLen + sa.encrInfo.keyLen + sa.encrInfo.keyLen +
            sa.prfInfo.keyLen + sa.prfInfo.keyLen) = m
  obtain ⟨h', res⟩ := m
  cases res with
  | err => rfl
  | fault => rfl
  | ok ks =>
    simp only [Res.bind_ok]
    by_cases hks : ks = []
    · subst hks; rfl
    have hks' : ¬ (ks.isEmpty = true) := by simpa using hks
    rw [if_neg hks, if_neg hks']
    cases hsl : sliceIkeKeys ks sa.prfInfo.keyLen sa.integInfo.keyLen sa.encrInfo.keyLen with
    | err => rfl
    | fault => rfl
    | ok s =>
      obtain ⟨_, l2, l3, l4, l5, _, _⟩ := sliceIkeKeys_lengths hsl
      simp only [Res.bind_ok, IntegInfo.init, newCrypto, l2, l3, l4, l5, if_true, ne_eq, not_true_eq_false, if_false]
      rfl

/-! ### `GenerateKeyForIKESA` refines `genKeyForIKESA` -/

theorem GenerateKeyForIKESA_refines_gen (P : Prims) (hP : P.Lawful) (k : Gen.security.IKESAKey) (hk : SaDescOk k)
    (nonce secret : Bytes) (si sr : UInt64) :
    (Gen.security.IKESAKey.GenerateKeyForIKESA P (some k) nonce secret si sr).map absSa =
      (match genKeyForIKESA P (absSa k) nonce secret si sr with
       | (sa', .ok ()) => .ok sa' | (_, .err) => .err | (_, .fault) => .fault) := by
  rw [GenerateKeyForIKESA_eq P k hk, genKeyForIKESA_eq]
  by_cases hn : nonce.length = 0
  · rw [if_pos hn, if_pos hn]; rfl
  rw [if_neg hn, if_neg hn]
  by_cases hs : secret.length = 0
  · rw [if_pos hs, if_pos hs]; rfl
  rw [if_neg hs, if_neg hs]
  have hpp : (Gen.lib.PrfPlus P (Go.Mac.new (absPrfInfo k.PrfInfo).hash
          (P.mac (absPrfInfo k.PrfInfo).hash nonce secret)) (concatNonceSpi nonce si sr)
          ((ikeTotal (absPrfInfo k.PrfInfo).keyLen (absIntegInfo k.IntegInfo).keyLen
            (absEncrInfo k.EncrInfo).keyLen : Nat) : Int)).map (fun r => (absMac r.1, r.2)) =
      (match prfPlus P ((absSa k).prfInfo.init (HashObj.sum P (((absSa k).prfInfo.init nonce).write secret) []))
          (concatNonceSpi nonce si sr)
          ((absSa k).prfInfo.keyLen + (absSa k).integInfo.keyLen + (absSa k).integInfo.keyLen +
            (absSa k).encrInfo.keyLen + (absSa k).encrInfo.keyLen + (absSa k).prfInfo.keyLen +
            (absSa k).prfInfo.keyLen) with
        | (h, .ok b) => Res.ok (h, b) | (_, .err) => .err | (_, .fault) => .fault) :=
    RefineEap.PrfPlus_refines_lawful P hP _ _ _
  rw [← hpp]
  cases Gen.lib.PrfPlus P (Go.Mac.new (absPrfInfo k.PrfInfo).hash
          (P.mac (absPrfInfo k.PrfInfo).hash nonce secret)) (concatNonceSpi nonce si sr)
          ((ikeTotal (absPrfInfo k.PrfInfo).keyLen (absIntegInfo k.IntegInfo).keyLen
            (absEncrInfo k.EncrInfo).keyLen : Nat) : Int) with
  | err => rfl
  | fault => rfl
  | ok r =>
    simp only [Res.bind_ok, map_ok']
    by_cases hr : r.2 = []
    · rw [if_pos hr, if_pos hr]; rfl
    rw [if_neg hr, if_neg hr]
    show Res.map absSa (sliceIkeKeys r.2 (absPrfInfo k.PrfInfo).keyLen (absIntegInfo k.IntegInfo).keyLen
        (absEncrInfo k.EncrInfo).keyLen >>= fun s => Res.ok (ikeInstall k s)) =
      (sliceIkeKeys r.2 (absPrfInfo k.PrfInfo).keyLen (absIntegInfo k.IntegInfo).keyLen
        (absEncrInfo k.EncrInfo).keyLen >>= fun s => Res.ok (saInstall (absSa k) s))
    cases sliceIkeKeys r.2 (absPrfInfo k.PrfInfo).keyLen (absIntegInfo k.IntegInfo).keyLen
        (absEncrInfo k.EncrInfo).keyLen with
    | err => rfl
    | fault => rfl
    | ok s => rfl

/-- the descriptors are ones the translated registries register (`encrG_encrTypes`, `integG_integTypes`, `prfG_prfTypes`) -/
structure SaRegistered (k : Gen.security.IKESAKey) : Prop where
  encr : k.EncrInfo = .EncrAesCbc ⟨16⟩ ∨ k.EncrInfo = .EncrAesCbc ⟨24⟩ ∨ k.EncrInfo = .EncrAesCbc ⟨32⟩
  integ : k.IntegInfo = .AuthHmacMd5_95 ⟨16, 12⟩ ∨ k.IntegInfo = .AuthHmacSha1_96 ⟨20, 12⟩ ∨ k.IntegInfo = .AuthHmacSha2_256_128 ⟨32, 16⟩
  prf : k.PrfInfo = .PrfHmacMd5 ⟨16, 16⟩ ∨ k.PrfInfo = .PrfHmacSha1 ⟨20, 20⟩ ∨ k.PrfInfo = .PrfHmacSha2_256 ⟨32, 32⟩
  dh : k.DhInfo ≠ .nil_

theorem SaRegistered.descOk {k : Gen.security.IKESAKey} (h : SaRegistered k) : SaDescOk k := by
  obtain ⟨he, hi, hp, hd⟩ := h
  refine ⟨?_, ?_, ?_, hd⟩
  · rcases he with he | he | he <;> rw [he] <;> simp [EncrOk]
  · rcases hi with hi | hi | hi <;> rw [hi] <;> simp [IntegOk]
  · rcases hp with hp | hp | hp <;> rw [hp] <;> simp [PrfOk]

theorem GenerateKeyForIKESA_refines (P : Prims) (hP : P.Lawful) (k : Gen.security.IKESAKey) (hk : SaRegistered k)
    (nonce secret : Bytes) (si sr : UInt64) :
    (Gen.security.IKESAKey.GenerateKeyForIKESA P (some k) nonce secret si sr).map absSa =
      (match genKeyForIKESA P (absSa k) nonce secret si sr with
       | (sa', .ok ()) => .ok sa' | (_, .err) => .err | (_, .fault) => .fault) :=
  GenerateKeyForIKESA_refines_gen P hP k hk.descOk nonce secret si sr

/-! ### the object `GenerateKeyForIKESA` leaves -/

/-- a successful call returns the object with the slices of some key stream installed; the slices have the
descriptors' lengths -/
theorem GenerateKeyForIKESA_ok_install (P : Prims) (k : Gen.security.IKESAKey) (hk : SaDescOk k)
    (nonce secret : Bytes) (si sr : UInt64) (k' : Gen.security.IKESAKey)
    (h : Gen.security.IKESAKey.GenerateKeyForIKESA P (some k) nonce secret si sr = .ok k') :
    ∃ s : IkeKeySlices, k' = ikeInstall k s ∧
      s.d.length = (absPrfInfo k.PrfInfo).keyLen ∧ s.ai.length = (absIntegInfo k.IntegInfo).keyLen ∧
      s.ar.length = (absIntegInfo k.IntegInfo).keyLen ∧ s.ei.length = (absEncrInfo k.EncrInfo).keyLen ∧
      s.er.length = (absEncrInfo k.EncrInfo).keyLen ∧ s.pi.length = (absPrfInfo k.PrfInfo).keyLen ∧
      s.pr.length = (absPrfInfo k.PrfInfo).keyLen := by
  rw [GenerateKeyForIKESA_eq P k hk] at h
  split at h
  · cases h
  split at h
  · cases h
  cases hr : Gen.lib.PrfPlus P (Go.Mac.new (absPrfInfo k.PrfInfo).hash
          (P.mac (absPrfInfo k.PrfInfo).hash nonce secret)) (concatNonceSpi nonce si sr)
          ((ikeTotal (absPrfInfo k.PrfInfo).keyLen (absIntegInfo k.IntegInfo).keyLen
            (absEncrInfo k.EncrInfo).keyLen : Nat) : Int) with
  | err => rw [hr] at h; cases h
  | fault => rw [hr] at h; cases h
  | ok r =>
    rw [hr] at h
    simp only [Res.bind_ok] at h
    split at h
    · cases h
    cases hs : sliceIkeKeys r.2 (absPrfInfo k.PrfInfo).keyLen (absIntegInfo k.IntegInfo).keyLen
        (absEncrInfo k.EncrInfo).keyLen with
    | err => rw [hs] at h; cases h
    | fault => rw [hs] at h; cases h
    | ok s =>
      rw [hs] at h
      simp only [Res.bind_ok, Res.ok.injEq] at h
      exact ⟨s, h.symm, sliceIkeKeys_lengths hs⟩

theorem EncrOk.keyLen_pos {e : Gen.encr.ENCRType} (h : EncrOk e) : 0 < (absEncrInfo e).keyLen := by
  cases e with
  | nil_ => exact h.elim
  | EncrAesCbc v => simp only [EncrOk] at h; simp only [absEncrInfo]; omega

theorem GenerateKeyForIKESA_wf_gen (P : Prims) (k : Gen.security.IKESAKey) (hk : SaDescOk k)
    (nonce secret : Bytes) (si sr : UInt64) (k' : Gen.security.IKESAKey)
    (h : Gen.security.IKESAKey.GenerateKeyForIKESA P (some k) nonce secret si sr = .ok k') :
    SaWF k' ∧ k'.EncrInfo = k.EncrInfo ∧ k'.IntegInfo = k.IntegInfo ∧ k'.PrfInfo = k.PrfInfo ∧
      k'.DhInfo = k.DhInfo := by
  obtain ⟨s, hk', _, _, _, l4, l5, _, _⟩ := GenerateKeyForIKESA_ok_install P k hk nonce secret si sr k' h
  subst hk'
  have hpos := hk.encr.keyLen_pos
  refine ⟨⟨hk.encr.ne_nil, hk.integ.ne_nil, hk.prf.ne_nil, ?_, ?_, ?_, ⟨?_, rfl, rfl⟩, ⟨?_, rfl, rfl⟩⟩, rfl, rfl, rfl, rfl⟩
  · exact Mac_new_not_nil _ (integ_hash_lt _) _
  · exact Mac_new_not_nil _ (integ_hash_lt _) _
  · exact Mac_new_not_nil _ (prf_hash_lt _) _
  · show s.ei ≠ []
    intro e; rw [e] at l4; simp only [List.length_nil] at l4; omega
  · show s.er ≠ []
    intro e; rw [e] at l5; simp only [List.length_nil] at l5; omega

theorem GenerateKeyForIKESA_wf (P : Prims) (k : Gen.security.IKESAKey) (hk : SaRegistered k)
    (nonce secret : Bytes) (si sr : UInt64) (k' : Gen.security.IKESAKey)
    (h : Gen.security.IKESAKey.GenerateKeyForIKESA P (some k) nonce secret si sr = .ok k') :
    SaWF k' ∧ k'.EncrInfo = k.EncrInfo ∧ k'.IntegInfo = k.IntegInfo ∧ k'.PrfInfo = k.PrfInfo ∧
      k'.DhInfo = k.DhInfo :=
  GenerateKeyForIKESA_wf_gen P k hk.descOk nonce secret si sr k' h

/-- the descriptors stay registered -/
theorem GenerateKeyForIKESA_registered (P : Prims) (k : Gen.security.IKESAKey) (hk : SaRegistered k)
    (nonce secret : Bytes) (si sr : UInt64) (k' : Gen.security.IKESAKey)
    (h : Gen.security.IKESAKey.GenerateKeyForIKESA P (some k) nonce secret si sr = .ok k') : SaRegistered k' := by
  obtain ⟨_, e1, e2, e3, e4⟩ := GenerateKeyForIKESA_wf P k hk nonce secret si sr k' h
  exact ⟨e1 ▸ hk.encr, e2 ▸ hk.integ, e3 ▸ hk.prf, e4 ▸ hk.dh⟩

/-! ### `GenerateKeyForChildSA`: the nil tests -/

theorem GenerateKeyForChildSA_nilSa (P : Prims) (co : Option Gen.security.ChildSAKey) (nonce : Bytes) :
    Gen.security.ChildSAKey.GenerateKeyForChildSA P co none nonce = .err := rfl

theorem GenerateKeyForChildSA_nilChild (P : Prims) (ko : Option Gen.security.IKESAKey) (nonce : Bytes) :
    Gen.security.ChildSAKey.GenerateKeyForChildSA P none ko nonce = .err := by
  cases ko <;> rfl

theorem GenerateKeyForChildSA_noPrf (P : Prims) (c : Gen.security.ChildSAKey) (k : Gen.security.IKESAKey)
    (h : k.PrfInfo = .nil_) (nonce : Bytes) :
    Gen.security.ChildSAKey.GenerateKeyForChildSA P (some c) (some k) nonce = .err := by
  unfold Gen.security.ChildSAKey.GenerateKeyForChildSA
  simp only [Option.isNone_some, Option.getD_some, Bool.false_eq_true, if_false, h, if_true]

theorem GenerateKeyForChildSA_noEncr (P : Prims) (c : Gen.security.ChildSAKey) (k : Gen.security.IKESAKey)
    (h : c.EncrKInfo = .nil_) (nonce : Bytes) :
    Gen.security.ChildSAKey.GenerateKeyForChildSA P (some c) (some k) nonce = .err := by
  unfold Gen.security.ChildSAKey.GenerateKeyForChildSA
  simp only [Option.isNone_some, Option.getD_some, Bool.false_eq_true, if_false, h, if_true]
  split <;> rfl

theorem GenerateKeyForChildSA_nilPrf_d (P : Prims) (c : Gen.security.ChildSAKey) (k : Gen.security.IKESAKey)
    (h : Go.Mac.isNil k.Prf_d = true) (nonce : Bytes) :
    Gen.security.ChildSAKey.GenerateKeyForChildSA P (some c) (some k) nonce = .err := by
  unfold Gen.security.ChildSAKey.GenerateKeyForChildSA
  simp only [Option.isNone_some, Option.getD_some, Bool.false_eq_true, if_false, h, if_true]
  split
  · rfl
  · split <;> rfl

/-- all the nil tests of `GenerateKeyForChildSA` in one statement -/
theorem GenerateKeyForChildSA_missing (P : Prims) (co : Option Gen.security.ChildSAKey)
    (ko : Option Gen.security.IKESAKey) (nonce : Bytes)
    (h : co = none ∨ ko = none ∨ (∃ k, ko = some k ∧ (k.PrfInfo = .nil_ ∨ Go.Mac.isNil k.Prf_d = true)) ∨
      (∃ c, co = some c ∧ c.EncrKInfo = .nil_)) :
    Gen.security.ChildSAKey.GenerateKeyForChildSA P co ko nonce = .err := by
  rcases h with h | h | ⟨k, h, hk⟩ | ⟨c, h, hc⟩
  · subst h; exact GenerateKeyForChildSA_nilChild P ko nonce
  · subst h; exact GenerateKeyForChildSA_nilSa P co nonce
  · subst h
    cases co with
    | none => exact GenerateKeyForChildSA_nilChild P _ nonce
    | some c =>
      rcases hk with hk | hk
      · exact GenerateKeyForChildSA_noPrf P c k hk nonce
      · exact GenerateKeyForChildSA_nilPrf_d P c k hk nonce
  · subst h
    cases ko with
    | none => exact GenerateKeyForChildSA_nilSa P _ nonce
    | some k => exact GenerateKeyForChildSA_noEncr P c k hc nonce

/-! ### `GenerateKeyForChildSA` refines `genKeyForChildSA` -/

/-- Child SA encryption descriptor: not nil, key length not negative -/
def EncrKOk : Gen.encr.ENCRKType → Prop
  | .nil_ => False
  | .EncrAesCbc v => 0 ≤ v.keyLength

/-- Child SA integrity descriptor: nil (no integrity algorithm), or key length not negative -/
def IntegKOk : Gen.integ.INTEGKType → Prop
  | .nil_ => True
  | .AuthHmacMd5_95 v => 0 ≤ v.keyLength
  | .AuthHmacSha1_96 v => 0 ≤ v.keyLength
  | .AuthHmacSha2_256_128 v => 0 ≤ v.keyLength

theorem EncrKOk.ne_nil {e : Gen.encr.ENCRKType} (h : EncrKOk e) : e ≠ .nil_ := by
  intro e'; subst e'; exact h

theorem encrK_GetKeyLength (e : Gen.encr.ENCRKType) (h : EncrKOk e) :
    Gen.encr.ENCRKType.GetKeyLength e = .ok ((absEncrKLen e : Nat) : Int) := by
  cases e with
  | nil_ => exact h.elim
  | EncrAesCbc v =>
    simp only [EncrKOk] at h
    simp only [Gen.encr.ENCRKType.GetKeyLength, Gen.encr.EncrAesCbc.GetKeyLength, Res.bind_ok, absEncrKLen,
      Int.toNat_of_nonneg h]

theorem integK_GetKeyLength (i : Gen.integ.INTEGKType) (h : IntegKOk i) (hn : i ≠ .nil_) :
    ∃ n : Nat, absIntegKLen i = some n ∧ Gen.integ.INTEGKType.GetKeyLength i = .ok (n : Int) := by
  cases i with
  | nil_ => exact absurd rfl hn
  | AuthHmacMd5_95 v =>
    simp only [IntegKOk] at h
    exact ⟨_, rfl, by simp only [Gen.integ.INTEGKType.GetKeyLength, Gen.integ.AuthHmacMd5_95.GetKeyLength,
      Res.bind_ok, Int.toNat_of_nonneg h]⟩
  | AuthHmacSha1_96 v =>
    simp only [IntegKOk] at h
    exact ⟨_, rfl, by simp only [Gen.integ.INTEGKType.GetKeyLength, Gen.integ.AuthHmacSha1_96.GetKeyLength,
      Res.bind_ok, Int.toNat_of_nonneg h]⟩
  | AuthHmacSha2_256_128 v =>
    simp only [IntegKOk] at h
    exact ⟨_, rfl, by simp only [Gen.integ.INTEGKType.GetKeyLength, Gen.integ.AuthHmacSha2_256_128.GetKeyLength,
      Res.bind_ok, Int.toNat_of_nonneg h]⟩

/-- the part of `GenerateKeyForChildSA` after the two key lengths are known (the join point `jp10` of the
translation) -/
def childBody (P : Prims) (ikeSA : Gen.security.IKESAKey) (childsaKey : Gen.security.ChildSAKey)
    (concatenatedNonce : Bytes) (lengthEncryptionKeyIPSec lengthIntegrityKeyIPSec : Int) :
    Res (Gen.security.ChildSAKey × Gen.security.IKESAKey) :=
  (Gen.lib.PrfPlus P ikeSA.Prf_d concatenatedNonce
    ((lengthEncryptionKeyIPSec + lengthIntegrityKeyIPSec) * (2 : Int))) >>= fun t2 =>
  let ikeSA : Gen.security.IKESAKey := { ikeSA with Prf_d := t2.1 };
  let keyStream : Bytes := t2.2;
  if (keyStream = []) then Res.err
  else (
    (Go.sliceTo keyStream lengthEncryptionKeyIPSec) >>= fun t3 =>
    let childsaKey : Gen.security.ChildSAKey := { childsaKey with InitiatorToResponderEncryptionKey := (childsaKey.InitiatorToResponderEncryptionKey ++ t3) };
    (Go.sliceFrom keyStream lengthEncryptionKeyIPSec) >>= fun t4 =>
    let keyStream : Bytes := t4;
    (Go.sliceTo keyStream lengthIntegrityKeyIPSec) >>= fun t5 =>
    let childsaKey : Gen.security.ChildSAKey := { childsaKey with InitiatorToResponderIntegrityKey := (childsaKey.InitiatorToResponderIntegrityKey ++ t5) };
    (Go.sliceFrom keyStream lengthIntegrityKeyIPSec) >>= fun t6 =>
    let keyStream : Bytes := t6;
    (Go.sliceTo keyStream lengthEncryptionKeyIPSec) >>= fun t7 =>
    let childsaKey : Gen.security.ChildSAKey := { childsaKey with ResponderToInitiatorEncryptionKey := (childsaKey.ResponderToInitiatorEncryptionKey ++ t7) };
    (Go.sliceFrom keyStream lengthEncryptionKeyIPSec) >>= fun t8 =>
    let keyStream : Bytes := t8;
    (Go.sliceTo keyStream lengthIntegrityKeyIPSec) >>= fun t9 =>
    let childsaKey : Gen.security.ChildSAKey := { childsaKey with ResponderToInitiatorIntegrityKey := (childsaKey.ResponderToInitiatorIntegrityKey ++ t9) };
    Res.ok (childsaKey, ikeSA))

/-- `GenerateKeyForChildSA` past its nil tests -/
theorem GenerateKeyForChildSA_unfold (P : Prims) (k : Gen.security.IKESAKey) (c : Gen.security.ChildSAKey)
    (hprf : k.PrfInfo ≠ .nil_) (hd : Go.Mac.isNil k.Prf_d = false) (he : c.EncrKInfo ≠ .nil_) (nonce : Bytes) :
    Gen.security.ChildSAKey.GenerateKeyForChildSA P (some c) (some k) nonce =
      (Gen.encr.ENCRKType.GetKeyLength c.EncrKInfo) >>= fun lE =>
      if c.IntegKInfo ≠ .nil_ then
        (Gen.integ.INTEGKType.GetKeyLength c.IntegKInfo) >>= fun lA => childBody P k c nonce lE lA
      else childBody P k c nonce lE 0 := by
  unfold Gen.security.ChildSAKey.GenerateKeyForChildSA
  simp only [Option.isNone_some, Option.getD_some, Bool.false_eq_true, if_false]
  rw [if_neg hprf, if_neg he, if_neg (by rw [hd]; exact Bool.false_ne_true)]
  rfl

/-- the model's `genKeyForChildSA` for given key lengths -/
def childModel (P : Prims) (sa : SAKey) (c : ChildSAKey) (nonce : Bytes) (lE lA : Nat) : SAKey × Res ChildSAKey :=
  match prfPlus P sa.prf_d nonce ((lE + lA) * 2) with
  | (h, .err) => ({ sa with prf_d := h }, .err)
  | (h, .fault) => ({ sa with prf_d := h }, .fault)
  | (h, .ok keyStream) =>
    if keyStream.isEmpty then ({ sa with prf_d := h }, .err)
    else ({ sa with prf_d := h }, appendChildKeys c keyStream lE lA)

theorem genKeyForChildSA_eq (P : Prims) (sa : SAKey) (c : ChildSAKey) (nonce : Bytes) :
    genKeyForChildSA P sa c nonce =
      childModel P sa c nonce c.encrKeyLen (match c.integKeyLen with | some n => n | none => 0) := rfl

theorem childBody_refines (P : Prims) (hP : P.Lawful) (k : Gen.security.IKESAKey) (c : Gen.security.ChildSAKey)
    (nonce : Bytes) (lE lA : Nat) :
    (childBody P k c nonce (lE : Int) (lA : Int)).map (fun x => (absSa x.2, absChild x.1)) =
      (match childModel P (absSa k) (absChild c) nonce lE lA with
       | (sa', .ok c') => .ok (sa', c') | (_, .err) => .err | (_, .fault) => .fault) := by
  unfold childBody childModel
  have htot : (((lE : Int) + (lA : Int)) * 2) = (((lE + lA) * 2 : Nat) : Int) := by omega
  rw [htot]
  have hpp : (Gen.lib.PrfPlus P k.Prf_d nonce (((lE + lA) * 2 : Nat) : Int)).map (fun r => (absMac r.1, r.2)) =
      (match prfPlus P (absSa k).prf_d nonce ((lE + lA) * 2) with
        | (h, .ok b) => Res.ok (h, b) | (_, .err) => .err | (_, .fault) => .fault) :=
    RefineEap.PrfPlus_refines_lawful P hP _ _ _
  generalize prfPlus P (absSa k).prf_d nonce ((lE + lA) * 2) = m at hpp
  obtain ⟨h', res⟩ := m
  cases hg : Gen.lib.PrfPlus P k.Prf_d nonce (((lE + lA) * 2 : Nat) : Int) with
  | err =>
    rw [hg] at hpp
    cases res with
    | err => rfl
    | fault => cases hpp
    | ok b => cases hpp
  | fault =>
    rw [hg] at hpp
    cases res with
    | err => cases hpp
    | fault => rfl
    | ok b => cases hpp
  | ok r =>
    rw [hg] at hpp
    cases res with
    | err => cases hpp
    | fault => cases hpp
    | ok b =>
      simp only [map_ok', Res.ok.injEq, Prod.mk.injEq] at hpp
      obtain ⟨hh, hb⟩ := hpp
      subst hb
      simp only [Res.bind_ok, sliceTo_nat, sliceFrom_nat]
      by_cases hr : r.2 = []
      · have hr' : r.2.isEmpty = true := by rw [hr]; rfl
        rw [if_pos hr, if_pos hr']; rfl
      have hr' : ¬ (r.2.isEmpty = true) := by simpa using hr
      rw [if_neg hr, if_neg hr']
      unfold appendChildKeys
      generalize r.2 = ks
      cases goTo ks lE with
      | err => rfl
      | fault => rfl
      | ok t3 =>
      cases goFrom ks lE with
      | err => rfl
      | fault => rfl
      | ok t4 =>
      simp only [Res.bind_ok]
      cases goTo t4 lA with
      | err => rfl
      | fault => rfl
      | ok t5 =>
      cases goFrom t4 lA with
      | err => rfl
      | fault => rfl
      | ok t6 =>
      simp only [Res.bind_ok]
      cases goTo t6 lE with
      | err => rfl
      | fault => rfl
      | ok t7 =>
      cases goFrom t6 lE with
      | err => rfl
      | fault => rfl
      | ok t8 =>
      simp only [Res.bind_ok]
      cases goTo t8 lA with
      | err => rfl
      | fault => rfl
      | ok t9 =>
      simp only [Res.bind_ok, Res.pure_eq, map_ok']
      rw [← hh]
      rfl

theorem GenerateKeyForChildSA_refines_gen (P : Prims) (hP : P.Lawful) (k : Gen.security.IKESAKey)
    (c : Gen.security.ChildSAKey) (hprf : k.PrfInfo ≠ .nil_) (hd : Go.Mac.isNil k.Prf_d = false)
    (he : EncrKOk c.EncrKInfo) (hi : IntegKOk c.IntegKInfo) (nonce : Bytes) :
    (Gen.security.ChildSAKey.GenerateKeyForChildSA P (some c) (some k) nonce).map
        (fun x => (absSa x.2, absChild x.1)) =
      (match genKeyForChildSA P (absSa k) (absChild c) nonce with
       | (sa', .ok c') => .ok (sa', c') | (_, .err) => .err | (_, .fault) => .fault) := by
  rw [GenerateKeyForChildSA_unfold P k c hprf hd he.ne_nil, genKeyForChildSA_eq, encrK_GetKeyLength _ he]
  simp only [Res.bind_ok]
  by_cases hn : c.IntegKInfo = .nil_
  · rw [if_neg (by simpa using hn)]
    have e : absIntegKLen c.IntegKInfo = none := by rw [hn]; rfl
    show _ = (match childModel P (absSa k) (absChild c) nonce (absEncrKLen c.EncrKInfo)
      (match absIntegKLen c.IntegKInfo with | some n => n | none => 0) with
       | (sa', .ok c') => Res.ok (sa', c') | (_, .err) => .err | (_, .fault) => .fault)
    rw [e]
    exact childBody_refines P hP k c nonce (absEncrKLen c.EncrKInfo) 0
  · rw [if_pos hn]
    obtain ⟨n, e, hg⟩ := integK_GetKeyLength _ hi hn
    show _ = (match childModel P (absSa k) (absChild c) nonce (absEncrKLen c.EncrKInfo)
      (match absIntegKLen c.IntegKInfo with | some n => n | none => 0) with
       | (sa', .ok c') => Res.ok (sa', c') | (_, .err) => .err | (_, .fault) => .fault)
    rw [e, hg]
    exact childBody_refines P hP k c nonce (absEncrKLen c.EncrKInfo) n

theorem GenerateKeyForChildSA_refines (P : Prims) (hP : P.Lawful) (k : Gen.security.IKESAKey)
    (c : Gen.security.ChildSAKey) (hprf : k.PrfInfo ≠ .nil_) (hd : Go.Mac.isNil k.Prf_d = false)
    (he : c.EncrKInfo = .EncrAesCbc ⟨16⟩ ∨ c.EncrKInfo = .EncrAesCbc ⟨24⟩ ∨ c.EncrKInfo = .EncrAesCbc ⟨32⟩)
    (hi : c.IntegKInfo = .nil_ ∨ c.IntegKInfo = .AuthHmacMd5_95 ⟨16, 12⟩ ∨ c.IntegKInfo = .AuthHmacSha1_96 ⟨20, 12⟩ ∨
      c.IntegKInfo = .AuthHmacSha2_256_128 ⟨32, 16⟩)
    (nonce : Bytes) :
    (Gen.security.ChildSAKey.GenerateKeyForChildSA P (some c) (some k) nonce).map
        (fun x => (absSa x.2, absChild x.1)) =
      (match genKeyForChildSA P (absSa k) (absChild c) nonce with
       | (sa', .ok c') => .ok (sa', c') | (_, .err) => .err | (_, .fault) => .fault) := by
  have he' : EncrKOk c.EncrKInfo := by rcases he with he | he | he <;> rw [he] <;> simp [EncrKOk]
  have hi' : IntegKOk c.IntegKInfo := by rcases hi with hi | hi | hi | hi <;> rw [hi] <;> simp [IntegKOk]
  exact GenerateKeyForChildSA_refines_gen P hP k c hprf hd he' hi' nonce

/-! ### what `GenerateKeyForChildSA` leaves of the IKE SA object -/

/-- the loop of `PrfPlus` leaves hash and key of the object alone and never takes its `return nil` exit -/
theorem PrfPlus_loop1_frame (P : Prims) (s : Bytes) (n : Int) :
    ∀ (fuel : Nat) (prf : Go.Mac) (stream block : Bytes) (i : Nat)
      (r : Sum (Go.Mac × Bytes × Bytes × Nat) (Go.Mac × Bytes)),
      Gen.lib.PrfPlus.loop1 P fuel s n prf stream block i = .ok r →
      ∃ st, r = Sum.inl st ∧ st.1.h = prf.h ∧ st.1.key = prf.key := by
  intro fuel
  induction fuel with
  | zero => intro prf stream block i r h; cases h
  | succ f ih =>
    intro prf stream block i r h
    unfold Gen.lib.PrfPlus.loop1 at h
    split at h
    · simp only [Bool.false_eq_true, if_false] at h
      cases hs : Go.sliceFrom (Go.Mac.sum P (Go.Mac.write (Go.Mac.reset prf) (block ++ s ++ [UInt8.ofNat i])) stream)
          (((Go.Mac.sum P (Go.Mac.write (Go.Mac.reset prf) (block ++ s ++ [UInt8.ofNat i])) stream).length : Int) -
            ((Go.Mac.size P (Go.Mac.write (Go.Mac.reset prf) (block ++ s ++ [UInt8.ofNat i])) : Nat) : Int)) with
      | err => rw [hs] at h; cases h
      | fault => rw [hs] at h; cases h
      | ok t =>
        rw [hs] at h
        simp only [Res.bind_ok] at h
        obtain ⟨st, e, h1, h2⟩ := ih _ _ _ _ r h
        exact ⟨st, e, h1, h2⟩
    · cases h
      exact ⟨_, rfl, rfl, rfl⟩

/-- `lib.PrfPlus` changes only the write buffer of the hash object -/
theorem PrfPlus_frame (P : Prims) (prf : Go.Mac) (s : Bytes) (n : Int) (r : Go.Mac × Bytes)
    (h : Gen.lib.PrfPlus P prf s n = .ok r) : r.1.h = prf.h ∧ r.1.key = prf.key := by
  unfold Gen.lib.PrfPlus at h
  simp only [] at h
  cases hl : Gen.lib.PrfPlus.loop1 P ((n - (([] : Bytes).length : Int)).toNat + 2) s n prf [] [] 1 with
  | err => rw [hl] at h; cases h
  | fault => rw [hl] at h; cases h
  | ok st =>
    rw [hl] at h
    obtain ⟨st', e, h1, h2⟩ := PrfPlus_loop1_frame P s n _ prf [] [] 1 st hl
    subst e
    simp only [Res.bind_ok] at h
    cases hs : Go.sliceTo st'.2.1 n with
    | err => rw [hs] at h; cases h
    | fault => rw [hs] at h; cases h
    | ok t =>
      rw [hs] at h
      simp only [Res.bind_ok, Res.ok.injEq] at h
      subst h
      exact ⟨h1, h2⟩

theorem childBody_frame (P : Prims) (k : Gen.security.IKESAKey) (c : Gen.security.ChildSAKey) (nonce : Bytes)
    (lE lA : Int) (c' : Gen.security.ChildSAKey) (k' : Gen.security.IKESAKey)
    (h : childBody P k c nonce lE lA = .ok (c', k')) :
    k' = { k with Prf_d := k'.Prf_d } ∧ k'.Prf_d.h = k.Prf_d.h ∧ k'.Prf_d.key = k.Prf_d.key ∧
      c'.SPI = c.SPI ∧ c'.DhInfo = c.DhInfo ∧ c'.EncrKInfo = c.EncrKInfo ∧ c'.IntegKInfo = c.IntegKInfo ∧
      c'.EsnInfo = c.EsnInfo := by
  unfold childBody at h
  cases hg : Gen.lib.PrfPlus P k.Prf_d nonce ((lE + lA) * 2) with
  | err => rw [hg] at h; cases h
  | fault => rw [hg] at h; cases h
  | ok r =>
    obtain ⟨f1, f2⟩ := PrfPlus_frame P _ _ _ r hg
    rw [hg] at h
    simp only [Res.bind_ok] at h
    split at h
    · cases h
    generalize r.2 = ks at h
    cases h3 : Go.sliceTo ks lE with
    | err => rw [h3] at h; cases h
    | fault => rw [h3] at h; cases h
    | ok t3 =>
    cases h4 : Go.sliceFrom ks lE with
    | err => rw [h3, h4] at h; cases h
    | fault => rw [h3, h4] at h; cases h
    | ok t4 =>
    rw [h3, h4] at h
    simp only [Res.bind_ok] at h
    cases h5 : Go.sliceTo t4 lA with
    | err => rw [h5] at h; cases h
    | fault => rw [h5] at h; cases h
    | ok t5 =>
    cases h6 : Go.sliceFrom t4 lA with
    | err => rw [h5, h6] at h; cases h
    | fault => rw [h5, h6] at h; cases h
    | ok t6 =>
    rw [h5, h6] at h
    simp only [Res.bind_ok] at h
    cases h7 : Go.sliceTo t6 lE with
    | err => rw [h7] at h; cases h
    | fault => rw [h7] at h; cases h
    | ok t7 =>
    cases h8 : Go.sliceFrom t6 lE with
    | err => rw [h7, h8] at h; cases h
    | fault => rw [h7, h8] at h; cases h
    | ok t8 =>
    rw [h7, h8] at h
    simp only [Res.bind_ok] at h
    cases h9 : Go.sliceTo t8 lA with
    | err => rw [h9] at h; cases h
    | fault => rw [h9] at h; cases h
    | ok t9 =>
    rw [h9] at h
    simp only [Res.bind_ok, Res.ok.injEq, Prod.mk.injEq] at h
    obtain ⟨hc, hk⟩ := h
    subst hc hk
    exact ⟨rfl, f1, f2, rfl, rfl, rfl, rfl, rfl⟩

/-- a successful `GenerateKeyForChildSA` is a run of its body (no hypothesis on the descriptors) -/
theorem GenerateKeyForChildSA_ok_body (P : Prims) (k : Gen.security.IKESAKey) (c : Gen.security.ChildSAKey)
    (nonce : Bytes) (c' : Gen.security.ChildSAKey) (k' : Gen.security.IKESAKey)
    (h : Gen.security.ChildSAKey.GenerateKeyForChildSA P (some c) (some k) nonce = .ok (c', k')) :
    ∃ lE lA, childBody P k c nonce lE lA = .ok (c', k') := by
  by_cases hprf : k.PrfInfo = .nil_
  · rw [GenerateKeyForChildSA_noPrf P c k hprf] at h; cases h
  by_cases he : c.EncrKInfo = .nil_
  · rw [GenerateKeyForChildSA_noEncr P c k he] at h; cases h
  cases hd : Go.Mac.isNil k.Prf_d with
  | true => rw [GenerateKeyForChildSA_nilPrf_d P c k hd] at h; cases h
  | false =>
    rw [GenerateKeyForChildSA_unfold P k c hprf hd he] at h
    cases hE : Gen.encr.ENCRKType.GetKeyLength c.EncrKInfo with
    | err => rw [hE] at h; cases h
    | fault => rw [hE] at h; cases h
    | ok lE =>
      rw [hE] at h
      simp only [Res.bind_ok] at h
      split at h
      · cases hA : Gen.integ.INTEGKType.GetKeyLength c.IntegKInfo with
        | err => rw [hA] at h; cases h
        | fault => rw [hA] at h; cases h
        | ok lA =>
          rw [hA] at h
          exact ⟨lE, lA, h⟩
      · exact ⟨lE, 0, h⟩

/-- the call changes nothing of the IKE SA object but the write buffer of `Prf_d`, and nothing of the Child SA
object but the four keys (for every input) -/
theorem GenerateKeyForChildSA_frame (P : Prims) (k : Gen.security.IKESAKey) (c : Gen.security.ChildSAKey)
    (nonce : Bytes) (c' : Gen.security.ChildSAKey) (k' : Gen.security.IKESAKey)
    (h : Gen.security.ChildSAKey.GenerateKeyForChildSA P (some c) (some k) nonce = .ok (c', k')) :
    k' = { k with Prf_d := k'.Prf_d } ∧ k'.Prf_d.h = k.Prf_d.h ∧ k'.Prf_d.key = k.Prf_d.key := by
  obtain ⟨lE, lA, hb⟩ := GenerateKeyForChildSA_ok_body P k c nonce c' k' h
  obtain ⟨h1, h2, h3, _⟩ := childBody_frame P k c nonce lE lA c' k' hb
  exact ⟨h1, h2, h3⟩

theorem GenerateKeyForChildSA_frame_child (P : Prims) (k : Gen.security.IKESAKey) (c : Gen.security.ChildSAKey)
    (nonce : Bytes) (c' : Gen.security.ChildSAKey) (k' : Gen.security.IKESAKey)
    (h : Gen.security.ChildSAKey.GenerateKeyForChildSA P (some c) (some k) nonce = .ok (c', k')) :
    c'.SPI = c.SPI ∧ c'.DhInfo = c.DhInfo ∧ c'.EncrKInfo = c.EncrKInfo ∧ c'.IntegKInfo = c.IntegKInfo ∧
      c'.EsnInfo = c.EsnInfo := by
  obtain ⟨lE, lA, hb⟩ := GenerateKeyForChildSA_ok_body P k c nonce c' k' h
  obtain ⟨_, _, _, h4⟩ := childBody_frame P k c nonce lE lA c' k' hb
  exact h4

theorem GenerateKeyForChildSA_wf (P : Prims) (k : Gen.security.IKESAKey) (c : Gen.security.ChildSAKey)
    (nonce : Bytes) (c' : Gen.security.ChildSAKey) (k' : Gen.security.IKESAKey)
    (h : Gen.security.ChildSAKey.GenerateKeyForChildSA P (some c) (some k) nonce = .ok (c', k'))
    (hwf : SaWF k) : SaWF k' := by
  obtain ⟨h1, h2, _⟩ := GenerateKeyForChildSA_frame P k c nonce c' k' h
  rw [h1]
  obtain ⟨w1, w2, w3, w4, w5, w6, w7, w8⟩ := hwf
  refine ⟨w1, w2, w3, w4, w5, ?_, w7, w8⟩
  show Go.Mac.isNil k'.Prf_d = false
  unfold Go.Mac.isNil at w6 ⊢
  rw [h2]; exact w6

/-! ### why the hypotheses on the descriptors cannot be dropped

`SaDescOk` (and so `SaRegistered`) asks more than "not nil"; each extra clause is needed, even for lawful
primitives.  The descriptors below are values of the Go types that no registry hands out. -/

/-- lawful primitives: the MAC is 40 octets of `1`, the block cipher the identity -/
def flatPrims : Prims := ⟨fun _ _ _ => List.replicate 40 1, fun _ => 40, fun _ b => b, fun _ b => b⟩
theorem flatPrims_lawful : flatPrims.Lawful := ⟨fun _ _ _ => rfl, fun _ _ h => h, fun _ _ h => h, fun _ _ _ => rfl⟩

/-- an integrity descriptor whose `keyLength` field (1) is not the constant (16) that its `Init` compares with -/
def badIntegSa : Gen.security.IKESAKey :=
  { DhInfo := someDh, EncrInfo := .EncrAesCbc ⟨16⟩, IntegInfo := .AuthHmacMd5_95 ⟨1, 12⟩, PrfInfo := .PrfHmacMd5 ⟨0, 16⟩ }

set_option maxRecDepth 100000 in
/-- the translated code succeeds and stores the nil `hash.Hash` in `Integ_i`; the model (whose `init` compares with the
descriptor's own key length) succeeds with a real object: the two results differ -/
theorem GenerateKeyForIKESA_needs_integLen :
    (Gen.security.IKESAKey.GenerateKeyForIKESA flatPrims (some badIntegSa) [1] [1] 0 0).map
        (fun k => Go.Mac.isNil k.Integ_i) = .ok true ∧
      (genKeyForIKESA flatPrims (absSa badIntegSa) [1] [1] 0 0).2 = .ok () ∧
      (genKeyForIKESA flatPrims (absSa badIntegSa) [1] [1] 0 0).1.integ_i.alg = 0 := by decide

/-- a PRF descriptor with a negative key length -/
def negPrfSa : Gen.security.IKESAKey :=
  { DhInfo := someDh, EncrInfo := .EncrAesCbc ⟨16⟩, IntegInfo := .AuthHmacMd5_95 ⟨16, 12⟩, PrfInfo := .PrfHmacMd5 ⟨-1, 16⟩ }

set_option maxRecDepth 100000 in
/-- the translated code panics in `keyStream[:length_SK_d]`; the model (natural-number lengths) succeeds -/
theorem GenerateKeyForIKESA_needs_prfLen_nonneg :
    Gen.security.IKESAKey.GenerateKeyForIKESA flatPrims (some negPrfSa) [1] [1] 0 0 = .fault ∧
      (genKeyForIKESA flatPrims (absSa negPrfSa) [1] [1] 0 0).2 = .ok () := by decide

/-- an encryption descriptor with a key length AES does not have -/
def badEncrSa : Gen.security.IKESAKey :=
  { DhInfo := someDh, EncrInfo := .EncrAesCbc ⟨5⟩, IntegInfo := .AuthHmacMd5_95 ⟨16, 12⟩, PrfInfo := .PrfHmacMd5 ⟨16, 16⟩ }

set_option maxRecDepth 100000 in
/-- the translated code fails in `aes.NewCipher`; the model's `newCrypto` only compares lengths and succeeds -/
theorem GenerateKeyForIKESA_needs_encrLen :
    Gen.security.IKESAKey.GenerateKeyForIKESA flatPrims (some badEncrSa) [1] [1] 0 0 = .err ∧
      (genKeyForIKESA flatPrims (absSa badEncrSa) [1] [1] 0 0).2 = .ok () := by decide

/-- a Child SA encryption descriptor with a negative key length -/
def negEncrChild : Gen.security.ChildSAKey := { EncrKInfo := .EncrAesCbc ⟨-1⟩ }

set_option maxRecDepth 100000 in
/-- the translated code panics (`stream[:streamLen]` with a negative length); the model returns an error -/
theorem GenerateKeyForChildSA_needs_encrLen_nonneg :
    Gen.security.ChildSAKey.GenerateKeyForChildSA flatPrims (some negEncrChild)
        (some { PrfInfo := .PrfHmacMd5 ⟨16, 16⟩, Prf_d := Go.Mac.new 0 [1] }) [1] = .fault ∧
      (genKeyForChildSA flatPrims (absSa { PrfInfo := .PrfHmacMd5 ⟨16, 16⟩, Prf_d := Go.Mac.new 0 [1] })
        (absChild negEncrChild) [1]).2 = .err := by decide

/-- without `hd`: a nil `Prf_d` is an error in the translated code, while the model (no nil objects) goes on -/
theorem GenerateKeyForChildSA_needs_prf_d :
    Gen.security.ChildSAKey.GenerateKeyForChildSA flatPrims (some { EncrKInfo := .EncrAesCbc ⟨16⟩ })
        (some { PrfInfo := .PrfHmacMd5 ⟨16, 16⟩ }) [1] = .err ∧
      (genKeyForChildSA flatPrims (absSa { PrfInfo := .PrfHmacMd5 ⟨16, 16⟩ })
        (absChild { EncrKInfo := .EncrAesCbc ⟨16⟩ }) [1]).2.isOk = true := by decide

end Ike.RefineSa
