import IkeModel.GenAbs
import IkeModel.Message.Chain
import IkeProofs.Lemmas.Bytes

/-! Helper lemmas for the refinement proofs `generated code ⊑ hand-written model`
(`IkeProofs/Refine/*`): the GoRt primitives the translator emits, rewritten into the GoSem
primitives the hand-written model uses. -/

set_option linter.unusedSimpArgs false

namespace Ike.Refine
open Ike

@[simp] theorem map_ok' {α β : Type} (f : α → β) (a : α) : (Res.ok a).map f = Res.ok (f a) := rfl
@[simp] theorem map_err' {α β : Type} (f : α → β) : (Res.err : Res α).map f = Res.err := rfl
@[simp] theorem map_fault' {α β : Type} (f : α → β) : (Res.fault : Res α).map f = Res.fault := rfl
theorem take_drop_byteAt (b : Bytes) (lo k n : Nat) (h : k < n) :
    byteAt ((b.take (lo + n)).drop lo) k = byteAt b (lo + k) := by
  unfold byteAt
  rw [List.getD_eq_getElem?_getD, List.getD_eq_getElem?_getD, List.getElem?_drop, List.getElem?_take]
  have : lo + k < lo + n := by omega
  simp [this]

theorem u16At_eq (b : Bytes) (lo hi : Nat) (h : hi = lo + 2) : Go.u16At b lo hi = goU16 b lo := by
  subst h
  unfold Go.u16At goSlice goU16 Go.beU16
  by_cases hl : lo + 2 ≤ b.length
  · have h1 : lo ≤ lo + 2 ∧ lo + 2 ≤ b.length := ⟨by omega, hl⟩
    have h2 : 2 ≤ ((b.take (lo + 2)).drop lo).length := by simp; omega
    simp only [h1, and_self, if_true, hl, Res.bind_ok, h2]
    rw [take_drop_byteAt b lo 0 2 (by omega), take_drop_byteAt b lo 1 2 (by omega)]
    rfl
  · have : ¬ (lo ≤ lo + 2 ∧ lo + 2 ≤ b.length) := by omega
    simp [this, hl]

theorem u32At_eq (b : Bytes) (lo hi : Nat) (h : hi = lo + 4) : Go.u32At b lo hi = goU32 b lo := by
  subst h
  unfold Go.u32At goSlice goU32 Go.beU32
  by_cases hl : lo + 4 ≤ b.length
  · have h1 : lo ≤ lo + 4 ∧ lo + 4 ≤ b.length := ⟨by omega, hl⟩
    have h2 : 4 ≤ ((b.take (lo + 4)).drop lo).length := by simp; omega
    simp only [h1, and_self, if_true, hl, Res.bind_ok, h2]
    rw [take_drop_byteAt b lo 0 4 (by omega), take_drop_byteAt b lo 1 4 (by omega),
      take_drop_byteAt b lo 2 4 (by omega), take_drop_byteAt b lo 3 4 (by omega)]
    rfl
  · have : ¬ (lo ≤ lo + 4 ∧ lo + 4 ≤ b.length) := by omega
    simp [this, hl]

end Ike.Refine
