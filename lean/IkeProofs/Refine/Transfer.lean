import IkeProofs.Refine.Glue

/-! The library functions as translated from the current source, seen through the abstraction:
`genDecode` / `genEncode` are `message.(*IKEMessage).Decode / Encode` of `Gen_message.lean`.
By the refinement theorems they ARE the model's `decodeMsg` / `encodeMsg`; every property
theorem about the model is restated over them in `Theorems/CxxGen.lean`. -/

namespace Ike.Refine
open Ike Ike.Gen.message

/-- `new(IKEMessage).Decode(b)` of the generated code; `none` would be a nil interface in the payload list -/
def genDecode (b : Bytes) : Res (Option Msg) := (IKEMessage.Decode {} b).map GenAbs.absMsg

/-- `m.Encode()` of the generated code: the datagram and the header as updated by the call -/
def genEncode (m : Msg) : Res (Bytes × Header) :=
  (IKEMessage.Encode (GenAbs.repMsg m)).map (fun r => (r.2, GenAbs.absHeader r.1.IKEHeader))

/-- `container.Decode(t, b)` of the generated code on an empty container -/
def genDecodeChain (t : UInt8) (b : Bytes) : Res (Option (List Payload)) :=
  (IKEPayloadContainer.Decode [] t b).map GenAbs.absPayloads

theorem genDecode_eq (b : Bytes) : genDecode b = (decodeMsg b).map some := Gen_Decode_msg b
theorem genEncode_eq (m : Msg) : genEncode m = encodeMsg m := Gen_Encode_msg m
theorem genDecodeChain_eq (t : UInt8) (b : Bytes) : genDecodeChain t b = (decodeChain t b).map some := Gen_Decode_chain t b

theorem genDecode_ok {b : Bytes} {m : Msg} : genDecode b = .ok (some m) ↔ decodeMsg b = .ok m := by
  rw [genDecode_eq]; cases decodeMsg b <;> simp [Res.map]

theorem map_ne_fault {α β : Type} {x : Res α} {f : α → β} (h : x.map f ≠ .fault) : x ≠ .fault := by
  intro e; rw [e] at h; exact h rfl

theorem map_some_ne_fault {α : Type} {x : Res α} (h : x ≠ .fault) : x.map some ≠ .fault := by
  cases x <;> simp_all [Res.map]

end Ike.Refine
