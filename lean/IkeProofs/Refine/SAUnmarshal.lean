import IkeProofs.Refine.Basic
import IkeProofs.Lemmas.NoFault

/-! `message.(*SecurityAssociation).Unmarshal` as generated ⊑ `unmarshalSA`. -/

set_option linter.unusedSimpArgs false

namespace Ike.Refine
open Ike Ike.Gen.message

/-- the generated `switch transform.TransformType` as a function -/
private def SA_fileG (p : Gen.message.Proposal) (t : Gen.message.Transform) : Gen.message.Proposal :=
  if t.TransformType = (1 : UInt8) then { p with EncryptionAlgorithm := p.EncryptionAlgorithm ++ [t] }
  else if t.TransformType = (2 : UInt8) then { p with PseudorandomFunction := p.PseudorandomFunction ++ [t] }
  else if t.TransformType = (3 : UInt8) then { p with IntegrityAlgorithm := p.IntegrityAlgorithm ++ [t] }
  else if t.TransformType = (4 : UInt8) then { p with DiffieHellmanGroup := p.DiffieHellmanGroup ++ [t] }
  else if t.TransformType = (5 : UInt8) then { p with ExtendedSequenceNumbers := p.ExtendedSequenceNumbers ++ [t] }
  else p

private theorem SA_switch_fileG {α : Type} (k : Gen.message.Proposal → α) (p : Gen.message.Proposal)
    (t : Gen.message.Transform) :
    (if t.TransformType = (1 : UInt8) then k { p with EncryptionAlgorithm := p.EncryptionAlgorithm ++ [t] }
     else if t.TransformType = (2 : UInt8) then k { p with PseudorandomFunction := p.PseudorandomFunction ++ [t] }
     else if t.TransformType = (3 : UInt8) then k { p with IntegrityAlgorithm := p.IntegrityAlgorithm ++ [t] }
     else if t.TransformType = (4 : UInt8) then k { p with DiffieHellmanGroup := p.DiffieHellmanGroup ++ [t] }
     else if t.TransformType = (5 : UInt8) then k { p with ExtendedSequenceNumbers := p.ExtendedSequenceNumbers ++ [t] }
     else k p) = k (SA_fileG p t) := by
  unfold SA_fileG
  repeat' split
  all_goals rfl

private theorem SA_absProposal_fileG (p : Gen.message.Proposal) (t : Gen.message.Transform) :
    GenAbs.absProposal (SA_fileG p t) = (GenAbs.absProposal p).file (GenAbs.absTransform t) := by
  unfold SA_fileG Proposal.file
  have ht : (GenAbs.absTransform t).ttype = t.TransformType := rfl
  simp only [ht, Facts.ttEncr, Facts.ttPrf, Facts.ttInteg, Facts.ttDh, Facts.ttEsn, beq_iff_eq]
  repeat' split
  all_goals simp [GenAbs.absProposal, List.map_append]

private theorem SA_absTransform_repTransform (t : Transform) : GenAbs.absTransform (GenAbs.repTransform t) = t := rfl


/-- one iteration of the transform loop, in terms of the model's `parseTransform` -/
private theorem SA_loop2_succ (fuel : Nat) (p : Gen.message.Proposal) (td : Bytes) (h8 : 8 ≤ td.length) :
    SecurityAssociation.Unmarshal.loop2 (fuel + 1) p td =
      match parseTransform td with
      | .ok (t, n) => goFrom td n >>= fun d =>
          SecurityAssociation.Unmarshal.loop2 fuel (SA_fileG p (GenAbs.repTransform t)) d
      | .err => .err
      | .fault => .fault := by
  have hpos : td.length > 0 := by omega
  have hn8 : ¬ td.length < 8 := by omega
  rw [SecurityAssociation.Unmarshal.loop2]
  simp only [hpos, hn8, if_true, if_false]
  unfold parseTransform
  simp only [u16At_eq _ 2 4 rfl, u16At_eq _ 6 8 rfl, u16At_eq _ 8 10 rfl, u16At_eq _ 10 12 rfl]
  cases goU16 td 2 with
  | err => rfl
  | fault => rfl
  | ok tl =>
    simp only [Res.bind_ok]
    by_cases h1 : tl < 8
    · simp only [h1, if_true]
    · simp only [h1, if_false]
      by_cases h2 : td.length < tl.toNat
      · simp only [h2, if_true]
      · simp only [h2, if_false]
        cases goIndex td 4 with
        | err => rfl
        | fault => rfl
        | ok ttype =>
          simp only [Res.bind_ok]
          cases goU16 td 6 with
          | err => rfl
          | fault => rfl
          | ok tid =>
            simp only [Res.bind_ok]
            by_cases h3 : tl > 8
            · simp only [h3, if_true]
              by_cases h4 : tl < 12
              · simp only [h4, if_true]
              · simp only [h4, if_false]
                cases goIndex td 8 with
                | err => rfl
                | fault => rfl
                | ok b8 =>
                  simp only [Res.bind_ok]
                  cases goU16 td 8 with
                  | err => rfl
                  | fault => rfl
                  | ok ft =>
                    simp only [Res.bind_ok]
                    by_cases h5 : (b8 &&& 128) >>> 7 = 0
                    · have h5' : ((b8 &&& 128) >>> 7 == 0) = true := by simp [h5]
                      rw [if_pos h5, if_pos h5']
                      cases goU16 td 10 with
                      | err => rfl
                      | fault => rfl
                      | ok al =>
                        simp only [Res.bind_ok]
                        by_cases h6 : 12 + al = tl
                        · have h6' : ¬ (12 + al != tl) = true := by simp [h6]
                          have h6'' : ¬ (12 + al ≠ tl) := by simp [h6]
                          rw [if_neg h6', if_neg h6'']
                          cases goSlice td 12 tl.toNat with
                          | err => rfl
                          | fault => rfl
                          | ok v =>
                            simp only [Res.bind_ok]
                            exact SA_switch_fileG (fun q => goFrom td tl.toNat >>= fun d =>
                              SecurityAssociation.Unmarshal.loop2 fuel q d) p
                              { TransformType := ttype, TransformID := tid, AttributePresent := true,
                                AttributeFormat := (b8 &&& 128) >>> 7, AttributeType := ft &&& 32767,
                                VariableLengthAttributeValue := v }
                        · have h6' : (12 + al != tl) = true := by simp [h6]
                          rw [if_pos h6', if_pos h6]
                    · have h5' : ¬ ((b8 &&& 128) >>> 7 == 0) = true := by simp [h5]
                      rw [if_neg h5, if_neg h5']
                      cases goU16 td 10 with
                      | err => rfl
                      | fault => rfl
                      | ok av =>
                        simp only [Res.bind_ok]
                        exact SA_switch_fileG (fun q => goFrom td tl.toNat >>= fun d =>
                          SecurityAssociation.Unmarshal.loop2 fuel q d) p
                          { TransformType := ttype, TransformID := tid, AttributePresent := true,
                            AttributeFormat := (b8 &&& 128) >>> 7, AttributeType := ft &&& 32767,
                            AttributeValue := av }
            · simp only [h3, if_false]
              exact SA_switch_fileG (fun q => goFrom td tl.toNat >>= fun d =>
                SecurityAssociation.Unmarshal.loop2 fuel q d) p
                { TransformType := ttype, TransformID := tid }


private theorem SA_loop2_done (fuel : Nat) (p : Gen.message.Proposal) (td : Bytes) (h0 : td.length = 0) :
    SecurityAssociation.Unmarshal.loop2 (fuel + 1) p td = .ok (p, td) := by
  rw [SecurityAssociation.Unmarshal.loop2]
  simp [h0]

private theorem SA_loop2_short (fuel : Nat) (p : Gen.message.Proposal) (td : Bytes) (h0 : td.length ≠ 0)
    (h8 : td.length < 8) : SecurityAssociation.Unmarshal.loop2 (fuel + 1) p td = .err := by
  rw [SecurityAssociation.Unmarshal.loop2]
  have hpos : td.length > 0 := by omega
  simp only [hpos, h8, if_true]

/-- (1) the transform loop -/
theorem SA_loop2_refines : ∀ (fuel : Nat) (p : Gen.message.Proposal) (td : Bytes), td.length < fuel →
    (SecurityAssociation.Unmarshal.loop2 fuel p td).map (fun r => GenAbs.absProposal r.1) =
      unmarshalTransforms td (GenAbs.absProposal p) := by
  intro fuel
  induction fuel with
  | zero => intro p td h; omega
  | succ fuel ih =>
    intro p td hf
    rw [unmarshalTransforms]
    by_cases h0 : td.length = 0
    · rw [SA_loop2_done fuel p td h0]
      simp only [h0, dite_true, map_ok']
    · by_cases h8 : td.length < 8
      · rw [SA_loop2_short fuel p td h0 h8]
        simp only [h0, dite_false, h8, if_true, map_err']
      · rw [SA_loop2_succ fuel p td (by omega)]
        simp only [h0, dite_false, h8, if_false]
        cases hp : parseTransform td with
        | err => simp
        | fault => simp
        | ok r =>
          obtain ⟨t, n⟩ := r
          have hl := parseTransform_len td (by omega) t n hp
          have hg : goFrom td n = .ok (td.drop n) := by simp [goFrom, hl.2]
          simp only [hl, and_self, dite_true, hg, Res.bind_ok]
          rw [ih _ _ (by simp only [List.length_drop]; omega), SA_absProposal_fileG,
            SA_absTransform_repTransform]


/-- one proposal at the front of `b`, as the generated proposal loop decodes it -/
private def SA_gParseProposal (b : Bytes) : Res (Gen.message.Proposal × Nat) :=
  goU16 b 2 >>= fun pl =>
  if pl < 8 then .err else
  if b.length < pl.toNat then .err else
    goIndex b 4 >>= fun num =>
    goIndex b 5 >>= fun proto =>
    goIndex b 6 >>= fun s =>
    (if s.toNat > 0 then
        if pl.toNat < 8 + s.toNat then (.err : Res Bytes) else goSlice b 8 (8 + s.toNat)
      else .ok []) >>= fun spi =>
    goSlice b (8 + s.toNat) pl.toNat >>= fun td =>
    SecurityAssociation.Unmarshal.loop2 (td.length + 1)
      { ProposalNumber := num, ProtocolID := proto, SPI := spi } td >>= fun r =>
    .ok (r.1, pl.toNat)

private theorem SA_loop1_succ (fuel : Nat) (sa : Gen.message.SecurityAssociation) (b : Bytes) (h8 : 8 ≤ b.length) :
    SecurityAssociation.Unmarshal.loop1 (fuel + 1) sa b =
      match SA_gParseProposal b with
      | .ok (p, n) => goFrom b n >>= fun d =>
          SecurityAssociation.Unmarshal.loop1 fuel { sa with Proposals := sa.Proposals ++ [p] } d
      | .err => .err
      | .fault => .fault := by
  have hpos : b.length > 0 := by omega
  have hn8 : ¬ b.length < 8 := by omega
  rw [SecurityAssociation.Unmarshal.loop1]
  simp only [hpos, hn8, if_true, if_false]
  unfold SA_gParseProposal
  simp only [u16At_eq _ 2 4 rfl]
  cases goU16 b 2 with
  | err => rfl
  | fault => rfl
  | ok pl =>
    simp only [Res.bind_ok]
    by_cases h1 : pl < 8
    · simp only [h1, if_true]
    · simp only [h1, if_false]
      by_cases h2 : b.length < pl.toNat
      · simp only [h2, if_true]
      · simp only [h2, if_false]
        cases goIndex b 4 with
        | err => rfl
        | fault => rfl
        | ok num =>
          simp only [Res.bind_ok]
          cases goIndex b 5 with
          | err => rfl
          | fault => rfl
          | ok proto =>
            simp only [Res.bind_ok]
            cases goIndex b 6 with
            | err => rfl
            | fault => rfl
            | ok s =>
              simp only [Res.bind_ok]
              by_cases h3 : s.toNat > 0
              · simp only [h3, if_true]
                by_cases h4 : pl.toNat < 8 + s.toNat
                · simp only [h4, if_true, Res.bind_err]
                · simp only [h4, if_false]
                  cases goSlice b 8 (8 + s.toNat) with
                  | err => rfl
                  | fault => rfl
                  | ok spi =>
                    simp only [Res.bind_ok, List.nil_append]
                    cases goSlice b (8 + s.toNat) pl.toNat with
                    | err => rfl
                    | fault => rfl
                    | ok td =>
                      simp only [Res.bind_ok]
                      cases SecurityAssociation.Unmarshal.loop2 (td.length + 1)
                          { ProposalNumber := num, ProtocolID := proto, SPI := spi } td with
                      | err => rfl
                      | fault => rfl
                      | ok r => rfl
              · simp only [h3, if_false, Res.bind_ok]
                cases goSlice b (8 + s.toNat) pl.toNat with
                | err => rfl
                | fault => rfl
                | ok td =>
                  simp only [Res.bind_ok]
                  cases SecurityAssociation.Unmarshal.loop2 (td.length + 1)
                      { ProposalNumber := num, ProtocolID := proto } td with
                  | err => rfl
                  | fault => rfl
                  | ok r => rfl


private theorem SA_gParseProposal_tail (b : Bytes) (num proto : UInt8) (spi : Bytes) (lo n : Nat) :
    (goSlice b lo n >>= fun td =>
      SecurityAssociation.Unmarshal.loop2 (td.length + 1)
        { ProposalNumber := num, ProtocolID := proto, SPI := spi } td >>= fun r =>
      (.ok (r.1, n) : Res (Gen.message.Proposal × Nat))).map (fun r => (GenAbs.absProposal r.1, r.2)) =
    (goSlice b lo n >>= fun td =>
      unmarshalTransforms td ⟨num, proto, spi, [], [], [], [], []⟩ >>= fun p => .ok (p, n)) := by
  cases goSlice b lo n with
  | err => rfl
  | fault => rfl
  | ok td =>
    simp only [Res.bind_ok]
    have h := SA_loop2_refines (td.length + 1)
      { ProposalNumber := num, ProtocolID := proto, SPI := spi } td (by omega)
    have ha : GenAbs.absProposal { ProposalNumber := num, ProtocolID := proto, SPI := spi } =
        ⟨num, proto, spi, [], [], [], [], []⟩ := rfl
    rw [ha] at h
    rw [← h]
    cases SecurityAssociation.Unmarshal.loop2 (td.length + 1)
        { ProposalNumber := num, ProtocolID := proto, SPI := spi } td with
    | err => rfl
    | fault => rfl
    | ok r => rfl

theorem SA_gParseProposal_refines (b : Bytes) :
    (SA_gParseProposal b).map (fun r => (GenAbs.absProposal r.1, r.2)) = parseProposal b := by
  unfold SA_gParseProposal parseProposal
  cases goU16 b 2 with
  | err => rfl
  | fault => rfl
  | ok pl =>
    simp only [Res.bind_ok]
    by_cases h1 : pl < 8
    · simp only [h1, if_true, map_err']
    · simp only [h1, if_false]
      by_cases h2 : b.length < pl.toNat
      · simp only [h2, if_true, map_err']
      · simp only [h2, if_false]
        cases goIndex b 4 with
        | err => rfl
        | fault => rfl
        | ok num =>
          simp only [Res.bind_ok]
          cases goIndex b 5 with
          | err => rfl
          | fault => rfl
          | ok proto =>
            simp only [Res.bind_ok]
            cases goIndex b 6 with
            | err => rfl
            | fault => rfl
            | ok s =>
              simp only [Res.bind_ok]
              by_cases h3 : s.toNat > 0
              · simp only [h3, if_true]
                by_cases h4 : pl.toNat < 8 + s.toNat
                · simp only [h4, if_true, Res.bind_err, map_err']
                · simp only [h4, if_false]
                  cases goSlice b 8 (8 + s.toNat) with
                  | err => rfl
                  | fault => rfl
                  | ok spi =>
                    simp only [Res.bind_ok]
                    exact SA_gParseProposal_tail b num proto spi _ _
              · simp only [h3, if_false, Res.bind_ok]
                exact SA_gParseProposal_tail b num proto [] _ _


private theorem SA_loop1_done (fuel : Nat) (sa : Gen.message.SecurityAssociation) (b : Bytes) (h0 : b.length = 0) :
    SecurityAssociation.Unmarshal.loop1 (fuel + 1) sa b = .ok (sa, b) := by
  rw [SecurityAssociation.Unmarshal.loop1]
  simp [h0]

private theorem SA_loop1_short (fuel : Nat) (sa : Gen.message.SecurityAssociation) (b : Bytes) (h0 : b.length ≠ 0)
    (h8 : b.length < 8) : SecurityAssociation.Unmarshal.loop1 (fuel + 1) sa b = .err := by
  rw [SecurityAssociation.Unmarshal.loop1]
  have hpos : b.length > 0 := by omega
  simp only [hpos, h8, if_true]

/-- (2) the proposal loop -/
theorem SA_loop1_refines : ∀ (fuel : Nat) (sa : Gen.message.SecurityAssociation) (b : Bytes), b.length < fuel →
    (SecurityAssociation.Unmarshal.loop1 fuel sa b).map (fun r => r.1.Proposals.map GenAbs.absProposal) =
      (unmarshalProposals b).map (fun ps => sa.Proposals.map GenAbs.absProposal ++ ps) := by
  intro fuel
  induction fuel with
  | zero => intro sa b h; omega
  | succ fuel ih =>
    intro sa b hf
    rw [unmarshalProposals]
    by_cases h0 : b.length = 0
    · rw [SA_loop1_done fuel sa b h0]
      simp only [h0, dite_true, map_ok', List.append_nil]
    · by_cases h8 : b.length < 8
      · rw [SA_loop1_short fuel sa b h0 h8]
        simp only [h0, dite_false, h8, if_true, map_err']
      · rw [SA_loop1_succ fuel sa b (by omega)]
        simp only [h0, dite_false, h8, if_false]
        have hB := SA_gParseProposal_refines b
        cases hg : SA_gParseProposal b with
        | err => rw [hg] at hB; rw [← hB]; rfl
        | fault => rw [hg] at hB; rw [← hB]; rfl
        | ok r =>
          obtain ⟨p, n⟩ := r
          rw [hg] at hB
          simp only [map_ok'] at hB
          rw [← hB]
          have hl := parseProposal_len b (by omega) _ n hB.symm
          have hgf : goFrom b n = .ok (b.drop n) := by simp [goFrom, hl.2]
          simp only [hl, and_self, dite_true, hgf, Res.bind_ok]
          rw [ih _ _ (by simp only [List.length_drop]; omega)]
          cases unmarshalProposals (b.drop n) with
          | err => rfl
          | fault => rfl
          | ok rest => simp [List.map_append]

/-- (3) the wrapper -/
theorem SecurityAssociation_Unmarshal_refines (b : Bytes) :
    (SecurityAssociation.Unmarshal {} b).map (fun v => GenAbs.absPayload (.SecurityAssociation v)) =
      (unmarshalSA b).map some := by
  unfold SecurityAssociation.Unmarshal unmarshalSA
  have h := SA_loop1_refines (b.length + 1) {} b (by omega)
  have he : (({} : Gen.message.SecurityAssociation).Proposals.map GenAbs.absProposal) = [] := rfl
  rw [he] at h
  cases hl : SecurityAssociation.Unmarshal.loop1 (b.length + 1) {} b with
  | err =>
    rw [hl] at h
    cases hu : unmarshalProposals b with
    | err => rfl
    | fault => rw [hu] at h; simp at h
    | ok ps => rw [hu] at h; simp at h
  | fault =>
    rw [hl] at h
    cases hu : unmarshalProposals b with
    | err => rw [hu] at h; simp at h
    | fault => rfl
    | ok ps => rw [hu] at h; simp at h
  | ok r =>
    rw [hl] at h
    cases hu : unmarshalProposals b with
    | err => rw [hu] at h; simp at h
    | fault => rw [hu] at h; simp at h
    | ok ps =>
      rw [hu] at h
      simp only [map_ok', List.nil_append, Res.ok.injEq] at h
      simp only [Res.bind_ok, map_ok', GenAbs.absPayload, h]

end Ike.Refine
