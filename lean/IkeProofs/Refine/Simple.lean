import IkeProofs.Refine.Basic

/-! Refinement of the "flat" payload structs of `Ike.Gen.message` (KE, IDi, IDr, AUTH, CERT,
CERTREQ, Nonce, Vendor ID, SK, Notify (encoder), EAP) and the type codes of all 16 payload structs:
generated code ⊑ hand-written model (`IkeModel/Message/Payloads.lean`, `Chain.lean`).

The first section has reusable lemmas about the GoRt buffer-writing primitives
(`Go.setN`, `Go.putU16`, `Go.putU32`, `Go.splice`) on `zeros n` and on cons-lists. -/

set_option linter.unusedSimpArgs false

namespace Ike.Refine
open Ike Ike.Gen.message

/-! ### reusable lemmas: `zeros`, `Go.setN`, `Go.putU16`, `Go.putU32` on literal buffers -/

private theorem zeros_zero : zeros 0 = [] := rfl
private theorem zeros_succ (n : Nat) : zeros (n + 1) = 0 :: zeros n := rfl
private theorem zeros_one : zeros 1 = [0] := rfl
private theorem zeros_two : zeros 2 = [0, 0] := rfl
private theorem zeros_four : zeros 4 = [0, 0, 0, 0] := rfl
private theorem zeros_eight : zeros 8 = [0, 0, 0, 0, 0, 0, 0, 0] := rfl
private theorem zeros_add (m n : Nat) : zeros (m + n) = zeros m ++ zeros n := by
  simp [zeros, List.replicate_append_replicate]

@[simp] private theorem put16_length (v : UInt16) : (put16 v).length = 2 := rfl
@[simp] private theorem put32_length (v : UInt32) : (put32 v).length = 4 := rfl
@[simp] private theorem put64_length (v : UInt64) : (put64 v).length = 8 := rfl

/-- `l[i] = v` in range -/
private theorem setN_ok {α : Type} (l : List α) (i : Nat) (v : α) (h : i < l.length) :
    Go.setN l i v = Res.ok (l.set i v) := by
  simp [Go.setN, h]

private theorem setN_fault {α : Type} (l : List α) (i : Nat) (v : α) (h : l.length ≤ i) :
    Go.setN l i v = Res.fault := by
  have : ¬ i < l.length := by omega
  simp [Go.setN, this]

/-- `setN` at position 0 of a cons-list -/
private theorem setN_cons_zero {α : Type} (a : α) (l : List α) (v : α) :
    Go.setN (a :: l) 0 v = Res.ok (v :: l) := by
  simp [Go.setN]

/-- `setN` at a successor position of a cons-list -/
private theorem setN_cons_succ {α : Type} (a : α) (l : List α) (i : Nat) (v : α) :
    Go.setN (a :: l) (i + 1) v = (Go.setN l i v).map (fun t => a :: t) := by
  unfold Go.setN
  by_cases h : i < l.length <;> simp [h]

/-- `setN` at literal positions 1, 2, 3 of a cons-list -/
private theorem setN_cons_one {α : Type} (a b : α) (l : List α) (v : α) :
    Go.setN (a :: b :: l) 1 v = Res.ok (a :: v :: l) := by
  simp [Go.setN]

private theorem setN_cons_two {α : Type} (a b c : α) (l : List α) (v : α) :
    Go.setN (a :: b :: c :: l) 2 v = Res.ok (a :: b :: v :: l) := by
  simp [Go.setN]

private theorem setN_cons_three {α : Type} (a b c d : α) (l : List α) (v : α) :
    Go.setN (a :: b :: c :: d :: l) 3 v = Res.ok (a :: b :: c :: v :: l) := by
  simp [Go.setN]

/-- `setN` behind a prefix of known length -/
private theorem setN_append_right {α : Type} (p l : List α) (i : Nat) (v : α) :
    Go.setN (p ++ l) (p.length + i) v = (Go.setN l i v).map (fun t => p ++ t) := by
  unfold Go.setN
  by_cases h : i < l.length
  · have h' : p.length + i < (p ++ l).length := by simp; omega
    simp only [h, h', if_true, map_ok']
    rw [List.set_append_right _ _ (by omega)]
    simp
  · have h' : ¬ p.length + i < (p ++ l).length := by simp; omega
    simp [h, h']

/-- `PutUint16(d[lo:hi], v)` with a window that fits: bytes `lo`, `lo+1` are overwritten -/
private theorem putU16_ok (d : Bytes) (lo hi : Nat) (v : UInt16) (h1 : lo + 2 ≤ hi) (h2 : hi ≤ d.length) :
    Go.putU16 d lo hi v = Res.ok (d.take lo ++ put16 v ++ d.drop (lo + 2)) := by
  simp [Go.putU16, Go.splice, h1, h2]

private theorem putU16_fault (d : Bytes) (lo hi : Nat) (v : UInt16) (h : hi < lo + 2 ∨ d.length < hi) :
    Go.putU16 d lo hi v = Res.fault := by
  have : ¬ (lo + 2 ≤ hi ∧ hi ≤ d.length) := by omega
  simp [Go.putU16, this]

private theorem putU32_ok (d : Bytes) (lo hi : Nat) (v : UInt32) (h1 : lo + 4 ≤ hi) (h2 : hi ≤ d.length) :
    Go.putU32 d lo hi v = Res.ok (d.take lo ++ put32 v ++ d.drop (lo + 4)) := by
  simp [Go.putU32, Go.splice, h1, h2]

private theorem putU32_fault (d : Bytes) (lo hi : Nat) (v : UInt32) (h : hi < lo + 4 ∨ d.length < hi) :
    Go.putU32 d lo hi v = Res.fault := by
  have : ¬ (lo + 4 ≤ hi ∧ hi ≤ d.length) := by omega
  simp [Go.putU32, this]

private theorem putU64_ok (d : Bytes) (lo hi : Nat) (v : UInt64) (h1 : lo + 8 ≤ hi) (h2 : hi ≤ d.length) :
    Go.putU64 d lo hi v = Res.ok (d.take lo ++ put64 v ++ d.drop (lo + 8)) := by
  simp [Go.putU64, Go.splice, h1, h2]

/-- `PutUint16(d[lo:lo+2], v)` where `d = p ++ x :: y :: rest`, `|p| = lo` -/
private theorem putU16_append (p : Bytes) (x y : UInt8) (rest : Bytes) (lo hi : Nat) (v : UInt16)
    (hlo : lo = p.length) (hhi : hi = lo + 2) :
    Go.putU16 (p ++ x :: y :: rest) lo hi v = Res.ok (p ++ put16 v ++ rest) := by
  subst hlo hhi
  rw [putU16_ok _ _ _ _ (by omega) (by simp)]
  simp

/-- `PutUint32(d[lo:lo+4], v)` where `d = p ++ x0 :: x1 :: x2 :: x3 :: rest`, `|p| = lo` -/
private theorem putU32_append (p : Bytes) (x0 x1 x2 x3 : UInt8) (rest : Bytes) (lo hi : Nat) (v : UInt32)
    (hlo : lo = p.length) (hhi : hi = lo + 4) :
    Go.putU32 (p ++ x0 :: x1 :: x2 :: x3 :: rest) lo hi v = Res.ok (p ++ put32 v ++ rest) := by
  subst hlo hhi
  rw [putU32_ok _ _ _ _ (by omega) (by simp)]
  simp

/-- `PutUint16(d[0:2], v)` -/
private theorem putU16_cons_0_2 (a b : UInt8) (rest : Bytes) (v : UInt16) :
    Go.putU16 (a :: b :: rest) 0 2 v = Res.ok (put16 v ++ rest) :=
  putU16_append [] a b rest 0 2 v rfl rfl

/-- `PutUint16(d[2:4], v)` -/
private theorem putU16_cons_2_4 (a b c d : UInt8) (rest : Bytes) (v : UInt16) :
    Go.putU16 (a :: b :: c :: d :: rest) 2 4 v = Res.ok (a :: b :: (put16 v ++ rest)) :=
  putU16_append [a, b] c d rest 2 4 v rfl rfl

/-- `PutUint16(d[4:6], v)` -/
private theorem putU16_cons_4_6 (a b c d e f : UInt8) (rest : Bytes) (v : UInt16) :
    Go.putU16 (a :: b :: c :: d :: e :: f :: rest) 4 6 v = Res.ok (a :: b :: c :: d :: (put16 v ++ rest)) :=
  putU16_append [a, b, c, d] e f rest 4 6 v rfl rfl

/-- `PutUint16(d[6:8], v)` -/
private theorem putU16_cons_6_8 (a b c d e f g h : UInt8) (rest : Bytes) (v : UInt16) :
    Go.putU16 (a :: b :: c :: d :: e :: f :: g :: h :: rest) 6 8 v =
      Res.ok (a :: b :: c :: d :: e :: f :: (put16 v ++ rest)) :=
  putU16_append [a, b, c, d, e, f] g h rest 6 8 v rfl rfl

/-- `PutUint32(d[0:4], v)` -/
private theorem putU32_cons_0_4 (a b c d : UInt8) (rest : Bytes) (v : UInt32) :
    Go.putU32 (a :: b :: c :: d :: rest) 0 4 v = Res.ok (put32 v ++ rest) :=
  putU32_append [] a b c d rest 0 4 v rfl rfl

/-- `PutUint32(d[4:8], v)` -/
private theorem putU32_cons_4_8 (a b c d e f g h : UInt8) (rest : Bytes) (v : UInt32) :
    Go.putU32 (a :: b :: c :: d :: e :: f :: g :: h :: rest) 4 8 v =
      Res.ok (a :: b :: c :: d :: (put32 v ++ rest)) :=
  putU32_append [a, b, c, d] e f g h rest 4 8 v rfl rfl

/-- `PutUint16(make([]byte, 2), v)` and `PutUint32(make([]byte, 4), v)` on a whole fresh buffer -/
private theorem putU16_zeros2 (v : UInt16) : Go.putU16 (zeros 2) 0 2 v = Res.ok (put16 v) := by
  rw [zeros_two, putU16_cons_0_2]; simp

private theorem putU32_zeros4 (v : UInt32) : Go.putU32 (zeros 4) 0 4 v = Res.ok (put32 v) := by
  rw [zeros_four, putU32_cons_0_4]; simp

/-! ### decoders -/

theorem KeyExchange_Unmarshal_refines (b : Bytes) :
    (KeyExchange.Unmarshal {} b).map (fun v => GenAbs.absPayload (.KeyExchange v)) = (unmarshalKE b).map some := by
  unfold KeyExchange.Unmarshal unmarshalKE
  simp only [u16At_eq _ 0 2 rfl]
  split
  · simp
  · cases goU16 b 0 <;> cases goFrom b 4 <;> simp [GenAbs.absPayload]

theorem IdentificationInitiator_Unmarshal_refines (b : Bytes) :
    (IdentificationInitiator.Unmarshal {} b).map (fun v => GenAbs.absPayload (.IdentificationInitiator v)) =
      (unmarshalT4 .idi b).map some := by
  unfold IdentificationInitiator.Unmarshal unmarshalT4
  split
  · simp
  · cases goIndex b 0 <;> cases goFrom b 4 <;> simp [GenAbs.absPayload]

theorem IdentificationResponder_Unmarshal_refines (b : Bytes) :
    (IdentificationResponder.Unmarshal {} b).map (fun v => GenAbs.absPayload (.IdentificationResponder v)) =
      (unmarshalT4 .idr b).map some := by
  unfold IdentificationResponder.Unmarshal unmarshalT4
  split
  · simp
  · cases goIndex b 0 <;> cases goFrom b 4 <;> simp [GenAbs.absPayload]

theorem Authentication_Unmarshal_refines (b : Bytes) :
    (Authentication.Unmarshal {} b).map (fun v => GenAbs.absPayload (.Authentication v)) =
      (unmarshalT4 .auth b).map some := by
  unfold Authentication.Unmarshal unmarshalT4
  split
  · simp
  · cases goIndex b 0 <;> cases goFrom b 4 <;> simp [GenAbs.absPayload]

theorem Certificate_Unmarshal_refines (b : Bytes) :
    (Certificate.Unmarshal {} b).map (fun v => GenAbs.absPayload (.Certificate v)) =
      (unmarshalT1 .cert b).map some := by
  unfold Certificate.Unmarshal unmarshalT1
  split
  · simp
  · cases goIndex b 0 <;> cases goFrom b 1 <;> simp [GenAbs.absPayload]

theorem CertificateRequest_Unmarshal_refines (b : Bytes) :
    (CertificateRequest.Unmarshal {} b).map (fun v => GenAbs.absPayload (.CertificateRequest v)) =
      (unmarshalT1 .certreq b).map some := by
  unfold CertificateRequest.Unmarshal unmarshalT1
  split
  · simp
  · cases goIndex b 0 <;> cases goFrom b 1 <;> simp [GenAbs.absPayload]

theorem Nonce_Unmarshal_refines (b : Bytes) :
    (Nonce.Unmarshal {} b).map (fun v => GenAbs.absPayload (.Nonce v)) = Res.ok (some (.nonce b)) := by
  unfold Nonce.Unmarshal
  split
  · simp [GenAbs.absPayload]
  · have hb : b = [] := by
      cases b with
      | nil => rfl
      | cons x xs => simp at *
    subst hb
    simp [GenAbs.absPayload]

theorem VendorID_Unmarshal_refines (b : Bytes) :
    (VendorID.Unmarshal {} b).map (fun v => GenAbs.absPayload (.VendorID v)) = Res.ok (some (.vendor b)) := by
  unfold VendorID.Unmarshal
  split
  · simp [GenAbs.absPayload]
  · have hb : b = [] := by
      cases b with
      | nil => rfl
      | cons x xs => simp at *
    subst hb
    simp [GenAbs.absPayload]

theorem Encrypted_Unmarshal_refines (nx : UInt8) (b : Bytes) :
    (Encrypted.Unmarshal { NextPayload := nx } b).map (fun v => GenAbs.absPayload (.Encrypted v)) =
      Res.ok (some (.sk nx b)) := by
  unfold Encrypted.Unmarshal
  simp [GenAbs.absPayload]

theorem PayloadEap_Unmarshal_refines (b : Bytes) :
    (PayloadEap.Unmarshal {} b).map (fun v => GenAbs.absPayload (.PayloadEap v)) =
      ((do let e ← unmarshalEap b; Res.ok (Payload.eap e)) : Res Payload).map some := by
  unfold PayloadEap.Unmarshal GenExt.EAP_Unmarshal
  cases unmarshalEap b <;> simp [GenAbs.absPayload]

/-! ### encoders -/

theorem KeyExchange_Marshal_refines (v : Gen.message.KeyExchange) :
    KeyExchange.Marshal v = marshalKE v.DiffieHellmanGroup v.KeyExchangeData := by
  unfold KeyExchange.Marshal marshalKE
  simp [zeros_four, putU16_cons_0_2]

theorem IdentificationInitiator_Marshal_refines (v : Gen.message.IdentificationInitiator) :
    IdentificationInitiator.Marshal v = marshalT4 v.IDType v.IDData := by
  unfold IdentificationInitiator.Marshal marshalT4
  simp [zeros_four, setN_cons_zero]

theorem IdentificationResponder_Marshal_refines (v : Gen.message.IdentificationResponder) :
    IdentificationResponder.Marshal v = marshalT4 v.IDType v.IDData := by
  unfold IdentificationResponder.Marshal marshalT4
  simp [zeros_four, setN_cons_zero]

theorem Authentication_Marshal_refines (v : Gen.message.Authentication) :
    Authentication.Marshal v = marshalT4 v.AuthenticationMethod v.AuthenticationData := by
  unfold Authentication.Marshal marshalT4
  simp [zeros_four, setN_cons_zero]

theorem Certificate_Marshal_refines (v : Gen.message.Certificate) :
    Certificate.Marshal v = marshalT1 v.CertificateEncoding v.CertificateData := by
  unfold Certificate.Marshal marshalT1
  simp [zeros_one, setN_cons_zero]

theorem CertificateRequest_Marshal_refines (v : Gen.message.CertificateRequest) :
    CertificateRequest.Marshal v = marshalT1 v.CertificateEncoding v.CertificationAuthority := by
  unfold CertificateRequest.Marshal marshalT1
  simp [zeros_one, setN_cons_zero]

theorem Nonce_Marshal_refines (v : Gen.message.Nonce) : Nonce.Marshal v = marshalRaw v.NonceData := by
  unfold Nonce.Marshal marshalRaw
  simp [zeros_zero]

theorem VendorID_Marshal_refines (v : Gen.message.VendorID) : VendorID.Marshal v = marshalRaw v.VendorIDData := by
  unfold VendorID.Marshal marshalRaw
  rfl

theorem Encrypted_Marshal_refines (v : Gen.message.Encrypted) : Encrypted.Marshal v = marshalSK v.EncryptedData := by
  unfold Encrypted.Marshal marshalSK
  rfl

theorem Notification_Marshal_refines (v : Gen.message.Notification) :
    Notification.Marshal v = marshalNotify v.ProtocolID v.NotifyMessageType v.SPI v.NotificationData := by
  unfold Notification.Marshal marshalNotify
  simp only [zeros_four, setN_cons_zero, Res.bind_ok]
  split
  · rfl
  · simp [setN_cons_one, putU16_cons_2_4]

theorem PayloadEap_Marshal_refines (v : Gen.message.PayloadEap) : PayloadEap.Marshal v = marshalEap v.EAP := by
  unfold PayloadEap.Marshal GenExt.EAP_Marshal
  cases marshalEap v.EAP <;> rfl

/-! ### type codes -/

theorem SecurityAssociation_Type_refines (v : Gen.message.SecurityAssociation) :
    SecurityAssociation.Type_ v = Res.ok Facts.typeSA := rfl
theorem KeyExchange_Type_refines (v : Gen.message.KeyExchange) :
    KeyExchange.Type_ v = Res.ok Facts.typeKE := rfl
theorem IdentificationInitiator_Type_refines (v : Gen.message.IdentificationInitiator) :
    IdentificationInitiator.Type_ v = Res.ok Facts.typeIDi := rfl
theorem IdentificationResponder_Type_refines (v : Gen.message.IdentificationResponder) :
    IdentificationResponder.Type_ v = Res.ok Facts.typeIDr := rfl
theorem Certificate_Type_refines (v : Gen.message.Certificate) :
    Certificate.Type_ v = Res.ok Facts.typeCERT := rfl
theorem CertificateRequest_Type_refines (v : Gen.message.CertificateRequest) :
    CertificateRequest.Type_ v = Res.ok Facts.typeCERTreq := rfl
theorem Authentication_Type_refines (v : Gen.message.Authentication) :
    Authentication.Type_ v = Res.ok Facts.typeAUTH := rfl
theorem Nonce_Type_refines (v : Gen.message.Nonce) :
    Nonce.Type_ v = Res.ok Facts.typeNiNr := rfl
theorem Notification_Type_refines (v : Gen.message.Notification) :
    Notification.Type_ v = Res.ok Facts.typeN := rfl
theorem Delete_Type_refines (v : Gen.message.Delete) :
    Delete.Type_ v = Res.ok Facts.typeD := rfl
theorem VendorID_Type_refines (v : Gen.message.VendorID) :
    VendorID.Type_ v = Res.ok Facts.typeV := rfl
theorem TrafficSelectorInitiator_Type_refines (v : Gen.message.TrafficSelectorInitiator) :
    TrafficSelectorInitiator.Type_ v = Res.ok Facts.typeTSi := rfl
theorem TrafficSelectorResponder_Type_refines (v : Gen.message.TrafficSelectorResponder) :
    TrafficSelectorResponder.Type_ v = Res.ok Facts.typeTSr := rfl
theorem Encrypted_Type_refines (v : Gen.message.Encrypted) :
    Encrypted.Type_ v = Res.ok Facts.typeSK := rfl
theorem Configuration_Type_refines (v : Gen.message.Configuration) :
    Configuration.Type_ v = Res.ok Facts.typeCP := rfl
theorem PayloadEap_Type_refines (v : Gen.message.PayloadEap) :
    PayloadEap.Type_ v = Res.ok Facts.typeEAP := rfl

end Ike.Refine
