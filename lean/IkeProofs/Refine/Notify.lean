import IkeProofs.Refine.Basic

/-! Exemplar: `message.(*Notification).Unmarshal` as generated ⊑ `unmarshalNotify`. -/

set_option linter.unusedSimpArgs false

namespace Ike.Refine
open Ike Ike.Gen.message

theorem Notification_Unmarshal_refines (b : Bytes) :
    (Notification.Unmarshal {} b).map (fun v => GenAbs.absPayload (.Notification v)) = (unmarshalNotify b).map some := by
  unfold Notification.Unmarshal unmarshalNotify
  simp only [u16At_eq _ 2 4 rfl]
  by_cases h0 : b.length = 0
  · simp [h0, GenAbs.absPayload]
  · have h0' : b.length > 0 := by omega
    simp only [h0, h0', if_true, if_false]
    split
    · simp
    · cases goIndex b 1 with
      | ok s =>
        simp only [Res.bind_ok]
        split
        · simp
        · cases goIndex b 0 <;> cases goU16 b 2 <;> cases goSlice b 4 (4 + s.toNat) <;> cases goFrom b (4 + s.toNat) <;>
            simp [GenAbs.absPayload]
      | err => simp
      | fault => simp

end Ike.Refine
