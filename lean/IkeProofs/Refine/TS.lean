import IkeProofs.Refine.Basic

/-! `message.(*TrafficSelectorInitiator)` / `(*TrafficSelectorResponder)` `.marshal` / `.unmarshal`
as generated ⊑ `marshalTS` / `unmarshalTS`. -/

set_option linter.unusedSimpArgs false

namespace Ike.Refine
open Ike Ike.Gen.message

/-! ### reusable lemmas about `Go.setN` / `Go.putU16` / `Go.splice` -/

private theorem setN_ok {α : Type} (l : List α) (i : Nat) (v : α) (h : i < l.length) :
    Go.setN l i v = Res.ok (l.set i v) := by
  simp [Go.setN, h]

private theorem setN_cons_zero {α : Type} (a : α) (l : List α) (v : α) :
    Go.setN (a :: l) 0 v = Res.ok (v :: l) := by
  simp [Go.setN]

private theorem setN_cons_succ {α : Type} (a : α) (l : List α) (i : Nat) (v : α) :
    Go.setN (a :: l) (i + 1) v = (Go.setN l i v).map (a :: ·) := by
  unfold Go.setN
  by_cases h : i < l.length <;> simp [h]

private theorem putU16_ok (d : Bytes) (lo hi : Nat) (v : UInt16) (h1 : lo + 2 ≤ hi) (h2 : hi ≤ d.length) :
    Go.putU16 d lo hi v = Res.ok (Go.splice d lo (put16 v)) := by
  simp [Go.putU16, h1, h2]

@[simp] private theorem put16_length (v : UInt16) : (put16 v).length = 2 := rfl

private theorem splice_length (d : Bytes) (off : Nat) (v : Bytes) (h : off + v.length ≤ d.length) :
    (Go.splice d off v).length = d.length := by
  simp [Go.splice]; omega

private theorem splice_cons_succ (a : UInt8) (d : Bytes) (off : Nat) (v : Bytes) :
    Go.splice (a :: d) (off + 1) v = a :: Go.splice d off v := by
  simp [Go.splice, Nat.add_right_comm]

private theorem splice_zero (d v : Bytes) : Go.splice d 0 v = v ++ d.drop v.length := by
  simp [Go.splice]

private theorem splice_append_left (d e : Bytes) (off : Nat) (v : Bytes) (h : off + v.length ≤ d.length) :
    Go.splice (d ++ e) off v = Go.splice d off v ++ e := by
  have h1 : off ≤ d.length := by omega
  simp [Go.splice, List.take_append_of_le_length h1, List.drop_append_of_le_length h]

private theorem zeros_succ (n : Nat) : zeros (n + 1) = 0 :: zeros n := by
  simp [zeros, List.replicate_succ]

private theorem zeros_zero : zeros 0 = [] := rfl

/-- the fixed 8-octet selector header as the Go code builds it in a `make([]byte, 8)` buffer -/
private theorem tsel_header {β : Type} (ty proto : UInt8) (sp ep : UInt16) (k : Bytes → Res β) :
    ((Go.setN (zeros 8) 0 ty) >>= fun t3 =>
     (Go.setN t3 1 proto) >>= fun t4 =>
     (Go.putU16 t4 4 6 sp) >>= fun t5 =>
     (Go.putU16 t5 6 8 ep) >>= fun t6 => k t6) =
    k ([ty, proto, 0, 0] ++ put16 sp ++ put16 ep) := by
  simp [zeros, Go.setN, Go.putU16, Go.splice, put16, List.replicate]

/-- the final `PutUint16(d[2:4], len)` on a buffer with at least 4 octets -/
private theorem tsel_putLen (a0 a1 a2 a3 : UInt8) (rest : Bytes) (len : UInt16) :
    Go.putU16 (a0 :: a1 :: a2 :: a3 :: rest) 2 4 len = Res.ok ([a0, a1] ++ put16 len ++ rest) := by
  simp [Go.putU16, Go.splice, put16]

/-! ### Marshal -/

private theorem TSI_Marshal_loop (xs : List IndividualTrafficSelector) (idx : Nat) (acc : Bytes) :
    TrafficSelectorInitiator.Marshal.loop1 xs idx acc
      = (marshalTSels (xs.map GenAbs.absTSel)).map (acc ++ ·) := by
  induction xs generalizing idx acc with
  | nil => simp [TrafficSelectorInitiator.Marshal.loop1, marshalTSels]
  | cons x rest ih =>
    unfold TrafficSelectorInitiator.Marshal.loop1
    simp only [List.map_cons, marshalTSels, marshalTSel, GenAbs.absTSel, Facts.tsIPv4, Facts.tsIPv6,
      tsel_header, ih, beq_iff_eq]
    by_cases h7 : x.TSType = 7
    · by_cases hs : x.StartAddress.length = 4
      · by_cases he : x.EndAddress.length = 4
        · cases marshalTSels (rest.map GenAbs.absTSel) <;> simp [h7, hs, he, tsel_putLen]
        · simp [h7, hs, he]
      · simp [h7, hs]
    · by_cases h8 : x.TSType = 8
      · by_cases hs : x.StartAddress.length = 16
        · by_cases he : x.EndAddress.length = 16
          · cases marshalTSels (rest.map GenAbs.absTSel) <;> simp [h8, hs, he, tsel_putLen]
          · simp [h8, hs, he]
        · simp [h8, hs]
      · simp [h7, h8]

/-- Initiator and Responder are the same Go code: the two generated loops coincide -/
private theorem TSR_Marshal_loop_eq (xs : List IndividualTrafficSelector) (idx : Nat) (acc : Bytes) :
    TrafficSelectorResponder.Marshal.loop1 xs idx acc
      = TrafficSelectorInitiator.Marshal.loop1 xs idx acc := by
  induction xs generalizing idx acc with
  | nil => simp [TrafficSelectorInitiator.Marshal.loop1, TrafficSelectorResponder.Marshal.loop1]
  | cons x rest ih =>
    unfold TrafficSelectorInitiator.Marshal.loop1 TrafficSelectorResponder.Marshal.loop1
    simp only [ih]

private theorem TSR_Marshal_loop (xs : List IndividualTrafficSelector) (idx : Nat) (acc : Bytes) :
    TrafficSelectorResponder.Marshal.loop1 xs idx acc
      = (marshalTSels (xs.map GenAbs.absTSel)).map (acc ++ ·) := by
  rw [TSR_Marshal_loop_eq, TSI_Marshal_loop]

theorem TrafficSelectorInitiator_Marshal_refines (v : Gen.message.TrafficSelectorInitiator) :
    TrafficSelectorInitiator.Marshal v = marshalTS (v.TrafficSelectors.map GenAbs.absTSel) := by
  unfold TrafficSelectorInitiator.Marshal marshalTS
  simp only [TSI_Marshal_loop, List.length_map]
  by_cases h0 : v.TrafficSelectors.length = 0
  · simp [h0]
  · by_cases h1 : v.TrafficSelectors.length > 255
    · simp [h0, h1]
    · cases marshalTSels (v.TrafficSelectors.map GenAbs.absTSel) <;>
        simp [h0, h1, zeros, Go.setN, List.replicate]

theorem TrafficSelectorResponder_Marshal_refines (v : Gen.message.TrafficSelectorResponder) :
    TrafficSelectorResponder.Marshal v = marshalTS (v.TrafficSelectors.map GenAbs.absTSel) := by
  unfold TrafficSelectorResponder.Marshal marshalTS
  simp only [TSR_Marshal_loop, List.length_map]
  by_cases h0 : v.TrafficSelectors.length = 0
  · simp [h0]
  · have h0' : v.TrafficSelectors.length > 0 := by omega
    by_cases h1 : v.TrafficSelectors.length > 255
    · simp [h0, h0', h1]
    · cases marshalTSels (v.TrafficSelectors.map GenAbs.absTSel) <;>
        simp [h0, h0', h1, zeros, Go.setN, List.replicate]

/-! ### Unmarshal -/

private theorem u8_pos_of_toNat {n : UInt8} {k : Nat} (h : n.toNat = k + 1) : n > (0 : UInt8) := by
  show (0 : UInt8) < n
  rw [UInt8.lt_iff_toNat_lt]; simp [h]

private theorem u8_pred_toNat {n : UInt8} {k : Nat} (h : n.toNat = k + 1) : (n - 1).toNat = k := by
  have h1 : (1 : UInt8) ≤ n := by rw [UInt8.le_iff_toNat_le]; simp [h]
  rw [UInt8.toNat_sub_of_le n 1 h1, h]; rfl

private theorem u8_not_pos_of_toNat {n : UInt8} (h : n.toNat = 0) : ¬ n > (0 : UInt8) := by
  show ¬ (0 : UInt8) < n
  rw [UInt8.lt_iff_toNat_lt]; simp [h]

/- one selector of wire length `L` (addresses `b[8:mid]`, `b[mid:L]`), after the type octet has
been dispatched; context: `b k n f ih hn hf'` of the loop lemma below -/
set_option hygiene false in
local macro "ts_branch " L:num mid:num : tactic => `(tactic| (
  cases goU16 b 2 with
  | err => simp
  | fault => simp
  | ok sl =>
    simp only [Res.bind_ok]
    by_cases hsl : sl = $L
    · subst hsl
      simp only [show ($L : UInt16).toNat = $L from rfl]
      by_cases hlen : b.length < $L
      · simp [hlen]
      · have hL : $L ≤ b.length := by omega
        simp only [hlen, if_false, ne_eq, not_true_eq_false,
          goIndex_ok (show 1 < b.length by omega), goU16_ok (show 4 + 2 ≤ b.length by omega),
          goU16_ok (show 6 + 2 ≤ b.length by omega),
          goSlice_ok (show 8 ≤ $mid by omega) (show $mid ≤ b.length by omega),
          goSlice_ok (show $mid ≤ $L by omega) hL, goFrom_ok hL, Res.bind_ok, hL, if_true]
        rw [ih (n - 1) (u8_pred_toNat hn) f hf']
        cases unmarshalTSels k (b.drop $L) <;> simp [GenAbs.absTSel]
    · simp [hsl]))

/- the decoder loop, for every sufficient fuel; `loop1` is the generated loop function -/
set_option hygiene false in
local macro "ts_unmarshal_loop " loop1:ident : tactic => `(tactic| (
  induction k with
  | zero =>
    intro n hn fuel hf ts b
    cases fuel with
    | zero => omega
    | succ f =>
      unfold $loop1
      simp [u8_not_pos_of_toNat hn, unmarshalTSels]
  | succ k ih =>
    intro n hn fuel hf ts b
    cases fuel with
    | zero => omega
    | succ f =>
      have hf' : k < f := by omega
      unfold $loop1
      rw [unmarshalTSels]
      simp only [u8_pos_of_toNat hn, if_true]
      by_cases h4 : b.length < 4
      · simp [h4]
      · simp only [h4, if_false]
        unfold parseTSel
        simp only [u16At_eq _ 2 4 rfl, u16At_eq _ 4 6 rfl, u16At_eq _ 6 8 rfl, Facts.tsIPv4, Facts.tsIPv6,
          beq_iff_eq, bne_iff_ne]
        have hidx : goIndex b 0 = Res.ok (byteAt b 0) := goIndex_ok (by omega)
        simp only [hidx, Res.bind_ok]
        by_cases h7 : byteAt b 0 = 7
        · simp only [h7, if_true]
          ts_branch 16 12
        · simp only [h7, if_false]
          by_cases h8 : byteAt b 0 = 8
          · simp only [h8, if_true]
            ts_branch 40 24
          · simp [h8]))

private theorem TSI_Unmarshal_loop (k : Nat) : ∀ (n : UInt8), n.toNat = k → ∀ fuel, k < fuel →
    ∀ (ts : TrafficSelectorInitiator) (b : Bytes),
    (TrafficSelectorInitiator.Unmarshal.loop1 fuel ts b n).map
        (fun s => s.1.TrafficSelectors.map GenAbs.absTSel)
      = (unmarshalTSels k b).map (fun l => ts.TrafficSelectors.map GenAbs.absTSel ++ l) := by
  ts_unmarshal_loop TrafficSelectorInitiator.Unmarshal.loop1

private theorem TSR_Unmarshal_loop (k : Nat) : ∀ (n : UInt8), n.toNat = k → ∀ fuel, k < fuel →
    ∀ (ts : TrafficSelectorResponder) (b : Bytes),
    (TrafficSelectorResponder.Unmarshal.loop1 fuel ts b n).map
        (fun s => s.1.TrafficSelectors.map GenAbs.absTSel)
      = (unmarshalTSels k b).map (fun l => ts.TrafficSelectors.map GenAbs.absTSel ++ l) := by
  ts_unmarshal_loop TrafficSelectorResponder.Unmarshal.loop1

theorem TrafficSelectorInitiator_Unmarshal_refines (b : Bytes) :
    (TrafficSelectorInitiator.Unmarshal {} b).map (fun v => GenAbs.absPayload (.TrafficSelectorInitiator v))
      = (unmarshalTS .tsi b).map some := by
  unfold TrafficSelectorInitiator.Unmarshal unmarshalTS
  by_cases h0 : b.length = 0
  · simp [h0, GenAbs.absPayload]
  · have h0' : b.length > 0 := by omega
    simp only [h0, h0', if_true, if_false]
    by_cases h4 : b.length < 4
    · simp [h4]
    · simp only [h4, if_false, goIndex_ok (show 0 < b.length by omega),
        goFrom_ok (show 4 ≤ b.length by omega), Res.bind_ok]
      have h := TSI_Unmarshal_loop (byteAt b 0).toNat (byteAt b 0) rfl ((byteAt b 0).toNat + 1)
        (by omega) {} (b.drop 4)
      revert h
      cases TrafficSelectorInitiator.Unmarshal.loop1 ((byteAt b 0).toNat + 1) {} (b.drop 4) (byteAt b 0) <;>
        cases unmarshalTSels (byteAt b 0).toNat (b.drop 4) <;> simp [GenAbs.absPayload]

theorem TrafficSelectorResponder_Unmarshal_refines (b : Bytes) :
    (TrafficSelectorResponder.Unmarshal {} b).map (fun v => GenAbs.absPayload (.TrafficSelectorResponder v))
      = (unmarshalTS .tsr b).map some := by
  unfold TrafficSelectorResponder.Unmarshal unmarshalTS
  by_cases h0 : b.length = 0
  · simp [h0, GenAbs.absPayload]
  · have h0' : b.length > 0 := by omega
    simp only [h0, h0', if_true, if_false]
    by_cases h4 : b.length < 4
    · simp [h4]
    · simp only [h4, if_false, goIndex_ok (show 0 < b.length by omega),
        goFrom_ok (show 4 ≤ b.length by omega), Res.bind_ok]
      have h := TSR_Unmarshal_loop (byteAt b 0).toNat (byteAt b 0) rfl ((byteAt b 0).toNat + 1)
        (by omega) {} (b.drop 4)
      revert h
      cases TrafficSelectorResponder.Unmarshal.loop1 ((byteAt b 0).toNat + 1) {} (b.drop 4) (byteAt b 0) <;>
        cases unmarshalTSels (byteAt b 0).toNat (b.drop 4) <;> simp [GenAbs.absPayload]

end Ike.Refine
