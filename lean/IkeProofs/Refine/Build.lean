import IkeProofs.Refine.Basic
import IkeModel.Message.Build
import IkeModel.Spec.Ts24502
import IkeProofs.Theorems.C19

/-! `message/build.go` (and `NewPayloadEap`, `NewMessage`) as generated ⊑ `Ike.Build`.

For every generated builder `B` there is
* `B_eq`: the direct characterisation — the exact `Res` value `B` returns, as a function of the
  arguments, for EVERY container (no hypothesis); and
* `B_refines`: for a container `c` whose elements all have an abstraction
  (`GenAbs.absPayloads c = some ps`), `B` returns `Res.ok` of a container whose abstraction is what
  the model's builder (`Ike.Build.…`) computes from `ps`; where the Go builder also returns a pointer
  to the element it appended, the generated code returns `(container, element)` and the theorem
  says in addition that the container is `c ++ [element]`.

Sub-container builders are related through `List.map GenAbs.absProposal / absTransform / absTSel /
absCPAttr`. -/

set_option linter.unusedSimpArgs false
set_option linter.unusedVariables false

namespace Ike.Refine
open Ike Ike.Gen.message

/-! ## helpers -/

/-- appending an element that has an abstraction to a container that has one -/
theorem absPayloads_snoc (c : List IKEPayload) (ps : List Payload) (x : IKEPayload) (p : Payload)
    (hc : GenAbs.absPayloads c = some ps) (hx : GenAbs.absPayload x = some p) :
    GenAbs.absPayloads (c ++ [x]) = some (ps ++ [p]) := by
  unfold GenAbs.absPayloads at *
  simp [List.mapM_append, hc, hx]

theorem absPayloads_nil : GenAbs.absPayloads [] = some [] := rfl

/-- abstraction of a generated `IKEMessage` (header + payload container) -/
def absMsgB (m : IKEMessage) : Option Msg :=
  (GenAbs.absPayloads m.Payloads).map (fun ps => ⟨GenAbs.absHeader m.IKEHeader, ps⟩)

/-! ## `Reset` of the five container types -/

theorem IKEPayloadContainer_Reset_eq (c : List IKEPayload) : IKEPayloadContainer.Reset c = .ok [] := rfl

theorem IKEPayloadContainer_Reset_refines (c : List IKEPayload) (ps : List Payload)
    (hc : GenAbs.absPayloads c = some ps) :
    (IKEPayloadContainer.Reset c).map GenAbs.absPayloads = .ok (some (Build.reset ps)) := rfl

theorem ConfigurationAttributeContainer_Reset_eq (l : List IndividualConfigurationAttribute) :
    ConfigurationAttributeContainer.Reset l = .ok [] := rfl

theorem ConfigurationAttributeContainer_Reset_refines (l : List IndividualConfigurationAttribute) :
    (ConfigurationAttributeContainer.Reset l).map (List.map GenAbs.absCPAttr)
      = .ok (Build.reset (l.map GenAbs.absCPAttr)) := rfl

theorem IndividualTrafficSelectorContainer_Reset_eq (l : List IndividualTrafficSelector) :
    IndividualTrafficSelectorContainer.Reset l = .ok [] := rfl

theorem IndividualTrafficSelectorContainer_Reset_refines (l : List IndividualTrafficSelector) :
    (IndividualTrafficSelectorContainer.Reset l).map (List.map GenAbs.absTSel)
      = .ok (Build.reset (l.map GenAbs.absTSel)) := rfl

theorem ProposalContainer_Reset_eq (l : List Gen.message.Proposal) : ProposalContainer.Reset l = .ok [] := rfl

theorem ProposalContainer_Reset_refines (l : List Gen.message.Proposal) :
    (ProposalContainer.Reset l).map (List.map GenAbs.absProposal)
      = .ok (Build.reset (l.map GenAbs.absProposal)) := rfl

theorem TransformContainer_Reset_eq (l : List Gen.message.Transform) : TransformContainer.Reset l = .ok [] := rfl

theorem TransformContainer_Reset_refines (l : List Gen.message.Transform) :
    (TransformContainer.Reset l).map (List.map GenAbs.absTransform)
      = .ok (Build.reset (l.map GenAbs.absTransform)) := rfl

/-! ## payload builders that return the container only -/

theorem BuildNotification_eq (c : List IKEPayload) (proto : UInt8) (ntype : UInt16) (spi data : Bytes) :
    IKEPayloadContainer.BuildNotification c proto ntype spi data
      = .ok (c ++ [.Notification { ProtocolID := proto, NotifyMessageType := ntype, SPI := spi,
                                   NotificationData := data }]) := by
  simp [IKEPayloadContainer.BuildNotification]

theorem BuildNotification_refines (c : List IKEPayload) (ps : List Payload)
    (hc : GenAbs.absPayloads c = some ps) (proto : UInt8) (ntype : UInt16) (spi data : Bytes) :
    (IKEPayloadContainer.BuildNotification c proto ntype spi data).map GenAbs.absPayloads
      = .ok (some (Build.buildNotification ps proto ntype spi data)) := by
  rw [BuildNotification_eq, map_ok', absPayloads_snoc c ps _ _ hc rfl]
  rfl

theorem BuildCertificate_eq (c : List IKEPayload) (enc : UInt8) (d : Bytes) :
    IKEPayloadContainer.BuildCertificate c enc d
      = .ok (c ++ [.Certificate { CertificateEncoding := enc, CertificateData := d }]) := by
  simp [IKEPayloadContainer.BuildCertificate]

theorem BuildCertificate_refines (c : List IKEPayload) (ps : List Payload)
    (hc : GenAbs.absPayloads c = some ps) (enc : UInt8) (d : Bytes) :
    (IKEPayloadContainer.BuildCertificate c enc d).map GenAbs.absPayloads
      = .ok (some (Build.buildCertificate ps enc d)) := by
  rw [BuildCertificate_eq, map_ok', absPayloads_snoc c ps _ _ hc rfl]
  rfl

theorem BUildKeyExchange_eq (c : List IKEPayload) (group : UInt16) (d : Bytes) :
    IKEPayloadContainer.BUildKeyExchange c group d
      = .ok (c ++ [.KeyExchange { DiffieHellmanGroup := group, KeyExchangeData := d }]) := by
  simp [IKEPayloadContainer.BUildKeyExchange]

theorem BUildKeyExchange_refines (c : List IKEPayload) (ps : List Payload)
    (hc : GenAbs.absPayloads c = some ps) (group : UInt16) (d : Bytes) :
    (IKEPayloadContainer.BUildKeyExchange c group d).map GenAbs.absPayloads
      = .ok (some (Build.buildKeyExchange ps group d)) := by
  rw [BUildKeyExchange_eq, map_ok', absPayloads_snoc c ps _ _ hc rfl]
  rfl

theorem BuildIdentificationInitiator_eq (c : List IKEPayload) (t : UInt8) (d : Bytes) :
    IKEPayloadContainer.BuildIdentificationInitiator c t d
      = .ok (c ++ [.IdentificationInitiator { IDType := t, IDData := d }]) := by
  simp [IKEPayloadContainer.BuildIdentificationInitiator]

theorem BuildIdentificationInitiator_refines (c : List IKEPayload) (ps : List Payload)
    (hc : GenAbs.absPayloads c = some ps) (t : UInt8) (d : Bytes) :
    (IKEPayloadContainer.BuildIdentificationInitiator c t d).map GenAbs.absPayloads
      = .ok (some (Build.buildIdentificationInitiator ps t d)) := by
  rw [BuildIdentificationInitiator_eq, map_ok', absPayloads_snoc c ps _ _ hc rfl]
  rfl

theorem BuildIdentificationResponder_eq (c : List IKEPayload) (t : UInt8) (d : Bytes) :
    IKEPayloadContainer.BuildIdentificationResponder c t d
      = .ok (c ++ [.IdentificationResponder { IDType := t, IDData := d }]) := by
  simp [IKEPayloadContainer.BuildIdentificationResponder]

theorem BuildIdentificationResponder_refines (c : List IKEPayload) (ps : List Payload)
    (hc : GenAbs.absPayloads c = some ps) (t : UInt8) (d : Bytes) :
    (IKEPayloadContainer.BuildIdentificationResponder c t d).map GenAbs.absPayloads
      = .ok (some (Build.buildIdentificationResponder ps t d)) := by
  rw [BuildIdentificationResponder_eq, map_ok', absPayloads_snoc c ps _ _ hc rfl]
  rfl

theorem BuildAuthentication_eq (c : List IKEPayload) (m : UInt8) (d : Bytes) :
    IKEPayloadContainer.BuildAuthentication c m d
      = .ok (c ++ [.Authentication { AuthenticationMethod := m, AuthenticationData := d }]) := by
  simp [IKEPayloadContainer.BuildAuthentication]

theorem BuildAuthentication_refines (c : List IKEPayload) (ps : List Payload)
    (hc : GenAbs.absPayloads c = some ps) (m : UInt8) (d : Bytes) :
    (IKEPayloadContainer.BuildAuthentication c m d).map GenAbs.absPayloads
      = .ok (some (Build.buildAuthentication ps m d)) := by
  rw [BuildAuthentication_eq, map_ok', absPayloads_snoc c ps _ _ hc rfl]
  rfl

theorem BuildNonce_eq (c : List IKEPayload) (d : Bytes) :
    IKEPayloadContainer.BuildNonce c d = .ok (c ++ [.Nonce { NonceData := d }]) := by
  simp [IKEPayloadContainer.BuildNonce]

theorem BuildNonce_refines (c : List IKEPayload) (ps : List Payload)
    (hc : GenAbs.absPayloads c = some ps) (d : Bytes) :
    (IKEPayloadContainer.BuildNonce c d).map GenAbs.absPayloads = .ok (some (Build.buildNonce ps d)) := by
  rw [BuildNonce_eq, map_ok', absPayloads_snoc c ps _ _ hc rfl]
  rfl

theorem BuildDeletePayload_eq (c : List IKEPayload) (proto spiSize : UInt8) (num : UInt16) (spis : List UInt32) :
    IKEPayloadContainer.BuildDeletePayload c proto spiSize num spis
      = .ok (c ++ [.Delete { ProtocolID := proto, SPISize := spiSize, NumberOfSPI := num, SPIs := spis }]) := by
  simp [IKEPayloadContainer.BuildDeletePayload]

theorem BuildDeletePayload_refines (c : List IKEPayload) (ps : List Payload)
    (hc : GenAbs.absPayloads c = some ps) (proto spiSize : UInt8) (num : UInt16) (spis : List UInt32) :
    (IKEPayloadContainer.BuildDeletePayload c proto spiSize num spis).map GenAbs.absPayloads
      = .ok (some (Build.buildDeletePayload ps proto spiSize num spis)) := by
  rw [BuildDeletePayload_eq, map_ok', absPayloads_snoc c ps _ _ hc rfl]
  rfl

theorem BuildEAPSuccess_eq (c : List IKEPayload) (ident : UInt8) :
    IKEPayloadContainer.BuildEAPSuccess c ident = .ok (c ++ [.PayloadEap { EAP := ⟨3, ident, .none⟩ }]) := rfl

theorem BuildEAPSuccess_refines (c : List IKEPayload) (ps : List Payload)
    (hc : GenAbs.absPayloads c = some ps) (ident : UInt8) :
    (IKEPayloadContainer.BuildEAPSuccess c ident).map GenAbs.absPayloads
      = .ok (some (Build.buildEAPSuccess ps ident)) := by
  rw [BuildEAPSuccess_eq, map_ok', absPayloads_snoc c ps _ _ hc rfl]
  rfl

theorem BuildEAPfailure_eq (c : List IKEPayload) (ident : UInt8) :
    IKEPayloadContainer.BuildEAPfailure c ident = .ok (c ++ [.PayloadEap { EAP := ⟨4, ident, .none⟩ }]) := rfl

theorem BuildEAPfailure_refines (c : List IKEPayload) (ps : List Payload)
    (hc : GenAbs.absPayloads c = some ps) (ident : UInt8) :
    (IKEPayloadContainer.BuildEAPfailure c ident).map GenAbs.absPayloads
      = .ok (some (Build.buildEAPfailure ps ident)) := by
  rw [BuildEAPfailure_eq, map_ok', absPayloads_snoc c ps _ _ hc rfl]
  rfl

/-! ## payload builders that also return (a copy of) the appended element -/

theorem BuildEncrypted_eq (c : List IKEPayload) (next : UInt8) (d : Bytes) :
    IKEPayloadContainer.BuildEncrypted c next d
      = .ok (c ++ [.Encrypted { NextPayload := next, EncryptedData := d }],
             { NextPayload := next, EncryptedData := d }) := by
  simp [IKEPayloadContainer.BuildEncrypted]

theorem BuildEncrypted_refines (c : List IKEPayload) (ps : List Payload)
    (hc : GenAbs.absPayloads c = some ps) (next : UInt8) (d : Bytes) :
    ∃ e, IKEPayloadContainer.BuildEncrypted c next d = .ok (c ++ [.Encrypted e], e) ∧
      GenAbs.absPayloads (c ++ [.Encrypted e]) = some (Build.buildEncrypted ps next d) := by
  refine ⟨_, BuildEncrypted_eq c next d, ?_⟩
  rw [absPayloads_snoc c ps _ _ hc rfl]
  rfl

theorem BuildConfiguration_eq (c : List IKEPayload) (ctype : UInt8) :
    IKEPayloadContainer.BuildConfiguration c ctype
      = .ok (c ++ [.Configuration { ConfigurationType := ctype, ConfigurationAttribute := [] }],
             { ConfigurationType := ctype, ConfigurationAttribute := [] }) := rfl

theorem BuildConfiguration_refines (c : List IKEPayload) (ps : List Payload)
    (hc : GenAbs.absPayloads c = some ps) (ctype : UInt8) :
    ∃ e, IKEPayloadContainer.BuildConfiguration c ctype = .ok (c ++ [.Configuration e], e) ∧
      GenAbs.absPayloads (c ++ [.Configuration e]) = some (Build.buildConfiguration ps ctype) := by
  refine ⟨_, BuildConfiguration_eq c ctype, ?_⟩
  rw [absPayloads_snoc c ps _ _ hc rfl]
  rfl

theorem BuildTrafficSelectorInitiator_eq (c : List IKEPayload) :
    IKEPayloadContainer.BuildTrafficSelectorInitiator c
      = .ok (c ++ [.TrafficSelectorInitiator { TrafficSelectors := [] }], { TrafficSelectors := [] }) := rfl

theorem BuildTrafficSelectorInitiator_refines (c : List IKEPayload) (ps : List Payload)
    (hc : GenAbs.absPayloads c = some ps) :
    ∃ e, IKEPayloadContainer.BuildTrafficSelectorInitiator c = .ok (c ++ [.TrafficSelectorInitiator e], e) ∧
      GenAbs.absPayloads (c ++ [.TrafficSelectorInitiator e]) = some (Build.buildTrafficSelectorInitiator ps) := by
  refine ⟨_, BuildTrafficSelectorInitiator_eq c, ?_⟩
  rw [absPayloads_snoc c ps _ _ hc rfl]
  rfl

theorem BuildTrafficSelectorResponder_eq (c : List IKEPayload) :
    IKEPayloadContainer.BuildTrafficSelectorResponder c
      = .ok (c ++ [.TrafficSelectorResponder { TrafficSelectors := [] }], { TrafficSelectors := [] }) := rfl

theorem BuildTrafficSelectorResponder_refines (c : List IKEPayload) (ps : List Payload)
    (hc : GenAbs.absPayloads c = some ps) :
    ∃ e, IKEPayloadContainer.BuildTrafficSelectorResponder c = .ok (c ++ [.TrafficSelectorResponder e], e) ∧
      GenAbs.absPayloads (c ++ [.TrafficSelectorResponder e]) = some (Build.buildTrafficSelectorResponder ps) := by
  refine ⟨_, BuildTrafficSelectorResponder_eq c, ?_⟩
  rw [absPayloads_snoc c ps _ _ hc rfl]
  rfl

theorem BuildSecurityAssociation_eq (c : List IKEPayload) :
    IKEPayloadContainer.BuildSecurityAssociation c
      = .ok (c ++ [.SecurityAssociation { Proposals := [] }], { Proposals := [] }) := rfl

theorem BuildSecurityAssociation_refines (c : List IKEPayload) (ps : List Payload)
    (hc : GenAbs.absPayloads c = some ps) :
    ∃ e, IKEPayloadContainer.BuildSecurityAssociation c = .ok (c ++ [.SecurityAssociation e], e) ∧
      GenAbs.absPayloads (c ++ [.SecurityAssociation e]) = some (Build.buildSecurityAssociation ps) := by
  refine ⟨_, BuildSecurityAssociation_eq c, ?_⟩
  rw [absPayloads_snoc c ps _ _ hc rfl]
  rfl

theorem BuildEAP_eq (c : List IKEPayload) (code ident : UInt8) :
    IKEPayloadContainer.BuildEAP c code ident
      = .ok (c ++ [.PayloadEap { EAP := ⟨code, ident, .none⟩ }], { EAP := ⟨code, ident, .none⟩ }) := rfl

theorem BuildEAP_refines (c : List IKEPayload) (ps : List Payload)
    (hc : GenAbs.absPayloads c = some ps) (code ident : UInt8) :
    ∃ e, IKEPayloadContainer.BuildEAP c code ident = .ok (c ++ [.PayloadEap e], e) ∧
      GenAbs.absPayloads (c ++ [.PayloadEap e]) = some (Build.buildEAP ps code ident) := by
  refine ⟨_, BuildEAP_eq c code ident, ?_⟩
  rw [absPayloads_snoc c ps _ _ hc rfl]
  rfl

/-- `BuildEAP` followed by the caller's assignment `eap.EapTypeData = data` through the returned
pointer — at value level: replacing the last element by the updated copy — is the model's
`buildEAPWith` (the form in which the model uses `BuildEAP` for the EAP-5G builders). -/
theorem BuildEAP_then_set_refines (c : List IKEPayload) (ps : List Payload)
    (hc : GenAbs.absPayloads c = some ps) (code ident : UInt8) (data : EapData) :
    ∃ e, IKEPayloadContainer.BuildEAP c code ident = .ok (c ++ [.PayloadEap e], e) ∧
      GenAbs.absPayloads (c ++ [.PayloadEap { e with EAP := { e.EAP with data := data } }])
        = some (Build.buildEAPWith ps code ident data) := by
  refine ⟨_, BuildEAP_eq c code ident, ?_⟩
  rw [absPayloads_snoc c ps _ _ hc rfl]
  rfl

/-! ## sub-container builders -/

theorem BuildConfigurationAttribute_eq (l : List IndividualConfigurationAttribute) (t : UInt16) (v : Bytes) :
    ConfigurationAttributeContainer.BuildConfigurationAttribute l t v
      = .ok (l ++ [{ Type_ := t, Value := v }]) := by
  simp [ConfigurationAttributeContainer.BuildConfigurationAttribute]

theorem BuildConfigurationAttribute_refines (l : List IndividualConfigurationAttribute) (t : UInt16) (v : Bytes) :
    (ConfigurationAttributeContainer.BuildConfigurationAttribute l t v).map (List.map GenAbs.absCPAttr)
      = .ok (Build.buildConfigurationAttribute (l.map GenAbs.absCPAttr) t v) := by
  rw [BuildConfigurationAttribute_eq, map_ok', List.map_append]
  rfl

theorem BuildIndividualTrafficSelector_eq (l : List IndividualTrafficSelector) (tstype proto : UInt8)
    (sport eport : UInt16) (saddr eaddr : Bytes) :
    IndividualTrafficSelectorContainer.BuildIndividualTrafficSelector l tstype proto sport eport saddr eaddr
      = .ok (l ++ [{ TSType := tstype, IPProtocolID := proto, StartPort := sport, EndPort := eport,
                     StartAddress := saddr, EndAddress := eaddr }]) := by
  simp [IndividualTrafficSelectorContainer.BuildIndividualTrafficSelector]

theorem BuildIndividualTrafficSelector_refines (l : List IndividualTrafficSelector) (tstype proto : UInt8)
    (sport eport : UInt16) (saddr eaddr : Bytes) :
    (IndividualTrafficSelectorContainer.BuildIndividualTrafficSelector l tstype proto sport eport saddr eaddr).map
        (List.map GenAbs.absTSel)
      = .ok (Build.buildIndividualTrafficSelector (l.map GenAbs.absTSel) tstype proto sport eport saddr eaddr) := by
  rw [BuildIndividualTrafficSelector_eq, map_ok', List.map_append]
  rfl

theorem BuildProposal_eq (l : List Gen.message.Proposal) (num proto : UInt8) (spi : Bytes) :
    ProposalContainer.BuildProposal l num proto spi
      = .ok (l ++ [{ ProposalNumber := num, ProtocolID := proto, SPI := spi }],
             { ProposalNumber := num, ProtocolID := proto, SPI := spi }) := by
  simp [ProposalContainer.BuildProposal]

theorem BuildProposal_refines (l : List Gen.message.Proposal) (num proto : UInt8) (spi : Bytes) :
    ∃ e, ProposalContainer.BuildProposal l num proto spi = .ok (l ++ [e], e) ∧
      (l ++ [e]).map GenAbs.absProposal = Build.buildProposal (l.map GenAbs.absProposal) num proto spi := by
  refine ⟨_, BuildProposal_eq l num proto spi, ?_⟩
  rw [List.map_append]
  rfl

/-- `BuildTransform`, every argument shape (`none` = nil pointer): the generated code never faults
(the two dereferences are guarded by the nil tests) and returns exactly the model's container,
including the case "attribute type without any value", in which nothing is appended. -/
theorem BuildTransform_eq (l : List Gen.message.Transform) (ttype : UInt8) (tid : UInt16)
    (atype aval : Option UInt16) (vval : Bytes) :
    TransformContainer.BuildTransform l ttype tid atype aval vval = .ok (
      match atype, aval with
      | none, _ => l ++ [{ TransformType := ttype, TransformID := tid }]
      | some ty, some av =>
        l ++ [{ TransformType := ttype, TransformID := tid, AttributePresent := true, AttributeFormat := 1,
                AttributeType := ty, AttributeValue := av }]
      | some ty, none =>
        if vval.length ≠ 0 then
          l ++ [{ TransformType := ttype, TransformID := tid, AttributePresent := true, AttributeFormat := 0,
                  AttributeType := ty, VariableLengthAttributeValue := vval }]
        else l) := by
  unfold TransformContainer.BuildTransform
  cases atype with
  | none => simp
  | some ty =>
    cases aval with
    | some av => simp
    | none =>
      by_cases hv : vval.length = 0
      · simp [hv]
      · simp [hv]

theorem BuildTransform_refines (l : List Gen.message.Transform) (ttype : UInt8) (tid : UInt16)
    (atype aval : Option UInt16) (vval : Bytes) :
    (TransformContainer.BuildTransform l ttype tid atype aval vval).map (List.map GenAbs.absTransform)
      = .ok (Build.buildTransform (l.map GenAbs.absTransform) ttype tid atype aval vval) := by
  rw [BuildTransform_eq, map_ok']
  unfold Build.buildTransform
  cases atype with
  | none => simp [GenAbs.absTransform]
  | some ty =>
    cases aval with
    | some av => simp [GenAbs.absTransform, Facts.attrFormatTV]
    | none =>
      by_cases hv : vval.length = 0
      · simp [hv]
      · simp [hv, GenAbs.absTransform, Facts.attrFormatTLV]

/-! ## constructors -/

/-- `NewPayloadEap` (no counterpart in `Ike.Build`): the zero EAP packet -/
theorem NewPayloadEap_eq : NewPayloadEap = .ok { EAP := ⟨0, 0, .none⟩ } := rfl

theorem NewPayloadEap_abs :
    NewPayloadEap.map (fun e => GenAbs.absPayload (.PayloadEap e)) = .ok (some (.eap ⟨0, 0, .none⟩)) := rfl

/-- `NewHeader` as generated (used by `NewMessage`) -/
theorem Build_NewHeader_eq (ispi rspi : UInt64) (exch : UInt8) (response initiator : Bool) (mid : UInt32)
    (next : UInt8) (pb : Bytes) :
    NewHeader ispi rspi exch response initiator mid next pb
      = .ok (GenAbs.repHeader (newHeader ispi rspi exch response initiator mid next pb)) := by
  cases response <;> cases initiator <;>
    simp [NewHeader, newHeader, GenAbs.repHeader, Facts.responseBit, Facts.initiatorBit]

theorem Build_NewHeader_refines (ispi rspi : UInt64) (exch : UInt8) (response initiator : Bool) (mid : UInt32)
    (next : UInt8) (pb : Bytes) :
    (NewHeader ispi rspi exch response initiator mid next pb).map GenAbs.absHeader
      = .ok (newHeader ispi rspi exch response initiator mid next pb) := by
  rw [Build_NewHeader_eq]
  rfl

theorem NewMessage_eq (ispi rspi : UInt64) (exch : UInt8) (response initiator : Bool) (mid : UInt32)
    (c : List IKEPayload) :
    NewMessage ispi rspi exch response initiator mid c
      = .ok { IKEHeader := GenAbs.repHeader (newHeader ispi rspi exch response initiator mid 0 []),
              Payloads := c } := by
  unfold NewMessage
  rw [Build_NewHeader_eq]
  rfl

theorem NewMessage_refines (c : List IKEPayload) (ps : List Payload) (hc : GenAbs.absPayloads c = some ps)
    (ispi rspi : UInt64) (exch : UInt8) (response initiator : Bool) (mid : UInt32) :
    (NewMessage ispi rspi exch response initiator mid c).map absMsgB
      = .ok (some (Build.newMessage ispi rspi exch response initiator mid ps)) := by
  rw [NewMessage_eq, map_ok']
  simp only [absMsgB, hc, Option.map_some]
  rfl

/-! ## 3GPP notify builders -/

/-- `BuildNotifyNAS_TCP_PORT`: port 0 leaves the container as it is; otherwise one Notify payload
(no protocol, no SPI, type 55506) with the two octets of the port in network order. -/
theorem BuildNotifyNAS_TCP_PORT_eq (c : List IKEPayload) (port : UInt16) :
    IKEPayloadContainer.BuildNotifyNAS_TCP_PORT c port = .ok (
      if port = 0 then c
      else c ++ [.Notification { ProtocolID := 0, NotifyMessageType := 55506, SPI := [],
                                 NotificationData := put16 port }]) := by
  unfold IKEPayloadContainer.BuildNotifyNAS_TCP_PORT
  by_cases hp : port = 0
  · simp [hp]
  · have hput : Go.putU16 (zeros 2) 0 (zeros 2).length port = .ok (put16 port) := by
      simp [Go.putU16, Go.splice, zeros]
    simp only [hp, if_false, hput, Res.bind_ok, BuildNotification_eq]

theorem BuildNotifyNAS_TCP_PORT_refines (c : List IKEPayload) (ps : List Payload)
    (hc : GenAbs.absPayloads c = some ps) (port : UInt16) :
    (IKEPayloadContainer.BuildNotifyNAS_TCP_PORT c port).map GenAbs.absPayloads
      = .ok (some (Build.buildNotifyNasTcpPort ps port)) := by
  rw [BuildNotifyNAS_TCP_PORT_eq, map_ok']
  unfold Build.buildNotifyNasTcpPort
  by_cases hp : port = 0
  · simp [hp, hc]
  · simp only [hp, if_false, beq_iff_eq]
    rw [absPayloads_snoc c ps _ _ hc rfl]
    rfl

/-- against TS 24.502: the encoding of the appended payload is `Spec.Ts24502.notifyNasTcpPort` -/
theorem BuildNotifyNAS_TCP_PORT_spec (c : List IKEPayload) (ps : List Payload)
    (hc : GenAbs.absPayloads c = some ps) (port : UInt16) :
    (IKEPayloadContainer.BuildNotifyNAS_TCP_PORT c port).map GenAbs.absPayloads
        = .ok (some (if port = 0 then ps else ps ++ [.notify 0 55506 [] (put16 port)])) ∧
      marshalPayload (.notify 0 55506 [] (put16 port)) = .ok (Spec.Ts24502.notifyNasTcpPort port.toNat) := by
  refine ⟨?_, (C19_notifyTcpPort ps port).2.2⟩
  rw [BuildNotifyNAS_TCP_PORT_refines c ps hc]
  by_cases hp : port = 0
  · rw [(C19_notifyTcpPort ps port).1 hp, if_pos hp]
  · rw [(C19_notifyTcpPort ps port).2.1 hp, if_neg hp]

/-- the notification data `BuildNotify5G_QOS_INFO` assembles octet by octet -/
def qosData (pdu : UInt8) (qfis : Bytes) (isDefault isDSCP : Bool) (dscp : UInt8) : Bytes :=
  let flags : UInt8 := (if isDefault then 2 else 0) ||| (if isDSCP then 1 else 0)
  let body : Bytes := [pdu, UInt8.ofNat qfis.length] ++ qfis ++ [flags] ++ (if isDSCP then [dscp] else [])
  UInt8.ofNat (1 + body.length) :: body

/-- `BuildNotify5G_QOS_INFO`, direct characterisation with both refusal conditions (more than 255
QFIs; more than 255 octets in total); never a fault (the write to `notifyData[0]` is in range). -/
theorem BuildNotify5G_QOS_INFO_eq (c : List IKEPayload) (pdu : UInt8) (qfis : Bytes)
    (isDefault isDSCP : Bool) (dscp : UInt8) :
    IKEPayloadContainer.BuildNotify5G_QOS_INFO c pdu qfis isDefault isDSCP dscp =
      if qfis.length > 255 ∨ 3 + qfis.length + 1 + (if isDSCP then 1 else 0) > 255 then .err
      else .ok (c ++ [.Notification { ProtocolID := 0, NotifyMessageType := 55501, SPI := [],
                                      NotificationData := qosData pdu qfis isDefault isDSCP dscp }]) := by
  unfold IKEPayloadContainer.BuildNotify5G_QOS_INFO qosData
  by_cases h1 : qfis.length > 255
  · simp [h1]
  · simp only [h1, if_false, false_or]
    cases isDSCP <;> cases isDefault <;>
      simp only [Bool.false_eq_true, if_false, if_true, zeros, List.length_append, List.length_cons,
        List.length_nil, List.length_replicate]
    all_goals
      (split <;> try split) <;>
        first
        | rfl
        | omega
        | (simp [Go.setN, BuildNotification_eq, -UInt8.ofNat_add]; exact congrArg _ (by omega))

theorem BuildNotify5G_QOS_INFO_refines (c : List IKEPayload) (ps : List Payload)
    (hc : GenAbs.absPayloads c = some ps) (pdu : UInt8) (qfis : Bytes) (isDefault isDSCP : Bool) (dscp : UInt8) :
    (IKEPayloadContainer.BuildNotify5G_QOS_INFO c pdu qfis isDefault isDSCP dscp).map GenAbs.absPayloads
      = (Build.buildNotify5GQosInfo ps pdu qfis isDefault isDSCP dscp).map some := by
  rw [BuildNotify5G_QOS_INFO_eq]
  unfold Build.buildNotify5GQosInfo qosData
  by_cases h1 : qfis.length > 255
  · simp [h1]
  · simp only [h1, if_false, false_or]
    cases isDSCP <;> cases isDefault <;>
      simp only [Bool.false_eq_true, if_false, if_true, List.length_append, List.length_cons,
        List.length_nil]
    all_goals
      (split <;> try split) <;>
        first
        | rfl
        | omega
        | skip
    all_goals
      rw [map_ok', map_ok', absPayloads_snoc c ps _ _ hc rfl]
      simp [Build.buildNotification, Facts.protoNone, Facts.notify5G_QOS_INFO, Facts.qosBitDCSI,
        Facts.qosBitDSCPI, -UInt8.ofNat_add]
      exact congrArg _ (by omega)

/-- against TS 24.502 §9.3.1.1: `BuildNotify5G_QOS_INFO` as generated succeeds iff the value is
encodable (`qosInfoDefined`), then appends exactly the Notify payload carrying `qosInfoData`, and
otherwise returns an error (never a fault). -/
theorem BuildNotify5G_QOS_INFO_spec (c : List IKEPayload) (ps : List Payload)
    (hc : GenAbs.absPayloads c = some ps) (pdu : UInt8) (qfis : Bytes) (isDefault isDSCP : Bool) (dscp : UInt8) :
    (IKEPayloadContainer.BuildNotify5G_QOS_INFO c pdu qfis isDefault isDSCP dscp).map GenAbs.absPayloads
      = if Spec.Ts24502.qosInfoDefined qfis (if isDSCP then some dscp else none) then
          .ok (some (ps ++ [.notify 0 55501 []
            (Spec.Ts24502.qosInfoData pdu qfis isDefault (if isDSCP then some dscp else none))]))
        else .err := by
  rw [BuildNotify5G_QOS_INFO_refines c ps hc, qos_build_eq]
  unfold Spec.Ts24502.qosInfoDefined
  cases isDSCP <;> simp only [Bool.false_eq_true, if_false, if_true, Option.isSome_none, Option.isSome_some]
  all_goals
    split
    · rw [if_neg (by omega)]; rfl
    · rw [if_pos (by omega)]; rfl

end Ike.Refine
