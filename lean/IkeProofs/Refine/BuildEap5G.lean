import IkeProofs.Refine.Build

/-! The three EAP-5G builders of `message/build.go` as translated: `BuildEapExpanded`, `BuildEAP5GStart`,
`BuildEAP5GNAS`.  They assign `eap.EapTypeData` through the pointer `BuildEAP` returned after appending it to the
container; the translation keeps that pointer as a view of the container's last element (`Go.setAt`). -/

namespace Ike.Refine
open Ike Ike.Gen.message

theorem BuildEapExpanded_eq (v t : UInt32) (d : Bytes) :
    BuildEapExpanded v t d = .ok { VendorID := v, VendorType := t, VendorData := d } := by
  unfold BuildEapExpanded
  simp

theorem setAt_last {α : Type} (c : List α) (x y : α) : Go.setAt (c ++ [x]) ((c ++ [x]).length - 1) y = c ++ [y] := by
  unfold Go.setAt
  have h : (c ++ [x]).length - 1 = c.length := by simp
  rw [h]
  induction c with
  | nil => rfl
  | cons a rest ih => simp [ih]

theorem getElem_last {α : Type} (c : List α) (x : α) : (c ++ [x])[(c ++ [x]).length - 1]? = some x := by
  have h : (c ++ [x]).length - 1 = c.length := by simp
  rw [h]; simp

/-- closed form: the container gains ONE EAP Request payload carrying the Expanded type data -/
theorem BuildEAP5GStart_eq (c : List IKEPayload) (ident : UInt8) :
    IKEPayloadContainer.BuildEAP5GStart c ident =
      .ok (c ++ [.PayloadEap { EAP := ⟨1, ident, .expanded 10415 3 [1, 0]⟩ }]) := by
  unfold IKEPayloadContainer.BuildEAP5GStart
  rw [BuildEAP_eq, BuildEapExpanded_eq]
  simp only [Res.bind_ok, getElem_last, setAt_last]
  rfl

theorem BuildEAP5GStart_refines (c : List IKEPayload) (ps : List Payload)
    (hc : GenAbs.absPayloads c = some ps) (ident : UInt8) :
    (IKEPayloadContainer.BuildEAP5GStart c ident).map GenAbs.absPayloads
      = .ok (some (Build.buildEAP5GStart ps ident)) := by
  rw [BuildEAP5GStart_eq, map_ok', absPayloads_snoc c ps _ _ hc rfl]
  rfl

/-- closed form of `BuildEAP5GNAS`: refused for an empty or oversize PDU (container untouched: an error carries no
state), otherwise ONE EAP Request / Expanded payload whose vendor data is message id 2, spare 0, the 16-bit length
and the PDU -/
theorem BuildEAP5GNAS_eq (c : List IKEPayload) (ident : UInt8) (nas : Bytes) :
    IKEPayloadContainer.BuildEAP5GNAS c ident nas =
      if nas.length = 0 then .err else if nas.length > 65535 then .err else
      .ok (c ++ [.PayloadEap { EAP := ⟨1, ident,
        .expanded 10415 3 ([2, 0] ++ put16 (UInt16.ofNat nas.length) ++ nas)⟩ }]) := by
  unfold IKEPayloadContainer.BuildEAP5GNAS
  by_cases h0 : nas.length = 0
  · rw [if_pos h0, if_pos h0]
  · rw [if_neg h0, if_neg h0]
    simp only []
    by_cases h1 : nas.length > 65535
    · have : Go.setN (zeros 4) 0 (2 : UInt8) = .ok [2, 0, 0, 0] := rfl
      rw [this]; simp only [Res.bind_ok]; rw [if_pos h1, if_pos h1]
    · have hs : Go.setN (zeros 4) 0 (2 : UInt8) = .ok [2, 0, 0, 0] := rfl
      rw [hs]; simp only [Res.bind_ok]; rw [if_neg h1, if_neg h1]
      have hp : Go.putU16 [2, 0, 0, 0] 2 4 (UInt16.ofNat nas.length) = .ok ([2, 0] ++ put16 (UInt16.ofNat nas.length)) := by
        unfold Go.putU16 Go.splice
        have hl : (put16 (UInt16.ofNat nas.length)).length = 2 := rfl
        simp [hl]
      rw [hp]
      simp only [Res.bind_ok, BuildEAP_eq, BuildEapExpanded_eq, getElem_last, setAt_last, List.nil_append]
      rfl

theorem BuildEAP5GNAS_refines (c : List IKEPayload) (ps : List Payload)
    (hc : GenAbs.absPayloads c = some ps) (ident : UInt8) (nas : Bytes) :
    (IKEPayloadContainer.BuildEAP5GNAS c ident nas).map GenAbs.absPayloads
      = (Build.buildEAP5GNAS ps ident nas).map some := by
  rw [BuildEAP5GNAS_eq]
  unfold Build.buildEAP5GNAS
  by_cases h0 : nas.length = 0
  · rw [if_pos h0, if_pos h0]; rfl
  · rw [if_neg h0, if_neg h0]
    by_cases h1 : nas.length > 65535
    · rw [if_pos h1, if_pos (by simpa using h1)]; rfl
    · rw [if_neg h1, if_neg (by simpa using h1)]
      rw [map_ok', absPayloads_snoc c ps _ _ hc rfl]
      rfl

end Ike.Refine
