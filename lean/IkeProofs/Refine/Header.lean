import IkeProofs.Refine.Basic

/-! `message/header.go` as generated ⊑ the hand-written model (`IkeModel/Message/Header.lean`). -/

set_option linter.unusedSimpArgs false

namespace Ike.Refine
open Ike Ike.Gen.message

/-! ### reading: `Go.u64At` -/

theorem u64At_eq (b : Bytes) (lo hi : Nat) (h : hi = lo + 8) : Go.u64At b lo hi = goU64 b lo := by
  subst h
  unfold Go.u64At goSlice goU64 Go.beU64
  by_cases hl : lo + 8 ≤ b.length
  · have h1 : lo ≤ lo + 8 ∧ lo + 8 ≤ b.length := ⟨by omega, hl⟩
    have h2 : 8 ≤ ((b.take (lo + 8)).drop lo).length := by simp; omega
    simp only [h1, and_self, if_true, hl, Res.bind_ok, h2]
    unfold be64
    rw [List.drop_take, List.take_take]
    have : min 8 (lo + 8 - lo) = 8 := by omega
    rw [this]
  · have : ¬ (lo ≤ lo + 8 ∧ lo + 8 ≤ b.length) := by omega
    simp [this, hl]

/-! ### writing: `Go.splice`, `Go.putU16/32/64`, `Go.setN` on lists of known shape -/

@[simp] private theorem put16_length (v : UInt16) : (put16 v).length = 2 := rfl
@[simp] private theorem put32_length (v : UInt32) : (put32 v).length = 4 := rfl
@[simp] private theorem put64_length (v : UInt64) : (put64 v).length = 8 := rfl

/-- overwrite the middle window `w` of `a ++ w ++ c` by `v` of the same length -/
private theorem splice_mid (a w c v : Bytes) (off : Nat) (ho : off = a.length) (hw : w.length = v.length) :
    Go.splice (a ++ w ++ c) off v = a ++ v ++ c := by
  subst ho
  unfold Go.splice
  rw [List.append_assoc a w c, List.take_left, ← hw, ← List.append_assoc a w c,
    ← List.length_append, List.drop_left]

/-- overwrite the leading window -/
private theorem splice_head (w c v : Bytes) (hw : w.length = v.length) :
    Go.splice (w ++ c) 0 v = v ++ c := by
  have := splice_mid [] w c v 0 rfl hw
  simpa using this

/-- overwrite the trailing window -/
private theorem splice_last (a w v : Bytes) (off : Nat) (ho : off = a.length) (hw : w.length = v.length) :
    Go.splice (a ++ w) off v = a ++ v := by
  have := splice_mid a w [] v off ho hw
  simpa using this

private theorem splice_length (d v : Bytes) (off : Nat) (h : off + v.length ≤ d.length) :
    (Go.splice d off v).length = d.length := by
  unfold Go.splice
  simp only [List.length_append, List.length_take, List.length_drop]
  omega

/-- every list splits around a window that fits -/
private theorem split_window (d : Bytes) (off n : Nat) (h : off + n ≤ d.length) :
    d = d.take off ++ (d.drop off).take n ++ d.drop (off + n) ∧
      (d.take off).length = off ∧ ((d.drop off).take n).length = n := by
  refine ⟨?_, ?_, ?_⟩
  · rw [List.append_assoc, ← List.drop_drop, List.take_append_drop, List.take_append_drop]
  · simp; omega
  · simp; omega

private theorem putU16_mid (a w c : Bytes) (lo hi : Nat) (v : UInt16) (ho : lo = a.length)
    (hw : w.length = 2) (hh : hi = lo + 2) :
    Go.putU16 (a ++ w ++ c) lo hi v = Res.ok (a ++ put16 v ++ c) := by
  unfold Go.putU16
  have : lo + 2 ≤ hi ∧ hi ≤ (a ++ w ++ c).length := by
    simp only [List.length_append]; omega
  rw [if_pos this, splice_mid a w c (put16 v) lo ho (by simp [hw])]

private theorem putU32_mid (a w c : Bytes) (lo hi : Nat) (v : UInt32) (ho : lo = a.length)
    (hw : w.length = 4) (hh : hi = lo + 4) :
    Go.putU32 (a ++ w ++ c) lo hi v = Res.ok (a ++ put32 v ++ c) := by
  unfold Go.putU32
  have : lo + 4 ≤ hi ∧ hi ≤ (a ++ w ++ c).length := by
    simp only [List.length_append]; omega
  rw [if_pos this, splice_mid a w c (put32 v) lo ho (by simp [hw])]

private theorem putU64_mid (a w c : Bytes) (lo hi : Nat) (v : UInt64) (ho : lo = a.length)
    (hw : w.length = 8) (hh : hi = lo + 8) :
    Go.putU64 (a ++ w ++ c) lo hi v = Res.ok (a ++ put64 v ++ c) := by
  unfold Go.putU64
  have : lo + 8 ≤ hi ∧ hi ≤ (a ++ w ++ c).length := by
    simp only [List.length_append]; omega
  rw [if_pos this, splice_mid a w c (put64 v) lo ho (by simp [hw])]

private theorem putU16_last (a w : Bytes) (lo hi : Nat) (v : UInt16) (ho : lo = a.length)
    (hw : w.length = 2) (hh : hi = lo + 2) :
    Go.putU16 (a ++ w) lo hi v = Res.ok (a ++ put16 v) := by
  have := putU16_mid a w [] lo hi v ho hw hh
  simpa using this

private theorem putU32_last (a w : Bytes) (lo hi : Nat) (v : UInt32) (ho : lo = a.length)
    (hw : w.length = 4) (hh : hi = lo + 4) :
    Go.putU32 (a ++ w) lo hi v = Res.ok (a ++ put32 v) := by
  have := putU32_mid a w [] lo hi v ho hw hh
  simpa using this

private theorem putU64_last (a w : Bytes) (lo hi : Nat) (v : UInt64) (ho : lo = a.length)
    (hw : w.length = 8) (hh : hi = lo + 8) :
    Go.putU64 (a ++ w) lo hi v = Res.ok (a ++ put64 v) := by
  have := putU64_mid a w [] lo hi v ho hw hh
  simpa using this

/-- `d[i] = v` on `a ++ x :: c` with `i = |a|` -/
private theorem setN_mid {α : Type} (a c : List α) (x v : α) (i : Nat) (hi : i = a.length) :
    Go.setN (a ++ x :: c) i v = Res.ok (a ++ v :: c) := by
  subst hi
  unfold Go.setN
  have : a.length < (a ++ x :: c).length := by simp
  rw [if_pos this, List.set_append_right _ _ (Nat.le_refl _)]
  simp

private theorem setN_ok {α : Type} (l : List α) (i : Nat) (v : α) (h : i < l.length) :
    Go.setN l i v = Res.ok (l.set i v) := by
  simp [Go.setN, h]

private theorem putU16_ok (d : Bytes) (lo hi : Nat) (v : UInt16) (h1 : lo + 2 ≤ hi) (h2 : hi ≤ d.length) :
    Go.putU16 d lo hi v = Res.ok (Go.splice d lo (put16 v)) := by
  simp [Go.putU16, h1, h2]

private theorem putU32_ok (d : Bytes) (lo hi : Nat) (v : UInt32) (h1 : lo + 4 ≤ hi) (h2 : hi ≤ d.length) :
    Go.putU32 d lo hi v = Res.ok (Go.splice d lo (put32 v)) := by
  simp [Go.putU32, h1, h2]

private theorem putU64_ok (d : Bytes) (lo hi : Nat) (v : UInt64) (h1 : lo + 8 ≤ hi) (h2 : hi ≤ d.length) :
    Go.putU64 d lo hi v = Res.ok (Go.splice d lo (put64 v)) := by
  simp [Go.putU64, h1, h2]

/-- `zeros` splits additively -/
private theorem zeros_add (m n : Nat) : zeros (m + n) = zeros m ++ zeros n := by
  simp [zeros, List.replicate_append_replicate]

private theorem zeros_succ (n : Nat) : zeros (n + 1) = 0 :: zeros n := by
  simp [zeros, List.replicate_succ]

/-! ### `ParseHeader` -/

theorem ParseHeader_refines (b : Bytes) : (ParseHeader b).map GenAbs.absHeader = parseHeader b := by
  unfold ParseHeader parseHeader
  have hc : UInt32.ofNat Facts.ikeHeaderLen = (28 : UInt32) := rfl
  have hn : Facts.ikeHeaderLen = 28 := rfl
  simp only [u32At_eq _ 24 28 rfl, u32At_eq _ 20 24 rfl, u64At_eq _ 0 8 rfl, u64At_eq _ 8 16 rfl,
    hc, hn]
  by_cases h0 : b.length < 28
  · simp [h0]
  · simp only [h0, if_false]
    cases goU32 b 24 with
    | ok total =>
      simp only [Res.bind_ok]
      by_cases ht : total < 28
      · simp [ht]
      · have hl : 28 ≤ b.length := by omega
        simp only [ht, if_false]
        rw [goU64_ok (b := b) (off := 0) (by omega), goU64_ok (b := b) (off := 8) (by omega),
          goIndex_ok (b := b) (i := 16) (by omega), goIndex_ok (b := b) (i := 17) (by omega),
          goIndex_ok (b := b) (i := 18) (by omega), goIndex_ok (b := b) (i := 19) (by omega),
          goU32_ok (b := b) (off := 20) (by omega), goFrom_ok (b := b) (lo := 28) hl]
        have ht' : 28 ≤ total := UInt32.not_lt.mp ht
        simp [GenAbs.absHeader, ht']
    | err => simp
    | fault => simp

/-! ### `IKEHeader.Marshal` -/

/-- the 28 fixed octets, written field by field into `zeros 28` -/
private theorem marshal_fixed (i r : UInt64) (np v ex fl : UInt8) (mid : UInt32) (k : Bytes → Res Bytes) :
    ((Go.putU64 (zeros 28) 0 8 i) >>= fun t1 =>
     (Go.putU64 t1 8 16 r) >>= fun t2 =>
     (Go.setN t2 16 np) >>= fun t3 =>
     (Go.setN t3 17 v) >>= fun t4 =>
     (Go.setN t4 18 ex) >>= fun t5 =>
     (Go.setN t5 19 fl) >>= fun t6 =>
     (Go.putU32 t6 20 24 mid) >>= k) =
    k (put64 i ++ put64 r ++ [np, v, ex, fl] ++ put32 mid ++ zeros 4) := by
  have hz : zeros 28 = [] ++ zeros 8 ++ (zeros 8 ++ 0 :: 0 :: 0 :: 0 :: (zeros 4 ++ zeros 4)) := by
    simp [zeros, List.replicate]
  rw [hz, putU64_mid [] (zeros 8) _ 0 8 i rfl (by simp) rfl]
  simp only [Res.bind_ok, List.nil_append]
  rw [← List.append_assoc, putU64_mid (put64 i) (zeros 8) _ 8 16 r (by simp) (by simp) rfl]
  simp only [Res.bind_ok]
  rw [setN_mid (put64 i ++ put64 r) _ 0 np 16 (by simp)]
  simp only [Res.bind_ok]
  have e1 : ∀ t : Bytes, put64 i ++ put64 r ++ np :: t = (put64 i ++ put64 r ++ [np]) ++ t := by simp
  rw [e1, setN_mid _ _ 0 v 17 (by simp)]
  simp only [Res.bind_ok]
  have e2 : ∀ t : Bytes, put64 i ++ put64 r ++ [np] ++ v :: t = (put64 i ++ put64 r ++ [np, v]) ++ t := by simp
  rw [e2, setN_mid _ _ 0 ex 18 (by simp)]
  simp only [Res.bind_ok]
  have e3 : ∀ t : Bytes, put64 i ++ put64 r ++ [np, v] ++ ex :: t = (put64 i ++ put64 r ++ [np, v, ex]) ++ t := by simp
  rw [e3, setN_mid _ _ 0 fl 19 (by simp)]
  simp only [Res.bind_ok]
  have e4 : ∀ t u : Bytes, put64 i ++ put64 r ++ [np, v, ex] ++ fl :: (t ++ u) =
      (put64 i ++ put64 r ++ [np, v, ex, fl]) ++ t ++ u := by simp
  rw [e4, putU32_mid _ (zeros 4) _ 20 24 mid (by simp) (by simp) rfl]
  simp only [Res.bind_ok]

theorem IKEHeader_Marshal_refines (h : Gen.message.IKEHeader) :
    IKEHeader.Marshal h = marshalHeader (GenAbs.absHeader h) := by
  unfold IKEHeader.Marshal marshalHeader
  simp only []
  rw [marshal_fixed]
  have hn : Facts.ikeHeaderLen = 28 := rfl
  simp only [GenAbs.absHeader, hn]
  by_cases ht : 28 + h.PayloadBytes.length > 4294967295
  · have ht' : 28 + h.PayloadBytes.length > 0xFFFFFFFF := ht
    simp only [ht, ht', if_true]
  · have ht' : ¬ 28 + h.PayloadBytes.length > 0xFFFFFFFF := ht
    simp only [ht, ht', if_false]
    rw [putU32_last _ (zeros 4) 24 28 _ (by simp) (by simp) rfl]
    simp only [Res.bind_ok]
    by_cases hp : h.PayloadBytes.length > 0
    · simp only [hp, if_true]
    · have : h.PayloadBytes = [] := List.eq_nil_of_length_eq_zero (by omega)
      simp [this]

/-! ### `NewHeader`, `IsResponse`, `IsInitiator` -/

theorem NewHeader_refines (i r : UInt64) (ex : UInt8) (resp init : Bool) (mid : UInt32) (np : UInt8)
    (pb : Bytes) :
    (NewHeader i r ex resp init mid np pb).map GenAbs.absHeader =
      Res.ok (newHeader i r ex resp init mid np pb) := by
  unfold NewHeader newHeader
  cases resp <;> cases init <;>
    simp [GenAbs.absHeader, Facts.responseBit, Facts.initiatorBit]

private theorem decide_ne_eq_bne {α : Type} [DecidableEq α] (a b : α) : decide (a ≠ b) = (a != b) := by
  by_cases h : a = b <;> simp [h]

theorem IsResponse_refines (h : Gen.message.IKEHeader) :
    IKEHeader.IsResponse h = Res.ok (GenAbs.absHeader h).isResponse := by
  unfold IKEHeader.IsResponse Header.isResponse
  rw [decide_ne_eq_bne]
  rfl

theorem IsInitiator_refines (h : Gen.message.IKEHeader) :
    IKEHeader.IsInitiator h = Res.ok (GenAbs.absHeader h).isInitiator := by
  unfold IKEHeader.IsInitiator Header.isInitiator
  rw [decide_ne_eq_bne]
  rfl

end Ike.Refine
