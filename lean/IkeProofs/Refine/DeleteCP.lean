import IkeProofs.Refine.Basic

/-! `message.(*Delete).{Unmarshal,Marshal}` and `message.(*Configuration).{Unmarshal,Marshal}` as
generated ⊑ `unmarshalDelete` / `marshalDelete` / `unmarshalCP` / `marshalCP`. -/

set_option linter.unusedSimpArgs false
set_option linter.unusedVariables false

namespace Ike.Refine
open Ike Ike.Gen.message

/-! ### reusable lemmas: `Res`, `zeros`, `Go.setN`, `Go.splice`, `Go.putU16`, `Go.putU32` -/

/-- `x >>= fun a => ok (f a)` is `x.map f` -/
private theorem bind_ok_eq_map {α β : Type} (x : Res α) (f : α → β) :
    (x >>= fun a => Res.ok (f a)) = x.map f := by
  cases x <;> rfl

private theorem map_map' {α β γ : Type} (x : Res α) (f : α → β) (g : β → γ) :
    (x.map f).map g = x.map (fun a => g (f a)) := by
  cases x <;> rfl

private theorem map_bind' {α β γ : Type} (x : Res α) (f : α → Res β) (g : β → γ) :
    (x >>= f).map g = x >>= fun a => (f a).map g := by
  cases x <;> rfl

@[simp] private theorem put16_length (v : UInt16) : (put16 v).length = 2 := rfl
@[simp] private theorem put32_length (v : UInt32) : (put32 v).length = 4 := rfl

private theorem zeros_zero : zeros 0 = [] := rfl
private theorem zeros_succ (n : Nat) : zeros (n + 1) = 0 :: zeros n := rfl
private theorem zeros_four : zeros 4 = [0, 0, 0, 0] := rfl

private theorem drop_zeros (n k : Nat) : (zeros n).drop k = zeros (n - k) := by
  simp [zeros]

private theorem take_zeros (n k : Nat) : (zeros n).take k = zeros (min k n) := by
  simp [zeros]

private theorem setN_cons_zero {α : Type} (a v : α) (l : List α) :
    Go.setN (a :: l) 0 v = Res.ok (v :: l) := by
  simp [Go.setN]

private theorem setN_cons_succ {α : Type} (a v : α) (l : List α) (i : Nat) :
    Go.setN (a :: l) (i + 1) v = (Go.setN l i v).map (a :: ·) := by
  unfold Go.setN
  by_cases h : i < l.length <;> simp [h]

private theorem setN_zeros (n i : Nat) (v : UInt8) (h : i < n) :
    Go.setN (zeros n) i v = Res.ok (zeros i ++ v :: zeros (n - i - 1)) := by
  unfold Go.setN
  simp only [zeros, List.length_replicate, h, if_true]
  congr 1
  apply List.ext_getElem
  · simp; omega
  · intro k h1 h2
    simp only [List.getElem_set, List.getElem_replicate, List.getElem_append, List.length_replicate,
      List.getElem_cons]
    by_cases hk : i = k
    · subst hk; simp
    · by_cases hlt : k < i
      · simp [hk, hlt]
      · have : ¬ k - i = 0 := by omega
        simp [hk, hlt, this]

private theorem splice_zero (d v : Bytes) : Go.splice d 0 v = v ++ d.drop v.length := by
  simp [Go.splice]

private theorem splice_cons (a : UInt8) (d v : Bytes) (off : Nat) :
    Go.splice (a :: d) (off + 1) v = a :: Go.splice d off v := by
  simp only [Go.splice, List.take_succ_cons, List.cons_append]
  have : off + 1 + v.length = (off + v.length) + 1 := by omega
  rw [this, List.drop_succ_cons]

private theorem splice_length (d v : Bytes) (off : Nat) (h : off + v.length ≤ d.length) :
    (Go.splice d off v).length = d.length := by
  simp [Go.splice]; omega

private theorem putU16_zero (d : Bytes) (hi : Nat) (v : UInt16) (h1 : 2 ≤ hi) (h2 : hi ≤ d.length) :
    Go.putU16 d 0 hi v = Res.ok (put16 v ++ d.drop 2) := by
  have : 0 + 2 ≤ hi ∧ hi ≤ d.length := by omega
  simp [Go.putU16, this, splice_zero]

private theorem putU16_cons (a : UInt8) (d : Bytes) (lo hi : Nat) (v : UInt16) :
    Go.putU16 (a :: d) (lo + 1) (hi + 1) v = (Go.putU16 d lo hi v).map (a :: ·) := by
  unfold Go.putU16
  by_cases h : lo + 2 ≤ hi ∧ hi ≤ d.length
  · have h' : lo + 1 + 2 ≤ hi + 1 ∧ hi + 1 ≤ (a :: d).length := by simp; omega
    simp only [h, h', and_self, if_true, map_ok', splice_cons]
  · have h' : ¬ (lo + 1 + 2 ≤ hi + 1 ∧ hi + 1 ≤ (a :: d).length) := by simp; omega
    simp only [h, h', if_false, map_fault']

/-- `PutUint16(d[0:2], v)` on a fresh `make([]byte, n)` -/
private theorem putU16_zeros_0_2 (n : Nat) (v : UInt16) (h : 2 ≤ n) :
    Go.putU16 (zeros n) 0 2 v = Res.ok (put16 v ++ zeros (n - 2)) := by
  rw [putU16_zero _ _ _ (by omega) (by simp; omega), drop_zeros]

/-- `PutUint16(d[2:4], v)` on a four-octet buffer -/
private theorem putU16_2_4 (a b c d : UInt8) (v : UInt16) :
    Go.putU16 [a, b, c, d] 2 4 v = Res.ok ([a, b] ++ put16 v) := by
  simp [Go.putU16, Go.splice, put16]

private theorem putU32_zero (d : Bytes) (hi : Nat) (v : UInt32) (h1 : 4 ≤ hi) (h2 : hi ≤ d.length) :
    Go.putU32 d 0 hi v = Res.ok (put32 v ++ d.drop 4) := by
  have : 0 + 4 ≤ hi ∧ hi ≤ d.length := by omega
  simp [Go.putU32, this, splice_zero]

private theorem putU32_cons (a : UInt8) (d : Bytes) (lo hi : Nat) (v : UInt32) :
    Go.putU32 (a :: d) (lo + 1) (hi + 1) v = (Go.putU32 d lo hi v).map (a :: ·) := by
  unfold Go.putU32
  by_cases h : lo + 4 ≤ hi ∧ hi ≤ d.length
  · have h' : lo + 1 + 4 ≤ hi + 1 ∧ hi + 1 ≤ (a :: d).length := by simp; omega
    simp only [h, h', and_self, if_true, map_ok', splice_cons]
  · have h' : ¬ (lo + 1 + 4 ≤ hi + 1 ∧ hi + 1 ≤ (a :: d).length) := by simp; omega
    simp only [h, h', if_false, map_fault']

/-- `PutUint32(d, v)` on the whole of a buffer shorter than four octets panics -/
private theorem putU32_whole_short (d : Bytes) (v : UInt32) (h : d.length < 4) :
    Go.putU32 d 0 d.length v = Res.fault := by
  have : ¬ (0 + 4 ≤ d.length ∧ d.length ≤ d.length) := by omega
  unfold Go.putU32
  rw [if_neg this]

/-- `PutUint32(d, v)` on the whole of a buffer of at least four octets -/
private theorem putU32_whole (d : Bytes) (v : UInt32) (h : 4 ≤ d.length) :
    Go.putU32 d 0 d.length v = Res.ok (put32 v ++ d.drop 4) :=
  putU32_zero d d.length v h (Nat.le_refl _)

/-- `b[i:]` starts with `b[i]` -/
private theorem drop_eq_byteAt_cons (b : Bytes) (i : Nat) (h : i < b.length) :
    b.drop i = byteAt b i :: b.drop (i + 1) := by
  rw [List.drop_eq_getElem_cons h]
  simp [byteAt, h]

private theorem drop_eq_byteAt_cons4 (b : Bytes) (i : Nat) (h : i + 4 ≤ b.length) :
    b.drop i = byteAt b i :: byteAt b (i + 1) :: byteAt b (i + 2) :: byteAt b (i + 3) :: b.drop (i + 4) := by
  rw [drop_eq_byteAt_cons b i (by omega), drop_eq_byteAt_cons b (i + 1) (by omega),
    drop_eq_byteAt_cons b (i + 2) (by omega), drop_eq_byteAt_cons b (i + 3) (by omega)]

/-! ### Delete.Unmarshal -/

private theorem deleteSPIs_short (m : Nat) (l : Bytes) (h : l.length < 4) : deleteSPIs (m + 1) l = Res.fault := by
  match l, h with
  | [], _ => rfl
  | [_], _ => rfl
  | [_, _], _ => rfl
  | [_, _, _], _ => rfl
  | _ :: _ :: _ :: _ :: _, h => simp at h; omega

private theorem Delete_Unmarshal_loop (b : Bytes) (n : UInt16) :
    ∀ (m fuel i : Nat) (d : Gen.message.Delete) (spi : UInt32), i + 4 * m = 4 * n.toNat → m < fuel →
      (Delete.Unmarshal.loop1 fuel b n d spi i).map (·.1)
        = (deleteSPIs m (b.drop i)).map (fun l => { d with SPIs := d.SPIs ++ l }) := by
  intro m
  induction m with
  | zero =>
    intro fuel i d spi hi hf
    cases fuel with
    | zero => omega
    | succ fuel =>
      have : ¬ i < 4 * n.toNat := by omega
      simp [Delete.Unmarshal.loop1, this, deleteSPIs]
  | succ m ih =>
    intro fuel i d spi hi hf
    cases fuel with
    | zero => omega
    | succ fuel =>
      have : i < 4 * n.toNat := by omega
      simp only [Delete.Unmarshal.loop1, this, if_true, u32At_eq b i (i + 4) rfl]
      by_cases hl : i + 4 ≤ b.length
      · rw [goU32_ok hl, drop_eq_byteAt_cons4 b i hl]
        simp only [Res.bind_ok, deleteSPIs]
        rw [ih fuel (i + 4) _ _ (by omega) (by omega)]
        cases deleteSPIs m (b.drop (i + 4)) <;> simp
      · have : (b.drop i).length < 4 := by simp; omega
        rw [deleteSPIs_short m _ this]
        simp [goU32, hl]

theorem Delete_Unmarshal_refines (b : Bytes) :
    (Delete.Unmarshal {} b).map (fun v => GenAbs.absPayload (.Delete v)) = (unmarshalDelete b).map some := by
  unfold Delete.Unmarshal unmarshalDelete
  simp only [u16At_eq _ 2 4 rfl]
  by_cases h0 : b.length = 0
  · simp [h0, GenAbs.absPayload]
  · have h0' : b.length > 0 := by omega
    simp only [h0, h0', if_true, if_false]
    split
    · simp
    · cases goIndex b 1 with
      | err => simp
      | fault => simp
      | ok s =>
        cases goU16 b 2 with
        | err => simp
        | fault => simp
        | ok n =>
          simp only [Res.bind_ok]
          split
          · simp
          · have hc : (n > 0 ∧ s ≠ 4) ↔ ((decide (n.toNat > 0) && (s != 4)) = true) := by
              simp [UInt16.lt_iff_toNat_lt]
            by_cases hg : (n > 0 ∧ s ≠ 4)
            · have hg' := hc.mp hg
              rw [if_pos hg, if_pos hg']; simp
            · have hg' : ¬ ((decide (n.toNat > 0) && (s != 4)) = true) := fun h => hg (hc.mpr h)
              rw [if_neg hg, if_neg hg']
              cases goIndex b 0 with
              | err => simp
              | fault => simp
              | ok p =>
                cases hb : goFrom b 4 with
                | err => simp
                | fault => simp
                | ok r =>
                  simp only [Res.bind_ok, bind_ok_eq_map]
                  have := Delete_Unmarshal_loop r n n.toNat (4 * n.toNat - 0 + 2) 0
                    { ProtocolID := p, SPISize := s, NumberOfSPI := n } 0 (by omega) (by omega)
                  simp only [List.drop_zero] at this
                  rw [this]
                  cases deleteSPIs n.toNat r <;> simp [GenAbs.absPayload]

/-! ### Delete.Marshal -/

private theorem Delete_Marshal_loop :
    ∀ (xs : List UInt32) (idx : Nat) (dd bs : Bytes), bs.drop 4 = zeros (bs.length - 4) →
      (Delete.Marshal.loop1 xs idx dd bs).map (·.1) = (marshalDeleteSPIs bs.length xs).map (dd ++ ·) := by
  intro xs
  induction xs with
  | nil => intro idx dd bs _; simp [Delete.Marshal.loop1, marshalDeleteSPIs]
  | cons v rest ih =>
    intro idx dd bs hz
    unfold Delete.Marshal.loop1 marshalDeleteSPIs
    by_cases hl : bs.length < 4
    · simp [putU32_whole_short bs v hl, hl]
    · have hl' : 4 ≤ bs.length := by omega
      rw [putU32_whole bs v hl']
      simp only [Res.bind_ok, hl, if_false]
      have hlen : (put32 v ++ bs.drop 4).length = bs.length := by simp; omega
      have hz' : (put32 v ++ bs.drop 4).drop 4 = zeros ((put32 v ++ bs.drop 4).length - 4) := by
        rw [hlen, ← hz]; simp [put32]
      rw [ih (idx + 1) _ _ hz', hlen, hz]
      cases marshalDeleteSPIs bs.length rest <;> simp

theorem Delete_Marshal_refines (v : Gen.message.Delete) :
    Delete.Marshal v = marshalDelete v.ProtocolID v.SPISize v.NumberOfSPI v.SPIs := by
  unfold Delete.Marshal marshalDelete
  by_cases hn : v.SPIs.length ≠ v.NumberOfSPI.toNat
  · simp [hn]
  · simp only [hn, if_false, zeros_four, setN_cons_zero, setN_cons_succ, putU16_2_4, Res.bind_ok, map_ok']
    by_cases hp : v.NumberOfSPI.toNat > 0
    · simp only [hp, if_true, bind_ok_eq_map]
      have := Delete_Marshal_loop v.SPIs 0 ([v.ProtocolID, v.SPISize] ++ put16 v.NumberOfSPI)
        (zeros v.SPISize.toNat) (by rw [drop_zeros, zeros_length])
      rw [zeros_length] at this
      rw [this]
    · simp [hp]

/-! ### Configuration.Unmarshal -/

private theorem Configuration_Unmarshal_loop :
    ∀ (fuel : Nat) (c : Gen.message.Configuration) (d : Bytes), d.length < fuel →
      (Configuration.Unmarshal.loop1 fuel c d).map
          (fun s => (s.1.ConfigurationType, s.1.ConfigurationAttribute.map GenAbs.absCPAttr))
        = (unmarshalCPAttrs d).map
          (fun l => (c.ConfigurationType, c.ConfigurationAttribute.map GenAbs.absCPAttr ++ l)) := by
  intro fuel
  induction fuel with
  | zero => intro c d h; omega
  | succ fuel ih =>
    intro c d hf
    rw [unmarshalCPAttrs]
    unfold Configuration.Unmarshal.loop1 parseCPAttr
    simp only [u16At_eq _ 2 4 rfl, u16At_eq _ 0 2 rfl]
    by_cases h0 : d.length = 0
    · simp [h0]
    · have h0' : d.length > 0 := by omega
      simp only [h0, h0', if_true, if_false, dite_false]
      by_cases h4 : d.length < 4
      · simp [h4]
      · simp only [h4, if_false]
        rw [goU16_ok (b := d) (off := 2) (by omega), goU16_ok (b := d) (off := 0) (by omega)]
        simp only [Res.bind_ok]
        generalize be16 (byteAt d 2) (byteAt d (2 + 1)) = len
        by_cases hlen : d.length < 4 + len.toNat
        · simp [hlen]
        · simp only [hlen, if_false]
          rw [goFrom_ok (b := d) (lo := 4) (by omega)]
          simp only [Res.bind_ok]
          rw [goSlice_ok (b := d.drop 4) (lo := 0) (hi := len.toNat) (by omega) (by simp; omega),
            goFrom_ok (b := d.drop 4) (lo := len.toNat) (by simp; omega),
            goSlice_ok (b := d) (lo := 4) (hi := 4 + len.toNat) (by omega) (by omega)]
          simp only [Res.bind_ok]
          have hn : 0 < 4 + len.toNat ∧ 4 + len.toNat ≤ d.length := by omega
          simp only [hn, and_self, dite_true]
          have hdd : (d.drop 4).drop len.toNat = d.drop (4 + len.toNat) := by
            rw [List.drop_drop]
          rw [hdd, ih _ _ (by simp; omega)]
          have hv : ((d.drop 4).take len.toNat).drop 0 = (d.take (4 + len.toNat)).drop 4 := by
            rw [List.drop_zero, List.drop_take]; congr 1; omega
          cases unmarshalCPAttrs (d.drop (4 + len.toNat)) <;> simp [GenAbs.absCPAttr, hv]

theorem Configuration_Unmarshal_refines (b : Bytes) :
    (Configuration.Unmarshal {} b).map (fun v => GenAbs.absPayload (.Configuration v)) = (unmarshalCP b).map some := by
  unfold Configuration.Unmarshal unmarshalCP
  by_cases h4 : b.length ≤ 4
  · simp [h4]
  · simp only [h4, if_false]
    cases goIndex b 0 with
    | err => simp
    | fault => simp
    | ok t =>
      cases goFrom b 4 with
      | err => simp
      | fault => simp
      | ok d =>
        simp only [Res.bind_ok, bind_ok_eq_map, map_map', GenAbs.absPayload]
        have := Configuration_Unmarshal_loop (d.length + 1) { ConfigurationType := t } d (by omega)
        have h2 := congrArg (Res.map (fun p : UInt8 × List CPAttr => some (Payload.cp p.1 p.2))) this
        simp only [map_map'] at h2
        rw [h2]
        cases unmarshalCPAttrs d <;> simp

/-! ### Configuration.Marshal -/

private theorem Configuration_Marshal_loop :
    ∀ (xs : List Gen.message.IndividualConfigurationAttribute) (idx : Nat) (acc : Bytes),
      Configuration.Marshal.loop1 xs idx acc = (marshalCPAttrs (xs.map GenAbs.absCPAttr)).map (acc ++ ·) := by
  intro xs
  induction xs with
  | nil => intro idx acc; simp [Configuration.Marshal.loop1, marshalCPAttrs]
  | cons a rest ih =>
    intro idx acc
    unfold Configuration.Marshal.loop1
    simp only [List.map_cons, marshalCPAttrs, GenAbs.absCPAttr]
    rw [putU16_zeros_0_2 4 _ (by omega)]
    simp only [Res.bind_ok]
    by_cases hl : a.Value.length > 65535
    · simp [hl]
    · simp only [hl, if_false]
      have : put16 (a.Type_ &&& 32767) ++ zeros (4 - 2) =
          [UInt8.ofNat ((a.Type_ &&& 32767).toNat / 256), UInt8.ofNat ((a.Type_ &&& 32767).toNat % 256), 0, 0] := rfl
      rw [this, putU16_2_4]
      simp only [Res.bind_ok]
      rw [ih]
      cases marshalCPAttrs (rest.map GenAbs.absCPAttr) <;> simp [put16, GenAbs.absCPAttr]

theorem Configuration_Marshal_refines (v : Gen.message.Configuration) :
    Configuration.Marshal v = marshalCP v.ConfigurationType (v.ConfigurationAttribute.map GenAbs.absCPAttr) := by
  unfold Configuration.Marshal marshalCP
  simp only [zeros_four, setN_cons_zero, Res.bind_ok, Configuration_Marshal_loop]
  cases marshalCPAttrs (v.ConfigurationAttribute.map GenAbs.absCPAttr) <;> simp

end Ike.Refine
