import IkeProofs.Refine.Basic

/-! `message.(*SecurityAssociation).Marshal` as generated ⊑ `marshalSA`. -/

set_option linter.unusedSimpArgs false

namespace Ike.Refine
open Ike Ike.Gen.message

/-! ### Reusable lemmas: `zeros`, `Go.setN`, `Go.putU16` on cons-lists -/

private theorem zeros_8 : zeros 8 = [0, 0, 0, 0, 0, 0, 0, 0] := rfl
private theorem zeros_4 : zeros 4 = [0, 0, 0, 0] := rfl
private theorem zeros_0 : zeros 0 = [] := rfl

private theorem setN_0 {α : Type} (a v : α) (l : List α) : Go.setN (a :: l) 0 v = .ok (v :: l) := by
  simp [Go.setN]

private theorem setN_4 {α : Type} (a0 a1 a2 a3 a4 v : α) (l : List α) :
    Go.setN (a0 :: a1 :: a2 :: a3 :: a4 :: l) 4 v = .ok (a0 :: a1 :: a2 :: a3 :: v :: l) := by
  simp [Go.setN]

private theorem setN_5 {α : Type} (a0 a1 a2 a3 a4 a5 v : α) (l : List α) :
    Go.setN (a0 :: a1 :: a2 :: a3 :: a4 :: a5 :: l) 5 v = .ok (a0 :: a1 :: a2 :: a3 :: a4 :: v :: l) := by
  simp [Go.setN]

private theorem setN_6 {α : Type} (a0 a1 a2 a3 a4 a5 a6 v : α) (l : List α) :
    Go.setN (a0 :: a1 :: a2 :: a3 :: a4 :: a5 :: a6 :: l) 6 v =
      .ok (a0 :: a1 :: a2 :: a3 :: a4 :: a5 :: v :: l) := by
  simp [Go.setN]

private theorem setN_7 {α : Type} (a0 a1 a2 a3 a4 a5 a6 a7 v : α) (l : List α) :
    Go.setN (a0 :: a1 :: a2 :: a3 :: a4 :: a5 :: a6 :: a7 :: l) 7 v =
      .ok (a0 :: a1 :: a2 :: a3 :: a4 :: a5 :: a6 :: v :: l) := by
  simp [Go.setN]

private theorem setN_7_append {α : Type} (a0 a1 a2 a3 a4 a5 a6 a7 v : α) (l : List α) :
    Go.setN ([a0, a1, a2, a3, a4, a5, a6, a7] ++ l) 7 v =
      .ok (a0 :: a1 :: a2 :: a3 :: a4 :: a5 :: a6 :: v :: l) := by
  simp [Go.setN]

private theorem put16_length (v : UInt16) : (put16 v).length = 2 := rfl

private theorem putU16_0_2 (a0 a1 : UInt8) (l : Bytes) (v : UInt16) :
    Go.putU16 (a0 :: a1 :: l) 0 2 v = .ok (put16 v ++ l) := by
  simp [Go.putU16, Go.splice, put16]

private theorem putU16_2_4 (a0 a1 a2 a3 : UInt8) (l : Bytes) (v : UInt16) :
    Go.putU16 (a0 :: a1 :: a2 :: a3 :: l) 2 4 v = .ok (a0 :: a1 :: (put16 v ++ l)) := by
  simp [Go.putU16, Go.splice, put16]

private theorem putU16_6_8 (a0 a1 a2 a3 a4 a5 a6 a7 : UInt8) (l : Bytes) (v : UInt16) :
    Go.putU16 (a0 :: a1 :: a2 :: a3 :: a4 :: a5 :: a6 :: a7 :: l) 6 8 v =
      .ok (a0 :: a1 :: a2 :: a3 :: a4 :: a5 :: (put16 v ++ l)) := by
  simp [Go.putU16, Go.splice, put16]

/-- `put16 v ++ l` as a cons-list, so that the cons-list lemmas above apply to it. -/
private theorem put16_append (v : UInt16) (l : Bytes) :
    put16 v ++ l = UInt8.ofNat (v.toNat / 256) :: UInt8.ofNat (v.toNat % 256) :: l := rfl

/-! ### Transforms -/

private theorem putU16_2_4_put16 (w v : UInt16) (a2 a3 : UInt8) (l : Bytes) :
    Go.putU16 (put16 w ++ a2 :: a3 :: l) 2 4 v = .ok (put16 w ++ (put16 v ++ l)) := by
  simp [put16_append, putU16_2_4]

/-- patching the length field of a finished transform substructure -/
private theorem transform_fix {β : Type} (m ty : UInt8) (tid : UInt16) (a : Bytes) (k : Bytes → Res β) :
    (if ((m :: 0 :: 0 :: 0 :: ty :: 0 :: (put16 tid ++ [])) ++ a).length > 65535 then Res.err
     else Go.putU16 ((m :: 0 :: 0 :: 0 :: ty :: 0 :: (put16 tid ++ [])) ++ a) 2 4
            (UInt16.ofNat ((m :: 0 :: 0 :: 0 :: ty :: 0 :: (put16 tid ++ [])) ++ a).length) >>= k) =
    (if 8 + a.length > 65535 then Res.err
     else Res.ok ([m, 0] ++ put16 (UInt16.ofNat (8 + a.length)) ++ [ty, 0] ++ put16 tid ++ a)) >>= k := by
  have hlen : ((m :: 0 :: 0 :: 0 :: ty :: 0 :: (put16 tid ++ [])) ++ a).length = 8 + a.length := by
    simp [put16_length]; omega
  rw [hlen]
  split
  · rfl
  · simp [putU16_2_4]

private theorem transform_fix_nil {β : Type} (m ty : UInt8) (tid : UInt16) (k : Bytes → Res β) :
    (if (m :: 0 :: 0 :: 0 :: ty :: 0 :: (put16 tid ++ [])).length > 65535 then Res.err
     else Go.putU16 (m :: 0 :: 0 :: 0 :: ty :: 0 :: (put16 tid ++ [])) 2 4
            (UInt16.ofNat (m :: 0 :: 0 :: 0 :: ty :: 0 :: (put16 tid ++ [])).length) >>= k) =
    (if 8 + ([] : Bytes).length > 65535 then Res.err
     else Res.ok ([m, 0] ++ put16 (UInt16.ofNat (8 + ([] : Bytes).length)) ++ [ty, 0] ++ put16 tid ++ [])) >>= k := by
  have := transform_fix m ty tid [] k
  simpa only [List.append_nil] using this

/-- one iteration of the transform loop = `marshalTransform` followed by the rest of the loop -/
private theorem Marshal_loop2_cons (t : Gen.message.Transform) (rest whole : List Gen.message.Transform)
    (idx : Nat) (acc : Bytes) :
    SecurityAssociation.Marshal.loop2 (t :: rest) idx whole acc =
      (marshalTransform (!decide (idx + 1 < whole.length)) (GenAbs.absTransform t)) >>= fun d =>
        SecurityAssociation.Marshal.loop2 rest (idx + 1) whole (acc ++ d) := by
  obtain ⟨ty, tid, pres, fmt, atype, aval, vval⟩ := t
  rw [SecurityAssociation.Marshal.loop2]
  unfold marshalTransform marshalAttr
  simp only [zeros_8, zeros_4, GenAbs.absTransform]
  by_cases hl : idx + 1 < whole.length
  all_goals
    simp only [hl, if_true, if_false, setN_0, setN_4, putU16_6_8, Res.bind_ok]
    cases pres
    · simp only [Bool.false_eq_true, if_false, transform_fix_nil]
      simp
    · by_cases hf : fmt = 0
      · by_cases h0 : vval.length = 0
        · simp [hf, h0]
        · by_cases h1 : vval.length > 65535
          · simp [hf, h0, h1, putU16_0_2]
          · simp only [hf, h0, h1, if_true, if_false, putU16_0_2, putU16_2_4_put16, Res.bind_ok,
              transform_fix]
            simp
      · simp only [hf, if_true, if_false, putU16_0_2, putU16_2_4_put16, Res.bind_ok, transform_fix]
        simp [hf]

/-- the transform loop, started at index `idx` on a suffix `xs` of `whole` -/
private theorem Marshal_loop2_eq (whole : List Gen.message.Transform) :
    ∀ (xs : List Gen.message.Transform) (idx : Nat) (acc : Bytes),
      idx + xs.length = whole.length →
      SecurityAssociation.Marshal.loop2 xs idx whole acc =
        (marshalTransforms (xs.map GenAbs.absTransform)).map (fun d => acc ++ d) := by
  intro xs
  induction xs with
  | nil => intro idx acc _; simp [SecurityAssociation.Marshal.loop2, marshalTransforms]
  | cons t rest ih =>
    intro idx acc h
    have hm : (!decide (idx + 1 < whole.length)) = (rest.map GenAbs.absTransform).isEmpty := by
      cases rest with
      | nil => simp at h ⊢; omega
      | cons a l => simp at h ⊢; omega
    rw [Marshal_loop2_cons, hm, List.map_cons, marshalTransforms]
    cases marshalTransform (List.map GenAbs.absTransform rest).isEmpty (GenAbs.absTransform t) with
    | ok d =>
      simp only [Res.bind_ok]
      rw [ih (idx + 1) (acc ++ d) (by simp at h; omega)]
      cases marshalTransforms (List.map GenAbs.absTransform rest) <;> simp
    | err => simp
    | fault => simp

/-! ### Proposals -/

private theorem absProposal_transforms (p : Gen.message.Proposal) :
    (GenAbs.absProposal p).transforms =
      (p.EncryptionAlgorithm ++ p.PseudorandomFunction ++ p.IntegrityAlgorithm ++
        p.DiffieHellmanGroup ++ p.ExtendedSequenceNumbers).map GenAbs.absTransform := by
  simp [GenAbs.absProposal, Proposal.transforms]

/-- patching the length field of a finished proposal substructure -/
private theorem proposal_fix {β : Type} (m num proto s n : UInt8) (spi td : Bytes) (k : Bytes → Res β) :
    (if ((m :: 0 :: 0 :: 0 :: num :: proto :: s :: n :: spi) ++ td).length > 65535 then Res.err
     else Go.putU16 ((m :: 0 :: 0 :: 0 :: num :: proto :: s :: n :: spi) ++ td) 2 4
            (UInt16.ofNat ((m :: 0 :: 0 :: 0 :: num :: proto :: s :: n :: spi) ++ td).length) >>= k) =
    (if 8 + spi.length + td.length > 65535 then Res.err
     else Res.ok ([m, 0] ++ put16 (UInt16.ofNat (8 + spi.length + td.length)) ++ [num, proto, s, n] ++
            spi ++ td)) >>= k := by
  have hlen : ((m :: 0 :: 0 :: 0 :: num :: proto :: s :: n :: spi) ++ td).length =
      8 + spi.length + td.length := by
    simp; omega
  rw [hlen]
  split
  · rfl
  · simp [putU16_2_4]

/-- one iteration of the proposal loop = `marshalProposal` followed by the rest of the loop -/
private theorem Marshal_loop1_cons (p : Gen.message.Proposal) (rest : List Gen.message.Proposal)
    (sa : Gen.message.SecurityAssociation) (idx : Nat) (acc : Bytes) :
    SecurityAssociation.Marshal.loop1 (p :: rest) idx sa acc =
      (marshalProposal (!decide (idx + 1 < sa.Proposals.length)) (GenAbs.absProposal p)) >>= fun d =>
        SecurityAssociation.Marshal.loop1 rest (idx + 1) sa (acc ++ d) := by
  obtain ⟨num, proto, spi, e1, e2, e3, e4, e5⟩ := p
  rw [SecurityAssociation.Marshal.loop1]
  unfold marshalProposal
  simp only [absProposal_transforms, List.nil_append]
  generalize e1 ++ e2 ++ e3 ++ e4 ++ e5 = ts
  simp only [zeros_8, zeros_0, GenAbs.absProposal, List.length_map,
    Marshal_loop2_eq ts ts 0 [] (by simp)]
  by_cases hl : idx + 1 < sa.Proposals.length
  all_goals
    simp only [hl, if_true, if_false, setN_0, setN_4, setN_5, setN_6, Res.bind_ok]
    by_cases h1 : spi.length > 255
    · simp [h1]
    by_cases h2 : ts.length = 0
    · simp [h1, h2]
    by_cases h3 : ts.length > 255
    · simp [h1, h2, h3]
    simp only [h1, h2, h3, if_true, if_false]
    by_cases h0 : spi.length > 0
    · simp only [h0, if_true, setN_7_append, Res.bind_ok]
      cases marshalTransforms (List.map GenAbs.absTransform ts) with
      | err => simp
      | fault => simp
      | ok td =>
        simp only [map_ok', Res.bind_ok, List.nil_append, proposal_fix]
        simp
    · have : spi = [] := by cases spi <;> simp_all
      subst this
      simp only [h0, if_false, setN_7, Res.bind_ok]
      cases marshalTransforms (List.map GenAbs.absTransform ts) with
      | err => simp
      | fault => simp
      | ok td =>
        simp only [map_ok', Res.bind_ok, List.nil_append, proposal_fix]
        simp

/-- the proposal loop, started at index `idx` on a suffix `xs` of `sa.Proposals` -/
private theorem Marshal_loop1_eq (sa : Gen.message.SecurityAssociation) :
    ∀ (xs : List Gen.message.Proposal) (idx : Nat) (acc : Bytes),
      idx + xs.length = sa.Proposals.length →
      SecurityAssociation.Marshal.loop1 xs idx sa acc =
        (marshalProposals (xs.map GenAbs.absProposal)).map (fun d => acc ++ d) := by
  intro xs
  induction xs with
  | nil => intro idx acc _; simp [SecurityAssociation.Marshal.loop1, marshalProposals]
  | cons p rest ih =>
    intro idx acc h
    have hm : (!decide (idx + 1 < sa.Proposals.length)) = (rest.map GenAbs.absProposal).isEmpty := by
      cases rest with
      | nil => simp at h ⊢; omega
      | cons a l => simp at h ⊢; omega
    rw [Marshal_loop1_cons, hm, List.map_cons, marshalProposals]
    cases marshalProposal (List.map GenAbs.absProposal rest).isEmpty (GenAbs.absProposal p) with
    | ok d =>
      simp only [Res.bind_ok]
      rw [ih (idx + 1) (acc ++ d) (by simp at h; omega)]
      cases marshalProposals (List.map GenAbs.absProposal rest) <;> simp
    | err => simp
    | fault => simp

/-! ### The payload -/

theorem SecurityAssociation_Marshal_refines (v : Gen.message.SecurityAssociation) : SecurityAssociation.Marshal v = marshalSA (v.Proposals.map GenAbs.absProposal) := by
  unfold SecurityAssociation.Marshal marshalSA
  simp only [zeros_0]
  rw [Marshal_loop1_eq v v.Proposals 0 [] (by simp)]
  cases marshalProposals (List.map GenAbs.absProposal v.Proposals) <;> simp

end Ike.Refine
