import IkeProofs.Refine.Notify
import IkeProofs.Refine.Simple
import IkeProofs.Refine.DeleteCP
import IkeProofs.Refine.TS
import IkeProofs.Refine.SAUnmarshal
import IkeProofs.Refine.SAMarshal
import IkeProofs.Refine.Header
import IkeProofs.Refine.ChainMsg

/-! The per-payload and header refinement theorems discharge the hypotheses of the chain- and
message-level theorems: the functions of package `message` AS TRANSLATED FROM THE CURRENT SOURCE
(`Ike.Gen.message.*`) compute exactly what the hand-written model computes, for every input. -/

set_option linter.unusedSimpArgs false

namespace Ike.Refine
open Ike Ike.Gen.message

theorem bind_ok_id {α : Type} (x : Res α) : (x >>= fun r => Res.ok r) = x := by
  cases x <;> rfl

theorem map_absTransform_rep (l : List Transform) : (l.map GenAbs.repTransform).map GenAbs.absTransform = l := by
  induction l with
  | nil => rfl
  | cons a l ih => simp [List.map, ih]; rfl

theorem map_absProposal_rep (l : List Proposal) : (l.map GenAbs.repProposal).map GenAbs.absProposal = l := by
  induction l with
  | nil => rfl
  | cons a l ih => simp [List.map, ih, absProposal_rep]

theorem map_absTSel_rep (l : List TSel) : (l.map GenAbs.repTSel).map GenAbs.absTSel = l := by
  induction l with
  | nil => rfl
  | cons a l ih => simp [List.map, ih]; rfl

theorem map_absCPAttr_rep (l : List CPAttr) : (l.map GenAbs.repCPAttr).map GenAbs.absCPAttr = l := by
  induction l with
  | nil => rfl
  | cons a l ih => simp [List.map, ih]; rfl

theorem IKEPayload_Marshal_rep (p : Payload) : IKEPayload.Marshal (GenAbs.repPayload p) = marshalPayload p := by
  cases p <;> simp only [GenAbs.repPayload, IKEPayload.Marshal, marshalPayload]
  case sa ps => rw [bind_ok_id, SecurityAssociation_Marshal_refines]; simp only [map_absProposal_rep]
  case ke g d => rw [bind_ok_id, KeyExchange_Marshal_refines]
  case idi t d => rw [bind_ok_id, IdentificationInitiator_Marshal_refines]
  case idr t d => rw [bind_ok_id, IdentificationResponder_Marshal_refines]
  case cert e d => rw [bind_ok_id, Certificate_Marshal_refines]
  case certreq e d => rw [bind_ok_id, CertificateRequest_Marshal_refines]
  case auth m d => rw [bind_ok_id, Authentication_Marshal_refines]
  case nonce d => rw [bind_ok_id, Nonce_Marshal_refines]
  case notify a b c d => rw [bind_ok_id, Notification_Marshal_refines]
  case delete a b c d => rw [bind_ok_id, Delete_Marshal_refines]
  case vendor d => rw [bind_ok_id, VendorID_Marshal_refines]
  case tsi l => rw [bind_ok_id, TrafficSelectorInitiator_Marshal_refines]; simp only [map_absTSel_rep]
  case tsr l => rw [bind_ok_id, TrafficSelectorResponder_Marshal_refines]; simp only [map_absTSel_rep]
  case sk n d => rw [bind_ok_id, Encrypted_Marshal_refines]
  case cp t a => rw [bind_ok_id, Configuration_Marshal_refines]; simp only [map_absCPAttr_rep]
  case eap e => rw [bind_ok_id, PayloadEap_Marshal_refines]

theorem map_bind_ok {α β γ : Type} (x : Res α) (c : α → β) (f : β → γ) :
    (x >>= fun r => Res.ok (c r)).map f = x.map (fun v => f (c v)) := by
  cases x <;> rfl

theorem IKEPayload_Unmarshal_new (t nx : UInt8) (body : Bytes) (hk : knownType t = true) :
    ((match newPayload t nx with | some g => IKEPayload.Unmarshal g body | none => Res.fault).map GenAbs.absPayload)
      = (unmarshalPayload t nx body).map some := by
  rcases type_cases t with (rfl|rfl|rfl|rfl|rfl|rfl|rfl|rfl|rfl|rfl|rfl|rfl|rfl|rfl|rfl|rfl) |
    ⟨h33, h34, h35, h36, h37, h38, h39, h40, h41, h42, h43, h44, h45, h46, h47, h48⟩
  · show ((IKEPayload.Unmarshal (.SecurityAssociation {}) body).map GenAbs.absPayload) = (unmarshalSA body).map some
    simp only [IKEPayload.Unmarshal]; rw [map_bind_ok]; exact SecurityAssociation_Unmarshal_refines body
  · show ((IKEPayload.Unmarshal (.KeyExchange {}) body).map GenAbs.absPayload) = (unmarshalKE body).map some
    simp only [IKEPayload.Unmarshal]; rw [map_bind_ok]; exact KeyExchange_Unmarshal_refines body
  · show ((IKEPayload.Unmarshal (.IdentificationInitiator {}) body).map GenAbs.absPayload) = (unmarshalT4 .idi body).map some
    simp only [IKEPayload.Unmarshal]; rw [map_bind_ok]; exact IdentificationInitiator_Unmarshal_refines body
  · show ((IKEPayload.Unmarshal (.IdentificationResponder {}) body).map GenAbs.absPayload) = (unmarshalT4 .idr body).map some
    simp only [IKEPayload.Unmarshal]; rw [map_bind_ok]; exact IdentificationResponder_Unmarshal_refines body
  · show ((IKEPayload.Unmarshal (.Certificate {}) body).map GenAbs.absPayload) = (unmarshalT1 .cert body).map some
    simp only [IKEPayload.Unmarshal]; rw [map_bind_ok]; exact Certificate_Unmarshal_refines body
  · show ((IKEPayload.Unmarshal (.CertificateRequest {}) body).map GenAbs.absPayload) = (unmarshalT1 .certreq body).map some
    simp only [IKEPayload.Unmarshal]; rw [map_bind_ok]; exact CertificateRequest_Unmarshal_refines body
  · show ((IKEPayload.Unmarshal (.Authentication {}) body).map GenAbs.absPayload) = (unmarshalT4 .auth body).map some
    simp only [IKEPayload.Unmarshal]; rw [map_bind_ok]; exact Authentication_Unmarshal_refines body
  · show ((IKEPayload.Unmarshal (.Nonce {}) body).map GenAbs.absPayload) = (Res.ok (Payload.nonce body)).map some
    simp only [IKEPayload.Unmarshal]; rw [map_bind_ok]; exact Nonce_Unmarshal_refines body
  · show ((IKEPayload.Unmarshal (.Notification {}) body).map GenAbs.absPayload) = (unmarshalNotify body).map some
    simp only [IKEPayload.Unmarshal]; rw [map_bind_ok]; exact Notification_Unmarshal_refines body
  · show ((IKEPayload.Unmarshal (.Delete {}) body).map GenAbs.absPayload) = (unmarshalDelete body).map some
    simp only [IKEPayload.Unmarshal]; rw [map_bind_ok]; exact Delete_Unmarshal_refines body
  · show ((IKEPayload.Unmarshal (.VendorID {}) body).map GenAbs.absPayload) = (Res.ok (Payload.vendor body)).map some
    simp only [IKEPayload.Unmarshal]; rw [map_bind_ok]; exact VendorID_Unmarshal_refines body
  · show ((IKEPayload.Unmarshal (.TrafficSelectorInitiator {}) body).map GenAbs.absPayload) = (unmarshalTS .tsi body).map some
    simp only [IKEPayload.Unmarshal]; rw [map_bind_ok]; exact TrafficSelectorInitiator_Unmarshal_refines body
  · show ((IKEPayload.Unmarshal (.TrafficSelectorResponder {}) body).map GenAbs.absPayload) = (unmarshalTS .tsr body).map some
    simp only [IKEPayload.Unmarshal]; rw [map_bind_ok]; exact TrafficSelectorResponder_Unmarshal_refines body
  · show ((IKEPayload.Unmarshal (.Encrypted { NextPayload := nx }) body).map GenAbs.absPayload) = (Res.ok (Payload.sk nx body)).map some
    simp only [IKEPayload.Unmarshal]; rw [map_bind_ok]; exact Encrypted_Unmarshal_refines nx body
  · show ((IKEPayload.Unmarshal (.Configuration {}) body).map GenAbs.absPayload) = (unmarshalCP body).map some
    simp only [IKEPayload.Unmarshal]; rw [map_bind_ok]; exact Configuration_Unmarshal_refines body
  · show ((IKEPayload.Unmarshal (.PayloadEap {}) body).map GenAbs.absPayload) =
      ((do let e ← unmarshalEap body; Res.ok (Payload.eap e)) : Res Payload).map some
    simp only [IKEPayload.Unmarshal]; rw [map_bind_ok]; exact PayloadEap_Unmarshal_refines body
  · exfalso
    have : knownType t = false := by
      simp [knownType, Facts.typeSA, Facts.typeKE, Facts.typeIDi, Facts.typeIDr, Facts.typeCERT,
        Facts.typeCERTreq, Facts.typeAUTH, Facts.typeNiNr, Facts.typeN, Facts.typeD, Facts.typeV, Facts.typeTSi,
        Facts.typeTSr, Facts.typeSK, Facts.typeCP, Facts.typeEAP, *]
    rw [this] at hk; exact Bool.noConfusion hk

/-- every payload-level hypothesis of the chain theorems holds of the generated code -/
theorem payloadRefines : PayloadRefines :=
  ⟨IKEPayload_Marshal_rep, IKEPayload_Type_rep, IKEPayload_Unmarshal_new⟩

theorem headerRefines : HeaderRefines := ⟨ParseHeader_refines, IKEHeader_Marshal_refines⟩

/-! ### unconditional statements: the generated functions and the hand-written model agree on every input -/

theorem Gen_Encode_chain (ps : List Payload) : IKEPayloadContainer.Encode (ps.map GenAbs.repPayload) = encodeChain ps :=
  Encode_chain_refines payloadRefines ps

theorem Gen_Decode_chain (t : UInt8) (b : Bytes) :
    (IKEPayloadContainer.Decode [] t b).map GenAbs.absPayloads = (decodeChain t b).map some :=
  Decode_chain_refines payloadRefines t b

theorem Gen_Decode_msg (b : Bytes) : (IKEMessage.Decode {} b).map GenAbs.absMsg = (decodeMsg b).map some :=
  Decode_msg_refines payloadRefines headerRefines b

theorem Gen_Encode_msg (m : Msg) :
    (IKEMessage.Encode (GenAbs.repMsg m)).map (fun r => (r.2, GenAbs.absHeader r.1.IKEHeader)) = encodeMsg m :=
  Encode_msg_refines payloadRefines headerRefines m

theorem Gen_ParseHeader (b : Bytes) : (ParseHeader b).map GenAbs.absHeader = parseHeader b := ParseHeader_refines b

end Ike.Refine
