import IkeProofs.Refine.Basic

/-! Chain- and message-level refinement: the generated `IKEPayloadContainer.Encode/Decode`,
`IKEMessage.Encode/Decode` ⊑ `encodeChain/decodeChain`, `encodeMsg/decodeMsg`, from the per-payload
and per-header refinement statements bundled in `PayloadRefines` / `HeaderRefines`. -/

set_option linter.unusedSimpArgs false
set_option linter.unusedVariables false

namespace Ike.Refine
open Ike Ike.Gen.message

/-- `payload = new(S)` as selected by the `switch` of `IKEPayloadContainer.Decode`
(message.go:123); `nx` is `b[0]`, stored in a fresh Encrypted payload. -/
def newPayload (t nx : UInt8) : Option Gen.message.IKEPayload :=
  if t = 33 then some (.SecurityAssociation {})
  else if t = 34 then some (.KeyExchange {})
  else if t = 35 then some (.IdentificationInitiator {})
  else if t = 36 then some (.IdentificationResponder {})
  else if t = 37 then some (.Certificate {})
  else if t = 38 then some (.CertificateRequest {})
  else if t = 39 then some (.Authentication {})
  else if t = 40 then some (.Nonce {})
  else if t = 41 then some (.Notification {})
  else if t = 42 then some (.Delete {})
  else if t = 43 then some (.VendorID {})
  else if t = 44 then some (.TrafficSelectorInitiator {})
  else if t = 45 then some (.TrafficSelectorResponder {})
  else if t = 46 then some (.Encrypted { NextPayload := nx })
  else if t = 47 then some (.Configuration {})
  else if t = 48 then some (.PayloadEap { EAP := GenExt.EAP_zero })
  else none

/-- what the chain / message theorems need from the per-payload refinement theorems -/
structure PayloadRefines : Prop where
  marshal : ∀ p : Payload, IKEPayload.Marshal (GenAbs.repPayload p) = marshalPayload p
  type_ : ∀ p : Payload, IKEPayload.Type_ (GenAbs.repPayload p) = Res.ok p.typeCode
  unmarshal : ∀ (t nx : UInt8) (body : Bytes), knownType t = true →
    ((match newPayload t nx with
      | some g => IKEPayload.Unmarshal g body
      | none => Res.fault).map GenAbs.absPayload) = (unmarshalPayload t nx body).map some

/-- what the message theorems need from the header refinement theorems -/
structure HeaderRefines : Prop where
  parse : ∀ b : Bytes, (ParseHeader b).map GenAbs.absHeader = parseHeader b
  marshal : ∀ h : Gen.message.IKEHeader, IKEHeader.Marshal h = marshalHeader (GenAbs.absHeader h)

/-- the `type_` field holds outright (every generated `S.Type_` is a constant) -/
theorem IKEPayload_Type_rep (p : Payload) : IKEPayload.Type_ (GenAbs.repPayload p) = Res.ok p.typeCode := by
  cases p <;> rfl

/-! ### abstraction / representation -/

private theorem absTransform_rep (t : Transform) : GenAbs.absTransform (GenAbs.repTransform t) = t := rfl
private theorem absTSel_rep (t : TSel) : GenAbs.absTSel (GenAbs.repTSel t) = t := rfl
private theorem absCPAttr_rep (a : CPAttr) : GenAbs.absCPAttr (GenAbs.repCPAttr a) = a := rfl

private theorem map_abs_rep {α β : Type} (f : α → β) (g : β → α) (h : ∀ x, g (f x) = x) (l : List α) :
    (l.map f).map g = l := by
  induction l with
  | nil => rfl
  | cons a l ih => simp [h a, ih]

theorem absProposal_rep (p : Proposal) : GenAbs.absProposal (GenAbs.repProposal p) = p := by
  cases p
  simp [GenAbs.absProposal, GenAbs.repProposal, map_abs_rep _ _ absTransform_rep]

theorem absPayload_rep (p : Payload) : GenAbs.absPayload (GenAbs.repPayload p) = some p := by
  cases p <;>
    simp [GenAbs.absPayload, GenAbs.repPayload, map_abs_rep _ _ absProposal_rep,
      map_abs_rep _ _ absTSel_rep, map_abs_rep _ _ absCPAttr_rep]

theorem absPayloads_rep (ps : List Payload) : GenAbs.absPayloads (ps.map GenAbs.repPayload) = some ps := by
  unfold GenAbs.absPayloads
  induction ps with
  | nil => rfl
  | cons p ps ih => simp [List.mapM_cons, absPayload_rep, ih]

theorem absHeader_rep (h : Header) : GenAbs.absHeader (GenAbs.repHeader h) = h := rfl

/-! ### `Go.setN` / `Go.putU16` on the 4-octet generic payload header -/

private theorem setN_zeros4 (x : UInt8) : Go.setN (zeros 4) 0 x = Res.ok [x, 0, 0, 0] := by
  simp [Go.setN, zeros]

private theorem putU16_hdr (x a b : UInt8) (data : Bytes) (v : UInt16) :
    Go.putU16 ([x, 0, a, b] ++ data) 2 4 v = Res.ok ([x, 0] ++ put16 v ++ data) := by
  simp [Go.putU16, Go.splice, put16]

/-! ### the encoder -/

private theorem typeCode_sk (p : Payload) (h : p.typeCode = 46) : ∃ n d, p = .sk n d := by
  cases p <;> first | exact ⟨_, _, rfl⟩ | (simp only [Payload.typeCode] at h; exact absurd h (by decide))

private theorem nextField_last (p : Payload) (h : ¬ p.typeCode = 46) : nextField p [] = 0 := by
  cases p <;> first | rfl | exact absurd rfl h

private theorem Encode_tail (x : UInt8) (acc : Bytes) (m tl : Res Bytes) :
    ((Go.setN (zeros 4) 0 x) >>= fun t6 =>
      m >>= fun t1 =>
      if (t6 ++ t1).length > 65535 then Res.err
      else
        (Go.putU16 (t6 ++ t1) 2 4 (UInt16.ofNat (t6 ++ t1).length)) >>= fun t2 =>
        Res.map (fun r => acc ++ t2 ++ r) tl) =
    Res.map (fun r => acc ++ r) (m >>= fun data =>
      if 4 + data.length > 65535 then Res.err
      else tl >>= fun tl => Res.ok ([x, 0] ++ put16 (UInt16.ofNat (4 + data.length)) ++ data ++ tl)) := by
  rw [setN_zeros4]
  cases m with
  | ok data =>
    simp only [Res.bind_ok, List.length_cons, List.length_nil, List.length_append]
    have : 0 + 1 + 1 + 1 + 1 + data.length = 4 + data.length := by omega
    rw [this]
    split
    · rfl
    · rw [putU16_hdr]
      cases tl <;> simp
  | err => rfl
  | fault => rfl

theorem Encode_loop_refines (hp : PayloadRefines) (rest pre : List Payload) (acc : Bytes) :
    IKEPayloadContainer.Encode.loop1 (rest.map GenAbs.repPayload) pre.length
      ((pre ++ rest).map GenAbs.repPayload) acc = (encodeChain rest).map (fun r => acc ++ r) := by
  induction rest generalizing pre acc with
  | nil => simp [IKEPayloadContainer.Encode.loop1, encodeChain]
  | cons p rest ih =>
    have ih' := fun acc' => ih (pre ++ [p]) acc'
    simp only [List.append_assoc, List.singleton_append, List.length_append, List.length_singleton] at ih'
    rw [List.map_cons, encodeChain]
    unfold IKEPayloadContainer.Encode.loop1
    simp only [ih']
    cases rest with
    | nil =>
      have hlt : ¬ pre.length + 1 < ((pre ++ [p]).map GenAbs.repPayload).length := by
        simp
      simp only [hlt, if_false, hp.type_, hp.marshal, Res.bind_ok]
      by_cases h46 : p.typeCode = 46
      · obtain ⟨n, d, rfl⟩ := typeCode_sk p h46
        simp only [h46, if_true, GenAbs.repPayload, Res.bind_ok]
        exact Encode_tail _ _ _ _
      · simp only [h46, if_false, nextField_last p h46]
        exact Encode_tail _ _ _ _
    | cons q rest =>
      have hlt : pre.length + 1 < ((pre ++ p :: q :: rest).map GenAbs.repPayload).length := by
        simp
      have hidx : Go.indexN ((pre ++ p :: q :: rest).map GenAbs.repPayload) (pre.length + 1)
          = Res.ok (GenAbs.repPayload q) := by
        unfold Go.indexN
        rw [if_pos hlt]
        simp [List.getD_eq_getElem?_getD, List.getElem?_append_right]
      simp only [hlt, if_true, hidx, Res.bind_ok, hp.type_, hp.marshal, nextField]
      exact Encode_tail _ _ _ _

theorem Encode_chain_refines (hp : PayloadRefines) (ps : List Payload) :
    IKEPayloadContainer.Encode (ps.map GenAbs.repPayload) = encodeChain ps := by
  unfold IKEPayloadContainer.Encode
  have h := Encode_loop_refines hp ps [] []
  simp only [List.length_nil, List.nil_append] at h
  simp only [zeros, List.replicate_zero, h]
  cases encodeChain ps <;> simp

/-! ### the decoder -/

theorem type_cases (t : UInt8) :
    (t = 33 ∨ t = 34 ∨ t = 35 ∨ t = 36 ∨ t = 37 ∨ t = 38 ∨ t = 39 ∨ t = 40 ∨ t = 41 ∨ t = 42 ∨ t = 43 ∨
      t = 44 ∨ t = 45 ∨ t = 46 ∨ t = 47 ∨ t = 48) ∨
    (¬ t = 33 ∧ ¬ t = 34 ∧ ¬ t = 35 ∧ ¬ t = 36 ∧ ¬ t = 37 ∧ ¬ t = 38 ∧ ¬ t = 39 ∧ ¬ t = 40 ∧ ¬ t = 41 ∧
      ¬ t = 42 ∧ ¬ t = 43 ∧ ¬ t = 44 ∧ ¬ t = 45 ∧ ¬ t = 46 ∧ ¬ t = 47 ∧ ¬ t = 48) := by
  by_cases h : (t = 33 ∨ t = 34 ∨ t = 35 ∨ t = 36 ∨ t = 37 ∨ t = 38 ∨ t = 39 ∨ t = 40 ∨ t = 41 ∨ t = 42 ∨
      t = 43 ∨ t = 44 ∨ t = 45 ∨ t = 46 ∨ t = 47 ∨ t = 48)
  · exact Or.inl h
  · simp only [not_or] at h
    exact Or.inr h

theorem newPayload_known (t nx : UInt8) : (newPayload t nx).isSome = knownType t := by
  rcases type_cases t with (rfl|rfl|rfl|rfl|rfl|rfl|rfl|rfl|rfl|rfl|rfl|rfl|rfl|rfl|rfl|rfl) |
    ⟨h33, h34, h35, h36, h37, h38, h39, h40, h41, h42, h43, h44, h45, h46, h47, h48⟩
  all_goals try rfl
  simp [newPayload, knownType, Facts.typeSA, Facts.typeKE, Facts.typeIDi, Facts.typeIDr, Facts.typeCERT,
    Facts.typeCERTreq, Facts.typeAUTH, Facts.typeNiNr, Facts.typeN, Facts.typeD, Facts.typeV, Facts.typeTSi,
    Facts.typeTSr, Facts.typeSK, Facts.typeCP, Facts.typeEAP, *]

/-- one iteration of the decoder loop on a well-framed generic payload header, known type -/
private theorem Decode_loop_known (fuel : Nat) (c : List IKEPayload) (t : UInt8) (b : Bytes) (pl : UInt16)
    (g : IKEPayload) (hg : newPayload t (byteAt b 0) = some g)
    (hlen : 4 ≤ b.length) (hpl : goU16 b 2 = Res.ok pl) (h4 : ¬ pl < 4) (hle : ¬ b.length < pl.toNat) :
    IKEPayloadContainer.Decode.loop1 (fuel + 1) c t b =
      if t = 46 ∧ b.length ≠ pl.toNat then Res.err
      else (IKEPayload.Unmarshal g ((b.take pl.toNat).drop 4)) >>= fun p' =>
        IKEPayloadContainer.Decode.loop1 fuel (c ++ [p']) (byteAt b 0) (b.drop pl.toNat) := by
  have hpos : b.length > 0 := by omega
  have hl4 : ¬ b.length < 4 := by omega
  have hpl4 : 4 ≤ pl.toNat := u16_not_lt_toNat h4
  have hi0 : goIndex b 0 = Res.ok (byteAt b 0) := goIndex_ok (by omega)
  have hi1 : goIndex b 1 = Res.ok (byteAt b 1) := goIndex_ok (by omega)
  have hsl : goSlice b 4 pl.toNat = Res.ok ((b.take pl.toNat).drop 4) := goSlice_ok hpl4 (by omega)
  have hfr : goFrom b pl.toNat = Res.ok (b.drop pl.toNat) := goFrom_ok (by omega)
  rcases type_cases t with (rfl|rfl|rfl|rfl|rfl|rfl|rfl|rfl|rfl|rfl|rfl|rfl|rfl|rfl|rfl|rfl) |
    ⟨h33, h34, h35, h36, h37, h38, h39, h40, h41, h42, h43, h44, h45, h46, h47, h48⟩
  all_goals (first
    | (simp only [newPayload] at hg
       simp at hg
       subst hg
       conv => lhs; unfold IKEPayloadContainer.Decode.loop1
       simp only [hpos, hl4, if_true, if_false, u16At_eq _ 2 4 rfl, hpl, Res.bind_ok, h4, hle, hi0, hi1, hsl, hfr,
         NewPayloadEap]
       simp)
    | (exfalso; simp [newPayload, *] at hg))

/-- one iteration of the decoder loop on a well-framed generic payload header, unknown type -/
private theorem Decode_loop_unknown (fuel : Nat) (c : List IKEPayload) (t : UInt8) (b : Bytes) (pl : UInt16)
    (hg : newPayload t (byteAt b 0) = none)
    (hlen : 4 ≤ b.length) (hpl : goU16 b 2 = Res.ok pl) (h4 : ¬ pl < 4) (hle : ¬ b.length < pl.toNat) :
    IKEPayloadContainer.Decode.loop1 (fuel + 1) c t b =
      if (byteAt b 1 &&& 128) >>> 7 = 0 then
        IKEPayloadContainer.Decode.loop1 fuel c (byteAt b 0) (b.drop pl.toNat)
      else Res.err := by
  have hpos : b.length > 0 := by omega
  have hl4 : ¬ b.length < 4 := by omega
  have hpl4 : 4 ≤ pl.toNat := u16_not_lt_toNat h4
  have hi0 : goIndex b 0 = Res.ok (byteAt b 0) := goIndex_ok (by omega)
  have hi1 : goIndex b 1 = Res.ok (byteAt b 1) := goIndex_ok (by omega)
  have hfr : goFrom b pl.toNat = Res.ok (b.drop pl.toNat) := goFrom_ok (by omega)
  rcases type_cases t with (rfl|rfl|rfl|rfl|rfl|rfl|rfl|rfl|rfl|rfl|rfl|rfl|rfl|rfl|rfl|rfl) |
    ⟨h33, h34, h35, h36, h37, h38, h39, h40, h41, h42, h43, h44, h45, h46, h47, h48⟩
  all_goals (first
    | (exfalso; simp [newPayload] at hg; done)
    | (conv => lhs; unfold IKEPayloadContainer.Decode.loop1
       simp only [hpos, hl4, if_true, if_false, u16At_eq _ 2 4 rfl, hpl, Res.bind_ok, h4, hle, hi0, hi1, hfr,
         h33, h34, h35, h36, h37, h38, h39, h40, h41, h42, h43, h44, h45, h46, h47, h48]))

private theorem absPayloads_snoc (c : List IKEPayload) (cs : List Payload) (g : IKEPayload) (p : Payload)
    (hc : GenAbs.absPayloads c = some cs) (hg : GenAbs.absPayload g = some p) :
    GenAbs.absPayloads (c ++ [g]) = some (cs ++ [p]) := by
  unfold GenAbs.absPayloads at *
  simp [List.mapM_append, hc, hg]

theorem Decode_loop_refines (hp : PayloadRefines) (fuel : Nat) :
    ∀ (c : List IKEPayload) (cs : List Payload) (t : UInt8) (b : Bytes), b.length < fuel →
      GenAbs.absPayloads c = some cs →
      (IKEPayloadContainer.Decode.loop1 fuel c t b).map (fun r => GenAbs.absPayloads r.1) =
        (decodeChain t b).map (fun ps => some (cs ++ ps)) := by
  induction fuel with
  | zero => intro c cs t b h; omega
  | succ fuel ih =>
    intro c cs t b hfuel hc
    rw [decodeChain]
    by_cases h0 : b.length = 0
    · unfold IKEPayloadContainer.Decode.loop1
      simp [h0, hc]
    · simp only [h0, dite_false]
      by_cases hl4 : b.length < 4
      · unfold IKEPayloadContainer.Decode.loop1 chainStep
        have : b.length > 0 := by omega
        simp [hl4, this]
      · have hpl : goU16 b 2 = Res.ok (be16 (byteAt b 2) (byteAt b 3)) := goU16_ok (by omega)
        generalize be16 (byteAt b 2) (byteAt b 3) = pl at hpl
        have hi0 : goIndex b 0 = Res.ok (byteAt b 0) := goIndex_ok (by omega)
        have hi1 : goIndex b 1 = Res.ok (byteAt b 1) := goIndex_ok (by omega)
        by_cases h4 : pl < 4
        · unfold IKEPayloadContainer.Decode.loop1 chainStep
          have : b.length > 0 := by omega
          simp [hl4, this, u16At_eq _ 2 4 rfl, hpl, h4]
        by_cases hle : b.length < pl.toNat
        · unfold IKEPayloadContainer.Decode.loop1 chainStep
          have : b.length > 0 := by omega
          simp [hl4, this, u16At_eq _ 2 4 rfl, hpl, h4, hle]
        have hpl4 : 4 ≤ pl.toNat := u16_not_lt_toNat h4
        have hsl : goSlice b 4 pl.toNat = Res.ok ((b.take pl.toNat).drop 4) := goSlice_ok hpl4 (by omega)
        have hk := newPayload_known t (byteAt b 0)
        have hrec : (b.drop pl.toNat).length < fuel := by simp; omega
        have hn : 0 < pl.toNat ∧ pl.toNat ≤ b.length := by omega
        cases hg : newPayload t (byteAt b 0) with
        | none =>
          rw [Decode_loop_unknown fuel c t b pl hg (by omega) hpl h4 hle]
          rw [hg] at hk
          have hk' : knownType t = false := by simpa using hk.symm
          unfold chainStep
          simp only [hl4, if_false, hpl, Res.bind_ok, h4, hle, hi0, hi1, hk', Bool.false_eq_true]
          by_cases hcrit : (byteAt b 1 &&& 128) >>> 7 = 0
          · simp only [hcrit, if_true, BEq.rfl, hn, and_self, dite_true]
            rw [ih c cs _ _ hrec hc]
            cases decodeChain (byteAt b 0) (b.drop pl.toNat) <;> rfl
          · simp [hcrit]
        | some g =>
          rw [Decode_loop_known fuel c t b pl g hg (by omega) hpl h4 hle]
          rw [hg] at hk
          have hk' : knownType t = true := by simpa using hk.symm
          have hu := hp.unmarshal t (byteAt b 0) ((b.take pl.toNat).drop 4) hk'
          rw [hg] at hu
          simp only at hu
          unfold chainStep
          simp only [hl4, if_false, hpl, Res.bind_ok, h4, hle, hi0, hi1, hk', if_true, hsl]
          have hb : ((t == Facts.typeSK && decide (b.length ≠ pl.toNat)) = true) =
              (t = 46 ∧ b.length ≠ pl.toNat) := by
            simp [Facts.typeSK]
          simp only [hb]
          by_cases hsk : t = 46 ∧ b.length ≠ pl.toNat
          · rw [if_pos hsk, if_pos hsk]
            rfl
          · rw [if_neg hsk, if_neg hsk]
            cases hr : IKEPayload.Unmarshal g ((b.take pl.toNat).drop 4) with
            | ok g' =>
              rw [hr] at hu
              cases hm : unmarshalPayload t (byteAt b 0) ((b.take pl.toNat).drop 4) with
              | ok p =>
                rw [hm] at hu
                simp only [map_ok', Res.ok.injEq] at hu
                simp only [Res.bind_ok, hn, and_self, dite_true]
                rw [ih (c ++ [g']) (cs ++ [p]) _ _ hrec (absPayloads_snoc c cs g' p hc hu)]
                cases decodeChain (byteAt b 0) (b.drop pl.toNat) <;> simp [hn]
              | err => rw [hm] at hu; simp at hu
              | fault => rw [hm] at hu; simp at hu
            | err =>
              rw [hr] at hu
              cases hm : unmarshalPayload t (byteAt b 0) ((b.take pl.toNat).drop 4) with
              | ok p => rw [hm] at hu; simp at hu
              | err => rfl
              | fault => rw [hm] at hu; simp at hu
            | fault =>
              rw [hr] at hu
              cases hm : unmarshalPayload t (byteAt b 0) ((b.take pl.toNat).drop 4) with
              | ok p => rw [hm] at hu; simp at hu
              | err => rw [hm] at hu; simp at hu
              | fault => rfl

/-- general version: decoding appends to a container that already holds `cs` -/
theorem Decode_chain_refines_append (hp : PayloadRefines) (c : List IKEPayload) (cs : List Payload)
    (hc : GenAbs.absPayloads c = some cs) (t : UInt8) (b : Bytes) :
    (IKEPayloadContainer.Decode c t b).map GenAbs.absPayloads =
      (decodeChain t b).map (fun ps => some (cs ++ ps)) := by
  unfold IKEPayloadContainer.Decode
  rw [← Decode_loop_refines hp (b.length + 1) c cs t b (by omega) hc]
  cases IKEPayloadContainer.Decode.loop1 (b.length + 1) c t b <;> rfl

theorem Decode_chain_refines (hp : PayloadRefines) (t : UInt8) (b : Bytes) :
    (IKEPayloadContainer.Decode [] t b).map GenAbs.absPayloads = (decodeChain t b).map some := by
  have h := Decode_chain_refines_append hp [] [] rfl t b
  simpa using h

/-! ### whole messages -/

theorem Decode_msg_refines (hp : PayloadRefines) (hh : HeaderRefines) (b : Bytes) :
    (IKEMessage.Decode {} b).map (fun m => (GenAbs.absPayloads m.Payloads).map
        (fun ps => (⟨GenAbs.absHeader m.IKEHeader, ps⟩ : Msg))) = (decodeMsg b).map some := by
  unfold IKEMessage.Decode IKEMessage.DecodePayload decodeMsg
  rw [← hh.parse b]
  cases ParseHeader b with
  | ok h =>
    simp only [Res.bind_ok, map_ok']
    have hd := Decode_chain_refines hp h.NextPayload h.PayloadBytes
    have e1 : (GenAbs.absHeader h).next = h.NextPayload := rfl
    have e2 : (GenAbs.absHeader h).payloadBytes = h.PayloadBytes := rfl
    rw [e1, e2]
    cases hg : IKEPayloadContainer.Decode [] h.NextPayload h.PayloadBytes with
    | ok l =>
      rw [hg] at hd
      cases hm : decodeChain h.NextPayload h.PayloadBytes with
      | ok ps =>
        rw [hm] at hd
        simp only [map_ok', Res.ok.injEq] at hd
        simp [hd]
      | err => rw [hm] at hd; simp at hd
      | fault => rw [hm] at hd; simp at hd
    | err =>
      rw [hg] at hd
      cases hm : decodeChain h.NextPayload h.PayloadBytes with
      | ok ps => rw [hm] at hd; simp at hd
      | err => rfl
      | fault => rw [hm] at hd; simp at hd
    | fault =>
      rw [hg] at hd
      cases hm : decodeChain h.NextPayload h.PayloadBytes with
      | ok ps => rw [hm] at hd; simp at hd
      | err => rw [hm] at hd; simp at hd
      | fault => rfl
  | err => rfl
  | fault => rfl

private theorem map_bind_pair (x : Res Bytes) (h : Header) (m : IKEMessage) (hm : GenAbs.absHeader m.IKEHeader = h) :
    Res.map (fun r : IKEMessage × Bytes => (r.2, GenAbs.absHeader r.1.IKEHeader))
      (x >>= fun t2 => Res.ok (m, t2)) = x >>= fun bs => Res.ok (bs, h) := by
  cases x <;> simp [hm]

theorem Encode_msg_refines (hp : PayloadRefines) (hh : HeaderRefines) (m : Msg) :
    (IKEMessage.Encode { IKEHeader := GenAbs.repHeader m.hdr, Payloads := m.payloads.map GenAbs.repPayload }).map
      (fun r => (r.2, GenAbs.absHeader r.1.IKEHeader)) = encodeMsg m := by
  unfold IKEMessage.Encode encodeMsg
  simp only [Encode_chain_refines hp, hh.marshal]
  cases hps : m.payloads with
  | nil =>
    simp only [List.map_nil, List.length_nil, Nat.lt_irrefl, gt_iff_lt, if_false, firstType]
    cases encodeChain [] with
    | ok pb =>
      simp only [Res.bind_ok]
      exact map_bind_pair _ _ _ rfl
    | err => rfl
    | fault => rfl
  | cons p ps =>
    have hlen : (List.map GenAbs.repPayload (p :: ps)).length > 0 := by simp
    have hidx : Go.indexN (List.map GenAbs.repPayload (p :: ps)) 0 = Res.ok (GenAbs.repPayload p) := by
      simp [Go.indexN]
    simp only [hlen, if_true, hidx, Res.bind_ok, hp.type_, firstType]
    cases encodeChain (p :: ps) with
    | ok pb =>
      simp only [Res.bind_ok]
      exact map_bind_pair _ _ _ rfl
    | err => rfl
    | fault => rfl

end Ike.Refine
