import IkeModel.GenAbs
import IkeModel.Message.Payloads
import IkeProofs.Lemmas.Bytes
open Ike Ike.Gen.message

theorem u16At_eq (b : Bytes) (lo hi : Nat) (h : hi = lo + 2) : Go.u16At b lo hi = goU16 b lo := by
  subst h
  unfold Go.u16At goSlice goU16 Go.beU16
  by_cases hl : lo + 2 ≤ b.length
  · have : lo ≤ lo + 2 ∧ lo + 2 ≤ b.length := ⟨by omega, hl⟩
    simp only [this, and_self, if_true, hl, Res.bind_ok]
    sorry
  · have : ¬ (lo ≤ lo + 2 ∧ lo + 2 ≤ b.length) := by omega
    simp [this, hl]

theorem Notification_Unmarshal_refines (b : Bytes) :
    (Notification.Unmarshal {} b).map (fun n => Ike.GenAbs.absPayload (.Notification n)) = (unmarshalNotify b).map some := by
  unfold Notification.Unmarshal unmarshalNotify
  simp only [u16At_eq _ 2 4 rfl]
  by_cases h0 : b.length = 0
  · simp [h0, Res.map, GenAbs.absPayload]
  · have h0' : b.length > 0 := by omega
    simp only [h0, h0', if_true, if_false]
    split
    · simp [Res.map]
    · cases goIndex b 1 with
      | ok s =>
        simp only [Res.bind_ok]
        split
        · simp [Res.map]
        · cases goIndex b 0 <;> cases goU16 b 2 <;> cases goSlice b 4 (4 + s.toNat) <;> cases goFrom b (4 + s.toNat) <;> simp [Res.map, GenAbs.absPayload]
      | err => simp [Res.map]
      | fault => simp [Res.map]
