import IkeProofs.Refine.Basic
import IkeModel.Security.Registry
import IkeModel.Generated.Gen_encr
import IkeModel.Generated.Gen_integ
import IkeModel.Generated.Gen_prf
import IkeModel.Generated.Gen_esn

/-! The algorithm registries `security/encr`, `security/integ`, `security/prf`, `security/esn` as
generated (package-level maps filled by the translated `init`) ⊑ the table search of
`Ike.Registry`. -/

set_option linter.unusedSimpArgs false
set_option linter.unusedVariables false

namespace Ike.RefineReg
open Ike Ike.Refine

/-! ### the package-level variables after `init` -/

def encrG : Gen.encr.Globals := match Gen.encr.init_ {} with | .ok G => G | _ => {}
def integG : Gen.integ.Globals := match Gen.integ.init_ {} with | .ok G => G | _ => {}
def prfG : Gen.prf.Globals := match Gen.prf.init_ {} with | .ok G => G | _ => {}
def esnG : Gen.esn.Globals := match Gen.esn.init_ {} with | .ok G => G | _ => {}

theorem encr_init_ok : Gen.encr.init_ {} = .ok encrG := rfl
theorem integ_init_ok : Gen.integ.init_ {} = .ok integG := rfl
theorem prf_init_ok : Gen.prf.init_ {} = .ok prfG := rfl
theorem esn_init_ok : Gen.esn.init_ {} = .ok esnG := rfl

/-! ### the names (Go strings as octets) -/

def nENCR_AES_CBC_128 : Bytes := [69, 78, 67, 82, 95, 65, 69, 83, 95, 67, 66, 67, 95, 49, 50, 56]
def nENCR_AES_CBC_192 : Bytes := [69, 78, 67, 82, 95, 65, 69, 83, 95, 67, 66, 67, 95, 49, 57, 50]
def nENCR_AES_CBC_256 : Bytes := [69, 78, 67, 82, 95, 65, 69, 83, 95, 67, 66, 67, 95, 50, 53, 54]

theorem encrG_encrString :
    encrG.encrString = some [(12, Gen.encr.toString_ENCR_AES_CBC)] := rfl
theorem encrG_encrTypes :
    encrG.encrTypes = some [(nENCR_AES_CBC_128, .EncrAesCbc ⟨16⟩), (nENCR_AES_CBC_192, .EncrAesCbc ⟨24⟩),
      (nENCR_AES_CBC_256, .EncrAesCbc ⟨32⟩)] := rfl
theorem encrG_encrKTypes :
    encrG.encrKTypes = some [(nENCR_AES_CBC_128, .EncrAesCbc ⟨16⟩), (nENCR_AES_CBC_192, .EncrAesCbc ⟨24⟩),
      (nENCR_AES_CBC_256, .EncrAesCbc ⟨32⟩)] := rfl

def absEncr : Gen.encr.ENCRType → Option EncrInfo
  | .nil_ => none
  | .EncrAesCbc v => some ⟨12, v.keyLength.toNat⟩

def absEncrK : Gen.encr.ENCRKType → Option Registry.EncrKInfo
  | .nil_ => none
  | .EncrAesCbc v => some ⟨12, v.keyLength.toNat⟩

theorem u16_toNat_ne {x y : UInt16} (h : ¬ x = y) : ¬ x.toNat = y.toNat :=
  fun e => h (UInt16.toNat_inj.mp e)

/-- the model's search `keyLen * 8 = aval` in the concrete table, as the case distinction of the
Go stringifier -/
theorem aesCbcRow_table (atype aval : UInt16) :
    Registry.aesCbcRow [(12, 16), (12, 24), (12, 32)] atype aval =
      if atype = 14 then
        (if aval = 128 then some (12, 16) else if aval = 192 then some (12, 24)
         else if aval = 256 then some (12, 32) else none)
      else none := by
  unfold Registry.aesCbcRow
  by_cases h14 : atype = 14
  · by_cases a1 : aval = 128
    · simp [h14, a1, Facts.attrTypeKeyLength]
    · by_cases a2 : aval = 192
      · simp [h14, a2, Facts.attrTypeKeyLength]
      · by_cases a3 : aval = 256
        · simp [h14, a3, Facts.attrTypeKeyLength]
        · have n1 : ¬ aval.toNat = 128 := u16_toNat_ne a1
          have n2 : ¬ aval.toNat = 192 := u16_toNat_ne a2
          have n3 : ¬ aval.toNat = 256 := u16_toNat_ne a3
          have n1' : ¬ 128 = aval.toNat := fun h => n1 h.symm
          have n2' : ¬ 192 = aval.toNat := fun h => n2 h.symm
          have n3' : ¬ 256 = aval.toNat := fun h => n3 h.symm
          simp [h14, a1, a2, a3, n1', n2', n3', Facts.attrTypeKeyLength]
  · simp [h14, Facts.attrTypeKeyLength]

/-- `encr.DecodeTransform` on the initialised registry, in closed form -/
theorem encr_DecodeTransform_eval (t : Transform) :
    Gen.encr.DecodeTransform encrG t = .ok
      (if t.tid = 12 then if t.atype = 14 then
        (if t.aval = 128 then .EncrAesCbc ⟨16⟩ else if t.aval = 192 then .EncrAesCbc ⟨24⟩
         else if t.aval = 256 then .EncrAesCbc ⟨32⟩ else .nil_) else .nil_ else .nil_) := by
  unfold Gen.encr.DecodeTransform
  simp only [encrG_encrString, encrG_encrTypes, Go.mapGet, Go.mapGetList]
  by_cases h12 : t.tid = 12
  · have h12' : (12 : UInt16) = t.tid := h12.symm
    simp only [h12', if_true]
    unfold Gen.encr.toString_ENCR_AES_CBC
    by_cases h14 : t.atype = 14
    · by_cases a1 : t.aval = 128
      · simp [a1, h12, h14, nENCR_AES_CBC_128, nENCR_AES_CBC_192, nENCR_AES_CBC_256]
      · by_cases a2 : t.aval = 192
        · simp [a2, h12, h14, nENCR_AES_CBC_128, nENCR_AES_CBC_192, nENCR_AES_CBC_256]
        · by_cases a3 : t.aval = 256
          · simp [a3, h12, h14, nENCR_AES_CBC_128, nENCR_AES_CBC_192, nENCR_AES_CBC_256]
          · simp [a1, a2, a3, h12, h14]
    · simp [h12, h14]
  · have h12' : ¬ (12 : UInt16) = t.tid := fun h => h12 h.symm
    simp [h12, h12']

theorem encr_DecodeTransformChildSA_eval (t : Transform) :
    Gen.encr.DecodeTransformChildSA encrG t = .ok
      (if t.tid = 12 then if t.atype = 14 then
        (if t.aval = 128 then .EncrAesCbc ⟨16⟩ else if t.aval = 192 then .EncrAesCbc ⟨24⟩
         else if t.aval = 256 then .EncrAesCbc ⟨32⟩ else .nil_) else .nil_ else .nil_) := by
  unfold Gen.encr.DecodeTransformChildSA
  simp only [encrG_encrString, encrG_encrKTypes, Go.mapGet, Go.mapGetList]
  by_cases h12 : t.tid = 12
  · have h12' : (12 : UInt16) = t.tid := h12.symm
    simp only [h12', if_true]
    unfold Gen.encr.toString_ENCR_AES_CBC
    by_cases h14 : t.atype = 14
    · by_cases a1 : t.aval = 128
      · simp [a1, h12, h14, nENCR_AES_CBC_128, nENCR_AES_CBC_192, nENCR_AES_CBC_256]
      · by_cases a2 : t.aval = 192
        · simp [a2, h12, h14, nENCR_AES_CBC_128, nENCR_AES_CBC_192, nENCR_AES_CBC_256]
        · by_cases a3 : t.aval = 256
          · simp [a3, h12, h14, nENCR_AES_CBC_128, nENCR_AES_CBC_192, nENCR_AES_CBC_256]
          · simp [a1, a2, a3, h12, h14]
    · simp [h12, h14]
  · have h12' : ¬ (12 : UInt16) = t.tid := fun h => h12 h.symm
    simp [h12, h12']

theorem encr_DecodeTransform_refines (t : Transform) :
    (Gen.encr.DecodeTransform encrG t).map absEncr = .ok (Registry.decodeEncr t) := by
  rw [encr_DecodeTransform_eval]
  unfold Registry.decodeEncr Registry.decodeEncrRow
  simp only [Facts.encrTable, aesCbcRow_table, Facts.encrAesCbcId, map_ok']
  by_cases h12 : t.tid = 12 <;> by_cases h14 : t.atype = 14 <;> by_cases a1 : t.aval = 128 <;>
    by_cases a2 : t.aval = 192 <;> by_cases a3 : t.aval = 256 <;> simp [h12, h14, a1, a2, a3, absEncr]

theorem encr_DecodeTransformChildSA_refines (t : Transform) :
    (Gen.encr.DecodeTransformChildSA encrG t).map absEncrK = .ok (Registry.decodeEncrChild t) := by
  rw [encr_DecodeTransformChildSA_eval]
  unfold Registry.decodeEncrChild Registry.decodeEncrRow
  simp only [Facts.encrChildTable, aesCbcRow_table, Facts.encrAesCbcId, map_ok']
  by_cases h12 : t.tid = 12 <;> by_cases h14 : t.atype = 14 <;> by_cases a1 : t.aval = 128 <;>
    by_cases a2 : t.aval = 192 <;> by_cases a3 : t.aval = 256 <;> simp [h12, h14, a1, a2, a3, absEncrK]

/-! ### integ -/

def nAUTH_HMAC_MD5_96 : Bytes := [65, 85, 84, 72, 95, 72, 77, 65, 67, 95, 77, 68, 53, 95, 57, 54]
def nAUTH_HMAC_SHA1_96 : Bytes := [65, 85, 84, 72, 95, 72, 77, 65, 67, 95, 83, 72, 65, 49, 95, 57, 54]
def nAUTH_HMAC_SHA2_256_128 : Bytes :=
  [65, 85, 84, 72, 95, 72, 77, 65, 67, 95, 83, 72, 65, 50, 95, 50, 53, 54, 95, 49, 50, 56]

theorem integG_integString :
    integG.integString = some [(1, Gen.integ.toString_AUTH_HMAC_MD5_96), (2, Gen.integ.toString_AUTH_HMAC_SHA1_96),
      (12, Gen.integ.toString_AUTH_HMAC_SHA2_256_128)] := rfl
theorem integG_integTypes :
    integG.integTypes = some [(nAUTH_HMAC_MD5_96, .AuthHmacMd5_95 ⟨16, 12⟩), (nAUTH_HMAC_SHA1_96, .AuthHmacSha1_96 ⟨20, 12⟩),
      (nAUTH_HMAC_SHA2_256_128, .AuthHmacSha2_256_128 ⟨32, 16⟩)] := rfl
theorem integG_integKTypes :
    integG.integKTypes = some [(nAUTH_HMAC_MD5_96, .AuthHmacMd5_95 ⟨16, 12⟩), (nAUTH_HMAC_SHA1_96, .AuthHmacSha1_96 ⟨20, 12⟩),
      (nAUTH_HMAC_SHA2_256_128, .AuthHmacSha2_256_128 ⟨32, 16⟩)] := rfl

/-- hash numbers as in `Init`: `Go.Mac.new 0` md5, `1` sha1, `2` sha256 -/
def absInteg : Gen.integ.INTEGType → Option IntegInfo
  | .nil_ => none
  | .AuthHmacMd5_95 v => some ⟨1, v.keyLength.toNat, v.outputLength.toNat, 0⟩
  | .AuthHmacSha1_96 v => some ⟨2, v.keyLength.toNat, v.outputLength.toNat, 1⟩
  | .AuthHmacSha2_256_128 v => some ⟨12, v.keyLength.toNat, v.outputLength.toNat, 2⟩

def absIntegK : Gen.integ.INTEGKType → Option Registry.IntegKInfo
  | .nil_ => none
  | .AuthHmacMd5_95 v => some ⟨1, v.keyLength.toNat⟩
  | .AuthHmacSha1_96 v => some ⟨2, v.keyLength.toNat⟩
  | .AuthHmacSha2_256_128 v => some ⟨12, v.keyLength.toNat⟩

theorem findId_integTable (id : UInt16) :
    Registry.findId [(1, 16, 12, 0), (2, 20, 12, 1), (12, 32, 16, 2)] id =
      if id = 1 then some (1, 16, 12, 0) else if id = 2 then some (2, 20, 12, 1)
      else if id = 12 then some (12, 32, 16, 2) else none := by
  unfold Registry.findId
  by_cases h1 : id = 1
  · simp [h1]
  · by_cases h2 : id = 2
    · simp [h2]
    · by_cases h3 : id = 12
      · simp [h3]
      · have h1' : ¬ (1 : UInt16) = id := fun h => h1 h.symm
        have h2' : ¬ (2 : UInt16) = id := fun h => h2 h.symm
        have h3' : ¬ (12 : UInt16) = id := fun h => h3 h.symm
        simp [h1, h2, h3, h1', h2', h3']

theorem integ_DecodeTransform_eval (t : Transform) :
    Gen.integ.DecodeTransform integG t = .ok
      (if t.tid = 1 then Gen.integ.INTEGType.AuthHmacMd5_95 ⟨16, 12⟩ else if t.tid = 2 then Gen.integ.INTEGType.AuthHmacSha1_96 ⟨20, 12⟩
       else if t.tid = 12 then Gen.integ.INTEGType.AuthHmacSha2_256_128 ⟨32, 16⟩ else Gen.integ.INTEGType.nil_) := by
  unfold Gen.integ.DecodeTransform
  simp only [integG_integString, integG_integTypes, Go.mapGet, Go.mapGetList]
  by_cases h1 : t.tid = 1
  · simp [h1, Gen.integ.toString_AUTH_HMAC_MD5_96, nAUTH_HMAC_MD5_96, nAUTH_HMAC_SHA1_96, nAUTH_HMAC_SHA2_256_128]
  · by_cases h2 : t.tid = 2
    · simp [h2, Gen.integ.toString_AUTH_HMAC_SHA1_96, nAUTH_HMAC_MD5_96, nAUTH_HMAC_SHA1_96, nAUTH_HMAC_SHA2_256_128]
    · by_cases h3 : t.tid = 12
      · simp [h3, Gen.integ.toString_AUTH_HMAC_SHA2_256_128, nAUTH_HMAC_MD5_96, nAUTH_HMAC_SHA1_96,
          nAUTH_HMAC_SHA2_256_128]
      · have h1' : ¬ (1 : UInt16) = t.tid := fun h => h1 h.symm
        have h2' : ¬ (2 : UInt16) = t.tid := fun h => h2 h.symm
        have h3' : ¬ (12 : UInt16) = t.tid := fun h => h3 h.symm
        simp [h1, h2, h3, h1', h2', h3']

theorem integ_DecodeTransform_refines (t : Transform) :
    (Gen.integ.DecodeTransform integG t).map absInteg = .ok (Registry.decodeInteg t) := by
  rw [integ_DecodeTransform_eval]
  unfold Registry.decodeInteg
  simp only [Facts.integTable, findId_integTable, map_ok']
  by_cases h1 : t.tid = 1 <;> by_cases h2 : t.tid = 2 <;> by_cases h3 : t.tid = 12 <;>
    simp [h1, h2, h3, absInteg]

theorem integ_DecodeTransformChildSA_eval (t : Transform) :
    Gen.integ.DecodeTransformChildSA integG t = .ok
      (if t.tid = 1 then Gen.integ.INTEGKType.AuthHmacMd5_95 ⟨16, 12⟩ else if t.tid = 2 then Gen.integ.INTEGKType.AuthHmacSha1_96 ⟨20, 12⟩
       else if t.tid = 12 then Gen.integ.INTEGKType.AuthHmacSha2_256_128 ⟨32, 16⟩ else Gen.integ.INTEGKType.nil_) := by
  unfold Gen.integ.DecodeTransformChildSA
  simp only [integG_integString, integG_integKTypes, Go.mapGet, Go.mapGetList]
  by_cases h1 : t.tid = 1
  · simp [h1, Gen.integ.toString_AUTH_HMAC_MD5_96, nAUTH_HMAC_MD5_96, nAUTH_HMAC_SHA1_96, nAUTH_HMAC_SHA2_256_128]
  · by_cases h2 : t.tid = 2
    · simp [h2, Gen.integ.toString_AUTH_HMAC_SHA1_96, nAUTH_HMAC_MD5_96, nAUTH_HMAC_SHA1_96, nAUTH_HMAC_SHA2_256_128]
    · by_cases h3 : t.tid = 12
      · simp [h3, Gen.integ.toString_AUTH_HMAC_SHA2_256_128, nAUTH_HMAC_MD5_96, nAUTH_HMAC_SHA1_96,
          nAUTH_HMAC_SHA2_256_128]
      · have h1' : ¬ (1 : UInt16) = t.tid := fun h => h1 h.symm
        have h2' : ¬ (2 : UInt16) = t.tid := fun h => h2 h.symm
        have h3' : ¬ (12 : UInt16) = t.tid := fun h => h3 h.symm
        simp [h1, h2, h3, h1', h2', h3']

theorem integ_DecodeTransformChildSA_refines (t : Transform) :
    (Gen.integ.DecodeTransformChildSA integG t).map absIntegK = .ok (Registry.decodeIntegChild t) := by
  rw [integ_DecodeTransformChildSA_eval]
  unfold Registry.decodeIntegChild
  simp only [Facts.integChildTable, findId_integTable, map_ok']
  by_cases h1 : t.tid = 1 <;> by_cases h2 : t.tid = 2 <;> by_cases h3 : t.tid = 12 <;>
    simp [h1, h2, h3, absIntegK]

/-! ### prf -/

def nPRF_HMAC_MD5 : Bytes := [80, 82, 70, 95, 72, 77, 65, 67, 95, 77, 68, 53]
def nPRF_HMAC_SHA1 : Bytes := [80, 82, 70, 95, 72, 77, 65, 67, 95, 83, 72, 65, 49]
def nPRF_HMAC_SHA2_256 : Bytes := [80, 82, 70, 95, 72, 77, 65, 67, 95, 83, 72, 65, 50, 95, 50, 53, 54]

theorem prfG_prfString :
    prfG.prfString = some [(1, Gen.prf.toString_PRF_HMAC_MD5), (2, Gen.prf.toString_PRF_HMAC_SHA1),
      (5, Gen.prf.toString_PRF_HMAC_SHA2_256)] := rfl
theorem prfG_prfTypes :
    prfG.prfTypes = some [(nPRF_HMAC_MD5, .PrfHmacMd5 ⟨16, 16⟩), (nPRF_HMAC_SHA1, .PrfHmacSha1 ⟨20, 20⟩),
      (nPRF_HMAC_SHA2_256, .PrfHmacSha2_256 ⟨32, 32⟩)] := rfl

def absPrf : Gen.prf.PRFType → Option PrfInfo
  | .nil_ => none
  | .PrfHmacMd5 v => some ⟨1, v.keyLength.toNat, v.outputLength.toNat, 0⟩
  | .PrfHmacSha1 v => some ⟨2, v.keyLength.toNat, v.outputLength.toNat, 1⟩
  | .PrfHmacSha2_256 v => some ⟨5, v.keyLength.toNat, v.outputLength.toNat, 2⟩

theorem findId_prfTable (id : UInt16) :
    Registry.findId [(1, 16, 16, 0), (2, 20, 20, 1), (5, 32, 32, 2)] id =
      if id = 1 then some (1, 16, 16, 0) else if id = 2 then some (2, 20, 20, 1)
      else if id = 5 then some (5, 32, 32, 2) else none := by
  unfold Registry.findId
  by_cases h1 : id = 1
  · simp [h1]
  · by_cases h2 : id = 2
    · simp [h2]
    · by_cases h3 : id = 5
      · simp [h3]
      · have h1' : ¬ (1 : UInt16) = id := fun h => h1 h.symm
        have h2' : ¬ (2 : UInt16) = id := fun h => h2 h.symm
        have h3' : ¬ (5 : UInt16) = id := fun h => h3 h.symm
        simp [h1, h2, h3, h1', h2', h3']

theorem prf_DecodeTransform_eval (t : Transform) :
    Gen.prf.DecodeTransform prfG t = .ok
      (if t.tid = 1 then .PrfHmacMd5 ⟨16, 16⟩ else if t.tid = 2 then .PrfHmacSha1 ⟨20, 20⟩
       else if t.tid = 5 then .PrfHmacSha2_256 ⟨32, 32⟩ else .nil_) := by
  unfold Gen.prf.DecodeTransform
  simp only [prfG_prfString, prfG_prfTypes, Go.mapGet, Go.mapGetList]
  by_cases h1 : t.tid = 1
  · simp [h1, Gen.prf.toString_PRF_HMAC_MD5, nPRF_HMAC_MD5, nPRF_HMAC_SHA1, nPRF_HMAC_SHA2_256]
  · by_cases h2 : t.tid = 2
    · simp [h2, Gen.prf.toString_PRF_HMAC_SHA1, nPRF_HMAC_MD5, nPRF_HMAC_SHA1, nPRF_HMAC_SHA2_256]
    · by_cases h3 : t.tid = 5
      · simp [h3, Gen.prf.toString_PRF_HMAC_SHA2_256, nPRF_HMAC_MD5, nPRF_HMAC_SHA1, nPRF_HMAC_SHA2_256]
      · have h1' : ¬ (1 : UInt16) = t.tid := fun h => h1 h.symm
        have h2' : ¬ (2 : UInt16) = t.tid := fun h => h2 h.symm
        have h3' : ¬ (5 : UInt16) = t.tid := fun h => h3 h.symm
        simp [h1, h2, h3, h1', h2', h3']

theorem prf_DecodeTransform_refines (t : Transform) :
    (Gen.prf.DecodeTransform prfG t).map absPrf = .ok (Registry.decodePrf t) := by
  rw [prf_DecodeTransform_eval]
  unfold Registry.decodePrf
  simp only [Facts.prfTable, findId_prfTable, map_ok']
  by_cases h1 : t.tid = 1 <;> by_cases h2 : t.tid = 2 <;> by_cases h3 : t.tid = 5 <;>
    simp [h1, h2, h3, absPrf]

/-! ### esn -/

def nESN_ENABLE : Bytes := [69, 83, 78, 95, 69, 78, 65, 66, 76, 69]
def nESN_DISABLE : Bytes := [69, 83, 78, 95, 68, 73, 83, 65, 66, 76, 69]

theorem esnG_esnString :
    esnG.esnString = some [(1, Gen.esn.toString_ESN_ENABLE), (0, Gen.esn.toString_ESN_DISABLE)] := rfl
theorem esnG_esnTypes :
    esnG.esnTypes = some [(nESN_ENABLE, ⟨true⟩), (nESN_DISABLE, ⟨false⟩)] := rfl

def absEsn (e : Gen.esn.ESN) : Registry.EsnInfo := ⟨e.needESN⟩

theorem esn_DecodeTransform_eval (t : Transform) :
    Gen.esn.DecodeTransform esnG t =
      (if t.tid = 1 then .ok ⟨true⟩ else if t.tid = 0 then .ok ⟨false⟩ else .err) := by
  unfold Gen.esn.DecodeTransform Gen.esn.StrToType
  simp only [esnG_esnString, esnG_esnTypes, Go.mapGet, Go.mapGetList]
  by_cases h1 : t.tid = 1
  · simp [h1, Gen.esn.toString_ESN_ENABLE, nESN_ENABLE, nESN_DISABLE]
  · by_cases h0 : t.tid = 0
    · simp [h0, Gen.esn.toString_ESN_DISABLE, nESN_ENABLE, nESN_DISABLE]
    · have h1' : ¬ (1 : UInt16) = t.tid := fun h => h1 h.symm
      have h0' : ¬ (0 : UInt16) = t.tid := fun h => h0 h.symm
      simp [h1, h0, h1', h0']

/-- the model's `decodeEsn` returns a `Res` (Go returns an error, not nil), so no `.ok` on the right -/
theorem esn_DecodeTransform_refines (t : Transform) :
    (Gen.esn.DecodeTransform esnG t).map absEsn = Registry.decodeEsn t := by
  rw [esn_DecodeTransform_eval]
  unfold Registry.decodeEsn
  simp only [Facts.esnEnableId, Facts.esnDisableId]
  by_cases h1 : t.tid = 1 <;> by_cases h0 : t.tid = 0 <;> simp [h1, h0, absEsn]

/-! ### `ToTransform` -/

/-- `EncrAesCbc.getAttribute`: Go computes `keyLength * 8` in `int` and rejects `< 0` and `> 0xFFFF`;
the model has the key length in `Nat`, hence the hypothesis (see `aesCbc_getAttribute_negative`). -/
theorem aesCbc_getAttribute_refines (v : Gen.encr.EncrAesCbc) (hk : 0 ≤ v.keyLength) :
    Gen.encr.EncrAesCbc.getAttribute v =
      (Registry.aesCbcAttr v.keyLength.toNat).map (fun a => (a.1, a.2.1, a.2.2.1, a.2.2.2.getD [])) := by
  obtain ⟨n, hn⟩ := Int.eq_ofNat_of_zero_le hk
  unfold Gen.encr.EncrAesCbc.getAttribute Registry.aesCbcAttr Go.toU16
  simp only [hn, Int.toNat_natCast, Facts.attrTypeKeyLength]
  by_cases hb : n * 8 > 0xFFFF
  · have h1 : ((n : Int) * 8 < 0 ∨ (n : Int) * 8 > 65535) := by omega
    simp [h1, hb]
  · have h1 : ¬ ((n : Int) * 8 < 0 ∨ (n : Int) * 8 > 65535) := by omega
    have h2 : ((n : Int) * 8 % 65536).toNat = n * 8 := by omega
    simp [h1, hb, h2]

/-- what happens without the hypothesis: a negative key length is an error in Go, while the model's
`Nat` descriptor `⟨12, 0⟩` encodes (key length attribute 0) -/
theorem aesCbc_getAttribute_negative (v : Gen.encr.EncrAesCbc) (hk : v.keyLength < 0) :
    Gen.encr.ToTransform (.EncrAesCbc v) = .err ∧
    Registry.encrToTransform ⟨12, v.keyLength.toNat⟩ = .ok ⟨1, 12, true, 1, 14, 0, []⟩ := by
  have h0 : v.keyLength.toNat = 0 := by omega
  constructor
  · unfold Gen.encr.ToTransform Gen.encr.ENCRType.TransformID Gen.encr.ENCRType.getAttribute
      Gen.encr.EncrAesCbc.TransformID Gen.encr.EncrAesCbc.getAttribute
    have h1 : (v.keyLength * 8 < 0 ∨ v.keyLength * 8 > 65535) := by omega
    simp [h1]
  · rw [h0]; rfl

theorem encr_ToTransform_refines (v : Gen.encr.EncrAesCbc) (hk : 0 ≤ v.keyLength) :
    Gen.encr.ToTransform (.EncrAesCbc v) = Registry.encrToTransform ⟨12, v.keyLength.toNat⟩ := by
  simp only [Gen.encr.ToTransform, Gen.encr.ENCRType.TransformID, Gen.encr.ENCRType.getAttribute,
    Gen.encr.EncrAesCbc.TransformID, Registry.encrToTransform, aesCbc_getAttribute_refines v hk]
  unfold Registry.aesCbcAttr
  by_cases hb : v.keyLength.toNat * 8 > 0xFFFF
  · simp [hb]
  · simp [hb, Registry.mkTransform, GenExt.Transform_zero, Facts.ttEncr, Facts.attrFormatTV]

theorem encr_ToTransformChildSA_refines (v : Gen.encr.EncrAesCbc) (hk : 0 ≤ v.keyLength) :
    Gen.encr.ToTransformChildSA (.EncrAesCbc v) = Registry.encrChildToTransform ⟨12, v.keyLength.toNat⟩ := by
  simp only [Gen.encr.ToTransformChildSA, Gen.encr.ENCRKType.TransformID, Gen.encr.ENCRKType.getAttribute,
    Gen.encr.EncrAesCbc.TransformID, Registry.encrChildToTransform, aesCbc_getAttribute_refines v hk]
  unfold Registry.aesCbcAttr
  by_cases hb : v.keyLength.toNat * 8 > 0xFFFF
  · simp [hb]
  · simp [hb, Registry.mkTransform, GenExt.Transform_zero, Facts.ttEncr, Facts.attrFormatTV]

/-- the nil interface: Go panics (method call on a nil interface value) -/
theorem encr_ToTransform_nil : Gen.encr.ToTransform .nil_ = .fault := rfl
theorem encr_ToTransformChildSA_nil : Gen.encr.ToTransformChildSA .nil_ = .fault := rfl

/-- the model's `integToTransform` is total (no `Res`) -/
theorem integ_ToTransform_refines (i : Gen.integ.INTEGType) (d : IntegInfo) (h : absInteg i = some d) :
    Gen.integ.ToTransform i = .ok (Registry.integToTransform d) := by
  cases i <;> simp [absInteg] at h <;> subst h <;> rfl

theorem integ_ToTransformChildSA_refines (i : Gen.integ.INTEGKType) (d : Registry.IntegKInfo) (h : absIntegK i = some d) :
    Gen.integ.ToTransformChildSA i = .ok (Registry.integChildToTransform d) := by
  cases i <;> simp [absIntegK] at h <;> subst h <;> rfl

theorem integ_ToTransform_nil : Gen.integ.ToTransform .nil_ = .fault := rfl
theorem integ_ToTransformChildSA_nil : Gen.integ.ToTransformChildSA .nil_ = .fault := rfl

theorem prf_ToTransform_refines (p : Gen.prf.PRFType) (d : PrfInfo) (h : absPrf p = some d) :
    Gen.prf.ToTransform p = .ok (Registry.prfToTransform d) := by
  cases p <;> simp [absPrf] at h <;> subst h <;> rfl

theorem prf_ToTransform_nil : Gen.prf.ToTransform .nil_ = .fault := rfl

theorem esn_ToTransform_refines (e : Gen.esn.ESN) :
    Gen.esn.ToTransform e = .ok (Registry.esnToTransform (absEsn e)) := by
  cases e with
  | mk b => cases b <;> rfl

/-! ### `init` produces exactly the advertised descriptors -/

theorem encr_types_are_table :
    (Go.mapEntries encrG.encrTypes).map (fun p => absEncr p.2) = Registry.advertisedEncr.map some := by decide
theorem encr_ktypes_are_table :
    (Go.mapEntries encrG.encrKTypes).map (fun p => absEncrK p.2) = Registry.advertisedEncrChild.map some := by decide
theorem integ_types_are_table :
    (Go.mapEntries integG.integTypes).map (fun p => absInteg p.2) = Registry.advertisedInteg.map some := by decide
theorem integ_ktypes_are_table :
    (Go.mapEntries integG.integKTypes).map (fun p => absIntegK p.2) = Registry.advertisedIntegChild.map some := by decide
theorem prf_types_are_table :
    (Go.mapEntries prfG.prfTypes).map (fun p => absPrf p.2) = Registry.advertisedPrf.map some := by decide
theorem esn_types_are_table :
    (Go.mapEntries esnG.esnTypes).map (fun p => absEsn p.2) = Registry.advertisedEsn := by decide

/-! ### `StrToType` / `StrToKType`: name -> descriptor -/

def encrNames : List Bytes := [nENCR_AES_CBC_128, nENCR_AES_CBC_192, nENCR_AES_CBC_256]
def integNames : List Bytes := [nAUTH_HMAC_MD5_96, nAUTH_HMAC_SHA1_96, nAUTH_HMAC_SHA2_256_128]
def prfNames : List Bytes := [nPRF_HMAC_MD5, nPRF_HMAC_SHA1, nPRF_HMAC_SHA2_256]
def esnNames : List Bytes := [nESN_ENABLE, nESN_DISABLE]

/-- the octet lists are the Go string literals -/
theorem names_are_strings :
    encrNames = ["ENCR_AES_CBC_128", "ENCR_AES_CBC_192", "ENCR_AES_CBC_256"].map (fun s => s.toList.map (fun c => c.toNat.toUInt8)) ∧
    integNames = ["AUTH_HMAC_MD5_96", "AUTH_HMAC_SHA1_96", "AUTH_HMAC_SHA2_256_128"].map (fun s => s.toList.map (fun c => c.toNat.toUInt8)) ∧
    prfNames = ["PRF_HMAC_MD5", "PRF_HMAC_SHA1", "PRF_HMAC_SHA2_256"].map (fun s => s.toList.map (fun c => c.toNat.toUInt8)) ∧
    esnNames = ["ESN_ENABLE", "ESN_DISABLE"].map (fun s => s.toList.map (fun c => c.toNat.toUInt8)) := by
  decide

theorem encrNames_nodup : encrNames.Nodup := by decide
theorem integNames_nodup : integNames.Nodup := by decide
theorem prfNames_nodup : prfNames.Nodup := by decide
theorem esnNames_nodup : esnNames.Nodup := by decide

/-- Go's `v, ok := m[k]` on the association list is `List.lookup` -/
theorem mapGetList_eq_lookup {κ ν : Type} [BEq κ] [LawfulBEq κ] [DecidableEq κ] (l : List (κ × ν)) (k : κ) :
    Go.mapGetList l k = l.lookup k := by
  induction l with
  | nil => rfl
  | cons p rest ih =>
    obtain ⟨k', v'⟩ := p
    unfold Go.mapGetList
    by_cases h : k' = k
    · subst h; simp [List.lookup]
    · have h' : (k == k') = false := by
        simp only [beq_eq_false_iff_ne, ne_eq]; exact fun e => h e.symm
      simp [h, List.lookup, h', ih]

/-- the registry as (name, abstract descriptor) pairs is the advertised table zipped with the names,
in table order -/
theorem encr_StrToType_advertised :
    (Go.mapEntries encrG.encrTypes).map (fun p => (p.1, absEncr p.2)) =
      encrNames.zip (Registry.advertisedEncr.map some) := by decide
theorem encr_StrToKType_advertised :
    (Go.mapEntries encrG.encrKTypes).map (fun p => (p.1, absEncrK p.2)) =
      encrNames.zip (Registry.advertisedEncrChild.map some) := by decide
theorem integ_StrToType_advertised :
    (Go.mapEntries integG.integTypes).map (fun p => (p.1, absInteg p.2)) =
      integNames.zip (Registry.advertisedInteg.map some) := by decide
theorem integ_StrToKType_advertised :
    (Go.mapEntries integG.integKTypes).map (fun p => (p.1, absIntegK p.2)) =
      integNames.zip (Registry.advertisedIntegChild.map some) := by decide
theorem prf_StrToType_advertised :
    (Go.mapEntries prfG.prfTypes).map (fun p => (p.1, absPrf p.2)) =
      prfNames.zip (Registry.advertisedPrf.map some) := by decide
theorem esn_StrToType_advertised :
    (Go.mapEntries esnG.esnTypes).map (fun p => (p.1, absEsn p.2)) =
      esnNames.zip Registry.advertisedEsn := by decide

/-- `StrToType` is the lookup in the registry (nil interface for an unknown name) -/
theorem encr_StrToType_lookup (name : Bytes) :
    Gen.encr.StrToType encrG name = .ok (((Go.mapEntries encrG.encrTypes).lookup name).getD .nil_) := by
  unfold Gen.encr.StrToType Go.mapGet
  simp only [encrG_encrTypes, mapGetList_eq_lookup, Go.mapEntries]
  cases List.lookup name _ <;> simp <;> rfl
theorem encr_StrToKType_lookup (name : Bytes) :
    Gen.encr.StrToKType encrG name = .ok (((Go.mapEntries encrG.encrKTypes).lookup name).getD .nil_) := by
  unfold Gen.encr.StrToKType Go.mapGet
  simp only [encrG_encrKTypes, mapGetList_eq_lookup, Go.mapEntries]
  cases List.lookup name _ <;> simp <;> rfl
theorem integ_StrToType_lookup (name : Bytes) :
    Gen.integ.StrToType integG name = .ok (((Go.mapEntries integG.integTypes).lookup name).getD .nil_) := by
  unfold Gen.integ.StrToType Go.mapGet
  simp only [integG_integTypes, mapGetList_eq_lookup, Go.mapEntries]
  cases List.lookup name _ <;> simp <;> rfl
theorem integ_StrToKType_lookup (name : Bytes) :
    Gen.integ.StrToKType integG name = .ok (((Go.mapEntries integG.integKTypes).lookup name).getD .nil_) := by
  unfold Gen.integ.StrToKType Go.mapGet
  simp only [integG_integKTypes, mapGetList_eq_lookup, Go.mapEntries]
  cases List.lookup name _ <;> simp <;> rfl
theorem prf_StrToType_lookup (name : Bytes) :
    Gen.prf.StrToType prfG name = .ok (((Go.mapEntries prfG.prfTypes).lookup name).getD .nil_) := by
  unfold Gen.prf.StrToType Go.mapGet
  simp only [prfG_prfTypes, mapGetList_eq_lookup, Go.mapEntries]
  cases List.lookup name _ <;> simp <;> rfl
/-- `esn.StrToType` returns an error, not a nil value, for an unknown name -/
theorem esn_StrToType_lookup (name : Bytes) :
    Gen.esn.StrToType esnG name =
      (match (Go.mapEntries esnG.esnTypes).lookup name with | some e => .ok e | none => .err) := by
  unfold Gen.esn.StrToType Go.mapGet
  simp only [esnG_esnTypes, mapGetList_eq_lookup, Go.mapEntries]
  cases List.lookup name _ <;> simp

/-- every row of the advertised table is reached by its name, in table order -/
theorem encr_StrToType_rows :
    encrNames.map (fun n => (Gen.encr.StrToType encrG n).map absEncr) =
      Registry.advertisedEncr.map (fun d => .ok (some d)) := by decide

/-- a name outside the list gives the nil interface -/
theorem encr_StrToType_unknown (name : Bytes) (h : name ∉ encrNames) :
    Gen.encr.StrToType encrG name = .ok .nil_ := by
  simp only [encrNames, List.mem_cons, List.not_mem_nil, or_false, not_or] at h
  obtain ⟨h1, h2, h3⟩ := h
  have h1' : ¬ nENCR_AES_CBC_128 = name := fun e => h1 e.symm
  have h2' : ¬ nENCR_AES_CBC_192 = name := fun e => h2 e.symm
  have h3' : ¬ nENCR_AES_CBC_256 = name := fun e => h3 e.symm
  unfold Gen.encr.StrToType Go.mapGet
  simp only [encrG_encrTypes, Go.mapGetList, h1', h2', h3', if_false]
  rfl

/-- a known name gives an advertised descriptor -/
theorem encr_StrToType_known (name : Bytes) (h : name ∈ encrNames) :
    ∃ d ∈ Registry.advertisedEncr, (Gen.encr.StrToType encrG name).map absEncr = .ok (some d) := by
  simp only [encrNames, List.mem_cons, List.not_mem_nil, or_false] at h
  rcases h with h | h | h <;> subst h <;> refine ⟨_, ?_, rfl⟩ <;> decide

/-- different names give different descriptors: each row is reached by exactly one name -/
theorem encr_StrToType_inj (n1 n2 : Bytes) (h1 : n1 ∈ encrNames) (h2 : n2 ∈ encrNames)
    (h : (Gen.encr.StrToType encrG n1).map absEncr = (Gen.encr.StrToType encrG n2).map absEncr) : n1 = n2 := by
  simp only [encrNames, List.mem_cons, List.not_mem_nil, or_false] at h1 h2
  rcases h1 with h1 | h1 | h1 <;> rcases h2 with h2 | h2 | h2 <;> subst h1 <;> subst h2 <;>
    first | rfl | (exfalso; revert h; decide)

/-- every row of the advertised table is reached by its name, in table order -/
theorem encr_StrToKType_rows :
    encrNames.map (fun n => (Gen.encr.StrToKType encrG n).map absEncrK) =
      Registry.advertisedEncrChild.map (fun d => .ok (some d)) := by decide

/-- a name outside the list gives the nil interface -/
theorem encr_StrToKType_unknown (name : Bytes) (h : name ∉ encrNames) :
    Gen.encr.StrToKType encrG name = .ok .nil_ := by
  simp only [encrNames, List.mem_cons, List.not_mem_nil, or_false, not_or] at h
  obtain ⟨h1, h2, h3⟩ := h
  have h1' : ¬ nENCR_AES_CBC_128 = name := fun e => h1 e.symm
  have h2' : ¬ nENCR_AES_CBC_192 = name := fun e => h2 e.symm
  have h3' : ¬ nENCR_AES_CBC_256 = name := fun e => h3 e.symm
  unfold Gen.encr.StrToKType Go.mapGet
  simp only [encrG_encrKTypes, Go.mapGetList, h1', h2', h3', if_false]
  rfl

/-- a known name gives an advertised descriptor -/
theorem encr_StrToKType_known (name : Bytes) (h : name ∈ encrNames) :
    ∃ d ∈ Registry.advertisedEncrChild, (Gen.encr.StrToKType encrG name).map absEncrK = .ok (some d) := by
  simp only [encrNames, List.mem_cons, List.not_mem_nil, or_false] at h
  rcases h with h | h | h <;> subst h <;> refine ⟨_, ?_, rfl⟩ <;> decide

/-- different names give different descriptors: each row is reached by exactly one name -/
theorem encr_StrToKType_inj (n1 n2 : Bytes) (h1 : n1 ∈ encrNames) (h2 : n2 ∈ encrNames)
    (h : (Gen.encr.StrToKType encrG n1).map absEncrK = (Gen.encr.StrToKType encrG n2).map absEncrK) : n1 = n2 := by
  simp only [encrNames, List.mem_cons, List.not_mem_nil, or_false] at h1 h2
  rcases h1 with h1 | h1 | h1 <;> rcases h2 with h2 | h2 | h2 <;> subst h1 <;> subst h2 <;>
    first | rfl | (exfalso; revert h; decide)

/-- every row of the advertised table is reached by its name, in table order -/
theorem integ_StrToType_rows :
    integNames.map (fun n => (Gen.integ.StrToType integG n).map absInteg) =
      Registry.advertisedInteg.map (fun d => .ok (some d)) := by decide

/-- a name outside the list gives the nil interface -/
theorem integ_StrToType_unknown (name : Bytes) (h : name ∉ integNames) :
    Gen.integ.StrToType integG name = .ok .nil_ := by
  simp only [integNames, List.mem_cons, List.not_mem_nil, or_false, not_or] at h
  obtain ⟨h1, h2, h3⟩ := h
  have h1' : ¬ nAUTH_HMAC_MD5_96 = name := fun e => h1 e.symm
  have h2' : ¬ nAUTH_HMAC_SHA1_96 = name := fun e => h2 e.symm
  have h3' : ¬ nAUTH_HMAC_SHA2_256_128 = name := fun e => h3 e.symm
  unfold Gen.integ.StrToType Go.mapGet
  simp only [integG_integTypes, Go.mapGetList, h1', h2', h3', if_false]
  rfl

/-- a known name gives an advertised descriptor -/
theorem integ_StrToType_known (name : Bytes) (h : name ∈ integNames) :
    ∃ d ∈ Registry.advertisedInteg, (Gen.integ.StrToType integG name).map absInteg = .ok (some d) := by
  simp only [integNames, List.mem_cons, List.not_mem_nil, or_false] at h
  rcases h with h | h | h <;> subst h <;> refine ⟨_, ?_, rfl⟩ <;> decide

/-- different names give different descriptors: each row is reached by exactly one name -/
theorem integ_StrToType_inj (n1 n2 : Bytes) (h1 : n1 ∈ integNames) (h2 : n2 ∈ integNames)
    (h : (Gen.integ.StrToType integG n1).map absInteg = (Gen.integ.StrToType integG n2).map absInteg) : n1 = n2 := by
  simp only [integNames, List.mem_cons, List.not_mem_nil, or_false] at h1 h2
  rcases h1 with h1 | h1 | h1 <;> rcases h2 with h2 | h2 | h2 <;> subst h1 <;> subst h2 <;>
    first | rfl | (exfalso; revert h; decide)

/-- every row of the advertised table is reached by its name, in table order -/
theorem integ_StrToKType_rows :
    integNames.map (fun n => (Gen.integ.StrToKType integG n).map absIntegK) =
      Registry.advertisedIntegChild.map (fun d => .ok (some d)) := by decide

/-- a name outside the list gives the nil interface -/
theorem integ_StrToKType_unknown (name : Bytes) (h : name ∉ integNames) :
    Gen.integ.StrToKType integG name = .ok .nil_ := by
  simp only [integNames, List.mem_cons, List.not_mem_nil, or_false, not_or] at h
  obtain ⟨h1, h2, h3⟩ := h
  have h1' : ¬ nAUTH_HMAC_MD5_96 = name := fun e => h1 e.symm
  have h2' : ¬ nAUTH_HMAC_SHA1_96 = name := fun e => h2 e.symm
  have h3' : ¬ nAUTH_HMAC_SHA2_256_128 = name := fun e => h3 e.symm
  unfold Gen.integ.StrToKType Go.mapGet
  simp only [integG_integKTypes, Go.mapGetList, h1', h2', h3', if_false]
  rfl

/-- a known name gives an advertised descriptor -/
theorem integ_StrToKType_known (name : Bytes) (h : name ∈ integNames) :
    ∃ d ∈ Registry.advertisedIntegChild, (Gen.integ.StrToKType integG name).map absIntegK = .ok (some d) := by
  simp only [integNames, List.mem_cons, List.not_mem_nil, or_false] at h
  rcases h with h | h | h <;> subst h <;> refine ⟨_, ?_, rfl⟩ <;> decide

/-- different names give different descriptors: each row is reached by exactly one name -/
theorem integ_StrToKType_inj (n1 n2 : Bytes) (h1 : n1 ∈ integNames) (h2 : n2 ∈ integNames)
    (h : (Gen.integ.StrToKType integG n1).map absIntegK = (Gen.integ.StrToKType integG n2).map absIntegK) : n1 = n2 := by
  simp only [integNames, List.mem_cons, List.not_mem_nil, or_false] at h1 h2
  rcases h1 with h1 | h1 | h1 <;> rcases h2 with h2 | h2 | h2 <;> subst h1 <;> subst h2 <;>
    first | rfl | (exfalso; revert h; decide)

/-- every row of the advertised table is reached by its name, in table order -/
theorem prf_StrToType_rows :
    prfNames.map (fun n => (Gen.prf.StrToType prfG n).map absPrf) =
      Registry.advertisedPrf.map (fun d => .ok (some d)) := by decide

/-- a name outside the list gives the nil interface -/
theorem prf_StrToType_unknown (name : Bytes) (h : name ∉ prfNames) :
    Gen.prf.StrToType prfG name = .ok .nil_ := by
  simp only [prfNames, List.mem_cons, List.not_mem_nil, or_false, not_or] at h
  obtain ⟨h1, h2, h3⟩ := h
  have h1' : ¬ nPRF_HMAC_MD5 = name := fun e => h1 e.symm
  have h2' : ¬ nPRF_HMAC_SHA1 = name := fun e => h2 e.symm
  have h3' : ¬ nPRF_HMAC_SHA2_256 = name := fun e => h3 e.symm
  unfold Gen.prf.StrToType Go.mapGet
  simp only [prfG_prfTypes, Go.mapGetList, h1', h2', h3', if_false]
  rfl

/-- a known name gives an advertised descriptor -/
theorem prf_StrToType_known (name : Bytes) (h : name ∈ prfNames) :
    ∃ d ∈ Registry.advertisedPrf, (Gen.prf.StrToType prfG name).map absPrf = .ok (some d) := by
  simp only [prfNames, List.mem_cons, List.not_mem_nil, or_false] at h
  rcases h with h | h | h <;> subst h <;> refine ⟨_, ?_, rfl⟩ <;> decide

/-- different names give different descriptors: each row is reached by exactly one name -/
theorem prf_StrToType_inj (n1 n2 : Bytes) (h1 : n1 ∈ prfNames) (h2 : n2 ∈ prfNames)
    (h : (Gen.prf.StrToType prfG n1).map absPrf = (Gen.prf.StrToType prfG n2).map absPrf) : n1 = n2 := by
  simp only [prfNames, List.mem_cons, List.not_mem_nil, or_false] at h1 h2
  rcases h1 with h1 | h1 | h1 <;> rcases h2 with h2 | h2 | h2 <;> subst h1 <;> subst h2 <;>
    first | rfl | (exfalso; revert h; decide)

theorem esn_StrToType_rows :
    esnNames.map (fun n => (Gen.esn.StrToType esnG n).map absEsn) = Registry.advertisedEsn.map .ok := by decide

/-- `esn.StrToType` of a name outside the list is an error -/
theorem esn_StrToType_unknown (name : Bytes) (h : name ∉ esnNames) : Gen.esn.StrToType esnG name = .err := by
  simp only [esnNames, List.mem_cons, List.not_mem_nil, or_false, not_or] at h
  obtain ⟨h1, h2⟩ := h
  have h1' : ¬ nESN_ENABLE = name := fun e => h1 e.symm
  have h2' : ¬ nESN_DISABLE = name := fun e => h2 e.symm
  unfold Gen.esn.StrToType Go.mapGet
  simp [esnG_esnTypes, Go.mapGetList, h1', h2']

theorem esn_StrToType_inj (n1 n2 : Bytes) (h1 : n1 ∈ esnNames) (h2 : n2 ∈ esnNames)
    (h : (Gen.esn.StrToType esnG n1).map absEsn = (Gen.esn.StrToType esnG n2).map absEsn) : n1 = n2 := by
  simp only [esnNames, List.mem_cons, List.not_mem_nil, or_false] at h1 h2
  rcases h1 with h1 | h1 <;> rcases h2 with h2 | h2 <;> subst h1 <;> subst h2 <;>
    first | rfl | (exfalso; revert h; decide)

/-! ### consequences: what the decoders return satisfies the `ToTransform` hypothesis; `Init` -/

theorem encr_DecodeTransform_keyLength_nonneg (t : Transform) (v : Gen.encr.EncrAesCbc)
    (h : Gen.encr.DecodeTransform encrG t = .ok (.EncrAesCbc v)) : 0 ≤ v.keyLength := by
  rw [encr_DecodeTransform_eval] at h
  simp only [Res.ok.injEq] at h
  split at h
  · split at h
    · split at h
      · cases h; decide
      · split at h
        · cases h; decide
        · split at h
          · cases h; decide
          · cases h
    · cases h
  · cases h

theorem encr_DecodeTransformChildSA_keyLength_nonneg (t : Transform) (v : Gen.encr.EncrAesCbc)
    (h : Gen.encr.DecodeTransformChildSA encrG t = .ok (.EncrAesCbc v)) : 0 ≤ v.keyLength := by
  rw [encr_DecodeTransformChildSA_eval] at h
  simp only [Res.ok.injEq] at h
  split at h
  · split at h
    · split at h
      · cases h; decide
      · split at h
        · cases h; decide
        · split at h
          · cases h; decide
          · cases h
    · cases h
  · cases h

/-- decode, then encode again: the generated pair agrees with the model pair, no side condition -/
theorem encr_ToTransform_of_decoded (t : Transform) (x : Gen.encr.ENCRType) (d : EncrInfo)
    (h : Gen.encr.DecodeTransform encrG t = .ok x) (hd : absEncr x = some d) :
    Gen.encr.ToTransform x = Registry.encrToTransform d := by
  cases x with
  | nil_ => simp [absEncr] at hd
  | EncrAesCbc v =>
    simp only [absEncr, Option.some.injEq] at hd
    subst hd
    exact encr_ToTransform_refines v (encr_DecodeTransform_keyLength_nonneg t v h)

theorem encr_ToTransformChildSA_of_decoded (t : Transform) (x : Gen.encr.ENCRKType) (d : Registry.EncrKInfo)
    (h : Gen.encr.DecodeTransformChildSA encrG t = .ok x) (hd : absEncrK x = some d) :
    Gen.encr.ToTransformChildSA x = Registry.encrChildToTransform d := by
  cases x with
  | nil_ => simp [absEncrK] at hd
  | EncrAesCbc v =>
    simp only [absEncrK, Option.some.injEq] at hd
    subst hd
    exact encr_ToTransformChildSA_refines v (encr_DecodeTransformChildSA_keyLength_nonneg t v h)

/-- the hash number of the abstraction is the one `Init` passes to `hmac.New` -/
theorem prf_Init_hash (p : Gen.prf.PRFType) (d : PrfInfo) (h : absPrf p = some d) (key : Bytes) :
    Gen.prf.PRFType.Init p key = .ok (Go.Mac.new d.hash key) := by
  cases p <;> simp [absPrf] at h <;> subst h <;> rfl

/-- `integ`: `Init` checks the key length against the constant of the algorithm (a wrong length gives
the nil `hash.Hash`, here the zero `Mac`) -/
theorem integ_Init_hash (i : Gen.integ.INTEGType) (d : IntegInfo) (h : absInteg i = some d)
    (hd : d ∈ Registry.advertisedInteg) (key : Bytes) (hk : key.length = d.keyLen) :
    Gen.integ.INTEGType.Init i key = .ok (Go.Mac.new d.hash key) := by
  simp only [Registry.advertisedInteg, Facts.integTable, List.map_cons, List.map_nil, List.mem_cons,
    List.not_mem_nil, or_false] at hd
  cases i <;> simp [absInteg] at h <;> subst h <;> rcases hd with hd | hd | hd <;>
    simp only [IntegInfo.mk.injEq] at hd <;>
    first
      | exact absurd hd.1 (by decide)
      | (simp only [hd.2.1] at hk
         simp [Gen.integ.INTEGType.Init, Gen.integ.AuthHmacMd5_95.Init, Gen.integ.AuthHmacSha1_96.Init,
           Gen.integ.AuthHmacSha2_256_128.Init, hk])

end Ike.RefineReg

