import IkeProofs.Refine.Basic
import IkeModel.Security.Dh
import IkeModel.Security.Registry
import IkeModel.Generated.Gen_dh
import IkeProofs.Lemmas.Dh

/-! Package `security/dh` as generated ⊑ the hand-written model (`IkeModel/Security/Dh.lean`,
the DH part of `IkeModel/Security/Registry.lean`). -/

set_option linter.unusedSimpArgs false
set_option linter.unusedVariables false
set_option maxRecDepth 8192

namespace Ike.RefineReg
open Ike

/-! ### `big.Int.Exp` -/

private theorem step_odd (acc b k m : Nat) :
    (acc * b % m) * (b * b % m) ^ k % m = acc * b ^ (2 * k + 1) % m := by
  have h1 : (b * b % m) ^ k % m = (b * b) ^ k % m := (Nat.pow_mod (b * b) k m).symm
  calc (acc * b % m) * (b * b % m) ^ k % m
      = ((acc * b % m) % m) * ((b * b % m) ^ k % m) % m := Nat.mul_mod _ _ _
    _ = (acc * b % m) * ((b * b) ^ k % m) % m := by rw [Nat.mod_mod, h1]
    _ = (acc * b) * (b * b) ^ k % m := (Nat.mul_mod _ _ _).symm
    _ = acc * b ^ (2 * k + 1) % m := by
        congr 1
        rw [Nat.pow_succ, Nat.pow_mul, Nat.pow_two, Nat.mul_assoc, Nat.mul_comm b]

private theorem step_even (acc b k m : Nat) :
    acc * (b * b % m) ^ k % m = acc * b ^ (2 * k) % m := by
  have h1 : (b * b % m) ^ k % m = (b * b) ^ k % m := (Nat.pow_mod (b * b) k m).symm
  calc acc * (b * b % m) ^ k % m
      = (acc % m) * ((b * b % m) ^ k % m) % m := Nat.mul_mod _ _ _
    _ = (acc % m) * ((b * b) ^ k % m) % m := by rw [h1]
    _ = acc * (b * b) ^ k % m := (Nat.mul_mod _ _ _).symm
    _ = acc * b ^ (2 * k) % m := by rw [Nat.pow_mul, Nat.pow_two]

/-- invariant of the square-and-multiply loop, for every sufficient fuel -/
theorem powModAux_eq (m : Nat) (hm : 0 < m) (fuel b e acc : Nat) (he : e < 2 ^ fuel) (hacc : acc < m) :
    Go.powModAux m fuel b e acc = acc * b ^ e % m := by
  induction fuel generalizing b e acc with
  | zero =>
    have : e = 0 := by simp at he; omega
    subst this
    simp [Go.powModAux, Nat.mod_eq_of_lt hacc]
  | succ fuel ih =>
    unfold Go.powModAux
    by_cases h0 : e = 0
    · subst h0; simp [Nat.mod_eq_of_lt hacc]
    · rw [if_neg h0]
      have he2 : e / 2 < 2 ^ fuel := by rw [Nat.pow_succ] at he; omega
      by_cases hodd : e % 2 = 1
      · rw [if_pos hodd, ih _ _ _ he2 (Nat.mod_lt _ hm), step_odd]
        have hE : 2 * (e / 2) + 1 = e := by omega
        rw [hE]
      · rw [if_neg hodd, ih _ _ _ he2 hacc, step_even]
        have hE : 2 * (e / 2) = e := by omega
        rw [hE]

/-- the key arithmetic lemma: `new(big.Int).Exp(x, y, m)` is the modular power -/
theorem bigExp_eq_pow_mod (x y m : Nat) (hm : 0 < m) : Go.bigExp x y m = x ^ y % m := by
  unfold Go.bigExp
  rw [if_neg (by omega)]
  have hy : y < 2 ^ (y.log2 + 2) := by
    have := Nat.lt_log2_self (n := y)
    rw [Nat.pow_succ]; omega
  rw [powModAux_eq m hm _ _ _ _ hy (Nat.mod_lt _ hm)]
  calc 1 % m * (x % m) ^ y % m
      = (1 % m % m) * ((x % m) ^ y % m) % m := Nat.mul_mod _ _ _
    _ = (1 % m) * (x ^ y % m) % m := by rw [Nat.mod_mod, ← Nat.pow_mod]
    _ = 1 * x ^ y % m := (Nat.mul_mod _ _ _).symm
    _ = x ^ y % m := by rw [Nat.one_mul]

theorem bigExp_eq_modPow (x y m : Nat) (hm : 0 < m) : Go.bigExp x y m = modPow x y m := by
  rw [bigExp_eq_pow_mod x y m hm, modPow_eq]

/-- without the side condition: for `m = 0` both are `x ^ y` -/
theorem bigExp_eq_modPow' (x y m : Nat) : Go.bigExp x y m = modPow x y m := by
  by_cases hm : 0 < m
  · exact bigExp_eq_modPow x y m hm
  · have : m = 0 := by omega
    subst this
    rw [modPow_eq]; simp [Go.bigExp]

/-! ### `init`: the package-level registries -/

/-- the package-level variables after `init` -/
def dhG : Gen.dh.Globals := match Gen.dh.init_ {} with | .ok G => G | _ => {}

def name1024 : Bytes := [68, 72, 95, 49, 48, 50, 52, 95, 66, 73, 84, 95, 77, 79, 68, 80]
def name2048 : Bytes := [68, 72, 95, 50, 48, 52, 56, 95, 66, 73, 84, 95, 77, 79, 68, 80]

/-- the descriptor `init` registers under `"DH_1024_BIT_MODP"` -/
def desc1024 : Gen.dh.Dh1024BitModp :=
  { factor := Facts.group2Prime, generator := Facts.group2Generator, factorBytesLength := (Facts.group2Len : Int) }
/-- the descriptor `init` registers under `"DH_2048_BIT_MODP"` -/
def desc2048 : Gen.dh.DH2048BitModp :=
  { factor := Facts.group14Prime, generator := Facts.group14Generator, factorBytesLength := (Facts.group14Len : Int) }

/-- what `init` computes, explicitly -/
def dhGExplicit : Gen.dh.Globals :=
  { dhString := some [((2 : UInt16), Gen.dh.toString_DH_1024_BIT_MODP), ((14 : UInt16), Gen.dh.toString_DH_2048_BIT_MODP)]
    dhTypes := some [(name1024, .Dh1024BitModp desc1024), (name2048, .DH2048BitModp desc2048)] }

theorem group2Prime_len : (natBytesMin Facts.group2Prime).length = 128 := by decide +kernel
theorem group14Prime_len : (natBytesMin Facts.group14Prime).length = 256 := by decide +kernel

theorem init_eq : Gen.dh.init_ {} = .ok dhGExplicit := by
  unfold Gen.dh.init_
  generalize h3 : Go.bigSetHex _ = bn3
  generalize h5 : Go.bigSetHex _ = bn5
  have e3 : bn3 = (Facts.group2Prime, true) := by rw [← h3]; decide +kernel
  have e5 : bn5 = (Facts.group14Prime, true) := by rw [← h5]; decide +kernel
  subst e3 e5
  simp [Go.mapSet, Go.mapSetList, group2Prime_len, group14Prime_len, dhGExplicit, name1024, name2048,
    desc1024, desc2048, Facts.group2Generator, Facts.group14Generator, Facts.group2Len, Facts.group14Len]

theorem dh_init_ok : Gen.dh.init_ {} = .ok dhG := by
  unfold dhG
  rw [init_eq]

theorem dhG_eq : dhG = dhGExplicit := by
  unfold dhG
  rw [init_eq]

/-! ### the group objects -/

/-- the group objects `init` registers, as the model's groups -/
def absGroup1024 (v : Gen.dh.Dh1024BitModp) : DhGroup := ⟨v.factor, v.generator, v.factorBytesLength.toNat⟩
def absGroup2048 (v : Gen.dh.DH2048BitModp) : DhGroup := ⟨v.factor, v.generator, v.factorBytesLength.toNat⟩

/-- the registry's view of a descriptor (with its `TransformID()`) -/
def absInfo1024 (v : Gen.dh.Dh1024BitModp) : Registry.DhInfo := ⟨2, v.factor, v.generator, v.factorBytesLength.toNat⟩
def absInfo2048 (v : Gen.dh.DH2048BitModp) : Registry.DhInfo := ⟨14, v.factor, v.generator, v.factorBytesLength.toNat⟩

/-- a `DHType` interface value as the model's `Option DhInfo` (`nil` ↦ `none`) -/
def absDh : Gen.dh.DHType → Option Registry.DhInfo
  | .nil_ => none
  | .Dh1024BitModp v => some (absInfo1024 v)
  | .DH2048BitModp v => some (absInfo2048 v)

theorem absGroup1024_desc : absGroup1024 desc1024 = dhGroup2 := rfl
theorem absGroup2048_desc : absGroup2048 desc2048 = dhGroup14 := rfl
theorem absInfo1024_desc : absInfo1024 desc1024 = Registry.group2 := rfl
theorem absInfo2048_desc : absInfo2048 desc2048 = Registry.group14 := rfl

/-- the two descriptors stored in `dhTypes` are the RFC groups 2 and 14 of the model -/
theorem dh_groups_are_rfc :
    Go.mapEntries dhG.dhTypes = [(name1024, .Dh1024BitModp desc1024), (name2048, .DH2048BitModp desc2048)] ∧
    absGroup1024 desc1024 = dhGroup2 ∧ absGroup2048 desc2048 = dhGroup14 := by
  rw [dhG_eq]
  exact ⟨rfl, rfl, rfl⟩

/-- the registered descriptors, abstracted, are exactly the advertised set of the model -/
theorem dh_types_advertised :
    (Go.mapEntries dhG.dhTypes).map (fun e => absDh e.2) = Registry.advertisedDh.map some := by
  rw [dhG_eq]; rfl

/-! ### `GetPublicValue`, `GetSharedKey` -/

/-- `append(make([]byte, L - len(v)), v...)` as generated is `leftPad`, for `0 ≤ L` -/
theorem make_prepend_eq_leftPad (L : Int) (hl : 0 ≤ L) (v : Bytes) :
    ((Go.make (α := UInt8) (L - (v.length : Int))) >>= fun t1 => Res.ok (t1 ++ v)) = leftPad L.toNat v := by
  unfold Go.make leftPad
  by_cases h : v.length ≤ L.toNat
  · have h' : 0 ≤ L - (v.length : Int) := by omega
    have e : (L - (v.length : Int)).toNat = L.toNat - v.length := by omega
    rw [if_pos h, if_pos h', e]
    rfl
  · have h' : ¬ 0 ≤ L - (v.length : Int) := by omega
    rw [if_neg h, if_neg h']
    rfl

theorem Dh1024_GetPublicValue_refines (v : Gen.dh.Dh1024BitModp) (hp : 0 < v.factor) (hl : 0 ≤ v.factorBytesLength)
    (secret : Nat) :
    Gen.dh.Dh1024BitModp.GetPublicValue v secret = dhPub (absGroup1024 v) secret := by
  unfold Gen.dh.Dh1024BitModp.GetPublicValue dhPub absGroup1024
  simp only [bigExp_eq_modPow _ _ _ hp]
  exact make_prepend_eq_leftPad _ hl _

theorem Dh1024_GetSharedKey_refines (v : Gen.dh.Dh1024BitModp) (hp : 0 < v.factor) (hl : 0 ≤ v.factorBytesLength)
    (secret peer : Nat) :
    Gen.dh.Dh1024BitModp.GetSharedKey v secret peer = dhShared (absGroup1024 v) secret peer := by
  unfold Gen.dh.Dh1024BitModp.GetSharedKey dhShared absGroup1024
  simp only [bigExp_eq_modPow _ _ _ hp]
  exact make_prepend_eq_leftPad _ hl _

theorem DH2048_GetPublicValue_refines (v : Gen.dh.DH2048BitModp) (hp : 0 < v.factor) (hl : 0 ≤ v.factorBytesLength)
    (secret : Nat) :
    Gen.dh.DH2048BitModp.GetPublicValue v secret = dhPub (absGroup2048 v) secret := by
  unfold Gen.dh.DH2048BitModp.GetPublicValue dhPub absGroup2048
  simp only [bigExp_eq_modPow _ _ _ hp]
  exact make_prepend_eq_leftPad _ hl _

theorem DH2048_GetSharedKey_refines (v : Gen.dh.DH2048BitModp) (hp : 0 < v.factor) (hl : 0 ≤ v.factorBytesLength)
    (secret peer : Nat) :
    Gen.dh.DH2048BitModp.GetSharedKey v secret peer = dhShared (absGroup2048 v) secret peer := by
  unfold Gen.dh.DH2048BitModp.GetSharedKey dhShared absGroup2048
  simp only [bigExp_eq_modPow _ _ _ hp]
  exact make_prepend_eq_leftPad _ hl _

/-- the hypothesis `0 ≤ factorBytesLength` is necessary: a (never constructed) descriptor with a negative
length makes the Go code panic in `make`, where the model, whose length is a `Nat`, pads to length 0 -/
theorem Dh1024_negative_length_differs :
    Gen.dh.Dh1024BitModp.GetPublicValue ⟨1, 0, -1⟩ 0 = .fault ∧ dhPub (absGroup1024 ⟨1, 0, -1⟩) 0 = .ok [] := by
  constructor
  · decide
  · simp only [dhPub, absGroup1024, modPow_eq]
    decide

/-- the group of a non-nil `DHType` -/
def absGroup : Gen.dh.DHType → DhGroup
  | .nil_ => default
  | .Dh1024BitModp v => absGroup1024 v
  | .DH2048BitModp v => absGroup2048 v

/-- the invariant the refinements need (it holds for everything `init` registers) -/
def DhWF : Gen.dh.DHType → Prop
  | .nil_ => False
  | .Dh1024BitModp v => 0 < v.factor ∧ 0 ≤ v.factorBytesLength
  | .DH2048BitModp v => 0 < v.factor ∧ 0 ≤ v.factorBytesLength

/-- through the interface (dynamic dispatch) -/
theorem DHType_GetPublicValue_refines (d : Gen.dh.DHType) (h : DhWF d) (secret : Nat) :
    Gen.dh.DHType.GetPublicValue d secret = dhPub (absGroup d) secret := by
  cases d with
  | nil_ => exact h.elim
  | Dh1024BitModp v =>
    simp only [Gen.dh.DHType.GetPublicValue, absGroup, Dh1024_GetPublicValue_refines v h.1 h.2]
    cases dhPub (absGroup1024 v) secret <;> rfl
  | DH2048BitModp v =>
    simp only [Gen.dh.DHType.GetPublicValue, absGroup, DH2048_GetPublicValue_refines v h.1 h.2]
    cases dhPub (absGroup2048 v) secret <;> rfl

theorem DHType_GetSharedKey_refines (d : Gen.dh.DHType) (h : DhWF d) (secret peer : Nat) :
    Gen.dh.DHType.GetSharedKey d secret peer = dhShared (absGroup d) secret peer := by
  cases d with
  | nil_ => exact h.elim
  | Dh1024BitModp v =>
    simp only [Gen.dh.DHType.GetSharedKey, absGroup, Dh1024_GetSharedKey_refines v h.1 h.2]
    cases dhShared (absGroup1024 v) secret peer <;> rfl
  | DH2048BitModp v =>
    simp only [Gen.dh.DHType.GetSharedKey, absGroup, DH2048_GetSharedKey_refines v h.1 h.2]
    cases dhShared (absGroup2048 v) secret peer <;> rfl

/-- a nil interface value: the method call panics -/
theorem DHType_nil_GetPublicValue (secret : Nat) : Gen.dh.DHType.GetPublicValue .nil_ secret = .fault := rfl
theorem DHType_nil_GetSharedKey (secret peer : Nat) : Gen.dh.DHType.GetSharedKey .nil_ secret peer = .fault := rfl

theorem desc1024_wf : DhWF (.Dh1024BitModp desc1024) := by
  refine ⟨?_, ?_⟩ <;> decide +kernel
theorem desc2048_wf : DhWF (.DH2048BitModp desc2048) := by
  refine ⟨?_, ?_⟩ <;> decide +kernel

/-! ### the registry functions -/

theorem dh_StrToType_refines (name : Bytes) :
    Gen.dh.StrToType dhG name =
      .ok (if name = name1024 then .Dh1024BitModp desc1024
           else if name = name2048 then .DH2048BitModp desc2048
           else .nil_) := by
  rw [dhG_eq]
  unfold Gen.dh.StrToType dhGExplicit
  simp only [Go.mapGet, Go.mapGetList]
  by_cases h1 : name = name1024
  · subst h1; simp
  · have h1' : ¬ name1024 = name := fun h => h1 h.symm
    by_cases h2 : name = name2048
    · subst h2; simp [h1, h1']
    · have h2' : ¬ name2048 = name := fun h => h2 h.symm
      simp [h1, h2, h1', h2']

theorem dh_DecodeTransform_refines (t : Transform) :
    (Gen.dh.DecodeTransform dhG t).map absDh = .ok (Registry.decodeDh t) := by
  rw [dhG_eq]
  unfold Gen.dh.DecodeTransform dhGExplicit Registry.decodeDh
  simp only [Go.mapGet, Go.mapGetList]
  by_cases h2 : t.tid = 2
  · simp [h2, Facts.group2Id, Gen.dh.toString_DH_1024_BIT_MODP, name1024, name2048, Res.map, absDh,
      absInfo1024_desc]
  · have h2' : ¬ (2 : UInt16) = t.tid := fun h => h2 h.symm
    by_cases h14 : t.tid = 14
    · simp [h14, Facts.group2Id, Facts.group14Id, Gen.dh.toString_DH_2048_BIT_MODP, name1024, name2048,
        Res.map, absDh, absInfo2048_desc]
    · have h14' : ¬ (14 : UInt16) = t.tid := fun h => h14 h.symm
      simp [h2, h14, h2', h14', Facts.group2Id, Facts.group14Id, Res.map, absDh]

theorem dh_ToTransform_refines_1024 (v : Gen.dh.Dh1024BitModp) :
    Gen.dh.ToTransform (.Dh1024BitModp v) = .ok (Registry.dhToTransform (absInfo1024 v)) := by
  simp [Gen.dh.ToTransform, Gen.dh.DHType.TransformID, Gen.dh.Dh1024BitModp.TransformID,
    Gen.dh.DHType.getAttribute, Gen.dh.Dh1024BitModp.getAttribute, GenExt.Transform_zero,
    Registry.dhToTransform, Registry.mkTransform, Registry.noAttr, absInfo1024, Facts.ttDh]

theorem dh_ToTransform_refines_2048 (v : Gen.dh.DH2048BitModp) :
    Gen.dh.ToTransform (.DH2048BitModp v) = .ok (Registry.dhToTransform (absInfo2048 v)) := by
  simp [Gen.dh.ToTransform, Gen.dh.DHType.TransformID, Gen.dh.DH2048BitModp.TransformID,
    Gen.dh.DHType.getAttribute, Gen.dh.DH2048BitModp.getAttribute, GenExt.Transform_zero,
    Registry.dhToTransform, Registry.mkTransform, Registry.noAttr, absInfo2048, Facts.ttDh]

/-- both descriptor kinds at once; a nil `DHType` makes `ToTransform` panic (method call on nil) -/
theorem dh_ToTransform_refines (d : Gen.dh.DHType) :
    Gen.dh.ToTransform d = match absDh d with
      | some i => .ok (Registry.dhToTransform i)
      | none => .fault := by
  cases d with
  | nil_ => rfl
  | Dh1024BitModp v => exact dh_ToTransform_refines_1024 v
  | DH2048BitModp v => exact dh_ToTransform_refines_2048 v

end Ike.RefineReg
