import IkeProofs.Refine.Basic
import IkeModel.Security.Sa
import IkeModel.Generated.Gen_lib
import IkeModel.Generated.Gen_encr
import IkeProofs.Lemmas.Cbc

/-! `lib.PKCS7Padding`, `EncrAesCbc.NewCrypto`, `EncrAesCbcCrypto.Encrypt` / `Decrypt` as generated ⊑ the
hand-written `pkcs7Pad`, `newCrypto`, `cbcEncrypt`, `cbcDecrypt` of `IkeModel/Security/Sa.lean`.

`PKCS7Padding` and `NewCrypto` refine for every input without any law.  `Encrypt` / `Decrypt` need the block
function to keep the block size under the object's key (`Prims.Lawful.enc_len` / `dec_len`): Go's
`CryptBlocks` writes exactly `len(src)` octets into a zeroed buffer, the model concatenates what `cbcEnc` /
`cbcDec` return; `Encrypt_refines_false` / `Decrypt_refines_false` exhibit the difference for a `Prims` whose
block functions return nothing.  `Encrypt_eq` is the law-free closed form of the generated `Encrypt`. -/

set_option linter.unusedSimpArgs false
set_option linter.unusedVariables false

namespace Ike.RefineReg
open Ike Ike.Refine

theorem toU8_tmod256 (x : UInt8) :
    Go.toU8 (Int.tmod (x.toNat : Int) (((255 : Nat) : Int) + (1 : Int))) = x := by
  have h : x.toNat < 256 := UInt8.toNat_lt x
  have e : Int.tmod (x.toNat : Int) (((255 : Nat) : Int) + (1 : Int)) = (x.toNat : Int) := by
    rw [Int.tmod_eq_emod_of_nonneg (by omega)]; omega
  rw [e]
  unfold Go.toU8
  have : ((x.toNat : Int) % 256).toNat = x.toNat := by omega
  rw [this]
  exact UInt8.ofNat_toNat

private theorem toU8_small (n : Nat) (h : n < 256) : Go.toU8 (n : Int) = UInt8.ofNat n := by
  unfold Go.toU8
  have : ((n : Int) % 256).toNat = n := by omega
  rw [this]


private theorem set_byteAt_self (bs : Bytes) (i : Nat) (h : i < bs.length) : bs.set i (byteAt bs i) = bs := by
  apply List.ext_getElem (by simp)
  intro j h1 h2
  simp only [List.getElem_set, byteAt, List.getD_eq_getElem?_getD, List.getElem?_eq_getElem h,
    Option.getD_some]
  split
  · next e => subst e; rfl
  · rfl

/-- the rewriting loop of `PKCS7Padding` is the identity on the drawn octets -/
theorem pad_loop (n : Nat) (r : Rand) (bs : Bytes) (hn : bs.length = n) :
    ∀ (fuel i : Nat), i + 1 ≤ n → n - 1 - i + 1 ≤ fuel →
      Gen.lib.PKCS7Padding.loop1 fuel (n : Int) 255 r bs i = .ok (r, bs, n - 1) := by
  intro fuel
  induction fuel with
  | zero => intro i _ h; omega
  | succ f ih =>
    intro i hi hf
    unfold Gen.lib.PKCS7Padding.loop1
    by_cases hc : (i : Int) < (n : Int) - 1
    · rw [if_pos hc, goIndex_ok (by omega)]
      simp only [Res.bind_ok, Go.imod]
      rw [if_neg (by omega)]
      simp only [Res.bind_ok, toU8_tmod256, Go.setN]
      rw [if_pos (by omega), set_byteAt_self _ _ (by omega)]
      simp only [Res.bind_ok]
      exact ih (i + 1) (by omega) (by omega)
    · rw [if_neg hc]
      have : i = n - 1 := by omega
      rw [this]

private theorem set_last (bs : Bytes) (n : Nat) (hn : bs.length = n) (h1 : 1 ≤ n) (v : UInt8) :
    bs.set (n - 1) v = bs.take (n - 1) ++ [v] := by
  rw [List.set_eq_take_append_cons_drop, if_pos (by omega)]
  have : n - 1 + 1 = n := by omega
  rw [this, List.drop_of_length_le (by omega)]

theorem PKCS7Padding_refines (r : Rand) (plain : Bytes) :
    (Gen.lib.PKCS7Padding r plain 16) = (match pkcs7Pad r plain with | (r', .ok b) => .ok (r', b) | (_, .err) => .err | (_, .fault) => .fault) := by
  unfold Gen.lib.PKCS7Padding pkcs7Pad
  simp only [Go.imod]
  rw [if_neg (by omega)]
  simp only [Res.bind_ok]
  have hp : (16 : Int) - Int.tmod (plain.length : Int) 16 = ((16 - plain.length % 16 : Nat) : Int) := by
    rw [Int.tmod_eq_emod_of_nonneg (by omega)]; omega
  rw [hp]
  generalize hn : 16 - plain.length % 16 = n
  have hn1 : 1 ≤ n := by omega
  have hn16 : n ≤ 16 := by omega
  rw [if_neg (by omega)]
  simp only [Go.make]
  rw [if_pos (by omega)]
  simp only [Res.bind_ok, Go.randFill, List.length_replicate, Int.toNat_natCast, Rand.draw]
  by_cases hf : r.failAt = some r.reads
  · simp only [if_pos hf]
    simp
  · simp only [if_neg hf]
    have hl : (cyc r.buf r.pos n).length = n := cyc_length _ _ _
    generalize cyc r.buf r.pos n = bs at hl
    simp only [ne_eq, not_true_eq_false, decide_false, Bool.false_eq_true, if_false]
    rw [pad_loop n _ bs hl _ 0 (by omega) (by omega)]
    simp only [Res.bind_ok, Go.set]
    rw [if_pos (by omega)]
    have e : ((bs.length : Int) - 1).toNat = n - 1 := by omega
    have e2 : (n : Int) - 1 = ((n - 1 : Nat) : Int) := by omega
    rw [e, e2, toU8_small _ (by omega), set_last bs n hl hn1]
    simp only [Res.bind_ok, List.append_assoc]

/-! ### `NewCrypto` -/

theorem NewCrypto_refines (d : Gen.encr.EncrAesCbc) (hk : d.keyLength = 16 ∨ d.keyLength = 24 ∨ d.keyLength = 32) (key : Bytes) :
    (Gen.encr.EncrAesCbc.NewCrypto d key).map (fun c => (⟨c.Block⟩ : CipherObj)) = newCrypto d.keyLength.toNat key := by
  unfold Gen.encr.EncrAesCbc.NewCrypto newCrypto
  by_cases h : (key.length : Int) = d.keyLength
  · have h' : key.length = d.keyLength.toNat := by omega
    have hl : key.length = 16 ∨ key.length = 24 ∨ key.length = 32 := by omega
    have hA : Go.aesNewCipher key = (key, .none) := by unfold Go.aesNewCipher; rw [if_pos hl]
    rw [if_neg (show ¬ ((key.length : Int) ≠ d.keyLength) by simpa using h),
      if_neg (show ¬ (key.length ≠ d.keyLength.toNat) by simpa using h'), hA]
    simp
  · have h' : ¬ key.length = d.keyLength.toNat := by omega
    rw [if_pos (show (key.length : Int) ≠ d.keyLength from h),
      if_pos (show key.length ≠ d.keyLength.toNat from h')]
    rfl

/-- the object `NewCrypto` returns has the test-only fields nil (for every descriptor and key) -/
theorem NewCrypto_fields (d : Gen.encr.EncrAesCbc) (key : Bytes) (c : Gen.encr.EncrAesCbcCrypto)
    (h : Gen.encr.EncrAesCbc.NewCrypto d key = .ok c) : c.Iv = [] ∧ c.Padding = [] := by
  unfold Gen.encr.EncrAesCbc.NewCrypto at h
  simp only [] at h
  split at h
  · cases h
  · split at h
    · cases h
    · cases h; exact ⟨rfl, rfl⟩

/-- for the three AES descriptors: the result in closed form -/
theorem NewCrypto_eq (d : Gen.encr.EncrAesCbc) (hk : d.keyLength = 16 ∨ d.keyLength = 24 ∨ d.keyLength = 32) (key : Bytes) :
    Gen.encr.EncrAesCbc.NewCrypto d key =
      if key.length ≠ d.keyLength.toNat then .err else .ok { Block := key, Iv := [], Padding := [] } := by
  unfold Gen.encr.EncrAesCbc.NewCrypto
  by_cases h : (key.length : Int) = d.keyLength
  · have h' : key.length = d.keyLength.toNat := by omega
    have hl : key.length = 16 ∨ key.length = 24 ∨ key.length = 32 := by omega
    have hA : Go.aesNewCipher key = (key, .none) := by unfold Go.aesNewCipher; rw [if_pos hl]
    rw [if_neg (show ¬ ((key.length : Int) ≠ d.keyLength) by simpa using h),
      if_neg (show ¬ (key.length ≠ d.keyLength.toNat) by simpa using h'), hA]
    simp
  · have h' : ¬ key.length = d.keyLength.toNat := by omega
    rw [if_pos (show (key.length : Int) ≠ d.keyLength from h),
      if_pos (show key.length ≠ d.keyLength.toNat from h')]

/-! ### `Encrypt` -/

private theorem splice_zero_front (n : Nat) (iv : Bytes) (hiv : iv.length = 16) :
    Go.splice (zeros (16 + n)) 0 iv = iv ++ zeros n := by
  unfold Go.splice zeros
  simp only [List.take_zero, List.nil_append, Nat.zero_add, hiv, List.drop_replicate]
  congr 2
  omega

private theorem splice_tail (iv z ce : Bytes) (hiv : iv.length = 16) (hce : z.length ≤ ce.length) :
    Go.splice (iv ++ z) 16 ce = iv ++ ce := by
  unfold Go.splice
  rw [take_prefix_eq _ _ _ hiv.symm, List.drop_of_length_le (by simp only [List.length_append]; omega)]
  simp

theorem draw_ok_length (r r' : Rand) (n : Nat) (bs : Bytes) (h : r.draw n = (r', .ok bs)) : bs.length = n := by
  unfold Rand.draw at h
  by_cases hf : r.failAt = some r.reads
  · simp only [if_pos hf] at h
    cases h
  · simp only [if_neg hf, Prod.mk.injEq, Res.ok.injEq] at h
    rw [← h.2, cyc_length]

theorem draw_not_fault (r r' : Rand) (n : Nat) : r.draw n ≠ (r', .fault) := by
  unfold Rand.draw
  split <;> simp

theorem pkcs7Pad_ok_length (r r' : Rand) (plain b : Bytes) (h : pkcs7Pad r plain = (r', .ok b)) :
    b.length % 16 = 0 := by
  unfold pkcs7Pad Rand.draw at h
  by_cases hf : r.failAt = some r.reads
  · simp only [if_pos hf] at h
    cases h
  · simp only [if_neg hf, Prod.mk.injEq, Res.ok.injEq] at h
    rw [← h.2]
    simp only [List.length_append, List.length_take, cyc_length, List.length_cons, List.length_nil]
    omega

/-- `Encrypt` in closed form, for EVERY `P` (no law): the padded plaintext, the IV drawn into the front of the
zeroed buffer, and the CBC output spliced in behind it. -/
theorem Encrypt_eq (P : Prims) (r : Rand) (c : Gen.encr.EncrAesCbcCrypto) (hi : c.Iv = []) (hp : c.Padding = [])
    (plain : Bytes) :
    Gen.encr.EncrAesCbcCrypto.Encrypt P r c plain =
      (match pkcs7Pad r plain with
       | (r1, .ok padded) =>
         (match r1.draw 16 with
          | (r2, .ok iv) =>
            .ok (r2, Go.splice (iv ++ zeros padded.length) 16 (cbcEnc (P.enc c.Block) iv padded))
          | (_, .err) => .err
          | (_, .fault) => .fault)
       | (_, .err) => .err
       | (_, .fault) => .fault) := by
  unfold Gen.encr.EncrAesCbcCrypto.Encrypt
  simp only [hi, hp, if_true]
  rw [PKCS7Padding_refines]
  have hlen := fun r' b => pkcs7Pad_ok_length r r' plain b
  generalize hpk : pkcs7Pad r plain = res at hlen
  obtain ⟨r1, rb⟩ := res
  cases rb with
  | err => simp
  | fault => simp
  | ok padded =>
    have hpl := hlen r1 padded rfl
    simp only [Res.bind_ok]
    rw [goSlice_ok (by omega) (by simp)]
    simp only [Res.bind_ok, Go.randFill, List.length_drop, List.length_take, zeros_length]
    have h16 : min 16 (16 + padded.length) - 0 = 16 := by omega
    rw [h16]
    have hdl := fun r' bs => draw_ok_length r1 r' 16 bs
    have hdf := fun r' => draw_not_fault r1 r' 16
    generalize r1.draw 16 = res2 at hdl hdf
    obtain ⟨r2, rb2⟩ := res2
    cases rb2 with
    | err => simp
    | fault => exact absurd rfl (hdf r2)
    | ok iv =>
      have hl := hdl r2 iv rfl
      simp only [ne_eq, not_true_eq_false, decide_false, Bool.false_eq_true, if_false]
      rw [splice_zero_front _ _ hl]
      simp only [Go.newCbc, hl, if_true, Res.bind_ok, Go.cryptBlocks]
      rw [if_neg (by simp only [List.length_append, zeros_length]; omega)]
      simp only [if_true, Res.bind_ok]

/-- `Encrypt` ⊑ `cbcEncrypt`, given that the block function keeps the block size under the object's key
(law `enc_len` of `Prims.Lawful`): `CryptBlocks` writes `len(src)` octets into the zeroed buffer, the model
appends what `cbcEnc` returns. -/
theorem Encrypt_refines_partial (P : Prims) (r : Rand) (c : Gen.encr.EncrAesCbcCrypto) (hi : c.Iv = []) (hp : c.Padding = [])
    (henc : ∀ b, b.length = 16 → (P.enc c.Block b).length = 16) (plain : Bytes) :
    Gen.encr.EncrAesCbcCrypto.Encrypt P r c plain =
      (match cbcEncrypt P ⟨c.Block⟩ r plain with | (r', .ok b) => .ok (r', b) | (_, .err) => .err | (_, .fault) => .fault) := by
  rw [Encrypt_eq P r c hi hp]
  unfold cbcEncrypt
  have hlen := fun r' b => pkcs7Pad_ok_length r r' plain b
  generalize pkcs7Pad r plain = res at hlen
  obtain ⟨r1, rb⟩ := res
  cases rb with
  | err => rfl
  | fault => rfl
  | ok padded =>
    have hpl := hlen r1 padded rfl
    simp only []
    have hdl := fun r' bs => draw_ok_length r1 r' 16 bs
    generalize r1.draw 16 = res2 at hdl
    obtain ⟨r2, rb2⟩ := res2
    cases rb2 with
    | err => rfl
    | fault => rfl
    | ok iv =>
      have hl := hdl r2 iv rfl
      have hce := cbcEnc_length (P.enc c.Block) henc iv padded hl hpl
      simp only []
      rw [splice_tail _ _ _ hl (by simp only [zeros_length]; omega)]

/-- the same under the lawfulness of the primitives (only `enc_len` is used) -/
theorem Encrypt_refines (P : Prims) (hP : P.Lawful) (r : Rand) (c : Gen.encr.EncrAesCbcCrypto) (hi : c.Iv = []) (hp : c.Padding = []) (plain : Bytes) :
    Gen.encr.EncrAesCbcCrypto.Encrypt P r c plain =
      (match cbcEncrypt P ⟨c.Block⟩ r plain with | (r', .ok b) => .ok (r', b) | (_, .err) => .err | (_, .fault) => .fault) :=
  Encrypt_refines_partial P r c hi hp (hP.enc_len c.Block) plain

/-! ### `Decrypt` -/

private theorem splice_all (z pt : Bytes) (h : z.length ≤ pt.length) : Go.splice z 0 pt = pt := by
  unfold Go.splice
  rw [List.drop_of_length_le (by omega)]
  simp

/-- `Decrypt` ⊑ `cbcDecrypt`, given that the block function keeps the block size under the object's key
(law `dec_len` of `Prims.Lawful`) -/
theorem Decrypt_refines_partial (P : Prims) (c : Gen.encr.EncrAesCbcCrypto) (hi : c.Iv = [])
    (hdec : ∀ b, b.length = 16 → (P.dec c.Block b).length = 16) (ct : Bytes) :
    Gen.encr.EncrAesCbcCrypto.Decrypt P c ct = cbcDecrypt P ⟨c.Block⟩ ct := by
  unfold Gen.encr.EncrAesCbcCrypto.Decrypt cbcDecrypt
  by_cases h16 : ct.length < 16
  · rw [if_pos h16, if_pos h16]
  · rw [if_neg h16, if_neg h16]
    simp only [hi, if_true]
    rw [goSlice_ok (by omega) (by omega), goTo_ok (by omega), goFrom_ok (by omega)]
    simp only [Res.bind_ok, List.drop_zero]
    by_cases hem : (List.drop 16 ct).length = 0 ∨ (List.drop 16 ct).length % 16 ≠ 0
    · rw [if_pos hem, if_pos (by simpa using hem)]
    · rw [if_neg hem, if_neg (by simpa using hem)]
      have hivl : (List.take 16 ct).length = 16 := by simp only [List.length_take]; omega
      have hal : (List.drop 16 ct).length % 16 = 0 := by omega
      have hne : (List.drop 16 ct).length ≠ 0 := by omega
      have hl := cbcDec_length (P.dec c.Block) hdec (List.take 16 ct) (List.drop 16 ct) hivl hal
      simp only [Go.newCbc, hivl, if_true, Res.bind_ok, Go.cryptBlocks, zeros_length, Nat.sub_zero]
      rw [if_neg (by omega)]
      simp only [Bool.false_eq_true, if_false, Res.bind_ok]
      rw [splice_all _ _ (by simp only [zeros_length]; omega)]
      generalize cbcDec (P.dec c.Block) (List.take 16 ct) (List.drop 16 ct) = pt at hl
      generalize (List.drop 16 ct).length = n at *
      simp only [Go.index]
      rw [if_pos (by omega), goIndex_ok (by omega)]
      have e : ((pt.length : Int) - 1).toNat = pt.length - 1 := by omega
      rw [e]
      have e2 : pt.getD (pt.length - 1) default = byteAt pt (pt.length - 1) := rfl
      rw [e2]
      simp only [Res.bind_ok]
      by_cases hp : (byteAt pt (pt.length - 1)).toNat + 1 > pt.length
      · rw [if_pos hp, if_pos hp]
      · rw [if_neg hp, if_neg hp]
        simp only [Go.sliceTo]
        rw [if_pos (by omega), goTo_ok (by omega)]
        have e3 : ((pt.length : Int) - (((byteAt pt (pt.length - 1)).toNat + 1 : Nat) : Int)).toNat
            = pt.length - ((byteAt pt (pt.length - 1)).toNat + 1) := by omega
        rw [e3]
        rfl

/-- the same under the lawfulness of the primitives (only `dec_len` is used) -/
theorem Decrypt_refines (P : Prims) (hP : P.Lawful) (c : Gen.encr.EncrAesCbcCrypto) (hi : c.Iv = []) (ct : Bytes) :
    Gen.encr.EncrAesCbcCrypto.Decrypt P c ct = cbcDecrypt P ⟨c.Block⟩ ct :=
  Decrypt_refines_partial P c hi (hP.dec_len c.Block) ct

/-! ### why `enc_len` / `dec_len` are needed: the statements without them are false

For a `Prims` whose block functions do not return 16 octets the generated code and the model differ:
Go's `CryptBlocks(dst, src)` always writes `len(src)` octets into the zeroed buffer, whereas the model
concatenates whatever `cbcEnc` / `cbcDec` return.  (No Go input: the real AES always returns 16 octets;
the difference is only visible for an unlawful `P`.) -/

/-- block functions that return nothing -/
def degeneratePrims : Prims := ⟨fun _ _ _ => [], fun _ => 0, fun _ _ => [], fun _ _ => []⟩

theorem cbcEnc_nil (E : Bytes → Bytes) (hE : ∀ b, E b = []) (prev pt : Bytes) : cbcEnc E prev pt = [] := by
  fun_induction cbcEnc E prev pt with
  | case1 prev pt h => rfl
  | case2 prev pt h c ih => rw [ih]; simp only [c, hE, List.append_nil]

theorem cbcDec_nil (D : Bytes → Bytes) (hD : ∀ b, D b = []) (prev ct : Bytes) : cbcDec D prev ct = [] := by
  fun_induction cbcDec D prev ct with
  | case1 prev ct h => rfl
  | case2 prev ct h c ih => simp only [hD, ih, xorBytes, List.append_nil]

/-- `Encrypt` of the empty plaintext under `degeneratePrims` with the all-zero source: the generated code returns
32 octets (IV ‖ the untouched zeroed block), the model 16 (the IV only). -/
theorem Encrypt_refines_false :
    Gen.encr.EncrAesCbcCrypto.Encrypt degeneratePrims { buf := [] } { Block := zeros 16 } []
        = .ok ({ buf := [], pos := 32, reads := 2 }, zeros 32) ∧
    cbcEncrypt degeneratePrims ⟨zeros 16⟩ { buf := [] } []
        = ({ buf := [], pos := 32, reads := 2 }, .ok (zeros 16)) := by
  constructor
  · rw [Encrypt_eq _ _ _ rfl rfl]
    simp only [pkcs7Pad, Rand.draw, degeneratePrims, cbcEnc_nil _ (fun _ => rfl)]
    rfl
  · simp only [cbcEncrypt, pkcs7Pad, Rand.draw, degeneratePrims, cbcEnc_nil _ (fun _ => rfl)]
    rfl

/-- `Decrypt` of 32 zero octets under `degeneratePrims`: the generated code reads the pad length off the zeroed
buffer and returns 15 octets, the model indexes the empty CBC output and faults. -/
theorem Decrypt_refines_false :
    Gen.encr.EncrAesCbcCrypto.Decrypt degeneratePrims { Block := zeros 16 } (zeros 32) = .ok (zeros 15) ∧
    cbcDecrypt degeneratePrims ⟨zeros 16⟩ (zeros 32) = .fault := by
  constructor
  · simp only [Gen.encr.EncrAesCbcCrypto.Decrypt, degeneratePrims, Go.cryptBlocks, Go.newCbc,
      cbcDec_nil _ (fun _ => rfl)]
    decide
  · simp only [cbcDecrypt, degeneratePrims, cbcDec_nil _ (fun _ => rfl)]
    decide

end Ike.RefineReg
