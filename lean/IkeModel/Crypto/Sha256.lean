import IkeModel.GoSem

/-! SHA-256 (FIPS 180-4), executable and total. -/

namespace Ike.Crypto

namespace Sha256

def K : Array UInt32 := #[
  0x428a2f98, 0x71374491, 0xb5c0fbcf, 0xe9b5dba5, 0x3956c25b, 0x59f111f1, 0x923f82a4, 0xab1c5ed5,
  0xd807aa98, 0x12835b01, 0x243185be, 0x550c7dc3, 0x72be5d74, 0x80deb1fe, 0x9bdc06a7, 0xc19bf174,
  0xe49b69c1, 0xefbe4786, 0x0fc19dc6, 0x240ca1cc, 0x2de92c6f, 0x4a7484aa, 0x5cb0a9dc, 0x76f988da,
  0x983e5152, 0xa831c66d, 0xb00327c8, 0xbf597fc7, 0xc6e00bf3, 0xd5a79147, 0x06ca6351, 0x14292967,
  0x27b70a85, 0x2e1b2138, 0x4d2c6dfc, 0x53380d13, 0x650a7354, 0x766a0abb, 0x81c2c92e, 0x92722c85,
  0xa2bfe8a1, 0xa81a664b, 0xc24b8b70, 0xc76c51a3, 0xd192e819, 0xd6990624, 0xf40e3585, 0x106aa070,
  0x19a4c116, 0x1e376c08, 0x2748774c, 0x34b0bcb5, 0x391c0cb3, 0x4ed8aa4a, 0x5b9cca4f, 0x682e6ff3,
  0x748f82ee, 0x78a5636f, 0x84c87814, 0x8cc70208, 0x90befffa, 0xa4506ceb, 0xbef9a3f7, 0xc67178f2]

structure St where
  (a b c d e f g h : UInt32)

def init : St :=
  ⟨0x6a09e667, 0xbb67ae85, 0x3c6ef372, 0xa54ff53a, 0x510e527f, 0x9b05688c, 0x1f83d9ab, 0x5be0cd19⟩

@[inline] def rotr (x n : UInt32) : UInt32 := (x >>> n) ||| (x <<< (32 - n))

/-- Merkle–Damgård padding: `0x80`, zeros up to 56 mod 64, then the 64-bit big-endian bit length. -/
def pad (m : Bytes) : Bytes :=
  let n := m.length
  m ++ 0x80 :: (List.replicate ((119 - n % 64) % 64) 0 ++ put64 (UInt64.ofNat (n * 8)))

/-- big-endian words of a byte string (trailing `< 4` octets dropped; never happens after `pad`). -/
def words : Bytes → Array UInt32 → Array UInt32
  | a :: b :: c :: d :: rest, acc =>
    words rest (acc.push (a.toUInt32 <<< 24 ||| b.toUInt32 <<< 16 ||| c.toUInt32 <<< 8 ||| d.toUInt32))
  | _, acc => acc

/-- the 64-entry message schedule of the block starting at word `off`. -/
def schedule (ws : Array UInt32) (off : Nat) : Array UInt32 :=
  let w := Nat.fold 16 (fun i _ w => w.push (ws.getD (off + i) 0)) (Array.mkEmpty 64)
  Nat.fold 48 (fun j _ (w : Array UInt32) =>
    let x := w.getD (j + 1) 0
    let y := w.getD (j + 14) 0
    let s0 := rotr x 7 ^^^ rotr x 18 ^^^ (x >>> 3)
    let s1 := rotr y 17 ^^^ rotr y 19 ^^^ (y >>> 10)
    w.push (w.getD j 0 + s0 + w.getD (j + 9) 0 + s1)) w

@[inline] def round (w : Array UInt32) (i : Nat) (s : St) : St :=
  let s1 := rotr s.e 6 ^^^ rotr s.e 11 ^^^ rotr s.e 25
  let ch := (s.e &&& s.f) ^^^ (~~~s.e &&& s.g)
  let t1 := s.h + s1 + ch + K.getD i 0 + w.getD i 0
  let s0 := rotr s.a 2 ^^^ rotr s.a 13 ^^^ rotr s.a 22
  let mj := (s.a &&& s.b) ^^^ (s.a &&& s.c) ^^^ (s.b &&& s.c)
  ⟨t1 + s0 + mj, s.a, s.b, s.c, s.d + t1, s.e, s.f, s.g⟩

def block (ws : Array UInt32) (blk : Nat) (h : St) : St :=
  let w := schedule ws (16 * blk)
  let s := Nat.fold 64 (fun i _ s => round w i s) h
  ⟨h.a + s.a, h.b + s.b, h.c + s.c, h.d + s.d, h.e + s.e, h.f + s.f, h.g + s.g, h.h + s.h⟩

@[inline] def be (x : UInt32) : Bytes :=
  [(x >>> 24).toUInt8, (x >>> 16).toUInt8, (x >>> 8).toUInt8, x.toUInt8]

end Sha256

open Sha256 in
/-- SHA-256 digest (32 octets). -/
def sha256 (m : Bytes) : Bytes :=
  let ws := words (pad m) (Array.mkEmpty (m.length / 4 + 32))
  let s := Nat.fold (ws.size / 16) (fun i _ s => block ws i s) init
  be s.a ++ be s.b ++ be s.c ++ be s.d ++ be s.e ++ be s.f ++ be s.g ++ be s.h

end Ike.Crypto
