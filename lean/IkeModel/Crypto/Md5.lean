import IkeModel.GoSem

/-! MD5 (RFC 1321), executable and total. -/

namespace Ike.Crypto

namespace Md5

/-- `T[i] = floor(2^32 * |sin (i+1)|)`. -/
def T : Array UInt32 := #[
  0xd76aa478, 0xe8c7b756, 0x242070db, 0xc1bdceee, 0xf57c0faf, 0x4787c62a, 0xa8304613, 0xfd469501,
  0x698098d8, 0x8b44f7af, 0xffff5bb1, 0x895cd7be, 0x6b901122, 0xfd987193, 0xa679438e, 0x49b40821,
  0xf61e2562, 0xc040b340, 0x265e5a51, 0xe9b6c7aa, 0xd62f105d, 0x02441453, 0xd8a1e681, 0xe7d3fbc8,
  0x21e1cde6, 0xc33707d6, 0xf4d50d87, 0x455a14ed, 0xa9e3e905, 0xfcefa3f8, 0x676f02d9, 0x8d2a4c8a,
  0xfffa3942, 0x8771f681, 0x6d9d6122, 0xfde5380c, 0xa4beea44, 0x4bdecfa9, 0xf6bb4b60, 0xbebfbc70,
  0x289b7ec6, 0xeaa127fa, 0xd4ef3085, 0x04881d05, 0xd9d4d039, 0xe6db99e5, 0x1fa27cf8, 0xc4ac5665,
  0xf4292244, 0x432aff97, 0xab9423a7, 0xfc93a039, 0x655b59c3, 0x8f0ccc92, 0xffeff47d, 0x85845dd1,
  0x6fa87e4f, 0xfe2ce6e0, 0xa3014314, 0x4e0811a1, 0xf7537e82, 0xbd3af235, 0x2ad7d2bb, 0xeb86d391]

/-- per-round left-rotation amounts. -/
def S : Array UInt32 := #[
  7, 12, 17, 22, 7, 12, 17, 22, 7, 12, 17, 22, 7, 12, 17, 22,
  5, 9, 14, 20, 5, 9, 14, 20, 5, 9, 14, 20, 5, 9, 14, 20,
  4, 11, 16, 23, 4, 11, 16, 23, 4, 11, 16, 23, 4, 11, 16, 23,
  6, 10, 15, 21, 6, 10, 15, 21, 6, 10, 15, 21, 6, 10, 15, 21]

structure St where
  (a b c d : UInt32)

def init : St := ⟨0x67452301, 0xefcdab89, 0x98badcfe, 0x10325476⟩

@[inline] def rotl (x n : UInt32) : UInt32 := (x <<< n) ||| (x >>> (32 - n))

@[inline] def le (x : UInt32) : Bytes :=
  [x.toUInt8, (x >>> 8).toUInt8, (x >>> 16).toUInt8, (x >>> 24).toUInt8]

/-- as for SHA, but the 64-bit bit length is little-endian. -/
def pad (m : Bytes) : Bytes :=
  let n := m.length
  let bits := UInt64.ofNat (n * 8)
  let len : Bytes := le bits.toUInt32 ++ le (bits >>> 32).toUInt32
  m ++ 0x80 :: (List.replicate ((119 - n % 64) % 64) 0 ++ len)

def words : Bytes → Array UInt32 → Array UInt32
  | a :: b :: c :: d :: rest, acc =>
    words rest (acc.push (a.toUInt32 ||| b.toUInt32 <<< 8 ||| c.toUInt32 <<< 16 ||| d.toUInt32 <<< 24))
  | _, acc => acc

@[inline] def round (ws : Array UInt32) (off i : Nat) (s : St) : St :=
  let (f, g) : UInt32 × Nat :=
    if i < 16 then ((s.b &&& s.c) ||| (~~~s.b &&& s.d), i)
    else if i < 32 then ((s.d &&& s.b) ||| (~~~s.d &&& s.c), (5 * i + 1) % 16)
    else if i < 48 then (s.b ^^^ s.c ^^^ s.d, (3 * i + 5) % 16)
    else (s.c ^^^ (s.b ||| ~~~s.d), (7 * i) % 16)
  ⟨s.d, s.b + rotl (f + s.a + T.getD i 0 + ws.getD (off + g) 0) (S.getD i 0), s.b, s.c⟩

def block (ws : Array UInt32) (blk : Nat) (h : St) : St :=
  let s := Nat.fold 64 (fun i _ s => round ws (16 * blk) i s) h
  ⟨h.a + s.a, h.b + s.b, h.c + s.c, h.d + s.d⟩

end Md5

open Md5 in
/-- MD5 digest (16 octets). -/
def md5 (m : Bytes) : Bytes :=
  let ws := words (pad m) (Array.mkEmpty (m.length / 4 + 32))
  let s := Nat.fold (ws.size / 16) (fun i _ s => block ws i s) init
  le s.a ++ le s.b ++ le s.c ++ le s.d

end Ike.Crypto
