import IkeModel.Crypto.Sha256
import IkeModel.Crypto.Sha1
import IkeModel.Crypto.Md5
import IkeModel.Crypto.Aes

/-! Cryptographic primitives as a parameter record.  Theorems are stated for
an arbitrary `Prims` satisfying a few laws (`Prims.Lawful`); `Prims.real` is the
executable instance the driver runs, validated against Go's standard library
by the correspondence suites (`prim` operations). -/

namespace Ike

/-- HMAC as specified in RFC 2104 over a hash `H` with block length `blockLen`. -/
def hmacWith (H : Bytes → Bytes) (blockLen : Nat) (key msg : Bytes) : Bytes :=
  let k0 := if key.length > blockLen then H key else key
  let k := k0 ++ zeros (blockLen - k0.length)
  H (k.map (· ^^^ 0x5c) ++ H (k.map (· ^^^ 0x36) ++ msg))

structure Prims where
  /-- `mac h key msg` : HMAC with hash number `h` (0 md5, 1 sha1, 2 sha256) -/
  mac    : Nat → Bytes → Bytes → Bytes
  /-- digest length of hash `h` -/
  macLen : Nat → Nat
  /-- AES block encryption / decryption under `key` -/
  enc    : Bytes → Bytes → Bytes
  dec    : Bytes → Bytes → Bytes

/-- the laws theorems may assume about the primitives -/
structure Prims.Lawful (P : Prims) : Prop where
  mac_len : ∀ h k m, (P.mac h k m).length = P.macLen h
  enc_len : ∀ k b, b.length = 16 → (P.enc k b).length = 16
  dec_len : ∀ k b, b.length = 16 → (P.dec k b).length = 16
  dec_enc : ∀ k b, b.length = 16 → P.dec k (P.enc k b) = b

def hashDigest (h : Nat) : Bytes → Bytes :=
  match h with
  | 0 => Crypto.md5
  | 1 => Crypto.sha1
  | _ => Crypto.sha256

def hashLen (h : Nat) : Nat :=
  match h with
  | 0 => 16
  | 1 => 20
  | _ => 32

def Prims.real : Prims where
  mac h k m := hmacWith (hashDigest h) 64 k m
  macLen := hashLen
  enc := Crypto.aesEncryptBlock
  dec := Crypto.aesDecryptBlock

end Ike
