import IkeModel.GoSem

/-! SHA-1 (FIPS 180-4), executable and total. -/

namespace Ike.Crypto

namespace Sha1

structure St where
  (a b c d e : UInt32)

def init : St := ⟨0x67452301, 0xefcdab89, 0x98badcfe, 0x10325476, 0xc3d2e1f0⟩

@[inline] def rotl (x n : UInt32) : UInt32 := (x <<< n) ||| (x >>> (32 - n))

def pad (m : Bytes) : Bytes :=
  let n := m.length
  m ++ 0x80 :: (List.replicate ((119 - n % 64) % 64) 0 ++ put64 (UInt64.ofNat (n * 8)))

def words : Bytes → Array UInt32 → Array UInt32
  | a :: b :: c :: d :: rest, acc =>
    words rest (acc.push (a.toUInt32 <<< 24 ||| b.toUInt32 <<< 16 ||| c.toUInt32 <<< 8 ||| d.toUInt32))
  | _, acc => acc

def schedule (ws : Array UInt32) (off : Nat) : Array UInt32 :=
  let w := Nat.fold 16 (fun i _ w => w.push (ws.getD (off + i) 0)) (Array.mkEmpty 80)
  Nat.fold 64 (fun j _ (w : Array UInt32) =>
    w.push (rotl (w.getD (j + 13) 0 ^^^ w.getD (j + 8) 0 ^^^ w.getD (j + 2) 0 ^^^ w.getD j 0) 1)) w

@[inline] def round (w : Array UInt32) (i : Nat) (s : St) : St :=
  let (f, k) : UInt32 × UInt32 :=
    if i < 20 then ((s.b &&& s.c) ||| (~~~s.b &&& s.d), 0x5a827999)
    else if i < 40 then (s.b ^^^ s.c ^^^ s.d, 0x6ed9eba1)
    else if i < 60 then ((s.b &&& s.c) ||| (s.b &&& s.d) ||| (s.c &&& s.d), 0x8f1bbcdc)
    else (s.b ^^^ s.c ^^^ s.d, 0xca62c1d6)
  ⟨rotl s.a 5 + f + s.e + k + w.getD i 0, s.a, rotl s.b 30, s.c, s.d⟩

def block (ws : Array UInt32) (blk : Nat) (h : St) : St :=
  let w := schedule ws (16 * blk)
  let s := Nat.fold 80 (fun i _ s => round w i s) h
  ⟨h.a + s.a, h.b + s.b, h.c + s.c, h.d + s.d, h.e + s.e⟩

@[inline] def be (x : UInt32) : Bytes :=
  [(x >>> 24).toUInt8, (x >>> 16).toUInt8, (x >>> 8).toUInt8, x.toUInt8]

end Sha1

open Sha1 in
/-- SHA-1 digest (20 octets). -/
def sha1 (m : Bytes) : Bytes :=
  let ws := words (pad m) (Array.mkEmpty (m.length / 4 + 32))
  let s := Nat.fold (ws.size / 16) (fun i _ s => block ws i s) init
  be s.a ++ be s.b ++ be s.c ++ be s.d ++ be s.e

end Ike.Crypto
