import IkeModel.Crypto.Prims

/-! CBC mode (NIST SP 800-38A) over an arbitrary 16-octet block function, as
`cipher.NewCBCEncrypter/Decrypter(...).CryptBlocks` computes it on inputs whose
length is a multiple of the block size. -/

namespace Ike

def xorBytes : Bytes → Bytes → Bytes
  | a :: as, b :: bs => (a ^^^ b) :: xorBytes as bs
  | _, _ => []

/-- encrypt: `prev` is the IV / previous ciphertext block -/
def cbcEnc (E : Bytes → Bytes) (prev : Bytes) (pt : Bytes) : Bytes :=
  if _h : pt.length < 16 then [] else
    let c := E (xorBytes (pt.take 16) prev)
    c ++ cbcEnc E c (pt.drop 16)
termination_by pt.length
decreasing_by simp only [List.length_drop]; omega

def cbcDec (D : Bytes → Bytes) (prev : Bytes) (ct : Bytes) : Bytes :=
  if _h : ct.length < 16 then [] else
    let c := ct.take 16
    xorBytes (D c) prev ++ cbcDec D c (ct.drop 16)
termination_by ct.length
decreasing_by simp only [List.length_drop]; omega

end Ike
