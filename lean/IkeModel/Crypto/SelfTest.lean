import IkeModel.Crypto.Sha256
import IkeModel.Crypto.Sha1
import IkeModel.Crypto.Md5
import IkeModel.Crypto.Aes

/-! Known-answer tests for the crypto primitives (`selfTest = true` is checked by evaluation). -/

namespace Ike.Crypto

namespace SelfTest

def hexVal (c : Char) : Nat :=
  if '0' ≤ c && c ≤ '9' then c.toNat - 48 else if 'a' ≤ c && c ≤ 'f' then c.toNat - 87 else 0

def unhex (s : String) : Bytes :=
  let rec go : List Char → Bytes
    | a :: b :: rest => UInt8.ofNat (hexVal a * 16 + hexVal b) :: go rest
    | _ => []
  go s.toList

def str (s : String) : Bytes := s.toUTF8.toList

def msgs : List Bytes :=
  [[], str "abc", str "abcdbcdecdefdefgefghfghighijhijkijkljklmklmnlmnomnopnopq", List.replicate 1000 0x61]

def hashOk (h : Bytes → Bytes) (expect : List String) : Bool :=
  msgs.map h == expect.map unhex

def aesOk (key ct : String) : Bool :=
  let k := unhex key; let p := unhex "00112233445566778899aabbccddeeff"; let c := unhex ct
  aesEncryptBlock k p == c && aesDecryptBlock k c == p

end SelfTest

open SelfTest in
def selfTest : Bool :=
  hashOk sha256 [
    "e3b0c44298fc1c149afbf4c8996fb92427ae41e4649b934ca495991b7852b855",
    "ba7816bf8f01cfea414140de5dae2223b00361a396177a9cb410ff61f20015ad",
    "248d6a61d20638b8e5c026930c3e6039a33ce45964ff2167f6ecedd419db06c1",
    "41edece42d63e8d9bf515a9ba6932e1c20cbc9f5a5d134645adb5db1b9737ea3"] &&
  hashOk sha1 [
    "da39a3ee5e6b4b0d3255bfef95601890afd80709",
    "a9993e364706816aba3e25717850c26c9cd0d89d",
    "84983e441c3bd26ebaae4aa1f95129e5e54670f1",
    "291e9a6c66994949b57ba5e650361e98fc36b1ba"] &&
  hashOk md5 [
    "d41d8cd98f00b204e9800998ecf8427e",
    "900150983cd24fb0d6963f7d28e17f72",
    "8215ef0796a20bcaaae116d3876c664a",
    "cabe45dcc9ae5b66ba86600cca6b8ba8"] &&
  -- FIPS 197 appendix C.1 / C.2 / C.3
  aesOk "000102030405060708090a0b0c0d0e0f" "69c4e0d86a7b0430d8cdb78070b4c55a" &&
  aesOk "000102030405060708090a0b0c0d0e0f1011121314151617" "dda97ca4864cdfe06eaf70a0ec0d7191" &&
  aesOk "000102030405060708090a0b0c0d0e0f101112131415161718191a1b1c1d1e1f"
    "8ea2b7ca516745bfeafc49904b496089"

end Ike.Crypto
