/-! Interleaving semantics for C18.  What the library's structure allows one to
say as *logic*: every operation is a function of (read-only registries, the
caller-owned objects passed in, the random octets it draws); there is no other
state.  Threads therefore own disjoint states; a scheduler picks, step by
step, which thread runs its next operation.  (The Go memory model, the
scheduler and the thread-safety of the standard library are not modelled.) -/

namespace Ike.Conc

/-- one thread: private state, operations still to run (each closed over the
read-only environment and over the random octets it will draw), outputs so far -/
structure Thread (σ ω : Type) where
  state : σ
  todo  : List (σ → σ × ω)
  done  : List ω

/-- run the thread's next operation (no-op when it has finished) -/
def Thread.step {σ ω : Type} (t : Thread σ ω) : Thread σ ω :=
  match t.todo with
  | [] => t
  | op :: rest => let r := op t.state; ⟨r.1, rest, t.done ++ [r.2]⟩

/-- `n` steps of one thread running alone -/
def Thread.steps {σ ω : Type} (t : Thread σ ω) : Nat → Thread σ ω
  | 0 => t
  | n + 1 => (t.step).steps n

/-- the system: thread id ↦ thread -/
abbrev System (σ ω : Type) := Nat → Thread σ ω

/-- the scheduler lets thread `i` run one operation -/
def System.step {σ ω : Type} (sys : System σ ω) (i : Nat) : System σ ω :=
  fun j => if j = i then (sys j).step else sys j

/-- a schedule is any finite sequence of thread ids -/
def System.run {σ ω : Type} (sys : System σ ω) (sched : List Nat) : System σ ω :=
  sched.foldl System.step sys

end Ike.Conc
