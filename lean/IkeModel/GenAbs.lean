import IkeModel.Generated.Gen_message
import IkeModel.Types

/-! Abstraction between the types `tools/go2lean` generates from the Go struct declarations
(`Ike.Gen.message.*`, one structure per Go struct, Go field names) and the value types of the
hand-written model (`IkeModel/Types.lean`).  Hand-written; a renamed / added / removed field of a
Go struct makes this file fail to compile (a broken obligation of every codec property). -/

namespace Ike.GenAbs
open Ike


def absTransform (t : Gen.message.Transform) : Transform :=
  ⟨t.TransformType, t.TransformID, t.AttributePresent, t.AttributeFormat, t.AttributeType, t.AttributeValue,
   t.VariableLengthAttributeValue⟩

def repTransform (t : Transform) : Gen.message.Transform :=
  { TransformType := t.ttype, TransformID := t.tid, AttributePresent := t.present, AttributeFormat := t.fmt,
    AttributeType := t.atype, AttributeValue := t.aval, VariableLengthAttributeValue := t.vval }

def absProposal (p : Gen.message.Proposal) : Proposal :=
  ⟨p.ProposalNumber, p.ProtocolID, p.SPI, p.EncryptionAlgorithm.map absTransform, p.PseudorandomFunction.map absTransform,
   p.IntegrityAlgorithm.map absTransform, p.DiffieHellmanGroup.map absTransform, p.ExtendedSequenceNumbers.map absTransform⟩

def repProposal (p : Proposal) : Gen.message.Proposal :=
  { ProposalNumber := p.num, ProtocolID := p.proto, SPI := p.spi, EncryptionAlgorithm := p.encr.map repTransform,
    PseudorandomFunction := p.prf.map repTransform, IntegrityAlgorithm := p.integ.map repTransform,
    DiffieHellmanGroup := p.dh.map repTransform, ExtendedSequenceNumbers := p.esn.map repTransform }

def absTSel (t : Gen.message.IndividualTrafficSelector) : TSel :=
  ⟨t.TSType, t.IPProtocolID, t.StartPort, t.EndPort, t.StartAddress, t.EndAddress⟩

def repTSel (t : TSel) : Gen.message.IndividualTrafficSelector :=
  { TSType := t.tstype, IPProtocolID := t.proto, StartPort := t.sport, EndPort := t.eport,
    StartAddress := t.saddr, EndAddress := t.eaddr }

def absCPAttr (a : Gen.message.IndividualConfigurationAttribute) : CPAttr := ⟨a.Type_, a.Value⟩
def repCPAttr (a : CPAttr) : Gen.message.IndividualConfigurationAttribute := { Type_ := a.atype, Value := a.value }

/-- the nil interface has no counterpart in the hand-written model -/
def absPayload : Gen.message.IKEPayload → Option Payload
  | .nil_ => none
  | .Authentication v => some (.auth v.AuthenticationMethod v.AuthenticationData)
  | .Certificate v => some (.cert v.CertificateEncoding v.CertificateData)
  | .CertificateRequest v => some (.certreq v.CertificateEncoding v.CertificationAuthority)
  | .Configuration v => some (.cp v.ConfigurationType (v.ConfigurationAttribute.map absCPAttr))
  | .Delete v => some (.delete v.ProtocolID v.SPISize v.NumberOfSPI v.SPIs)
  | .Encrypted v => some (.sk v.NextPayload v.EncryptedData)
  | .IdentificationInitiator v => some (.idi v.IDType v.IDData)
  | .IdentificationResponder v => some (.idr v.IDType v.IDData)
  | .KeyExchange v => some (.ke v.DiffieHellmanGroup v.KeyExchangeData)
  | .Nonce v => some (.nonce v.NonceData)
  | .Notification v => some (.notify v.ProtocolID v.NotifyMessageType v.SPI v.NotificationData)
  | .PayloadEap v => some (.eap v.EAP)
  | .SecurityAssociation v => some (.sa (v.Proposals.map absProposal))
  | .TrafficSelectorInitiator v => some (.tsi (v.TrafficSelectors.map absTSel))
  | .TrafficSelectorResponder v => some (.tsr (v.TrafficSelectors.map absTSel))
  | .VendorID v => some (.vendor v.VendorIDData)

def repPayload : Payload → Gen.message.IKEPayload
  | .sa ps => .SecurityAssociation { Proposals := ps.map repProposal }
  | .ke g d => .KeyExchange { DiffieHellmanGroup := g, KeyExchangeData := d }
  | .idi t d => .IdentificationInitiator { IDType := t, IDData := d }
  | .idr t d => .IdentificationResponder { IDType := t, IDData := d }
  | .cert e d => .Certificate { CertificateEncoding := e, CertificateData := d }
  | .certreq e d => .CertificateRequest { CertificateEncoding := e, CertificationAuthority := d }
  | .auth m d => .Authentication { AuthenticationMethod := m, AuthenticationData := d }
  | .nonce d => .Nonce { NonceData := d }
  | .notify p n s d => .Notification { ProtocolID := p, NotifyMessageType := n, SPI := s, NotificationData := d }
  | .delete p s n l => .Delete { ProtocolID := p, SPISize := s, NumberOfSPI := n, SPIs := l }
  | .vendor d => .VendorID { VendorIDData := d }
  | .tsi l => .TrafficSelectorInitiator { TrafficSelectors := l.map repTSel }
  | .tsr l => .TrafficSelectorResponder { TrafficSelectors := l.map repTSel }
  | .sk n d => .Encrypted { NextPayload := n, EncryptedData := d }
  | .cp t a => .Configuration { ConfigurationType := t, ConfigurationAttribute := a.map repCPAttr }
  | .eap e => .PayloadEap { EAP := e }

def absPayloads (l : List Gen.message.IKEPayload) : Option (List Payload) := l.mapM absPayload

def absHeader (h : Gen.message.IKEHeader) : Header :=
  { ispi := h.InitiatorSPI, rspi := h.ResponderSPI, major := h.MajorVersion, minor := h.MinorVersion,
    exch := h.ExchangeType, flags := h.Flags, mid := h.MessageID, next := h.NextPayload, payloadBytes := h.PayloadBytes }

def repHeader (h : Header) : Gen.message.IKEHeader :=
  { InitiatorSPI := h.ispi, ResponderSPI := h.rspi, MajorVersion := h.major, MinorVersion := h.minor,
    ExchangeType := h.exch, Flags := h.flags, MessageID := h.mid, NextPayload := h.next, PayloadBytes := h.payloadBytes }

end Ike.GenAbs

namespace Ike.GenAbs
open Ike

/-- the `payload = new(S)` selected by the payload type in `IKEPayloadContainer.Decode`
(for SK the walker also stores `b[0]` in `NextPayload`) -/
def newPayload (t nx : UInt8) : Option Gen.message.IKEPayload :=
  if t == Facts.typeSA then some (.SecurityAssociation {})
  else if t == Facts.typeKE then some (.KeyExchange {})
  else if t == Facts.typeIDi then some (.IdentificationInitiator {})
  else if t == Facts.typeIDr then some (.IdentificationResponder {})
  else if t == Facts.typeCERT then some (.Certificate {})
  else if t == Facts.typeCERTreq then some (.CertificateRequest {})
  else if t == Facts.typeAUTH then some (.Authentication {})
  else if t == Facts.typeNiNr then some (.Nonce {})
  else if t == Facts.typeN then some (.Notification {})
  else if t == Facts.typeD then some (.Delete {})
  else if t == Facts.typeV then some (.VendorID {})
  else if t == Facts.typeTSi then some (.TrafficSelectorInitiator {})
  else if t == Facts.typeTSr then some (.TrafficSelectorResponder {})
  else if t == Facts.typeSK then some (.Encrypted { NextPayload := nx })
  else if t == Facts.typeCP then some (.Configuration {})
  else if t == Facts.typeEAP then some (.PayloadEap {})
  else none

def absMsg (m : Gen.message.IKEMessage) : Option Msg :=
  (absPayloads m.Payloads).map (fun ps => ⟨absHeader m.IKEHeader, ps⟩)

def repMsg (m : Msg) : Gen.message.IKEMessage :=
  { IKEHeader := repHeader m.hdr, Payloads := m.payloads.map repPayload }

end Ike.GenAbs
