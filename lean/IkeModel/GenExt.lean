import IkeModel.GoRt
import IkeModel.Eap
import IkeModel.Types
import IkeModel.Security.Sa

/-! Go objects of packages that `tools/go2lean` does not translate (yet), as the generated
code sees them: the hand-written model stands in for them (`tools/go2lean/extern.json`). -/

namespace Ike.GenExt
open Ike

/-- `new(eap.EAP)` -/
def EAP_zero : Eap := ⟨0, 0, .none⟩

/-- `(*eap.EAP).Marshal` -/
def EAP_Marshal (e : Eap) : Res Bytes := marshalEap e

/-- `(*eap.EAP).Unmarshal` (the receiver is replaced by the decoded packet) -/
def EAP_Unmarshal (_e : Eap) (b : Bytes) : Res Eap := unmarshalEap b

end Ike.GenExt

namespace Ike.GenExt
/-- `new(message.Transform)` as the registry packages see it -/
def Transform_zero : Ike.Transform := ⟨0, 0, false, 0, 0, 0, []⟩
end Ike.GenExt

namespace Ike.GenExt
/-- `lib.PKCS7Padding(plain, blockSize)` as package `encr` sees it: the hand-written model's padding for the one
block size `encr` passes (16); `IkeProofs/RefineReg/Cbc.lean` proves the translation of `lib.PKCS7Padding` equal to it -/
def PKCS7Padding (rnd : Rand) (plain : Bytes) (blockSize : Int) : Res (Rand × Bytes) :=
  if blockSize = 16 then
    match pkcs7Pad rnd plain with
    | (r, .ok b) => .ok (r, b)
    | (_, .err) => .err
    | (_, .fault) => .fault
  else .fault
end Ike.GenExt

namespace Ike.GenExt
/-- `new(message.Proposal)` as package `security` sees it -/
def Proposal_zero : Ike.Proposal := ⟨0, 0, [], [], [], [], [], []⟩
end Ike.GenExt

namespace Ike.GenExt
/-- `eap.EapExpanded` as package `message` builds it field by field (`BuildEapExpanded`) -/
structure EapExpandedS where
  VendorID : UInt32 := 0
  VendorType : UInt32 := 0
  VendorData : Bytes := []
deriving Repr, Inhabited, DecidableEq

/-- an `*eap.EapExpanded` stored in the interface-typed field `EAP.EapTypeData` -/
def expandedData (x : EapExpandedS) : Ike.EapData := .expanded x.VendorID x.VendorType x.VendorData
end Ike.GenExt
