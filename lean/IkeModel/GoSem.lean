/-
  GoSem — the small semantic core every model function is written in.

  * `Bytes`  : Go `[]byte` as a value (nil ≡ empty, which is the equality the
               properties prescribe).
  * `Res α`  : outcome of a Go function: `ok a` (returned a value, nil error),
               `err` (returned a non-nil error), `fault` (the Go statement
               would panic: index / slice out of range, negative make, nil
               dereference — or would read past `len` into spare capacity).
  * checked primitives `goIndex / goSlice / goFrom / goTo / goU16 / goU32 / goU64`
    yield `fault` exactly when Go's bounds rule `lo ≤ hi ≤ len` fails.

  Nothing here imports Mathlib: the driver executable links against it.
-/

namespace Ike

abbrev Bytes := List UInt8

inductive Res (α : Type) where
  | ok    : α → Res α
  | err   : Res α
  | fault : Res α
deriving Repr, DecidableEq, BEq, Inhabited

namespace Res

@[inline] def bind {α β : Type} (x : Res α) (f : α → Res β) : Res β :=
  match x with
  | ok a  => f a
  | err   => err
  | fault => fault

@[inline] def map {α β : Type} (f : α → β) (x : Res α) : Res β :=
  match x with
  | ok a  => ok (f a)
  | err   => err
  | fault => fault

instance : Monad Res where
  pure := Res.ok
  bind := Res.bind

@[simp] theorem pure_eq {α : Type} (a : α) : (pure a : Res α) = ok a := rfl
@[simp] theorem bind_ok {α β : Type} (a : α) (f : α → Res β) : (ok a >>= f) = f a := rfl
@[simp] theorem bind_err {α β : Type} (f : α → Res β) : ((err : Res α) >>= f) = err := rfl
@[simp] theorem bind_fault {α β : Type} (f : α → Res β) : ((fault : Res α) >>= f) = fault := rfl
@[simp] theorem map_ok {α β : Type} (f : α → β) (a : α) : (f <$> (ok a : Res α)) = ok (f a) := rfl
@[simp] theorem map_err {α β : Type} (f : α → β) : (f <$> (err : Res α)) = err := rfl
@[simp] theorem map_fault {α β : Type} (f : α → β) : (f <$> (fault : Res α)) = fault := rfl

def isOk {α : Type} : Res α → Bool
  | ok _ => true
  | _ => false

def isFault {α : Type} : Res α → Bool
  | fault => true
  | _ => false

/-- `x >>= f` is not a fault when `x` is not and `f` never produces one on `x`'s value. -/
theorem bind_ne_fault {α β : Type} {x : Res α} {f : α → Res β}
    (hx : x ≠ fault) (hf : ∀ a, x = ok a → f a ≠ fault) : (x >>= f) ≠ fault := by
  cases x with
  | ok a => simpa using hf a rfl
  | err => simp
  | fault => exact absurd rfl hx

theorem bind_eq_ok {α β : Type} {x : Res α} {f : α → Res β} {b : β}
    (h : (x >>= f) = ok b) : ∃ a, x = ok a ∧ f a = ok b := by
  cases x with
  | ok a => exact ⟨a, rfl, by simpa using h⟩
  | err => simp at h
  | fault => simp at h

end Res

/-- Go `if cond { return err }` as a monadic guard. -/
@[inline] def guardErr (c : Bool) : Res Unit := if c then Res.err else Res.ok ()

@[simp] theorem guardErr_true : guardErr true = Res.err := rfl
@[simp] theorem guardErr_false : guardErr false = Res.ok () := rfl

/-! ### byte access -/

/-- unchecked read (0 beyond the end); only used under a bounds hypothesis. -/
def byteAt (b : Bytes) (i : Nat) : UInt8 := b.getD i 0

/-- Go `b[i]`. -/
def goIndex (b : Bytes) (i : Nat) : Res UInt8 :=
  if i < b.length then Res.ok (byteAt b i) else Res.fault

/-- Go `b[lo:hi]`. -/
def goSlice (b : Bytes) (lo hi : Nat) : Res Bytes :=
  if lo ≤ hi ∧ hi ≤ b.length then Res.ok ((b.take hi).drop lo) else Res.fault

/-- Go `b[lo:]`. -/
def goFrom (b : Bytes) (lo : Nat) : Res Bytes :=
  if lo ≤ b.length then Res.ok (b.drop lo) else Res.fault

/-- Go `b[:hi]`. -/
def goTo (b : Bytes) (hi : Nat) : Res Bytes :=
  if hi ≤ b.length then Res.ok (b.take hi) else Res.fault

theorem goIndex_ok {b : Bytes} {i : Nat} (h : i < b.length) : goIndex b i = Res.ok (byteAt b i) := by
  simp [goIndex, h]

theorem goSlice_ok {b : Bytes} {lo hi : Nat} (h1 : lo ≤ hi) (h2 : hi ≤ b.length) :
    goSlice b lo hi = Res.ok ((b.take hi).drop lo) := by
  simp [goSlice, h1, h2]

theorem goFrom_ok {b : Bytes} {lo : Nat} (h : lo ≤ b.length) : goFrom b lo = Res.ok (b.drop lo) := by
  simp [goFrom, h]

theorem goTo_ok {b : Bytes} {hi : Nat} (h : hi ≤ b.length) : goTo b hi = Res.ok (b.take hi) := by
  simp [goTo, h]

theorem goIndex_ne_fault {b : Bytes} {i : Nat} (h : i < b.length) : goIndex b i ≠ Res.fault := by
  simp [goIndex, h]

/-! ### big-endian integers (defined arithmetically so that proofs stay in `omega`) -/

def be16 (b0 b1 : UInt8) : UInt16 := UInt16.ofNat (b0.toNat * 256 + b1.toNat)

def be32 (b0 b1 b2 b3 : UInt8) : UInt32 :=
  UInt32.ofNat (((b0.toNat * 256 + b1.toNat) * 256 + b2.toNat) * 256 + b3.toNat)

def beNat (b : Bytes) : Nat := b.foldl (fun acc x => acc * 256 + x.toNat) 0

def be64 (b : Bytes) : UInt64 := UInt64.ofNat (beNat (b.take 8))

def put16 (v : UInt16) : Bytes := [UInt8.ofNat (v.toNat / 256), UInt8.ofNat (v.toNat % 256)]

def put32 (v : UInt32) : Bytes :=
  [UInt8.ofNat (v.toNat / 16777216), UInt8.ofNat (v.toNat / 65536 % 256),
   UInt8.ofNat (v.toNat / 256 % 256), UInt8.ofNat (v.toNat % 256)]

def put64 (v : UInt64) : Bytes :=
  put32 (UInt32.ofNat (v.toNat / 4294967296)) ++ put32 (UInt32.ofNat (v.toNat % 4294967296))

/-- big-endian encoding of `n` in exactly `len` octets (high octets dropped if it does not fit). -/
def natToBytes (len : Nat) (n : Nat) : Bytes :=
  (List.range len).map (fun i => UInt8.ofNat (n / 256 ^ (len - 1 - i) % 256))

/-- minimal big-endian encoding (Go `big.Int.Bytes()`): empty for 0. -/
def natBytesMin (n : Nat) : Bytes :=
  let rec go (fuel : Nat) (n : Nat) (acc : Bytes) : Bytes :=
    match fuel with
    | 0 => acc
    | fuel + 1 => if n = 0 then acc else go fuel (n / 256) (UInt8.ofNat (n % 256) :: acc)
  go (n + 1) n []

/-- Go `binary.BigEndian.Uint16(b[off:off+2])`. -/
def goU16 (b : Bytes) (off : Nat) : Res UInt16 :=
  if off + 2 ≤ b.length then Res.ok (be16 (byteAt b off) (byteAt b (off + 1))) else Res.fault

/-- Go `binary.BigEndian.Uint32(b[off:off+4])`. -/
def goU32 (b : Bytes) (off : Nat) : Res UInt32 :=
  if off + 4 ≤ b.length then
    Res.ok (be32 (byteAt b off) (byteAt b (off + 1)) (byteAt b (off + 2)) (byteAt b (off + 3)))
  else Res.fault

/-- Go `binary.BigEndian.Uint64(b[off:off+8])`. -/
def goU64 (b : Bytes) (off : Nat) : Res UInt64 :=
  if off + 8 ≤ b.length then Res.ok (be64 (b.drop off)) else Res.fault

theorem goU16_ok {b : Bytes} {off : Nat} (h : off + 2 ≤ b.length) :
    goU16 b off = Res.ok (be16 (byteAt b off) (byteAt b (off + 1))) := by simp [goU16, h]

theorem goU32_ok {b : Bytes} {off : Nat} (h : off + 4 ≤ b.length) :
    goU32 b off = Res.ok (be32 (byteAt b off) (byteAt b (off + 1)) (byteAt b (off + 2)) (byteAt b (off + 3))) := by
  simp [goU32, h]

theorem goU64_ok {b : Bytes} {off : Nat} (h : off + 8 ≤ b.length) :
    goU64 b off = Res.ok (be64 (b.drop off)) := by simp [goU64, h]

/-- `make([]byte, n)`. -/
def zeros (n : Nat) : Bytes := List.replicate n 0

@[simp] theorem zeros_length (n : Nat) : (zeros n).length = n := by simp [zeros]

/-- constant-time comparison `hmac.Equal` — as a function it is plain equality. -/
def bytesEq (a b : Bytes) : Bool := a == b

end Ike
