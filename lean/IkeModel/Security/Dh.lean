import IkeModel.GoSem
import IkeModel.Generated.Facts

/-! `security/dh`: MODP groups 2 and 14.  `GetPublicValue` / `GetSharedKey` are
`new(big.Int).Exp(base, secret, factor).Bytes()` left-padded with zero octets to
the octet length of the modulus.  Exponents and peer values are non-negative
(`big.Int.SetBytes`, `rand.Int`). -/

namespace Ike

/-- `big.Int.Exp(b, e, m)` for `e ≥ 0`, `m > 0`: right-to-left square-and-multiply. -/
def modPow (b e m : Nat) : Nat :=
  if h : e = 0 then 1 % m
  else
    let half := modPow (b * b % m) (e / 2) m
    if e % 2 = 1 then b % m * half % m else half
termination_by e
decreasing_by omega

/-- a registered group: `factor`, `generator`, `factorBytesLength` -/
structure DhGroup where
  prime : Nat
  gen   : Nat
  len   : Nat
deriving DecidableEq, Repr, Inhabited

def dhGroup2 : DhGroup := ⟨Facts.group2Prime, Facts.group2Generator, Facts.group2Len⟩
def dhGroup14 : DhGroup := ⟨Facts.group14Prime, Facts.group14Generator, Facts.group14Len⟩

/-- `append(make([]byte, L-len(v)), v...)`; `make` with a negative size panics -/
def leftPad (len : Nat) (v : Bytes) : Res Bytes :=
  if v.length ≤ len then .ok (zeros (len - v.length) ++ v) else .fault

/-- `DHType.GetPublicValue(secret)` -/
def dhPub (g : DhGroup) (secret : Nat) : Res Bytes :=
  leftPad g.len (natBytesMin (modPow g.gen secret g.prime))

/-- `DHType.GetSharedKey(secret, peerPublicValue)` -/
def dhShared (g : DhGroup) (secret peer : Nat) : Res Bytes :=
  leftPad g.len (natBytesMin (modPow peer secret g.prime))

/-- the same values written with the fixed-width encoder (equal to the above
whenever the value fits, i.e. always for a modulus of `len` octets) -/
def dhPubFixed (g : DhGroup) (secret : Nat) : Bytes := natToBytes g.len (modPow g.gen secret g.prime)
def dhSharedFixed (g : DhGroup) (secret peer : Nat) : Bytes := natToBytes g.len (modPow peer secret g.prime)

end Ike
