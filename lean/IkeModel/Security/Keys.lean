import IkeModel.Security.Sa

/-! `security/security.go`: `GenerateKeyForIKESA` and `GenerateKeyForChildSA`,
transliterated statement by statement on top of `prfPlus` / `HashObj` / `SAKey`.

Both functions thread the SA object: `GenerateKeyForIKESA` overwrites keys and
objects, `GenerateKeyForChildSA` runs `lib.PrfPlus` on the SA's long-lived
`Prf_d` object (whose write buffer is left holding the last block input).

Not modelled (the model's `SAKey` has no nil fields): the `== nil` tests on
`ikesaKey`, `EncrInfo`, `IntegInfo`, `PrfInfo`, `DhInfo`, `Prf_d`,
`EncrKInfo`. -/

set_option linter.unusedVariables false

namespace Ike

/-- `PRFType.Init(key)` = `hmac.New(h, key)`: accepts every key length, never nil. -/
def PrfInfo.init (p : PrfInfo) (key : Bytes) : HashObj := ⟨p.hash, key, []⟩

/-- `INTEGType.Init(key)`: `hmac.New(h, key)` if `len(key)` is the descriptor's
key length, otherwise the nil `hash.Hash` (`none`). -/
def IntegInfo.init (i : IntegInfo) (key : Bytes) : Option HashObj :=
  if key.length = i.keyLen then some ⟨i.hash, key, []⟩ else none

/-- `concatenateNonceAndSPI` -/
def concatNonceSpi (nonce : Bytes) (spiI spiR : UInt64) : Bytes :=
  nonce ++ put64 spiI ++ put64 spiR

/-- the seven consecutive re-slicings `k = keyStream[:n]; keyStream = keyStream[n:]` -/
structure IkeKeySlices where
  d  : Bytes
  ai : Bytes
  ar : Bytes
  ei : Bytes
  er : Bytes
  pi : Bytes
  pr : Bytes
deriving DecidableEq, Repr, Inhabited

def sliceIkeKeys (ks : Bytes) (lD lA lE : Nat) : Res IkeKeySlices := do
  let d ← goTo ks lD
  let ks ← goFrom ks lD
  let ai ← goTo ks lA
  let ks ← goFrom ks lA
  let ar ← goTo ks lA
  let ks ← goFrom ks lA
  let ei ← goTo ks lE
  let ks ← goFrom ks lE
  let er ← goTo ks lE
  let ks ← goFrom ks lE
  let pi ← goTo ks lD
  let ks ← goFrom ks lD
  let pr ← goTo ks lD
  pure ⟨d, ai, ar, ei, er, pi, pr⟩

/-- `(*IKESAKey).GenerateKeyForIKESA(concatenatedNonce, diffieHellmanSharedKey, initiatorSPI, responderSPI)`.

Returns the SA object as the call leaves it and the error outcome.
* `PrfPlus` returns nil (⇒ error) exactly when the requested length is 0.
* A nil `Integ_i` / `Integ_r` (key-length guard of `Init` not met) is stored by
  the Go code without an error; every later use of the SA dereferences nil.
  The model has no nil hash object and reports that state as `fault`.
* On a `NewCrypto` error Go stores nil in `Encr_i` / `Encr_r`; the model leaves
  the previous cipher object in place (the SA is returned with an error). -/
def genKeyForIKESA (P : Prims) (sa : SAKey) (nonce secret : Bytes) (spiI spiR : UInt64) : SAKey × Res Unit :=
  if nonce.length = 0 then (sa, .err) else
  if secret.length = 0 then (sa, .err) else
  let lD := sa.prfInfo.keyLen
  let lA := sa.integInfo.keyLen
  let lE := sa.encrInfo.keyLen
  let total := lD + lA + lA + lE + lE + lD + lD
  -- prf := PrfInfo.Init(nonce); prf.Write(secret); skeyseed := prf.Sum(nil)
  let prf := (sa.prfInfo.init nonce).write secret
  let skeyseed := prf.sum P []
  let seed := concatNonceSpi nonce spiI spiR
  match prfPlus P (sa.prfInfo.init skeyseed) seed total with
  | (_, .err) => (sa, .err)
  | (_, .fault) => (sa, .fault)
  | (_, .ok keyStream) =>
    if keyStream.isEmpty then (sa, .err) else
    match sliceIkeKeys keyStream lD lA lE with
    | .err => (sa, .err)
    | .fault => (sa, .fault)
    | .ok k =>
      let sa1 : SAKey := { sa with sk_d := k.d, sk_ai := k.ai, sk_ar := k.ar, sk_ei := k.ei,
                                   sk_er := k.er, sk_pi := k.pi, sk_pr := k.pr }
      let sa2 : SAKey := { sa1 with prf_d := sa.prfInfo.init k.d }
      match sa.integInfo.init k.ai, sa.integInfo.init k.ar with
      | some hi, some hr =>
        let sa3 : SAKey := { sa2 with integ_i := hi, integ_r := hr }
        match newCrypto lE k.ei with
        | .err => (sa3, .err)
        | .fault => (sa3, .fault)
        | .ok ci =>
          let sa4 : SAKey := { sa3 with encr_i := ci }
          match newCrypto lE k.er with
          | .err => (sa4, .err)
          | .fault => (sa4, .fault)
          | .ok cr =>
            ({ sa4 with encr_r := cr, prf_i := sa.prfInfo.init k.pi, prf_r := sa.prfInfo.init k.pr }, .ok ())
      | _, _ => (sa2, .fault)

/-- `security.ChildSAKey`: the two descriptors reduced to what key derivation
reads (`EncrKInfo.GetKeyLength()`, `IntegKInfo` nil or `GetKeyLength()`), and the
four key fields. -/
structure ChildSAKey where
  encrKeyLen  : Nat
  integKeyLen : Option Nat
  i2rEncr  : Bytes := []
  r2iEncr  : Bytes := []
  i2rInteg : Bytes := []
  r2iInteg : Bytes := []
deriving DecidableEq, Repr, Inhabited

/-- the four `append(field, keyStream[:n]...); keyStream = keyStream[n:]` steps -/
def appendChildKeys (c : ChildSAKey) (ks : Bytes) (lE lA : Nat) : Res ChildSAKey := do
  let a ← goTo ks lE
  let ks ← goFrom ks lE
  let b ← goTo ks lA
  let ks ← goFrom ks lA
  let d ← goTo ks lE
  let ks ← goFrom ks lE
  let e ← goTo ks lA
  pure { c with i2rEncr := c.i2rEncr ++ a, i2rInteg := c.i2rInteg ++ b,
                r2iEncr := c.r2iEncr ++ d, r2iInteg := c.r2iInteg ++ e }

/-- `(*ChildSAKey).GenerateKeyForChildSA(ikeSA, concatenatedNonce)`.
Returns the IKE SA object (its `Prf_d` buffer changed) and the Child SA key
object; the key fields are appended to, as in the Go code. -/
def genKeyForChildSA (P : Prims) (sa : SAKey) (c : ChildSAKey) (nonce : Bytes) : SAKey × Res ChildSAKey :=
  let lE := c.encrKeyLen
  let lA := match c.integKeyLen with
    | some n => n
    | none => 0
  let total := (lE + lA) * 2
  let seed := nonce
  match prfPlus P sa.prf_d seed total with
  | (h, .err) => ({ sa with prf_d := h }, .err)
  | (h, .fault) => ({ sa with prf_d := h }, .fault)
  | (h, .ok keyStream) =>
    let sa' : SAKey := { sa with prf_d := h }
    if keyStream.isEmpty then (sa', .err) else (sa', appendChildKeys c keyStream lE lA)

end Ike
