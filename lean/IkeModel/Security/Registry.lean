import IkeModel.Security.Sa
import IkeModel.Message.SA

/-! The algorithm registries of `security/encr`, `security/integ`,
`security/prf`, `security/dh`, `security/esn` and the proposal <-> SA
conversions of `security/security.go` (`NewIKESAKey` up to the key
derivation, `NewChildSAKeyByProposal`, the two `ToProposal`).

Go keeps three maps per kind: transform id -> stringifier, name -> descriptor.
The descriptors the names denote are the rows of the generated tables
`Ike.Facts.encrTable`, … (obtained by calling `StrToType(name)` on the compiled
code), so "stringifier, then map lookup" is a search in those tables.  Every
decode function is total on `Transform`: like the Go code it reads only
`TransformID`, `AttributeType`, `AttributeValue` — never `TransformType`,
`AttributePresent` or `AttributeFormat`. -/

namespace Ike.Registry

open Ike

/-- `ENCRKType`: the kernel-side descriptor has no cipher constructor -/
structure EncrKInfo where
  tid    : UInt16
  keyLen : Nat
deriving DecidableEq, Repr, Inhabited

/-- `INTEGKType`: key length only -/
structure IntegKInfo where
  tid    : UInt16
  keyLen : Nat
deriving DecidableEq, Repr, Inhabited

/-- `DHType` -/
structure DhInfo where
  tid       : UInt16
  prime     : Nat
  generator : Nat
  len       : Nat
deriving DecidableEq, Repr, Inhabited

/-- `esn.ESN` -/
structure EsnInfo where
  needESN : Bool
deriving DecidableEq, Repr, Inhabited

/-! ### encryption -/

/-- `toString_ENCR_AES_CBC(attrType, intValue, _)` followed by the lookup of
the returned name in `encrTypes` / `encrKTypes`: a name exists exactly for the
key sizes of the table rows (`ENCR_AES_CBC_<bits>`), and only the key-length
attribute type selects one. -/
def aesCbcRow (tbl : List (UInt16 × Nat)) (atype aval : UInt16) : Option (UInt16 × Nat) :=
  if atype == Facts.attrTypeKeyLength then tbl.find? (fun r => r.2 * 8 == aval.toNat) else none

/-- `encrString[id]` has the single key `ENCR_AES_CBC` -/
def decodeEncrRow (tbl : List (UInt16 × Nat)) (t : Transform) : Option (UInt16 × Nat) :=
  if t.tid == Facts.encrAesCbcId then aesCbcRow tbl t.atype t.aval else none

/-- `encr.DecodeTransform` -/
def decodeEncr (t : Transform) : Option EncrInfo :=
  match decodeEncrRow Facts.encrTable t with
  | some r => some ⟨r.1, r.2⟩
  | none => none

/-- `encr.DecodeTransformChildSA` -/
def decodeEncrChild (t : Transform) : Option EncrKInfo :=
  match decodeEncrRow Facts.encrChildTable t with
  | some r => some ⟨r.1, r.2⟩
  | none => none

/-- what `getAttribute()` returns: present, type, value, variable-length value (`none` = Go nil) -/
abbrev Attr := Bool × UInt16 × UInt16 × Option Bytes

/-- `(false, 0, 0, nil)` — every algorithm but AES-CBC -/
def noAttr : Attr := (false, 0, 0, none)

/-- `EncrAesCbc.getAttribute` -/
def aesCbcAttr (keyLen : Nat) : Res Attr :=
  let bits := keyLen * 8
  if bits > 0xFFFF then .err else .ok (true, Facts.attrTypeKeyLength, UInt16.ofNat bits, none)

/-- the common body of all `ToTransform` functions -/
def mkTransform (ttype : UInt8) (tid : UInt16) (a : Attr) : Transform :=
  { ttype := ttype, tid := tid, present := a.1,
    fmt := if a.1 && a.2.2.2.isNone then Facts.attrFormatTV else 0,
    atype := a.2.1, aval := a.2.2.1, vval := a.2.2.2.getD [] }

/-- `encr.ToTransform` -/
def encrToTransform (e : EncrInfo) : Res Transform := do
  let a ← aesCbcAttr e.keyLen
  .ok (mkTransform Facts.ttEncr e.tid a)

/-- `encr.ToTransformChildSA` -/
def encrChildToTransform (e : EncrKInfo) : Res Transform := do
  let a ← aesCbcAttr e.keyLen
  .ok (mkTransform Facts.ttEncr e.tid a)

/-! ### integrity, PRF: the stringifiers ignore the attribute -/

def findId (tbl : List (UInt16 × Nat × Nat × Nat)) (id : UInt16) : Option (UInt16 × Nat × Nat × Nat) :=
  tbl.find? (fun r => r.1 == id)

/-- `integ.DecodeTransform` -/
def decodeInteg (t : Transform) : Option IntegInfo :=
  match findId Facts.integTable t.tid with
  | some r => some ⟨r.1, r.2.1, r.2.2.1, r.2.2.2⟩
  | none => none

/-- `integ.DecodeTransformChildSA` -/
def decodeIntegChild (t : Transform) : Option IntegKInfo :=
  match findId Facts.integChildTable t.tid with
  | some r => some ⟨r.1, r.2.1⟩
  | none => none

/-- `prf.DecodeTransform` -/
def decodePrf (t : Transform) : Option PrfInfo :=
  match findId Facts.prfTable t.tid with
  | some r => some ⟨r.1, r.2.1, r.2.2.1, r.2.2.2⟩
  | none => none

/-- `integ.ToTransform` -/
def integToTransform (i : IntegInfo) : Transform := mkTransform Facts.ttInteg i.tid noAttr
/-- `integ.ToTransformChildSA` -/
def integChildToTransform (i : IntegKInfo) : Transform := mkTransform Facts.ttInteg i.tid noAttr
/-- `prf.ToTransform` -/
def prfToTransform (p : PrfInfo) : Transform := mkTransform Facts.ttPrf p.tid noAttr

/-! ### Diffie-Hellman groups, ESN -/

def group2 : DhInfo := ⟨Facts.group2Id, Facts.group2Prime, Facts.group2Generator, Facts.group2Len⟩
def group14 : DhInfo := ⟨Facts.group14Id, Facts.group14Prime, Facts.group14Generator, Facts.group14Len⟩

/-- `dh.DecodeTransform` -/
def decodeDh (t : Transform) : Option DhInfo :=
  if t.tid == Facts.group2Id then some group2
  else if t.tid == Facts.group14Id then some group14
  else none

/-- `dh.ToTransform` -/
def dhToTransform (d : DhInfo) : Transform := mkTransform Facts.ttDh d.tid noAttr

/-- `ESN.TransformID` -/
def EsnInfo.tid (e : EsnInfo) : UInt16 := if e.needESN then Facts.esnEnableId else Facts.esnDisableId

/-- `esn.DecodeTransform` (returns an error, not nil) -/
def decodeEsn (t : Transform) : Res EsnInfo :=
  if t.tid == Facts.esnEnableId then .ok ⟨true⟩
  else if t.tid == Facts.esnDisableId then .ok ⟨false⟩
  else .err

/-- `esn.ToTransform` -/
def esnToTransform (e : EsnInfo) : Transform := mkTransform Facts.ttEsn e.tid noAttr

/-! ### the advertised set: `StrToType(name)` for every exported name, table order -/

def advertisedEncr : List EncrInfo := Facts.encrTable.map (fun r => ⟨r.1, r.2⟩)
def advertisedEncrChild : List EncrKInfo := Facts.encrChildTable.map (fun r => ⟨r.1, r.2⟩)
def advertisedInteg : List IntegInfo := Facts.integTable.map (fun r => ⟨r.1, r.2.1, r.2.2.1, r.2.2.2⟩)
def advertisedIntegChild : List IntegKInfo := Facts.integChildTable.map (fun r => ⟨r.1, r.2.1⟩)
def advertisedPrf : List PrfInfo := Facts.prfTable.map (fun r => ⟨r.1, r.2.1, r.2.2.1, r.2.2.2⟩)
def advertisedDh : List DhInfo := [group2, group14]
def advertisedEsn : List EsnInfo := [⟨true⟩, ⟨false⟩]

/-! ### proposal -> SA -/

/-- the four descriptors `NewIKESAKey` has stored when it reaches
`CalculateDiffieHellmanMaterials`.  `integ` may be absent: the nil check after
`integ.DecodeTransform` tests `EncrInfo` a second time. -/
structure IkeAlgs where
  dh    : DhInfo
  encr  : EncrInfo
  integ : Option IntegInfo
  prf   : PrfInfo
deriving DecidableEq, Repr, Inhabited

/-- `NewIKESAKey`, from the nil/empty checks to the last `DecodeTransform` -/
def selectIke : Option Proposal → Res IkeAlgs
  | none => .err
  | some p =>
    match p.dh with
    | [] => .err
    | d :: _ =>
    match p.encr with
    | [] => .err
    | e :: _ =>
    match p.integ with
    | [] => .err
    | i :: _ =>
    match p.prf with
    | [] => .err
    | f :: _ =>
      match decodeDh d with
      | none => .err
      | some dh =>
        match decodeEncr e with
        | none => .err
        | some en =>
          let ig := decodeInteg i
          -- Go: `if ikesaKey.EncrInfo == nil { return error }` — never taken here
          match decodePrf f with
          | none => .err
          | some pf => .ok ⟨dh, en, ig, pf⟩

/-- a complete algorithm set of an IKE SA -/
structure IkeSuite where
  dh    : DhInfo
  encr  : EncrInfo
  integ : IntegInfo
  prf   : PrfInfo
deriving DecidableEq, Repr, Inhabited

/-- the parameter checks at the head of `GenerateKeyForIKESA` (receiver non-nil) -/
def keyGenChecks (a : IkeAlgs) (nonce shared : Bytes) : Res IkeSuite :=
  match a.integ with
  | none => .err
  | some ig =>
    if nonce.length = 0 then .err
    else if shared.length = 0 then .err
    else .ok ⟨a.dh, a.encr, ig, a.prf⟩

/-- the algorithm-selection outcome of `NewIKESAKey(proposal, ke, nonce, …)`
when the random source works: the DH shared secret always has `dh.len ≥ 1`
octets (`GetSharedKey` left-pads to the size of the prime). -/
def newIkeSaKeyAlgs (p : Option Proposal) (nonce : Bytes) : Res IkeSuite := do
  let a ← selectIke p
  keyGenChecks a nonce (zeros a.dh.len)

/-- `IKESAKey.ToProposal` -/
def ikeToProposal (s : IkeSuite) : Res Proposal := do
  let e ← encrToTransform s.encr
  .ok { num := 0, proto := Facts.protoIKE, spi := [],
        encr := [e], prf := [prfToTransform s.prf], integ := [integToTransform s.integ],
        dh := [dhToTransform s.dh], esn := [] }

/-- the descriptors of a `ChildSAKey` -/
structure ChildSuite where
  dh    : Option DhInfo
  encr  : EncrKInfo
  integ : Option IntegKInfo
  esn   : EsnInfo
deriving DecidableEq, Repr, Inhabited

/-- `NewChildSAKeyByProposal` -/
def selectChild : Option Proposal → Res ChildSuite
  | none => .err
  | some p =>
    match p.encr with
    | [] => .err
    | e :: _ =>
    match p.integ with
    | [] => .err
    | i :: irest =>
    match p.esn with
    | [] => .err
    | n :: _ =>
      let dhr : Res (Option DhInfo) :=
        match p.dh with
        | [d] => (match decodeDh d with | none => .err | some x => .ok (some x))
        | _ => .ok none
      match dhr with
      | .err => .err
      | .fault => .fault
      | .ok dh =>
        match decodeEncrChild e with
        | none => .err
        | some en =>
          let igr : Res (Option IntegKInfo) :=
            match irest with
            | [] => (match decodeIntegChild i with | none => .err | some x => .ok (some x))
            | _ => .ok none
          match igr with
          | .err => .err
          | .fault => .fault
          | .ok ig =>
            match decodeEsn n with
            | .ok es => .ok ⟨dh, en, ig, es⟩
            | .err => .err
            | .fault => .fault

/-- `ChildSAKey.ToProposal` -/
def childToProposal (s : ChildSuite) : Res Proposal := do
  let e ← encrChildToTransform s.encr
  .ok { num := 0, proto := Facts.protoESP, spi := [],
        encr := [e], prf := [],
        integ := (match s.integ with | some i => [integChildToTransform i] | none => []),
        dh := (match s.dh with | some d => [dhToTransform d] | none => []),
        esn := [esnToTransform s.esn] }

end Ike.Registry
