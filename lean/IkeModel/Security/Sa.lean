import IkeModel.Crypto.Cbc
import IkeModel.Types

/-! Stateful security objects of `security.IKESAKey`: `hash.Hash` objects
(HMAC with a write buffer), AES-CBC cipher objects, the random source, and the
functions of `security/lib`, `security/encr/encr_aes_cbc.go`. -/

set_option linter.unusedVariables false

namespace Ike

/-- `hash.Hash` returned by `hmac.New`: key fixed, `buf` = octets written since the last Reset. -/
structure HashObj where
  alg : Nat
  key : Bytes
  buf : Bytes
deriving DecidableEq, Repr, Inhabited

def HashObj.reset (h : HashObj) : HashObj := { h with buf := [] }
def HashObj.write (h : HashObj) (d : Bytes) : HashObj := { h with buf := h.buf ++ d }
/-- `Sum(prefix)`: appends the digest to `prefix`; does not change the object. -/
def HashObj.sum (P : Prims) (h : HashObj) (pre : Bytes) : Bytes := pre ++ P.mac h.alg h.key h.buf
def HashObj.size (P : Prims) (h : HashObj) : Nat := P.macLen h.alg

/-- `EncrAesCbcCrypto` with the test-only `Iv`/`Padding` fields nil. -/
structure CipherObj where
  key : Bytes
deriving DecidableEq, Repr, Inhabited

/-- the random source: an octet stream served cyclically (as the harness'
deterministic `crypto/rand.Reader` does) and the index of the Read call that
fails, if any. -/
structure Rand where
  buf    : Bytes
  pos    : Nat := 0
  reads  : Nat := 0
  failAt : Option Nat := none
deriving Repr, Inhabited

def cyc (buf : Bytes) (pos : Nat) : Nat → Bytes
  | 0 => []
  | n + 1 => byteAt buf (pos % buf.length) :: cyc buf (pos + 1) n

/-- one `io.ReadFull(rand.Reader, make([]byte, n))` -/
def Rand.draw (r : Rand) (n : Nat) : Rand × Res Bytes :=
  if r.failAt = some r.reads then ({ r with reads := r.reads + 1 }, .err)
  else ({ r with reads := r.reads + 1, pos := r.pos + n }, .ok (cyc r.buf r.pos n))

/-- `lib.PKCS7Padding(plainText, 16)` -/
def pkcs7Pad (r : Rand) (plain : Bytes) : Rand × Res Bytes :=
  let padding := 16 - plain.length % 16
  match r.draw padding with
  | (r', .ok pt) => (r', .ok (plain ++ pt.take (padding - 1) ++ [UInt8.ofNat (padding - 1)]))
  | (r', .err) => (r', .err)
  | (r', .fault) => (r', .fault)

/-- `EncrAesCbcCrypto.Encrypt` -/
def cbcEncrypt (P : Prims) (c : CipherObj) (r : Rand) (plain : Bytes) : Rand × Res Bytes :=
  match pkcs7Pad r plain with
  | (r1, .ok padded) =>
    match r1.draw 16 with
    | (r2, .ok iv) => (r2, .ok (iv ++ cbcEnc (P.enc c.key) iv padded))
    | (r2, .err) => (r2, .err)
    | (r2, .fault) => (r2, .fault)
  | (r1, .err) => (r1, .err)
  | (r1, .fault) => (r1, .fault)

/-- `EncrAesCbcCrypto.Decrypt` -/
def cbcDecrypt (P : Prims) (c : CipherObj) (ct : Bytes) : Res Bytes :=
  if ct.length < 16 then .err else do
    let iv ← goTo ct 16
    let em ← goFrom ct 16
    if em.length = 0 || em.length % 16 ≠ 0 then .err else do
      let pt := cbcDec (P.dec c.key) iv em
      let last ← goIndex pt (pt.length - 1)
      let padding := last.toNat + 1
      if padding > pt.length then .err else goTo pt (pt.length - padding)

/-- `ENCRType.NewCrypto(key)` for a descriptor with key length `keyLen` -/
def newCrypto (keyLen : Nat) (key : Bytes) : Res CipherObj :=
  if key.length ≠ keyLen then .err else .ok ⟨key⟩

/-- `lib.PrfPlus(prf, s, streamLen)`; `fuel` bounds the iterations (each adds `Size() ≥ 1` octets). -/
def prfPlusLoop (P : Prims) (s : Bytes) (streamLen : Nat) :
    Nat → HashObj → Nat → Bytes → Bytes → HashObj × Bytes
  | 0, h, _, stream, _ => (h, stream)
  | fuel + 1, h, i, stream, block =>
    if stream.length < streamLen then
      let h1 := (h.reset).write (block ++ s ++ [UInt8.ofNat i])
      let stream' := h1.sum P stream
      let block' := stream'.drop (stream'.length - h1.size P)
      prfPlusLoop P s streamLen fuel h1 (i + 1) stream' block'
    else (h, stream)

def prfPlus (P : Prims) (h : HashObj) (s : Bytes) (streamLen : Nat) : HashObj × Res Bytes :=
  let (h', stream) := prfPlusLoop P s streamLen (streamLen + 1) h 1 [] []
  (h', goTo stream streamLen)

/-- descriptor of an integrity algorithm (`INTEGType`) -/
structure IntegInfo where
  tid    : UInt16
  keyLen : Nat
  outLen : Nat
  hash   : Nat
deriving DecidableEq, Repr, Inhabited

structure EncrInfo where
  tid    : UInt16
  keyLen : Nat
deriving DecidableEq, Repr, Inhabited

structure PrfInfo where
  tid    : UInt16
  keyLen : Nat
  outLen : Nat
  hash   : Nat
deriving DecidableEq, Repr, Inhabited

/-- the part of `security.IKESAKey` that protect/unprotect and key derivation touch -/
structure SAKey where
  encrInfo  : EncrInfo
  integInfo : IntegInfo
  prfInfo   : PrfInfo
  prf_d   : HashObj
  integ_i : HashObj
  integ_r : HashObj
  encr_i  : CipherObj
  encr_r  : CipherObj
  prf_i   : HashObj
  prf_r   : HashObj
  sk_d  : Bytes
  sk_ai : Bytes
  sk_ar : Bytes
  sk_ei : Bytes
  sk_er : Bytes
  sk_pi : Bytes
  sk_pr : Bytes
deriving DecidableEq, Repr, Inhabited

/-- an SA object freshly built around the seven keys -/
def SAKey.fresh (e : EncrInfo) (i : IntegInfo) (p : PrfInfo) (d ai ar ei er pi pr : Bytes) : SAKey :=
  { encrInfo := e, integInfo := i, prfInfo := p,
    prf_d := ⟨p.hash, d, []⟩, integ_i := ⟨i.hash, ai, []⟩, integ_r := ⟨i.hash, ar, []⟩,
    encr_i := ⟨ei⟩, encr_r := ⟨er⟩, prf_i := ⟨p.hash, pi, []⟩, prf_r := ⟨p.hash, pr, []⟩,
    sk_d := d, sk_ai := ai, sk_ar := ar, sk_ei := ei, sk_er := er, sk_pi := pi, sk_pr := pr }

/-- `calculateIntegrity(ikesaKey, role, data)`; `role = true` is the initiator -/
def calcIntegrity (P : Prims) (sa : SAKey) (role : Bool) (data : Bytes) : SAKey × Res Bytes :=
  if role then
    let h := (sa.integ_i.reset).write data
    ({ sa with integ_i := h }, goTo (h.sum P []) sa.integInfo.outLen)
  else
    let h := (sa.integ_r.reset).write data
    ({ sa with integ_r := h }, goTo (h.sum P []) sa.integInfo.outLen)

end Ike
