import IkeModel.Security.Sa
import IkeModel.Ike

/-! Operations on long-lived security objects, as histories:

* `childKeys` — `ChildSAKey.GenerateKeyForChildSA(ikeSA, nonce)` (security/security.go)
  on a newly allocated `ChildSAKey`, as an operation on the IKE SA's stateful
  `Prf_d` object (the only part of the IKE SA it touches), on top of `prfPlus`.
  A fuller model of the key derivations lives in `Security/Keys.lean`; this
  file does not depend on it.
* `SaOp` / `saStep` / `saRun` / `saRunFresh` — a history of `EncodeEncrypt`,
  `DecodeDecrypt`, `GenerateKeyForChildSA` calls on ONE `*IKESAKey` (C17;
  driver operation `saops`).
* `CbcOp` / `cbcRun` — a history of `Encrypt` / `Decrypt` calls on ONE cipher
  object sharing one random source (C10; driver operation `cbc-seq`). -/

set_option linter.unusedVariables false

namespace Ike

/-- the four key fields of `security.ChildSAKey` after the derivation -/
structure ChildKeys where
  encr_i2r  : Bytes   -- InitiatorToResponderEncryptionKey
  integ_i2r : Bytes   -- InitiatorToResponderIntegrityKey
  encr_r2i  : Bytes   -- ResponderToInitiatorEncryptionKey
  integ_r2i : Bytes   -- ResponderToInitiatorIntegrityKey
deriving DecidableEq, Repr, Inhabited

/-- the four successive slices of `GenerateKeyForChildSA`:
`ks[:e]`, `ks = ks[e:]`, `ks[:i]`, `ks = ks[i:]`, `ks[:e]`, `ks = ks[e:]`, `ks[:i]` -/
def childSplit (encrLen integLen : Nat) (ks : Bytes) : Res ChildKeys := do
  let ei ← goTo ks encrLen
  let ks1 ← goFrom ks encrLen
  let ai ← goTo ks1 integLen
  let ks2 ← goFrom ks1 integLen
  let er ← goTo ks2 encrLen
  let ks3 ← goFrom ks2 encrLen
  let ar ← goTo ks3 integLen
  .ok ⟨ei, ai, er, ar⟩

/-- `childsaKey.GenerateKeyForChildSA(ikeSA, nonce)`.
`encrLen` = `EncrKInfo.GetKeyLength()`, `integLen` = `IntegKInfo.GetKeyLength()`
(0 when `IntegKInfo` is nil).  `PrfPlus` returns a nil stream exactly when the
requested length is 0 (the loop body never runs); the Go code reports that as
an error.  Returns the IKE SA with the `Prf_d` object as `PrfPlus` leaves it. -/
def childKeys (P : Prims) (sa : SAKey) (encrLen integLen : Nat) (nonce : Bytes) : SAKey × Res ChildKeys :=
  let total := (encrLen + integLen) * 2
  match prfPlus P sa.prf_d nonce total with
  | (h, .err) => ({ sa with prf_d := h }, .err)
  | (h, .fault) => ({ sa with prf_d := h }, .fault)
  | (h, .ok ks) =>
    if total = 0 then ({ sa with prf_d := h }, .err)
    else ({ sa with prf_d := h }, childSplit encrLen integLen ks)

/-! ### histories of operations on one IKE SA key object (C17)

One element of a history is a call of `EncodeEncrypt`, `DecodeDecrypt` or
`GenerateKeyForChildSA` with the long-lived `*IKESAKey`; the random source is
per call (the harness installs a new deterministic reader for every call). -/

inductive SaOp where
  /-- `EncodeEncrypt(m, sa, role)` with the random octet stream `rnd` -/
  | protect (role : Bool) (rnd : Bytes) (m : Msg)
  /-- `DecodeDecrypt(bs, hdr, sa, role)`; `withHdr`: `hdr` = `ParseHeader(bs)`, else nil -/
  | unprotect (role : Bool) (withHdr : Bool) (bs : Bytes)
  /-- `new(ChildSAKey){EncrKInfo, IntegKInfo}.GenerateKeyForChildSA(sa, nonce)` -/
  | child (encrLen integLen : Nat) (nonce : Bytes)
deriving Repr, Inhabited

inductive SaOut where
  | bytes (b : Bytes)
  | msg (m : Msg)
  | keys (k : ChildKeys)
deriving Repr, Inhabited

/-- one operation on the SA object: new object state and the observable outcome -/
def saStep (P : Prims) (sa : SAKey) : SaOp → SAKey × Res SaOut
  | .protect role rnd m =>
    match protect P sa role { buf := rnd } m with
    | (sa', _, .ok (out, _)) => (sa', .ok (.bytes out))
    | (sa', _, .err) => (sa', .err)
    | (sa', _, .fault) => (sa', .fault)
  | .unprotect role withHdr bs =>
    let run (h : Option Header) : SAKey × Res SaOut :=
      match unprotect P (some sa) role h bs with
      | (some sa', _, .ok m) => (sa', .ok (.msg m))
      | (some sa', _, .err) => (sa', .err)
      | (some sa', _, .fault) => (sa', .fault)
      | (none, _, .ok m) => (sa, .ok (.msg m))
      | (none, _, .err) => (sa, .err)
      | (none, _, .fault) => (sa, .fault)
    if withHdr then
      match parseHeader bs with
      | .ok h => run (some h)
      | .err => (sa, .err)
      | .fault => (sa, .fault)
    else run none
  | .child encrLen integLen nonce =>
    match childKeys P sa encrLen integLen nonce with
    | (sa', .ok k) => (sa', .ok (.keys k))
    | (sa', .err) => (sa', .err)
    | (sa', .fault) => (sa', .fault)

/-- the outcomes of a history executed on ONE object, state threaded through -/
def saRun (P : Prims) : SAKey → List SaOp → List (Res SaOut)
  | _, [] => []
  | sa, op :: rest =>
    let (sa', out) := saStep P sa op
    out :: saRun P sa' rest

/-- the object state after a history -/
def saFinal (P : Prims) : SAKey → List SaOp → SAKey
  | sa, [] => sa
  | sa, op :: rest => saFinal P (saStep P sa op).1 rest

/-- the same operations, each on the untouched object `sa` (what "a newly built SA
object holding the same keys" returns) -/
def saRunFresh (P : Prims) (sa : SAKey) (ops : List SaOp) : List (Res SaOut) :=
  ops.map (fun op => (saStep P sa op).2)

/-! ### call sequences on one cipher object (C10) -/

inductive CbcOp where
  | enc (plain : Bytes)
  | dec (ct : Bytes)
deriving Repr, Inhabited

/-- `Encrypt` / `Decrypt` calls on one `EncrAesCbcCrypto` object sharing one random source.
The object is passed along unchanged: neither method assigns a field. -/
def cbcRun (P : Prims) (c : CipherObj) : Rand → List CbcOp → List (Res Bytes)
  | _, [] => []
  | r, .enc p :: rest =>
    let (r', out) := cbcEncrypt P c r p
    out :: cbcRun P c r' rest
  | r, .dec ct :: rest => cbcDecrypt P c ct :: cbcRun P c r rest

end Ike
