import IkeModel.GoSem

/-! Slice-store semantics for C20: Go slices are views `(array, offset, length)`
into backing arrays; `append(nil-or-owned, src...)` and `make` allocate a new
array owned by the destination; `x.f = src[a:b]` makes the field a view of the
source's array.  The footprint extracted from the decoders classifies every
store into a slice-typed field as one of these. -/

namespace Ike.Mem

structure Store where
  arrays : Nat → Bytes
  next   : Nat

structure View where
  arr : Nat
  off : Nat
  len : Nat

def read (st : Store) (v : View) : Bytes := ((st.arrays v.arr).drop v.off).take v.len

/-- overwrite array `id` arbitrarily (what the caller does to its receive buffer) -/
def scribble (st : Store) (id : Nat) (f : Bytes → Bytes) : Store :=
  { st with arrays := fun j => if j = id then f (st.arrays j) else st.arrays j }

/-- `dst = append(dst0, src...)` with `dst0` nil or owned: a new array holding a copy -/
def copyAppend (st : Store) (src : View) : Store × View :=
  ({ arrays := fun j => if j = st.next then read st src else st.arrays j, next := st.next + 1 },
   ⟨st.next, 0, (read st src).length⟩)

/-- `make([]byte, n)` (contents irrelevant) -/
def fresh (st : Store) (content : Bytes) : Store × View :=
  ({ arrays := fun j => if j = st.next then content else st.arrays j, next := st.next + 1 },
   ⟨st.next, 0, content.length⟩)

/-- `dst = src[a:b]` : a view of the same array -/
def alias (src : View) (a b : Nat) : View := ⟨src.arr, src.off + a, b - a⟩

/-- the three classes of the extracted footprint -/
inductive Class where
  | copyAppend | fresh | alias
deriving DecidableEq, Repr

/-- execute one classified store whose source is a sub-range `[a, b)` of the input view -/
def exec (st : Store) (input : View) (c : Class) (a b : Nat) : Store × View :=
  match c with
  | .copyAppend => copyAppend st (alias input a b)
  | .fresh => fresh st (read st (alias input a b))
  | .alias => (st, alias input a b)

/-- run a decoder's footprint: a list of classified stores; returns the views held by the result's fields -/
def execAll (st : Store) (input : View) : List (Class × Nat × Nat) → Store × List View
  | [] => (st, [])
  | (c, a, b) :: rest =>
    let r := exec st input c a b
    let r2 := execAll r.1 input rest
    (r2.1, r.2 :: r2.2)

end Ike.Mem
