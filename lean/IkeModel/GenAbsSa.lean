import IkeModel.Security.Keys
import IkeModel.Ike
import IkeModel.GenAbs
import IkeModel.Generated.Gen_security
import IkeModel.Generated.Gen_ike

/-! Abstraction between the SA objects of the translated packages `security` and `ike`
(`Gen.security.IKESAKey`, `Gen.security.ChildSAKey`: descriptors are interface values of the translated registry
packages, `hash.Hash` objects are `Go.Mac`, cipher objects `Gen.encr.EncrAesCbcCrypto`) and the hand-written model's
`SAKey` / `ChildSAKey`.  `rep*` builds the generated object from the model's (used by `gendriver` and by the
refinement theorems), `abs*` reads it back. -/

namespace Ike.GenAbsSa
open Ike

def absMac (m : Go.Mac) : HashObj := ⟨m.h, m.key, m.buf⟩
def repMac (h : HashObj) : Go.Mac := { h := h.alg, key := h.key, buf := h.buf }

def absCipher (c : Gen.encr.EncrAesCbcCrypto) : CipherObj := ⟨c.Block⟩
def repCipher (c : CipherObj) : Gen.encr.EncrAesCbcCrypto := { Block := c.key, Iv := [], Padding := [] }

/-- descriptor objects; the transform identifiers are those the translated `TransformID` methods return -/
def absEncrInfo : Gen.encr.ENCRType → EncrInfo
  | .nil_ => ⟨0, 0⟩
  | .EncrAesCbc v => ⟨12, v.keyLength.toNat⟩

def repEncrInfo (e : EncrInfo) : Gen.encr.ENCRType := .EncrAesCbc ⟨(e.keyLen : Int)⟩

def absIntegInfo : Gen.integ.INTEGType → IntegInfo
  | .nil_ => ⟨0, 0, 0, 0⟩
  | .AuthHmacMd5_95 v => ⟨1, v.keyLength.toNat, v.outputLength.toNat, 0⟩
  | .AuthHmacSha1_96 v => ⟨2, v.keyLength.toNat, v.outputLength.toNat, 1⟩
  | .AuthHmacSha2_256_128 v => ⟨12, v.keyLength.toNat, v.outputLength.toNat, 2⟩

def repIntegInfo (i : IntegInfo) : Gen.integ.INTEGType :=
  if i.hash = 0 then .AuthHmacMd5_95 ⟨(i.keyLen : Int), (i.outLen : Int)⟩
  else if i.hash = 1 then .AuthHmacSha1_96 ⟨(i.keyLen : Int), (i.outLen : Int)⟩
  else .AuthHmacSha2_256_128 ⟨(i.keyLen : Int), (i.outLen : Int)⟩

def absPrfInfo : Gen.prf.PRFType → PrfInfo
  | .nil_ => ⟨0, 0, 0, 0⟩
  | .PrfHmacMd5 v => ⟨1, v.keyLength.toNat, v.outputLength.toNat, 0⟩
  | .PrfHmacSha1 v => ⟨2, v.keyLength.toNat, v.outputLength.toNat, 1⟩
  | .PrfHmacSha2_256 v => ⟨5, v.keyLength.toNat, v.outputLength.toNat, 2⟩

def repPrfInfo (p : PrfInfo) : Gen.prf.PRFType :=
  if p.hash = 0 then .PrfHmacMd5 ⟨(p.keyLen : Int), (p.outLen : Int)⟩
  else if p.hash = 1 then .PrfHmacSha1 ⟨(p.keyLen : Int), (p.outLen : Int)⟩
  else .PrfHmacSha2_256 ⟨(p.keyLen : Int), (p.outLen : Int)⟩

/-- the model's SA object has no DH descriptor: any non-nil one (the functions translated here only test it for nil) -/
def someDh : Gen.dh.DHType := .Dh1024BitModp {}

def absSa (k : Gen.security.IKESAKey) : SAKey :=
  { encrInfo := absEncrInfo k.EncrInfo, integInfo := absIntegInfo k.IntegInfo, prfInfo := absPrfInfo k.PrfInfo,
    prf_d := absMac k.Prf_d, integ_i := absMac k.Integ_i, integ_r := absMac k.Integ_r,
    encr_i := absCipher k.Encr_i, encr_r := absCipher k.Encr_r, prf_i := absMac k.Prf_i, prf_r := absMac k.Prf_r,
    sk_d := k.SK_d, sk_ai := k.SK_ai, sk_ar := k.SK_ar, sk_ei := k.SK_ei, sk_er := k.SK_er,
    sk_pi := k.SK_pi, sk_pr := k.SK_pr }

def repSa (s : SAKey) : Gen.security.IKESAKey :=
  { DhInfo := someDh, EncrInfo := repEncrInfo s.encrInfo, IntegInfo := repIntegInfo s.integInfo,
    PrfInfo := repPrfInfo s.prfInfo,
    Prf_d := repMac s.prf_d, Integ_i := repMac s.integ_i, Integ_r := repMac s.integ_r,
    Encr_i := repCipher s.encr_i, Encr_r := repCipher s.encr_r, Prf_i := repMac s.prf_i, Prf_r := repMac s.prf_r,
    SK_d := s.sk_d, SK_ai := s.sk_ai, SK_ar := s.sk_ar, SK_ei := s.sk_ei, SK_er := s.sk_er,
    SK_pi := s.sk_pi, SK_pr := s.sk_pr }

/-- an SA object as `GenerateKeyForIKESA` leaves it and as `ike.go` requires it: descriptors and objects non-nil,
the cipher objects without the test-only IV / padding -/
structure SaWF (k : Gen.security.IKESAKey) : Prop where
  encr : k.EncrInfo ≠ .nil_
  integ : k.IntegInfo ≠ .nil_
  prf : k.PrfInfo ≠ .nil_
  integ_i : Go.Mac.isNil k.Integ_i = false
  integ_r : Go.Mac.isNil k.Integ_r = false
  prf_d : Go.Mac.isNil k.Prf_d = false
  encr_i : k.Encr_i.Block ≠ [] ∧ k.Encr_i.Iv = [] ∧ k.Encr_i.Padding = []
  encr_r : k.Encr_r.Block ≠ [] ∧ k.Encr_r.Iv = [] ∧ k.Encr_r.Padding = []

/-- Child SA objects -/
def absEncrKLen : Gen.encr.ENCRKType → Nat
  | .nil_ => 0
  | .EncrAesCbc v => v.keyLength.toNat

def absIntegKLen : Gen.integ.INTEGKType → Option Nat
  | .nil_ => none
  | .AuthHmacMd5_95 v => some v.keyLength.toNat
  | .AuthHmacSha1_96 v => some v.keyLength.toNat
  | .AuthHmacSha2_256_128 v => some v.keyLength.toNat

def absChild (c : Gen.security.ChildSAKey) : ChildSAKey :=
  { encrKeyLen := absEncrKLen c.EncrKInfo, integKeyLen := absIntegKLen c.IntegKInfo,
    i2rEncr := c.InitiatorToResponderEncryptionKey, r2iEncr := c.ResponderToInitiatorEncryptionKey,
    i2rInteg := c.InitiatorToResponderIntegrityKey, r2iInteg := c.ResponderToInitiatorIntegrityKey }

def repChild (c : ChildSAKey) : Gen.security.ChildSAKey :=
  { EncrKInfo := .EncrAesCbc ⟨(c.encrKeyLen : Int)⟩,
    IntegKInfo := match c.integKeyLen with
      | none => .nil_
      | some n => .AuthHmacSha1_96 ⟨(n : Int), 12⟩,
    InitiatorToResponderEncryptionKey := c.i2rEncr, ResponderToInitiatorEncryptionKey := c.r2iEncr,
    InitiatorToResponderIntegrityKey := c.i2rInteg, ResponderToInitiatorIntegrityKey := c.r2iInteg }

end Ike.GenAbsSa
