import IkeModel.Eap
import IkeModel.Crypto.Prims

/-! `eap/eap.go: (*EAP).CalcEapAkaPrimeAtMAC` and `eap/eap_aka_prime.go: initMAC`.

The Go method works on the packet in place: it overwrites (or inserts) AT_MAC
with 16 zero octets, marshals the in-memory packet and returns the first 16
octets of HMAC-SHA-256 over those octets.  The model returns the packet as the
call leaves it together with the result. -/

namespace Ike

/-- `eapAkaPrime.initMAC()`: `SetAttr(AT_MAC, make([]byte, 16))` -/
def akaInitMac (a : Aka) : Res Aka := akaSetAttr a Facts.atMac (zeros 16)

/-- `eap.CalcEapAkaPrimeAtMAC(key)`.

* `eap.EapTypeData.Type()` on a nil interface panics (`fault`), packet untouched;
* a method other than EAP-AKA' is an error, packet untouched;
* otherwise AT_MAC is reset first; the packet keeps the zeroed AT_MAC whatever
  happens afterwards;
* hash number 2 of `Prims.mac` is SHA-256; `sum[:16]`. -/
def calcEapAkaPrimeAtMAC (P : Prims) (e : Eap) (key : Bytes) : Eap × Res Bytes :=
  match e.data with
  | .none => (e, .fault)
  | .aka a =>
    match akaInitMac a with
    | .ok a' =>
      let e' : Eap := { e with data := .aka a' }
      match marshalEap e' with
      | .ok eapBytes => (e', .ok ((P.mac 2 key eapBytes).take 16))
      | .err => (e', .err)
      | .fault => (e', .fault)
    | .err => (e, .err)
    | .fault => (e, .fault)
  | _ => (e, .err)

/-- receiver side as an application does it: `Unmarshal` into a fresh packet, then
`CalcEapAkaPrimeAtMAC` -/
def recvEapAkaPrimeAtMAC (P : Prims) (wire key : Bytes) : Res Bytes :=
  match unmarshalEap wire with
  | .ok e => (calcEapAkaPrimeAtMAC P e key).2
  | .err => .err
  | .fault => .fault

end Ike
