import IkeModel.Types
import IkeModel.Message.Header

/-! `message/build.go`: one function per builder.  A container
(`IKEPayloadContainer`, `ProposalContainer`, `TransformContainer`, …) is the
list of its elements; `*container = append(*container, x)` is `c ++ [x]`.
Builders that cannot fail return the new container; the others return
`Res`: `err` means the Go function returned an error *before* touching the
container (every error return in build.go precedes the append).

Byte-slice arguments are copied by the Go code with `append(nil, arg...)`; in
the model values are immutable, so "the payload does not change when the
caller later mutates its argument" is the value semantics itself.  The one
exception, `BuildDeletePayload`, stores the caller's `[]uint32`. -/

namespace Ike.Build

open Ike

/-- `Reset()` of any container -/
def reset {α : Type} (_ : List α) : List α := []

/-- `BuildNotification` -/
def buildNotification (c : List Payload) (proto : UInt8) (ntype : UInt16) (spi data : Bytes) : List Payload :=
  c ++ [.notify proto ntype spi data]

/-- `BuildCertificate` -/
def buildCertificate (c : List Payload) (enc : UInt8) (d : Bytes) : List Payload :=
  c ++ [.cert enc d]

/-- `BuildEncrypted` -/
def buildEncrypted (c : List Payload) (next : UInt8) (d : Bytes) : List Payload :=
  c ++ [.sk next d]

/-- `BUildKeyExchange` -/
def buildKeyExchange (c : List Payload) (group : UInt16) (d : Bytes) : List Payload :=
  c ++ [.ke group d]

/-- `BuildIdentificationInitiator` -/
def buildIdentificationInitiator (c : List Payload) (t : UInt8) (d : Bytes) : List Payload :=
  c ++ [.idi t d]

/-- `BuildIdentificationResponder` -/
def buildIdentificationResponder (c : List Payload) (t : UInt8) (d : Bytes) : List Payload :=
  c ++ [.idr t d]

/-- `BuildAuthentication` -/
def buildAuthentication (c : List Payload) (m : UInt8) (d : Bytes) : List Payload :=
  c ++ [.auth m d]

/-- `BuildConfiguration`: the new payload has no attributes yet -/
def buildConfiguration (c : List Payload) (ctype : UInt8) : List Payload :=
  c ++ [.cp ctype []]

/-- `ConfigurationAttributeContainer.BuildConfigurationAttribute` -/
def buildConfigurationAttribute (l : List CPAttr) (t : UInt16) (v : Bytes) : List CPAttr :=
  l ++ [⟨t, v⟩]

/-- `BuildNonce` -/
def buildNonce (c : List Payload) (d : Bytes) : List Payload :=
  c ++ [.nonce d]

/-- `BuildTrafficSelectorInitiator` -/
def buildTrafficSelectorInitiator (c : List Payload) : List Payload :=
  c ++ [.tsi []]

/-- `BuildTrafficSelectorResponder` -/
def buildTrafficSelectorResponder (c : List Payload) : List Payload :=
  c ++ [.tsr []]

/-- `IndividualTrafficSelectorContainer.BuildIndividualTrafficSelector` -/
def buildIndividualTrafficSelector (l : List TSel) (tstype proto : UInt8) (sport eport : UInt16)
    (saddr eaddr : Bytes) : List TSel :=
  l ++ [⟨tstype, proto, sport, eport, saddr, eaddr⟩]

/-- `BuildSecurityAssociation` -/
def buildSecurityAssociation (c : List Payload) : List Payload :=
  c ++ [.sa []]

/-- `ProposalContainer.BuildProposal` -/
def buildProposal (l : List Proposal) (num proto : UInt8) (spi : Bytes) : List Proposal :=
  l ++ [{ num := num, proto := proto, spi := spi, encr := [], prf := [], integ := [], dh := [], esn := [] }]

/-- `BuildDeletePayload` -/
def buildDeletePayload (c : List Payload) (proto spiSize : UInt8) (num : UInt16) (spis : List UInt32) : List Payload :=
  c ++ [.delete proto spiSize num spis]

/-- `TransformContainer.BuildTransform`; `atype`/`aval` are the two `*uint16`
arguments (`none` = nil).  An attribute type with neither a fixed nor a
non-empty variable-length value: the function returns without appending. -/
def buildTransform (l : List Transform) (ttype : UInt8) (tid : UInt16)
    (atype aval : Option UInt16) (vval : Bytes) : List Transform :=
  match atype with
  | some ty =>
    match aval with
    | some av =>
      l ++ [{ ttype := ttype, tid := tid, present := true, fmt := Facts.attrFormatTV, atype := ty, aval := av, vval := [] }]
    | none =>
      if vval.length != 0 then
        l ++ [{ ttype := ttype, tid := tid, present := true, fmt := Facts.attrFormatTLV, atype := ty, aval := 0, vval := vval }]
      else l
  | none =>
    l ++ [{ ttype := ttype, tid := tid, present := false, fmt := 0, atype := 0, aval := 0, vval := [] }]

/-- `BuildEAP` followed by the caller's `eap.EapTypeData = data` on the returned
element (which is the appended one); `BuildEAP` itself is `data = none`. -/
def buildEAPWith (c : List Payload) (code ident : UInt8) (data : EapData) : List Payload :=
  c ++ [.eap ⟨code, ident, data⟩]

/-- `BuildEAP` -/
def buildEAP (c : List Payload) (code ident : UInt8) : List Payload :=
  buildEAPWith c code ident .none

/-- `BuildEAPSuccess` -/
def buildEAPSuccess (c : List Payload) (ident : UInt8) : List Payload :=
  c ++ [.eap ⟨Facts.eapCodeSuccess, ident, .none⟩]

/-- `BuildEAPfailure` -/
def buildEAPfailure (c : List Payload) (ident : UInt8) : List Payload :=
  c ++ [.eap ⟨Facts.eapCodeFailure, ident, .none⟩]

/-- `BuildEapExpanded` -/
def buildEapExpanded (vid vtype : UInt32) (d : Bytes) : EapData := .expanded vid vtype d

/-- `BuildEAP5GStart` -/
def buildEAP5GStart (c : List Payload) (ident : UInt8) : List Payload :=
  buildEAPWith c Facts.eapCodeRequest ident
    (buildEapExpanded Facts.vendorId3GPP Facts.vendorTypeEAP5G [Facts.eap5GStart, Facts.eap5GSpare])

/-- `BuildEAP5GNAS` -/
def buildEAP5GNAS (c : List Payload) (ident : UInt8) (nas : Bytes) : Res (List Payload) :=
  if nas.length = 0 then .err else
  let header0 : Bytes := [Facts.eap5GNAS, 0]          -- make([]byte, 4), header[0] = message id
  if nas.length > 0xFFFF then .err else
  let header := header0 ++ put16 (UInt16.ofNat nas.length)
  let vendorData := header ++ nas
  .ok (buildEAPWith c Facts.eapCodeRequest ident
        (buildEapExpanded Facts.vendorId3GPP Facts.vendorTypeEAP5G vendorData))

/-- `BuildNotify5G_QOS_INFO` -/
def buildNotify5GQosInfo (c : List Payload) (pduSessionId : UInt8) (qfis : List UInt8)
    (isDefault isDSCPSpecified : Bool) (dscp : UInt8) : Res (List Payload) :=
  let d1 : Bytes := [0, pduSessionId]
  if qfis.length > 0xFF then .err else
  let d2 := d1 ++ [UInt8.ofNat qfis.length] ++ qfis
  let f1 : UInt8 := if isDefault then Facts.qosBitDCSI else 0
  let flags : UInt8 := if isDSCPSpecified then f1 ||| Facts.qosBitDSCPI else f1
  let d3 := d2 ++ [flags]
  let d4 := if isDSCPSpecified then d3 ++ [dscp] else d3
  if d4.length > 0xFF then .err else
  let d5 := UInt8.ofNat d4.length :: d4.drop 1         -- notifyData[0] = len
  .ok (buildNotification c Facts.protoNone Facts.notify5G_QOS_INFO [] d5)

/-- `BuildNotifyNAS_IP4_ADDRESS`; `addr = none` is the empty string, otherwise
the octets `net.ParseIP(s).To4()` returns (the standard library's parser is
trusted: 4 octets for a dotted quad, nil for anything that is not an IPv4
address). -/
def buildNotifyNasIp4Address (c : List Payload) (addr : Option Bytes) : List Payload :=
  match addr with
  | none => c
  | some a => buildNotification c Facts.protoNone Facts.notifyNAS_IP4_ADDRESS [] a

/-- `BuildNotifyUP_IP4_ADDRESS` -/
def buildNotifyUpIp4Address (c : List Payload) (addr : Option Bytes) : List Payload :=
  match addr with
  | none => c
  | some a => buildNotification c Facts.protoNone Facts.notifyUP_IP4_ADDRESS [] a

/-- `BuildNotifyNAS_TCP_PORT` -/
def buildNotifyNasTcpPort (c : List Payload) (port : UInt16) : List Payload :=
  if port == 0 then c
  else buildNotification c Facts.protoNone Facts.notifyNAS_TCP_PORT [] (put16 port)

/-- `NewMessage` -/
def newMessage (ispi rspi : UInt64) (exch : UInt8) (response initiator : Bool) (mid : UInt32)
    (payloads : List Payload) : Msg :=
  ⟨newHeader ispi rspi exch response initiator mid Facts.typeNoNext [], payloads⟩

end Ike.Build
