import IkeModel.Types

/-! Security Association payload: proposals ⊃ transforms ⊃ attribute
(`message/payload_securityassociation.go`). -/

set_option linter.unusedVariables false

namespace Ike

/-! ### Marshal -/

def marshalAttr (t : Transform) : Res Bytes :=
  if !t.present then .ok [] else
  let ft : UInt16 := (((t.fmt.toUInt16) &&& 1) <<< 15) ||| t.atype
  if t.fmt == 0 then
    if t.vval.length = 0 then .err else
    if t.vval.length > 0xFFFF then .err else
    .ok (put16 ft ++ put16 (UInt16.ofNat t.vval.length) ++ t.vval)
  else
    .ok (put16 ft ++ put16 t.aval)

/-- `last` ⇔ no further transform follows (last-substructure marker 0, else 3). -/
def marshalTransform (last : Bool) (t : Transform) : Res Bytes := do
  let a ← marshalAttr t
  let len := 8 + a.length
  if len > 0xFFFF then .err else
  .ok ([if last then 0 else 3, 0] ++ put16 (UInt16.ofNat len) ++ [t.ttype, 0] ++ put16 t.tid ++ a)

def marshalTransforms : List Transform → Res Bytes
  | [] => .ok []
  | t :: rest => do
    let h ← marshalTransform rest.isEmpty t
    let tl ← marshalTransforms rest
    .ok (h ++ tl)

def Proposal.transforms (p : Proposal) : List Transform :=
  p.encr ++ p.prf ++ p.integ ++ p.dh ++ p.esn

def marshalProposal (last : Bool) (p : Proposal) : Res Bytes :=
  if p.spi.length > 0xFF then .err else
  let ts := p.transforms
  if ts.length = 0 then .err else
  if ts.length > 0xFF then .err else do
    let td ← marshalTransforms ts
    let len := 8 + p.spi.length + td.length
    if len > 0xFFFF then .err else
    .ok ([if last then 0 else 2, 0] ++ put16 (UInt16.ofNat len) ++
         [p.num, p.proto, UInt8.ofNat p.spi.length, UInt8.ofNat ts.length] ++ p.spi ++ td)

def marshalProposals : List Proposal → Res Bytes
  | [] => .ok []
  | p :: rest => do
    let h ← marshalProposal rest.isEmpty p
    let tl ← marshalProposals rest
    .ok (h ++ tl)

def marshalSA (ps : List Proposal) : Res Bytes := marshalProposals ps

/-! ### Unmarshal -/

/-- one transform at the front of `td` (≥ 8 octets): the transform and its length -/
def parseTransform (td : Bytes) : Res (Transform × Nat) := do
  let tl ← goU16 td 2
  if tl < 8 then .err else
  if td.length < tl.toNat then .err else do
    let ttype ← goIndex td 4
    let tid ← goU16 td 6
    if tl > 8 then
      if tl < 12 then .err else do
        let b8 ← goIndex td 8
        let fmt := (b8 &&& 0x80) >>> 7
        let ft ← goU16 td 8
        let atype := ft &&& 0x7fff
        if fmt == 0 then do
          let al ← goU16 td 10
          if (12 + al) != tl then .err else do
            let v ← goSlice td 12 tl.toNat
            .ok (⟨ttype, tid, true, fmt, atype, 0, v⟩, tl.toNat)
        else do
          let av ← goU16 td 10
          .ok (⟨ttype, tid, true, fmt, atype, av, []⟩, tl.toNat)
    else
      .ok (⟨ttype, tid, false, 0, 0, 0, []⟩, tl.toNat)

/-- file a decoded transform under its type (types outside 1..5 are dropped) -/
def Proposal.file (p : Proposal) (t : Transform) : Proposal :=
  if t.ttype == Facts.ttEncr then { p with encr := p.encr ++ [t] }
  else if t.ttype == Facts.ttPrf then { p with prf := p.prf ++ [t] }
  else if t.ttype == Facts.ttInteg then { p with integ := p.integ ++ [t] }
  else if t.ttype == Facts.ttDh then { p with dh := p.dh ++ [t] }
  else if t.ttype == Facts.ttEsn then { p with esn := p.esn ++ [t] }
  else p

def unmarshalTransforms (td : Bytes) (p : Proposal) : Res Proposal :=
  if h0 : td.length = 0 then .ok p else
  if td.length < 8 then .err else
  match parseTransform td with
  | .ok (t, n) =>
    if hn : 0 < n ∧ n ≤ td.length then unmarshalTransforms (td.drop n) (p.file t) else .fault
  | .err => .err
  | .fault => .fault
termination_by td.length
decreasing_by simp only [List.length_drop]; omega

/-- one proposal at the front of `b` (≥ 8 octets) -/
def parseProposal (b : Bytes) : Res (Proposal × Nat) := do
  let pl ← goU16 b 2
  if pl < 8 then .err else
  if b.length < pl.toNat then .err else do
    let num ← goIndex b 4
    let proto ← goIndex b 5
    let s ← goIndex b 6
    let spiSize := s.toNat
    let spi ←
      if spiSize > 0 then
        if pl.toNat < 8 + spiSize then (.err : Res Bytes) else goSlice b 8 (8 + spiSize)
      else .ok []
    let td ← goSlice b (8 + spiSize) pl.toNat
    let p ← unmarshalTransforms td ⟨num, proto, spi, [], [], [], [], []⟩
    .ok (p, pl.toNat)

def unmarshalProposals (b : Bytes) : Res (List Proposal) :=
  if h0 : b.length = 0 then .ok [] else
  if b.length < 8 then .err else
  match parseProposal b with
  | .ok (p, n) =>
    if hn : 0 < n ∧ n ≤ b.length then
      match unmarshalProposals (b.drop n) with
      | .ok rest => .ok (p :: rest)
      | .err => .err
      | .fault => .fault
    else .fault
  | .err => .err
  | .fault => .fault
termination_by b.length
decreasing_by simp only [List.length_drop]; omega

def unmarshalSA (b : Bytes) : Res Payload := do
  let ps ← unmarshalProposals b
  .ok (.sa ps)

end Ike
