import IkeModel.Types

/-! Payload bodies with a flat layout: Marshal / Unmarshal transliterated from
`message/payload_*.go` (statement order and bounds checks kept; every Go index
or slice expression is a checked primitive). -/

set_option linter.unusedVariables false

namespace Ike

/-! ### KE -/

def marshalKE (group : UInt16) (d : Bytes) : Res Bytes :=
  .ok (put16 group ++ [0, 0] ++ d)

def unmarshalKE (b : Bytes) : Res Payload :=
  if b.length ≤ 4 then .err else do
    let g ← goU16 b 0
    let d ← goFrom b 4
    .ok (.ke g d)

/-! ### IDi / IDr / AUTH : one type octet, three reserved octets, data -/

def marshalT4 (t : UInt8) (d : Bytes) : Res Bytes := .ok ([t, 0, 0, 0] ++ d)

def unmarshalT4 (mk : UInt8 → Bytes → Payload) (b : Bytes) : Res Payload :=
  if b.length ≤ 4 then .err else do
    let t ← goIndex b 0
    let d ← goFrom b 4
    .ok (mk t d)

/-! ### CERT / CERTREQ : one encoding octet, data -/

def marshalT1 (t : UInt8) (d : Bytes) : Res Bytes := .ok ([t] ++ d)

def unmarshalT1 (mk : UInt8 → Bytes → Payload) (b : Bytes) : Res Payload :=
  if b.length ≤ 1 then .err else do
    let t ← goIndex b 0
    let d ← goFrom b 1
    .ok (mk t d)

/-! ### Nonce / Vendor ID / SK -/

def marshalRaw (d : Bytes) : Res Bytes := .ok d

def marshalSK (d : Bytes) : Res Bytes := if d.length = 0 then .err else .ok d

/-! ### Notify -/

def marshalNotify (proto : UInt8) (ntype : UInt16) (spi d : Bytes) : Res Bytes :=
  if spi.length > 0xFF then .err
  else .ok ([proto, UInt8.ofNat spi.length] ++ put16 ntype ++ spi ++ d)

def unmarshalNotify (b : Bytes) : Res Payload :=
  if b.length = 0 then .ok (.notify 0 0 [] []) else
  if b.length < 4 then .err else do
    let s ← goIndex b 1
    let spiSize := s.toNat
    if b.length < 4 + spiSize then .err else do
      let proto ← goIndex b 0
      let nt ← goU16 b 2
      let spi ← goSlice b 4 (4 + spiSize)
      let d ← goFrom b (4 + spiSize)
      .ok (.notify proto nt spi d)

/-! ### Delete -/

/-- `PutUint32(byteSlice, v)` into a `make([]byte, SPISize)` buffer that is reused
for every SPI: a fault when the buffer is shorter than 4 octets. -/
def marshalDeleteSPIs (spiSize : Nat) : List UInt32 → Res Bytes
  | [] => .ok []
  | v :: rest =>
    if spiSize < 4 then .fault else do
      let tl ← marshalDeleteSPIs spiSize rest
      .ok (put32 v ++ zeros (spiSize - 4) ++ tl)

def marshalDelete (proto spiSize : UInt8) (num : UInt16) (spis : List UInt32) : Res Bytes :=
  if spis.length ≠ num.toNat then .err else do
    let body ← if num.toNat > 0 then marshalDeleteSPIs spiSize.toNat spis else .ok []
    .ok ([proto, spiSize] ++ put16 num ++ body)

/-- the SPI loop `for i := 0; i < 4*numberOfSPI; i += 4 { Uint32(b[i:i+4]) }` (a fault if `b` is too short) -/
def deleteSPIs : Nat → Bytes → Res (List UInt32)
  | 0, _ => .ok []
  | n + 1, b0 :: b1 :: b2 :: b3 :: rest =>
    match deleteSPIs n rest with
    | .ok l => .ok (be32 b0 b1 b2 b3 :: l)
    | .err => .err
    | .fault => .fault
  | _ + 1, _ => .fault

def unmarshalDelete (b : Bytes) : Res Payload :=
  if b.length = 0 then .ok (.delete 0 0 0 []) else
  if b.length ≤ 3 then .err else do
    let spiSize ← goIndex b 1
    let num ← goU16 b 2
    if b.length < 4 + spiSize.toNat * num.toNat then .err else
    if num.toNat > 0 && spiSize != 4 then .err else do
      let proto ← goIndex b 0
      let rest ← goFrom b 4
      let spis ← deleteSPIs num.toNat rest
      .ok (.delete proto spiSize num spis)

/-! ### Configuration -/

def marshalCPAttrs : List CPAttr → Res Bytes
  | [] => .ok []
  | a :: rest =>
    if a.value.length > 0xFFFF then .err else do
      let tl ← marshalCPAttrs rest
      .ok (put16 (a.atype &&& 0x7fff) ++ put16 (UInt16.ofNat a.value.length) ++ a.value ++ tl)

def marshalCP (ctype : UInt8) (attrs : List CPAttr) : Res Bytes := do
  let body ← marshalCPAttrs attrs
  .ok ([ctype, 0, 0, 0] ++ body)

/-- one attribute at the front of `d` (≥ 4 octets): value and total consumed length -/
def parseCPAttr (d : Bytes) : Res (CPAttr × Nat) := do
  let len ← goU16 d 2
  if d.length < 4 + len.toNat then .err else do
    let ty ← goU16 d 0
    let v ← goSlice d 4 (4 + len.toNat)
    .ok (⟨ty &&& 0x7fff, v⟩, 4 + len.toNat)

def unmarshalCPAttrs (d : Bytes) : Res (List CPAttr) :=
  if h0 : d.length = 0 then .ok [] else
  if d.length < 4 then .err else
  match parseCPAttr d with
  | .ok (a, n) =>
    if hn : 0 < n ∧ n ≤ d.length then
      match unmarshalCPAttrs (d.drop n) with
      | .ok rest => .ok (a :: rest)
      | .err => .err
      | .fault => .fault
    else .fault
  | .err => .err
  | .fault => .fault
termination_by d.length
decreasing_by simp only [List.length_drop]; omega

def unmarshalCP (b : Bytes) : Res Payload :=
  if b.length ≤ 4 then .err else do
    let ct ← goIndex b 0
    let d ← goFrom b 4
    let attrs ← unmarshalCPAttrs d
    .ok (.cp ct attrs)

/-! ### Traffic selectors -/

def marshalTSel (t : TSel) : Res Bytes :=
  if t.tstype == Facts.tsIPv4 then
    if t.saddr.length ≠ 4 then .err else if t.eaddr.length ≠ 4 then .err
    else .ok ([t.tstype, t.proto] ++ put16 16 ++ put16 t.sport ++ put16 t.eport ++ t.saddr ++ t.eaddr)
  else if t.tstype == Facts.tsIPv6 then
    if t.saddr.length ≠ 16 then .err else if t.eaddr.length ≠ 16 then .err
    else .ok ([t.tstype, t.proto] ++ put16 40 ++ put16 t.sport ++ put16 t.eport ++ t.saddr ++ t.eaddr)
  else .err

def marshalTSels : List TSel → Res Bytes
  | [] => .ok []
  | t :: rest => do
    let h ← marshalTSel t
    let tl ← marshalTSels rest
    .ok (h ++ tl)

def marshalTS (l : List TSel) : Res Bytes :=
  if l.length = 0 then .err else
  if l.length > 0xFF then .err else do
    let body ← marshalTSels l
    .ok ([UInt8.ofNat l.length, 0, 0, 0] ++ body)

/-- one selector at the front of `b` (≥ 4 octets) -/
def parseTSel (b : Bytes) : Res (TSel × Nat) := do
  let ty ← goIndex b 0
  if ty == Facts.tsIPv4 then do
    let sl ← goU16 b 2
    if sl != 16 then .err else
    if b.length < sl.toNat then .err else do
      let proto ← goIndex b 1
      let sp ← goU16 b 4
      let ep ← goU16 b 6
      let sa ← goSlice b 8 12
      let ea ← goSlice b 12 16
      .ok (⟨ty, proto, sp, ep, sa, ea⟩, 16)
  else if ty == Facts.tsIPv6 then do
    let sl ← goU16 b 2
    if sl != 40 then .err else
    if b.length < sl.toNat then .err else do
      let proto ← goIndex b 1
      let sp ← goU16 b 4
      let ep ← goU16 b 6
      let sa ← goSlice b 8 24
      let ea ← goSlice b 24 40
      .ok (⟨ty, proto, sp, ep, sa, ea⟩, 40)
  else .err

/-- the `for ; numberOfSPI > 0; numberOfSPI--` loop -/
def unmarshalTSels : Nat → Bytes → Res (List TSel)
  | 0, _ => .ok []
  | n + 1, b =>
    if b.length < 4 then .err else
    match parseTSel b with
    | .ok (t, k) =>
      if k ≤ b.length then
        match unmarshalTSels n (b.drop k) with
        | .ok rest => .ok (t :: rest)
        | .err => .err
        | .fault => .fault
      else .fault
    | .err => .err
    | .fault => .fault

def unmarshalTS (mk : List TSel → Payload) (b : Bytes) : Res Payload :=
  if b.length = 0 then .ok (mk []) else
  if b.length < 4 then .err else do
    let n ← goIndex b 0
    let rest ← goFrom b 4
    let l ← unmarshalTSels n.toNat rest
    .ok (mk l)

end Ike
