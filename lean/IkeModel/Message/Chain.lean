import IkeModel.Message.Payloads
import IkeModel.Message.SA
import IkeModel.Message.Header
import IkeModel.Eap

/-! `message/message.go`: payload dispatch, the payload container (chain of
generic payload headers) and whole messages. -/

set_option linter.unusedVariables false

namespace Ike

/-- `payload.Marshal()` -/
def marshalPayload : Payload → Res Bytes
  | .sa ps => marshalSA ps
  | .ke g d => marshalKE g d
  | .idi t d => marshalT4 t d
  | .idr t d => marshalT4 t d
  | .cert e d => marshalT1 e d
  | .certreq e d => marshalT1 e d
  | .auth m d => marshalT4 m d
  | .nonce d => marshalRaw d
  | .notify p t s d => marshalNotify p t s d
  | .delete p s n l => marshalDelete p s n l
  | .vendor d => marshalRaw d
  | .tsi l => marshalTS l
  | .tsr l => marshalTS l
  | .sk _ d => marshalSK d
  | .cp t a => marshalCP t a
  | .eap e => marshalEap e

/-- is `t` one of the 16 payload types the container decodes? -/
def knownType (t : UInt8) : Bool :=
  t == Facts.typeSA || t == Facts.typeKE || t == Facts.typeIDi || t == Facts.typeIDr ||
  t == Facts.typeCERT || t == Facts.typeCERTreq || t == Facts.typeAUTH || t == Facts.typeNiNr ||
  t == Facts.typeN || t == Facts.typeD || t == Facts.typeV || t == Facts.typeTSi ||
  t == Facts.typeTSr || t == Facts.typeSK || t == Facts.typeCP || t == Facts.typeEAP

/-- `payload.Unmarshal(body)` for the payload struct selected by type `t`;
`nextOfSK` is `b[0]` of the generic header, stored in an Encrypted payload. -/
def unmarshalPayload (t : UInt8) (nextOfSK : UInt8) (body : Bytes) : Res Payload :=
  if t == Facts.typeSA then unmarshalSA body
  else if t == Facts.typeKE then unmarshalKE body
  else if t == Facts.typeIDi then unmarshalT4 .idi body
  else if t == Facts.typeIDr then unmarshalT4 .idr body
  else if t == Facts.typeCERT then unmarshalT1 .cert body
  else if t == Facts.typeCERTreq then unmarshalT1 .certreq body
  else if t == Facts.typeAUTH then unmarshalT4 .auth body
  else if t == Facts.typeNiNr then .ok (.nonce body)
  else if t == Facts.typeN then unmarshalNotify body
  else if t == Facts.typeD then unmarshalDelete body
  else if t == Facts.typeV then .ok (.vendor body)
  else if t == Facts.typeTSi then unmarshalTS .tsi body
  else if t == Facts.typeTSr then unmarshalTS .tsr body
  else if t == Facts.typeSK then .ok (.sk nextOfSK body)
  else if t == Facts.typeCP then unmarshalCP body
  else if t == Facts.typeEAP then (do let e ← unmarshalEap body; .ok (.eap e))
  else .err

/-- the next-payload octet written in front of `p`: the type of the payload that
follows, or for the last payload 0 — except for an Encrypted payload, whose own
NextPayload field (type of the first inner payload) is written. -/
def nextField (p : Payload) (rest : List Payload) : UInt8 :=
  match rest with
  | q :: _ => q.typeCode
  | [] => match p with
          | .sk n _ => n
          | _ => Facts.typeNoNext

/-- `IKEPayloadContainer.Encode` -/
def encodeChain : List Payload → Res Bytes
  | [] => .ok []
  | p :: rest => do
    let next : UInt8 := nextField p rest
    let data ← marshalPayload p
    let len := 4 + data.length
    if len > 0xFFFF then .err else do
      let tl ← encodeChain rest
      .ok ([next, 0] ++ put16 (UInt16.ofNat len) ++ data ++ tl)

/-- one step of the container walk on a non-empty `b`: either a decoded payload
or a skipped one, with the next type and the number of octets consumed. -/
def chainStep (t : UInt8) (b : Bytes) : Res (Option Payload × UInt8 × Nat) :=
  if b.length < 4 then .err else do
    let pl ← goU16 b 2
    if pl < 4 then .err else
    if b.length < pl.toNat then .err else do
      let fl ← goIndex b 1
      let critical := (fl &&& 0x80) >>> 7
      let next ← goIndex b 0
      if knownType t then
        -- `case TypeSK`: an Encrypted payload must be the last payload
        if t == Facts.typeSK && b.length ≠ pl.toNat then .err else do
        let body ← goSlice b 4 pl.toNat
        let p ← unmarshalPayload t next body
        .ok (some p, next, pl.toNat)
      else if critical == 0 then .ok (none, next, pl.toNat)
      else .err

/-- `IKEPayloadContainer.Decode(nextPayload, b)` on an empty container -/
def decodeChain (t : UInt8) (b : Bytes) : Res (List Payload) :=
  if h0 : b.length = 0 then .ok [] else
  match chainStep t b with
  | .ok (op, next, n) =>
    if hn : 0 < n ∧ n ≤ b.length then
      match decodeChain next (b.drop n) with
      | .ok rest => .ok (match op with | some p => p :: rest | none => rest)
      | .err => .err
      | .fault => .fault
    else .fault
  | .err => .err
  | .fault => .fault
termination_by b.length
decreasing_by simp only [List.length_drop]; omega

/-- type of the first payload, `NoNext` for an empty list -/
def firstType : List Payload → UInt8
  | p :: _ => p.typeCode
  | [] => Facts.typeNoNext

/-- `IKEMessage.Encode`: returns the datagram and the header as updated by the call -/
def encodeMsg (m : Msg) : Res (Bytes × Header) := do
  let next : UInt8 := firstType m.payloads
  let pb ← encodeChain m.payloads
  let h := { m.hdr with next := next, payloadBytes := pb }
  let bs ← marshalHeader h
  .ok (bs, h)

/-- `IKEMessage.Decode` -/
def decodeMsg (b : Bytes) : Res Msg := do
  let h ← parseHeader b
  let ps ← decodeChain h.next h.payloadBytes
  .ok ⟨h, ps⟩

end Ike
