import IkeModel.Types

/-! `message/header.go` -/

namespace Ike

/-- `IKEHeader.Marshal` -/
def marshalHeader (h : Header) : Res Bytes :=
  let total := Facts.ikeHeaderLen + h.payloadBytes.length
  if total > 0xFFFFFFFF then .err else
  .ok (put64 h.ispi ++ put64 h.rspi ++
       [h.next, (h.major <<< 4) ||| (h.minor &&& 0x0F), h.exch, h.flags] ++
       put32 h.mid ++ put32 (UInt32.ofNat total) ++ h.payloadBytes)

/-- `ParseHeader` -/
def parseHeader (b : Bytes) : Res Header :=
  if b.length < Facts.ikeHeaderLen then .err else do
    let total ← goU32 b 24
    if total < UInt32.ofNat Facts.ikeHeaderLen then .err else do
      let ispi ← goU64 b 0
      let rspi ← goU64 b 8
      let np ← goIndex b 16
      let v ← goIndex b 17
      let ex ← goIndex b 18
      let fl ← goIndex b 19
      let mid ← goU32 b 20
      let pb ← goFrom b Facts.ikeHeaderLen
      .ok { ispi := ispi, rspi := rspi, major := v >>> 4, minor := v &&& 0x0F, exch := ex, flags := fl,
            mid := mid, next := np, payloadBytes := pb }

/-- `NewHeader` -/
def newHeader (ispi rspi : UInt64) (exch : UInt8) (response initiator : Bool) (mid : UInt32)
    (next : UInt8) (pb : Bytes) : Header :=
  { ispi := ispi, rspi := rspi, major := 2, minor := 0, exch := exch,
    flags := (if response then Facts.responseBit else 0) ||| (if initiator then Facts.initiatorBit else 0),
    mid := mid, next := next, payloadBytes := pb }

def Header.isResponse (h : Header) : Bool := (h.flags &&& Facts.responseBit) != 0
def Header.isInitiator (h : Header) : Bool := (h.flags &&& Facts.initiatorBit) != 0

end Ike
