import IkeModel.Crypto.Prims

/-! `eap.EapAkaPrimePRF` (eap/eap_aka_prime.go): PRF' of RFC 5448 / RFC 9048 §3.4.1
and the five key slices.  HMAC-SHA-256 is `P.mac 2`. -/

namespace Ike

/-- `[]byte("EAP-AKA'")` -/
def akaLabel : Bytes := [0x45, 0x41, 0x50, 0x2d, 0x41, 0x4b, 0x41, 0x27]

/-- `const prfRounds = 208/32 + 1` -/
def akaPrfRounds : Nat := 208 / 32 + 1

/-- the `for i := 0; i < prfRounds; i++` loop; arguments: rounds left, `i`, `MK`, `prev` -/
def akaPrfLoop (P : Prims) (key sBase : Bytes) : Nat → Nat → Bytes → Bytes → Bytes
  | 0, _, mk, _ => mk
  | n + 1, i, mk, prev =>
    let hexNum := UInt8.ofNat (i + 1)
    let sBaseWithNum := sBase ++ [hexNum]
    let s := prev ++ sBaseWithNum
    let sha := P.mac 2 key s
    akaPrfLoop P key sBase n (i + 1) (mk ++ sha) sha

structure AkaKeys where
  kEncr : Bytes
  kAut  : Bytes
  kRe   : Bytes
  msk   : Bytes
  emsk  : Bytes
deriving DecidableEq, Repr, Inhabited

/-- `EapAkaPrimePRF(ikPrime, ckPrime, identity)`; `identity` is the octet content of the Go string -/
def akaPrf (P : Prims) (ik ck identity : Bytes) : Res AkaKeys :=
  if ik.length = 0 || ck.length = 0 then .err else
  let key := ik ++ ck
  let sBase := akaLabel ++ identity
  let mk := akaPrfLoop P key sBase akaPrfRounds 0 [] []
  if mk.length < 208 then .err else do
    let kEncr ← goSlice mk 0 16
    let kAut ← goSlice mk 16 48
    let kRe ← goSlice mk 48 80
    let msk ← goSlice mk 80 144
    let emsk ← goSlice mk 144 208
    pure ⟨kEncr, kAut, kRe, msk, emsk⟩

end Ike
