import IkeModel.Generated.Gen_eap
import IkeModel.Eap

/-! Abstraction between the types generated from `eap/*.go` (`Ike.Gen.eap.*`) and the value types
of the hand-written model.  The Go map of EAP-AKA' attributes (insertion-ordered association list in
the generated code; Go's iteration order is unspecified and `Marshal` sorts the keys) is abstracted
to the model's list sorted by attribute type. -/

namespace Ike.GenAbs
open Ike

def absAkaAttr (a : Gen.eap.EapAkaPrimeAttr) : AkaAttr := ⟨a.attrType, a.length_, a.reserved, a.value⟩

def repAkaAttr (a : AkaAttr) : Gen.eap.EapAkaPrimeAttr :=
  { attrType := a.atype, length_ := a.length, reserved := a.reserved, value := a.value }

def absAkaEntries (l : List (UInt8 × Gen.eap.EapAkaPrimeAttr)) : List AkaAttr :=
  l.foldl (fun acc p => akaInsert acc (absAkaAttr p.2)) []

def absAka (g : Gen.eap.EapAkaPrime) : Aka :=
  ⟨g.subType, g.reserved, absAkaEntries (Go.mapEntries g.attributes)⟩

def repAka (a : Aka) : Gen.eap.EapAkaPrime :=
  { subType := a.subtype, reserved := a.reserved, attributes := some (a.attrs.map (fun x => (x.atype, repAkaAttr x))) }

/-- the invariant of the attribute map: every entry is stored under its own type, keys are unique -/
def AkaWF (g : Gen.eap.EapAkaPrime) : Prop :=
  (∀ p ∈ Go.mapEntries g.attributes, p.1 = p.2.attrType) ∧ ((Go.mapEntries g.attributes).map (·.1)).Nodup

def absEapData : Gen.eap.EapTypeData → EapData
  | .nil_ => .none
  | .EapAkaPrime v => .aka (absAka v)
  | .EapExpanded v => .expanded v.VendorID v.VendorType v.VendorData
  | .EapIdentity v => .identity v.IdentityData
  | .EapNak v => .nak v.NakData
  | .EapNotification v => .notification v.NotificationData

def repEapData : EapData → Gen.eap.EapTypeData
  | .none => .nil_
  | .aka a => .EapAkaPrime (repAka a)
  | .expanded vid vt d => .EapExpanded { VendorID := vid, VendorType := vt, VendorData := d }
  | .identity d => .EapIdentity { IdentityData := d }
  | .nak d => .EapNak { NakData := d }
  | .notification d => .EapNotification { NotificationData := d }

def absEap (e : Gen.eap.EAP) : Eap := ⟨e.Code, e.Identifier, absEapData e.EapTypeData⟩
def repEap (e : Eap) : Gen.eap.EAP := { Code := e.code, Identifier := e.ident, EapTypeData := repEapData e.data }

end Ike.GenAbs
