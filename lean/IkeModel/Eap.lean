import IkeModel.Types

/-! `eap/*.go`: EAP packet, Identity / Notification / Nak / Expanded methods and
EAP-AKA' (attribute map, SetAttr / GetAttr / Marshal / Unmarshal).  The Go map
is an association list sorted by attribute type with unique keys; `Marshal`
iterates the sorted keys, so the list order *is* the emission order. -/

set_option linter.unusedVariables false

namespace Ike

/-! ### EAP-AKA' attribute map -/

/-- `attributes[a.atype] = a` -/
def akaInsert : List AkaAttr → AkaAttr → List AkaAttr
  | [], a => [a]
  | x :: rest, a =>
    if a.atype < x.atype then a :: x :: rest
    else if a.atype == x.atype then a :: rest
    else x :: akaInsert rest a

def akaLookup : List AkaAttr → UInt8 → Option AkaAttr
  | [], _ => none
  | x :: rest, t => if x.atype == t then some x else akaLookup rest t

/-- `attr.setAttr(attrType, value)` -/
def akaMkAttr (t : UInt8) (v : Bytes) : Res AkaAttr :=
  if t == Facts.atMac || t == Facts.atRand || t == Facts.atAutn then
    if v.length ≠ 16 then .err else .ok ⟨t, UInt8.ofNat ((1 + 1 + 2 + v.length) / 4), 0, v⟩
  else if t == Facts.atKdfInput || t == Facts.atRes then
    let bits := v.length * 8
    if t == Facts.atRes && (bits > 128 || bits < 32) then .err else
    let total := 1 + 1 + 2 + v.length
    let pad := (4 - (total % 4)) % 4
    .ok ⟨t, UInt8.ofNat ((total + pad) / 4), UInt16.ofNat bits, v⟩
  else if t == Facts.atKdf then
    if v.length ≠ 2 then .err else .ok ⟨t, 1, 0, v⟩
  else if t == Facts.atCheckcode then
    .ok ⟨t, UInt8.ofNat ((1 + 1 + 2 + v.length) / 4), 0, v⟩
  else .err

/-- `SetAttr` -/
def akaSetAttr (a : Aka) (t : UInt8) (v : Bytes) : Res Aka := do
  let na ← akaMkAttr t v
  .ok { a with attrs := akaInsert a.attrs na }

/-- `GetAttr(...).GetValue()` -/
def akaGetAttr (a : Aka) (t : UInt8) : Res Bytes :=
  match akaLookup a.attrs t with
  | some x => .ok x.value
  | none => .err

def marshalAkaAttr (x : AkaAttr) : Bytes :=
  [x.atype, x.length] ++ (if x.atype != Facts.atKdf then put16 x.reserved else []) ++ x.value ++
  (if x.atype == Facts.atRes || x.atype == Facts.atKdfInput
   then zeros (4 * x.length.toNat - 4 - x.value.length) else [])

def marshalAkaAttrs : List AkaAttr → Bytes
  | [] => []
  | x :: rest => marshalAkaAttr x ++ marshalAkaAttrs rest

/-- `EapAkaPrime.Marshal` -/
def marshalAka (a : Aka) : Res Bytes :=
  .ok ([Facts.eapTypeAkaPrime, a.subtype] ++ put16 a.reserved ++ marshalAkaAttrs a.attrs)

/-- `io.ReadFull(bufReader, make([]byte, n))`: `none` when fewer than `n` octets remain -/
def readN (r : Bytes) (n : Nat) : Option (Bytes × Bytes) :=
  if n ≤ r.length then some (r.take n, r.drop n) else none

/-- one attribute whose type and length octets are `t`, `len`; `r` = what follows.
Returns the attribute and the number of octets of `r` consumed. -/
def parseAkaBody (t len : UInt8) (r : Bytes) : Res (AkaAttr × Nat) :=
  if t == Facts.atMac || t == Facts.atRand || t == Facts.atAutn then
    if len != 5 then .err else
    match readN r 2 with
    | none => .err
    | some (_, r1) =>
      -- 4*length-1-1-2 in uint8 = 16 here
      match readN r1 16 with
      | none => .err
      | some (v, _) => .ok (⟨t, len, 0, v⟩, 18)
  else if t == Facts.atKdfInput || t == Facts.atRes then
    match readN r 2 with
    | none => .err
    | some (rs, r1) =>
      let bits := be16 (byteAt rs 0) (byteAt rs 1)
      let vlen : UInt16 := bits / 8
      let total : UInt16 := len.toUInt16 * 4
      if total < vlen + 4 then .err else
      let pad : UInt16 := total - vlen - 4
      match readN r1 vlen.toNat with
      | none => .err
      | some (v, r2) =>
        if pad > 0 then
          match readN r2 pad.toNat with
          | none => .err
          | some _ => .ok (⟨t, len, bits, v⟩, 2 + vlen.toNat + pad.toNat)
        else .ok (⟨t, len, bits, v⟩, 2 + vlen.toNat)
  else if t == Facts.atKdf then
    let vlen : UInt8 := 4 * len - 1 - 1
    match readN r vlen.toNat with
    | none => .err
    | some (v, _) => .ok (⟨t, len, 0, v⟩, vlen.toNat)
  else
    if len == 0 then .err else
    match readN r 2 with
    | none => .err
    | some (rs, r1) =>
      let vlen := 4 * len.toNat - 4
      match readN r1 vlen with
      | none => .err
      | some (v, _) => .ok (⟨t, len, be16 (byteAt rs 0) (byteAt rs 1), v⟩, 2 + vlen)

/-- the attribute loop of `EapAkaPrime.Unmarshal` -/
def unmarshalAkaAttrs (r : Bytes) (acc : List AkaAttr) : Res (List AkaAttr) :=
  match h : r with
  | [] => .ok acc                       -- EOF reading the type
  | [_] => .ok acc                      -- EOF reading the length: a lone type octet is ignored
  | t :: len :: body =>
    match parseAkaBody t len body with
    | .ok (a, n) =>
      if hn : n ≤ body.length then unmarshalAkaAttrs (body.drop n) (akaInsert acc a) else .fault
    | .err => .err
    | .fault => .fault
termination_by r.length
decreasing_by subst h; simp only [List.length_drop, List.length_cons]; omega

/-- `EapAkaPrime.Unmarshal` on a fresh object -/
def unmarshalAka (raw : Bytes) : Res Aka :=
  if raw.length < 4 then .err else do
    let code ← goIndex raw 0
    if code != Facts.eapTypeAkaPrime then .err else do
      let st ← goIndex raw 1
      let rs ← goU16 raw 2
      let rest ← goFrom raw 4
      let attrs ← unmarshalAkaAttrs rest []
      .ok ⟨st, rs, attrs⟩

/-! ### EAP methods -/

def marshalEapData : EapData → Res Bytes
  | .none => .ok []
  | .identity d => if d.length = 0 then .err else .ok ([Facts.eapTypeIdentity] ++ d)
  | .notification d => if d.length = 0 then .err else .ok ([Facts.eapTypeNotification] ++ d)
  | .nak d => if d.length = 0 then .err else .ok ([Facts.eapTypeNak] ++ d)
  | .expanded vid vt d =>
    .ok (put32 ((Facts.eapTypeExpanded.toUInt32 <<< 24) ||| (vid &&& 0x00ffffff)) ++ put32 vt ++ d)
  | .aka a => marshalAka a

/-- Identity / Notification / Nak `.Unmarshal` -/
def unmarshalSimple (code : UInt8) (mk : Bytes → EapData) (b : Bytes) : Res EapData :=
  if b.length > 1 then do
    let t ← goIndex b 0
    if t != code then .err else do
      let d ← goFrom b 1
      .ok (mk d)
  else .ok (mk [])

def unmarshalExpanded (b : Bytes) : Res EapData :=
  if b.length = 0 then .ok (.expanded 0 0 []) else
  if b.length < 8 then .err else do
    let tv ← goU32 b 0
    let vt ← goU32 b 4
    let d ← if b.length > 8 then goFrom b 8 else .ok []
    .ok (.expanded (tv &&& 0x00ffffff) vt d)

/-! ### EAP packet -/

/-- `EAP.Marshal` (the 16-bit length silently wraps, as in Go) -/
def marshalEap (e : Eap) : Res Bytes := do
  let td ← marshalEapData e.data
  .ok ([e.code, e.ident] ++ put16 (UInt16.ofNat (4 + td.length)) ++ td)

/-- `EAP.Unmarshal` on a fresh object -/
def unmarshalEap (b : Bytes) : Res Eap :=
  if b.length = 0 then .ok ⟨0, 0, .none⟩ else
  if b.length < 4 then .err else do
    let pl ← goU16 b 2
    if pl < 4 then .err else
    if b.length ≠ pl.toNat then .err else do
      let code ← goIndex b 0
      let ident ← goIndex b 1
      if pl == 4 then .ok ⟨code, ident, .none⟩ else do
        let ty ← goIndex b 4
        let body ← goFrom b 4
        let d ←
          if ty == Facts.eapTypeIdentity then unmarshalSimple Facts.eapTypeIdentity .identity body
          else if ty == Facts.eapTypeNotification then unmarshalSimple Facts.eapTypeNotification .notification body
          else if ty == Facts.eapTypeNak then unmarshalSimple Facts.eapTypeNak .nak body
          else if ty == Facts.eapTypeAkaPrime then (do let a ← unmarshalAka body; .ok (.aka a))
          else if ty == Facts.eapTypeExpanded then unmarshalExpanded body
          else .err
        .ok ⟨code, ident, d⟩

end Ike
