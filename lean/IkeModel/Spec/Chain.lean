import IkeModel.Message.Chain

/-! RFC 7296 §3.2 — the chain of generic payload headers, written from the RFC
figure, with the liberties a sender has: any value in the 7 reserved bits, the
critical bit on payloads the receiver understands, and payloads of types this
library does not implement (which a receiver must skip when their critical
bit is clear and must reject otherwise).

    1 octet  Next Payload | 1 bit C, 7 bits RESERVED | 2 octets Payload Length | body
-/

namespace Ike.Spec

/-- one element of a payload chain as a sender may emit it -/
inductive Item where
  /-- a payload of an implemented type with the sender's choice of flag octet -/
  | known (p : Payload) (flags : UInt8)
  /-- a payload of a type this library does not implement -/
  | unknown (t : UInt8) (flags : UInt8) (body : Bytes)

def Item.type : Item → UInt8
  | .known p _ => p.typeCode
  | .unknown t _ _ => t

def Item.flags : Item → UInt8
  | .known _ f => f
  | .unknown _ f _ => f

def Item.body : Item → Res Bytes
  | .known p _ => marshalPayload p
  | .unknown _ _ b => .ok b

def Item.critical (i : Item) : Bool := (i.flags &&& 0x80) != 0

/-- type of the first item, 0 for the empty chain -/
def firstItemType : List Item → UInt8
  | i :: _ => i.type
  | [] => 0

/-- the chain on the wire -/
def encodeItems : List Item → Res Bytes
  | [] => .ok []
  | i :: rest => do
    let body ← i.body
    if 4 + body.length > 0xFFFF then .err else do
      let tl ← encodeItems rest
      .ok ([firstItemType rest, i.flags] ++ put16 (UInt16.ofNat (4 + body.length)) ++ body ++ tl)

/-- the payloads a receiver is expected to obtain -/
def knownPayloads : List Item → List Payload
  | [] => []
  | .known p _ :: rest => p :: knownPayloads rest
  | .unknown _ _ _ :: rest => knownPayloads rest

/-- does the chain contain an unimplemented payload marked critical? -/
def anyCriticalUnknown : List Item → Bool
  | [] => false
  | .known _ _ :: rest => anyCriticalUnknown rest
  | i@(.unknown _ _ _) :: rest => i.critical || anyCriticalUnknown rest

end Ike.Spec
