import IkeModel.Message.Chain

/-! RFC 7296 on the wire — the independent encoder of property C05.

One definition per RFC figure, written from the figures (§3.1 header, §3.2
generic payload header, §3.3 SA / proposal / transform / attribute, §3.4 KE,
§3.5 ID, §3.6 CERT, §3.7 CERTREQ, §3.8 AUTH, §3.9 Nonce, §3.10 Notify, §3.11
Delete, §3.12 Vendor ID, §3.13 TS, §3.15 CP, §3.16 EAP) and not from the Go
code: every length field is computed as the sum of the extents of the parts it
covers, flag bits are added arithmetically, and everything the RFC leaves to
the *sender* is a parameter (`Lib`, "liberties"):

* generic payload header: the whole flag octet (critical bit C and the seven
  RESERVED bits) of every payload;
* proposal: the RESERVED octet after "last substruc";
* transform: the RESERVED octet after "last substruc" and the RESERVED octet
  after the transform type;
* the ORDER of the transforms of a proposal: the transforms actually emitted are
  given as a list, which has to be an interleaving (`Interleaves`) of the five
  per-type lists of the proposal;
* KE: two RESERVED octets; IDi / IDr / AUTH: three; TSi / TSr: three; CP: three,
  and the R bit in front of every configuration attribute type.

The canonical liberties (`{}` : all zero, transforms in the order ENCR, PRF,
INTEG, DH, ESN) are what a strict sender emits.  The values of the message
(`Msg`, `Payload`, `Proposal`, … of `IkeModel.Types`) are the *fields*; only the
big-endian primitives `put16/put32/put64` of `GoSem` are shared with the model.

The EAP payload body (§3.16) is the EAP packet itself; its encoding has its own
specification (`IkeModel/Spec/Eap.lean`, property C14), so the body is taken from
`marshalEap` here.  The Encrypted payload (§3.14) is `IkeModel/Spec/Sk.lean`
(property C06) and is not an element of a plain payload chain: `encodeBody`
refuses it.

A result `.err` means: the value cannot be represented (a length or count does
not fit its field). -/

namespace Ike.Spec

/-! ### liberties -/

/-- sender's choices inside one transform substructure (§3.3.2) -/
structure TLib where
  /-- RESERVED octet after "last substruc" -/
  res1 : UInt8 := 0
  /-- RESERVED octet after the transform type -/
  res2 : UInt8 := 0
deriving DecidableEq, Repr, Inhabited

/-- sender's choices inside one proposal substructure (§3.3.1) -/
structure PLib where
  /-- RESERVED octet after "last substruc" -/
  reserved : UInt8 := 0
  /-- the transforms in the order in which they are emitted, each with its reserved octets -/
  emitted : List (TLib × Transform)
deriving DecidableEq, Repr, Inhabited

/-- strict sender: the order ENCR, PRF, INTEG, DH, ESN with all reserved octets zero -/
def PLib.canonical (p : Proposal) : PLib :=
  ⟨0, (p.encr ++ p.prf ++ p.integ ++ p.dh ++ p.esn).map (fun t => (({} : TLib), t))⟩

/-- sender's choices in one payload: flag octet of the generic header and the
reserved fields of the body.  Fields that do not exist in a payload kind are
unused.  Missing list entries (`rbits`, `props` shorter than the payload's
lists) mean the canonical choice. -/
structure Lib where
  /-- §3.2: critical bit (0x80) and the seven RESERVED bits -/
  flags : UInt8 := 0
  /-- RESERVED octets of the body: KE uses `r0 r1`, IDi/IDr/AUTH/TSi/TSr/CP use `r0 r1 r2` -/
  r0 : UInt8 := 0
  r1 : UInt8 := 0
  r2 : UInt8 := 0
  /-- CP: the R bit of each attribute, in order -/
  rbits : List Bool := []
  /-- SA: the choices of each proposal, in order -/
  props : List PLib := []
deriving DecidableEq, Repr, Inhabited

/-- `l` is an interleaving of the five lists: every list is a subsequence of `l`
in its own order and every element of `l` comes from exactly one of them. -/
inductive Interleaves : List Transform → List Transform → List Transform → List Transform →
    List Transform → List Transform → Prop where
  | nil : Interleaves [] [] [] [] [] []
  | encr (t : Transform) {l e p i d s : List Transform} :
      Interleaves l e p i d s → Interleaves (t :: l) (t :: e) p i d s
  | prf (t : Transform) {l e p i d s : List Transform} :
      Interleaves l e p i d s → Interleaves (t :: l) e (t :: p) i d s
  | integ (t : Transform) {l e p i d s : List Transform} :
      Interleaves l e p i d s → Interleaves (t :: l) e p (t :: i) d s
  | dh (t : Transform) {l e p i d s : List Transform} :
      Interleaves l e p i d s → Interleaves (t :: l) e p i (t :: d) s
  | esn (t : Transform) {l e p i d s : List Transform} :
      Interleaves l e p i d s → Interleaves (t :: l) e p i d (t :: s)

/-- the choices for a proposal are admissible when the emitted transforms are
the proposal's transforms in some interleaving of the five per-type lists -/
def PLib.Admissible (ℓ : PLib) (p : Proposal) : Prop :=
  Interleaves (ℓ.emitted.map (·.2)) p.encr p.prf p.integ p.dh p.esn

def PropsAdmissible : List PLib → List Proposal → Prop
  | _, [] => True
  | [], _ :: _ => True
  | ℓ :: ls, p :: ps => ℓ.Admissible p ∧ PropsAdmissible ls ps

/-- admissible liberties for a payload (only the SA has a side condition) -/
def Lib.Admissible (ℓ : Lib) : Payload → Prop
  | .sa ps => PropsAdmissible ℓ.props ps
  | _ => True

/-- admissible liberties for a payload list: the `i`-th choice is admissible for the `i`-th payload -/
def LibsAdmissible : List Lib → List Payload → Prop
  | _, [] => True
  | [], _ :: _ => True
  | ℓ :: ls, p :: ps => ℓ.Admissible p ∧ LibsAdmissible ls ps

/-! ### §3.3 Security Association -/

/-- §3.3.5 transform attribute: `AF | type (15 bits)` then either the 16-bit value
(AF = 1) or a 16-bit length and the value (AF = 0); no attribute = no octets -/
def encodeAttr (t : Transform) : Res Bytes :=
  if !t.present then .ok [] else
  if t.atype.toNat ≥ 32768 then .err else
  if t.fmt = 1 then
    .ok (put16 (UInt16.ofNat (32768 + t.atype.toNat)) ++ put16 t.aval)
  else
    if t.vval.length > 65535 then .err else
    .ok (put16 (UInt16.ofNat t.atype.toNat) ++ put16 (UInt16.ofNat t.vval.length) ++ t.vval)

/-- §3.3.2 transform substructure:
`0 (last) or 3 | RESERVED | Transform Length | Transform Type | RESERVED | Transform ID | attributes` -/
def encodeTransform (ℓ : TLib) (last : Bool) (t : Transform) : Res Bytes := do
  let a ← encodeAttr t
  if 8 + a.length > 65535 then .err else
  .ok ([if last then 0 else 3, ℓ.res1] ++ put16 (UInt16.ofNat (8 + a.length)) ++
       [t.ttype, ℓ.res2] ++ put16 t.tid ++ a)

def encodeTransforms : List (TLib × Transform) → Res Bytes
  | [] => .ok []
  | (ℓ, t) :: rest => do
    let h ← encodeTransform ℓ rest.isEmpty t
    let tl ← encodeTransforms rest
    .ok (h ++ tl)

/-- §3.3.1 proposal substructure:
`0 (last) or 2 | RESERVED | Proposal Length | Proposal Num | Protocol ID | SPI Size | Num Transforms | SPI | transforms` -/
def encodeProposal (ℓ : PLib) (last : Bool) (p : Proposal) : Res Bytes :=
  if p.spi.length > 255 then .err else
  if ℓ.emitted.length = 0 then .err else
  if ℓ.emitted.length > 255 then .err else do
    let td ← encodeTransforms ℓ.emitted
    if 8 + p.spi.length + td.length > 65535 then .err else
    .ok ([if last then 0 else 2, ℓ.reserved] ++ put16 (UInt16.ofNat (8 + p.spi.length + td.length)) ++
         [p.num, p.proto, UInt8.ofNat p.spi.length, UInt8.ofNat ℓ.emitted.length] ++ p.spi ++ td)

def encodeProposals : List PLib → List Proposal → Res Bytes
  | _, [] => .ok []
  | ls, p :: rest => do
    let h ← encodeProposal (ls.headD (PLib.canonical p)) rest.isEmpty p
    let tl ← encodeProposals ls.tail rest
    .ok (h ++ tl)

/-! ### the flat payload bodies -/

/-- §3.4 Key Exchange: `DH Group Num (2) | RESERVED (2) | Key Exchange Data` -/
def encodeKE (r0 r1 : UInt8) (group : UInt16) (d : Bytes) : Bytes := put16 group ++ [r0, r1] ++ d

/-- §3.5 Identification: `ID Type | RESERVED (3) | Identification Data`;
§3.8 Authentication: `Auth Method | RESERVED (3) | Authentication Data` -/
def encodeTypeRes3 (r0 r1 r2 : UInt8) (t : UInt8) (d : Bytes) : Bytes := [t, r0, r1, r2] ++ d

/-- §3.6 Certificate: `Cert Encoding | Certificate Data`;
§3.7 Certificate Request: `Cert Encoding | Certification Authority` -/
def encodeCert (enc : UInt8) (d : Bytes) : Bytes := enc :: d

/-- §3.10 Notify: `Protocol ID | SPI Size | Notify Message Type (2) | SPI | Notification Data` -/
def encodeNotify (proto : UInt8) (ntype : UInt16) (spi d : Bytes) : Res Bytes :=
  if spi.length > 255 then .err else
  .ok ([proto, UInt8.ofNat spi.length] ++ put16 ntype ++ spi ++ d)

/-- §3.11 Delete: `Protocol ID | SPI Size | Num of SPIs (2) | SPIs`; the SPIs are
32-bit values here, so a non-empty list needs SPI size 4, and the count field
has to be the number of SPIs -/
def encodeDelete (proto spiSize : UInt8) (num : UInt16) (spis : List UInt32) : Res Bytes :=
  if num.toNat ≠ spis.length then .err else
  if spis ≠ [] ∧ spiSize ≠ 4 then .err else
  .ok ([proto, spiSize] ++ put16 num ++ (spis.map put32).flatten)

/-- §3.13.1 traffic selector:
`TS Type | IP Protocol ID | Selector Length (2) | Start Port | End Port | Starting Address | Ending Address`;
type 7 has 4-octet addresses, type 8 has 16-octet addresses -/
def encodeSelector (t : TSel) : Res Bytes :=
  let alen : Nat := if t.tstype = 7 then 4 else if t.tstype = 8 then 16 else 0
  if alen = 0 then .err else
  if t.saddr.length ≠ alen then .err else
  if t.eaddr.length ≠ alen then .err else
  .ok ([t.tstype, t.proto] ++ put16 (UInt16.ofNat (8 + t.saddr.length + t.eaddr.length)) ++
       put16 t.sport ++ put16 t.eport ++ t.saddr ++ t.eaddr)

def encodeSelectors : List TSel → Res Bytes
  | [] => .ok []
  | t :: rest => do
    let h ← encodeSelector t
    let tl ← encodeSelectors rest
    .ok (h ++ tl)

/-- §3.13 Traffic Selector payload: `Number of TSs | RESERVED (3) | selectors` (1..255 selectors) -/
def encodeTS (r0 r1 r2 : UInt8) (l : List TSel) : Res Bytes :=
  if l.length = 0 then .err else
  if l.length > 255 then .err else do
    let body ← encodeSelectors l
    .ok ([UInt8.ofNat l.length, r0, r1, r2] ++ body)

/-- §3.15.1 configuration attributes: `R | Attribute Type (15 bits) | Length (2) | Value` -/
def encodeCPAttrs : List Bool → List CPAttr → Res Bytes
  | _, [] => .ok []
  | rs, a :: rest =>
    if a.atype.toNat ≥ 32768 then .err else
    if a.value.length > 65535 then .err else do
      let tl ← encodeCPAttrs rs.tail rest
      .ok (put16 (UInt16.ofNat ((if rs.headD false then 32768 else 0) + a.atype.toNat)) ++
           put16 (UInt16.ofNat a.value.length) ++ a.value ++ tl)

/-- §3.15 Configuration payload: `CFG Type | RESERVED (3) | attributes` -/
def encodeCP (r0 r1 r2 : UInt8) (rbits : List Bool) (ctype : UInt8) (attrs : List CPAttr) : Res Bytes := do
  let body ← encodeCPAttrs rbits attrs
  .ok ([ctype, r0, r1, r2] ++ body)

/-- the body of one payload under the sender's choices `ℓ` -/
def encodeBody (ℓ : Lib) : Payload → Res Bytes
  | .sa ps => encodeProposals ℓ.props ps
  | .ke g d => .ok (encodeKE ℓ.r0 ℓ.r1 g d)
  | .idi t d => .ok (encodeTypeRes3 ℓ.r0 ℓ.r1 ℓ.r2 t d)
  | .idr t d => .ok (encodeTypeRes3 ℓ.r0 ℓ.r1 ℓ.r2 t d)
  | .cert e d => .ok (encodeCert e d)
  | .certreq e d => .ok (encodeCert e d)
  | .auth m d => .ok (encodeTypeRes3 ℓ.r0 ℓ.r1 ℓ.r2 m d)
  | .nonce d => .ok d                                   -- §3.9: the nonce data
  | .notify p t s d => encodeNotify p t s d
  | .delete p s n l => encodeDelete p s n l
  | .vendor d => .ok d                                  -- §3.12: the vendor ID
  | .tsi l => encodeTS ℓ.r0 ℓ.r1 ℓ.r2 l
  | .tsr l => encodeTS ℓ.r0 ℓ.r1 ℓ.r2 l
  | .sk _ _ => .err                                     -- §3.14 is `Spec.skMessage`
  | .cp t a => encodeCP ℓ.r0 ℓ.r1 ℓ.r2 ℓ.rbits t a
  | .eap e => marshalEap e                              -- §3.16: the EAP packet (`Spec/Eap.lean`, C14)

/-! ### §3.2 payload chain and §3.1 header -/

/-- §3.2 table of payload type values -/
def payloadType : Payload → UInt8
  | .sa _ => 33 | .ke _ _ => 34 | .idi _ _ => 35 | .idr _ _ => 36 | .cert _ _ => 37
  | .certreq _ _ => 38 | .auth _ _ => 39 | .nonce _ => 40 | .notify _ _ _ _ => 41
  | .delete _ _ _ _ => 42 | .vendor _ => 43 | .tsi _ => 44 | .tsr _ => 45 | .sk _ _ => 46
  | .cp _ _ => 47 | .eap _ => 48

/-- type of the first payload of a list, 0 ("no next payload") for the empty list -/
def firstPayloadType : List Payload → UInt8
  | p :: _ => payloadType p
  | [] => 0

/-- §3.2 the chain: every payload is preceded by
`Next Payload | C RESERVED(7) | Payload Length (2)`; Next Payload names the type
of the FOLLOWING payload and is 0 in the last one; the length covers the
generic header and the body.  The `i`-th payload is written under the `i`-th
element of `ls` (canonically when `ls` is shorter). -/
def encodePayloads : List Lib → List Payload → Res Bytes
  | _, [] => .ok []
  | ls, p :: rest => do
    let ℓ := ls.headD {}
    let body ← encodeBody ℓ p
    if 4 + body.length > 65535 then .err else do
      let tl ← encodePayloads ls.tail rest
      .ok ([firstPayloadType rest, ℓ.flags] ++ put16 (UInt16.ofNat (4 + body.length)) ++ body ++ tl)

/-- §3.1 IKE header in front of `bodyLen` octets of payloads:
`Initiator SPI (8) | Responder SPI (8) | Next Payload | MjVer (4 bits) MnVer (4 bits) | Exchange Type | Flags | Message ID (4) | Length (4)`;
Length is the size of the whole datagram -/
def encodeHeader (h : Header) (first : UInt8) (bodyLen : Nat) : Res Bytes :=
  if h.major.toNat ≥ 16 then .err else
  if h.minor.toNat ≥ 16 then .err else
  if 28 + bodyLen ≥ 4294967296 then .err else
  .ok (put64 h.ispi ++ put64 h.rspi ++
       [first, UInt8.ofNat (16 * h.major.toNat + h.minor.toNat), h.exch, h.flags] ++
       put32 h.mid ++ put32 (UInt32.ofNat (28 + bodyLen)))

/-- the datagram of message `m` under the sender's choices `ls` (one `Lib` per payload) -/
def encode (ls : List Lib) (m : Msg) : Res Bytes := do
  let chain ← encodePayloads ls m.payloads
  let hdr ← encodeHeader m.hdr (firstPayloadType m.payloads) chain.length
  .ok (hdr ++ chain)

/-- the strict sender -/
def canonical : List Lib := []

/-! ### independent framing walks (used to STATE well-formedness of an encoder's output)

These read a byte string along its length fields only; they know nothing about
the encoders above. -/

/-- walk a payload chain whose first payload has type `t`: the (type, flag octet,
body) of every payload, in order.  `none` when the framing is broken: octets
after a payload whose Next Payload field is 0, a truncated generic header, a
length field below 4 or beyond the end, or a chain whose last Next Payload
field is not 0.  (`fuel` ≥ length of `b` suffices.) -/
def walkChain : Nat → UInt8 → Bytes → Option (List (UInt8 × UInt8 × Bytes))
  | _, t, [] => if t = 0 then some [] else none
  | 0, _, _ :: _ => none
  | fuel + 1, t, b@(_ :: _) =>
    if t = 0 then none else
    if b.length < 4 then none else
    let len := (byteAt b 2).toNat * 256 + (byteAt b 3).toNat
    if len < 4 then none else
    if len > b.length then none else
    match walkChain fuel (byteAt b 0) (b.drop len) with
    | some tl => some ((t, byteAt b 1, (b.take len).drop 4) :: tl)
    | none => none

/-- walk a list of substructures (proposals: `more` = 2, transforms: `more` = 3):
the extent of every substructure, in order.  `none` when a length field is
below 4 or beyond the end, or when the first octet of a substructure is not
0 for the last one (the one that ends where the list ends) and `more` for the others. -/
def walkSubs (more : UInt8) : Nat → Bytes → Option (List Bytes)
  | _, [] => some []
  | 0, _ :: _ => none
  | fuel + 1, b@(_ :: _) =>
    if b.length < 4 then none else
    let len := (byteAt b 2).toNat * 256 + (byteAt b 3).toNat
    if len < 4 then none else
    if len > b.length then none else
    if byteAt b 0 ≠ (if len = b.length then 0 else more) then none else
    match walkSubs more fuel (b.drop len) with
    | some tl => some (b.take len :: tl)
    | none => none

/-- what the chain walk is expected to see for payloads `ps` written under `ls` -/
def chainView : List Lib → List Payload → Res (List (UInt8 × UInt8 × Bytes))
  | _, [] => .ok []
  | ls, p :: rest => do
    let body ← encodeBody (ls.headD {}) p
    let tl ← chainView ls.tail rest
    .ok ((payloadType p, (ls.headD {}).flags, body) :: tl)

/-- the encodings of the individual proposals of an SA body -/
def proposalView : List PLib → List Proposal → Res (List Bytes)
  | _, [] => .ok []
  | ls, p :: rest => do
    let h ← encodeProposal (ls.headD (PLib.canonical p)) rest.isEmpty p
    let tl ← proposalView ls.tail rest
    .ok (h :: tl)

/-- the encodings of the individual transforms of a proposal -/
def transformView : List (TLib × Transform) → Res (List Bytes)
  | [] => .ok []
  | (ℓ, t) :: rest => do
    let h ← encodeTransform ℓ rest.isEmpty t
    let tl ← transformView rest
    .ok (h :: tl)

end Ike.Spec
