import IkeModel.Spec.Sk
import IkeModel.Spec.Parse

/-! RFC 7296 §3.14 — the RECEIVING side of the Encrypted payload, written from the RFC text and
figure, independent of the library.

`Spec.skOpen P k msg` is what an independent peer holding the sender's direction keys
`k = ⟨K_e, K_a, hash, checksum length⟩` does with a datagram `msg`:

    §3.1   the datagram holds a header (28), an Encrypted payload with its generic header (4),
           an IV (16), at least one cipher block (16) and the checksum; the header's Length is
           the size of the datagram; the header's Next Payload is 46 (Encrypted)
    §3.14  the Encrypted payload is the last payload: its Payload Length is everything after the
           header; its flag octet (critical bit, RESERVED) is 0
    §3.14  "Integrity Checksum Data is the cryptographic checksum of the entire message starting
           with the Fixed IKE header through the Pad Length": the trailing checksum octets have
           to equal trunc(HMAC(K_a, everything before them)) — checked BEFORE anything is decrypted
    §3.14  IV = the first 16 octets of the payload body; the octets between IV and checksum are
           whole cipher blocks; they are CBC-decrypted under K_e
    §3.14  the last plaintext octet is Pad Length; that many octets before it are padding (any
           content); what is in front is the chain of inner payloads; the Encrypted payload's
           Next Payload names the type of the first of them

It returns the header fields (read as the independent parser `Spec.parse` reads them), the type
of the first inner payload, the inner chain octets and the padding octets.
`Spec.skOpenPayloads` then reads the inner chain with the independent strict parser
`Spec.parseChain` (`Spec/Parse.lean`).

Nothing of `IkeModel/Ike.lean` (protect / unprotect / decryptMsg) or `IkeModel/Message/*` is
imported: octets are cut with `List.take` / `List.drop` / pattern matching, integers are read with
the arithmetic `beNat`, the block cipher and the MAC are the parameters `P.dec`, `P.mac`, CBC is
`cbcDec` (NIST SP 800-38A, `Crypto/Cbc.lean`). -/

namespace Ike.Spec

/-- §3.1 the fixed header of a datagram, as `Spec.parse` reads it:
`Initiator SPI (8) | Responder SPI (8) | Next Payload | MjVer (4 bits) MnVer (4 bits) | Exchange Type | Flags | Message ID (4) | Length (4)`;
`next` and `payloadBytes` are the Next Payload octet and the octets after the header -/
def readHeader (b : Bytes) : Header :=
  { ispi := be64 b, rspi := be64 (b.drop 8),
    major := UInt8.ofNat ((byteAt b 17).toNat / 16), minor := UInt8.ofNat ((byteAt b 17).toNat % 16),
    exch := byteAt b 18, flags := byteAt b 19, mid := UInt32.ofNat (beNat ((b.drop 20).take 4)),
    next := byteAt b 16, payloadBytes := b.drop 28 }

/-- what the receiver compares the trailing `k.icvLen` octets with: the truncated HMAC, under the
sender's integrity key, of everything in front of them -/
def skExpectedIcv (P : Prims) (k : SkParams) (msg : Bytes) : Bytes :=
  (P.mac k.hash k.ka (msg.take (msg.length - k.icvLen))).take k.icvLen

/-- §3.14, receiving side: verify, decrypt, strip the padding.
Result: (header, type of the first inner payload, inner chain octets, padding octets). -/
def skOpen (P : Prims) (k : SkParams) (msg : Bytes) : Option (Header × UInt8 × Bytes × Bytes) :=
  if msg.length < 28 + 4 + 16 + 16 + k.icvLen then none else
  if beNat ((msg.drop 24).take 4) ≠ msg.length then none else       -- §3.1 Length
  if byteAt msg 16 ≠ 46 then none else                               -- §3.1 Next Payload = Encrypted
  match msg.drop 28 with
  | nx :: fl :: l0 :: l1 :: rest =>                                  -- rest = IV ‖ ciphertext ‖ checksum
    if fl ≠ 0 then none else                                         -- C = 0, RESERVED = 0
    if l0.toNat * 256 + l1.toNat ≠ 4 + rest.length then none else    -- the Encrypted payload is the last one
    if msg.drop (msg.length - k.icvLen) ≠ skExpectedIcv P k msg then none else
    let iv := rest.take 16
    let ct := (rest.drop 16).take (rest.length - 16 - k.icvLen)
    if ct.length % 16 ≠ 0 then none else
    let pt := cbcDec (P.dec k.ke) iv ct
    let n := (byteAt pt (pt.length - 1)).toNat                       -- Pad Length
    if pt.length < n + 1 then none else
    some (readHeader msg, nx, pt.take (pt.length - (n + 1)), (pt.drop (pt.length - (n + 1))).take n)
  | _ => none

/-- verify, decrypt AND parse: the opened message — the header fields of the datagram and the
inner payloads as the independent strict chain parser reads them -/
def skOpenPayloads (P : Prims) (k : SkParams) (msg : Bytes) : Option Msg :=
  match skOpen P k msg with
  | some (h, first, inner, _) =>
    match parseChain (inner.length + 1) first inner with
    | some ps => some ⟨h, ps⟩
    | none => none
  | none => none

end Ike.Spec
