import IkeModel.Types
import IkeModel.Spec.Eap
import IkeModel.Spec.EapParse

/-! RFC 7296 on the wire — the FULLY library-independent STRICT PARSER of properties C05 / C12.

`Spec.parseFull : Bytes → Option Msg` is the strict RFC 7296 §3 parser of
`IkeModel/Spec/Parse.lean` (`Spec.parse`; see the header comment there for the list of
strictness rules, which is the same here) with its one TRUSTED step removed: `Spec.parse` reads
the EAP packet inside an EAP payload (§3.16, type 48) with the library model's
`unmarshalEap` / `marshalEap`; `Spec.parseFull` reads it with the independent strict EAP parser
`Spec.parseEapPayload` (`IkeModel/Spec/EapParse.lean`, RFC 3748 / 4187 / 5448).

IMPORT CLOSURE: `IkeModel.Types` (value types; `GoSem` big-endian helpers), `IkeModel.Spec.Eap`,
`IkeModel.Spec.EapParse`.  Nothing of `IkeModel/Message/*`, not `IkeModel/Eap.lean`, not
`IkeModel/Spec/Parse.lean` (which imports `IkeModel/Eap.lean`).  For that reason the definitions
of `Spec/Parse.lean` that do not touch EAP are REPEATED here verbatim in the namespace
`Ike.Spec.Full` (`IkeProofs/Lemmas/ParseFull.lean` proves each copy equal to its original), and
the three definitions that reach the EAP step take it as a parameter:

* `Full.parseBodyWith  (eapStep : Bytes → Option Payload)` — the body of a payload of type `t`;
* `Full.parseChainWith eapStep` — §3.2 the payload chain;
* `Full.parseWith      eapStep` — §3.1 the datagram;

`Spec.parseFull := Full.parseWith Spec.parseEapPayload`; and `Spec.parse = Full.parseWith Spec.parseEAP`
(`ParseFullLemmas.parse_eq_parseWith`), which ties the two developments. -/

namespace Ike.Spec.Full

/-! ### §3.3 Security Association -/

/-- §3.3.5 the attribute area of a transform: empty, one TV attribute
(`1 | type(15) | value(16)`) or one TLV attribute (`0 | type(15) | length(16) | value`)
that fills the area exactly -/
def parseAttr (ttype : UInt8) (tid : UInt16) : Bytes → Option Transform
  | [] => some ⟨ttype, tid, false, 0, 0, 0, []⟩
  | a0 :: a1 :: v0 :: v1 :: rest =>
    if 128 ≤ a0.toNat then
      if rest ≠ [] then none else
      some ⟨ttype, tid, true, 1, UInt16.ofNat ((a0.toNat - 128) * 256 + a1.toNat), be16 v0 v1, []⟩
    else
      if rest.length ≠ v0.toNat * 256 + v1.toNat then none else
      some ⟨ttype, tid, true, 0, be16 a0 a1, 0, rest⟩
  | _ => none

/-- §3.3.2 the transform substructures of a proposal, up to the end of the input:
`0 (last) or 3 | RESERVED | Transform Length | Transform Type | RESERVED | Transform ID | attributes` -/
def parseTransforms : Nat → Bytes → Option (List Transform)
  | 0, _ => none
  | fuel + 1, b =>
    match b with
    | [] => some []
    | m :: r1 :: l0 :: l1 :: tt :: r2 :: i0 :: i1 :: rest =>
      let len := l0.toNat * 256 + l1.toNat
      if r1 ≠ 0 ∨ r2 ≠ 0 then none else
      if len < 8 ∨ rest.length < len - 8 then none else
      if m ≠ (if rest.length = len - 8 then 0 else 3) then none else
      match parseAttr tt (be16 i0 i1) (rest.take (len - 8)), parseTransforms fuel (rest.drop (len - 8)) with
      | some t, some ts => some (t :: ts)
      | _, _ => none
    | _ => none

/-- the transforms of one type, in order -/
def ofType (k : UInt8) (ts : List Transform) : List Transform := ts.filter (fun t => t.ttype == k)

/-- §3.3.1 the proposal substructures of an SA payload, up to the end of the input:
`0 (last) or 2 | RESERVED | Proposal Length | Proposal Num | Protocol ID | SPI Size | Num Transforms | SPI | transforms` -/
def parseProposals : Nat → Bytes → Option (List Proposal)
  | 0, _ => none
  | fuel + 1, b =>
    match b with
    | [] => some []
    | m :: r :: l0 :: l1 :: num :: proto :: ss :: nt :: rest =>
      let len := l0.toNat * 256 + l1.toNat
      if r ≠ 0 then none else
      if len < 8 + ss.toNat ∨ rest.length < len - 8 then none else
      if m ≠ (if rest.length = len - 8 then 0 else 2) then none else
      let body := rest.take (len - 8)
      match parseTransforms (rest.length + 1) (body.drop ss.toNat), parseProposals fuel (rest.drop (len - 8)) with
      | some ts, some ps =>
        if ts.length ≠ nt.toNat ∨ nt = 0 then none else
        -- types 1..5 only, in the order ENCR, PRF, INTEG, DH, ESN
        if ofType 1 ts ++ ofType 2 ts ++ ofType 3 ts ++ ofType 4 ts ++ ofType 5 ts ≠ ts then none else
        some (⟨num, proto, body.take ss.toNat, ofType 1 ts, ofType 2 ts, ofType 3 ts, ofType 4 ts, ofType 5 ts⟩ :: ps)
      | _, _ => none
    | _ => none

/-! ### the flat payload bodies -/

/-- §3.4 Key Exchange: `DH Group Num (2) | RESERVED (2) = 0 | Key Exchange Data` -/
def parseKE : Bytes → Option Payload
  | g0 :: g1 :: r0 :: r1 :: d => if r0 ≠ 0 ∨ r1 ≠ 0 then none else some (.ke (be16 g0 g1) d)
  | _ => none

/-- §3.5 Identification, §3.8 Authentication: `Type | RESERVED (3) = 0 | Data` -/
def parseTypeRes3 (mk : UInt8 → Bytes → Payload) : Bytes → Option Payload
  | t :: r0 :: r1 :: r2 :: d => if r0 ≠ 0 ∨ r1 ≠ 0 ∨ r2 ≠ 0 then none else some (mk t d)
  | _ => none

/-- §3.6 Certificate, §3.7 Certificate Request: `Cert Encoding | Data` -/
def parseCert (mk : UInt8 → Bytes → Payload) : Bytes → Option Payload
  | e :: d => some (mk e d)
  | _ => none

/-- §3.10 Notify: `Protocol ID | SPI Size | Notify Message Type (2) | SPI | Notification Data` -/
def parseNotify : Bytes → Option Payload
  | proto :: ss :: t0 :: t1 :: rest =>
    if rest.length < ss.toNat then none else
    some (.notify proto (be16 t0 t1) (rest.take ss.toNat) (rest.drop ss.toNat))
  | _ => none

/-- consecutive 32-bit big-endian values -/
def read32s : Bytes → List UInt32
  | a :: b :: c :: d :: rest => be32 a b c d :: read32s rest
  | _ => []

/-- §3.11 Delete: `Protocol ID | SPI Size | Num of SPIs (2) | SPIs` with 32-bit SPIs -/
def parseDelete : Bytes → Option Payload
  | proto :: ss :: n0 :: n1 :: rest =>
    let n := n0.toNat * 256 + n1.toNat
    if rest.length ≠ 4 * n then none else
    if n ≠ 0 ∧ ss ≠ 4 then none else
    some (.delete proto ss (be16 n0 n1) (read32s rest))
  | _ => none

/-- §3.13.1 traffic selectors up to the end of the input:
`TS Type | IP Protocol ID | Selector Length (2) | Start Port | End Port | Starting Address | Ending Address` -/
def parseSelectors : Nat → Bytes → Option (List TSel)
  | 0, _ => none
  | fuel + 1, b =>
    match b with
    | [] => some []
    | t :: p :: l0 :: l1 :: s0 :: s1 :: e0 :: e1 :: rest =>
      let alen : Nat := if t = 7 then 4 else if t = 8 then 16 else 0
      if alen = 0 then none else
      if l0.toNat * 256 + l1.toNat ≠ 8 + 2 * alen then none else
      if rest.length < 2 * alen then none else
      match parseSelectors fuel (rest.drop (2 * alen)) with
      | some ts => some (⟨t, p, be16 s0 s1, be16 e0 e1, rest.take alen, (rest.drop alen).take alen⟩ :: ts)
      | none => none
    | _ => none

/-- §3.13 Traffic Selector payload: `Number of TSs | RESERVED (3) = 0 | selectors` -/
def parseTS (mk : List TSel → Payload) : Bytes → Option Payload
  | n :: r0 :: r1 :: r2 :: rest =>
    if r0 ≠ 0 ∨ r1 ≠ 0 ∨ r2 ≠ 0 then none else
    match parseSelectors (rest.length + 1) rest with
    | some ts => if ts.length ≠ n.toNat ∨ n = 0 then none else some (mk ts)
    | none => none
  | _ => none

/-- §3.15.1 configuration attributes up to the end of the input:
`R = 0 | Attribute Type (15 bits) | Length (2) | Value` -/
def parseCPAttrs : Nat → Bytes → Option (List CPAttr)
  | 0, _ => none
  | fuel + 1, b =>
    match b with
    | [] => some []
    | a0 :: a1 :: l0 :: l1 :: rest =>
      let len := l0.toNat * 256 + l1.toNat
      if 128 ≤ a0.toNat then none else
      if rest.length < len then none else
      match parseCPAttrs fuel (rest.drop len) with
      | some as => some (⟨be16 a0 a1, rest.take len⟩ :: as)
      | none => none
    | _ => none

/-- §3.15 Configuration payload: `CFG Type | RESERVED (3) = 0 | attributes` -/
def parseCP : Bytes → Option Payload
  | ct :: r0 :: r1 :: r2 :: rest =>
    if r0 ≠ 0 ∨ r1 ≠ 0 ∨ r2 ≠ 0 then none else
    match parseCPAttrs (rest.length + 1) rest with
    | some as => some (.cp ct as)
    | none => none
  | _ => none

/-- the body of a payload of type `t` (§3.2 table of payload types); `eapStep` reads the EAP packet
of an EAP payload (§3.16) -/
def parseBodyWith (eapStep : Bytes → Option Payload) (t : UInt8) (b : Bytes) : Option Payload :=
  if t = 33 then (parseProposals (b.length + 1) b).map .sa
  else if t = 34 then parseKE b
  else if t = 35 then parseTypeRes3 .idi b
  else if t = 36 then parseTypeRes3 .idr b
  else if t = 37 then parseCert .cert b
  else if t = 38 then parseCert .certreq b
  else if t = 39 then parseTypeRes3 .auth b
  else if t = 40 then some (.nonce b)                   -- §3.9
  else if t = 41 then parseNotify b
  else if t = 42 then parseDelete b
  else if t = 43 then some (.vendor b)                  -- §3.12
  else if t = 44 then parseTS .tsi b
  else if t = 45 then parseTS .tsr b
  else if t = 47 then parseCP b
  else if t = 48 then eapStep b
  else none

/-! ### §3.2 payload chain and §3.1 header -/

/-- §3.2 the chain whose first payload has type `t`, up to the end of the input:
`Next Payload | C RESERVED(7) = 0 | Payload Length (2) | body`; type 0 = nothing follows -/
def parseChainWith (eapStep : Bytes → Option Payload) : Nat → UInt8 → Bytes → Option (List Payload)
  | 0, _, _ => none
  | fuel + 1, t, b =>
    if t = 0 then (if b = [] then some [] else none) else
    match b with
    | nx :: fl :: l0 :: l1 :: rest =>
      let len := l0.toNat * 256 + l1.toNat
      if fl ≠ 0 then none else
      if len < 4 ∨ rest.length < len - 4 then none else
      match parseBodyWith eapStep t (rest.take (len - 4)), parseChainWith eapStep fuel nx (rest.drop (len - 4)) with
      | some p, some ps => some (p :: ps)
      | _, _ => none
    | _ => none

/-- §3.1 the datagram:
`Initiator SPI (8) | Responder SPI (8) | Next Payload | MjVer (4 bits) MnVer (4 bits) | Exchange Type | Flags | Message ID (4) | Length (4)`
followed by the payload chain; `next` and `payloadBytes` of the returned header are the Next
Payload octet and the octets after the header -/
def parseWith (eapStep : Bytes → Option Payload) (b : Bytes) : Option Msg :=
  if b.length < 28 then none else
  if beNat ((b.drop 24).take 4) ≠ b.length then none else
  match parseChainWith eapStep (b.length + 1) (byteAt b 16) (b.drop 28) with
  | none => none
  | some ps =>
    some ⟨{ ispi := be64 b, rspi := be64 (b.drop 8),
            major := UInt8.ofNat ((byteAt b 17).toNat / 16), minor := UInt8.ofNat ((byteAt b 17).toNat % 16),
            exch := byteAt b 18, flags := byteAt b 19, mid := UInt32.ofNat (beNat ((b.drop 20).take 4)),
            next := byteAt b 16, payloadBytes := b.drop 28 }, ps⟩

end Ike.Spec.Full

namespace Ike.Spec

/-- **the fully independent strict RFC 7296 parser**: `Spec.parse` with the independent strict EAP
parser `Spec.parseEapPayload` (RFC 3748 / 4187 / 5448) reading the packet of an EAP payload — no
function of the model of the library is called anywhere -/
def parseFull (b : Bytes) : Option Msg := Full.parseWith parseEapPayload b

end Ike.Spec
