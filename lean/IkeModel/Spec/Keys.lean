import IkeModel.GoSem

/-! Key derivation as the RFCs state it, written from the RFC text and
independent of the code's control flow and of its stateful hash objects.
`prf : key → data → output` is abstract.

RFC 7296 §2.13:

    prf+ (K,S) = T1 | T2 | T3 | T4 | ...
    T1 = prf (K, S | 0x01)
    T2 = prf (K, T1 | S | 0x02)
    T3 = prf (K, T2 | S | 0x03) ...          (the counter is a single octet)

RFC 7296 §2.14:

    SKEYSEED = prf(Ni | Nr, g^ir)
    {SK_d | SK_ai | SK_ar | SK_ei | SK_er | SK_pi | SK_pr}
                    = prf+ (SKEYSEED, Ni | Nr | SPIi | SPIr )

RFC 7296 §2.17:

    KEYMAT = prf+(SK_d, Ni | Nr)
    "All keys for SAs carrying data from the initiator to the responder are
     taken before SAs going from the responder to the initiator";
    "the encryption key MUST be taken from the first bits and the integrity
     key MUST be taken from the remaining bits".

RFC 5448 / RFC 9048 §3.3, §3.4.1:

    MK = PRF'(IK'|CK',"EAP-AKA'"|Identity)
    K_encr = MK[0..127], K_aut = MK[128..383], K_re = MK[384..639],
    MSK = MK[640..1151], EMSK = MK[1152..1663]
    PRF'(K,S) = T1 | T2 | T3 | T4 | ...   with HMAC-SHA-256 and the recursion above. -/

namespace Ike.Spec

abbrev PRF := Bytes → Bytes → Bytes

/-- `T n` of §2.13 (`T 0` is the empty string, so that `T 1 = prf (K, S | 0x01)`). -/
def T (prf : PRF) (K S : Bytes) : Nat → Bytes
  | 0 => []
  | n + 1 => prf K (T prf K S n ++ S ++ [UInt8.ofNat (n + 1)])

/-- `T i | T (i+1) | … ` (`n` blocks), given `prev = T (i-1)`; computes each block once. -/
def blocksFrom (prf : PRF) (K S : Bytes) : Nat → Nat → Bytes → Bytes
  | 0, _, _ => []
  | n + 1, i, prev =>
    let t := prf K (prev ++ S ++ [UInt8.ofNat i])
    t ++ blocksFrom prf K S n (i + 1) t

/-- `T1 | T2 | … | T blocks`: the prefix of prf+ (K,S) consisting of `blocks` blocks (`blocks ≤ 255`). -/
def prfPlus (prf : PRF) (K S : Bytes) (blocks : Nat) : Bytes := blocksFrom prf K S blocks 1 []

/-- number of blocks of `outLen` octets that cover `n` octets -/
def blocksFor (n outLen : Nat) : Nat := (n + outLen - 1) / outLen

/-- the first `n` octets of prf+ (K,S) for a prf with `outLen`-octet output -/
def prfPlusN (prf : PRF) (outLen : Nat) (K S : Bytes) (n : Nat) : Bytes :=
  (prfPlus prf K S (blocksFor n outLen)).take n

/-- `SKEYSEED = prf(Ni | Nr, g^ir)` -/
def skeyseed (prf : PRF) (nonces gir : Bytes) : Bytes := prf nonces gir

/-- SPIs are 8-octet big-endian strings -/
def spiBytes (spi : UInt64) : Bytes := natToBytes 8 spi.toNat

structure IkeKeys where
  d  : Bytes
  ai : Bytes
  ar : Bytes
  ei : Bytes
  er : Bytes
  pi : Bytes
  pr : Bytes
deriving DecidableEq, Repr, Inhabited

/-- §2.14: the seven keys are consecutive slices, "taken in order", with the
lengths of the negotiated algorithms: `prfLen` = preferred key length of the
PRF (= its output length for the HMAC PRFs), `integLen` = key length of the
integrity algorithm, `encrLen` = key length of the cipher. -/
def ikeKeys (prf : PRF) (prfLen integLen encrLen : Nat) (nonces gir : Bytes) (spiI spiR : UInt64) : IkeKeys :=
  let total := prfLen + integLen + integLen + encrLen + encrLen + prfLen + prfLen
  let s := prfPlusN prf prfLen (skeyseed prf nonces gir) (nonces ++ spiBytes spiI ++ spiBytes spiR) total
  { d  := s.take prfLen,
    ai := (s.drop prfLen).take integLen,
    ar := (s.drop (prfLen + integLen)).take integLen,
    ei := (s.drop (prfLen + integLen + integLen)).take encrLen,
    er := (s.drop (prfLen + integLen + integLen + encrLen)).take encrLen,
    pi := (s.drop (prfLen + integLen + integLen + encrLen + encrLen)).take prfLen,
    pr := (s.drop (prfLen + integLen + integLen + encrLen + encrLen + prfLen)).take prfLen }

structure ChildKeys where
  ei : Bytes   -- initiator → responder encryption
  ai : Bytes   -- initiator → responder integrity
  er : Bytes   -- responder → initiator encryption
  ar : Bytes   -- responder → initiator integrity
deriving DecidableEq, Repr, Inhabited

/-- §2.17: KEYMAT = prf+(SK_d, Ni | Nr); `integLen = 0` when no integrity transform is negotiated. -/
def keymat (prf : PRF) (prfLen : Nat) (skD nonces : Bytes) (encrLen integLen : Nat) : ChildKeys :=
  let s := prfPlusN prf prfLen skD nonces (2 * (encrLen + integLen))
  { ei := s.take encrLen,
    ai := (s.drop encrLen).take integLen,
    er := (s.drop (encrLen + integLen)).take encrLen,
    ar := (s.drop (encrLen + integLen + encrLen)).take integLen }

/-! ### key lengths of the negotiable algorithms (RFC 2104/2403/2404/4868, RFC 3602)
indexed by IANA transform ID -/

/-- PRF_HMAC_MD5 = 1, PRF_HMAC_SHA1 = 2, PRF_HMAC_SHA2_256 = 5: preferred key length = output length -/
def rfcPrfLen (id : Nat) : Option Nat :=
  match id with
  | 1 => some 16
  | 2 => some 20
  | 5 => some 32
  | _ => none

/-- AUTH_HMAC_MD5_96 = 1, AUTH_HMAC_SHA1_96 = 2, AUTH_HMAC_SHA2_256_128 = 12: (key length, ICV length) -/
def rfcInteg (id : Nat) : Option (Nat × Nat) :=
  match id with
  | 1 => some (16, 12)
  | 2 => some (20, 12)
  | 12 => some (32, 16)
  | _ => none

/-- ENCR_AES_CBC = 12 with the Key Length attribute (bits) 128 / 192 / 256 -/
def rfcAesKeyLen (bits : Nat) : Option Nat :=
  match bits with
  | 128 => some 16
  | 192 => some 24
  | 256 => some 32
  | _ => none

/-! ### EAP-AKA' (RFC 5448 / 9048) -/

/-- "EAP-AKA'" in ASCII -/
def akaPrimeLabel : Bytes := [0x45, 0x41, 0x50, 0x2d, 0x41, 0x4b, 0x41, 0x27]

/-- the first `n` octets of PRF'(K,S); `hmac256` is HMAC-SHA-256 (32-octet output) -/
def prfPrime (hmac256 : PRF) (K S : Bytes) (n : Nat) : Bytes := prfPlusN hmac256 32 K S n

structure AkaPrimeKeys where
  kEncr : Bytes
  kAut  : Bytes
  kRe   : Bytes
  msk   : Bytes
  emsk  : Bytes
deriving DecidableEq, Repr, Inhabited

def akaPrimeKeys (hmac256 : PRF) (ik ck identity : Bytes) : AkaPrimeKeys :=
  let mk := prfPrime hmac256 (ik ++ ck) (akaPrimeLabel ++ identity) 208
  { kEncr := mk.take 16,
    kAut  := (mk.drop 16).take 32,
    kRe   := (mk.drop 48).take 32,
    msk   := (mk.drop 80).take 64,
    emsk  := (mk.drop 144).take 64 }

/-! ### MODP groups (RFC 2409 §6.2, RFC 3526 §3)

"The prime is: 2^1024 - 2^960 - 1 + 2^64 * { [2^894 pi] + 129093 }",
"This prime is: 2^2048 - 2^1984 - 1 + 2^64 * { [2^1918 pi] + 124476 }", generator 2.
The hexadecimal values below were computed from these formulas (arbitrary
precision π), not copied from the implementation. -/

def rfc2409Group2 : Nat :=
  0xFFFFFFFFFFFFFFFFC90FDAA22168C234C4C6628B80DC1CD129024E088A67CC74020BBEA63B139B22514A08798E3404DDEF9519B3CD3A431B302B0A6DF25F14374FE1356D6D51C245E485B576625E7EC6F44C42E9A637ED6B0BFF5CB6F406B7EDEE386BFB5A899FA5AE9F24117C4B1FE649286651ECE65381FFFFFFFFFFFFFFFF

def rfc3526Group14 : Nat :=
  0xFFFFFFFFFFFFFFFFC90FDAA22168C234C4C6628B80DC1CD129024E088A67CC74020BBEA63B139B22514A08798E3404DDEF9519B3CD3A431B302B0A6DF25F14374FE1356D6D51C245E485B576625E7EC6F44C42E9A637ED6B0BFF5CB6F406B7EDEE386BFB5A899FA5AE9F24117C4B1FE649286651ECE45B3DC2007CB8A163BF0598DA48361C55D39A69163FA8FD24CF5F83655D23DCA3AD961C62F356208552BB9ED529077096966D670C354E4ABC9804F1746C08CA18217C32905E462E36CE3BE39E772C180E86039B2783A2EC07A28FB5C55DF06F4C52C9DE2BCBF6955817183995497CEA956AE515D2261898FA051015728E5A8AACAA68FFFFFFFFFFFFFFFF

/-- ⌊2^k · π⌋ expressed through the prime: the RFC formula solved for the π term -/
def piTermOf (p n k : Nat) : Nat := (p + 1 + 2 ^ (n - 64) - 2 ^ n) / 2 ^ 64 - k

/-- public value / shared secret: `g^x mod p`, `y^x mod p`, as `len`-octet big-endian strings -/
def dhValue (p len base x : Nat) : Bytes := natToBytes len (base ^ x % p)

end Ike.Spec
