import IkeModel.Types
import IkeModel.Spec.Eap

/-! EAP on the wire — the independent STRICT PARSER of property C14.

`Spec.parseEap : Bytes → Option Eap` reads one EAP packet along the figures of
RFC 3748 §4 / §5 (packet, Identity, Notification, Nak, Expanded types),
RFC 4187 §8.1 / §10 and RFC 5448 §3 (EAP-AKA' header and attributes), one
definition per figure, and returns the fields the packet carries.  It is the
reading counterpart of the independent encoder `Spec.encodeEapAka`
(`IkeModel/Spec/Eap.lean`) and shares nothing with the model of the library's
codec (`IkeModel/Eap.lean` is not imported: no `unmarshalEap`, no `Facts`):
octets are taken off the front of the input by pattern matching, extents by
`List.take` / `List.drop`, integers by the arithmetic big-endian primitives of
`GoSem`.  Recursion is structural on a fuel argument, so `decide +kernel`
evaluates the parser on concrete packets.

STRICT = CANONICAL: the parser returns `none` for everything that is not the
form a strict sender emits —

* RFC 3748 §4     at least 4 octets; the Length field is the size of the input
                  (no octets after the packet, none missing);
* RFC 3748 §4.2   Success (3) / Failure (4) are exactly 4 octets long;
* RFC 3748 §5.1–3 Identity (1), Notification (2), Nak (3) carry ≥ 1 octet of type-data;
* RFC 3748 §5.7   Expanded (254): `254 | Vendor-Id (24) | Vendor-Type (32) | Vendor data`;
* RFC 4187 §8.1   EAP-AKA' (50): `50 | Subtype | Reserved (16) = 0 | attributes`; every attribute
                  `Type | Length (4-octet words, ≥ 1, header included) | …` lies inside the packet and the
                  attributes end exactly where the packet ends; the attribute types are strictly
                  ascending (hence no duplicates) — the order the library's encoder emits;
* §10.6/7/15      AT_RAND (1), AT_AUTN (2), AT_MAC (11): `t | 5 | Reserved (16) = 0 | 16 octets`;
* §10.8           AT_RES (3): `3 | words | RES length in bits | RES | zero padding`, the bit length a
                  multiple of 8 in 32..128, `words` the least number of words that holds it, every
                  padding octet 0;
* RFC 5448 §3.1   AT_KDF_INPUT (23): `23 | words | actual length | name | zero padding`, same rules
                  (unit of the actual length: `kdfInputLenUnit`, see `Spec/Eap.lean`), any name length
                  that the 8-bit word count can express (0..1016 octets);
* RFC 5448 §3.2   AT_KDF (24): `24 | 1 | KDF (16)`;
* §10.13          AT_CHECKCODE (134): `134 | words | Reserved (16) = 0 | checkcode`;
* every other attribute type, and every other EAP method type, is refused (the value type
  `EapData` has no room for them).

LIBERTIES (kept where property C14 quantifies more widely than the RFC text; `parseEapRfc`
below removes them):

* the Code octet is not restricted to 1..4 ("for all EAP codes"), and a packet of exactly 4 octets
  (no Type octet) is read as "no method data" under every code, not only under Success / Failure;
* the checkcode of AT_CHECKCODE may have any length the word count expresses (a multiple of 4,
  0..1016 octets); RFC 4187 / 5448 use 0, 20 and 32 only.

The result uses the value types of the model (`Eap`, `EapData`, `Aka`, `AkaAttr` in `Types.lean`):
an attribute is kept as (type, length octet, 16-bit field after the length octet, value without
padding) — for AT_KDF, which has no such field, 0. -/

namespace Ike.Spec

/-! ### RFC 4187 §10 / RFC 5448 §3 — one attribute

`t`, `w` are the Type and Length octets, the argument is what follows them inside the
attribute (`4·w − 2` octets). -/

/-- §10.6 AT_RAND, §10.7 AT_AUTN, §10.15 AT_MAC: `t | 5 | Reserved (16) = 0 | 16 octets` -/
def parseAtFixed16 (t w : UInt8) : Bytes → Option AkaAttr
  | r0 :: r1 :: v =>
    if w ≠ 5 ∨ r0 ≠ 0 ∨ r1 ≠ 0 ∨ v.length ≠ 16 then none else some ⟨t, w, 0, v⟩
  | _ => none

/-- §10.8 AT_RES, RFC 5448 §3.1 AT_KDF_INPUT:
`t | words | actual length (16), in units of 1/unit octet | value | zero padding to a word`;
the value has `lo..hi` octets -/
def parseAtPadded (t w : UInt8) (unit lo hi : Nat) : Bytes → Option AkaAttr
  | l0 :: l1 :: rest =>
    let field := l0.toNat * 256 + l1.toNat
    let n := field / unit
    if field % unit ≠ 0 then none else
    if n < lo ∨ hi < n then none else
    if w.toNat ≠ (n + 7) / 4 then none else               -- 4 header octets + n, rounded up to words
    if rest.length ≠ 4 * w.toNat - 4 then none else
    if rest.drop n ≠ zeros (rest.length - n) then none else
    some ⟨t, w, be16 l0 l1, rest.take n⟩
  | _ => none

/-- RFC 5448 §3.2 AT_KDF: `24 | 1 | Key Derivation Function (16)` -/
def parseAtKdf (t w : UInt8) : Bytes → Option AkaAttr
  | [k0, k1] => if w ≠ 1 then none else some ⟨t, w, 0, [k0, k1]⟩
  | _ => none

/-- §10.13 AT_CHECKCODE: `134 | words | Reserved (16) = 0 | checkcode` -/
def parseAtCheckcode (t w : UInt8) : Bytes → Option AkaAttr
  | r0 :: r1 :: v =>
    if r0 ≠ 0 ∨ r1 ≠ 0 ∨ v.length ≠ 4 * w.toNat - 4 then none else some ⟨t, w, 0, v⟩
  | _ => none

/-- the attribute whose Type and Length octets are `t`, `w` (table of RFC 4187 §10.1 restricted to
the seven attributes the value type knows) -/
def parseAkaAttr (t w : UInt8) (body : Bytes) : Option AkaAttr :=
  if t = 1 ∨ t = 2 ∨ t = 11 then parseAtFixed16 t w body
  else if t = 3 then parseAtPadded t w 8 4 16 body
  else if t = 23 then parseAtPadded t w kdfInputLenUnit 0 1016 body
  else if t = 24 then parseAtKdf t w body
  else if t = 134 then parseAtCheckcode t w body
  else none

/-- RFC 4187 §8.1 the attribute area up to the end of the input; `lo` = least attribute type still
allowed (strictly ascending types) -/
def parseAkaAttrs : Nat → Nat → Bytes → Option (List AkaAttr)
  | 0, _, _ => none
  | _ + 1, _, [] => some []
  | _ + 1, _, [_] => none
  | fuel + 1, lo, t :: w :: rest =>
    if w = 0 ∨ rest.length < 4 * w.toNat - 2 then none else
    if t.toNat < lo then none else
    match parseAkaAttr t w (rest.take (4 * w.toNat - 2)),
          parseAkaAttrs fuel (t.toNat + 1) (rest.drop (4 * w.toNat - 2)) with
    | some a, some as => some (a :: as)
    | _, _ => none

/-! ### the methods: type-data after the Type octet -/

/-- RFC 4187 §8.1 EAP-AKA / RFC 5448 EAP-AKA': `Subtype | Reserved (16) = 0 | attributes` -/
def parseAka : Bytes → Option EapData
  | st :: r0 :: r1 :: attrs =>
    if r0 ≠ 0 ∨ r1 ≠ 0 then none else
    match parseAkaAttrs (attrs.length + 1) 0 attrs with
    | some as => some (.aka ⟨st, 0, as⟩)
    | none => none
  | _ => none

/-- RFC 3748 §5.7 Expanded type: `Vendor-Id (24) | Vendor-Type (32) | Vendor data` -/
def parseExpanded : Bytes → Option EapData
  | v0 :: v1 :: v2 :: t0 :: t1 :: t2 :: t3 :: d =>
    some (.expanded (UInt32.ofNat ((v0.toNat * 256 + v1.toNat) * 256 + v2.toNat)) (be32 t0 t1 t2 t3) d)
  | _ => none

/-- RFC 3748 §5.1 Identity, §5.2 Notification, §5.3 Nak: at least one octet of type-data -/
def parseNonEmpty (mk : Bytes → EapData) (d : Bytes) : Option EapData :=
  if d = [] then none else some (mk d)

/-- RFC 3748 §5: the type-data `d` of a Request / Response of Type `ty` -/
def parseTypeData (ty : UInt8) (d : Bytes) : Option EapData :=
  if ty = 1 then parseNonEmpty .identity d
  else if ty = 2 then parseNonEmpty .notification d
  else if ty = 3 then parseNonEmpty .nak d
  else if ty = 50 then parseAka d
  else if ty = 254 then parseExpanded d
  else none

/-! ### RFC 3748 §4 — the packet -/

/-- `Code | Identifier | Length (16) = size of the packet | Type | Type-Data`;
a packet of 4 octets has no Type; Success (3) and Failure (4) have to be such a packet -/
def parseEap : Bytes → Option Eap
  | code :: ident :: l0 :: l1 :: rest =>
    if l0.toNat * 256 + l1.toNat ≠ 4 + rest.length then none else
    match rest with
    | [] => some ⟨code, ident, .none⟩
    | ty :: d =>
      if code = 3 ∨ code = 4 then none else
      match parseTypeData ty d with
      | some x => some ⟨code, ident, x⟩
      | none => none
  | _ => none

/-- RFC 7296 §3.16: the body of an EAP payload is one EAP packet (drop-in replacement for the
trusted `Spec.parseEAP` of `Spec/Parse.lean`, which goes through the model's `unmarshalEap`) -/
def parseEapPayload (b : Bytes) : Option Payload := (parseEap b).map .eap

/-! ### the parser's reading of the encoder's input -/

/-- the attribute `parseEap` reports for what `Spec.encodeAkaAttr t v` writes: type, length octet
(words), the 16-bit field after it (actual length for AT_RES / AT_KDF_INPUT, else 0), value -/
def akaAttrOf (t : UInt8) (v : Bytes) : AkaAttr :=
  if t = 1 ∨ t = 2 ∨ t = 11 then ⟨t, 5, 0, v⟩
  else if t = 3 then ⟨t, UInt8.ofNat ((v.length + 7) / 4), UInt16.ofNat (8 * v.length), v⟩
  else if t = 23 then ⟨t, UInt8.ofNat ((v.length + 7) / 4), UInt16.ofNat (kdfInputLenUnit * v.length), v⟩
  else if t = 24 then ⟨t, 1, 0, v⟩
  else ⟨t, UInt8.ofNat ((v.length + 7) / 4), 0, v⟩

/-! ### without the liberties -/

/-- the checkcode sizes of RFC 4187 §10.13 (0 or 20 octets) and RFC 5448 §3.5 (32 octets) -/
def checkcodeRfc (x : AkaAttr) : Bool := x.atype != 134 || x.value.length == 0 || x.value.length == 20 || x.value.length == 32

/-- RFC 3748 §4: Code 1..4; a Request / Response carries a Type; RFC 4187 / 5448 checkcode sizes -/
def eapRfcShape (e : Eap) : Bool :=
  (e.code == 3 || e.code == 4 || ((e.code == 1 || e.code == 2) && e.data != .none)) &&
  (match e.data with
   | .aka a => a.attrs.all checkcodeRfc
   | _ => true)

/-- `parseEap` restricted to what the RFC texts allow literally -/
def parseEapRfc (b : Bytes) : Option Eap :=
  match parseEap b with
  | some e => if eapRfcShape e then some e else none
  | none => none

end Ike.Spec
