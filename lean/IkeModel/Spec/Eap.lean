import IkeModel.GoSem
import IkeModel.Crypto.Prims

/-! EAP-AKA' on the wire, written from the RFC figures and independent of the
Go code (no `Facts`, no model function):

* RFC 3748 §4    — `Code | Identifier | Length(16) | Type | Type-Data`, Length = whole packet;
* RFC 4187 §8.1  — EAP-AKA header `Type | Subtype | Reserved(16) = 0`, then attributes
                   `Attribute Type | Length (in 4-octet words, header included) | Value`;
* RFC 4187 §10.6 AT_RAND(1), §10.7 AT_AUTN(2), §10.15 AT_MAC(11): `t | 5 | Reserved(16) = 0 | 16 octets`;
* RFC 4187 §10.8 AT_RES(3): `3 | words | RES length in bits | RES | zero padding to a word`;
* RFC 5448 §3.1  AT_KDF_INPUT(23): `23 | words | actual network name length | name | zero padding`
                   — the actual-length unit is `kdfInputLenUnit` below;
* RFC 5448 §3.2  AT_KDF(24): `24 | 1 | KDF(16)`;
* RFC 4187 §10.13 AT_CHECKCODE(134): `134 | words | Reserved(16) = 0 | checkcode (0, 20 or 32 octets)`;
* RFC 4187 §10.15 / RFC 5448 §3.4 — the MAC covers the whole EAP packet with the MAC
  field of AT_MAC set to zero; HMAC-SHA-256 truncated to the first 16 octets. -/

namespace Ike.Spec

/-- Property C14 states the AT_KDF_INPUT actual-length field "in bits" (and so do
the library and its test vectors); RFC 5448 §3.1 words it as a length in *bytes*.
The unit is kept in one place: 8 = as the property states it, 1 = RFC wording. -/
def kdfInputLenUnit : Nat := 8

def wordsFor (n : Nat) : Nat := (4 + n + 3) / 4

/-- one attribute from its type and value -/
def encodeAkaAttr (t : UInt8) (v : Bytes) : Bytes :=
  if t == 1 || t == 2 || t == 11 then [t, 5, 0, 0] ++ v
  else if t == 3 then
    [t, UInt8.ofNat (wordsFor v.length)] ++ put16 (UInt16.ofNat (8 * v.length)) ++ v ++
      zeros (4 * wordsFor v.length - 4 - v.length)
  else if t == 23 then
    [t, UInt8.ofNat (wordsFor v.length)] ++ put16 (UInt16.ofNat (kdfInputLenUnit * v.length)) ++ v ++
      zeros (4 * wordsFor v.length - 4 - v.length)
  else if t == 24 then [t, 1] ++ v
  else
    [t, UInt8.ofNat (wordsFor v.length), 0, 0] ++ v ++ zeros (4 * wordsFor v.length - 4 - v.length)

def encodeAkaAttrs : List (UInt8 × Bytes) → Bytes
  | [] => []
  | (t, v) :: rest => encodeAkaAttr t v ++ encodeAkaAttrs rest

/-- EAP type-data of an EAP-AKA' packet, attributes in the given order -/
def encodeAka (subtype : UInt8) (attrs : List (UInt8 × Bytes)) : Bytes :=
  [50, subtype, 0, 0] ++ encodeAkaAttrs attrs

/-- RFC 3748 §4 frame around type-data -/
def encodeEapFrame (code ident : UInt8) (typeData : Bytes) : Bytes :=
  [code, ident] ++ put16 (UInt16.ofNat (4 + typeData.length)) ++ typeData

def encodeEapAka (code ident subtype : UInt8) (attrs : List (UInt8 × Bytes)) : Bytes :=
  encodeEapFrame code ident (encodeAka subtype attrs)

/-- walk the attribute area, setting the 16 MAC octets of every AT_MAC to zero.
`none`: the octets do not split into attributes (zero length, overrun, AT_MAC not of
5 words).  The flag tells whether an AT_MAC was met. -/
def zeroMacAttrs : Nat → Bytes → Option (Bytes × Bool)
  | 0, _ => none
  | _ + 1, [] => some ([], false)
  | _ + 1, [_] => none
  | fuel + 1, t :: w :: rest =>
    let n := 4 * w.toNat - 2
    if w == 0 || n > rest.length then none else
    match zeroMacAttrs fuel (rest.drop n) with
    | none => none
    | some (tl, found) =>
      if t == 11 then
        if w != 5 then none else some (t :: w :: (rest.take 2 ++ zeros 16 ++ tl), true)
      else some (t :: w :: (rest.take n ++ tl), found)

/-- the packet with the AT_MAC value zeroed; `none` unless it is an EAP-AKA' packet
whose Length field equals its size, which splits into attributes and carries AT_MAC -/
def zeroMac (wire : Bytes) : Option Bytes :=
  if wire.length < 8 then none
  else if (byteAt wire 2).toNat * 256 + (byteAt wire 3).toNat ≠ wire.length then none
  else if byteAt wire 4 ≠ 50 then none
  else
    match zeroMacAttrs (wire.length + 1) (wire.drop 8) with
    | some (attrs, true) => some (wire.take 8 ++ attrs)
    | _ => none

/-- RFC 5448 §3.4: HMAC-SHA-256-128 under K_aut over the packet with the MAC field zeroed
(hash number 2 of `Prims.mac` is SHA-256) -/
def atMac (P : Prims) (key wire : Bytes) : Option Bytes :=
  match zeroMac wire with
  | some z => some ((P.mac 2 key z).take 16)
  | none => none

end Ike.Spec
