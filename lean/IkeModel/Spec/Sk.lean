import IkeModel.Security.Sa

/-! RFC 7296 §3.14 — the Encrypted payload, written from the RFC figure and
independent of the code's control flow:

    header(28, next = SK, length = total) ‖ SK generic header (next = first inner
    type, critical/reserved = 0, length = total − 28) ‖ IV ‖
    CBC(K_e, IV, inner ‖ pad ‖ [|pad|]) ‖ trunc(HMAC(K_a, everything before)) -/

namespace Ike.Spec

structure SkParams where
  ke     : Bytes      -- sender's direction encryption key
  ka     : Bytes      -- sender's direction integrity key
  hash   : Nat
  icvLen : Nat

def skMessage (P : Prims) (k : SkParams) (h : Header) (firstInner : UInt8) (inner iv pad : Bytes) : Bytes :=
  let pt := inner ++ pad ++ [UInt8.ofNat pad.length]
  let ct := cbcEnc (P.enc k.ke) iv pt
  let total := 28 + 4 + iv.length + ct.length + k.icvLen
  let hdr := put64 h.ispi ++ put64 h.rspi ++
    [Facts.typeSK, (h.major <<< 4) ||| (h.minor &&& 0x0F), h.exch, h.flags] ++ put32 h.mid ++ put32 (UInt32.ofNat total)
  let skh := [firstInner, 0] ++ put16 (UInt16.ofNat (total - 28))
  let body := hdr ++ skh ++ iv ++ ct
  body ++ (P.mac k.hash k.ka body).take k.icvLen

end Ike.Spec
