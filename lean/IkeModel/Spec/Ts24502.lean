import IkeModel.GoSem

/-! 3GPP TS 24.502 layouts, written from the specification text with literal
numbers only (nothing here refers to the model of the Go code or to the
generated facts): the EAP-5G packets of §9.3.2 and the 3GPP-specific Notify
payloads of §9.3.1 carried in IKEv2.  Each definition is the octet string on
the wire *inside* the IKE generic payload header. -/

namespace Ike.Spec.Ts24502

open Ike

/-- big-endian, exactly `n` octets -/
def be (n : Nat) (v : Nat) : Bytes := natToBytes n v

/-- RFC 3748 §4 / §5.7 expanded-type header of an EAP-5G packet whose
vendor data has `dataLen` octets: Code, Identifier, Length (2 octets, whole
packet), Type 254, Vendor-Id 10415 (3GPP, 3 octets), Vendor-Type 3 (EAP-5G, 4
octets). -/
def eap5gHeader (code ident : UInt8) (dataLen : Nat) : Bytes :=
  [code, ident] ++ be 2 (12 + dataLen) ++ [254] ++ be 3 10415 ++ be 4 3

/-- §9.3.2.2.1 5G-Start: EAP-Request, Message-Id 1, Spare 0 -/
def eap5gStart (ident : UInt8) : Bytes :=
  eap5gHeader 1 ident 2 ++ [1, 0]

/-- §9.3.2.2.2 5G-NAS (as a Request): Message-Id 2, Spare 0, NAS-PDU length
(2 octets), NAS-PDU. -/
def eap5gNas (ident : UInt8) (nas : Bytes) : Bytes :=
  eap5gHeader 1 ident (4 + nas.length) ++ [2, 0] ++ be 2 nas.length ++ nas

/-- the packet exists iff the NAS-PDU is non-empty and everything fits its
length field: the NAS-PDU length (2 octets), the EAP Length (2 octets, 16
octets of headers) and — the packet travels as the body of an IKEv2 EAP
payload — the Payload Length of RFC 7296 §3.2 (2 octets, counting the 4-octet
generic payload header). -/
def eap5gNasDefined (nas : Bytes) : Prop := 1 ≤ nas.length ∧ 4 + (16 + nas.length) ≤ 65535

instance (nas : Bytes) : Decidable (eap5gNasDefined nas) := by
  unfold eap5gNasDefined; infer_instance

/-- RFC 7296 §3.10 Notify payload body without SPI: Protocol ID 0, SPI Size 0,
Notify Message Type (2 octets), Notification Data -/
def notifyBody (ntype : Nat) (data : Bytes) : Bytes :=
  [0, 0] ++ be 2 ntype ++ data

/-- §9.3.1.1 5G_QOS_INFO Notification Data: Length (of the whole value,
including the Length octet), PDU session identity, number of QFIs, QFI list,
flags octet (bit 1 = DSCPI, bit 2 = DCSI), DSCP octet iff DSCPI. -/
def qosInfoData (pduSessionId : UInt8) (qfis : List UInt8) (isDefault : Bool) (dscp : Option UInt8) : Bytes :=
  let flags : Nat := (if dscp.isSome then 1 else 0) + (if isDefault then 2 else 0)
  let tail : Bytes := match dscp with | some d => [d] | none => []
  let total := 3 + qfis.length + 1 + tail.length
  be 1 total ++ [pduSessionId] ++ be 1 qfis.length ++ qfis ++ be 1 flags ++ tail

/-- the value is encodable iff the QFI count and the total length fit one octet -/
def qosInfoDefined (qfis : List UInt8) (dscp : Option UInt8) : Prop :=
  3 + qfis.length + 1 + (if dscp.isSome then 1 else 0) ≤ 255

instance (qfis : List UInt8) (dscp : Option UInt8) : Decidable (qosInfoDefined qfis dscp) := by
  unfold qosInfoDefined; infer_instance

/-- 5G_QOS_INFO, Notify Message Type 55501 -/
def notifyQosInfo (pduSessionId : UInt8) (qfis : List UInt8) (isDefault : Bool) (dscp : Option UInt8) : Bytes :=
  notifyBody 55501 (qosInfoData pduSessionId qfis isDefault dscp)

/-- NAS_IP4_ADDRESS, type 55502: the 4 octets of the address -/
def notifyNasIp4 (a b c d : UInt8) : Bytes := notifyBody 55502 [a, b, c, d]

/-- UP_IP4_ADDRESS, type 55504 -/
def notifyUpIp4 (a b c d : UInt8) : Bytes := notifyBody 55504 [a, b, c, d]

/-- NAS_TCP_PORT, type 55506: 2 octets, network order -/
def notifyNasTcpPort (port : Nat) : Bytes := notifyBody 55506 (be 2 port)

end Ike.Spec.Ts24502
