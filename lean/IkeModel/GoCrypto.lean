import IkeModel.GoRt
import IkeModel.Crypto.Prims

/-! `hash.Hash` objects created by `hmac.New(<hash>.New, key)` as the generated code sees them: the
hash number (0 md5, 1 sha1, 2 sha256, as in `Prims.mac`), the key and the octets written since the
last `Reset`.  `Sum(b)` appends the HMAC of what was written to `b` and leaves the object unchanged
(Go's `hmac` keeps the inner state); the primitive itself is the parameter `P : Prims` that every
generated function using it takes as its first argument. -/

namespace Ike.Go
open Ike

structure Mac where
  h   : Nat := 2
  key : Bytes := []
  buf : Bytes := []
deriving Repr, Inhabited, DecidableEq

def Mac.new (h : Nat) (key : Bytes) : Mac := { h := h, key := key, buf := [] }
def Mac.write (m : Mac) (x : Bytes) : Mac := { m with buf := m.buf ++ x }
def Mac.reset (m : Mac) : Mac := { m with buf := [] }
def Mac.sum (P : Prims) (m : Mac) (b : Bytes) : Bytes := b ++ P.mac m.h m.key m.buf
def Mac.size (P : Prims) (m : Mac) : Nat := P.macLen m.h

end Ike.Go
