import IkeModel.GoRt
import IkeModel.Crypto.Prims
import IkeModel.Security.Sa

/-! `hash.Hash` objects created by `hmac.New(<hash>.New, key)` as the generated code sees them: the
hash number (0 md5, 1 sha1, 2 sha256, as in `Prims.mac`), the key and the octets written since the
last `Reset`.  `Sum(b)` appends the HMAC of what was written to `b` and leaves the object unchanged
(Go's `hmac` keeps the inner state); the primitive itself is the parameter `P : Prims` that every
generated function using it takes as its first argument. -/

namespace Ike.Go
open Ike

structure Mac where
  h   : Nat := 2
  key : Bytes := []
  buf : Bytes := []
deriving Repr, Inhabited, DecidableEq

/-- the nil `hash.Hash` (what `Init` returns for a key of the wrong length, the zero value of a field): a hash
number no `hmac.New` produces.  Calling a method on it is a nil dereference in Go and NOT a fault here: the
functions that hold such values test them before use (`ike.go`, `GenerateKeyForChildSA`). -/
def Mac.nil : Mac := { h := 255 }
def Mac.isNil (m : Mac) : Bool := m.h == 255

def Mac.new (h : Nat) (key : Bytes) : Mac := { h := h, key := key, buf := [] }
def Mac.write (m : Mac) (x : Bytes) : Mac := { m with buf := m.buf ++ x }
def Mac.reset (m : Mac) : Mac := { m with buf := [] }
def Mac.sum (P : Prims) (m : Mac) (b : Bytes) : Bytes := b ++ P.mac m.h m.key m.buf
def Mac.size (P : Prims) (m : Mac) : Nat := P.macLen m.h

end Ike.Go

namespace Ike.Go
open Ike

/-! ### `crypto/rand.Reader` as an implicit state of the functions that draw from it

The state is the hand-written model's `Rand` (an octet stream served cyclically, the number of reads so far and
the read that fails, if any — what the harness' deterministic reader does); functions that draw take it as
parameter `rnd_` and return it first. -/

/-- `rand.Read(buf)` / `io.ReadFull(rand.Reader, buf)`: the source afterwards, the buffer, the count, the error -/
def randFill (r : Rand) (buf : Bytes) : Rand × Bytes × Nat × Err :=
  match r.draw buf.length with
  | (r', .ok bs) => (r', bs, buf.length, .none)
  | (r', _) => (r', buf, 0, .other)

/-! ### `crypto/aes` + `crypto/cipher` CBC: the block cipher is `P.enc` / `P.dec` under the key -/

/-- `aes.NewCipher(key)`: the block object (its key) and a non-nil error for a key that is not 16, 24 or 32 octets -/
def aesNewCipher (key : Bytes) : Bytes × Err :=
  if key.length = 16 ∨ key.length = 24 ∨ key.length = 32 then (key, .none) else ([], .other)

/-- `cipher.NewCBCEncrypter / NewCBCDecrypter(block, iv)` -/
structure Cbc where
  key : Bytes := []
  iv  : Bytes := []
  enc : Bool := true
deriving Repr, Inhabited, DecidableEq

/-- panics when the IV is not one block long -/
def newCbc (enc : Bool) (key iv : Bytes) : Res Cbc :=
  if iv.length = 16 then .ok ⟨key, iv, enc⟩ else .fault

/-- `mode.CryptBlocks(dst, src)`: what is written to the front of `dst` (panics: input not full blocks, output
smaller than input) -/
def cryptBlocks (P : Prims) (m : Cbc) (dstLen : Nat) (src : Bytes) : Res Bytes :=
  if src.length % 16 ≠ 0 ∨ dstLen < src.length then .fault
  else .ok (if m.enc then cbcEnc (P.enc m.key) m.iv src else cbcDec (P.dec m.key) m.iv src)

/-- `a % b` / `a / b` on Go ints with a divisor that is not a constant: a zero divisor panics -/
def imod (a b : Int) : Res Int := if b = 0 then .fault else .ok (Int.tmod a b)
def idiv (a b : Int) : Res Int := if b = 0 then .fault else .ok (Int.tdiv a b)

end Ike.Go

namespace Ike.Go
open Ike

/-! ### `crypto/rand.Int`, `math/big.Int.Cmp`, `strings.Repeat`, loops without a condition -/

/-- iterations allowed to a `for { … rand.Int … }` loop (rejection sampling: no bound follows from the text) -/
def unboundedLoopFuel : Nat := 64

/-- `strings.Repeat(s, n)` (panics for a negative count) -/
def strRepeat (s : Bytes) (n : Int) : Bytes := (List.replicate n.toNat s).flatten

/-- `x.Cmp(y)` -/
def bigCmp (x y : Nat) : Int := if x < y then -1 else if x = y then 0 else 1

/-- number of bits of `n` (`big.Int.BitLen`) -/
def bitLen : Nat → Nat
  | 0 => 0
  | n + 1 => Nat.log2 (n + 1) + 1

/-- the rejection-sampling loop of `crypto/rand.Int(rand.Reader, max)`: `k` octets per draw, the top octet masked to
`b` bits, accepted when below `max`; a failing read is the error; `fuel` draws at most -/
def randIntLoop (max k b : Nat) : Nat → Rand → Res (Rand × Nat × Err)
  | 0, _ => .fault
  | fuel + 1, r =>
    match r.draw k with
    | (r', .ok bs) =>
      let bs' := match bs with
        | [] => []
        | x :: rest => (x &&& UInt8.ofNat (2 ^ b - 1)) :: rest
      if beNat bs' < max then .ok (r', beNat bs', .none) else randIntLoop max k b fuel r'
    | (r', _) => .ok (r', 0, .other)

/-- `rand.Int(rand.Reader, max)`: panics for `max ≤ 0`; uniform in `[0, max)` by rejection sampling over
`⌈bitLen(max−1)/8⌉` octets per draw (Go 1.2x `crypto/rand/util.go`) -/
def randInt (r : Rand) (max : Nat) : Res (Rand × Nat × Err) :=
  if max = 0 then .fault
  else
    let bl := bitLen (max - 1)
    if bl = 0 then .ok (r, 0, .none)
    else
      let k := (bl + 7) / 8
      let b := if bl % 8 = 0 then 8 else bl % 8
      randIntLoop max k b unboundedLoopFuel r

end Ike.Go
