import IkeModel.GoSem

/-!
  GoRt — the run-time vocabulary of the *generated* model (`IkeModel/Generated/Gen*.lean`,
  written by `tools/go2lean` from /repo's current source on every run).

  The translator maps each Go statement to one of the primitives below; every primitive that can
  panic in Go returns `Res.fault` exactly under Go's rule (index `0 ≤ i < len`, slice
  `0 ≤ lo ≤ hi ≤ len` — reading spare capacity behind `len` counts as a fault, see `GoSem`),
  `make` with a negative size, a `PutUintN`/`UintN` on a window that is too short, a type assertion
  on the wrong dynamic type, a method call on a nil interface).  A loop that runs longer than the
  bound the translator derives from its header (`len(x)+1` for `for len(x) > 0`, `n+1` for a
  counting loop) is a `fault` as well: "panics or does not terminate within the bound".

  Go `int` is `Int` (unbounded: every `int` expression of the translated functions is a sum or
  product of lengths and of fields of at most 32 bits); `uintN` is `UIntN` with wrap-around
  arithmetic; a slice is a `List` (value semantics — the translator refuses functions in which a
  slice that is written through was not created by `make`/`append` in the same function).
-/

namespace Ike.Go

open Ike

@[inline] def len {α : Type} (l : List α) : Int := (l.length : Int)

/-- `l[i]` -/
def index {α : Type} [Inhabited α] (l : List α) (i : Int) : Res α :=
  if 0 ≤ i ∧ i < (l.length : Int) then .ok (l.getD i.toNat default) else .fault

/-- `l[lo:hi]` -/
def slice {α : Type} (l : List α) (lo hi : Int) : Res (List α) :=
  if 0 ≤ lo ∧ lo ≤ hi ∧ hi ≤ (l.length : Int) then .ok ((l.take hi.toNat).drop lo.toNat) else .fault

/-- `l[lo:]` -/
def sliceFrom {α : Type} (l : List α) (lo : Int) : Res (List α) :=
  if 0 ≤ lo ∧ lo ≤ (l.length : Int) then .ok (l.drop lo.toNat) else .fault

/-- `l[:hi]` -/
def sliceTo {α : Type} (l : List α) (hi : Int) : Res (List α) :=
  if 0 ≤ hi ∧ hi ≤ (l.length : Int) then .ok (l.take hi.toNat) else .fault

/-- `l[i] = v` -/
def set {α : Type} (l : List α) (i : Int) (v : α) : Res (List α) :=
  if 0 ≤ i ∧ i < (l.length : Int) then .ok (l.set i.toNat v) else .fault

/-- `l[i] = v` for an index that is syntactically non-negative -/
def setN {α : Type} (l : List α) (i : Nat) (v : α) : Res (List α) :=
  if i < l.length then .ok (l.set i v) else .fault

/-- `l[i]` for an index that is syntactically non-negative -/
def indexN {α : Type} [Inhabited α] (l : List α) (i : Nat) : Res α :=
  if i < l.length then .ok (l.getD i default) else .fault


/-- `make([]T, n)` -/
def make {α : Type} [Inhabited α] (n : Int) : Res (List α) :=
  if 0 ≤ n then .ok (List.replicate n.toNat default) else .fault

/-- `binary.BigEndian.Uint16(x)` -/
def beU16 (x : Bytes) : Res UInt16 :=
  if 2 ≤ x.length then .ok (be16 (byteAt x 0) (byteAt x 1)) else .fault

/-- `binary.BigEndian.Uint32(x)` -/
def beU32 (x : Bytes) : Res UInt32 :=
  if 4 ≤ x.length then .ok (be32 (byteAt x 0) (byteAt x 1) (byteAt x 2) (byteAt x 3)) else .fault

/-- `binary.BigEndian.Uint64(x)` -/
def beU64 (x : Bytes) : Res UInt64 :=
  if 8 ≤ x.length then .ok (be64 x) else .fault

/-- `binary.BigEndian.Uint16(b[lo:hi])` -/
def u16At (b : Bytes) (lo hi : Nat) : Res UInt16 := goSlice b lo hi >>= beU16
/-- `binary.BigEndian.Uint32(b[lo:hi])` -/
def u32At (b : Bytes) (lo hi : Nat) : Res UInt32 := goSlice b lo hi >>= beU32
/-- `binary.BigEndian.Uint64(b[lo:hi])` -/
def u64At (b : Bytes) (lo hi : Nat) : Res UInt64 := goSlice b lo hi >>= beU64

/-- overwrite `d[off .. off+|v|)` with `v` (caller guarantees the window fits) -/
def splice (d : Bytes) (off : Nat) (v : Bytes) : Bytes :=
  d.take off ++ v ++ d.drop (off + v.length)

/-- store through a pointer to the `i`-th element of a container (no element there: nothing happens) -/
def setAt {α : Type} (xs : List α) (i : Nat) (x : α) : List α := xs.set i x

/-- `binary.BigEndian.PutUint16(d[lo:hi], v)` -/
def putU16 (d : Bytes) (lo hi : Nat) (v : UInt16) : Res Bytes :=
  if lo + 2 ≤ hi ∧ hi ≤ d.length then .ok (splice d lo (put16 v)) else .fault

/-- `binary.BigEndian.PutUint32(d[lo:hi], v)` -/
def putU32 (d : Bytes) (lo hi : Nat) (v : UInt32) : Res Bytes :=
  if lo + 4 ≤ hi ∧ hi ≤ d.length then .ok (splice d lo (put32 v)) else .fault

/-- `binary.BigEndian.PutUint64(d[lo:hi], v)` -/
def putU64 (d : Bytes) (lo hi : Nat) (v : UInt64) : Res Bytes :=
  if lo + 8 ≤ hi ∧ hi ≤ d.length then .ok (splice d lo (put64 v)) else .fault

/-- `copy(dst[lo:hi], src)`: the new `dst` and the number of elements copied -/
def copyInto {α : Type} (dst : List α) (lo hi : Nat) (src : List α) : Res (List α × Nat) :=
  if lo ≤ hi ∧ hi ≤ dst.length then
    let n := min (hi - lo) src.length
    .ok (dst.take lo ++ src.take n ++ dst.drop (lo + n), n)
  else .fault

/-! conversions between Go's integer types (two's-complement truncation) -/

@[inline] def toU8 (x : Int) : UInt8 := UInt8.ofNat (x % 256).toNat
@[inline] def toU16 (x : Int) : UInt16 := UInt16.ofNat (x % 65536).toNat
@[inline] def toU32 (x : Int) : UInt32 := UInt32.ofNat (x % 4294967296).toNat
@[inline] def toU64 (x : Int) : UInt64 := UInt64.ofNat (x % 18446744073709551616).toNat

/-- a call `x, err := f(..)` whose error is inspected later: the value (zero value on error) and
whether the error is non-nil -/
def catchErr {α : Type} [Inhabited α] (r : Res α) : Res (α × Bool) :=
  match r with
  | .ok a => .ok (a, false)
  | .err => .ok (default, true)
  | .fault => .fault

/-- fuel of a generated loop function ran out -/
@[inline] def outOfFuel {α : Type} : Res α := .fault

end Ike.Go

namespace Ike.Go
open Ike

/-! ### error values that the code compares with (`err == io.EOF`) -/

inductive Err where
  | none | eof | unexpectedEof | other
deriving DecidableEq, Repr, Inhabited

def Err.ofBool (b : Bool) : Err := if b then .other else .none

/-! ### `bytes.Reader` / `bufio.Reader` over a byte slice: the octets not yet read -/

abbrev Reader := Bytes

/-- `r.ReadByte()` : the reader afterwards, the octet, `io.EOF` at the end -/
def readByte (r : Reader) : Reader × UInt8 × Err :=
  match r with
  | [] => ([], 0, .eof)
  | x :: rest => (rest, x, .none)

/-- `io.ReadFull(r, buf)` : the reader and the buffer afterwards, the count, and `nil` / `io.EOF`
(nothing read) / `io.ErrUnexpectedEOF` (fewer than `len(buf)` octets read) -/
def readFull (r : Reader) (buf : Bytes) : Reader × Bytes × Nat × Err :=
  let n := min buf.length r.length
  (r.drop n, r.take n ++ buf.drop n, n,
    if n = buf.length then .none else if n = 0 then .eof else .unexpectedEof)

/-! ### maps: `nil` or an association list in insertion order with unique keys -/

abbrev Map (κ ν : Type) := Option (List (κ × ν))

def mapSetList {κ ν : Type} [DecidableEq κ] : List (κ × ν) → κ → ν → List (κ × ν)
  | [], k, v => [(k, v)]
  | (k', v') :: rest, k, v => if k' = k then (k, v) :: rest else (k', v') :: mapSetList rest k v

/-- `m[k] = v` (a write to a nil map panics) -/
def mapSet {κ ν : Type} [DecidableEq κ] (m : Map κ ν) (k : κ) (v : ν) : Res (Map κ ν) :=
  match m with
  | none => .fault
  | some l => .ok (some (mapSetList l k v))

def mapGetList {κ ν : Type} [DecidableEq κ] : List (κ × ν) → κ → Option ν
  | [], _ => none
  | (k', v') :: rest, k => if k' = k then some v' else mapGetList rest k

/-- `v, ok := m[k]` -/
def mapGet {κ ν : Type} [DecidableEq κ] [Inhabited ν] (m : Map κ ν) (k : κ) : ν × Bool :=
  match m with
  | none => (default, false)
  | some l => match mapGetList l k with
    | some v => (v, true)
    | none => (default, false)

/-- the entries in the order `range` visits them in the model (Go's order is unspecified) -/
def mapEntries {κ ν : Type} (m : Map κ ν) : List (κ × ν) :=
  match m with
  | none => []
  | some l => l

def mapLen {κ ν : Type} (m : Map κ ν) : Nat := (mapEntries m).length

/-- `sort.Slice(x, func(i, j) bool { return x[i] < x[j] })` on octets: insertion sort (any
correct sort gives the same list when the keys are distinct) -/
def insertU8 (x : UInt8) : List UInt8 → List UInt8
  | [] => [x]
  | y :: rest => if x ≤ y then x :: y :: rest else y :: insertU8 x rest

def sortU8 : List UInt8 → List UInt8
  | [] => []
  | x :: rest => insertU8 x (sortU8 rest)

end Ike.Go

namespace Ike.Go
open Ike

/-! ### `math/big` as far as the DH groups use it: a `*big.Int` is a natural number -/

def hexDigit (c : UInt8) : Option Nat :=
  if 48 ≤ c.toNat ∧ c.toNat ≤ 57 then some (c.toNat - 48)
  else if 65 ≤ c.toNat ∧ c.toNat ≤ 70 then some (c.toNat - 55)
  else if 97 ≤ c.toNat ∧ c.toNat ≤ 102 then some (c.toNat - 87)
  else none

/-- `new(big.Int).SetString(s, 16)`: the value and whether `s` is a non-empty string of hexadecimal digits -/
def bigSetHex (s : Bytes) : Nat × Bool :=
  if s = [] then (0, false) else
  match s.foldl (fun acc c => match acc, hexDigit c with
      | some n, some d => some (n * 16 + d)
      | _, _ => none) (some 0) with
  | some n => (n, true)
  | none => (0, false)

/-- square-and-multiply on the bits of the exponent (fuel = number of bits + 1) -/
def powModAux (m : Nat) : Nat → Nat → Nat → Nat → Nat
  | 0, _, _, acc => acc
  | fuel + 1, b, e, acc =>
    if e = 0 then acc
    else powModAux m fuel (b * b % m) (e / 2) (if e % 2 = 1 then acc * b % m else acc)

/-- `z.Exp(x, y, m)`: `x**y mod m` for `m > 0`, `x**y` for `m = 0` -/
def bigExp (x y m : Nat) : Nat :=
  if m = 0 then x ^ y else powModAux m (y.log2 + 2) (x % m) y (1 % m)

end Ike.Go
