import IkeModel.GoSem
import IkeModel.Generated.Facts

/-! Value types of the model: one structure per Go struct (exported fields in
declaration order; Go widths kept). -/

namespace Ike

structure Transform where
  ttype   : UInt8
  tid     : UInt16
  present : Bool
  fmt     : UInt8
  atype   : UInt16
  aval    : UInt16
  vval    : Bytes
deriving DecidableEq, Repr, Inhabited

structure Proposal where
  num   : UInt8
  proto : UInt8
  spi   : Bytes
  encr  : List Transform
  prf   : List Transform
  integ : List Transform
  dh    : List Transform
  esn   : List Transform
deriving DecidableEq, Repr, Inhabited

structure TSel where
  tstype : UInt8
  proto  : UInt8
  sport  : UInt16
  eport  : UInt16
  saddr  : Bytes
  eaddr  : Bytes
deriving DecidableEq, Repr, Inhabited

structure CPAttr where
  atype : UInt16
  value : Bytes
deriving DecidableEq, Repr, Inhabited

/-- one entry of the Go `map[EapAkaPrimeAttrType]*EapAkaPrimeAttr` -/
structure AkaAttr where
  atype    : UInt8
  length   : UInt8
  reserved : UInt16
  value    : Bytes
deriving DecidableEq, Repr, Inhabited

/-- `attrs` models the Go map as an association list kept sorted by `atype`
with unique keys (`Aka.insert`); `hasMap = false` is the nil map of a zero
value (`new(EapAkaPrime)` before `SetAttr`/`Unmarshal`). -/
structure Aka where
  subtype  : UInt8
  reserved : UInt16
  attrs    : List AkaAttr
deriving DecidableEq, Repr, Inhabited

inductive EapData where
  | none
  | identity (d : Bytes)
  | notification (d : Bytes)
  | nak (d : Bytes)
  | expanded (vid : UInt32) (vtype : UInt32) (d : Bytes)
  | aka (a : Aka)
deriving DecidableEq, Repr, Inhabited

structure Eap where
  code  : UInt8
  ident : UInt8
  data  : EapData
deriving DecidableEq, Repr, Inhabited

inductive Payload where
  | sa (ps : List Proposal)
  | ke (group : UInt16) (d : Bytes)
  | idi (t : UInt8) (d : Bytes)
  | idr (t : UInt8) (d : Bytes)
  | cert (enc : UInt8) (d : Bytes)
  | certreq (enc : UInt8) (d : Bytes)
  | auth (m : UInt8) (d : Bytes)
  | nonce (d : Bytes)
  | notify (proto : UInt8) (ntype : UInt16) (spi : Bytes) (d : Bytes)
  | delete (proto : UInt8) (spiSize : UInt8) (num : UInt16) (spis : List UInt32)
  | vendor (d : Bytes)
  | tsi (l : List TSel)
  | tsr (l : List TSel)
  | sk (next : UInt8) (d : Bytes)
  | cp (ctype : UInt8) (attrs : List CPAttr)
  | eap (e : Eap)
deriving DecidableEq, Repr, Inhabited

/-- `IKEHeader`; `next`/`payloadBytes` are the two derived fields. -/
structure Header where
  ispi  : UInt64
  rspi  : UInt64
  major : UInt8
  minor : UInt8
  exch  : UInt8
  flags : UInt8
  mid   : UInt32
  next  : UInt8 := 0
  payloadBytes : Bytes := []
deriving DecidableEq, Repr, Inhabited

structure Msg where
  hdr      : Header
  payloads : List Payload
deriving DecidableEq, Repr, Inhabited

/-- `Type()` of each payload struct. -/
def Payload.typeCode : Payload → UInt8
  | .sa _ => Facts.typeSA
  | .ke _ _ => Facts.typeKE
  | .idi _ _ => Facts.typeIDi
  | .idr _ _ => Facts.typeIDr
  | .cert _ _ => Facts.typeCERT
  | .certreq _ _ => Facts.typeCERTreq
  | .auth _ _ => Facts.typeAUTH
  | .nonce _ => Facts.typeNiNr
  | .notify _ _ _ _ => Facts.typeN
  | .delete _ _ _ _ => Facts.typeD
  | .vendor _ => Facts.typeV
  | .tsi _ => Facts.typeTSi
  | .tsr _ => Facts.typeTSr
  | .sk _ _ => Facts.typeSK
  | .cp _ _ => Facts.typeCP
  | .eap _ => Facts.typeEAP

end Ike
