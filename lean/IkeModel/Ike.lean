import IkeModel.Security.Sa
import IkeModel.Message.Chain

/-! `ike.go`: EncodeEncrypt / DecodeDecrypt (protect / unprotect) over the SA's
stateful objects.  `role = true` is `message.Role_Initiator`. -/

set_option linter.unusedVariables false

namespace Ike

/-- `encryptPayload` : the caller's own direction -/
def encryptPayload (P : Prims) (sa : SAKey) (role : Bool) (r : Rand) (plain : Bytes) : Rand × Res Bytes :=
  if role then cbcEncrypt P sa.encr_i r plain else cbcEncrypt P sa.encr_r r plain

/-- `decryptPayload` : the peer's direction -/
def decryptPayload (P : Prims) (sa : SAKey) (role : Bool) (ct : Bytes) : Res Bytes :=
  if role then cbcDecrypt P sa.encr_r ct else cbcDecrypt P sa.encr_i ct

/-- replace the last `n` octets of `d` by `c` (`copy(checksumField, checksum)`) -/
def setTail (d : Bytes) (n : Nat) (c : Bytes) : Bytes := d.take (d.length - n) ++ c.take n ++ (d.drop (d.length - n)).drop (c.take n).length

/-- `EncodeEncrypt` with an SA key: `encryptMsg` followed by `Encode`.
Returns the SA (hash-object buffers changed), the random source, and on success
the datagram together with the message as the call leaves it. -/
def protect (P : Prims) (sa : SAKey) (role : Bool) (r : Rand) (m : Msg) : SAKey × Rand × Res (Bytes × Msg) :=
  let cl := sa.integInfo.outLen
  match encodeChain m.payloads with
  | .err => (sa, r, .err)
  | .fault => (sa, r, .fault)
  | .ok plain =>
    match encryptPayload P sa role r plain with
    | (r1, .err) => (sa, r1, .err)
    | (r1, .fault) => (sa, r1, .fault)
    | (r1, .ok ct) =>
      let encData := ct ++ zeros cl
      let next : UInt8 := firstType m.payloads
      let m1 : Msg := ⟨m.hdr, [.sk next encData]⟩
      match encodeMsg m1 with
      | .err => (sa, r1, .err)
      | .fault => (sa, r1, .fault)
      | .ok (data, h1) =>
        if data.length < cl then (sa, r1, .fault) else     -- ikeMsgData[:len-cl]
        match calcIntegrity P sa role (data.take (data.length - cl)) with
        | (sa1, .err) => (sa1, r1, .err)
        | (sa1, .fault) => (sa1, r1, .fault)
        | (sa1, .ok checksum) =>
          let m2 : Msg := ⟨h1, [.sk next (setTail encData cl checksum)]⟩
          match encodeMsg m2 with
          | .err => (sa1, r1, .err)
          | .fault => (sa1, r1, .fault)
          | .ok (out, h2) => (sa1, r1, .ok (out, ⟨h2, m2.payloads⟩))

/-- `EncodeEncrypt` with a nil SA key -/
def encodePlain (m : Msg) : Res (Bytes × Msg) := do
  let (bs, h) ← encodeMsg m
  .ok (bs, ⟨h, m.payloads⟩)

/-- the payload scan of `decryptMsg`: every payload must be SK; the last one is used -/
def lastSK : List Payload → Option (UInt8 × Bytes) → Res (Option (UInt8 × Bytes))
  | [], acc => .ok acc
  | .sk n d :: rest, _ => lastSK rest (some (n, d))
  | _ :: _, _ => .err

/-- `decryptMsg`; the `Nat` counts calls of the cipher's Decrypt.
The Go slice expressions `EncryptedData[len-cl:]`, `msg[:len(msg)-cl]`,
`EncryptedData[:len-cl]` are written as guards (`fault` = negative bound) followed
by `take`/`drop`. -/
def decryptMsg (P : Prims) (sa : SAKey) (role : Bool) (msg : Bytes) (m : Msg) : SAKey × Nat × Res Msg :=
  match lastSK m.payloads none with
  | .err => (sa, 0, .err)
  | .fault => (sa, 0, .fault)
  | .ok none => (sa, 0, .fault)      -- nil dereference: not reachable from DecodeDecrypt
  | .ok (some (next, encData)) =>
    let cl := sa.integInfo.outLen
    if encData.length < cl then (sa, 0, .err) else
    if msg.length < cl then (sa, 0, .fault) else
    let checksum := encData.drop (encData.length - cl)
    let signed := msg.take (msg.length - cl)
    match calcIntegrity P sa (!role) signed with
    | (sa1, .err) => (sa1, 0, .err)
    | (sa1, .fault) => (sa1, 0, .fault)
    | (sa1, .ok expect) =>
      if !(bytesEq checksum expect) then (sa1, 0, .err) else
      let ct := encData.take (encData.length - cl)
      match decryptPayload P sa1 role ct with
      | .err => (sa1, 1, .err)
      | .fault => (sa1, 1, .fault)
      | .ok plain =>
        match decodeChain next plain with
        | .err => (sa1, 1, .err)
        | .fault => (sa1, 1, .fault)
        | .ok ps => (sa1, 1, .ok ⟨m.hdr, ps⟩)

/-- `DecodeDecrypt(msg, ikeHeader, ikesaKey, role)`; `hdr = none` ⇔ nil header,
`sa = none` ⇔ nil key.  Second component: number of cipher Decrypt calls. -/
def unprotect (P : Prims) (sa : Option SAKey) (role : Bool) (hdr : Option Header) (msg : Bytes) :
    Option SAKey × Nat × Res Msg :=
  let decoded : Res Msg :=
    match hdr with
    | none => decodeMsg msg
    | some h => do
      let body ← goFrom msg Facts.ikeHeaderLen
      let ps ← decodeChain h.next body
      .ok ⟨h, ps⟩
  match decoded with
  | .err => (sa, 0, .err)
  | .fault => (sa, 0, .fault)
  | .ok m =>
    match m.payloads with
    | [] => if m.hdr.next == Facts.typeSK then (sa, 0, .err) else (sa, 0, .ok m)
    | p :: _ =>
      if p.typeCode == Facts.typeSK then
        match sa with
        | none => (none, 0, .err)
        | some k =>
          let (k', n, r) := decryptMsg P k role msg m
          (some k', n, r)
      else (sa, 0, .ok m)

end Ike
