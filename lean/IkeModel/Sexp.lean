import IkeModel.Message.Chain

/-! The textual form shared with the Go harness (harness/sx.go, render.go):
parser, printer, and conversions between S-expressions and model values.
Driver-side code: not used by any theorem. -/

namespace Ike

inductive Sx where
  | atom (s : String)
  | list (l : List Sx)
deriving Inhabited, Repr

namespace Sx

partial def toStr : Sx → String
  | atom s => s
  | list l => "(" ++ " ".intercalate (l.map toStr) ++ ")"

/-- tokenizer: parentheses are tokens, everything else is split on blanks -/
def tokens (s : String) : Array String := Id.run do
  let mut out : Array String := #[]
  let mut cur : String := ""
  for c in s.toList do
    if c == '(' || c == ')' then
      if cur != "" then out := out.push cur; cur := ""
      out := out.push (String.singleton c)
    else if c == ' ' || c == '\n' || c == '\t' || c == '\r' then
      if cur != "" then out := out.push cur; cur := ""
    else cur := cur.push c
  if cur != "" then out := out.push cur
  return out

/-- parse from token position `i`; returns the value and the next position -/
partial def parseAt (ts : Array String) (i : Nat) : Option (Sx × Nat) :=
  if h : i < ts.size then
    let t := ts[i]
    if t == "(" then
      let rec loop (j : Nat) (acc : Array Sx) : Option (Sx × Nat) :=
        if h2 : j < ts.size then
          if ts[j] == ")" then some (list acc.toList, j + 1)
          else match parseAt ts j with
            | some (v, k) => loop k (acc.push v)
            | none => none
        else none
      loop (i + 1) #[]
    else if t == ")" then none
    else some (atom t, i + 1)
  else none

def parseTokens (ts : Array String) (i : Nat) : Option (Sx × Nat) := parseAt ts i

end Sx

/-! ### hex -/

def hexDigit (n : Nat) : Char :=
  if n < 10 then Char.ofNat (48 + n) else Char.ofNat (87 + n)

def hexOfBytes (b : Bytes) : String :=
  String.ofList (b.foldr (fun x acc => hexDigit (x.toNat / 16) :: hexDigit (x.toNat % 16) :: acc) [])

def xhex (b : Bytes) : String := "x" ++ hexOfBytes b

def hexVal (c : Char) : Option Nat :=
  if '0' ≤ c ∧ c ≤ '9' then some (c.toNat - 48)
  else if 'a' ≤ c ∧ c ≤ 'f' then some (c.toNat - 87)
  else if 'A' ≤ c ∧ c ≤ 'F' then some (c.toNat - 55)
  else none

def bytesOfHexChars : List Char → Option Bytes
  | [] => some []
  | a :: b :: rest => do
    let x ← hexVal a
    let y ← hexVal b
    let tl ← bytesOfHexChars rest
    pure (UInt8.ofNat (x * 16 + y) :: tl)
  | _ => none

/-- `x<hex>` → bytes -/
def parseX (s : String) : Option Bytes :=
  match s.toList with
  | 'x' :: rest => bytesOfHexChars rest
  | _ => none

/-! ### printing model values (output form) -/

def sN (n : Nat) : Sx := .atom (toString n)
def sX (b : Bytes) : Sx := .atom (xhex b)
def sB (b : Bool) : Sx := .atom (if b then "1" else "0")

def sxTransform (t : Transform) : Sx :=
  .list [.atom "T", sN t.ttype.toNat, sN t.tid.toNat, sB t.present, sN t.fmt.toNat, sN t.atype.toNat, sN t.aval.toNat, sX t.vval]

def sxProposal (p : Proposal) : Sx :=
  .list [.atom "P", sN p.num.toNat, sN p.proto.toNat, sX p.spi,
    .list (p.encr.map sxTransform), .list (p.prf.map sxTransform), .list (p.integ.map sxTransform),
    .list (p.dh.map sxTransform), .list (p.esn.map sxTransform)]

def sxTSel (t : TSel) : Sx :=
  .list [.atom "TS", sN t.tstype.toNat, sN t.proto.toNat, sN t.sport.toNat, sN t.eport.toNat, sX t.saddr, sX t.eaddr]

def sxEapData : EapData → Sx
  | .none => .atom "nil"
  | .identity d => .list [.atom "ID", sX d]
  | .notification d => .list [.atom "NOTIF", sX d]
  | .nak d => .list [.atom "NAK", sX d]
  | .expanded v t d => .list [.atom "EXP", sN v.toNat, sN t.toNat, sX d]
  | .aka a =>
    let m := match marshalAka a with
      | .ok b => sX b
      | _ => .atom "!"
    .list ([.atom "AKA", sN a.subtype.toNat, m] ++ a.attrs.map (fun x => .list [.atom "AT", sN x.atype.toNat, sX x.value]))

def sxEap (e : Eap) : Sx := .list [.atom "EAP", sN e.code.toNat, sN e.ident.toNat, sxEapData e.data]

def sxPayload : Payload → Sx
  | .sa ps => .list [.atom "SA", .list (ps.map sxProposal)]
  | .ke g d => .list [.atom "KE", sN g.toNat, sX d]
  | .idi t d => .list [.atom "IDi", sN t.toNat, sX d]
  | .idr t d => .list [.atom "IDr", sN t.toNat, sX d]
  | .cert e d => .list [.atom "CERT", sN e.toNat, sX d]
  | .certreq e d => .list [.atom "CERTREQ", sN e.toNat, sX d]
  | .auth m d => .list [.atom "AUTH", sN m.toNat, sX d]
  | .nonce d => .list [.atom "NONCE", sX d]
  | .notify p t s d => .list [.atom "N", sN p.toNat, sN t.toNat, sX s, sX d]
  | .delete p s n l => .list [.atom "D", sN p.toNat, sN s.toNat, sN n.toNat, .list (l.map (fun v => sN v.toNat))]
  | .vendor d => .list [.atom "V", sX d]
  | .tsi l => .list [.atom "TSi", .list (l.map sxTSel)]
  | .tsr l => .list [.atom "TSr", .list (l.map sxTSel)]
  | .sk n d => .list [.atom "SK", sN n.toNat, sX d]
  | .cp t a => .list [.atom "CP", sN t.toNat, .list (a.map (fun x => .list [.atom "A", sN x.atype.toNat, sX x.value]))]
  | .eap e => sxEap e

def sxPayloads (ps : List Payload) : Sx := .list (ps.map sxPayload)

def sxHeader (h : Header) : Sx :=
  .list [.atom "H", sN h.ispi.toNat, sN h.rspi.toNat, sN h.major.toNat, sN h.minor.toNat, sN h.exch.toNat, sN h.flags.toNat, sN h.mid.toNat]

def sxHeaderFull (h : Header) : Sx :=
  .list [.atom "H", sN h.ispi.toNat, sN h.rspi.toNat, sN h.major.toNat, sN h.minor.toNat, sN h.exch.toNat, sN h.flags.toNat, sN h.mid.toNat,
    sN h.next.toNat, sX h.payloadBytes]

def sxMsg (m : Msg) : Sx := .list [.atom "msg", sxHeader m.hdr, sxPayloads m.payloads]

/-! ### reading model values (input form) -/

def Sx.nat? : Sx → Option Nat
  | .atom s => s.toNat?
  | _ => none

def Sx.bytes? : Sx → Option Bytes
  | .atom s => parseX s
  | _ => none

def Sx.items? : Sx → Option (List Sx)
  | .list l => some l
  | _ => none

def rdTransform : Sx → Option Transform
  | .list [.atom "T", a, b, c, d, e, f, g] => do
    pure ⟨UInt8.ofNat (← a.nat?), UInt16.ofNat (← b.nat?), (← c.nat?) != 0, UInt8.ofNat (← d.nat?),
          UInt16.ofNat (← e.nat?), UInt16.ofNat (← f.nat?), ← g.bytes?⟩
  | _ => none

def rdTransforms (s : Sx) : Option (List Transform) := do (← s.items?).mapM rdTransform

def rdProposal : Sx → Option Proposal
  | .list [.atom "P", a, b, c, e1, e2, e3, e4, e5] => do
    pure ⟨UInt8.ofNat (← a.nat?), UInt8.ofNat (← b.nat?), ← c.bytes?, ← rdTransforms e1, ← rdTransforms e2,
          ← rdTransforms e3, ← rdTransforms e4, ← rdTransforms e5⟩
  | _ => none

def rdTSel : Sx → Option TSel
  | .list [.atom "TS", a, b, c, d, e, f] => do
    pure ⟨UInt8.ofNat (← a.nat?), UInt8.ofNat (← b.nat?), UInt16.ofNat (← c.nat?), UInt16.ofNat (← d.nat?), ← e.bytes?, ← f.bytes?⟩
  | _ => none

/-- `(AKA sub (SET t xV)...)`: built through SetAttr; `none` inside = a refused SET -/
def rdAkaSets (a : Aka) : List Sx → Option (Res Aka)
  | [] => some (.ok a)
  | .list [.atom "SET", t, v] :: rest => do
    match akaSetAttr a (UInt8.ofNat (← t.nat?)) (← v.bytes?) with
    | .ok a' => rdAkaSets a' rest
    | .err => some .err
    | .fault => some .fault
  | _ => none

def rdEapData : Sx → Option (Res EapData)
  | .atom "nil" => some (.ok .none)
  | .list [.atom "ID", d] => do pure (.ok (.identity (← d.bytes?)))
  | .list [.atom "NOTIF", d] => do pure (.ok (.notification (← d.bytes?)))
  | .list [.atom "NAK", d] => do pure (.ok (.nak (← d.bytes?)))
  | .list [.atom "EXP", v, t, d] => do pure (.ok (.expanded (UInt32.ofNat (← v.nat?)) (UInt32.ofNat (← t.nat?)) (← d.bytes?)))
  | .list (.atom "AKA" :: st :: sets) => do
    let r ← rdAkaSets ⟨UInt8.ofNat (← st.nat?), 0, []⟩ sets
    pure (match r with | .ok a => .ok (.aka a) | .err => .err | .fault => .fault)
  | _ => none

def rdEap : Sx → Option (Res Eap)
  | .list [.atom "EAP", c, i, d] => do
    let rd ← rdEapData d
    let code := UInt8.ofNat (← c.nat?)
    let ident := UInt8.ofNat (← i.nat?)
    pure (match rd with | .ok x => .ok ⟨code, ident, x⟩ | .err => .err | .fault => .fault)
  | _ => none

def rdPayload : Sx → Option Payload
  | .list [.atom "SA", ps] => do pure (.sa (← (← ps.items?).mapM rdProposal))
  | .list [.atom "KE", g, d] => do pure (.ke (UInt16.ofNat (← g.nat?)) (← d.bytes?))
  | .list [.atom "IDi", t, d] => do pure (.idi (UInt8.ofNat (← t.nat?)) (← d.bytes?))
  | .list [.atom "IDr", t, d] => do pure (.idr (UInt8.ofNat (← t.nat?)) (← d.bytes?))
  | .list [.atom "CERT", t, d] => do pure (.cert (UInt8.ofNat (← t.nat?)) (← d.bytes?))
  | .list [.atom "CERTREQ", t, d] => do pure (.certreq (UInt8.ofNat (← t.nat?)) (← d.bytes?))
  | .list [.atom "AUTH", t, d] => do pure (.auth (UInt8.ofNat (← t.nat?)) (← d.bytes?))
  | .list [.atom "NONCE", d] => do pure (.nonce (← d.bytes?))
  | .list [.atom "N", p, t, s, d] => do pure (.notify (UInt8.ofNat (← p.nat?)) (UInt16.ofNat (← t.nat?)) (← s.bytes?) (← d.bytes?))
  | .list [.atom "D", p, s, n, l] => do
    pure (.delete (UInt8.ofNat (← p.nat?)) (UInt8.ofNat (← s.nat?)) (UInt16.ofNat (← n.nat?))
      (← (← l.items?).mapM (fun x => do pure (UInt32.ofNat (← x.nat?)))))
  | .list [.atom "V", d] => do pure (.vendor (← d.bytes?))
  | .list [.atom "TSi", l] => do pure (.tsi (← (← l.items?).mapM rdTSel))
  | .list [.atom "TSr", l] => do pure (.tsr (← (← l.items?).mapM rdTSel))
  | .list [.atom "SK", n, d] => do pure (.sk (UInt8.ofNat (← n.nat?)) (← d.bytes?))
  | .list [.atom "CP", t, l] => do
    pure (.cp (UInt8.ofNat (← t.nat?)) (← (← l.items?).mapM (fun x => match x with
      | .list [.atom "A", ty, v] => do pure (⟨UInt16.ofNat (← ty.nat?), ← v.bytes?⟩ : CPAttr)
      | _ => none)))
  | s@(.list (.atom "EAP" :: _)) => do
    match ← rdEap s with
    | .ok e => pure (.eap e)
    | _ => none
  | _ => none

def rdPayloads (s : Sx) : Option (List Payload) := do (← s.items?).mapM rdPayload

def rdHeader : Sx → Option Header
  | .list [.atom "H", a, b, c, d, e, f, g] => do
    pure { ispi := UInt64.ofNat (← a.nat?), rspi := UInt64.ofNat (← b.nat?), major := UInt8.ofNat (← c.nat?),
           minor := UInt8.ofNat (← d.nat?), exch := UInt8.ofNat (← e.nat?), flags := UInt8.ofNat (← f.nat?),
           mid := UInt32.ofNat (← g.nat?) }
  | _ => none

def rdMsg : Sx → Option Msg
  | .list [.atom "msg", h, ps] => do pure ⟨← rdHeader h, ← rdPayloads ps⟩
  | _ => none

end Ike
