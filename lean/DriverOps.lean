import IkeModel
import IkeModel.Security.ChildOps

/-! Driver operations for C10 (cipher object: `cbc-encrypt`, `newcrypto`,
`cbc-seq`) and C17 (`saops`: a history of operations on one SA key object).
Driver-side glue only (parsing / printing); the functions executed are
`newCrypto`, `cbcEncrypt`, `cbcRun`, `saRun` of the model.

  cbc-encrypt x<key> x<rnd stream> <failAt | -1> x<plaintext>   -> ok x<ct> | err
  newcrypto <descriptor index 0..2> x<key>                      -> ok | err
  cbc-seq x<key> x<rnd stream> (E x<pt>) (D x<ct>) ...          -> results separated by one blank
  saops <e> <i> <p> x<d> x<ai> x<ar> x<ei> x<er> x<pi> x<pr>
        (P <I|R> x<rnd> <msg>) (U <I|R> <0|1> x<bytes>) (C <encrIdx> <integIdx|-1> x<nonce>) ...
                                                                -> results separated by " | "
-/

open Ike

namespace DriverOps

def resStr {α : Type} (f : α → String) : Res α → String
  | .ok a => "ok " ++ f a
  | .err => "err"
  | .fault => "panic"

def listGet? {α : Type} : List α → Nat → Option α
  | [], _ => none
  | x :: _, 0 => some x
  | _ :: xs, n + 1 => listGet? xs n

/-- SA object from `<e> <i> <p> <d> <ai> <ar> <ei> <er> <pi> <pr>` at token offset `o`
(copy of `rdSA` in Driver.lean) -/
def rdSA (ts : Array String) (o : Nat) : Option SAKey := do
  let e ← (← ts[o]?).toNat?
  let i ← (← ts[o+1]?).toNat?
  let p ← (← ts[o+2]?).toNat?
  let (eid, ekl) ← listGet? Facts.encrTable e
  let (iid, ikl, iol, ih) ← listGet? Facts.integTable i
  let (pid, pkl, pol, ph) ← listGet? Facts.prfTable p
  let d ← parseX (← ts[o+3]?)
  let ai ← parseX (← ts[o+4]?)
  let ar ← parseX (← ts[o+5]?)
  let ei ← parseX (← ts[o+6]?)
  let er ← parseX (← ts[o+7]?)
  let pi ← parseX (← ts[o+8]?)
  let pr ← parseX (← ts[o+9]?)
  pure (SAKey.fresh ⟨eid, ekl⟩ ⟨iid, ikl, iol, ih⟩ ⟨pid, pkl, pol, ph⟩ d ai ar ei er pi pr)

/-- all S-expressions from token position `i` to the end of the line -/
partial def parseAll (ts : Array String) (i : Nat) (acc : Array Sx) : Option (List Sx) :=
  if i ≥ ts.size then some acc.toList
  else match Sx.parseTokens ts i with
    | some (v, j) => parseAll ts j (acc.push v)
    | none => none

/-- the key length of the descriptor a key of this size is offered to: the descriptor
with exactly this key length, else descriptor 0 (which then refuses the key) -/
def descriptorFor (key : Bytes) : Nat :=
  match Facts.encrTable.find? (fun d => d.2 == key.length) with
  | some d => d.2
  | none => match Facts.encrTable with
    | d :: _ => d.2
    | [] => 0

def failAtOf (s : String) : Option Nat := s.toNat?   -- "-1" ↦ none

def cbcEncryptOp (ts : Array String) : String :=
  match (ts[1]?).bind parseX, (ts[2]?).bind parseX, ts[3]?, (ts[4]?).bind parseX with
  | some key, some rnd, some fa, some pt =>
    match newCrypto (descriptorFor key) key with
    | .ok c => resStr xhex (cbcEncrypt Prims.real c { buf := rnd, failAt := failAtOf fa } pt).2
    | .err => "err"
    | .fault => "panic"
  | _, _, _, _ => "bad-args"

def newCryptoOp (ts : Array String) : String :=
  match (ts[1]?).bind String.toNat?, (ts[2]?).bind parseX with
  | some idx, some key =>
    match listGet? Facts.encrTable idx with
    | some d =>
      match newCrypto d.2 key with
      | .ok _ => "ok"
      | .err => "err"
      | .fault => "panic"
    | none => "bad-args"
  | _, _ => "bad-args"

def rdCbcOp : Sx → Option CbcOp
  | .list [.atom "E", p] => do pure (.enc (← p.bytes?))
  | .list [.atom "D", c] => do pure (.dec (← c.bytes?))
  | _ => none

def cbcSeqOp (ts : Array String) : String :=
  match (ts[1]?).bind parseX, (ts[2]?).bind parseX, parseAll ts 3 #[] with
  | some key, some rnd, some sxs =>
    match sxs.mapM rdCbcOp with
    | some ops =>
      match newCrypto (descriptorFor key) key with
      | .ok c => " ".intercalate ((cbcRun Prims.real c { buf := rnd } ops).map (resStr xhex))
      | .err => "err"
      | .fault => "panic"
    | none => "bad-args"
  | _, _, _ => "bad-args"

def rdRole : Sx → Option Bool
  | .atom "I" => some true
  | .atom "R" => some false
  | _ => none

/-- key length of a Child SA descriptor; index `-1` (not a number) = no integrity algorithm -/
def childEncrLen (s : Sx) : Option Nat := do
  let d ← listGet? Facts.encrChildTable (← s.nat?)
  pure d.2

def childIntegLen : Sx → Option Nat
  | .atom "-1" => some 0
  | s => do
    let d ← listGet? Facts.integChildTable (← s.nat?)
    pure d.2.1

def rdSaOp : Sx → Option SaOp
  | .list [.atom "P", role, rnd, m] => do pure (.protect (← rdRole role) (← rnd.bytes?) (← rdMsg m))
  | .list [.atom "U", role, h, bs] => do pure (.unprotect (← rdRole role) ((← h.nat?) != 0) (← bs.bytes?))
  | .list [.atom "C", e, i, nonce] => do pure (.child (← childEncrLen e) (← childIntegLen i) (← nonce.bytes?))
  | _ => none

def saOutStr : SaOut → String
  | .bytes b => xhex b
  | .msg m => (sxMsg m).toStr
  | .keys k => xhex k.encr_i2r ++ " " ++ xhex k.integ_i2r ++ " " ++ xhex k.encr_r2i ++ " " ++ xhex k.integ_r2i

def saOpsOp (ts : Array String) : String :=
  match rdSA ts 1, parseAll ts 11 #[] with
  | some sa, some sxs =>
    match sxs.mapM rdSaOp with
    | some ops => " | ".intercalate ((saRun Prims.real sa ops).map (resStr saOutStr))
    | none => "bad-args"
  | _, _ => "bad-args"

end DriverOps

/-- `none`: not one of this module's operations -/
def handleOps (ts : Array String) : Option String :=
  match ts[0]? with
  | some "cbc-encrypt" => some (DriverOps.cbcEncryptOp ts)
  | some "newcrypto" => some (DriverOps.newCryptoOp ts)
  | some "cbc-seq" => some (DriverOps.cbcSeqOp ts)
  | some "saops" => some (DriverOps.saOpsOp ts)
  | _ => none
