import IkeModel
import IkeModel.EapMac
import IkeModel.Spec.Eap

/-! Driver operations for C14 / C15 (glue only: parsing and printing).

    enc eap <EAP input form>              -> ok x<octets> | err | set-refused
    akaset <subtype> (SET t xV)...        -> <ok|err per call>... (AKA sub xMARSHAL (AT t xV)...)
    akamac x<key> x<packet>               -> ok x<mac16> | err | panic        (Unmarshal, then CalcEapAkaPrimeAtMAC)
    akamac-built x<key> <EAP input form>  -> ok x<mac16> | err | panic | set-refused
    akamac-state x<key> <EAP input form>  -> <akamac-built outcome> <EAP output form after the call>
    spec-akamac x<key> x<packet>          -> ok x<mac16> | err                 (Spec.atMac)
    spec-aka <code> <id> <subtype> (AT t xV)...  -> ok x<octets>               (Spec.encodeEapAka, given order)
-/

open Ike

namespace DriverEap

def resStr {α : Type} (f : α → String) : Res α → String
  | .ok a => "ok " ++ f a
  | .err => "err"
  | .fault => "panic"

def sxAt (ts : Array String) (i : Nat) : Option (Sx × Nat) := Sx.parseTokens ts i

/-- all S-expressions from token `i` to the end of the line -/
partial def sxRest (ts : Array String) (i : Nat) (acc : Array Sx) : Option (List Sx) :=
  if i ≥ ts.size then some acc.toList
  else match sxAt ts i with
    | some (v, j) => sxRest ts j (acc.push v)
    | none => none

def encEapOp (ts : Array String) : String :=
  match sxAt ts 2 with
  | some (s, _) =>
    match rdEap s with
    | some (.ok e) => resStr xhex (marshalEap e)
    | some .err => "set-refused"
    | some .fault => "panic"
    | none => "bad-eap"
  | none => "bad-sx"

/-- SetAttr calls in sequence, refused ones tolerated -/
def akaSetSeq (a : Aka) (acc : List String) : List Sx → Option (Res (Aka × List String))
  | [] => some (.ok (a, acc.reverse))
  | .list [.atom "SET", t, v] :: rest => do
    match akaSetAttr a (UInt8.ofNat (← t.nat?)) (← v.bytes?) with
    | .ok a' => akaSetSeq a' ("ok" :: acc) rest
    | .err => akaSetSeq a ("err" :: acc) rest
    | .fault => some .fault
  | _ => none

def akasetOp (ts : Array String) : String :=
  match (ts[1]?).bind String.toNat?, sxRest ts 2 #[] with
  | some st, some sets =>
    match akaSetSeq ⟨UInt8.ofNat st, 0, []⟩ [] sets with
    | some (.ok (a, rs)) => " ".intercalate (rs ++ [(sxEapData (.aka a)).toStr])
    | some .err => "err"
    | some .fault => "panic"
    | none => "bad-set"
  | _, _ => "bad-args"

def akamacOp (ts : Array String) : String :=
  match (ts[1]?).bind parseX, (ts[2]?).bind parseX with
  | some key, some wire => resStr xhex (recvEapAkaPrimeAtMAC Prims.real wire key)
  | _, _ => "bad-args"

def akamacBuiltOp (ts : Array String) (withState : Bool) : String :=
  match (ts[1]?).bind parseX, sxAt ts 2 with
  | some key, some (s, _) =>
    match rdEap s with
    | some (.ok e) =>
      let (e', r) := calcEapAkaPrimeAtMAC Prims.real e key
      if withState then resStr xhex r ++ " " ++ (sxEap e').toStr else resStr xhex r
    | some .err => "set-refused"
    | some .fault => "panic"
    | none => "bad-eap"
  | _, _ => "bad-args"

def specAkamacOp (ts : Array String) : String :=
  match (ts[1]?).bind parseX, (ts[2]?).bind parseX with
  | some key, some wire =>
    match Spec.atMac Prims.real key wire with
    | some m => "ok " ++ xhex m
    | none => "err"
  | _, _ => "bad-args"

def rdAt : Sx → Option (UInt8 × Bytes)
  | .list [.atom "AT", t, v] => do pure (UInt8.ofNat (← t.nat?), ← v.bytes?)
  | _ => none

def specAkaOp (ts : Array String) : String :=
  match (ts[1]?).bind String.toNat?, (ts[2]?).bind String.toNat?, (ts[3]?).bind String.toNat?, sxRest ts 4 #[] with
  | some c, some i, some st, some l =>
    match l.mapM rdAt with
    | some attrs => "ok " ++ xhex (Spec.encodeEapAka (UInt8.ofNat c) (UInt8.ofNat i) (UInt8.ofNat st) attrs)
    | none => "bad-at"
  | _, _, _, _ => "bad-args"

end DriverEap

/-- `none`: not an operation of this module -/
def handleEap (ts : Array String) : Option String :=
  match ts[0]? with
  | some "enc" => if ts[1]? == some "eap" then some (DriverEap.encEapOp ts) else none
  | some "akaset" => some (DriverEap.akasetOp ts)
  | some "akamac" => some (DriverEap.akamacOp ts)
  | some "akamac-built" => some (DriverEap.akamacBuiltOp ts false)
  | some "akamac-state" => some (DriverEap.akamacBuiltOp ts true)
  | some "spec-akamac" => some (DriverEap.specAkamacOp ts)
  | some "spec-aka" => some (DriverEap.specAkaOp ts)
  | _ => none
