import IkeProofs.Lemmas.Tactics
import IkeProofs.Lemmas.NoFault
import IkeProofs.Theorems.C04
