import IkeModel
