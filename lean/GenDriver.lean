import IkeModel
import IkeModel.GenAbs
import IkeModel.GenAbsEap
import IkeModel.Generated.Gen_lib
import IkeModel.Generated.Gen_encr
import IkeModel.Generated.Gen_integ
import IkeModel.Generated.Gen_prf
import IkeModel.Generated.Gen_esn
import IkeModel.Generated.Gen_dh
import IkeModel.GenAbsSa
import DriverOps
import DriverKeys
import DriverReg

/-! Driver for the GENERATED model (`IkeModel/Generated/Gen_message.lean`, written by
`tools/go2lean` from /repo's current source): the same line protocol as `Driver.lean`, the same
canonical rendering (through the abstraction `GenAbs`), so that the harness can compare the Go
implementation with what the translator says the Go source means.  A disagreement is a fault of
the translator (or of GoRt), i.e. of the trusted base — never silently ignored. -/

open Ike Ike.Gen.message

abbrev GE := Ike.Gen.eap.EAP

def gresStr {α : Type} (f : α → String) : Res α → String
  | .ok a => "ok " ++ f a
  | .err => "err"
  | .fault => "panic"

def optStr {α : Type} (f : α → String) : Option α → String
  | some a => f a
  | none => "nil-payload"

def gPayloadKindCode (k : String) : Option UInt8 :=
  match k with
  | "SA" => some Facts.typeSA | "KE" => some Facts.typeKE | "IDi" => some Facts.typeIDi
  | "IDr" => some Facts.typeIDr | "CERT" => some Facts.typeCERT | "CERTREQ" => some Facts.typeCERTreq
  | "AUTH" => some Facts.typeAUTH | "NONCE" => some Facts.typeNiNr | "N" => some Facts.typeN
  | "D" => some Facts.typeD | "V" => some Facts.typeV | "TSi" => some Facts.typeTSi
  | "TSr" => some Facts.typeTSr | "SK" => some Facts.typeSK | "CP" => some Facts.typeCP
  | "EAP" => some Facts.typeEAP
  | _ => none

def gDecMsgOp (name : String) (b : Bytes) : String :=
  if name == "msg" then gresStr (optStr (fun m => (sxMsg m).toStr)) ((IKEMessage.Decode {} b).map GenAbs.absMsg)
  else if name == "hdr" then gresStr (fun h => (sxHeaderFull h).toStr) ((ParseHeader b).map GenAbs.absHeader)
  else if name.startsWith "pl-" then
    match gPayloadKindCode (name.drop 3).toString with
    | some t =>
      match GenAbs.newPayload t 0 with
      | some g => gresStr (optStr (fun p => (sxPayload p).toStr)) ((IKEPayload.Unmarshal g b).map GenAbs.absPayload)
      | none => "bad-op"
    | none => "bad-op"
  else if name.startsWith "chain-" then
    match (name.drop 6).toString.toNat? with
    | some t => gresStr (optStr (fun ps => (sxPayloads ps).toStr)) ((IKEPayloadContainer.Decode [] (UInt8.ofNat t) b).map GenAbs.absPayloads)
    | none => "bad-op"
  else "unsupported"

/-! ### package eap -/

/-- `(AKA sub (SET t xV)...)` built through the GENERATED `SetAttr` -/
def gRdAkaSets (a : Gen.eap.EapAkaPrime) : List Sx → Option (Res Gen.eap.EapAkaPrime)
  | [] => some (.ok a)
  | .list [.atom "SET", t, v] :: rest => do
    match Gen.eap.EapAkaPrime.SetAttr a (UInt8.ofNat (← t.nat?)) (← v.bytes?) with
    | .ok a' => gRdAkaSets a' rest
    | .err => some .err
    | .fault => some .fault
  | _ => none

def gRdEapData : Sx → Option (Res Gen.eap.EapTypeData)
  | .atom "nil" => some (.ok .nil_)
  | .list [.atom "ID", d] => do pure (.ok (.EapIdentity { IdentityData := (← d.bytes?) }))
  | .list [.atom "NOTIF", d] => do pure (.ok (.EapNotification { NotificationData := (← d.bytes?) }))
  | .list [.atom "NAK", d] => do pure (.ok (.EapNak { NakData := (← d.bytes?) }))
  | .list [.atom "EXP", v, t, d] => do
    pure (.ok (.EapExpanded { VendorID := UInt32.ofNat (← v.nat?), VendorType := UInt32.ofNat (← t.nat?), VendorData := (← d.bytes?) }))
  | .list (.atom "AKA" :: st :: sets) => do
    let a0 ← (match Gen.eap.NewEapAkaPrime (UInt8.ofNat (← st.nat?)) with | .ok a => some a | _ => none)
    let r ← gRdAkaSets a0 sets
    pure (match r with | .ok a => .ok (.EapAkaPrime a) | .err => .err | .fault => .fault)
  | _ => none

def gRdEap : Sx → Option (Res Gen.eap.EAP)
  | .list [.atom "EAP", c, i, d] => do
    let rd ← gRdEapData d
    let code := UInt8.ofNat (← c.nat?)
    let ident := UInt8.ofNat (← i.nat?)
    pure (match rd with | .ok x => .ok { Code := code, Identifier := ident, EapTypeData := x } | .err => .err | .fault => .fault)
  | _ => none

def gEncEapOp (ts : Array String) : String :=
  match Sx.parseTokens ts 2 with
  | some (s, _) =>
    match gRdEap s with
    | some (.ok e) => gresStr xhex (Gen.eap.EAP.Marshal e)
    | some .err => "set-refused"
    | some .fault => "panic"
    | none => "bad-eap"
  | none => "bad-sx"

def gAkaSetSeq (a : Gen.eap.EapAkaPrime) (acc : List String) : List Sx → Option (Res (Gen.eap.EapAkaPrime × List String))
  | [] => some (.ok (a, acc.reverse))
  | .list [.atom "SET", t, v] :: rest => do
    match Gen.eap.EapAkaPrime.SetAttr a (UInt8.ofNat (← t.nat?)) (← v.bytes?) with
    | .ok a' => gAkaSetSeq a' ("ok" :: acc) rest
    | .err => gAkaSetSeq a ("err" :: acc) rest
    | .fault => some .fault
  | _ => none

partial def gSxRest (ts : Array String) (i : Nat) (acc : Array Sx) : Option (List Sx) :=
  if i ≥ ts.size then some acc.toList
  else match Sx.parseTokens ts i with
    | some (v, j) => gSxRest ts j (acc.push v)
    | none => none

def gAkasetOp (ts : Array String) : String :=
  match (ts[1]?).bind String.toNat?, gSxRest ts 2 #[] with
  | some st, some sets =>
    match Gen.eap.NewEapAkaPrime (UInt8.ofNat st) with
    | .ok a0 =>
      match gAkaSetSeq a0 [] sets with
      | some (.ok (a, rs)) => " ".intercalate (rs ++ [(sxEapData (.aka (GenAbs.absAka a))).toStr])
      | some .err => "err"
      | some .fault => "panic"
      | none => "bad-set"
    | _ => "panic"
  | _, _ => "bad-args"

def gAkamacOp (ts : Array String) : String :=
  match (ts[1]?).bind parseX, (ts[2]?).bind parseX with
  | some key, some wire =>
    match Gen.eap.EAP.Unmarshal {} wire with
    | .ok e => gresStr xhex ((Gen.eap.EAP.CalcEapAkaPrimeAtMAC Prims.real e key).map (·.2))
    | .err => "err"
    | .fault => "panic"
  | _, _ => "bad-args"

def gAkamacBuiltOp (ts : Array String) (withState : Bool) : String :=
  match (ts[1]?).bind parseX, Sx.parseTokens ts 2 with
  | some key, some (s, _) =>
    match gRdEap s with
    | some (.ok e) =>
      let r := Gen.eap.EAP.CalcEapAkaPrimeAtMAC Prims.real e key
      if withState then
        -- the model reports the packet after the call also when the call fails
        match r with
        | .ok (e', m) => "ok " ++ xhex m ++ " " ++ (sxEap (GenAbs.absEap e')).toStr
        | .err => "unsupported"
        | .fault => "unsupported"
      else gresStr xhex (r.map (·.2))
    | some .err => "set-refused"
    | some .fault => "panic"
    | none => "bad-eap"
  | _, _ => "bad-args"

def gAkaPrfOp (ts : Array String) : String :=
  match (ts[1]?).bind parseX, (ts[2]?).bind parseX, (ts[3]?).bind parseX with
  | some ik, some ck, some id =>
    gresStr (fun (k : Bytes × Bytes × Bytes × Bytes × Bytes) =>
        xhex k.1 ++ " " ++ xhex k.2.1 ++ " " ++ xhex k.2.2.1 ++ " " ++ xhex k.2.2.2.1 ++ " " ++ xhex k.2.2.2.2)
      (Gen.eap.EapAkaPrimePRF Prims.real ik ck id)
  | _, _, _ => "bad-args"

/-- `prfplus <p> x<key> x<seed> <n>`: `lib.PrfPlus(prfType.Init(key), seed, n)`; `p` indexes the PRF table of the facts -/
def gPrfPlusOp (ts : Array String) : String :=
  match (ts[1]?).bind String.toNat?, (ts[2]?).bind parseX, (ts[3]?).bind parseX, (ts[4]?).bind String.toNat? with
  | some p, some key, some seed, some n =>
    match Facts.prfTable[p]? with
    | some (_, _, _, ph) => gresStr xhex ((Gen.lib.PrfPlus Prims.real (Go.Mac.new ph key) seed (n : Int)).map (·.2))
    | none => "bad-args"
  | _, _, _, _ => "bad-args"

/-! ### registries (packages encr, integ, prf, esn): the package-level maps are what `init` builds -/

def gOkAlg (id : UInt16) (k o : Int) : String := s!"ok {id.toNat} {k} {o}"

def gResOr {α : Type} (r : Res α) (f : α → String) : String :=
  match r with | .ok a => f a | .err => "none" | .fault => "panic"

/-- `dectr <kind> <ttype> <id> <present> <fmt> <atype> <aval> x<vval>` through the generated `init` + `DecodeTransform` -/
def gDectrOp (ts : Array String) : String :=
  let nat (i : Nat) : Option Nat := (ts[i]?).bind String.toNat?
  match ts[1]?, nat 2, nat 3, nat 4, nat 5, nat 6, nat 7, (ts[8]?).bind parseX with
  | some kind, some tt, some tid, some pr, some fm, some aty, some av, some vv =>
    let t : Ike.Transform := ⟨UInt8.ofNat tt, UInt16.ofNat tid, pr != 0, UInt8.ofNat fm, UInt16.ofNat aty, UInt16.ofNat av, vv⟩
    if kind == "encr" then
      gResOr (Gen.encr.init_ {} >>= fun G => Gen.encr.DecodeTransform G t >>= fun a =>
        match a with
        | .nil_ => Res.err
        | _ => Gen.encr.ENCRType.TransformID a >>= fun i => Gen.encr.ENCRType.GetKeyLength a >>= fun k => Res.ok (gOkAlg i k 0)) id
    else if kind == "encrk" then
      gResOr (Gen.encr.init_ {} >>= fun G => Gen.encr.DecodeTransformChildSA G t >>= fun a =>
        match a with
        | .nil_ => Res.err
        | _ => Gen.encr.ENCRKType.TransformID a >>= fun i => Gen.encr.ENCRKType.GetKeyLength a >>= fun k => Res.ok (gOkAlg i k 0)) id
    else if kind == "integ" then
      gResOr (Gen.integ.init_ {} >>= fun G => Gen.integ.DecodeTransform G t >>= fun a =>
        match a with
        | .nil_ => Res.err
        | _ => Gen.integ.INTEGType.TransformID a >>= fun i => Gen.integ.INTEGType.GetKeyLength a >>= fun k =>
                 Gen.integ.INTEGType.GetOutputLength a >>= fun o => Res.ok (gOkAlg i k o)) id
    else if kind == "integk" then
      gResOr (Gen.integ.init_ {} >>= fun G => Gen.integ.DecodeTransformChildSA G t >>= fun a =>
        match a with
        | .nil_ => Res.err
        | _ => Gen.integ.INTEGKType.TransformID a >>= fun i => Gen.integ.INTEGKType.GetKeyLength a >>= fun k => Res.ok (gOkAlg i k 0)) id
    else if kind == "prf" then
      gResOr (Gen.prf.init_ {} >>= fun G => Gen.prf.DecodeTransform G t >>= fun a =>
        match a with
        | .nil_ => Res.err
        | _ => Gen.prf.PRFType.TransformID a >>= fun i => Gen.prf.PRFType.GetKeyLength a >>= fun k =>
                 Gen.prf.PRFType.GetOutputLength a >>= fun o => Res.ok (gOkAlg i k o)) id
    else if kind == "dh" then
      gResOr (Gen.dh.init_ {} >>= fun G => Gen.dh.DecodeTransform G t >>= fun a =>
        match a with
        | .nil_ => Res.err
        | _ => Gen.dh.DHType.TransformID a >>= fun i => Gen.dh.DHType.GetPublicValue a 0 >>= fun pv => Res.ok (gOkAlg i pv.length 0)) id
    else if kind == "esn" then
      gResOr (Gen.esn.init_ {} >>= fun G => Gen.esn.DecodeTransform G t >>= fun a =>
        Gen.esn.ESN.TransformID a >>= fun i => Gen.esn.ESN.GetNeedESN a >>= fun n => Res.ok (gOkAlg i (if n then 1 else 0) 0)) id
    else "unsupported"
  | _, _, _, _, _, _, _, _ => "bad-args"

/-- the group object `dh.StrToType(<name of group 2 | 14>)` of the generated registry -/
def gDhGroup (ts : Array String) (o : Nat) : Option Gen.dh.DHType :=
  let name : Option Bytes :=
    match ts[o]? with
    | some "0" => some "DH_1024_BIT_MODP".toUTF8.toList
    | some "1" => some "DH_2048_BIT_MODP".toUTF8.toList
    | _ => none
  match name, Gen.dh.init_ {} with
  | some n, .ok G => match Gen.dh.StrToType G n with | .ok (.nil_) => none | .ok g => some g | _ => none
  | _, _ => none

def gDhPubOp (ts : Array String) : String :=
  match gDhGroup ts 1, (ts[2]?).bind parseX with
  | some g, some x => gresStr xhex (Gen.dh.DHType.GetPublicValue g (beNat x))
  | _, _ => "bad-args"

def gDhSharedOp (ts : Array String) : String :=
  match gDhGroup ts 1, (ts[2]?).bind parseX, (ts[3]?).bind parseX with
  | some g, some x, some y => gresStr xhex (Gen.dh.DHType.GetSharedKey g (beNat x) (beNat y))
  | _, _, _ => "bad-args"

/-! ### the AES-CBC object of package encr (`NewCrypto`, `Encrypt`, `Decrypt`) and `lib.PKCS7Padding` -/

/-- the cipher object `EncrAesCbc{keyLength: len(key)}.NewCrypto(key)` of the generated code -/
def gNewCrypto (key : Bytes) : Res Gen.encr.EncrAesCbcCrypto :=
  Gen.encr.EncrAesCbc.NewCrypto { keyLength := (key.length : Int) } key

/-- `cbc-encrypt x<key> x<rnd stream> <failAt | -1> x<plaintext>` -/
def gCbcEncryptOp (ts : Array String) : String :=
  match (ts[1]?).bind parseX, (ts[2]?).bind parseX, ts[3]?, (ts[4]?).bind parseX with
  | some key, some rnd, some fa, some pt =>
    if key.length = 16 ∨ key.length = 24 ∨ key.length = 32 then
      match gNewCrypto key with
      | .ok c => gresStr xhex ((Gen.encr.EncrAesCbcCrypto.Encrypt Prims.real { buf := rnd, failAt := fa.toNat? } c pt).map (·.2))
      | .err => "err"
      | .fault => "panic"
    else "unsupported"
  | _, _, _, _ => "bad-args"

/-- `cbc-decrypt x<key> x<ciphertext>` -/
def gCbcDecryptOp (ts : Array String) : String :=
  match (ts[1]?).bind parseX, (ts[2]?).bind parseX with
  | some k, some ct => gresStr xhex (Gen.encr.EncrAesCbcCrypto.Decrypt Prims.real { Block := k } ct)
  | _, _ => "bad-args"

def gDecEapOp (name : String) (b : Bytes) : Option String :=
  if name == "eap" then some (gresStr (fun e => (sxEap e).toStr) ((Gen.eap.EAP.Unmarshal {} b).map GenAbs.absEap))
  else if name == "eapm-ID" then
    some (gresStr (fun d => (sxEapData d).toStr) ((Gen.eap.EapIdentity.Unmarshal {} b).map (fun v => GenAbs.absEapData (.EapIdentity v))))
  else if name == "eapm-NOTIF" then
    some (gresStr (fun d => (sxEapData d).toStr) ((Gen.eap.EapNotification.Unmarshal {} b).map (fun v => GenAbs.absEapData (.EapNotification v))))
  else if name == "eapm-NAK" then
    some (gresStr (fun d => (sxEapData d).toStr) ((Gen.eap.EapNak.Unmarshal {} b).map (fun v => GenAbs.absEapData (.EapNak v))))
  else if name == "eapm-EXP" then
    some (gresStr (fun d => (sxEapData d).toStr) ((Gen.eap.EapExpanded.Unmarshal {} b).map (fun v => GenAbs.absEapData (.EapExpanded v))))
  else if name == "eapm-AKA" then
    some (gresStr (fun d => (sxEapData d).toStr) ((Gen.eap.EapAkaPrime.Unmarshal {} b).map (fun v => GenAbs.absEapData (.EapAkaPrime v))))
  else none

def gEncMsgOp (ts : Array String) : String :=
  match Sx.parseTokens ts 2 with
  | some (s, _) =>
    match rdMsg s with
    | some m => gresStr (fun (r : IKEMessage × Bytes) => xhex r.2) (IKEMessage.Encode (GenAbs.repMsg m))
    | none => "bad-msg"
  | none => "bad-sx"

def gDecOp (name : String) (b : Bytes) : String :=
  match gDecEapOp name b with
  | some r => r
  | none => gDecMsgOp name b

def gReencOp (kind : String) (b : Bytes) : String :=
  if kind == "eap" then
    match Gen.eap.EAP.Unmarshal {} b with
    | .ok e => gresStr xhex (Gen.eap.EAP.Marshal e)
    | .err => "decode-err"
    | .fault => "decode-panic"
  else if kind == "msg" then
    match IKEMessage.Decode {} b with
    | .ok m => gresStr (fun (r : IKEMessage × Bytes) => xhex r.2) (IKEMessage.Encode m)
    | .err => "decode-err"
    | .fault => "decode-panic"
  else "unsupported"

/-! ### `ike.go` and `security/security.go` as translated: the SA object is built from the model's (`repSa`) -/

open Ike.GenAbsSa in
def gProtectOp (ts : Array String) : String :=
  match DriverOps.rdSA ts 1, ts[11]?, (ts[12]?).bind parseX, Sx.parseTokens ts 13 with
  | some sa, some roleS, some rnd, some (sx, _) =>
    match rdMsg sx with
    | some m =>
      gresStr (fun (x : Rand × IKEMessage × Gen.security.IKESAKey × Bytes) => xhex x.2.2.2)
        (Gen.ike.EncodeEncrypt Prims.real { buf := rnd } (GenAbs.repMsg m) (some (repSa sa)) (roleS == "I"))
    | none => "bad-msg"
  | _, _, _, _ => "bad-args"

def gMsgStr (m : IKEMessage) : String := optStr (fun m => (sxMsg m).toStr) (GenAbs.absMsg m)

open Ike.GenAbsSa in
def gUnprotect (k : Gen.security.IKESAKey) (role : Bool) (withHdr : Bool) (bs : Bytes) : Res (Gen.security.IKESAKey × IKEMessage) :=
  if withHdr then
    match ParseHeader bs with
    | .ok h => Gen.ike.DecodeDecrypt Prims.real bs (some h) (some k) role
    | .err => .err
    | .fault => .fault
  else Gen.ike.DecodeDecrypt Prims.real bs none (some k) role

open Ike.GenAbsSa in
def gUnprotectOp (ts : Array String) : String :=
  match DriverOps.rdSA ts 1, ts[11]?, ts[12]?, (ts[13]?).bind parseX with
  | some sa, some roleS, some hS, some bs =>
    gresStr (fun (x : Gen.security.IKESAKey × IKEMessage) => gMsgStr x.2) (gUnprotect (repSa sa) (roleS == "I") (hS == "1") bs)
  | _, _, _, _ => "bad-args"

open Ike.GenAbsSa in
def gIkeKeysRes (r : Res Gen.security.IKESAKey) : String :=
  match r with
  | .ok k => let sa := absSa k
             if DriverKeys.objectsKeyed sa then "ok " ++ DriverKeys.showKeys sa else "objects-not-keyed " ++ DriverKeys.showKeys sa
  | .err => "err"
  | .fault => "panic"

open Ike.GenAbsSa in
def gBlank (e : EncrInfo) (i : IntegInfo) (p : PrfInfo) : Gen.security.IKESAKey :=
  { DhInfo := someDh, EncrInfo := repEncrInfo e, IntegInfo := repIntegInfo i, PrfInfo := repPrfInfo p }

open Ike.GenAbsSa in
def gIkeKeysOp (ts : Array String) : String :=
  match DriverKeys.rdInfos ts 1, DriverKeys.tokX ts 4, DriverKeys.tokX ts 5, DriverKeys.tokNat ts 6, DriverKeys.tokNat ts 7 with
  | some (e, i, p), some nonce, some secret, some si, some sr =>
    gIkeKeysRes (Gen.security.IKESAKey.GenerateKeyForIKESA Prims.real (some (gBlank e i p)) nonce secret (UInt64.ofNat si) (UInt64.ofNat sr))
  | _, _, _, _, _ => "bad-args"

open Ike.GenAbsSa in
def gIkeKeys2Op (ts : Array String) : String :=
  match DriverKeys.rdInfos ts 1, DriverKeys.tokX ts 4, DriverKeys.tokX ts 5, DriverKeys.tokNat ts 6, DriverKeys.tokNat ts 7,
      DriverKeys.tokX ts 8, DriverKeys.tokX ts 9, DriverKeys.tokNat ts 10, DriverKeys.tokNat ts 11 with
  | some (e, i, p), some n1, some s1, some si1, some sr1, some n2, some s2, some si2, some sr2 =>
    match Gen.security.IKESAKey.GenerateKeyForIKESA Prims.real (some (gBlank e i p)) n1 s1 (UInt64.ofNat si1) (UInt64.ofNat sr1) with
    | .ok k1 => gIkeKeysRes (Gen.security.IKESAKey.GenerateKeyForIKESA Prims.real (some k1) n2 s2 (UInt64.ofNat si2) (UInt64.ofNat sr2))
    | _ => "unsupported"   -- the object state after a failed call is not part of the translation
  | _, _, _, _, _, _, _, _, _ => "bad-args"

open Ike.GenAbsSa in
def gChildLoop (k : Gen.security.IKESAKey) (c0 : Gen.security.ChildSAKey) (nonce : Bytes) : Nat → Nat → Option Gen.security.IKESAKey
  | 0, _ => some k
  | n + 1, j =>
    match Gen.security.ChildSAKey.GenerateKeyForChildSA Prims.real (some c0) (some k) (nonce ++ [UInt8.ofNat j]) with
    | .ok (_, k') => gChildLoop k' c0 nonce n (j + 1)
    | _ => none

open Ike.GenAbsSa in
def gChildKeysOp (ts : Array String) : String :=
  match DriverKeys.rdPrf ts 1, DriverKeys.tokX ts 2, DriverKeys.rdChild ts 3, DriverKeys.tokX ts 5, DriverKeys.tokNat ts 6 with
  | some p, some skd, some c0, some nonce, some k =>
    match gChildLoop (repSa (DriverKeys.saWithSkD p skd)) (repChild c0) nonce (k - 1) 1 with
    | some sa =>
      gresStr (fun (x : Gen.security.ChildSAKey × Gen.security.IKESAKey) => DriverKeys.showChild (absChild x.1))
        (Gen.security.ChildSAKey.GenerateKeyForChildSA Prims.real (some (repChild c0)) (some sa) nonce)
    | none => "unsupported"
  | _, _, _, _, _ => "bad-args"

open Ike.GenAbsSa in
def gChildKeys2Op (ts : Array String) : String :=
  match DriverKeys.rdPrf ts 1, DriverKeys.tokX ts 2, DriverKeys.rdChild ts 3, DriverKeys.tokX ts 5, DriverKeys.tokX ts 6 with
  | some p, some skd, some c0, some n1, some n2 =>
    match Gen.security.ChildSAKey.GenerateKeyForChildSA Prims.real (some (repChild c0)) (some (repSa (DriverKeys.saWithSkD p skd))) n1 with
    | .ok (c1, sa1) =>
      gresStr (fun (x : Gen.security.ChildSAKey × Gen.security.IKESAKey) => DriverKeys.showChild (absChild x.1))
        (Gen.security.ChildSAKey.GenerateKeyForChildSA Prims.real (some c1) (some sa1) n2)
    | .err => "err"
    | .fault => "panic"
  | _, _, _, _, _ => "bad-args"

/-- a history on ONE generated SA object (C17).  After a call that returns an error the translation has no object
state (an error return drops the mutated parameters): the history continues on the state before the call, and the
line is answered `unsupported` when that could matter — never guessed. -/
def gSaRun (k : Gen.security.IKESAKey) : List SaOp → List String
  | [] => []
  | .protect role rnd m :: rest =>
    match Gen.ike.EncodeEncrypt Prims.real { buf := rnd } (GenAbs.repMsg m) (some k) role with
    | .ok (_, _, k', out) => ("ok " ++ xhex out) :: gSaRun k' rest
    | .err => "err" :: gSaRun k rest
    | .fault => "panic" :: gSaRun k rest
  | .unprotect role withHdr bs :: rest =>
    match gUnprotect k role withHdr bs with
    | .ok (k', m) => ("ok " ++ gMsgStr m) :: gSaRun k' rest
    | .err => "err" :: gSaRun k rest
    | .fault => "panic" :: gSaRun k rest
  | .child encrLen integLen nonce :: rest =>
    let c : Gen.security.ChildSAKey :=
      { EncrKInfo := .EncrAesCbc ⟨(encrLen : Int)⟩,
        IntegKInfo := if integLen = 0 then .nil_ else .AuthHmacSha1_96 ⟨(integLen : Int), 12⟩ }
    match Gen.security.ChildSAKey.GenerateKeyForChildSA Prims.real (some c) (some k) nonce with
    | .ok (c', k') =>
      ("ok " ++ xhex c'.InitiatorToResponderEncryptionKey ++ " " ++ xhex c'.InitiatorToResponderIntegrityKey ++ " " ++
        xhex c'.ResponderToInitiatorEncryptionKey ++ " " ++ xhex c'.ResponderToInitiatorIntegrityKey) :: gSaRun k' rest
    | .err => "err" :: gSaRun k rest
    | .fault => "panic" :: gSaRun k rest

/-- `security.GenerateRandomNumber` as translated, under the package-level bounds the translated `init()` sets -/
def gGenRandomOp (ts : Array String) : String :=
  match (ts[1]?).bind parseX, ts[2]? with
  | some rnd, some f =>
    match Gen.security.init_ {} with
    | .ok G =>
      gresStr (fun (x : Rand × Nat) => "x" ++ String.ofList (Nat.toDigits 16 x.2))
        (Gen.security.GenerateRandomNumber G { buf := rnd, failAt := DriverOps.failAtOf f })
    | _ => "init-failed"
  | _, _ => "bad-args"

def gSaOpsOp (ts : Array String) : String :=
  match DriverOps.rdSA ts 1, DriverOps.parseAll ts 11 #[] with
  | some sa, some sxs =>
    match sxs.mapM DriverOps.rdSaOp with
    | some ops => " | ".intercalate (gSaRun (Ike.GenAbsSa.repSa sa) ops)
    | none => "bad-args"
  | _, _ => "bad-args"

/-! ### the container builders of `message/build.go` as translated (`build <prior container> <op> <args…>`) -/

def gOkPayloads (c : List IKEPayload) : String :=
  optStr (fun ps => "ok " ++ (sxPayloads ps).toStr) (GenAbs.absPayloads c)

/-- an error return of the Go code leaves the container as it was (an error carries no state in the translation) -/
def gResPayloads (before : List Payload) : Res (List IKEPayload) → String
  | .ok c => gOkPayloads c
  | .err => "err " ++ (sxPayloads before).toStr
  | .fault => "panic"

open DriverReg in
def gBuildOp (ts : Array String) : Option String := do
  let (prior, o) ← Sx.parseTokens ts 1
  let op ← ts[o]?
  let a := o + 1
  let resList {α β : Type} (f : α → β) (g : β → Sx) (r : Res (List α)) : String :=
    match r with
    | .ok l => "ok " ++ (Sx.list (l.map (fun x => g (f x)))).toStr
    | .err => "err"
    | .fault => "panic"
  if op == "transform" then
    let l ← rdTransforms prior
    pure (resList GenAbs.absTransform sxTransform
      (TransformContainer.BuildTransform (l.map GenAbs.repTransform) (← u8At ts a) (← u16At ts (a+1)) (← optU16At ts (a+2)) (← optU16At ts (a+3)) (← bytesAt ts (a+4))))
  else if op == "cpattr" then
    let l ← (← prior.items?).mapM rdCPAttr
    pure (resList GenAbs.absCPAttr sxCPAttr
      (ConfigurationAttributeContainer.BuildConfigurationAttribute (l.map GenAbs.repCPAttr) (← u16At ts a) (← bytesAt ts (a+1))))
  else if op == "tsel" then
    let l ← (← prior.items?).mapM rdTSel
    pure (resList GenAbs.absTSel sxTSel
      (IndividualTrafficSelectorContainer.BuildIndividualTrafficSelector (l.map GenAbs.repTSel) (← u8At ts a) (← u8At ts (a+1)) (← u16At ts (a+2)) (← u16At ts (a+3))
        (← bytesAt ts (a+4)) (← bytesAt ts (a+5))))
  else if op == "proposal" then
    let l ← (← prior.items?).mapM rdProposal
    pure (resList GenAbs.absProposal sxProposal
      ((ProposalContainer.BuildProposal (l.map GenAbs.repProposal) (← u8At ts a) (← u8At ts (a+1)) (← bytesAt ts (a+2))).map (·.1)))
  else
  let ps ← rdPayloads prior
  let c := ps.map GenAbs.repPayload
  let fin (r : Res (List IKEPayload)) : String := gResPayloads ps r
  match op with
  | "notification" => pure (fin (IKEPayloadContainer.BuildNotification c (← u8At ts a) (← u16At ts (a+1)) (← bytesAt ts (a+2)) (← bytesAt ts (a+3))))
  | "certificate" => pure (fin (IKEPayloadContainer.BuildCertificate c (← u8At ts a) (← bytesAt ts (a+1))))
  | "encrypted" => pure (fin ((IKEPayloadContainer.BuildEncrypted c (← u8At ts a) (← bytesAt ts (a+1))).map (·.1)))
  | "ke" => pure (fin (IKEPayloadContainer.BUildKeyExchange c (← u16At ts a) (← bytesAt ts (a+1))))
  | "idi" => pure (fin (IKEPayloadContainer.BuildIdentificationInitiator c (← u8At ts a) (← bytesAt ts (a+1))))
  | "idr" => pure (fin (IKEPayloadContainer.BuildIdentificationResponder c (← u8At ts a) (← bytesAt ts (a+1))))
  | "auth" => pure (fin (IKEPayloadContainer.BuildAuthentication c (← u8At ts a) (← bytesAt ts (a+1))))
  | "configuration" => pure (fin ((IKEPayloadContainer.BuildConfiguration c (← u8At ts a)).map (·.1)))
  | "nonce" => pure (fin (IKEPayloadContainer.BuildNonce c (← bytesAt ts a)))
  | "tsi" => pure (fin ((IKEPayloadContainer.BuildTrafficSelectorInitiator c).map (·.1)))
  | "tsr" => pure (fin ((IKEPayloadContainer.BuildTrafficSelectorResponder c).map (·.1)))
  | "sa" => pure (fin ((IKEPayloadContainer.BuildSecurityAssociation c).map (·.1)))
  | "delete" =>
    let (sp, _) ← Sx.parseTokens ts (a+3)
    pure (fin (IKEPayloadContainer.BuildDeletePayload c (← u8At ts a) (← u8At ts (a+1)) (← u16At ts (a+2)) (← rdU32s sp)))
  | "eap" => pure (fin ((IKEPayloadContainer.BuildEAP c (← u8At ts a) (← u8At ts (a+1))).map (·.1)))
  | "eapsuccess" => pure (fin (IKEPayloadContainer.BuildEAPSuccess c (← u8At ts a)))
  | "eapfailure" => pure (fin (IKEPayloadContainer.BuildEAPfailure c (← u8At ts a)))
  | "eap5gstart" => pure (fin (IKEPayloadContainer.BuildEAP5GStart c (← u8At ts a)))
  | "eap5gnas" => pure (fin (IKEPayloadContainer.BuildEAP5GNAS c (← u8At ts a) (← bytesAt ts (a+1))))
  | "qos" => pure (fin (IKEPayloadContainer.BuildNotify5G_QOS_INFO c (← u8At ts a) (← bytesAt ts (a+1)) (← boolAt ts (a+2)) (← boolAt ts (a+3)) (← u8At ts (a+4))))
  | "tcpport" => pure (fin (IKEPayloadContainer.BuildNotifyNAS_TCP_PORT c (← u16At ts a)))
  | "reset" => pure (fin (IKEPayloadContainer.Reset c))
  | _ => pure "unsupported"   -- nasip / upip: net.ParseIP, not translated

def gHandle (line : String) : String :=
  let ts := Sx.tokens line
  if h : 0 < ts.size then
    let op := ts[0]
    if op == "dec" then
      if h3 : ts.size = 3 then
        match parseX ts[2] with
        | some b => gDecOp ts[1] b
        | none => "bad-hex"
      else "bad-op"
    else if op == "enc" then
      if h2 : 1 < ts.size then (if ts[1] == "msg" then gEncMsgOp ts else if ts[1] == "eap" then gEncEapOp ts else "unsupported") else "bad-op"
    else if op == "akaset" then gAkasetOp ts
    else if op == "akamac" then gAkamacOp ts
    else if op == "akamac-built" then gAkamacBuiltOp ts false
    else if op == "akaprf" then gAkaPrfOp ts
    else if op == "prfplus" then gPrfPlusOp ts
    else if op == "dectr" then gDectrOp ts
    else if op == "cbc-encrypt" then gCbcEncryptOp ts
    else if op == "cbc-decrypt" then gCbcDecryptOp ts
    else if op == "dhpub" then gDhPubOp ts
    else if op == "dhshared" then gDhSharedOp ts
    else if op == "protect" then gProtectOp ts
    else if op == "unprotect" then gUnprotectOp ts
    else if op == "ikekeys" then gIkeKeysOp ts
    else if op == "ikekeys2" then gIkeKeys2Op ts
    else if op == "childkeys" then gChildKeysOp ts
    else if op == "childkeys2" then gChildKeys2Op ts
    else if op == "saops" then gSaOpsOp ts
    else if op == "genrandom" then gGenRandomOp ts
    else if op == "build" then (gBuildOp ts).getD "bad-args"
    else if op == "reenc" then
      if h3 : ts.size = 3 then
        match parseX ts[2] with
        | some b => gReencOp ts[1] b
        | none => "bad-hex"
      else "bad-op"
    else "unsupported"
  else "bad-op"

partial def gLoop (hin : IO.FS.Stream) (hout : IO.FS.Stream) : IO Unit := do
  let line ← hin.getLine
  if line.isEmpty then return ()
  hout.putStrLn (gHandle line)
  gLoop hin hout

def main : IO Unit := do
  let hin ← IO.getStdin
  let hout ← IO.getStdout
  gLoop hin hout
