import IkeModel
import IkeModel.GenAbs

/-! Driver for the GENERATED model (`IkeModel/Generated/Gen_message.lean`, written by
`tools/go2lean` from /repo's current source): the same line protocol as `Driver.lean`, the same
canonical rendering (through the abstraction `GenAbs`), so that the harness can compare the Go
implementation with what the translator says the Go source means.  A disagreement is a fault of
the translator (or of GoRt), i.e. of the trusted base — never silently ignored. -/

open Ike Ike.Gen.message

def gresStr {α : Type} (f : α → String) : Res α → String
  | .ok a => "ok " ++ f a
  | .err => "err"
  | .fault => "panic"

def optStr {α : Type} (f : α → String) : Option α → String
  | some a => f a
  | none => "nil-payload"

def gPayloadKindCode (k : String) : Option UInt8 :=
  match k with
  | "SA" => some Facts.typeSA | "KE" => some Facts.typeKE | "IDi" => some Facts.typeIDi
  | "IDr" => some Facts.typeIDr | "CERT" => some Facts.typeCERT | "CERTREQ" => some Facts.typeCERTreq
  | "AUTH" => some Facts.typeAUTH | "NONCE" => some Facts.typeNiNr | "N" => some Facts.typeN
  | "D" => some Facts.typeD | "V" => some Facts.typeV | "TSi" => some Facts.typeTSi
  | "TSr" => some Facts.typeTSr | "SK" => some Facts.typeSK | "CP" => some Facts.typeCP
  | "EAP" => some Facts.typeEAP
  | _ => none

def gDecOp (name : String) (b : Bytes) : String :=
  if name == "msg" then gresStr (optStr (fun m => (sxMsg m).toStr)) ((IKEMessage.Decode {} b).map GenAbs.absMsg)
  else if name == "hdr" then gresStr (fun h => (sxHeaderFull h).toStr) ((ParseHeader b).map GenAbs.absHeader)
  else if name.startsWith "pl-" then
    match gPayloadKindCode (name.drop 3).toString with
    | some t =>
      match GenAbs.newPayload t 0 with
      | some g => gresStr (optStr (fun p => (sxPayload p).toStr)) ((IKEPayload.Unmarshal g b).map GenAbs.absPayload)
      | none => "bad-op"
    | none => "bad-op"
  else if name.startsWith "chain-" then
    match (name.drop 6).toString.toNat? with
    | some t => gresStr (optStr (fun ps => (sxPayloads ps).toStr)) ((IKEPayloadContainer.Decode [] (UInt8.ofNat t) b).map GenAbs.absPayloads)
    | none => "bad-op"
  else "unsupported"

def gEncMsgOp (ts : Array String) : String :=
  match Sx.parseTokens ts 2 with
  | some (s, _) =>
    match rdMsg s with
    | some m => gresStr (fun (r : IKEMessage × Bytes) => xhex r.2) (IKEMessage.Encode (GenAbs.repMsg m))
    | none => "bad-msg"
  | none => "bad-sx"

def gReencOp (kind : String) (b : Bytes) : String :=
  if kind == "msg" then
    match IKEMessage.Decode {} b with
    | .ok m => gresStr (fun (r : IKEMessage × Bytes) => xhex r.2) (IKEMessage.Encode m)
    | .err => "decode-err"
    | .fault => "decode-panic"
  else "unsupported"

def gHandle (line : String) : String :=
  let ts := Sx.tokens line
  if h : 0 < ts.size then
    let op := ts[0]
    if op == "dec" then
      if h3 : ts.size = 3 then
        match parseX ts[2] with
        | some b => gDecOp ts[1] b
        | none => "bad-hex"
      else "bad-op"
    else if op == "enc" then
      if h2 : 1 < ts.size then (if ts[1] == "msg" then gEncMsgOp ts else "unsupported") else "bad-op"
    else if op == "reenc" then
      if h3 : ts.size = 3 then
        match parseX ts[2] with
        | some b => gReencOp ts[1] b
        | none => "bad-hex"
      else "bad-op"
    else "unsupported"
  else "bad-op"

partial def gLoop (hin : IO.FS.Stream) (hout : IO.FS.Stream) : IO Unit := do
  let line ← hin.getLine
  if line.isEmpty then return ()
  hout.putStrLn (gHandle line)
  gLoop hin hout

def main : IO Unit := do
  let hin ← IO.getStdin
  let hout ← IO.getStdout
  gLoop hin hout
