package main

import (
	"go/ast"
	"go/constant"
	"go/token"
	"go/types"
)

// Go `int` expressions that are syntactically non-negative (lengths, conversions from unsigned
// types, non-negative constants, sums and products of those, local variables that only ever hold
// such values) are translated as `Nat`; everything else of type int is `Int`.

func isGoInt(ty types.Type) bool {
	b, ok := ty.Underlying().(*types.Basic)
	return ok && (b.Kind() == types.Int || b.Kind() == types.UntypedInt)
}

func (c *fctx) isNonneg(e ast.Expr) bool {
	tv := c.info.Types[e]
	if tv.Value != nil {
		return tv.Value.Kind() == constant.Int && constant.Sign(tv.Value) >= 0
	}
	switch x := e.(type) {
	case *ast.ParenExpr:
		return c.isNonneg(x.X)
	case *ast.Ident:
		if v := c.localVar(x); v != nil {
			return c.natVars[v]
		}
		return false
	case *ast.CallExpr:
		if id, ok := x.Fun.(*ast.Ident); ok {
			if b, ok := c.info.Uses[id].(*types.Builtin); ok && b.Name() == "len" {
				return true
			}
		}
		if ftv, ok := c.info.Types[x.Fun]; ok && ftv.IsType() && isGoInt(ftv.Type) && len(x.Args) == 1 {
			at := c.info.Types[x.Args[0]].Type
			if k, ok := intKind(at); ok && width(k) > 0 {
				return true
			}
			return c.isNonneg(x.Args[0])
		}
		return false
	case *ast.BinaryExpr:
		if x.Op == token.ADD || x.Op == token.MUL {
			return isGoInt(tv.Type) && c.isNonneg(x.X) && c.isNonneg(x.Y)
		}
		if x.Op == token.QUO || x.Op == token.REM {
			// truncated division of non-negative operands by a positive constant is Nat division
			dv := c.info.Types[x.Y]
			return isGoInt(tv.Type) && c.isNonneg(x.X) && dv.Value != nil && constant.Sign(dv.Value) > 0
		}
	}
	return false
}

func (c *fctx) computeNatVars() {
	c.natVars = map[*types.Var]bool{}
	isParam := map[*types.Var]bool{}
	for _, p := range c.fi.params {
		isParam[p] = true
	}
	sig := c.fi.obj.Type().(*types.Signature)
	for i := 0; i < sig.Results().Len(); i++ {
		isParam[sig.Results().At(i)] = true
	}
	// candidates: every local variable of type int
	ast.Inspect(c.fi.decl.Body, func(n ast.Node) bool {
		if id, ok := n.(*ast.Ident); ok {
			if v, ok := c.info.Defs[id].(*types.Var); ok && !v.IsField() && !isParam[v] {
				if b, ok := v.Type().(*types.Basic); ok && b.Kind() == types.Int {
					c.natVars[v] = true
				}
			}
		}
		return true
	})
	changed := true
	drop := func(v *types.Var) {
		if v != nil && c.natVars[v] {
			delete(c.natVars, v)
			changed = true
		}
	}
	varOf := func(e ast.Expr) *types.Var {
		if id, ok := e.(*ast.Ident); ok {
			return c.localVar(id)
		}
		return nil
	}
	for changed {
		changed = false
		ast.Inspect(c.fi.decl.Body, func(n ast.Node) bool {
			switch s := n.(type) {
			case *ast.AssignStmt:
				for i, l := range s.Lhs {
					v := varOf(l)
					if v == nil || !c.natVars[v] {
						continue
					}
					switch s.Tok {
					case token.DEFINE, token.ASSIGN:
						if len(s.Rhs) != len(s.Lhs) || !c.isNonneg(s.Rhs[i]) {
							drop(v)
						}
					case token.ADD_ASSIGN, token.MUL_ASSIGN:
						if !c.isNonneg(s.Rhs[0]) {
							drop(v)
						}
					default:
						drop(v)
					}
				}
			case *ast.IncDecStmt:
				if s.Tok == token.DEC {
					drop(varOf(s.X))
				}
			case *ast.ValueSpec:
				for i, id := range s.Names {
					v, _ := c.info.Defs[id].(*types.Var)
					if v != nil && c.natVars[v] && len(s.Values) > 0 && (i >= len(s.Values) || !c.isNonneg(s.Values[i])) {
						drop(v)
					}
				}
			case *ast.RangeStmt:
				if s.Value != nil {
					drop(varOf(s.Value))
				}
			case *ast.UnaryExpr:
				if s.Op == token.AND {
					drop(varOf(s.X))
				}
			}
			return true
		})
	}
}

// Nat-typed Lean term of a non-negative int expression, or of an expression of an unsigned type
func (c *fctx) natTerm(e ast.Expr) (string, bool) {
	tv := c.info.Types[e]
	if tv.Value != nil {
		if tv.Value.Kind() == constant.Int && constant.Sign(tv.Value) >= 0 {
			return tv.Value.ExactString(), true
		}
		return "", false
	}
	if k, ok := intKind(tv.Type); ok && width(k) > 0 {
		return c.expr(e) + ".toNat", true
	}
	if !c.isNonneg(e) {
		return "", false
	}
	switch x := e.(type) {
	case *ast.ParenExpr:
		return c.natTerm(x.X)
	case *ast.Ident:
		return c.name(c.localVar(x)), true
	case *ast.CallExpr:
		if id, ok := x.Fun.(*ast.Ident); ok {
			if b, ok := c.info.Uses[id].(*types.Builtin); ok && b.Name() == "len" {
				return c.expr(x.Args[0]) + ".length", true
			}
		}
		return c.natTerm(x.Args[0]) // int(<unsigned or non-negative>)
	case *ast.BinaryExpr:
		l, _ := c.natTerm(x.X)
		r, _ := c.natTerm(x.Y)
		op := "+"
		switch x.Op {
		case token.MUL:
			op = "*"
		case token.QUO:
			op = "/"
		case token.REM:
			op = "%"
		}
		return "(" + l + " " + op + " " + r + ")", true
	}
	return "", false
}

// Lean type of a local variable
func (c *fctx) vtype(n ast.Node, v *types.Var) string {
	if c.natVars[v] {
		return "Nat"
	}
	return c.ltype(n, v.Type())
}
