package main

import (
	"go/ast"
	"go/token"
	"go/types"
)

// Pointer-to-struct parameters that the function compares with nil are `Option T` in the signature; inside, the
// parameter is the value (the zero value when nil) plus a flag `<name>_isnil`.  Every use of such a parameter other
// than the comparison itself and passing it on as an argument must be dominated, syntactically, by a nil test
// (`if p == nil { …return }` before it, inside the else arm of such a test, or inside `if p != nil { … }`) —
// otherwise the function is refused: a nil dereference would not be a fault in the translation.

func isStructPtr(ty types.Type) bool {
	p, ok := ty.Underlying().(*types.Pointer)
	if !ok {
		return false
	}
	_, ok = p.Elem().Underlying().(*types.Struct)
	return ok
}

func isNilIdent(info *types.Info, e ast.Expr) bool {
	id, ok := ast.Unparen(e).(*ast.Ident)
	return ok && id.Name == "nil" && info.Types[id].IsNil()
}

// nilCompared: the parameter (if any) that e compares with nil, and whether the test is `== nil`
func nilCompared(info *types.Info, e ast.Expr, params map[*types.Var]bool) (*types.Var, bool) {
	b, ok := ast.Unparen(e).(*ast.BinaryExpr)
	if !ok || (b.Op != token.EQL && b.Op != token.NEQ) {
		return nil, false
	}
	other := b.X
	if isNilIdent(info, b.X) {
		other = b.Y
	} else if !isNilIdent(info, b.Y) {
		return nil, false
	}
	id, ok := ast.Unparen(other).(*ast.Ident)
	if !ok {
		return nil, false
	}
	v, ok := info.Uses[id].(*types.Var)
	if !ok || !params[v] {
		return nil, false
	}
	return v, b.Op == token.EQL
}

func (t *translator) findNilable(fi *fnInfo) {
	info := fi.pkg.TypesInfo
	cands := map[*types.Var]bool{}
	for _, p := range fi.params {
		if isStructPtr(p.Type()) {
			cands[p] = true
		}
	}
	if len(cands) == 0 {
		return
	}
	ast.Inspect(fi.decl.Body, func(n ast.Node) bool {
		if e, ok := n.(ast.Expr); ok {
			if v, _ := nilCompared(info, e, cands); v != nil {
				if fi.nilable == nil {
					fi.nilable = map[*types.Var]bool{}
				}
				fi.nilable[v] = true
			}
		}
		return true
	})
}

func stmtsTerminate(list []ast.Stmt) bool {
	if len(list) == 0 {
		return false
	}
	switch s := list[len(list)-1].(type) {
	case *ast.ReturnStmt:
		return true
	case *ast.BlockStmt:
		return stmtsTerminate(s.List)
	case *ast.IfStmt:
		if s.Else == nil {
			return false
		}
		eb, ok := s.Else.(*ast.BlockStmt)
		if !ok {
			return stmtsTerminate([]ast.Stmt{s.Else}) && stmtsTerminate(s.Body.List)
		}
		return stmtsTerminate(s.Body.List) && stmtsTerminate(eb.List)
	}
	return false
}

// checkNilableUses refuses the function when a nilable parameter is used where it is not known to be non-nil
func (c *fctx) checkNilableUses() {
	fi := c.fi
	if len(fi.nilable) == 0 {
		return
	}
	info := c.info
	// uses that are harmless for a nil pointer: operand of a nil comparison, argument / receiver of a call of a
	// translated function (the callee decides)
	var exprUses func(e ast.Node, known map[*types.Var]bool)
	exprUses = func(e ast.Node, known map[*types.Var]bool) {
		ast.Inspect(e, func(n ast.Node) bool {
			switch x := n.(type) {
			case *ast.BinaryExpr:
				if v, _ := nilCompared(info, x, fi.nilable); v != nil {
					return false
				}
			case *ast.CallExpr:
				callee := c.t.staticCallee(info, x)
				var ci *fnInfo
				if callee != nil {
					ci = c.t.fns[callee]
				}
				for i, a := range x.Args {
					if id, ok := ast.Unparen(a).(*ast.Ident); ok && ci != nil {
						if v, ok := info.Uses[id].(*types.Var); ok && fi.nilable[v] {
							off := 0
							if ci.recv != nil {
								off = 1
							}
							if i+off < len(ci.params) && ci.nilable[ci.params[i+off]] {
								continue
							}
						}
					}
					exprUses(a, known)
				}
				if sel, ok := x.Fun.(*ast.SelectorExpr); ok {
					if id, ok := ast.Unparen(sel.X).(*ast.Ident); ok && ci != nil && ci.recv != nil && ci.nilable[ci.recv] {
						if v, ok := info.Uses[id].(*types.Var); ok && fi.nilable[v] {
							return false
						}
					}
					exprUses(sel.X, known)
				} else {
					exprUses(x.Fun, known)
				}
				return false
			case *ast.Ident:
				if v, ok := info.Uses[x].(*types.Var); ok && fi.nilable[v] && !known[v] {
					c.fail(x, "use of the pointer %s, which the function compares with nil, at a place that no nil test dominates", v.Name())
				}
			case *ast.FuncLit:
				c.fail(x, "function literal")
			}
			return true
		})
	}
	copyOf := func(m map[*types.Var]bool) map[*types.Var]bool {
		o := map[*types.Var]bool{}
		for k, v := range m {
			o[k] = v
		}
		return o
	}
	var stmts func(list []ast.Stmt, known map[*types.Var]bool)
	var stmt func(s ast.Stmt, known map[*types.Var]bool)
	stmts = func(list []ast.Stmt, known map[*types.Var]bool) {
		known = copyOf(known)
		for _, s := range list {
			if is, ok := s.(*ast.IfStmt); ok && is.Init == nil {
				if v, eq := nilCompared(info, is.Cond, fi.nilable); v != nil {
					thenK, elseK := copyOf(known), copyOf(known)
					if eq {
						elseK[v] = true
					} else {
						thenK[v] = true
					}
					stmts(is.Body.List, thenK)
					if is.Else != nil {
						stmt(is.Else, elseK)
					}
					if eq && stmtsTerminate(is.Body.List) {
						known[v] = true
					}
					if !eq && is.Else != nil {
						if eb, ok := is.Else.(*ast.BlockStmt); ok && stmtsTerminate(eb.List) {
							known[v] = true
						}
					}
					continue
				}
			}
			stmt(s, known)
			// an assignment to the parameter itself ends what is known about it
			if as, ok := s.(*ast.AssignStmt); ok {
				for _, l := range as.Lhs {
					if id, ok := l.(*ast.Ident); ok {
						if v, ok := info.Uses[id].(*types.Var); ok && fi.nilable[v] {
							c.fail(s, "assignment to the pointer parameter %s, which the function compares with nil", v.Name())
						}
					}
				}
			}
		}
	}
	stmt = func(s ast.Stmt, known map[*types.Var]bool) {
		switch x := s.(type) {
		case *ast.BlockStmt:
			stmts(x.List, known)
		case *ast.IfStmt:
			if x.Init != nil {
				stmt(x.Init, known)
			}
			exprUses(x.Cond, known)
			stmts(x.Body.List, known)
			if x.Else != nil {
				stmt(x.Else, known)
			}
		case *ast.ForStmt:
			if x.Init != nil {
				stmt(x.Init, known)
			}
			if x.Cond != nil {
				exprUses(x.Cond, known)
			}
			if x.Post != nil {
				stmt(x.Post, known)
			}
			stmts(x.Body.List, known)
		case *ast.RangeStmt:
			exprUses(x.X, known)
			stmts(x.Body.List, known)
		case *ast.SwitchStmt:
			if x.Init != nil {
				stmt(x.Init, known)
			}
			if x.Tag != nil {
				exprUses(x.Tag, known)
			}
			for _, cc := range x.Body.List {
				cl := cc.(*ast.CaseClause)
				for _, e := range cl.List {
					exprUses(e, known)
				}
				stmts(cl.Body, known)
			}
		case *ast.TypeSwitchStmt:
			exprUses(x.Assign, known)
			for _, cc := range x.Body.List {
				stmts(cc.(*ast.CaseClause).Body, known)
			}
		default:
			exprUses(s, known)
		}
	}
	stmts(fi.decl.Body.List, map[*types.Var]bool{})
}

// nilableArg: the term for argument a of a parameter that the callee takes as `Option T`
func (c *fctx) nilableArg(a ast.Expr, val string) string {
	if isNilIdent(c.info, a) {
		return "none"
	}
	if id, ok := ast.Unparen(a).(*ast.Ident); ok {
		if v, ok := c.info.Uses[id].(*types.Var); ok && c.fi.nilable[v] {
			return "(if " + c.name(v) + "_isnil then none else some " + val + ")"
		}
	}
	return "(some " + val + ")"
}

// `*recv = append(*recv, p); return p` at the end of a method with a pointer-to-slice receiver
func (t *translator) findRetStoredLast(fi *fnInfo) {
	if fi.recv == nil || len(fi.decl.Body.List) < 2 || len(fi.results) != 1 || fi.hasErr {
		return
	}
	l := fi.decl.Body.List
	ret, ok := l[len(l)-1].(*ast.ReturnStmt)
	as, ok2 := l[len(l)-2].(*ast.AssignStmt)
	if !ok || !ok2 || len(ret.Results) != 1 || len(as.Lhs) != 1 || len(as.Rhs) != 1 {
		return
	}
	info := fi.pkg.TypesInfo
	rid, ok := ret.Results[0].(*ast.Ident)
	if !ok {
		return
	}
	isRecvDeref := func(e ast.Expr) bool {
		st, ok := e.(*ast.StarExpr)
		if !ok {
			return false
		}
		id, ok := st.X.(*ast.Ident)
		return ok && info.Uses[id] == fi.recv
	}
	call, ok := as.Rhs[0].(*ast.CallExpr)
	if !ok || !isRecvDeref(as.Lhs[0]) || len(call.Args) != 2 || call.Ellipsis.IsValid() || !isRecvDeref(call.Args[0]) {
		return
	}
	if f, ok := call.Fun.(*ast.Ident); !ok || f.Name != "append" {
		return
	}
	aid, ok := call.Args[1].(*ast.Ident)
	if !ok || info.Uses[aid] != info.Uses[rid] {
		return
	}
	fi.retStoredLast = true
}
