package main

import (
	"fmt"
	"go/ast"
	"go/constant"
	"go/token"
	"go/types"
	"sort"
	"strings"
)

func (t *translator) translateFn(fi *fnInfo, emitDep func(*fnInfo)) {
	c := &fctx{t: t, fi: fi, info: fi.pkg.TypesInfo, names: map[types.Object]string{}, used: map[string]bool{"fuel_": true, "jp": true, "r": true, "v": true},
		emitDep: emitDep, owned: map[*types.Var]bool{}, nonNil: map[*types.Var]bool{}, views: map[*types.Var]viewInfo{}}
	defer func() {
		if r := recover(); r != nil {
			if e, ok := r.(trErr); ok {
				fi.failed = e.msg
				fi.aux = nil
				return
			}
			panic(r)
		}
	}()
	oldErrEnum := t.errEnum
	t.errEnum = usesErrIdentity(fi.pkg.TypesInfo, fi.decl.Body)
	defer func() { t.errEnum = oldErrEnum }()
	comps, err := t.retComponents(fi)
	if err != nil {
		c.fail(fi.decl, "%v", err)
	}
	if fi.usesRand {
		comps = append([]string{"Rand"}, comps...)
	}
	if fi.isInit {
		comps = append([]string{"Globals"}, comps...)
	}
	c.retT = tupleType(comps)
	c.computeNatVars()
	c.aliasCheck()
	var hdr strings.Builder
	fmt.Fprintf(&hdr, "/-- `%s` (%s) -/\ndef %s«PRIMS»", goDisplayName(fi), t.pos(fi.decl), fi.leanName)
	for _, p := range fi.params {
		lt := c.ltype(fi.decl, p.Type())
		nm := c.name(p)
		if p.Name() == "" || p.Name() == "_" {
			nm = c.fresh("unused")
			c.names[p] = nm
		}
		if fi.nilable[p] {
			c.used[nm+"_o"], c.used[nm+"_isnil"] = true, true
			fmt.Fprintf(&hdr, " (%s_o : Option %s)", nm, lt)
			continue
		}
		fmt.Fprintf(&hdr, " (%s : %s)", nm, lt)
	}
	fmt.Fprintf(&hdr, " : Res (%s) :=\n", c.retT)
	c.checkNilableUses()
	// named results are locals
	var pre strings.Builder
	for _, p := range fi.params {
		if fi.nilable[p] {
			nm := c.name(p)
			fmt.Fprintf(&pre, "let %s_isnil : Bool := %s_o.isNone;\nlet %s : %s := %s_o.getD %s;\n", nm, nm, nm, c.ltype(fi.decl, p.Type()), nm, c.zero(fi.decl, p.Type()))
		}
	}
	sig := fi.obj.Type().(*types.Signature)
	for i := 0; i < sig.Results().Len(); i++ {
		rv := sig.Results().At(i)
		if rv.Name() != "" && rv.Name() != "_" {
			fmt.Fprintf(&pre, "let %s : %s := %s;\n", c.name(rv), c.ltype(fi.decl, rv.Type()), c.zero(fi.decl, rv.Type()))
		}
	}
	endK := ""
	if len(fi.results) == 0 && !fi.hasErr || (len(fi.results) == 0 && fi.hasErr && false) {
		endK = c.okReturn(nil)
	}
	body := c.block(fi.decl.Body.List, endK)
	if strings.TrimSpace(body) == "" {
		c.fail(fi.decl, "function body may fall off its end")
	}
	prims := ""
	if fi.usesPrims {
		prims = " (P : Prims)"
	}
	if fi.usesGlobals || fi.isInit {
		prims += " (G_ : Globals)"
	}
	for _, g := range extGlobalNames(fi) {
		prims += " (G_" + g + " : Ike.Gen." + g + ".Globals)"
	}
	loopPrims := prims // loops carry rnd_ in their state
	if fi.usesRand {
		prims += " (rnd_ : Rand)"
	}
	fi.code = strings.Replace(hdr.String(), "«PRIMS»", prims, 1) + indent(pre.String()+body, "  ") + "\n"
	for i, a := range fi.aux {
		fi.aux[i] = strings.ReplaceAll(a, "«LOOPPRIMS»", loopPrims)
		fi.aux[i] = strings.ReplaceAll(fi.aux[i], "«LOOPP»", loopArgs(fi))
	}
	fi.code = strings.ReplaceAll(fi.code, "«LOOPP»", loopArgs(fi))
}

func indent(s, pre string) string {
	lines := strings.Split(strings.TrimRight(s, "\n"), "\n")
	for i := range lines {
		lines[i] = pre + lines[i]
	}
	return strings.Join(lines, "\n")
}

func (c *fctx) okReturn(results []string) string {
	var vals []string
	if c.fi.isInit {
		vals = append(vals, "G_")
	}
	if c.fi.usesRand {
		vals = append(vals, "rnd_")
	}
	for _, p := range c.fi.params {
		if c.fi.mutated[p] {
			vals = append(vals, c.name(p))
		}
	}
	vals = append(vals, results...)
	return "Res.ok " + tupleVal(vals)
}

// ---------- aliasing the value model cannot express

func (c *fctx) aliasCheck() {
	info := c.info
	type use struct {
		pos  token.Pos
		loop ast.Node
	}
	escapes := map[*types.Var][]use{}
	muts := map[*types.Var][]use{}
	var loopStack []ast.Node
	isLocalPtr := func(v *types.Var) bool {
		if v == nil || v.IsField() {
			return false
		}
		_, ok := v.Type().(*types.Pointer)
		if !ok {
			return false
		}
		for _, p := range c.fi.params {
			if p == v {
				return false
			}
		}
		return true
	}
	curLoop := func() ast.Node {
		if len(loopStack) == 0 {
			return nil
		}
		return loopStack[len(loopStack)-1]
	}
	var walk func(n ast.Node, asValue bool)
	walkExprValue := func(e ast.Expr) {
		// e is used as a plain value (stored / passed / appended)
		if id, ok := e.(*ast.Ident); ok {
			if v, ok := info.Uses[id].(*types.Var); ok && isLocalPtr(v) {
				escapes[v] = append(escapes[v], use{id.Pos(), curLoop()})
			}
		}
	}
	walk = func(n ast.Node, asValue bool) {
		ast.Inspect(n, func(m ast.Node) bool {
			switch s := m.(type) {
			case *ast.ForStmt, *ast.RangeStmt:
				if m != n {
					loopStack = append(loopStack, m)
					walk(m, false)
					loopStack = loopStack[:len(loopStack)-1]
					return false
				}
			case *ast.AssignStmt:
				for _, l := range s.Lhs {
					if _, ok := l.(*ast.Ident); !ok {
						if v := rootVar(info, l); isLocalPtr(v) {
							muts[v] = append(muts[v], use{l.Pos(), curLoop()})
						}
					}
				}
				for _, r := range s.Rhs {
					walkExprValue(r)
				}
			case *ast.ReturnStmt:
				for _, r := range s.Results {
					if id, ok := r.(*ast.Ident); ok {
						if v, ok := info.Uses[id].(*types.Var); ok && isLocalPtr(v) && len(escapes[v]) > 0 {
							c.fi.notes = append(c.fi.notes, fmt.Sprintf("returns pointer %s that it also stored: the result is a copy, later writes through it by the caller are not part of this function", v.Name()))
						}
					}
				}
			case *ast.CallExpr:
				callee := c.t.staticCallee(info, s)
				if sel, ok := s.Fun.(*ast.SelectorExpr); ok && callee != nil && c.t.calleeMutatesRecv(callee) {
					if v := rootVar(info, sel.X); isLocalPtr(v) {
						muts[v] = append(muts[v], use{sel.Pos(), curLoop()})
					}
				}
				var ci *fnInfo
				if callee != nil {
					ci = c.t.fns[callee]
				}
				for i, a := range s.Args {
					// a pointer handed to a translated function that only reads / writes through it (never stores,
					// passes on or returns it) does not escape
					if ci != nil {
						off := 0
						if ci.recv != nil {
							off = 1
						}
						if i+off < len(ci.params) && !c.t.paramEscapes(ci, ci.params[i+off]) {
							continue
						}
					}
					walkExprValue(a)
				}
			case *ast.CompositeLit:
				for _, el := range s.Elts {
					if kv, ok := el.(*ast.KeyValueExpr); ok {
						walkExprValue(kv.Value)
					} else {
						walkExprValue(el)
					}
				}
			}
			return true
		})
	}
	walk(c.fi.decl.Body, false)
	for v, es := range escapes {
		for _, e := range es {
			for _, m := range muts[v] {
				if m.pos > e.pos {
					c.fail(c.fi.decl, "pointer %s is written through after it was stored", v.Name())
				}
				if e.loop != nil && m.loop == e.loop && !(v.Pos() >= e.loop.Pos() && v.Pos() < e.loop.End()) {
					c.fail(c.fi.decl, "pointer %s declared outside a loop is stored and written through inside it", v.Name())
				}
			}
		}
	}
}

// ---------- analysis helpers

func (c *fctx) localVar(id *ast.Ident) *types.Var {
	o := c.info.Uses[id]
	if o == nil {
		o = c.info.Defs[id]
	}
	v, ok := o.(*types.Var)
	if !ok || v.IsField() || v.Pkg() == nil || v.Parent() == v.Pkg().Scope() {
		return nil
	}
	return v
}

func within(v *types.Var, n ast.Node) bool { return v.Pos() >= n.Pos() && v.Pos() < n.End() }

// variables assigned inside nodes that are declared outside `scope`
func (c *fctx) assignedOutside(scope ast.Node, nodes ...ast.Node) []*types.Var {
	seen := map[*types.Var]bool{}
	var out []*types.Var
	add := func(v *types.Var) {
		if v != nil && !seen[v] && !within(v, scope) {
			seen[v] = true
			out = append(out, v)
		}
	}
	for _, n := range nodes {
		if n == nil {
			continue
		}
		ast.Inspect(n, func(m ast.Node) bool {
			switch s := m.(type) {
			case *ast.AssignStmt:
				for _, l := range s.Lhs {
					add(rootVar(c.info, l))
				}
			case *ast.IncDecStmt:
				add(rootVar(c.info, s.X))
			case *ast.CallExpr:
				callee := c.t.staticCallee(c.info, s)
				if callee != nil {
					if sel, ok := s.Fun.(*ast.SelectorExpr); ok && c.t.calleeMutatesRecv(callee) {
						add(rootVar(c.info, sel.X))
					}
					if ci := c.t.fns[callee]; ci != nil {
						off := 0
						if ci.recv != nil {
							off = 1
						}
						for i, a := range s.Args {
							if i+off < len(ci.params) && ci.mutated[ci.params[i+off]] {
								add(rootVar(c.info, a))
							}
						}
					}
				}
				// PutUintN / copy write into their first argument
				if name := c.writerCall(s); name != "" && len(s.Args) > 0 {
					add(rootVar(c.info, s.Args[0]))
				}
				// readers and buffers are advanced / extended by these calls
				switch c.pkgFunc(s) {
				case "crypto/rand.Read":
					add(rootVar(c.info, s.Args[0]))
				case "io.ReadFull":
					add(rootVar(c.info, s.Args[0]))
					add(rootVar(c.info, s.Args[1]))
				case "encoding/binary.Write", "sort.Slice":
					add(rootVar(c.info, s.Args[0]))
				}
				if m, _ := c.stdMethod(s); m == "crypto/cipher.BlockMode.CryptBlocks" {
					add(rootVar(c.info, s.Args[0]))
				}
				if m, recv := c.stdMethod(s); m == "bytes.Buffer.Write" || m == "bufio.Reader.ReadByte" || m == "bytes.Reader.ReadByte" || m == "hash.Hash.Write" || m == "hash.Hash.Reset" {
					add(rootVar(c.info, recv))
				}
			case *ast.RangeStmt:
				if s.Tok == token.ASSIGN {
					add(rootVar(c.info, s.Key))
					if s.Value != nil {
						add(rootVar(c.info, s.Value))
					}
				}
			}
			return true
		})
	}
	// fields are not variables of the function; parameters count
	var res []*types.Var
	for _, v := range out {
		if !v.IsField() && v.Pkg() != nil && v.Parent() != v.Pkg().Scope() {
			res = append(res, v)
		}
	}
	sort.Slice(res, func(i, j int) bool { return res[i].Pos() < res[j].Pos() })
	return res
}

func (c *fctx) freeVars(scope ast.Node, nodes ...ast.Node) []*types.Var {
	seen := map[*types.Var]bool{}
	var out []*types.Var
	for _, n := range nodes {
		if n == nil {
			continue
		}
		ast.Inspect(n, func(m ast.Node) bool {
			if id, ok := m.(*ast.Ident); ok {
				if v := c.localVar(id); v != nil && !seen[v] && !within(v, scope) {
					seen[v] = true
					out = append(out, v)
				}
			}
			return true
		})
	}
	sort.Slice(out, func(i, j int) bool { return out[i].Pos() < out[j].Pos() })
	return out
}

func (c *fctx) writerCall(call *ast.CallExpr) string {
	if id, ok := call.Fun.(*ast.Ident); ok {
		if b, ok := c.info.Uses[id].(*types.Builtin); ok && b.Name() == "copy" {
			return "copy"
		}
	}
	if sel, ok := call.Fun.(*ast.SelectorExpr); ok {
		if inner, ok := sel.X.(*ast.SelectorExpr); ok {
			if p, ok := c.isPkgIdent(inner.X); ok && p == "encoding/binary" && inner.Sel.Name == "BigEndian" && strings.HasPrefix(sel.Sel.Name, "PutUint") {
				return sel.Sel.Name
			}
		}
	}
	return ""
}

func terminates(list []ast.Stmt) bool {
	if len(list) == 0 {
		return false
	}
	switch s := list[len(list)-1].(type) {
	case *ast.ExprStmt:
		if call, ok := s.X.(*ast.CallExpr); ok {
			if id, ok := call.Fun.(*ast.Ident); ok && id.Name == "panic" {
				return true
			}
		}
		return false
	case *ast.ReturnStmt:
		return true
	case *ast.BranchStmt:
		return s.Tok == token.CONTINUE || s.Tok == token.BREAK || s.Tok == token.GOTO
	case *ast.BlockStmt:
		return terminates(s.List)
	case *ast.IfStmt:
		if s.Else == nil {
			return false
		}
		return terminates(s.Body.List) && terminates([]ast.Stmt{s.Else})
	case *ast.SwitchStmt:
		hasDefault := false
		for _, cl := range s.Body.List {
			cc := cl.(*ast.CaseClause)
			if cc.List == nil {
				hasDefault = true
			}
			if !terminates(cc.Body) || breaksSwitch(cc.Body) {
				return false
			}
		}
		return hasDefault
	}
	return false
}

// ---------- statements

func (c *fctx) jpWrap(scope ast.Node, restCode string, arms func(callK string) string, nodes ...ast.Node) string {
	// more than one arm falls through into restCode
	if len(restCode) < 60 {
		return arms(restCode)
	}
	vars := c.assignedOutside(scope, nodes...)
	jp := c.fresh("jp")
	var params, args []string
	for _, v := range vars {
		params = append(params, fmt.Sprintf("(%s : %s)", c.name(v), c.vtype(scope, v)))
		args = append(args, c.name(v))
	}
	if c.fi.usesRand {
		params = append([]string{"(rnd_ : Rand)"}, params...)
		args = append([]string{"rnd_"}, args...)
	}
	if len(params) == 0 {
		params = []string{"(_ : Unit)"}
		args = []string{"()"}
	}
	return fmt.Sprintf("let %s := fun %s => ((\n%s) : Res (%s));\n", jp, strings.Join(params, " "), indent(restCode, "  "), c.curRetT()) +
		arms(jp+" "+strings.Join(args, " "))
}

func (c *fctx) curRetT() string {
	if len(c.retStack) > 0 {
		return c.retStack[len(c.retStack)-1]
	}
	return c.retT
}

func (c *fctx) isErrCheck(s ast.Stmt, errVar *types.Var) bool {
	ifs, ok := s.(*ast.IfStmt)
	if !ok || ifs.Init != nil || ifs.Else != nil {
		return false
	}
	be, ok := ifs.Cond.(*ast.BinaryExpr)
	if !ok || be.Op != token.NEQ {
		return false
	}
	id, ok := be.X.(*ast.Ident)
	if !ok || c.localVar(id) != errVar {
		return false
	}
	if y, ok := be.Y.(*ast.Ident); !ok || y.Name != "nil" {
		return false
	}
	old := c.nonNil[errVar]
	c.nonNil[errVar] = true
	defer func() { c.nonNil[errVar] = old }()
	return c.isPlainErrorReturn(ifs.Body.List)
}

// a block that consists of one `return …, <non-nil error>` whose operands cannot panic
func (c *fctx) isPlainErrorReturn(list []ast.Stmt) bool {
	if len(list) != 1 {
		return false
	}
	r, ok := list[0].(*ast.ReturnStmt)
	if !ok || len(r.Results) == 0 || !c.fi.hasErr {
		return false
	}
	last := r.Results[len(r.Results)-1]
	if !c.isNonNilError(last) {
		return false
	}
	for _, e := range r.Results {
		if c.mayPanic(e) {
			return false
		}
	}
	return true
}

func (c *fctx) mayPanic(e ast.Expr) bool {
	p := false
	ast.Inspect(e, func(n ast.Node) bool {
		switch x := n.(type) {
		case *ast.IndexExpr, *ast.SliceExpr, *ast.TypeAssertExpr:
			p = true
		case *ast.StarExpr:
			_ = x
		case *ast.BinaryExpr:
			if x.Op == token.QUO || x.Op == token.REM {
				p = true
			}
		case *ast.CallExpr:
			if id, ok := x.Fun.(*ast.Ident); ok {
				if _, ok := c.info.Uses[id].(*types.Builtin); ok {
					return true
				}
			}
			if tv, ok := c.info.Types[x.Fun]; ok && tv.IsType() {
				return true
			}
			if c.errorCtor(x) {
				return true
			}
			if sel, ok := x.Fun.(*ast.SelectorExpr); ok && sel.Sel.Name == "String" && len(x.Args) == 0 {
				if _, isBasic := c.info.Types[sel.X].Type.Underlying().(*types.Basic); isBasic {
					return true
				}
			}
			p = true
		}
		return !p
	})
	return p
}

func (c *fctx) errorCtor(call *ast.CallExpr) bool {
	sel, ok := call.Fun.(*ast.SelectorExpr)
	if !ok {
		return false
	}
	p, ok := c.isPkgIdent(sel.X)
	if !ok {
		return false
	}
	switch p + "." + sel.Sel.Name {
	case "github.com/pkg/errors.Errorf", "github.com/pkg/errors.New", "errors.New", "fmt.Errorf":
		return true
	case "github.com/pkg/errors.Wrapf", "github.com/pkg/errors.Wrap", "github.com/pkg/errors.WithMessage", "github.com/pkg/errors.WithMessagef":
		// Wrap(nil, …) is nil: only non-nil when the wrapped error is; callers check with isNonNilError
		return true
	}
	return false
}

// is the error expression certainly non-nil here?
func (c *fctx) isNonNilError(e ast.Expr) bool {
	call, ok := e.(*ast.CallExpr)
	if !ok {
		if id, ok := e.(*ast.Ident); ok {
			if v := c.localVar(id); v != nil && c.nonNil[v] {
				return true
			}
		}
		return false
	}
	if !c.errorCtor(call) {
		return false
	}
	sel := call.Fun.(*ast.SelectorExpr)
	if strings.HasPrefix(sel.Sel.Name, "Wrap") || strings.HasPrefix(sel.Sel.Name, "WithMessage") {
		return len(call.Args) > 0 && c.isNonNilError(call.Args[0])
	}
	return true
}

func (c *fctx) block(list []ast.Stmt, k string) string {
	if len(list) == 0 {
		return k
	}
	s := list[0]
	rest := list[1:]
	switch s := s.(type) {
	case *ast.EmptyStmt:
		return c.block(rest, k)
	case *ast.BlockStmt:
		return c.block(append(append([]ast.Stmt{}, s.List...), rest...), k)
	case *ast.ReturnStmt:
		return c.ret(s)
	case *ast.BranchStmt:
		if s.Label != nil {
			c.fail(s, "labelled branch")
		}
		if s.Tok == token.BREAK && c.inSwitch > 0 && len(c.switchBreak) > 0 {
			return c.switchBreak[len(c.switchBreak)-1]
		}
		if len(c.loops) == 0 {
			c.fail(s, "%s outside a loop", s.Tok)
		}
		l := c.loops[len(c.loops)-1]
		switch s.Tok {
		case token.CONTINUE:
			return l.contCode()
		case token.BREAK:
			if c.inSwitch > 0 {
				if len(c.switchBreak) == 0 {
					c.fail(s, "break inside switch")
				}
				return c.switchBreak[len(c.switchBreak)-1]
			}
			return l.breakCode
		}
		c.fail(s, "branch %s", s.Tok)
	case *ast.ExprStmt:
		if isPanicCall(c.info, s) {
			return "Res.fault"
		}
	case *ast.IfStmt:
		return c.ifStmt(s, rest, k)
	case *ast.SwitchStmt:
		return c.switchStmt(s, rest, k)
	case *ast.ForStmt:
		return c.forStmt(s, rest, k)
	case *ast.RangeStmt:
		return c.rangeStmt(s, rest, k)
	case *ast.AssignStmt:
		// x, err := f(); if err != nil { return …, error }   ==>  monadic bind
		if len(rest) > 0 && len(s.Rhs) == 1 {
			if call, ok := s.Rhs[0].(*ast.CallExpr); ok && !c.isSpecialCall(call) {
				if id, ok := s.Lhs[len(s.Lhs)-1].(*ast.Ident); ok && isErrorType(c.typeOfIdent(id)) {
					ev := c.localVar(id)
					if ev != nil && c.isErrCheck(rest[0], ev) {
						c.assignCall(s, call, false)
						pre := c.flush()
						return pre + c.block(rest[1:], k)
					}
				}
			}
		}
	}
	c.simple(s)
	pre := c.flush()
	return pre + c.block(rest, k)
}

func (c *fctx) typeOfIdent(id *ast.Ident) types.Type {
	if o := c.info.Defs[id]; o != nil {
		return o.Type()
	}
	if o := c.info.Uses[id]; o != nil {
		return o.Type()
	}
	return types.Typ[types.Invalid]
}

func copyViews(src map[*types.Var]viewInfo) map[*types.Var]viewInfo {
	m := map[*types.Var]viewInfo{}
	for k, v := range src {
		m[k] = v
	}
	return m
}

func (c *fctx) snapshotViews() map[*types.Var]viewInfo {
	m := map[*types.Var]viewInfo{}
	for k, v := range c.views {
		m[k] = v
	}
	return m
}

// after a branching statement only the views that existed before it AND were not re-bound inside survive
func (c *fctx) restoreViews(before map[*types.Var]viewInfo, node ast.Node) {
	assigned := map[*types.Var]bool{}
	for _, v := range c.assignedOutside(node, node) {
		assigned[v] = true
	}
	c.views = map[*types.Var]viewInfo{}
	for k, v := range before {
		if !assigned[k] {
			c.views[k] = v
		}
	}
}

func (c *fctx) ifStmt(s *ast.IfStmt, rest []ast.Stmt, k string) string {
	viewsBefore := c.snapshotViews()
	code := c.ifStmt0(s, rest, k, viewsBefore)
	return code
}

func (c *fctx) ifStmt0(s *ast.IfStmt, rest []ast.Stmt, k string, viewsBefore map[*types.Var]viewInfo) string {
	// if err := f(); err != nil { return error }
	if s.Init != nil && s.Else == nil {
		if as, ok := s.Init.(*ast.AssignStmt); ok && len(as.Rhs) == 1 {
			if call, ok := as.Rhs[0].(*ast.CallExpr); ok && !c.isSpecialCall(call) {
				if id, ok := as.Lhs[len(as.Lhs)-1].(*ast.Ident); ok && isErrorType(c.typeOfIdent(id)) {
					ev := c.localVar(id)
					probe := &ast.IfStmt{Cond: s.Cond, Body: s.Body}
					if ev != nil && c.isErrCheck(probe, ev) {
						c.assignCall(as, call, false)
						pre := c.flush()
						return pre + c.block(rest, k)
					}
				}
			}
		}
	}
	if s.Init != nil {
		c.simple(s.Init)
	}
	cond := c.cond(s.Cond)
	pre := c.flush()
	var elseList []ast.Stmt
	if s.Else != nil {
		elseList = []ast.Stmt{s.Else}
	}
	thenT := terminates(s.Body.List)
	elseT := s.Else != nil && terminates(elseList)
	// inside `if err != nil { … }` the error variable is known to be non-nil
	var nn *types.Var
	if be, ok := s.Cond.(*ast.BinaryExpr); ok && be.Op == token.NEQ {
		if id, ok := be.X.(*ast.Ident); ok {
			if y, ok := be.Y.(*ast.Ident); ok && y.Name == "nil" && isErrorType(c.typeOfIdent(id)) {
				nn = c.localVar(id)
			}
		}
	}
	elseBlock := func(kk string) string {
		c.views = copyViews(viewsBefore)
		return c.block(elseList, kk)
	}
	thenBlock := func(kk string) string {
		c.views = copyViews(viewsBefore)
		if nn != nil {
			old := c.nonNil[nn]
			c.nonNil[nn] = true
			defer func() { c.nonNil[nn] = old }()
		}
		return c.block(s.Body.List, kk)
	}
	mk := func(a, b string) string {
		return pre + "if " + cond + " then (\n" + indent(a, "  ") + ")\nelse (\n" + indent(b, "  ") + ")"
	}
	if thenT && elseT {
		return mk(thenBlock(""), elseBlock(""))
	}
	c.restoreViews(viewsBefore, s)
	restCode := c.block(rest, k)
	if thenT {
		return mk(thenBlock(""), elseBlock(restCode))
	}
	if elseT {
		return mk(thenBlock(restCode), elseBlock(""))
	}
	return c.jpWrap(s, restCode, func(callK string) string {
		return mk(thenBlock(callK), elseBlock(callK))
	}, s)
}

func (c *fctx) switchStmt(s *ast.SwitchStmt, rest []ast.Stmt, k string) string {
	if s.Init != nil {
		c.simple(s.Init)
	}
	tag := ""
	if s.Tag != nil {
		tv := c.expr(s.Tag)
		tag = c.fresh("tag")
		c.binds = append(c.binds, bind{tag, "", tv, false})
	}
	pre := c.flush()
	type arm struct {
		cond string
		body []ast.Stmt
	}
	var arms []arm
	var def []ast.Stmt
	hasDef := false
	nFall := 0
	var pending []string // conditions of `case X: fallthrough` clauses, merged into the next clause
	hasBreak := false
	for _, cl := range s.Body.List {
		cc := cl.(*ast.CaseClause)
		onlyFall := len(cc.Body) == 1
		if onlyFall {
			b, ok := cc.Body[0].(*ast.BranchStmt)
			onlyFall = ok && b.Tok == token.FALLTHROUGH
		}
		for _, st := range cc.Body {
			if b, ok := st.(*ast.BranchStmt); ok && b.Tok == token.FALLTHROUGH && !onlyFall {
				c.fail(s, "fallthrough after other statements")
			}
		}
		if breaksSwitch(cc.Body) {
			hasBreak = true
		}
		if !onlyFall && (!terminates(cc.Body) || breaksSwitch(cc.Body)) {
			nFall++
		}
		if cc.List == nil {
			if onlyFall || len(pending) > 0 {
				c.fail(s, "fallthrough around default")
			}
			def = cc.Body
			hasDef = true
			continue
		}
		var cs []string
		cs = append(cs, pending...)
		pending = nil
		for _, e := range cc.List {
			nb := len(c.binds)
			if tag != "" {
				cs = append(cs, "("+tag+" = "+c.expr(e)+")")
			} else {
				cs = append(cs, c.cond(e))
			}
			if len(c.binds) != nb {
				c.fail(e, "case expression can panic")
			}
		}
		if onlyFall {
			pending = cs
			continue
		}
		arms = append(arms, arm{strings.Join(cs, " ∨ "), cc.Body})
	}
	if len(pending) > 0 {
		c.fail(s, "fallthrough in the last clause")
	}
	if !hasDef {
		nFall++
	}
	c.inSwitch++
	defer func() { c.inSwitch-- }()
	build := func(callK string) string {
		c.switchBreak = append(c.switchBreak, callK)
		defer func() { c.switchBreak = c.switchBreak[:len(c.switchBreak)-1] }()
		code := c.block(def, callK)
		for i := len(arms) - 1; i >= 0; i-- {
			code = "if " + arms[i].cond + " then (\n" + indent(c.block(arms[i].body, callK), "  ") + ")\nelse (\n" + indent(code, "  ") + ")"
		}
		return code
	}
	if nFall == 0 && !hasBreak {
		return pre + build("")
	}
	restCode := c.block(rest, k)
	if nFall == 1 && !hasBreak {
		return pre + build(restCode)
	}
	return pre + c.jpWrap(s, restCode, build, s)
}

// does the statement list contain a `break` that leaves the enclosing switch?
func breaksSwitch(list []ast.Stmt) bool {
	found := false
	var walk func(n ast.Node)
	walk = func(n ast.Node) {
		ast.Inspect(n, func(m ast.Node) bool {
			switch x := m.(type) {
			case *ast.ForStmt, *ast.RangeStmt, *ast.SwitchStmt, *ast.TypeSwitchStmt, *ast.SelectStmt, *ast.FuncLit:
				if m != n {
					return false
				}
			case *ast.BranchStmt:
				if x.Tok == token.BREAK && x.Label == nil {
					found = true
				}
			}
			return true
		})
	}
	for _, s := range list {
		walk(s)
	}
	return found
}

// can the loop body return a value from the function (anything but `return …, <error constructor>`)?
func (c *fctx) hasValueReturn(body ast.Node) bool {
	found := false
	ast.Inspect(body, func(n ast.Node) bool {
		switch x := n.(type) {
		case *ast.FuncLit:
			return false
		case *ast.ReturnStmt:
			if !c.fi.hasErr || len(x.Results) == 0 {
				found = true
				return false
			}
			last := x.Results[len(x.Results)-1]
			if call, ok := last.(*ast.CallExpr); ok && c.errorCtor(call) {
				return true
			}
			found = true
		}
		return !found
	})
	return found
}

// ---------- loops

func (l *loopCtx) contCode() string { return l.cont() }

func (c *fctx) loopName() string {
	c.fi.loops++
	return fmt.Sprintf("%s.loop%d", c.fi.leanName, c.fi.loops)
}

func (c *fctx) varDecls(n ast.Node, vs []*types.Var) (params, names, tys []string) {
	for _, v := range vs {
		lt := c.vtype(n, v)
		params = append(params, fmt.Sprintf("(%s : %s)", c.name(v), lt))
		names = append(names, c.name(v))
		tys = append(tys, lt)
	}
	return
}

func (c *fctx) afterLoop(n ast.Node, callTerm string, state []*types.Var, names []string, rest []ast.Stmt, k string, valueRet bool) string {
	r := c.fresh("s")
	code := "(" + callTerm + ") >>= fun " + r + " =>\n"
	if valueRet {
		st := c.fresh("st")
		prop := "Res.ok v_"
		if len(c.loops) > 0 {
			if !c.loops[len(c.loops)-1].valueRet {
				c.fail(n, "value return out of a nested loop")
			}
			prop = "Res.ok (Sum.inr v_)"
		}
		body := ""
		for i := range state {
			body += fmt.Sprintf("let %s := %s;\n", names[i], proj(st, i, len(state)))
		}
		body += c.block(rest, k)
		return code + "match " + r + " with\n| Sum.inr v_ => " + prop + "\n| Sum.inl " + st + " => (\n" + indent(body, "  ") + ")"
	}
	for i := range state {
		code += fmt.Sprintf("let %s := %s;\n", names[i], proj(r, i, len(state)))
	}
	return code + c.block(rest, k)
}

func (c *fctx) loopTypes(stys []string, valueRet bool) (retT, exitWrap string) {
	retT = tupleType(stys)
	if valueRet {
		return "Sum (" + retT + ") (" + c.retT + ")", "Sum.inl "
	}
	return retT, ""
}

func (c *fctx) forStmt(s *ast.ForStmt, rest []ast.Stmt, k string) string {
	if s.Init != nil {
		c.simple(s.Init)
	}
	fuel := c.fuelFor(s)
	pre := c.flush()
	state := c.assignedOutside(s.Body, s.Body, s.Post) // declared outside the body (the Init variable included)
	// variables of Init are declared inside s but outside the body: assignedOutside(scope = body) keeps them
	stateSet := map[*types.Var]bool{}
	for _, v := range state {
		stateSet[v] = true
	}
	var env []*types.Var
	var condNode ast.Node
	if s.Cond != nil {
		condNode = s.Cond
	}
	for _, v := range c.freeVars(s.Body, condNode, s.Body, s.Post) {
		if !stateSet[v] {
			env = append(env, v)
		}
	}
	name := c.loopName()
	eparams, enames, _ := c.varDecls(s, env)
	sparams, snames, stys := c.varDecls(s, state)
	if c.fi.usesRand {
		sparams, snames, stys = append([]string{"(rnd_ : Rand)"}, sparams...), append([]string{"rnd_"}, snames...), append([]string{"Rand"}, stys...)
		state = append([]*types.Var{nil}, state...)
	}
	valueRet := c.hasValueReturn(s.Body)
	retT, wrap := c.loopTypes(stys, valueRet)
	recCall := name + "«LOOPP» fuel_ " + strings.Join(append(append([]string{}, enames...), snames...), " ")
	exit := "Res.ok (" + wrap + tupleVal(snames) + ")"
	lc := &loopCtx{breakCode: exit, valueRet: valueRet}
	lc.cont = func() string {
		if s.Post != nil {
			c.simple(s.Post)
			return c.flush() + recCall
		}
		return recCall
	}
	c.loops = append(c.loops, lc)
	c.retStack = append(c.retStack, retT)
	savedSwitch := c.inSwitch
	c.inSwitch = 0
	cond := "True"
	if s.Cond != nil {
		cond = c.cond(s.Cond)
	}
	cpre := c.flush()
	body := c.block(s.Body.List, lc.cont())
	c.inSwitch = savedSwitch
	c.retStack = c.retStack[:len(c.retStack)-1]
	c.loops = c.loops[:len(c.loops)-1]
	def := fmt.Sprintf("/-- loop at %s -/\ndef %s«LOOPPRIMS» (fuel : Nat) %s : Res (%s) :=\n  match fuel with\n  | 0 => Go.outOfFuel\n  | fuel_ + 1 =>\n%s\n",
		c.t.pos(s), name, strings.Join(append(append([]string{}, eparams...), sparams...), " "), retT,
		indent(cpre+"if "+cond+" then (\n"+indent(body, "  ")+")\nelse ("+exit+")", "    "))
	c.fi.aux = append(c.fi.aux, def)
	call := name + "«LOOPP» (" + fuel + ") " + strings.Join(append(append([]string{}, enames...), snames...), " ")
	return pre + c.afterLoop(s, call, state, snames, rest, k, valueRet)
}

// the number of iterations the loop header allows, as a Lean Nat term evaluated before the loop
func (c *fctx) fuelFor(s *ast.ForStmt) string {
	if s.Cond == nil {
		// `for { … }` that consumes a reader: every iteration reads at least one octet or leaves the loop
		var reader ast.Expr
		ast.Inspect(s.Body, func(n ast.Node) bool {
			if call, ok := n.(*ast.CallExpr); ok && reader == nil {
				if m, recv := c.stdMethod(call); m == "bufio.Reader.ReadByte" || m == "bytes.Reader.ReadByte" {
					reader = recv
				}
			}
			return reader == nil
		})
		if reader == nil {
			// `for { … rand.Int … }`: rejection sampling — it ends with probability 1, no bound follows from the
			// text; the translation allows Go.unboundedLoopFuel iterations (running out is a fault, i.e. on the safe side)
			draws := false
			ast.Inspect(s.Body, func(n ast.Node) bool {
				if call, ok := n.(*ast.CallExpr); ok && c.pkgFunc(call) == "crypto/rand.Int" {
					draws = true
				}
				return !draws
			})
			if !draws {
				c.fail(s, "for without condition")
			}
			c.fi.notes = appendOnce(c.fi.notes, "a loop without a condition around rand.Int (rejection sampling) is bounded by Go.unboundedLoopFuel iterations; running out is a fault")
			return "Go.unboundedLoopFuel"
		}
		return "(" + c.expr(reader) + ").length + 2"
	}
	be, ok := s.Cond.(*ast.BinaryExpr)
	if !ok {
		c.fail(s, "loop condition without a recognisable bound")
	}
	isLen := func(e ast.Expr) (ast.Expr, bool) {
		call, ok := e.(*ast.CallExpr)
		if !ok {
			return nil, false
		}
		id, ok := call.Fun.(*ast.Ident)
		if !ok || id.Name != "len" {
			return nil, false
		}
		return call.Args[0], true
	}
	x, y, op := be.X, be.Y, be.Op
	if _, ok := isLen(y); ok {
		// 0 < len(x)  ==> len(x) > 0
		x, y = y, x
		op = map[token.Token]token.Token{token.LSS: token.GTR, token.LEQ: token.GEQ, token.GTR: token.LSS, token.GEQ: token.LEQ, token.NEQ: token.NEQ}[op]
	}
	if arg, ok := isLen(x); ok && (op == token.GTR || op == token.GEQ || op == token.NEQ) {
		if v := rootVar(c.info, arg); v != nil {
			return "(" + c.expr(arg) + ").length + 1"
		}
	}
	// `for len(x) < N`: every iteration makes x longer
	if arg, ok := isLen(x); ok && (op == token.LSS || op == token.LEQ) {
		if v := rootVar(c.info, arg); v != nil {
			return "((" + c.toInt(y) + ") - ((" + c.expr(arg) + ").length : Int)).toNat + 2"
		}
	}
	// counting loops on a variable
	if id, ok := x.(*ast.Ident); ok {
		v := c.localVar(id)
		if v != nil && s.Post != nil {
			k, _ := intKind(v.Type())
			up, down := false, false
			switch p := s.Post.(type) {
			case *ast.IncDecStmt:
				if pid, ok := p.X.(*ast.Ident); ok && c.localVar(pid) == v {
					up = p.Tok == token.INC
					down = p.Tok == token.DEC
				}
			case *ast.AssignStmt:
				if pid, ok := p.Lhs[0].(*ast.Ident); ok && c.localVar(pid) == v && len(p.Rhs) == 1 {
					if tv := c.info.Types[p.Rhs[0]]; tv.Value != nil && constant.Sign(tv.Value) > 0 {
						up = p.Tok == token.ADD_ASSIGN
						down = p.Tok == token.SUB_ASSIGN
					}
				}
			}
			if up && (op == token.LSS || op == token.LEQ) {
				if c.isNatExpr(x) && c.isNatExpr(y) {
					ny, _ := c.natTerm(y)
					nx, _ := c.natTerm(x)
					return "(" + ny + " - " + nx + ") + 2"
				}
				return "((" + c.toInt(y) + ") - (" + c.toInt(x) + ")).toNat + 2"
			}
			if down && (op == token.GTR || op == token.GEQ || op == token.NEQ) {
				if k == types.Int {
					return "((" + c.toInt(x) + ") - (" + c.toInt(y) + ")).toNat + 2"
				}
				return "(" + c.expr(x) + ").toNat + 1"
			}
		}
	}
	c.fail(s, "loop condition without a recognisable bound")
	return ""
}

func (c *fctx) rangeStmt(s *ast.RangeStmt, rest []ast.Stmt, k string) string {
	xt := c.info.Types[s.X].Type
	sl, ok := xt.Underlying().(*types.Slice)
	mp, isMap := xt.Underlying().(*types.Map)
	if !ok && !isMap {
		c.fail(s, "range over %s", xt)
	}
	if s.Tok == token.ASSIGN {
		c.fail(s, "range with assignment")
	}
	xs := c.expr(s.X)
	if isMap {
		xs = "(Go.mapEntries " + xs + ")"
	}
	pre := c.flush()
	state := c.assignedOutside(s, s.Body)
	stateSet := map[*types.Var]bool{}
	for _, v := range state {
		stateSet[v] = true
	}
	var env []*types.Var
	for _, v := range c.freeVars(s, s.Body) {
		if !stateSet[v] {
			env = append(env, v)
		}
	}
	name := c.loopName()
	eparams, enames, _ := c.varDecls(s, env)
	sparams, snames, stys := c.varDecls(s, state)
	if c.fi.usesRand {
		sparams, snames, stys = append([]string{"(rnd_ : Rand)"}, sparams...), append([]string{"rnd_"}, snames...), append([]string{"Rand"}, stys...)
		state = append([]*types.Var{nil}, state...)
	}
	valueRet := c.hasValueReturn(s.Body)
	retT, wrap := c.loopTypes(stys, valueRet)
	var et string
	elem := "x_"
	var binders string
	if isMap {
		et = "(" + c.ltype(s, mp.Key()) + " × " + c.ltype(s, mp.Elem()) + ")"
		if id, ok := s.Key.(*ast.Ident); ok && id.Name != "_" {
			binders += fmt.Sprintf("let %s : %s := x_.1;\n", c.name(c.info.Defs[id]), c.ltype(s, mp.Key()))
		}
		if id, ok := s.Value.(*ast.Ident); ok && id.Name != "_" {
			binders += fmt.Sprintf("let %s : %s := x_.2;\n", c.name(c.info.Defs[id]), c.ltype(s, mp.Elem()))
		}
	} else {
		et = c.ltype(s, sl.Elem())
		if id, ok := s.Value.(*ast.Ident); ok && id.Name != "_" {
			elem = c.name(c.info.Defs[id])
		}
	}
	if id, ok := s.Key.(*ast.Ident); ok && id.Name != "_" && !isMap {
		kv := c.info.Defs[id].(*types.Var)
		if c.natVars[kv] {
			binders = fmt.Sprintf("let %s : Nat := idx_;\n", c.name(kv))
		} else {
			binders = fmt.Sprintf("let %s : Int := (idx_ : Int);\n", c.name(kv))
		}
	}
	recCall := name + "«LOOPP» rest_ (idx_ + 1) " + strings.Join(append(append([]string{}, enames...), snames...), " ")
	exit := "Res.ok (" + wrap + tupleVal(snames) + ")"
	lc := &loopCtx{breakCode: exit, valueRet: valueRet}
	lc.cont = func() string { return recCall }
	c.loops = append(c.loops, lc)
	c.retStack = append(c.retStack, retT)
	savedSwitch := c.inSwitch
	c.inSwitch = 0
	body := c.block(s.Body.List, recCall)
	c.inSwitch = savedSwitch
	c.retStack = c.retStack[:len(c.retStack)-1]
	c.loops = c.loops[:len(c.loops)-1]
	def := fmt.Sprintf("/-- range loop at %s -/\ndef %s«LOOPPRIMS» (xs_ : List %s) (idx_ : Nat) %s : Res (%s) :=\n  match xs_ with\n  | [] => %s\n  | %s :: rest_ =>\n%s\n",
		c.t.pos(s), name, et, strings.Join(append(append([]string{}, eparams...), sparams...), " "), retT, exit, elem,
		indent(binders+body, "    "))
	c.fi.aux = append(c.fi.aux, def)
	call := name + "«LOOPP» " + xs + " 0 " + strings.Join(append(append([]string{}, enames...), snames...), " ")
	return pre + c.afterLoop(s, call, state, snames, rest, k, valueRet)
}

func loopArgs(fi *fnInfo) string {
	s := ""
	if fi.usesPrims {
		s += " P"
	}
	if fi.usesGlobals || fi.isInit {
		s += " G_"
	}
	for _, g := range extGlobalNames(fi) {
		s += " G_" + g
	}
	return s
}

func isPanicCall(info *types.Info, s *ast.ExprStmt) bool {
	call, ok := s.X.(*ast.CallExpr)
	if !ok {
		return false
	}
	id, ok := call.Fun.(*ast.Ident)
	if !ok {
		return false
	}
	b, ok := info.Uses[id].(*types.Builtin)
	return ok && b.Name() == "panic"
}

// paramEscapes: does the function use its parameter p as a plain value (stores it, passes it on, returns it, puts it
// into a literal) rather than only through selectors?  Conservative: any bare occurrence outside a selector base,
// a nil comparison or a dereference counts.
func (t *translator) paramEscapes(fi *fnInfo, p *types.Var) bool {
	if t.escMemo == nil {
		t.escMemo = map[*types.Var]bool{}
	}
	if r, ok := t.escMemo[p]; ok {
		return r
	}
	info := fi.pkg.TypesInfo
	esc := false
	var visit func(n ast.Node)
	visit = func(n ast.Node) {
		ast.Inspect(n, func(m ast.Node) bool {
			if esc {
				return false
			}
			switch x := m.(type) {
			case *ast.SelectorExpr:
				if id, ok := ast.Unparen(x.X).(*ast.Ident); ok && info.Uses[id] == p {
					// p.f / p.M(...): through the pointer.  A method call hands p to the method: look there
					if sel, ok := info.Selections[x]; ok && sel.Kind() == types.MethodVal {
						if mf, ok := sel.Obj().(*types.Func); ok {
							if ci := t.fns[mf]; ci != nil && ci.recv != nil && ci != fi {
								if t.paramEscapes(ci, ci.recv) {
									esc = true
								}
							} else if ci == nil {
								esc = true
							}
						}
					}
					return false
				}
			case *ast.StarExpr:
				if id, ok := ast.Unparen(x.X).(*ast.Ident); ok && info.Uses[id] == p {
					return false
				}
			case *ast.BinaryExpr:
				if v, _ := nilCompared(info, x, map[*types.Var]bool{p: true}); v != nil {
					return false
				}
			case *ast.Ident:
				if info.Uses[x] == p {
					esc = true
				}
			}
			return true
		})
	}
	t.escMemo[p] = true // recursion: assume the worst
	visit(fi.decl.Body)
	t.escMemo[p] = esc
	return esc
}
